#!/bin/bash
# usage: tools/mutant.sh <ID> <name> <file-relative-to-repo> <python-regex-or-literal old> <new>   (literal replace, first occurrence)
# Creates a scratch worktree of /repo HEAD, applies the edit, runs ./check <ID> quick against it, removes the worktree.
set -u
ID=$1; NAME=$2; FILE=$3; OLD=$4; NEW=$5
WT=/tmp/mut-$ID-$NAME-$$
git -C /repo worktree add -q --detach $WT HEAD || exit 3
python3 - "$WT/$FILE" "$OLD" "$NEW" <<'PY'
import sys
p,old,new=sys.argv[1:4]
s=open(p).read()
if old not in s:
    print("MUTANT-ERROR: pattern not found"); sys.exit(4)
open(p,'w').write(s.replace(old,new,1))
PY
rc=$?
if [ $rc -eq 0 ]; then
  (cd $WT && GOFLAGS=-mod=mod GOPROXY=off GOSUMDB=off GOTOOLCHAIN=local go1.26.8 build ./$(dirname $FILE)/ 2>&1 | head -5)
  VERIF_REPO=$WT timeout 1200 /verif/check $ID ${TIER:-quick} > /tmp/mut-$ID-$NAME.log 2>&1
  rc=$?
  echo "MUTANT $ID/$NAME exit=$rc $(grep -c '^VIOLATION' /tmp/mut-$ID-$NAME.log) violation(s) $(grep -m1 -o '\[[a-z0-9-]*\] [^\\n]\{0,140\}' /tmp/mut-$ID-$NAME.log | head -1)"
fi
git -C /repo worktree remove --force $WT
TAG=$(python3 -c "import hashlib,sys;print(hashlib.sha256(sys.argv[1].encode()).hexdigest()[:10])" $WT)
rm -rf /verif/.cache/alt/go-$TAG.* /verif/.cache/bin/*.$TAG*.test /verif/.cache/out/*.$TAG 2>/dev/null
exit 0
