#!/bin/bash
# usage: tools/seedall.sh C07 C14 ...   runs seedtest for every delivered change of the given properties
for p in "$@"; do for n in 1 2 3; do [ -d /tmp/${SEEDPFX:-seed}-$p-out/$n ] && python3 /verif/tools/seedtest.py $p /tmp/${SEEDPFX:-seed}-$p-out/$n 2>&1 | tail -1 > /tmp/${SEEDPFX:-seed}-$p-out/$n.result.json && python3 -c "
import sys,json
r=json.load(open('/tmp/${SEEDPFX:-seed}-$p-out/$n.result.json')); print(r['property'], r['dir'][-1], 'dir',r.get('demo_dir'),'noPatchPass',r.get('demo_passes_without_patch'),'patchFail',r.get('demo_fails_with_patch'),'tests',r.get('existing_tests_pass'),'CAUGHT' if r.get('caught') else 'MISSED', r.get('check_exit'), r.get('sigs'))"; done; done
