#!/usr/bin/env python3
"""Copies confirmed seeded regressions from /tmp/seed-<ID>-out/<n>/ into /verif/seeded/<ID>-<n>/ with a meta.json
that records what the change breaks, what it needs to manifest and what was run here to confirm / detect it."""
import json, os, shutil, sys, glob
PFX = os.environ.get('SEEDPFX', 'seed')
OFF = int(os.environ.get('SEEDOFF', '0'))
for pid in sys.argv[1:]:
    for d in sorted(glob.glob('/tmp/%s-%s-out/[0-9]' % (PFX, pid))):
        n = os.path.basename(d)
        rf = d + '.result.json'
        if not os.path.exists(rf):
            continue
        r = json.load(open(rf))
        confirmed = r.get('demo_passes_without_patch') and r.get('demo_fails_with_patch') and r.get('existing_tests_pass') and r.get('builds')
        if not confirmed:
            print("NOT CONFIRMED", pid, n, {k: r.get(k) for k in ('demo_passes_without_patch', 'demo_fails_with_patch', 'existing_tests_pass', 'builds')})
            continue
        dst = '/verif/seeded/%s-%d' % (pid, int(n) + OFF)
        os.makedirs(dst, exist_ok=True)
        am = json.load(open(os.path.join(d, 'meta.json')))
        for f in os.listdir(d):
            if f != 'meta.json':
                shutil.copy(os.path.join(d, f), os.path.join(dst, f))
        meta = {
            "property": pid,
            "summary": am.get("summary"),
            "breaks_clause": am.get("breaks_clause"),
            "needs_to_manifest": am.get("needs_to_manifest"),
            "files_touched": r.get("touched"),
            "demo_placement": r.get("demo_dir"),
            "author": "independent sub-agent given only the property text and a scratch worktree",
            "confirmed_here": {
                "how": "tools/seedtest.py: fresh worktree of /repo HEAD; demo on unchanged HEAD; git apply patch.diff; go build; demo again; existing tests of the touched packages; ./check %s quick with VERIF_REPO=<worktree>; worktree removed" % pid,
                "demo_passes_without_patch": r.get("demo_passes_without_patch"),
                "demo_fails_with_patch": r.get("demo_fails_with_patch"),
                "existing_tests_pass_with_patch": r.get("existing_tests_pass"),
                "builds": r.get("builds"),
            },
            "detected_by_check": {"check": pid, "tier": "quick", "caught": r.get("caught"), "exit": r.get("check_exit"), "signatures": r.get("sigs")},
        }
        json.dump(meta, open(os.path.join(dst, 'meta.json'), 'w'), indent=1)
        print("saved", dst, "caught" if r.get("caught") else "MISSED")
