// Command genkeys writes the committed key pool (run once; the pool is part of the repository so
// that a seed reproduces the same certificates).
package main

import (
	"crypto/dsa"
	"crypto/ecdsa"
	"crypto/ed25519"
	"crypto/elliptic"
	"crypto/rand"
	"crypto/rsa"
	"crypto/x509"
	"encoding/json"
	"encoding/pem"
	"fmt"
	"os"
	"path/filepath"
)

func main() {
	dir := os.Args[1]
	w := func(name string, k any) {
		der, err := x509.MarshalPKCS8PrivateKey(k)
		if err != nil {
			panic(err)
		}
		os.WriteFile(filepath.Join(dir, name+".pem"), pem.EncodeToMemory(&pem.Block{Type: "PRIVATE KEY", Bytes: der}), 0o644)
	}
	for i := 0; i < 2; i++ {
		k, _ := rsa.GenerateKey(rand.Reader, 1024)
		w(fmt.Sprintf("rsa1024-%d", i), k)
	}
	for i := 0; i < 6; i++ {
		k, _ := rsa.GenerateKey(rand.Reader, 2048)
		w(fmt.Sprintf("rsa2048-%d", i), k)
	}
	for i := 0; i < 2; i++ {
		k, _ := rsa.GenerateKey(rand.Reader, 3072)
		w(fmt.Sprintf("rsa3072-%d", i), k)
	}
	for name, c := range map[string]elliptic.Curve{"p224": elliptic.P224(), "p256": elliptic.P256(), "p384": elliptic.P384(), "p521": elliptic.P521()} {
		n := 2
		if name == "p256" {
			n = 16
		}
		if name == "p384" {
			n = 4
		}
		for i := 0; i < n; i++ {
			k, _ := ecdsa.GenerateKey(c, rand.Reader)
			if name == "p224" {
				// PKCS8 supports P-224 in Go
			}
			w(fmt.Sprintf("%s-%d", name, i), k)
		}
	}
	for i := 0; i < 4; i++ {
		_, k, _ := ed25519.GenerateKey(rand.Reader)
		w(fmt.Sprintf("ed25519-%d", i), k)
	}
	for name, sz := range map[string]dsa.ParameterSizes{"dsa1024": dsa.L1024N160, "dsa2048": dsa.L2048N256} {
		var k dsa.PrivateKey
		if err := dsa.GenerateParameters(&k.Parameters, rand.Reader, sz); err != nil {
			panic(err)
		}
		dsa.GenerateKey(&k, rand.Reader)
		b, _ := json.Marshal(map[string]string{"P": k.P.Text(16), "Q": k.Q.Text(16), "G": k.G.Text(16), "Y": k.Y.Text(16), "X": k.X.Text(16)})
		os.WriteFile(filepath.Join(dir, name+"-0.json"), b, 0o644)
	}
}
