#!/usr/bin/env python3
"""Re-runs the quick tier against saved seeded regressions and refreshes their meta.json.
usage: tools/reseed.py <name>[:<CHECK>] ...   e.g. tools/reseed.py C07-4 C01-5:C14
With :<CHECK> the named check (another property's) is run instead of the seed's own; the result is stored
under detected_by_other_check."""
import json, os, subprocess, sys
for arg in sys.argv[1:]:
    name, _, other = arg.partition(':')
    d = '/verif/seeded/' + name
    pid = other or name.split('-')[0]
    out = subprocess.run(['python3', '/verif/tools/seedtest.py', pid, d, '--skip-confirm'], stdout=subprocess.PIPE, text=True).stdout.strip().splitlines()[-1]
    r = json.loads(out)
    m = json.load(open(d + '/meta.json'))
    rec = {"check": pid, "tier": "quick", "caught": r.get("caught"), "exit": r.get("check_exit"), "signatures": r.get("sigs")}
    if other:
        m["detected_by_other_check"] = rec
    else:
        m["detected_by_check"] = rec
    json.dump(m, open(d + '/meta.json', 'w'), indent=1)
    print(name, pid, 'caught' if r.get('caught') else 'MISSED', r.get('sigs'))
