#!/usr/bin/env python3
"""Re-runs every saved seeded regression against the current checks (quick tier), N at a time, and refreshes
seeded/*/meta.json. usage: tools/reseedall.py [N=6] [name-prefix ...]
A seed also recorded under detected_by_other_check is re-run against that check too."""
import glob, json, os, subprocess, sys, concurrent.futures as cf
n = int(sys.argv[1]) if len(sys.argv) > 1 and sys.argv[1].isdigit() else 6
pref = [a for a in sys.argv[1:] if not a.isdigit()]
names = sorted(os.path.basename(os.path.dirname(f)) for f in glob.glob('/verif/seeded/*/meta.json'))
if pref:
    names = [x for x in names if any(x.startswith(p) for p in pref)]
jobs = []
for x in names:
    m = json.load(open('/verif/seeded/%s/meta.json' % x))
    jobs.append(x)
    o = (m.get('detected_by_other_check') or {}).get('check')
    if o:
        jobs.append('%s:%s' % (x, o))
def run(j):
    r = subprocess.run(['python3', '/verif/tools/reseed.py', j], stdout=subprocess.PIPE, stderr=subprocess.STDOUT, text=True, errors='replace')
    return r.stdout.strip().splitlines()[-1] if r.stdout.strip() else j + ' ??'
with cf.ThreadPoolExecutor(n) as ex:
    for line in ex.map(run, jobs):
        print(line, flush=True)
