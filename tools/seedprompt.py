#!/usr/bin/env python3
"""Writes the prompt for an independent engineer who plants regressions for one property.
usage: tools/seedprompt.py <PFX> <ID>...   -> /tmp/seedprompts/<ID>-<PFX>.txt, worktree /tmp/<PFX>-<ID>, output /tmp/<PFX>-<ID>-out
The prompt contains the property text, the worktree path and (later rounds) one line per change that earlier
engineers delivered for the property - nothing about /verif or its checks."""
import glob, json, os, sys
pfx = sys.argv[1]
props = {}
for l in open('/verif/properties.jsonl'):
    p = json.loads(l)
    props[p['id']] = p
os.makedirs('/tmp/seedprompts', exist_ok=True)
for pid in sys.argv[2:]:
    p = props[pid]
    wt, out = '/tmp/%s-%s' % (pfx, pid), '/tmp/%s-%s-out' % (pfx, pid)
    earlier = []
    for m in sorted(glob.glob('/verif/seeded/%s-*/meta.json' % pid)):
        s = (json.load(open(m)).get('summary') or '').replace('\n', ' ')
        earlier.append('  - ' + s[:230])
    txt = """You are a software engineer asked to plant a realistic, subtle regression in a Go repository, to test a verification team's detectors. You know nothing about their detectors and must not look for them: do NOT read anything under /verif, /root/.vp or /root/.claude. Work ONLY inside your own scratch git worktree of the repository at %(wt)s (already created for you from the repository's current HEAD; module github.com/google/certificate-transparency-go). Never touch /repo itself.

The property your change must break (this text is all you get about it):

  %(id)s - %(title)s
  Statement: %(statement)s
  Quantified: %(q)s
""" % dict(wt=wt, id=pid, title=p['title'], statement=p['statement'], q=(p.get('quantifier') or {}).get('text') if isinstance(p.get('quantifier'), dict) else p.get('quantifier'))
    if earlier:
        txt += """
IMPORTANT - this is a LATER round. Other engineers already delivered the changes listed below, and the verification team has hardened its detectors against all of them; yours must be NEW: different mechanisms and clauses / quantifier dimensions of the property that the earlier changes did not touch. Think like a maintainer doing a plausible performance refactor, a feature addition, a dependency upgrade shim, a logging / metrics change with a side effect, or a "defensive" guard that is subtly wrong. Look at entry points, option combinations, data shapes and orders of operations that none of the earlier changes needed; interactions between two packages; behaviour that depends on process-wide state; resource limits; and the exact boundaries named in the statement:
""" + "\n".join(earlier) + "\n"
    txt += """
Task: produce up to THREE independent code changes (each one a separate small patch against the worktree's HEAD) to the repository's non-test Go source such that, for each change:
  (a) the repository still compiles: `cd %(wt)s && GOFLAGS=-mod=mod go build ./...` for the touched packages;
  (b) the EXISTING tests of the touched packages (and of obvious dependants) still pass unedited: `GOFLAGS=-mod=mod go test -vet=off -count=1 ./<pkg>/...` (no network exists; GOFLAGS=-mod=mod is required; default `go` is fine);
  (c) the property above is violated for some input / history / schedule / fault;
  (d) the violation needs something SPECIFIC to manifest - a particular interleaving, a fault or crash at a particular point, a multi-step sequence of operations, an unusual or boundary input, a particular configuration, or two cooperating edit sites that each look fine alone - NOT something ordinary use would expose at once. Prefer changes that look like plausible refactors, optimisations or off-by-one slips a reviewer could miss. The three changes should differ in mechanism and in the clause of the property they break.
For each change also write a demonstration: a Go test file (placed in the relevant package directory of the worktree, name it verif_demo_<n>_test.go) or a small program that FAILS with the change applied and PASSES on the unchanged HEAD. Confirm both directions yourself by actually running it (do NOT use git stash - the stash is shared by all worktrees of the repository and other engineers work in sibling worktrees; use `git diff > file; git checkout -- .; git apply file` instead).

Deliver, for change n in 1..3, a directory %(out)s/<n>/ containing: patch.diff (`git diff` of the non-test source change only, applicable with `git apply` at HEAD), the demonstration file(s) (copy them there, with a note of where they must be placed), and meta.json = {"property": "%(id)s", "summary": "...", "breaks_clause": "...", "needs_to_manifest": "...", "files_touched": [...], "demo_placement": "...", "commands_run": ["..."], "existing_tests_pass": true/false, "demo_fails_with_patch": true/false, "demo_passes_without_patch": true/false}. Leave the worktree clean (git checkout -- . ; remove untracked demo files) when done; do not delete the worktree directory itself. Keep your final message short: list the changes delivered with one line each. Be factual - report only what you actually ran.""" % dict(wt=wt, out=out, id=pid)
    open('/tmp/seedprompts/%s-%s.txt' % (pid, pfx), 'w').write(txt)
    print(pid, len(earlier), 'earlier changes listed')
