#!/usr/bin/env python3
"""Confirm a seeded regression and run our check against it.

usage: tools/seedtest.py <PROPERTY> <dir with patch.diff, meta.json, demo files> [--tier quick|thorough] [--skip-confirm]

Steps (all in a fresh scratch worktree of /repo HEAD, removed afterwards):
  1. demo on unchanged HEAD must PASS          4. existing tests of touched packages must pass
  2. apply patch.diff; build                   5. ./check <PROPERTY> <tier> with VERIF_REPO=<worktree> -> caught?
  3. demo with patch must FAIL
Prints one JSON line with the verdicts.
"""
import json, os, re, shutil, subprocess, sys, glob

prop, d = sys.argv[1], os.path.abspath(sys.argv[2])
tier = "quick"
if "--tier" in sys.argv:
    tier = sys.argv[sys.argv.index("--tier") + 1]
skip = "--skip-confirm" in sys.argv
wt = "/tmp/seedtest-%s-%d" % (prop, os.getpid())
env = dict(os.environ, GOFLAGS="-mod=mod")
res = {"property": prop, "dir": d}


def sh(cmd, cwd=None, timeout=1800, e=None):
    r = subprocess.run(cmd, shell=True, cwd=cwd, env=e or env, stdout=subprocess.PIPE, stderr=subprocess.STDOUT, text=True, errors="replace", timeout=timeout)
    return r.returncode, r.stdout


subprocess.check_call(["git", "-C", "/repo", "worktree", "add", "-q", "--detach", wt, "HEAD"])
try:
    meta = json.load(open(os.path.join(d, "meta.json")))
    patch = open(os.path.join(d, "patch.diff")).read()
    touched = sorted(set(re.findall(r"^\+\+\+ b/(\S+)", patch, re.M)))
    pkgs = sorted(set("./" + (os.path.dirname(f) or ".") for f in touched if f.endswith(".go")))
    res["touched"] = touched
    demos = [f for f in glob.glob(os.path.join(d, "*")) if os.path.basename(f) not in ("patch.diff", "meta.json", "PLACEMENT.txt", "README.md", "README.txt") and os.path.isfile(f)]
    place = meta.get("demo_placement", "")
    # demo placement: a directory relative to the repo root, guessed from meta or from the package of the patch
    demo_dir = None
    cands = re.findall(r"/tmp/seed-C\d+/([\w./-]*)", place) + [t for t in re.findall(r"[\w./-]+", place) if "/" in t]
    for cand in cands:
        c = cand.strip("./")
        c = re.sub(r"/?verif_demo\S*$", "", c).strip("/")
        if c == "":
            c = "."
        if not c.startswith("tmp") and os.path.isdir(os.path.join(wt, c)):
            demo_dir = c
            break
    if demo_dir is None:
        demo_dir = os.path.dirname(touched[0]) or "."
    if os.path.exists(os.path.join(d, "PLACEMENT.txt")):
        for cand in re.findall(r"/tmp/seed-C\d+/([\w./-]*)", open(os.path.join(d, "PLACEMENT.txt")).read()):
            c = re.sub(r"/?verif_demo\S*$", "", cand.strip("./")).strip("/") or "."
            if os.path.isdir(os.path.join(wt, c)):
                demo_dir = c
                break
    # the demo's package clause overrides a wrong guess
    for f in demos:
        if f.endswith("_test.go"):
            pm = re.search(r"^package (\w+)", open(f).read(), re.M)
            if pm:
                pkg = re.sub(r"_test$", "", pm.group(1))
                def pkgname(dirpath):
                    for g in glob.glob(os.path.join(wt, dirpath, "*.go")):
                        if not g.endswith("_test.go"):
                            mm = re.search(r"^package (\w+)", open(g).read(), re.M)
                            if mm:
                                return mm.group(1)
                    return None
                if pkgname(demo_dir) != pkg:
                    cands2 = ["."] + sorted(set(os.path.dirname(t) or "." for t in touched))
                    cands2 += [os.path.relpath(dp, wt) for dp, dn, fn in os.walk(wt) if os.path.basename(dp) == pkg]
                    for c in cands2:
                        if pkgname(c) == pkg:
                            demo_dir = c
                            break
            break
    res["demo_dir"] = demo_dir
    demo_tests = [f for f in demos if f.endswith("_test.go")]
    other = [f for f in demos if not f.endswith("_test.go")]

    def put_demos():
        for f in demo_tests:
            shutil.copy(f, os.path.join(wt, demo_dir, os.path.basename(f)))

    def run_demo():
        names = []
        for f in demo_tests:
            names += re.findall(r"^func (Test\w+)\(", open(f).read(), re.M)
        if not names:
            return None, "no Test functions found"
        rc, out = sh("go test -vet=off -count=1 -run '^(%s)$' ./%s/" % ("|".join(names), demo_dir), cwd=wt)
        return rc, out[-1500:]

    if not skip:
        put_demos()
        rc, out = run_demo()
        res["demo_passes_without_patch"] = (rc == 0)
        if rc != 0:
            res["demo_without_patch_output"] = out
    rc, out = sh("git apply --whitespace=nowarn %s" % os.path.join(d, "patch.diff"), cwd=wt)
    res["patch_applies"] = (rc == 0)
    if rc != 0:
        res["apply_output"] = out[-800:]
        raise SystemExit
    rc, out = sh("go build " + " ".join(pkgs), cwd=wt)
    res["builds"] = (rc == 0)
    if not skip:
        rc, out = run_demo()
        res["demo_fails_with_patch"] = (rc not in (0, None))
        for f in demo_tests:
            os.remove(os.path.join(wt, demo_dir, os.path.basename(f)))
        rc, out = sh("go test -vet=off -count=1 " + " ".join(p + "/..." if p != "./." else "." for p in pkgs), cwd=wt, timeout=3000)
        res["existing_tests_pass"] = (rc == 0)
        if rc != 0:
            res["existing_tests_output"] = "\n".join(l for l in out.splitlines() if "FAIL" in l or "panic" in l)[-1200:]
    e2 = dict(os.environ, VERIF_REPO=wt)
    rc, out = sh("/verif/check %s %s" % (prop, tier), cwd="/verif", e=e2, timeout=7200)
    res["check_exit"] = rc
    res["caught"] = (rc == 1 and "VIOLATION property=" in out)
    sigs = sorted(set(re.findall(r"^\s*(?:\S+\.go:\d+: )?(?:case \d+: )?\[([A-Za-z0-9:._/+-]+)\]", out, re.M)))
    res["sigs"] = [x for x in sigs if x != "rapid"][:8]
    if rc == 2:
        res["check_output_tail"] = out[-600:]
finally:
    subprocess.call(["git", "-C", "/repo", "worktree", "remove", "--force", wt])
    import hashlib
    tag = hashlib.sha256(os.path.realpath(wt).encode()).hexdigest()[:10]
    for p in glob.glob("/verif/.cache/alt/go-%s.*" % tag) + glob.glob("/verif/.cache/bin/*.%s*.test" % tag):
        os.remove(p)
    for p in glob.glob("/verif/.cache/out/*.%s" % tag):
        shutil.rmtree(p, ignore_errors=True)
    print(json.dumps(res))
