#!/usr/bin/env python3-vt
import json, sys, glob, jsonschema
m = json.load(open('/verif/MANIFEST.json'))
jsonschema.validate(m, json.load(open('/root/.vp/MANIFEST.schema.json')))
es = json.load(open('/root/.vp/EVIDENCE.schema.json'))
for c in m['checks']:
    f = c['evidence_file']
    try:
        jsonschema.validate(json.load(open(f)), es)
    except Exception as e:
        print("EVIDENCE INVALID", f, str(e)[:300]); continue
ids = {c['property_id'] for c in m['checks']} | {n['property_id'] for n in m.get('not_applicable', [])}
missing = [('C%02d' % i) for i in range(1, 21) if ('C%02d' % i) not in ids]
print("manifest ok; claimed", len(m['checks']), "n/a", len(m.get('not_applicable', [])), "missing", missing)
