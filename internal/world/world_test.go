package world

import (
	"crypto/x509"
	"testing"

	"verif/internal/pki"
)

// Both variants of a cross-signed path must verify with the standard library, and share the lower chain.
func TestCrossSignedPaths(t *testing.T) {
	a := Build(ChainSpec{ID: 77, Root: 0, Inters: []string{"p256", "p384"}, LeafKind: "p256", Cross: true})
	b := Build(ChainSpec{ID: 78, Root: 0, Inters: []string{"p256", "p384"}, LeafKind: "p256", Cross: true, CrossAlt: true})
	if string(a.Full[1]) != string(b.Full[1]) {
		t.Fatalf("issuing CA differs between the two variants")
	}
	if string(a.Full[2]) == string(b.Full[2]) || string(a.Full[3]) == string(b.Full[3]) {
		t.Fatalf("cross-signed variants do not differ above the issuing CA")
	}
	for _, bt := range []*Built{a, b} {
		roots, inters := x509.NewCertPool(), x509.NewCertPool()
		rc, _ := x509.ParseCertificate(bt.Root.DER)
		roots.AddCert(rc)
		for _, d := range bt.Full[1 : len(bt.Full)-1] {
			c, err := x509.ParseCertificate(d)
			if err != nil {
				t.Fatal(err)
			}
			inters.AddCert(c)
		}
		leaf, _ := x509.ParseCertificate(bt.Leaf.DER)
		if _, err := leaf.Verify(x509.VerifyOptions{Roots: roots, Intermediates: inters, CurrentTime: pki.Epoch}); err != nil {
			t.Fatalf("path does not verify: %v", err)
		}
	}
}
