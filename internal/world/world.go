// Package world provides a standard generated PKI and submission chains described as data
// (ChainSpec), plus the RFC 6962 entry an independent client derives from a chain.
package world

import (
	"crypto/sha256"
	"fmt"
	"math/big"
	"strings"
	"sync"
	"time"

	"pgregory.net/rapid"

	"verif/internal/derx"
	"verif/internal/keys"
	"verif/internal/pki"
	"verif/internal/preref"
	"verif/internal/rfc6962"
)

// RootKinds are the key kinds of the standard trusted roots (index = ChainSpec.Root).
var RootKinds = []string{"p256", "rsa2048", "p384", "ed25519"}

var (
	mu     sync.Mutex
	roots  []*pki.Cert
	inters = map[string]*pki.Cert{}
)

// Roots returns the standard trusted roots.
func Roots() []*pki.Cert {
	mu.Lock()
	defer mu.Unlock()
	if roots == nil {
		for i, k := range RootKinds {
			roots = append(roots, pki.Issue(nil, pki.CATemplate(fmt.Sprintf("World Root %d", i), keys.Pick(k, 0), int64(100+i), nil), fmt.Sprintf("root%d", i)))
		}
	}
	return roots
}

// ChainSpec describes one submission as plain data.
type ChainSpec struct {
	ID          uint32   // makes the leaf unique (serial, CN)
	Root        int      // index into Roots()
	Inters      []string // key kind of each intermediate, from the one below the root down to the issuer
	LeafKind    string
	Precert     bool
	PreIssuer   bool // precert signed by a dedicated precert-signing certificate under the last CA
	PreIssAKI   bool // the pre-issuer carries an AKI
	// PreIssAKIFull (with PreIssAKI): the pre-issuer's AKI has the keyid, authorityCertIssuer and
	// authorityCertSerialNumber members (the OpenSSL "keyid,issuer" style), not the key identifier alone
	PreIssAKIFull bool
	LeafAKI     bool // the leaf / precert carries an AKI
	IncludeRoot bool // root present in the submitted chain
	PoisonPos   int  // position of the poison among the leaf's extensions (mod n+1)
	ExtRot      int  // rotation applied to the leaf's other extensions
	NotAfterDay int  // leaf NotAfter = Epoch + NotAfterDay days (default 365 when 0)
	SigAlg      int  // index into the issuer key's algorithm list
	Quirky      bool // the leaf carries a SAN iPAddress of 5 octets: the lenient parser accepts it with a non-fatal error
	// Cross (needs >= 1 intermediate): the intermediate directly below the root is a cross-signed CA - one
	// subject and key, certified both by root Root and by root Root+1. CrossAlt selects the second
	// certificate, so two specs differing only in CrossAlt share every certificate below that CA while
	// their paths end in different roots.
	Cross    bool
	CrossAlt bool
	// RootTwin (0 none): the submitted chain ends, above the last CA, with a byte-different certificate that
	// has the subject and key of the trusted root the chain was issued under. 1: a re-issued self-signed
	// copy of that root (other serial), so the validated path is ..., copy, root; 2: a cross-certificate for
	// that root issued by the NEXT trusted root, so the validated path is ..., cross, next root.
	RootTwin int
	// RootOnly: the submission is a trusted root certificate on its own; the validated path is that one
	// certificate and the stored chain is empty. Overrides everything but Root.
	RootOnly bool
	// Bulk > 0 adds a private padding extension of that many octets to the leaf (large entries).
	Bulk int
	// NotAfterUnix != 0 overrides the leaf's NotAfter (seconds since 1970; the UTCTime / GeneralizedTime
	// switch of X.509 validity lies between 2049 and 2050).
	NotAfterUnix int64
}

// Built is a resolved ChainSpec.
type Built struct {
	Spec      ChainSpec
	Leaf      *pki.Cert
	Issuer    *pki.Cert   // the final issuing CA (whose key hash goes into a precert entry)
	PreIssuer *pki.Cert   // nil unless Spec.PreIssuer
	Path      []*pki.Cert // leaf, (pre-issuer), intermediates..., root
	Submit    [][]byte    // DER chain as submitted (root omitted unless IncludeRoot)
	Full      [][]byte    // DER of the complete path, root included
	Root      *pki.Cert
}

func inter(parent *pki.Cert, kind string, depth int) *pki.Cert {
	mu.Lock()
	defer mu.Unlock()
	key := fmt.Sprintf("%s/%s%d", parent.Label, kind, depth)
	if c, ok := inters[key]; ok {
		return c
	}
	base := strings.TrimSuffix(strings.TrimSuffix(kind, "-cteku"), "-nonull")
	k := keys.Pick(base, depth+1)
	if strings.Contains(kind, "-nonull") {
		k = noNullRSA(k)
	}
	tmpl := pki.CATemplate("World CA "+key, k, int64(1000+len(inters)), pki.KeyID(parent.Key))
	if strings.HasSuffix(kind, "-cteku") {
		// an issuing CA that lists the CT precertificate-signing EKU next to others although it issues final
		// certificates itself: below a dedicated pre-issuer it is the final issuer all the same
		tmpl.Exts = append(tmpl.Exts, pki.EKU(pki.OIDEKUServerAuth, pki.OIDEKUCT, pki.OIDEKUClientAuth))
	}
	c := pki.Issue(parent, tmpl, key)
	inters[key] = c
	return c
}

// noNullRSA returns the RSA key with a SubjectPublicKeyInfo whose AlgorithmIdentifier omits the NULL
// parameters: not what RFC 3279 prescribes, but seen in the wild; the lenient parser accepts it with a
// non-fatal error, and everything derived from the key (the issuer key hash of a precertificate entry) has to
// use these very bytes.
func noNullRSA(k *keys.Key) *keys.Key {
	n := derx.MustParse(k.SPKI)
	alg := n.Children[0]
	c := *k
	c.Name = k.Name + "-nonull"
	c.SPKI = derx.Seq(derx.Seq(alg.Children[0].Raw(k.SPKI)), n.Children[1].Raw(k.SPKI))
	return &c
}

var crossCAs = map[string]*pki.Cert{}

// crossCA returns the certificate of the cross-signed CA of the given key kind under the given root.
// All variants share subject, key and label, so certificates issued below them are shared too.
func crossCA(root *pki.Cert, kind string) *pki.Cert {
	mu.Lock()
	defer mu.Unlock()
	key := root.Label + "/" + kind
	if c, ok := crossCAs[key]; ok {
		return c
	}
	k := keys.Pick(strings.TrimSuffix(kind, "-nonull"), 1)
	if strings.HasSuffix(kind, "-nonull") {
		k = noNullRSA(k)
	}
	c := pki.Issue(root, pki.CATemplate("World Cross CA "+kind, k, int64(3000+len(crossCAs)), pki.KeyID(root.Key)), "cross/"+kind)
	crossCAs[key] = c
	return c
}

var rootTwins = map[string]*pki.Cert{}

// rootTwin returns the twin (kind 1 or 2, see ChainSpec.RootTwin) of standard root i.
func rootTwin(i, kind int) *pki.Cert {
	rs := Roots()
	mu.Lock()
	defer mu.Unlock()
	key := fmt.Sprintf("%d/%d", i, kind)
	if c, ok := rootTwins[key]; ok {
		return c
	}
	r := rs[i]
	var c *pki.Cert
	if kind == 1 {
		c = pki.Issue(nil, pki.CATemplate(fmt.Sprintf("World Root %d", i), r.Key, int64(7100+i), nil), r.Label)
	} else {
		x := rs[(i+1)%len(rs)]
		c = pki.Issue(x, pki.CATemplate(fmt.Sprintf("World Root %d", i), r.Key, int64(7200+i), pki.KeyID(x.Key)), r.Label)
	}
	rootTwins[key] = c
	return c
}

var preIssuers = map[string]*pki.Cert{}

func preIssuer(parent *pki.Cert, withAKI bool, fullAKI ...bool) *pki.Cert {
	mu.Lock()
	defer mu.Unlock()
	full := withAKI && len(fullAKI) > 0 && fullAKI[0]
	key := fmt.Sprintf("%s/pre/%v", parent.Label, withAKI)
	if full {
		key += "/full"
	}
	if c, ok := preIssuers[key]; ok {
		return c
	}
	k := keys.Pick("p256", 9+len(preIssuers)%5)
	t := pki.Template{Serial: big.NewInt(int64(5000 + len(preIssuers))), Subject: pki.CN("World PreIssuer " + key), NotBefore: pki.Epoch.AddDate(-1, 0, 0), NotAfter: pki.Epoch.AddDate(10, 0, 0), Key: k,
		Exts: []pki.Ext{pki.BasicConstraints(true, -1, true), pki.KeyUsage(pki.KUKeyCertSign), pki.EKU(pki.OIDEKUCT), pki.SKI(pki.KeyID(k))}}
	if full {
		// keyIdentifier [0], authorityCertIssuer [1] { directoryName [4] }, authorityCertSerialNumber [2]
		issuerName, serial := parent.Tmpl.Subject.DER(), big.NewInt(77)
		if parent.Parent != nil {
			issuerName = parent.Parent.Tmpl.Subject.DER()
		}
		if parent.Tmpl.Serial != nil {
			serial = parent.Tmpl.Serial
		}
		t.Exts = append(t.Exts, pki.Ext{OID: pki.OIDExtAKI, Value: derx.Seq(derx.TLV(0x80, pki.KeyID(parent.Key)), derx.TLV(0xa1, derx.TLV(0xa4, issuerName)), derx.TLV(0x82, derx.IntContent(serial)))})
	} else if withAKI {
		t.Exts = append(t.Exts, pki.AKI(pki.KeyID(parent.Key)))
	}
	c := pki.Issue(parent, t, key)
	preIssuers[key] = c
	return c
}

// Build resolves a spec into certificates. Deterministic given the spec (except signature randomness).
func Build(s ChainSpec) *Built {
	rs := Roots()
	rootIdx := mod(s.Root, len(rs))
	root := rs[rootIdx]
	if s.RootOnly {
		s = ChainSpec{ID: s.ID, Root: s.Root, RootOnly: true, IncludeRoot: true}
		return &Built{Spec: s, Root: root, Leaf: root, Issuer: root, Path: []*pki.Cert{root}, Full: [][]byte{root.DER}, Submit: [][]byte{root.DER}}
	}
	if n := len(s.Inters); n > 0 && s.Precert && !s.PreIssuer && strings.HasSuffix(s.Inters[n-1], "-cteku") {
		// a CA with the CT EKU that signs a precertificate itself IS a precertificate signing certificate by RFC 6962
		// s3.1: that reading is a different shape (PreIssuer); here the issuing CA of a direct precertificate never has it
		s.Inters = append([]string{}, s.Inters...)
		s.Inters[n-1] = strings.TrimSuffix(s.Inters[n-1], "-cteku")
	}
	b := &Built{Spec: s, Root: root}
	ca := root
	var cas []*pki.Cert
	for i, kind := range s.Inters {
		if i == 0 && s.Cross {
			if s.CrossAlt {
				rootIdx = mod(s.Root+1, len(rs))
				root = rs[rootIdx]
				b.Root = root
			}
			ca = crossCA(root, kind)
		} else {
			ca = inter(ca, kind, i)
		}
		cas = append(cas, ca)
	}
	b.Issuer = ca
	signer := ca
	if s.Precert && s.PreIssuer {
		b.PreIssuer = preIssuer(ca, s.PreIssAKI, s.PreIssAKIFull)
		signer = b.PreIssuer
	}
	lk := keys.Pick(s.LeafKind, int(s.ID))
	cn := fmt.Sprintf("leaf-%d", s.ID)
	days := s.NotAfterDay
	if days == 0 {
		days = 365
	}
	others := []pki.Ext{pki.KeyUsage(pki.KUDigitalSignature), pki.EKU(pki.OIDEKUServerAuth), pki.SANDNS(cn + ".example.com"), pki.SKI(pki.KeyID(lk)),
		{OID: []int{1, 3, 6, 1, 4, 1, 55555, 1}, Value: derx.Octets([]byte(cn))}}
	if s.LeafAKI {
		others = append(others, pki.AKI(pki.KeyID(signer.Key)))
	}
	if s.Bulk > 0 {
		pad := make([]byte, s.Bulk)
		for i := range pad {
			pad[i] = byte(uint32(i)*2654435761>>24) ^ byte(s.ID)
		}
		others = append(others, pki.Ext{OID: []int{1, 3, 6, 1, 4, 1, 55555, 2}, Value: derx.Octets(pad)})
	}
	if s.Quirky {
		// replace the SAN by one that also holds a malformed iPAddress (5 octets)
		others[2] = pki.Ext{OID: pki.OIDExtSAN, Value: derx.Seq(derx.TLV(0x82, []byte(cn+".example.com")), derx.TLV(0x87, []byte{10, 0, 0, 1, 9}))}
	}
	r := mod(s.ExtRot, len(others))
	others = append(others[r:], others[:r]...)
	exts := others
	if s.Precert {
		p := mod(s.PoisonPos, len(others)+1)
		exts = append(append(append([]pki.Ext{}, others[:p]...), pki.Poison()), others[p:]...)
	}
	algs := pki.SigAlgsFor(signer.Key)
	notAfter := pki.Epoch.Add(time.Duration(days) * 24 * time.Hour)
	if s.NotAfterUnix != 0 {
		notAfter = time.Unix(s.NotAfterUnix, 0).UTC()
	}
	t := pki.Template{Serial: new(big.Int).SetUint64(uint64(s.ID)<<8 | 1), Subject: pki.CN(cn), NotBefore: pki.Epoch.AddDate(0, -1, 0), NotAfter: notAfter, Key: lk, Exts: exts, SigAlg: algs[mod(s.SigAlg, len(algs))]}
	b.Leaf = pki.Issue(signer, t, cn)
	b.Path = []*pki.Cert{b.Leaf}
	if b.PreIssuer != nil {
		b.Path = append(b.Path, b.PreIssuer)
	}
	for i := len(cas) - 1; i >= 0; i-- {
		b.Path = append(b.Path, cas[i])
	}
	switch s.RootTwin {
	case 1:
		b.Path = append(b.Path, rootTwin(rootIdx, 1))
	case 2:
		b.Path = append(b.Path, rootTwin(rootIdx, 2))
		root = rs[(rootIdx+1)%len(rs)]
		b.Root = root
	}
	b.Path = append(b.Path, root)
	for _, c := range b.Path {
		b.Full = append(b.Full, c.DER)
	}
	b.Submit = b.Full[:len(b.Full)-1]
	if s.IncludeRoot {
		b.Submit = b.Full
	}
	return b
}

func mod(a, n int) int {
	if n <= 0 {
		return 0
	}
	a %= n
	if a < 0 {
		a += n
	}
	return a
}

// Entry is the RFC 6962 entry an independent client derives from the chain: for an X.509 entry the
// leaf certificate; for a precertificate the de-poisoned TBSCertificate (issuer and AKI rewritten when a
// precert-signing certificate was used) and the SHA-256 of the final issuer's SubjectPublicKeyInfo.
func (b *Built) Entry() rfc6962.Entry {
	if !b.Spec.Precert {
		return rfc6962.Entry{Type: rfc6962.X509Entry, Cert: b.Leaf.DER}
	}
	var pi *preref.PreIssuer
	if b.PreIssuer != nil {
		pi = &preref.PreIssuer{IssuerDER: b.PreIssuer.IssuerDER(), AKIValue: preref.ExtValue(b.PreIssuer.DER, preref.OIDAKI)}
	}
	tbs, err := preref.Transform(b.Leaf.TBS, preref.OIDPoison, pi)
	if err != nil {
		panic(err)
	}
	return rfc6962.Entry{Type: rfc6962.PrecertEntry, TBS: tbs, IssuerKeyHash: sha256.Sum256(b.Issuer.Key.SPKI)}
}

// ExtraData is the RFC 6962 s4.6 extra_data for the entry (chain with the root included).
func (b *Built) ExtraData() []byte {
	var out []byte
	var err error
	if b.Spec.Precert {
		out, err = rfc6962.EncodePrecertChainEntry(b.Full[0], b.Full[1:])
	} else {
		out, err = rfc6962.EncodeChain(b.Full[1:])
	}
	if err != nil {
		panic(err)
	}
	return out
}

// NotAfterBoundaries are expiry instants around the encoding switch of X.509 validity and at its far end.
var NotAfterBoundaries = []int64{
	time.Date(2049, 12, 31, 23, 59, 59, 0, time.UTC).Unix(), time.Date(2050, 1, 1, 0, 0, 0, 0, time.UTC).Unix(),
	time.Date(2050, 7, 1, 12, 0, 0, 0, time.UTC).Unix(), time.Date(2050, 12, 31, 23, 59, 59, 0, time.UTC).Unix(),
	time.Date(2051, 1, 1, 0, 0, 0, 0, time.UTC).Unix(), time.Date(2100, 2, 28, 0, 0, 1, 0, time.UTC).Unix(),
	time.Date(9999, 12, 31, 23, 59, 59, 0, time.UTC).Unix(),
}

// GenSpecX draws a ChainSpec like GenSpec and, rarely, one of the unusual top-of-chain shapes: a twin of
// the trusted root as last submitted certificate (1 in 5) or a trusted root submitted on its own (1 in 16).
func GenSpecX(t *rapid.T, label string) ChainSpec {
	s := GenSpec(t, label)
	switch rapid.IntRange(0, 9).Draw(t, label+".twin") {
	case 0:
		s.RootTwin = 1
	case 1:
		s.RootTwin = 2
	}
	if rapid.IntRange(0, 5).Draw(t, label+".na") == 0 {
		s.NotAfterUnix = rapid.SampledFrom(NotAfterBoundaries).Draw(t, label+".notafter")
	}
	if len(s.Inters) > 0 && rapid.IntRange(0, 7).Draw(t, label+".nonull") == 0 {
		// the issuing CA's RSA key is encoded without the NULL algorithm parameters
		s.Inters[len(s.Inters)-1] = "rsa2048-nonull"
	}
	if s.Precert && s.PreIssuer && s.PreIssAKI && rapid.IntRange(0, 2).Draw(t, label+".piakifull") == 0 {
		s.PreIssAKIFull = true
	}
	if n := len(s.Inters); n > 0 && (!s.Precert || s.PreIssuer) && !(n == 1 && s.Cross) && rapid.IntRange(0, 5).Draw(t, label+".cteku") == 0 {
		// the issuing CA also lists the CT EKU (never for a precertificate it signs itself: RFC 6962 would make it a pre-issuer)
		s.Inters[n-1] += "-cteku"
	}
	if rapid.IntRange(0, 15).Draw(t, label+".rootonly") == 0 {
		s = ChainSpec{ID: s.ID, Root: s.Root, RootOnly: true, IncludeRoot: true}
	}
	return s
}

// LeafKinds are the key kinds used for leaves and intermediates by GenSpec.
var LeafKinds = []string{"p256", "p256", "p384", "rsa2048", "ed25519", "p521"}

// GenSpec draws a ChainSpec.
func GenSpec(t *rapid.T, label string) ChainSpec {
	s := ChainSpec{ID: rapid.Uint32Range(1, 1<<24).Draw(t, label+".id"), Root: rapid.IntRange(0, len(RootKinds)-1).Draw(t, label+".root")}
	n := rapid.IntRange(0, 3).Draw(t, label+".inters")
	for i := 0; i < n; i++ {
		s.Inters = append(s.Inters, rapid.SampledFrom(LeafKinds).Draw(t, label+".ik"))
	}
	s.LeafKind = rapid.SampledFrom(LeafKinds).Draw(t, label+".lk")
	s.Precert = rapid.Bool().Draw(t, label+".pre")
	if s.Precert {
		s.PreIssuer = rapid.Bool().Draw(t, label+".pi")
		s.PreIssAKI = rapid.Bool().Draw(t, label+".piaki")
		s.PoisonPos = rapid.IntRange(0, 6).Draw(t, label+".pp")
	}
	s.LeafAKI = rapid.Bool().Draw(t, label+".aki")
	s.IncludeRoot = rapid.Bool().Draw(t, label+".incroot")
	s.ExtRot = rapid.IntRange(0, 5).Draw(t, label+".rot")
	s.SigAlg = rapid.IntRange(0, 2).Draw(t, label+".alg")
	s.Quirky = rapid.IntRange(0, 7).Draw(t, label+".quirky") == 0
	if n >= 1 {
		s.Cross = rapid.IntRange(0, 3).Draw(t, label+".cross") == 0
		s.CrossAlt = rapid.Bool().Draw(t, label+".crossalt")
	}
	return s
}
