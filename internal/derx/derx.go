// Package derx is a minimal DER TLV reader / writer / mutator written for the verification harness.
// It deliberately imports neither encoding/asn1 nor the fork under test.
package derx

import (
	"errors"
	"fmt"
	"math/big"
	"time"
)

// Common universal tags (identifier octets, including the constructed bit where usual).
const (
	TagBoolean     = 0x01
	TagInteger     = 0x02
	TagBitString   = 0x03
	TagOctetString = 0x04
	TagNull        = 0x05
	TagOID         = 0x06
	TagEnumerated  = 0x0a
	TagUTF8String  = 0x0c
	TagSequence    = 0x30
	TagSet         = 0x31
	TagNumeric     = 0x12
	TagPrintable   = 0x13
	TagT61         = 0x14
	TagIA5         = 0x16
	TagUTCTime     = 0x17
	TagGenTime     = 0x18
	TagBMP         = 0x1e
)

// Node is one TLV. For constructed nodes Children is populated when the content parses as TLVs.
type Node struct {
	ID       []byte // identifier octets (1 for low tag numbers)
	Content  []byte // content octets (for leaf nodes, or raw content of constructed ones)
	Children []*Node
	Off      int // offset of the first identifier octet in the parsed input
	HdrLen   int // identifier + length octets
	Len      int // total encoded length in the parsed input
	// RawLen, when non-nil, overrides the length octets on encoding (for malformed encodings).
	RawLen []byte
}

func (n *Node) Tag() byte         { return n.ID[0] }
func (n *Node) Constructed() bool { return n.ID[0]&0x20 != 0 }

// EncLen returns minimal definite length octets.
func EncLen(l int) []byte {
	if l < 0x80 {
		return []byte{byte(l)}
	}
	var b []byte
	for x := l; x > 0; x >>= 8 {
		b = append([]byte{byte(x)}, b...)
	}
	return append([]byte{0x80 | byte(len(b))}, b...)
}

// TLV builds an encoding from a single identifier octet and content.
func TLV(tag byte, content ...[]byte) []byte {
	var c []byte
	for _, x := range content {
		c = append(c, x...)
	}
	out := append([]byte{tag}, EncLen(len(c))...)
	return append(out, c...)
}

// Seq is TLV(0x30, ...).
func Seq(content ...[]byte) []byte { return TLV(TagSequence, content...) }

// Set is TLV(0x31, ...).
func Set(content ...[]byte) []byte { return TLV(TagSet, content...) }

// Explicit wraps content in a context-specific constructed tag [n].
func Explicit(n int, content ...[]byte) []byte { return TLV(0xa0|byte(n), content...) }

// Int encodes an INTEGER from a big.Int (minimal two's complement).
func Int(v *big.Int) []byte { return TLV(TagInteger, IntContent(v)) }

// IntContent returns the minimal two's-complement content octets.
func IntContent(v *big.Int) []byte {
	switch v.Sign() {
	case 0:
		return []byte{0}
	case 1:
		b := v.Bytes()
		if b[0]&0x80 != 0 {
			b = append([]byte{0}, b...)
		}
		return b
	default:
		// two's complement of |v|
		n := new(big.Int).Neg(v)
		n.Sub(n, big.NewInt(1))
		b := n.Bytes()
		for i := range b {
			b[i] ^= 0xff
		}
		if len(b) == 0 || b[0]&0x80 == 0 {
			b = append([]byte{0xff}, b...)
		}
		return b
	}
}

// Int64 encodes an INTEGER.
func Int64(v int64) []byte { return Int(big.NewInt(v)) }

// Bool encodes a BOOLEAN.
func Bool(b bool) []byte {
	if b {
		return []byte{TagBoolean, 1, 0xff}
	}
	return []byte{TagBoolean, 1, 0}
}

// Null is the NULL encoding.
func Null() []byte { return []byte{TagNull, 0} }

// Octets encodes an OCTET STRING.
func Octets(b []byte) []byte { return TLV(TagOctetString, b) }

// BitString encodes a BIT STRING with the given number of unused bits.
func BitString(b []byte, unused int) []byte { return TLV(TagBitString, []byte{byte(unused)}, b) }

// OID encodes an OBJECT IDENTIFIER.
func OID(arcs ...int) []byte { return TLV(TagOID, OIDContent(arcs)) }

// OIDContent returns the content octets for the arcs (len >= 2).
func OIDContent(arcs []int) []byte {
	var out []byte
	b128 := func(v int) {
		var tmp []byte
		tmp = append(tmp, byte(v&0x7f))
		for v >>= 7; v > 0; v >>= 7 {
			tmp = append([]byte{byte(v&0x7f) | 0x80}, tmp...)
		}
		out = append(out, tmp...)
	}
	b128(arcs[0]*40 + arcs[1])
	for _, a := range arcs[2:] {
		b128(a)
	}
	return out
}

// Str encodes a string type with the given tag.
func Str(tag byte, s string) []byte { return TLV(tag, []byte(s)) }

// Time encodes t as UTCTime (years 1950..2049) or GeneralizedTime otherwise, per RFC 5280.
func Time(t time.Time) []byte {
	t = t.UTC()
	if y := t.Year(); y >= 1950 && y < 2050 {
		return UTCTime(t)
	}
	return GenTime(t)
}

// UTCTime encodes YYMMDDHHMMSSZ.
func UTCTime(t time.Time) []byte { return Str(TagUTCTime, t.UTC().Format("060102150405Z")) }

// GenTime encodes YYYYMMDDHHMMSSZ.
func GenTime(t time.Time) []byte { return Str(TagGenTime, t.UTC().Format("20060102150405Z")) }

var errTrunc = errors.New("derx: truncated")

// Parse parses exactly one TLV at the start of b (recursively for constructed encodings whose
// content is well formed) and returns it with the remaining bytes. Only definite lengths are accepted;
// non-minimal lengths are accepted here (strictness is the business of the code under test).
func Parse(b []byte) (*Node, []byte, error) { return parseAt(b, 0, 0) }

func parseAt(b []byte, base, depth int) (*Node, []byte, error) {
	if len(b) < 2 {
		return nil, nil, errTrunc
	}
	i := 1
	if b[0]&0x1f == 0x1f {
		for {
			if i >= len(b) {
				return nil, nil, errTrunc
			}
			i++
			if b[i-1]&0x80 == 0 {
				break
			}
		}
	}
	idLen := i
	if i >= len(b) {
		return nil, nil, errTrunc
	}
	l := int(b[i])
	i++
	if l&0x80 != 0 {
		nb := l & 0x7f
		if nb == 0 || nb > 4 || i+nb > len(b) {
			return nil, nil, fmt.Errorf("derx: bad length")
		}
		l = 0
		for j := 0; j < nb; j++ {
			l = l<<8 | int(b[i+j])
		}
		i += nb
	}
	if l < 0 || i+l > len(b) {
		return nil, nil, errTrunc
	}
	n := &Node{ID: append([]byte(nil), b[:idLen]...), Content: b[i : i+l], Off: base, HdrLen: i, Len: i + l}
	if n.Constructed() && depth < 64 {
		rest := n.Content
		off := base + i
		var kids []*Node
		ok := true
		for len(rest) > 0 {
			k, r, err := parseAt(rest, off, depth+1)
			if err != nil {
				ok = false
				break
			}
			kids = append(kids, k)
			off += k.Len
			rest = r
		}
		if ok {
			n.Children = kids
		}
	}
	return n, b[i+l:], nil
}

// MustParse parses a complete encoding or panics (harness-internal inputs only).
func MustParse(b []byte) *Node {
	n, rest, err := Parse(b)
	if err != nil || len(rest) != 0 {
		panic(fmt.Sprintf("derx.MustParse: %v rest=%d", err, len(rest)))
	}
	return n
}

// Encode re-encodes the node with minimal lengths (or RawLen when set). Constructed nodes with
// Children encode their children; otherwise Content is used verbatim.
func (n *Node) Encode() []byte {
	var c []byte
	if n.Children != nil {
		for _, k := range n.Children {
			c = append(c, k.Encode()...)
		}
	} else {
		c = n.Content
	}
	out := append([]byte(nil), n.ID...)
	if n.RawLen != nil {
		out = append(out, n.RawLen...)
	} else {
		out = append(out, EncLen(len(c))...)
	}
	return append(out, c...)
}

// Clone deep-copies a node tree.
func (n *Node) Clone() *Node {
	c := *n
	c.ID = append([]byte(nil), n.ID...)
	c.Content = append([]byte(nil), n.Content...)
	if n.Children != nil {
		c.Children = make([]*Node, len(n.Children))
		for i, k := range n.Children {
			c.Children[i] = k.Clone()
		}
	}
	return &c
}

// Walk visits every node depth first.
func (n *Node) Walk(f func(*Node)) {
	f(n)
	for _, k := range n.Children {
		k.Walk(f)
	}
}

// All returns every node of the tree in depth-first order.
func (n *Node) All() []*Node {
	var out []*Node
	n.Walk(func(x *Node) { out = append(out, x) })
	return out
}

// Raw returns the exact bytes of the node within the input it was parsed from.
func (n *Node) Raw(input []byte) []byte { return input[n.Off : n.Off+n.Len] }

// Leaf makes a primitive node.
func Leaf(tag byte, content []byte) *Node { return &Node{ID: []byte{tag}, Content: content} }

// Cons makes a constructed node from children.
func Cons(tag byte, kids ...*Node) *Node {
	if kids == nil {
		kids = []*Node{}
	}
	return &Node{ID: []byte{tag}, Children: kids}
}
