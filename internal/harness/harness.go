// Package harness is the glue between rapid, the evidence files and the ./check driver.
//
// A property check is a pair (gen, check): gen draws a JSON-serialisable Case with rapid, check
// executes the code under test on it and judges the outcome against an independent oracle. The
// harness owns case counts, seeds, shrinking artefacts, replay files, known findings and evidence.
package harness

import (
	"io"
	"crypto/sha256"
	"encoding/binary"
	"encoding/json"
	"flag"
	"fmt"
	"hash/fnv"
	"os"
	"path/filepath"
	"runtime/debug"
	"sort"
	"strconv"
	"strings"
	"sync"
	"testing"
	"time"

	"k8s.io/klog/v2"
	"pgregory.net/rapid"
)

// Violation is one breach of the property found in one case. Sig is a root-cause classifier (stable
// across inputs that fail for the same reason) used to match KNOWN_FINDINGS.json.
type Violation struct {
	Sig string `json:"sig"`
	Msg string `json:"msg"`
}

// Verdict is what a check reports for one case.
type Verdict struct {
	NonTrivial bool
	Classes    []string
	Violations []Violation
	Sample     any // optional compact rendering of the case for evidence samples
	Discard    bool // case outside the domain (counted, not evaluated)
}

func (v *Verdict) Failf(sig, format string, a ...any) {
	v.Violations = append(v.Violations, Violation{Sig: sig, Msg: fmt.Sprintf(format, a...)})
}
func (v *Verdict) Class(c ...string) { v.Classes = append(v.Classes, c...) }

// Prop is one registered (gen, check) pair.
type Prop interface {
	Name() string
	run(t *testing.T, e *env)
	replay(t *testing.T, e *env, raw json.RawMessage) []Violation
}

type Opts struct {
	Name      string
	Rule      string // how cases are generated and what makes one non-trivial
	Quick     int    // rapid cases in the quick tier
	Thorough  int    // rapid cases per shard in the thorough tier
	Crashy    bool   // persist every case before running it (for hard aborts: fatal errors, races)
	MaxSample int    // bytes; samples longer than this are summarised
}

type prop[C any] struct {
	o     Opts
	gen   func(*rapid.T) C
	check func(*testing.T, C) Verdict
}

func Define[C any](o Opts, gen func(*rapid.T) C, check func(*testing.T, C) Verdict) Prop {
	if o.MaxSample == 0 {
		o.MaxSample = 1500
	}
	return &prop[C]{o: o, gen: gen, check: check}
}

func (p *prop[C]) Name() string { return p.o.Name }

type known struct {
	Property  string `json:"property"`
	Status    string `json:"status"`
	Signature string `json:"signature"`
	What      string `json:"what"`
}

type propStats struct {
	Name        string         `json:"name"`
	Rule        string         `json:"rule"`
	Evaluations int            `json:"evaluations"`
	Discarded   int            `json:"discarded"`
	NonTrivial  int            `json:"nontrivial"`
	Classes     map[string]int `json:"classes"`
	Excluded    map[string]int `json:"excluded_known"`
	Samples     []any          `json:"samples"`
	Violations  int            `json:"violations"`
	WallS       float64        `json:"wall_s"`
	Requested   int            `json:"requested"`
	fps         map[uint64]struct{}
}

type env struct {
	id      string
	tier    string
	seed    uint64
	shard   int
	out     string
	known   []known
	mu      sync.Mutex
	stats   []*propStats
	printed map[string]bool
}

func getenv(k, d string) string {
	if v := os.Getenv(k); v != "" {
		return v
	}
	return d
}

func newEnv(id string) *env {
	e := &env{id: id, tier: getenv("VERIF_TIER", "quick"), printed: map[string]bool{}}
	s, _ := strconv.ParseInt(getenv("VERIF_SEED", "1"), 10, 64)
	e.seed = uint64(s)
	e.shard, _ = strconv.Atoi(getenv("VERIF_SHARD", "0"))
	e.out = getenv("VERIF_OUT", filepath.Join(os.TempDir(), "verif-out-"+id))
	os.MkdirAll(e.out, 0o755)
	if b, err := os.ReadFile(getenv("VERIF_KNOWN", "/verif/KNOWN_FINDINGS.json")); err == nil {
		var all []known
		if json.Unmarshal(b, &all) == nil {
			for _, k := range all {
				if k.Property == id && k.Status == "known" {
					e.known = append(e.known, k)
				}
			}
		}
	}
	return e
}

func (e *env) isKnown(sig string) *known {
	for i := range e.known {
		if e.known[i].Signature == sig {
			return &e.known[i]
		}
	}
	return nil
}

// triage splits violations into unknown ones (returned) and known findings (printed once, counted).
func (e *env) triage(st *propStats, vs []Violation) []Violation {
	var out []Violation
	for _, v := range vs {
		if k := e.isKnown(v.Sig); k != nil {
			e.mu.Lock()
			if st != nil {
				st.Excluded[v.Sig]++
			}
			if !e.printed[v.Sig] {
				e.printed[v.Sig] = true
				fmt.Printf("KNOWN-FINDING: property=%s %s [%s]\n", e.id, k.What, v.Sig)
			}
			e.mu.Unlock()
			continue
		}
		out = append(out, v)
	}
	return out
}

type replayFile struct {
	Property   string          `json:"property"`
	Prop       string          `json:"prop"`
	Seed       uint64          `json:"seed"`
	Violations []Violation     `json:"violations,omitempty"`
	Case       json.RawMessage `json:"case"`
}

func (e *env) writeCase(path, name string, seed uint64, c any, vs []Violation) {
	raw, err := json.Marshal(c)
	if err != nil {
		raw, _ = json.Marshal(fmt.Sprintf("unserialisable case: %v", err))
	}
	b, _ := json.MarshalIndent(replayFile{Property: e.id, Prop: name, Seed: seed, Violations: vs, Case: raw}, "", " ")
	os.WriteFile(path, b, 0o644)
}

func safeCheck[C any](t *testing.T, check func(*testing.T, C) Verdict, c C) (v Verdict) {
	defer func() {
		if r := recover(); r != nil {
			v.Violations = append(v.Violations, Violation{Sig: "panic", Msg: fmt.Sprintf("panic: %v\n%s", r, debug.Stack())})
		}
	}()
	return check(t, c)
}

func setFlag(name, val string) {
	if f := flag.Lookup(name); f != nil {
		f.Value.Set(val)
	}
}

func nameHash(s string) uint64 { h := fnv.New64a(); h.Write([]byte(s)); return h.Sum64() }

func (p *prop[C]) run(t *testing.T, e *env) {
	n := p.o.Quick
	if e.tier == "thorough" {
		n = p.o.Thorough
	}
	if s := os.Getenv("VERIF_CASES"); s != "" {
		n, _ = strconv.Atoi(s)
	}
	st := &propStats{Name: p.o.Name, Rule: p.o.Rule, Classes: map[string]int{}, Excluded: map[string]int{}, fps: map[uint64]struct{}{}, Requested: n}
	e.mu.Lock()
	e.stats = append(e.stats, st)
	e.mu.Unlock()
	if n <= 0 {
		return
	}
	seed := (e.seed*1000003+uint64(e.shard))*2654435761 + nameHash(p.o.Name)
	seed &= 0x7fffffffffffffff
	if seed == 0 {
		seed = 1
	}
	setFlag("rapid.checks", strconv.Itoa(n))
	setFlag("rapid.seed", strconv.FormatUint(seed, 10))
	setFlag("rapid.nofailfile", "true")
	setFlag("rapid.shrinktime", getenv("VERIF_SHRINKTIME", "20s"))
	failPath := filepath.Join(e.out, fmt.Sprintf("fail-%s-%d.json", p.o.Name, e.shard))
	lastPath := filepath.Join(e.out, fmt.Sprintf("last-%d.json", e.shard))
	os.Remove(failPath)
	start := time.Now()
	t.Run(p.o.Name, func(t *testing.T) {
		rapid.Check(t, func(rt *rapid.T) {
			c := p.gen(rt)
			if p.o.Crashy {
				e.writeCase(lastPath, p.o.Name, seed, c, nil)
			}
			raceBefore := raceLogSize()
			v := safeCheck(t, p.check, c)
			if raceAfter := raceLogSize(); raceAfter > raceBefore {
				// The race detector wrote a report while this case ran: attribute it to the case.
				v.Violations = append(v.Violations, Violation{Sig: "data-race", Msg: "the race detector reported a data race while this case ran:\n" + raceLogTail(raceBefore)})
			}
			if v.Discard {
				st.Discarded++
				return
			}
			st.Evaluations++
			for _, cl := range v.Classes {
				st.Classes[cl]++
			}
			if v.NonTrivial {
				raw, _ := json.Marshal(c)
				sum := sha256.Sum256(raw)
				fp := binary.BigEndian.Uint64(sum[:8])
				if _, seen := st.fps[fp]; !seen {
					st.fps[fp] = struct{}{}
					st.NonTrivial++
					if len(st.Samples) < 3 {
						var s any = v.Sample
						if s == nil {
							if len(raw) <= p.o.MaxSample {
								s = json.RawMessage(raw)
							} else {
								s = string(raw[:p.o.MaxSample]) + "...(truncated)"
							}
						}
						st.Samples = append(st.Samples, s)
					}
				}
			}
			vs := e.triage(st, v.Violations)
			if len(vs) > 0 {
				st.Violations++
				e.writeCase(failPath, p.o.Name, seed, c, vs)
				var sb strings.Builder
				for _, x := range vs {
					fmt.Fprintf(&sb, "[%s] %s\n", x.Sig, x.Msg)
				}
				rt.Fatalf("property %s/%s violated:\n%s", e.id, p.o.Name, sb.String())
			}
		})
	})
	st.WallS = time.Since(start).Seconds()
	if _, err := os.Stat(failPath); err == nil {
		fmt.Printf("VERIF-FAIL prop=%s file=%s\n", p.o.Name, failPath)
	}
	if p.o.Crashy {
		os.Remove(lastPath)
	}
}

func (p *prop[C]) replay(t *testing.T, e *env, raw json.RawMessage) []Violation {
	var c C
	if err := json.Unmarshal(raw, &c); err != nil {
		t.Fatalf("replay: cannot decode case for %s: %v", p.o.Name, err)
	}
	v := safeCheck(t, p.check, c)
	return e.triage(nil, v.Violations)
}

func (e *env) flush() {
	type shardOut struct {
		Property string       `json:"property"`
		Tier     string       `json:"tier"`
		Seed     uint64       `json:"seed"`
		Shard    int          `json:"shard"`
		Props    []*propStats `json:"props"`
		FPs      map[string][]string `json:"fps"`
	}
	so := shardOut{Property: e.id, Tier: e.tier, Seed: e.seed, Shard: e.shard, Props: e.stats, FPs: map[string][]string{}}
	for _, st := range e.stats {
		l := make([]string, 0, len(st.fps))
		for fp := range st.fps {
			l = append(l, strconv.FormatUint(fp, 36))
		}
		sort.Strings(l)
		so.FPs[st.Name] = l
	}
	b, _ := json.Marshal(so)
	os.WriteFile(filepath.Join(e.out, fmt.Sprintf("stats-%d.json", e.shard)), b, 0o644)
}

// Main runs regressions first, then every registered prop (filtered by VERIF_ONLY), or - when
// VERIF_REPLAY names a file - only that replay.
func Main(t *testing.T, id string, props ...Prop) {
	SilenceKlog()
	e := newEnv(id)
	byName := map[string]Prop{}
	for _, p := range props {
		byName[p.Name()] = p
	}
	doReplay := func(t *testing.T, path string) {
		b, err := os.ReadFile(path)
		if err != nil {
			t.Fatalf("replay: %v", err)
		}
		var rf replayFile
		if err := json.Unmarshal(b, &rf); err != nil {
			t.Fatalf("replay: %s: %v", path, err)
		}
		p := byName[rf.Prop]
		if p == nil {
			t.Fatalf("replay: %s names unknown prop %q", path, rf.Prop)
		}
		vs := p.replay(t, e, rf.Case)
		if len(vs) > 0 {
			fmt.Printf("VERIF-FAIL prop=%s file=%s\n", rf.Prop, path)
			for _, x := range vs {
				t.Errorf("[%s] %s", x.Sig, x.Msg)
			}
		}
	}
	if path := os.Getenv("VERIF_REPLAY"); path != "" {
		doReplay(t, path)
		return
	}
	defer e.flush()
	if e.shard == 0 {
		files, _ := filepath.Glob(filepath.Join(getenv("VERIF_REGRESS", "/verif/regress"), id, "*.json"))
		sort.Strings(files)
		for _, f := range files {
			f := f
			t.Run("regress/"+filepath.Base(f), func(t *testing.T) { doReplay(t, f) })
		}
	}
	only := os.Getenv("VERIF_ONLY")
	for _, p := range props {
		if only != "" && !strings.Contains(","+only+",", ","+p.Name()+",") {
			continue
		}
		p.run(t, e)
	}
}

// Thorough reports whether the thorough tier is running (generators may widen sizes).
func Thorough() bool { return os.Getenv("VERIF_TIER") == "thorough" }

// SilenceKlog routes the repository's klog output away from the test log (it would dwarf the results).
func SilenceKlog() {
	if os.Getenv("VERIF_KLOG") != "" {
		return
	}
	klog.LogToStderr(false)
	klog.SetOutput(io.Discard)
	fs := flag.NewFlagSet("klog", flag.ContinueOnError)
	klog.InitFlags(fs)
	fs.Set("logtostderr", "false")
	fs.Set("alsologtostderr", "false")
	fs.Set("stderrthreshold", "FATAL")
}

// SetKlogVerbosity sets the repository's process-wide klog -v level (0 is the default); output stays discarded.
func SetKlogVerbosity(n int) {
	fs := flag.NewFlagSet("klog", flag.ContinueOnError)
	klog.InitFlags(fs)
	fs.Set("v", fmt.Sprint(n))
}

// enumProp is a finite, completely enumerated set of cases (fault matrices). Every tier runs all of
// them; in the thorough tier the cases are split over the shards.
type enumProp[C any] struct {
	o     Opts
	cases func() []C
	check func(*testing.T, C) Verdict
}

// DefineEnum registers an exhaustively enumerated sub-property. Opts.Quick / Thorough are ignored.
func DefineEnum[C any](o Opts, cases func() []C, check func(*testing.T, C) Verdict) Prop {
	if o.MaxSample == 0 {
		o.MaxSample = 1500
	}
	return &enumProp[C]{o: o, cases: cases, check: check}
}

func (p *enumProp[C]) Name() string { return p.o.Name }

func (p *enumProp[C]) run(t *testing.T, e *env) {
	all := p.cases()
	st := &propStats{Name: p.o.Name, Rule: p.o.Rule, Classes: map[string]int{}, Excluded: map[string]int{}, fps: map[uint64]struct{}{}, Requested: len(all)}
	e.mu.Lock()
	e.stats = append(e.stats, st)
	e.mu.Unlock()
	nshards, _ := strconv.Atoi(getenv("VERIF_NSHARDS", "1"))
	if nshards < 1 {
		nshards = 1
	}
	failPath := filepath.Join(e.out, fmt.Sprintf("fail-%s-%d.json", p.o.Name, e.shard))
	os.Remove(failPath)
	start := time.Now()
	t.Run(p.o.Name, func(t *testing.T) {
		failed := 0
		for i, c := range all {
			if i%nshards != e.shard%nshards {
				continue
			}
			v := safeCheck(t, p.check, c)
			st.Evaluations++
			for _, cl := range v.Classes {
				st.Classes[cl]++
			}
			raw, _ := json.Marshal(c)
			sum := sha256.Sum256(raw)
			fp := binary.BigEndian.Uint64(sum[:8])
			if _, seen := st.fps[fp]; !seen && v.NonTrivial {
				st.fps[fp] = struct{}{}
				st.NonTrivial++
				if len(st.Samples) < 3 {
					st.Samples = append(st.Samples, json.RawMessage(raw))
				}
			}
			vs := e.triage(st, v.Violations)
			if len(vs) > 0 {
				st.Violations++
				failed++
				if failed == 1 {
					e.writeCase(failPath, p.o.Name, 0, c, vs)
				}
				if failed <= 10 {
					for _, x := range vs {
						t.Errorf("case %d: [%s] %s", i, x.Sig, x.Msg)
					}
				}
			}
		}
	})
	st.WallS = time.Since(start).Seconds()
	if _, err := os.Stat(failPath); err == nil {
		fmt.Printf("VERIF-FAIL prop=%s file=%s\n", p.o.Name, failPath)
	}
}

func (p *enumProp[C]) replay(t *testing.T, e *env, raw json.RawMessage) []Violation {
	var c C
	if err := json.Unmarshal(raw, &c); err != nil {
		t.Fatalf("replay: cannot decode case for %s: %v", p.o.Name, err)
	}
	v := safeCheck(t, p.check, c)
	return e.triage(nil, v.Violations)
}

// raceLogSize returns the size of this process's race-detector log (GORACE log_path, set by the driver
// for -race builds), 0 when there is none.
func raceLogSize() int64 {
	prefix := os.Getenv("VERIF_RACELOG")
	if prefix == "" {
		return 0
	}
	fi, err := os.Stat(fmt.Sprintf("%s.%d", prefix, os.Getpid()))
	if err != nil {
		return 0
	}
	return fi.Size()
}

func raceLogTail(from int64) string {
	b, err := os.ReadFile(fmt.Sprintf("%s.%d", os.Getenv("VERIF_RACELOG"), os.Getpid()))
	if err != nil || from >= int64(len(b)) {
		return ""
	}
	b = b[from:]
	if len(b) > 3500 {
		b = b[:3500]
	}
	return string(b)
}
