// Package memstore is an in-memory storage.IssuanceChainStorage with call counting and fault injection.
package memstore

import (
	"context"
	"database/sql"
	"sync"
	"time"
)

// Store implements storage.IssuanceChainStorage.
type Store struct {
	mu       sync.Mutex
	M        map[string][]byte
	AddCalls int
	GetCalls int
	// FailAdd / FailGet: when the function returns a non-nil error for the n-th call (0-based) it is returned.
	FailAdd func(n int) error
	FailGet func(n int) error
	// Corrupt, when non-nil, may alter a chain on its way out (storage corruption).
	Corrupt func(key, chain []byte) []byte
	// Latency > 0 makes FindByKey take that long and return the caller's context error when the context
	// ends meanwhile (what a database driver does).
	Latency time.Duration
	// AddLatency > 0 makes Add take that long before it touches the table (a slow write).
	AddLatency time.Duration
}

func New() *Store { return &Store{M: map[string][]byte{}} }

// ErrNotFound is what the repository's SQL-backed storages return for an unknown key (row.Scan on no rows).
var ErrNotFound = sql.ErrNoRows

func (s *Store) FindByKey(ctx context.Context, key []byte) ([]byte, error) {
	if s.Latency > 0 {
		tm := time.NewTimer(s.Latency)
		select {
		case <-tm.C:
		case <-ctx.Done():
			tm.Stop()
			return nil, ctx.Err()
		}
	}
	s.mu.Lock()
	defer s.mu.Unlock()
	n := s.GetCalls
	s.GetCalls++
	if s.FailGet != nil {
		if err := s.FailGet(n); err != nil {
			return nil, err
		}
	}
	c, ok := s.M[string(key)]
	if !ok {
		return nil, ErrNotFound
	}
	out := append([]byte(nil), c...)
	if s.Corrupt != nil {
		out = s.Corrupt(key, out)
	}
	return out, nil
}

func (s *Store) Add(_ context.Context, key []byte, chain []byte) error {
	if s.AddLatency > 0 {
		time.Sleep(s.AddLatency)
	}
	s.mu.Lock()
	defer s.mu.Unlock()
	n := s.AddCalls
	s.AddCalls++
	if s.FailAdd != nil {
		if err := s.FailAdd(n); err != nil {
			return err
		}
	}
	if _, ok := s.M[string(key)]; !ok {
		s.M[string(key)] = append([]byte(nil), chain...)
	}
	return nil
}

// Delete removes a row.
func (s *Store) Delete(key []byte) { s.mu.Lock(); delete(s.M, string(key)); s.mu.Unlock() }

// Keys lists stored keys.
func (s *Store) Keys() [][]byte {
	s.mu.Lock()
	defer s.mu.Unlock()
	var out [][]byte
	for k := range s.M {
		out = append(out, []byte(k))
	}
	return out
}

// Len returns the number of rows.
func (s *Store) Len() int { s.mu.Lock(); defer s.mu.Unlock(); return len(s.M) }

// Calls returns the number of Add and FindByKey calls made so far.
func (s *Store) Calls() (add, get int) {
	s.mu.Lock()
	defer s.mu.Unlock()
	return s.AddCalls, s.GetCalls
}
