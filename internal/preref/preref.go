// Package preref is the byte-level reference for the precertificate TBS transformation of RFC 6962
// s3.2 (as documented on x509.BuildPrecertTBS): cut exactly one extension TLV out of a TBSCertificate,
// re-length the enclosing TLVs, and - in the pre-issuer case - replace the issuer Name TLV and the
// AuthorityKeyIdentifier extnValue. Built on derx only; it never calls the code under test.
package preref

import (
	"bytes"
	"errors"

	"verif/internal/derx"
)

var (
	OIDPoison  = derx.OIDContent([]int{1, 3, 6, 1, 4, 1, 11129, 2, 4, 3})
	OIDSCTList = derx.OIDContent([]int{1, 3, 6, 1, 4, 1, 11129, 2, 4, 2})
	OIDAKI     = derx.OIDContent([]int{2, 5, 29, 35})
)

// PreIssuer carries what the transformation takes from the precert-signing certificate.
type PreIssuer struct {
	IssuerDER []byte // the pre-issuer's own issuer Name (complete TLV)
	AKIValue  []byte // contents of the pre-issuer's AKI extnValue OCTET STRING; nil when it has none
}

func flat(n *derx.Node) *derx.Node {
	c := *n
	c.Children = nil
	return &c
}

// Transform removes the single extension `oid` (content octets of the OID) from tbs and applies the
// pre-issuer rewrite when pi != nil.
func Transform(tbs []byte, oid []byte, pi *PreIssuer) ([]byte, error) {
	root, rest, err := derx.Parse(tbs)
	if err != nil || len(rest) != 0 || root.Tag() != derx.TagSequence || root.Children == nil {
		return nil, errors.New("preref: not a TBSCertificate")
	}
	kids := make([]*derx.Node, len(root.Children))
	extIdx := -1
	for i, k := range root.Children {
		kids[i] = flat(k)
		if k.Tag() == 0xa3 {
			extIdx = i
		}
	}
	if extIdx < 0 {
		return nil, errors.New("preref: no extensions")
	}
	extWrap := root.Children[extIdx]
	if len(extWrap.Children) != 1 || extWrap.Children[0].Tag() != derx.TagSequence {
		return nil, errors.New("preref: malformed extensions")
	}
	var exts []*derx.Node
	at := -1
	for _, e := range extWrap.Children[0].Children {
		if len(e.Children) < 2 || e.Children[0].Tag() != derx.TagOID {
			return nil, errors.New("preref: malformed extension")
		}
		if bytes.Equal(e.Children[0].Content, oid) {
			if at != -1 {
				return nil, errors.New("preref: multiple extensions of specified type present")
			}
			at = len(exts)
		}
		exts = append(exts, flat(e))
	}
	if at == -1 {
		return nil, errors.New("preref: no extension of specified type present")
	}
	exts = append(exts[:at], exts[at+1:]...)

	if pi != nil {
		// issuer is the 4th field when the version is present, else the 3rd
		issuerIdx := 2
		if root.Children[0].Tag() == 0xa0 {
			issuerIdx = 3
		}
		in := derx.MustParse(pi.IssuerDER)
		kids[issuerIdx] = flat(in)
		akiAt := -1
		for i, e := range exts {
			full := derx.MustParse(e.Encode())
			if bytes.Equal(full.Children[0].Content, OIDAKI) {
				akiAt = i
				break
			}
		}
		switch {
		case akiAt >= 0 && pi.AKIValue != nil:
			full := derx.MustParse(exts[akiAt].Encode())
			parts := []*derx.Node{}
			for _, c := range full.Children[:len(full.Children)-1] {
				parts = append(parts, flat(c))
			}
			parts = append(parts, derx.Leaf(derx.TagOctetString, pi.AKIValue))
			exts[akiAt] = derx.Cons(derx.TagSequence, parts...)
		case akiAt >= 0:
			exts = append(exts[:akiAt], exts[akiAt+1:]...)
		case pi.AKIValue != nil:
			exts = append(exts, derx.Cons(derx.TagSequence, derx.Leaf(derx.TagOID, OIDAKI), derx.Leaf(derx.TagOctetString, pi.AKIValue)))
		}
	}
	kids[extIdx] = derx.Cons(0xa3, derx.Cons(derx.TagSequence, exts...))
	return derx.Cons(derx.TagSequence, kids...).Encode(), nil
}

// TBSOf returns the TBSCertificate bytes of a certificate.
func TBSOf(cert []byte) []byte {
	n := derx.MustParse(cert)
	return n.Children[0].Raw(cert)
}

// ExtValue returns the extnValue contents of the first extension with the OID in a certificate, or nil.
func ExtValue(cert []byte, oid []byte) []byte {
	tbs := derx.MustParse(TBSOf(cert))
	for _, k := range tbs.Children {
		if k.Tag() != 0xa3 || len(k.Children) != 1 {
			continue
		}
		for _, e := range k.Children[0].Children {
			if len(e.Children) >= 2 && bytes.Equal(e.Children[0].Content, oid) {
				return e.Children[len(e.Children)-1].Content
			}
		}
	}
	return nil
}

// IssuerOf returns the issuer Name TLV of a certificate.
func IssuerOf(cert []byte) []byte {
	tbs := derx.MustParse(TBSOf(cert))
	i := 2
	if tbs.Children[0].Tag() == 0xa0 {
		i = 3
	}
	return tbs.Children[i].Encode()
}

// SPKIOf returns the SubjectPublicKeyInfo TLV of a certificate.
func SPKIOf(cert []byte) []byte {
	tbs := derx.MustParse(TBSOf(cert))
	i := 5
	if tbs.Children[0].Tag() == 0xa0 {
		i = 6
	}
	return tbs.Children[i].Encode()
}
