// Package realtrillian runs the real Trillian log server (server.TrillianLogRPCServer over the
// in-memory storage, sequenced by log.IntegrateBatch) in-process and adapts it to
// trillian.TrillianLogClient. It is a second opinion for the reference backend internal/reflog: the
// memory storage does not de-duplicate and has no AddSequencedLeaves, so it serves duplicate-free
// histories of normal logs only.
package realtrillian

import (
	"context"
	"sync"
	"time"

	"github.com/google/trillian"
	"github.com/google/trillian/extension"
	"github.com/google/trillian/log"
	"github.com/google/trillian/quota"
	"github.com/google/trillian/server"
	"github.com/google/trillian/storage"
	"github.com/google/trillian/storage/memory"
	"github.com/google/trillian/util/clock"
	"google.golang.org/grpc"
	"google.golang.org/protobuf/types/known/durationpb"
)

// Backend is an in-process Trillian log.
type Backend struct {
	srv   *server.TrillianLogRPCServer
	reg   extension.Registry
	Tree  *trillian.Tree
	Clock *clock.FakeTimeSource
}

var once sync.Once

// New creates a log tree on fresh in-memory storage and initialises it.
func New(ctx context.Context) (*Backend, error) {
	ts := memory.NewTreeStorage()
	clk := clock.NewFake(time.Unix(1600000000, 0))
	reg := extension.Registry{AdminStorage: memory.NewAdminStorage(ts), LogStorage: memory.NewLogStorage(ts, nil), QuotaManager: quota.Noop()}
	once.Do(func() { log.InitMetrics(nil) })
	tree, err := storage.CreateTree(ctx, reg.AdminStorage, &trillian.Tree{TreeState: trillian.TreeState_ACTIVE, TreeType: trillian.TreeType_LOG, MaxRootDuration: durationpb.New(0)})
	if err != nil {
		return nil, err
	}
	b := &Backend{srv: server.NewTrillianLogRPCServer(reg, clk), reg: reg, Tree: tree, Clock: clk}
	if _, err := b.srv.InitLog(ctx, &trillian.InitLogRequest{LogId: tree.TreeId}); err != nil {
		return nil, err
	}
	return b, nil
}

// Sequence integrates up to limit queued leaves (limit <= 0: up to 10000) and publishes a root
// stamped with the backend clock. It returns the number of leaves integrated.
func (b *Backend) Sequence(ctx context.Context, limit int, now time.Time) (int, error) {
	if limit <= 0 {
		limit = 10000
	}
	b.Clock.Set(now)
	return log.IntegrateBatch(ctx, b.Tree, limit, 0, 0, b.Clock, b.reg.LogStorage, b.reg.QuotaManager)
}

func (b *Backend) fix(id *int64) { *id = b.Tree.TreeId }

func (b *Backend) QueueLeaf(ctx context.Context, in *trillian.QueueLeafRequest, _ ...grpc.CallOption) (*trillian.QueueLeafResponse, error) {
	b.fix(&in.LogId)
	return b.srv.QueueLeaf(ctx, in)
}
func (b *Backend) GetInclusionProof(ctx context.Context, in *trillian.GetInclusionProofRequest, _ ...grpc.CallOption) (*trillian.GetInclusionProofResponse, error) {
	b.fix(&in.LogId)
	return b.srv.GetInclusionProof(ctx, in)
}
func (b *Backend) GetInclusionProofByHash(ctx context.Context, in *trillian.GetInclusionProofByHashRequest, _ ...grpc.CallOption) (*trillian.GetInclusionProofByHashResponse, error) {
	b.fix(&in.LogId)
	return b.srv.GetInclusionProofByHash(ctx, in)
}
func (b *Backend) GetConsistencyProof(ctx context.Context, in *trillian.GetConsistencyProofRequest, _ ...grpc.CallOption) (*trillian.GetConsistencyProofResponse, error) {
	b.fix(&in.LogId)
	return b.srv.GetConsistencyProof(ctx, in)
}
func (b *Backend) GetLatestSignedLogRoot(ctx context.Context, in *trillian.GetLatestSignedLogRootRequest, _ ...grpc.CallOption) (*trillian.GetLatestSignedLogRootResponse, error) {
	b.fix(&in.LogId)
	return b.srv.GetLatestSignedLogRoot(ctx, in)
}
func (b *Backend) GetEntryAndProof(ctx context.Context, in *trillian.GetEntryAndProofRequest, _ ...grpc.CallOption) (*trillian.GetEntryAndProofResponse, error) {
	b.fix(&in.LogId)
	return b.srv.GetEntryAndProof(ctx, in)
}
func (b *Backend) InitLog(ctx context.Context, in *trillian.InitLogRequest, _ ...grpc.CallOption) (*trillian.InitLogResponse, error) {
	b.fix(&in.LogId)
	return b.srv.InitLog(ctx, in)
}
func (b *Backend) AddSequencedLeaves(ctx context.Context, in *trillian.AddSequencedLeavesRequest, _ ...grpc.CallOption) (*trillian.AddSequencedLeavesResponse, error) {
	b.fix(&in.LogId)
	return b.srv.AddSequencedLeaves(ctx, in)
}
func (b *Backend) GetLeavesByRange(ctx context.Context, in *trillian.GetLeavesByRangeRequest, _ ...grpc.CallOption) (*trillian.GetLeavesByRangeResponse, error) {
	b.fix(&in.LogId)
	return b.srv.GetLeavesByRange(ctx, in)
}

var _ trillian.TrillianLogClient = (*Backend)(nil)
