// Package vt runs a case under Go's testing/synctest virtual clock with a virtual-time watchdog.
//
// Inside the bubble every time.Now / Sleep / Timer / context deadline of the code under test uses a
// fake clock that only advances when every goroutine of the bubble is durably blocked. A watchdog that
// fires after a (huge) virtual duration therefore means "nothing will ever happen again": it is
// reported as non-termination, never confused with slowness of the machine.
package vt

import (
	"context"
	"testing"
	"testing/synctest"
	"time"
)

// Result describes how the body ended.
type Result struct {
	TimedOut bool          // the watchdog fired: body did not return within Limit of virtual time
	Elapsed  time.Duration // virtual time consumed by body (valid when !TimedOut)
	Start    time.Time     // virtual start instant (2000-01-01 UTC in current Go releases)
}

// Run executes body in a fresh bubble. ctx passed to body is cancelled when the watchdog fires so
// that well-behaved code unwinds; body must return after cancellation for the bubble to end. If body
// still does not return grace (virtual) after cancellation, Run gives up waiting and returns with
// TimedOut set; goroutines still blocked then make synctest report a deadlock panic, so bodies should
// select on ctx in every fake peer.
func Run(t *testing.T, limit time.Duration, body func(ctx context.Context)) Result {
	var res Result
	// synctest.Test calls FailNow on the test it is given as soon as the race detector reports something
	// inside the bubble; run it in a sub-test so that only that sub-test's goroutine is ended and the caller
	// (the harness, which attributes race reports to the running case) carries on.
	t.Run("bubble", func(t *testing.T) {
		res = runBubble(t, limit, body)
	})
	return res
}

func runBubble(t *testing.T, limit time.Duration, body func(ctx context.Context)) Result {
	var res Result
	synctest.Test(t, func(t *testing.T) {
		ctx, cancel := context.WithCancel(context.Background())
		defer cancel()
		res.Start = time.Now()
		done := make(chan struct{})
		go func() {
			defer close(done)
			body(ctx)
		}()
		timer := time.NewTimer(limit)
		defer timer.Stop()
		select {
		case <-done:
			res.Elapsed = time.Since(res.Start)
		case <-timer.C:
			res.TimedOut = true
			cancel()
			<-done
		}
		synctest.Wait()
	})
	return res
}

// Sleep blocks for d of virtual time or until ctx ends; it reports whether the full duration elapsed.
func Sleep(ctx context.Context, d time.Duration) bool {
	if d <= 0 {
		return ctx.Err() == nil
	}
	tm := time.NewTimer(d)
	defer tm.Stop()
	select {
	case <-tm.C:
		return true
	case <-ctx.Done():
		return false
	}
}
