// Package keys serves the committed key pool (generated once by tools/genkeys). Key generation per
// case would dominate run time (RSA, DSA) and would make certificates differ between runs.
package keys

import (
	"crypto"
	"crypto/dsa"
	"crypto/ecdsa"
	"crypto/ed25519"
	"crypto/rsa"
	"crypto/x509"
	"embed"
	"encoding/json"
	"encoding/pem"
	"fmt"
	"math/big"
	"sort"
	"strings"
	"sync"
)

//go:embed pool/*
var pool embed.FS

// Key is one pool entry.
type Key struct {
	Name   string
	Kind   string // rsa1024 rsa2048 rsa3072 p224 p256 p384 p521 ed25519 dsa1024 dsa2048
	Signer crypto.Signer // nil for DSA
	DSA    *dsa.PrivateKey
	Pub    crypto.PublicKey
	PKCS8  []byte // nil for DSA
	SPKI   []byte // DER SubjectPublicKeyInfo (stdlib MarshalPKIXPublicKey; hand-built for DSA)
}

var (
	once   sync.Once
	byName = map[string]*Key{}
	byKind = map[string][]*Key{}
)

func load() {
	ents, err := pool.ReadDir("pool")
	if err != nil {
		panic(err)
	}
	for _, e := range ents {
		b, _ := pool.ReadFile("pool/" + e.Name())
		switch {
		case strings.HasSuffix(e.Name(), ".pem"):
			name := strings.TrimSuffix(e.Name(), ".pem")
			blk, _ := pem.Decode(b)
			k, err := x509.ParsePKCS8PrivateKey(blk.Bytes)
			if err != nil {
				panic(fmt.Sprintf("%s: %v", e.Name(), err))
			}
			s := k.(crypto.Signer)
			spki, err := x509.MarshalPKIXPublicKey(s.Public())
			if err != nil {
				panic(err)
			}
			key := &Key{Name: name, Kind: name[:strings.LastIndex(name, "-")], Signer: s, Pub: s.Public(), PKCS8: blk.Bytes, SPKI: spki}
			byName[name] = key
		case strings.HasSuffix(e.Name(), ".json"):
			name := strings.TrimSuffix(e.Name(), ".json")
			var m map[string]string
			if err := json.Unmarshal(b, &m); err != nil {
				panic(err)
			}
			bi := func(s string) *big.Int { v, _ := new(big.Int).SetString(m[s], 16); return v }
			k := &dsa.PrivateKey{PublicKey: dsa.PublicKey{Parameters: dsa.Parameters{P: bi("P"), Q: bi("Q"), G: bi("G")}, Y: bi("Y")}, X: bi("X")}
			byName[name] = &Key{Name: name, Kind: name[:strings.LastIndex(name, "-")], DSA: k, Pub: &k.PublicKey}
		}
	}
	names := make([]string, 0, len(byName))
	for n := range byName {
		names = append(names, n)
	}
	sort.Strings(names)
	for _, n := range names {
		k := byName[n]
		byKind[k.Kind] = append(byKind[k.Kind], k)
	}
}

// Get returns the named key ("p256-3").
func Get(name string) *Key {
	once.Do(load)
	k := byName[name]
	if k == nil {
		panic("keys: unknown key " + name)
	}
	return k
}

// Kind returns all keys of a kind in a stable order.
func Kind(kind string) []*Key {
	once.Do(load)
	return byKind[kind]
}

// Pick returns the i-th key (mod pool size) of a kind.
func Pick(kind string, i int) *Key {
	ks := Kind(kind)
	if len(ks) == 0 {
		panic("keys: no keys of kind " + kind)
	}
	if i < 0 {
		i = -i
	}
	return ks[i%len(ks)]
}

// Kinds lists the signer-capable kinds.
var SignerKinds = []string{"rsa1024", "rsa2048", "rsa3072", "p224", "p256", "p384", "p521", "ed25519"}

var _ = []any{(*rsa.PrivateKey)(nil), (*ecdsa.PrivateKey)(nil), ed25519.PrivateKey(nil)}
