// Package rfc6962 holds encoders and strict decoders for the RFC 6962 section 3 structures, written
// line by line from the RFC text and RFC 5246 section 4 (vectors, enums, uint24). No reflection and no
// use of the repository's tls package: this is the reference the code under test is compared with.
package rfc6962

import (
	"crypto/sha256"
	"encoding/binary"
	"errors"
	"fmt"
)

// Entry types (RFC 6962 s3.1).
const (
	X509Entry    = 0
	PrecertEntry = 1
)

// Entry is the `signed_entry` of a TimestampedEntry.
type Entry struct {
	Type          uint16
	Cert          []byte   // x509_entry: ASN.1Cert<1..2^24-1>
	IssuerKeyHash [32]byte // precert_entry
	TBS           []byte   // precert_entry: TBSCertificate<1..2^24-1>
}

// Leaf is a MerkleTreeLeaf (version v1, leaf_type timestamped_entry).
type Leaf struct {
	Version    uint8
	LeafType   uint8
	Timestamp  uint64
	Entry      Entry
	Extensions []byte // CtExtensions<0..2^16-1>
}

// DigitallySigned is RFC 5246 s4.7 with the two algorithm octets of s7.4.1.4.1.
type DigitallySigned struct {
	Hash, Sig uint8
	Signature []byte // opaque<0..2^16-1>
}

// SCT is SignedCertificateTimestamp (s3.2).
type SCT struct {
	Version    uint8
	LogID      [32]byte
	Timestamp  uint64
	Extensions []byte
	Signature  DigitallySigned
}

func u16(v int) []byte { return []byte{byte(v >> 8), byte(v)} }
func u24(v int) []byte { return []byte{byte(v >> 16), byte(v >> 8), byte(v)} }
func u64(v uint64) []byte {
	b := make([]byte, 8)
	binary.BigEndian.PutUint64(b, v)
	return b
}

// Vec encodes opaque<min..max> with a length prefix of the width max requires.
func Vec(b []byte, min, max int) ([]byte, error) {
	if len(b) < min || len(b) > max {
		return nil, fmt.Errorf("rfc6962: vector of %d bytes outside <%d..%d>", len(b), min, max)
	}
	var p []byte
	switch {
	case max <= 0xff:
		p = []byte{byte(len(b))}
	case max <= 0xffff:
		p = u16(len(b))
	case max <= 0xffffff:
		p = u24(len(b))
	default:
		return nil, errors.New("rfc6962: unsupported maximum")
	}
	return append(p, b...), nil
}

func cat(parts ...[]byte) []byte {
	var out []byte
	for _, p := range parts {
		out = append(out, p...)
	}
	return out
}

// EncodeEntry encodes entry_type followed by the selected signed_entry.
func EncodeEntry(e Entry) ([]byte, error) {
	switch e.Type {
	case X509Entry:
		v, err := Vec(e.Cert, 1, 1<<24-1)
		if err != nil {
			return nil, err
		}
		return cat(u16(X509Entry), v), nil
	case PrecertEntry:
		v, err := Vec(e.TBS, 1, 1<<24-1)
		if err != nil {
			return nil, err
		}
		return cat(u16(PrecertEntry), e.IssuerKeyHash[:], v), nil
	}
	return nil, fmt.Errorf("rfc6962: unknown entry type %d", e.Type)
}

// EncodeLeaf encodes a MerkleTreeLeaf.
func EncodeLeaf(l Leaf) ([]byte, error) {
	if l.Version != 0 {
		return nil, fmt.Errorf("rfc6962: unknown version %d", l.Version)
	}
	if l.LeafType != 0 {
		return nil, fmt.Errorf("rfc6962: unknown leaf type %d", l.LeafType)
	}
	e, err := EncodeEntry(l.Entry)
	if err != nil {
		return nil, err
	}
	x, err := Vec(l.Extensions, 0, 0xffff)
	if err != nil {
		return nil, err
	}
	return cat([]byte{l.Version, l.LeafType}, u64(l.Timestamp), e, x), nil
}

// LeafHash is SHA-256(0x00 || leaf) (s2.1).
func LeafHash(leaf []byte) [32]byte { return sha256.Sum256(append([]byte{0}, leaf...)) }

// SCTSignatureInput is the digitally-signed struct of s3.2 (signature_type certificate_timestamp = 0).
func SCTSignatureInput(version uint8, timestamp uint64, e Entry, ext []byte) ([]byte, error) {
	if version != 0 {
		return nil, fmt.Errorf("rfc6962: unknown version %d", version)
	}
	eb, err := EncodeEntry(e)
	if err != nil {
		return nil, err
	}
	x, err := Vec(ext, 0, 0xffff)
	if err != nil {
		return nil, err
	}
	return cat([]byte{version, 0}, u64(timestamp), eb, x), nil
}

// STHSignatureInput is the digitally-signed struct of s3.5 (signature_type tree_hash = 1).
func STHSignatureInput(version uint8, timestamp, treeSize uint64, root [32]byte) ([]byte, error) {
	if version != 0 {
		return nil, fmt.Errorf("rfc6962: unknown version %d", version)
	}
	return cat([]byte{version, 1}, u64(timestamp), u64(treeSize), root[:]), nil
}

// EncodeDS encodes a DigitallySigned.
func EncodeDS(d DigitallySigned) ([]byte, error) {
	v, err := Vec(d.Signature, 0, 0xffff)
	if err != nil {
		return nil, err
	}
	return cat([]byte{d.Hash, d.Sig}, v), nil
}

// EncodeSCT encodes a SignedCertificateTimestamp.
func EncodeSCT(s SCT) ([]byte, error) {
	x, err := Vec(s.Extensions, 0, 0xffff)
	if err != nil {
		return nil, err
	}
	d, err := EncodeDS(s.Signature)
	if err != nil {
		return nil, err
	}
	return cat([]byte{s.Version}, s.LogID[:], u64(s.Timestamp), x, d), nil
}

// EncodeSCTList encodes SignedCertificateTimestampList (s3.3): SerializedSCT<1..2^16-1> sct_list<1..2^16-1>.
func EncodeSCTList(scts [][]byte) ([]byte, error) {
	var body []byte
	for _, s := range scts {
		v, err := Vec(s, 1, 0xffff)
		if err != nil {
			return nil, err
		}
		body = append(body, v...)
	}
	return Vec(body, 1, 0xffff)
}

// EncodeChain encodes `ASN.1Cert certificate_chain<0..2^24-1>` (s3.1 X509ChainEntry minus the leaf, as
// used in get-entries extra_data for x509 entries).
func EncodeChain(certs [][]byte) ([]byte, error) {
	var body []byte
	for _, c := range certs {
		v, err := Vec(c, 1, 1<<24-1)
		if err != nil {
			return nil, err
		}
		body = append(body, v...)
	}
	return Vec(body, 0, 1<<24-1)
}

// EncodePrecertChainEntry encodes PrecertChainEntry (s3.1): pre_certificate then precertificate_chain.
func EncodePrecertChainEntry(precert []byte, chain [][]byte) ([]byte, error) {
	p, err := Vec(precert, 1, 1<<24-1)
	if err != nil {
		return nil, err
	}
	c, err := EncodeChain(chain)
	if err != nil {
		return nil, err
	}
	return cat(p, c), nil
}

// ---------------------------------------------------------------------------------------------
// Strict decoders. Each returns the value and the unconsumed rest.

type rd struct {
	b   []byte
	err error
}

func (r *rd) take(n int) []byte {
	if r.err != nil {
		return nil
	}
	if n > len(r.b) {
		r.err = errors.New("rfc6962: truncated")
		return nil
	}
	out := r.b[:n]
	r.b = r.b[n:]
	return out
}
func (r *rd) u8() uint8 {
	b := r.take(1)
	if b == nil {
		return 0
	}
	return b[0]
}
func (r *rd) uN(n int) int {
	b := r.take(n)
	v := 0
	for _, x := range b {
		v = v<<8 | int(x)
	}
	return v
}
func (r *rd) u64() uint64 {
	b := r.take(8)
	if b == nil {
		return 0
	}
	return binary.BigEndian.Uint64(b)
}
func (r *rd) vec(min, max int) []byte {
	w := 1
	if max > 0xffff {
		w = 3
	} else if max > 0xff {
		w = 2
	}
	l := r.uN(w)
	if r.err != nil {
		return nil
	}
	if l < min || l > max {
		r.err = fmt.Errorf("rfc6962: vector length %d outside <%d..%d>", l, min, max)
		return nil
	}
	return append([]byte{}, r.take(l)...)
}

func (r *rd) entry() Entry {
	var e Entry
	e.Type = uint16(r.uN(2))
	if r.err != nil {
		return e
	}
	switch e.Type {
	case X509Entry:
		e.Cert = r.vec(1, 1<<24-1)
	case PrecertEntry:
		copy(e.IssuerKeyHash[:], r.take(32))
		e.TBS = r.vec(1, 1<<24-1)
	default:
		r.err = fmt.Errorf("rfc6962: unknown entry type %d", e.Type)
	}
	return e
}

// DecodeLeaf decodes a MerkleTreeLeaf from the front of b.
func DecodeLeaf(b []byte) (Leaf, []byte, error) {
	r := &rd{b: b}
	var l Leaf
	l.Version = r.u8()
	if r.err == nil && l.Version != 0 {
		r.err = fmt.Errorf("rfc6962: unknown version %d", l.Version)
	}
	l.LeafType = r.u8()
	if r.err == nil && l.LeafType != 0 {
		r.err = fmt.Errorf("rfc6962: unknown leaf type %d", l.LeafType)
	}
	l.Timestamp = r.u64()
	l.Entry = r.entry()
	l.Extensions = r.vec(0, 0xffff)
	return l, r.b, r.err
}

// DecodeDS decodes a DigitallySigned from the front of b (any algorithm octets: the enum ranges of RFC
// 5246 are (255)).
func DecodeDS(b []byte) (DigitallySigned, []byte, error) {
	r := &rd{b: b}
	var d DigitallySigned
	d.Hash = r.u8()
	d.Sig = r.u8()
	d.Signature = r.vec(0, 0xffff)
	return d, r.b, r.err
}

// DecodeSCT decodes a SignedCertificateTimestamp from the front of b. The version octet is returned
// as found (Version is an enum with range (255)); interpreting it is the caller's business.
func DecodeSCT(b []byte) (SCT, []byte, error) {
	r := &rd{b: b}
	var s SCT
	s.Version = r.u8()
	copy(s.LogID[:], r.take(32))
	s.Timestamp = r.u64()
	s.Extensions = r.vec(0, 0xffff)
	if r.err != nil {
		return s, r.b, r.err
	}
	d, rest, err := DecodeDS(r.b)
	s.Signature = d
	return s, rest, err
}

// DecodeSCTList decodes a SignedCertificateTimestampList completely (trailing bytes are an error).
func DecodeSCTList(b []byte) ([][]byte, error) {
	r := &rd{b: b}
	body := r.vec(1, 0xffff)
	if r.err != nil {
		return nil, r.err
	}
	if len(r.b) != 0 {
		return nil, errors.New("rfc6962: trailing data after SCT list")
	}
	in := &rd{b: body}
	var out [][]byte
	for len(in.b) > 0 {
		s := in.vec(1, 0xffff)
		if in.err != nil {
			return nil, in.err
		}
		out = append(out, s)
	}
	return out, nil
}

// DecodeChain decodes `ASN.1Cert chain<0..2^24-1>` from the front of b.
func DecodeChain(b []byte) ([][]byte, []byte, error) {
	r := &rd{b: b}
	body := r.vec(0, 1<<24-1)
	if r.err != nil {
		return nil, nil, r.err
	}
	in := &rd{b: body}
	out := [][]byte{}
	for len(in.b) > 0 {
		c := in.vec(1, 1<<24-1)
		if in.err != nil {
			return nil, nil, in.err
		}
		out = append(out, c)
	}
	return out, r.b, nil
}

// DecodePrecertChainEntry decodes a PrecertChainEntry from the front of b.
func DecodePrecertChainEntry(b []byte) (precert []byte, chain [][]byte, rest []byte, err error) {
	r := &rd{b: b}
	precert = r.vec(1, 1<<24-1)
	if r.err != nil {
		return nil, nil, nil, r.err
	}
	chain, rest, err = DecodeChain(r.b)
	return
}
