package pki

import (
	"crypto/x509"
	"testing"

	ctx509 "github.com/google/certificate-transparency-go/x509"
	"verif/internal/keys"
)

func TestChainVerifiesWithStdlib(t *testing.T) {
	for _, kinds := range [][3]string{{"p256", "p256", "p256"}, {"rsa2048", "p384", "rsa2048"}, {"ed25519", "ed25519", "p521"}, {"p521", "rsa3072", "ed25519"}} {
		root := Issue(nil, CATemplate("Root", keys.Pick(kinds[0], 0), 1, nil), "root")
		inter := Issue(root, CATemplate("Inter", keys.Pick(kinds[1], 1), 2, KeyID(root.Key)), "inter")
		leaf := Issue(inter, LeafTemplate("leaf", keys.Pick(kinds[2], 2), 3, KeyID(inter.Key)), "leaf")
		rc, err := x509.ParseCertificate(root.DER)
		if err != nil {
			t.Fatal(err)
		}
		ic, err := x509.ParseCertificate(inter.DER)
		if err != nil {
			t.Fatal(err)
		}
		lc, err := x509.ParseCertificate(leaf.DER)
		if err != nil {
			t.Fatal(err)
		}
		roots, inters := x509.NewCertPool(), x509.NewCertPool()
		roots.AddCert(rc)
		inters.AddCert(ic)
		if _, err := lc.Verify(x509.VerifyOptions{Roots: roots, Intermediates: inters, CurrentTime: Epoch}); err != nil {
			t.Fatalf("%v: %v", kinds, err)
		}
		for _, c := range []*Cert{root, inter, leaf} {
			if _, err := ctx509.ParseCertificate(c.DER); err != nil {
				t.Fatalf("fork parse: %v", err)
			}
		}
	}
}
