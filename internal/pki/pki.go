// Package pki builds X.509 certificates byte by byte on top of derx and the Go standard library's
// signing primitives, and records ground truth (who really signed what) that oracles use instead of
// re-parsing with the code under test.
package pki

import (
	"crypto"
	"crypto/ecdsa"
	"crypto/ed25519"
	"crypto/rand"
	"crypto/rsa"
	"crypto/sha1"
	"crypto/sha256"
	"crypto/sha512"
	"fmt"
	"math/big"
	"time"

	"verif/internal/derx"
	"verif/internal/keys"
)

// Well-known OIDs.
var (
	OIDCommonName   = []int{2, 5, 4, 3}
	OIDCountry      = []int{2, 5, 4, 6}
	OIDOrg          = []int{2, 5, 4, 10}
	OIDOrgUnit      = []int{2, 5, 4, 11}
	OIDLocality     = []int{2, 5, 4, 7}
	OIDSerialNumber = []int{2, 5, 4, 5}

	OIDExtSKI         = []int{2, 5, 29, 14}
	OIDExtKeyUsage    = []int{2, 5, 29, 15}
	OIDExtSAN         = []int{2, 5, 29, 17}
	OIDExtBasic       = []int{2, 5, 29, 19}
	OIDExtNameConstr  = []int{2, 5, 29, 30}
	OIDExtCRLDP       = []int{2, 5, 29, 31}
	OIDExtPolicies    = []int{2, 5, 29, 32}
	OIDExtAKI         = []int{2, 5, 29, 35}
	OIDExtEKU         = []int{2, 5, 29, 37}
	OIDExtAIA         = []int{1, 3, 6, 1, 5, 5, 7, 1, 1}
	OIDExtPoison      = []int{1, 3, 6, 1, 4, 1, 11129, 2, 4, 3}
	OIDExtSCTList     = []int{1, 3, 6, 1, 4, 1, 11129, 2, 4, 2}
	OIDEKUServerAuth  = []int{1, 3, 6, 1, 5, 5, 7, 3, 1}
	OIDEKUClientAuth  = []int{1, 3, 6, 1, 5, 5, 7, 3, 2}
	OIDEKUCodeSigning = []int{1, 3, 6, 1, 5, 5, 7, 3, 3}
	OIDEKUEmail       = []int{1, 3, 6, 1, 5, 5, 7, 3, 4}
	OIDEKUTimeStamp   = []int{1, 3, 6, 1, 5, 5, 7, 3, 8}
	OIDEKUOCSP        = []int{1, 3, 6, 1, 5, 5, 7, 3, 9}
	OIDEKUAny         = []int{2, 5, 29, 37, 0}
	OIDEKUCT          = []int{1, 3, 6, 1, 4, 1, 11129, 2, 4, 4} // precertificate signing
)

// Attr is one AttributeTypeAndValue.
type Attr struct {
	OID   []int
	Tag   byte // derx.TagPrintable, TagUTF8String, TagIA5 ...
	Value string
}

// Name is an RDNSequence: each element is one RDN (a SET of attributes).
type Name [][]Attr

// CN makes a one-RDN name with a PrintableString common name.
func CN(cn string) Name { return Name{{{OID: OIDCommonName, Tag: derx.TagPrintable, Value: cn}}} }

// DER encodes the name.
func (n Name) DER() []byte {
	var rdns [][]byte
	for _, rdn := range n {
		var attrs [][]byte
		for _, a := range rdn {
			tag := a.Tag
			if tag == 0 {
				tag = derx.TagPrintable
			}
			attrs = append(attrs, derx.Seq(derx.OID(a.OID...), derx.Str(tag, a.Value)))
		}
		rdns = append(rdns, derx.Set(attrs...))
	}
	return derx.Seq(rdns...)
}

// Ext is one extension; Value is the DER that goes inside the extnValue OCTET STRING.
type Ext struct {
	OID      []int
	Critical bool
	Value    []byte
}

// DER encodes the Extension SEQUENCE (criticality FALSE is omitted, as DER requires).
func (e Ext) DER() []byte {
	if e.Critical {
		return derx.Seq(derx.OID(e.OID...), derx.Bool(true), derx.Octets(e.Value))
	}
	return derx.Seq(derx.OID(e.OID...), derx.Octets(e.Value))
}

// Extension constructors.
func BasicConstraints(ca bool, pathLen int, critical bool) Ext {
	var body [][]byte
	if ca {
		body = append(body, derx.Bool(true))
		if pathLen >= 0 {
			body = append(body, derx.Int64(int64(pathLen)))
		}
	}
	return Ext{OID: OIDExtBasic, Critical: critical, Value: derx.Seq(body...)}
}

// KeyUsage takes the bits in RFC 5280 numbering (bit 0 = digitalSignature ... bit 8 = decipherOnly).
func KeyUsage(bits ...int) Ext {
	max := -1
	for _, b := range bits {
		if b > max {
			max = b
		}
	}
	nbytes := max/8 + 1
	buf := make([]byte, nbytes)
	for _, b := range bits {
		buf[b/8] |= 0x80 >> uint(b%8)
	}
	unused := 7 - max%8
	return Ext{OID: OIDExtKeyUsage, Critical: true, Value: derx.BitString(buf, unused)}
}

// KU bit numbers.
const (
	KUDigitalSignature = 0
	KUKeyEncipherment  = 2
	KUKeyCertSign      = 5
	KUCRLSign          = 6
)

func EKU(oids ...[]int) Ext {
	var body [][]byte
	for _, o := range oids {
		body = append(body, derx.OID(o...))
	}
	return Ext{OID: OIDExtEKU, Value: derx.Seq(body...)}
}

func SKI(id []byte) Ext { return Ext{OID: OIDExtSKI, Value: derx.Octets(id)} }
func AKI(id []byte) Ext {
	return Ext{OID: OIDExtAKI, Value: derx.Seq(derx.TLV(0x80, id))}
}
func SANDNS(names ...string) Ext {
	var body [][]byte
	for _, n := range names {
		body = append(body, derx.TLV(0x82, []byte(n)))
	}
	return Ext{OID: OIDExtSAN, Value: derx.Seq(body...)}
}
func Poison() Ext { return Ext{OID: OIDExtPoison, Critical: true, Value: derx.Null()} }
func SCTList(list []byte) Ext {
	return Ext{OID: OIDExtSCTList, Value: derx.Octets(list)}
}

// KeyID is the conventional SHA-1 of the subjectPublicKey bit string contents.
func KeyID(k *keys.Key) []byte {
	n := derx.MustParse(k.SPKI)
	bits := n.Children[1].Content[1:]
	h := sha1.Sum(bits)
	return h[:]
}

// Template describes a TBSCertificate.
type Template struct {
	Version    int // 0 => v3 (encoded [0] 2); 1 => v1 (version field omitted, no extensions)
	Serial     *big.Int
	Issuer     Name // overwritten by Issue from the parent
	Subject    Name
	NotBefore  time.Time
	NotAfter   time.Time
	Key        *keys.Key
	IssuerUID  []byte
	SubjectUID []byte
	Exts       []Ext
	SigAlg     string // "" = default for the signing key
	// RawIssuer overrides the encoded issuer name when non-nil.
	RawIssuer []byte
}

// SigAlgID returns the AlgorithmIdentifier DER and the hash for a signing key and algorithm name.
func SigAlgID(k *keys.Key, alg string) ([]byte, crypto.Hash) {
	if alg == "" {
		switch k.Pub.(type) {
		case *rsa.PublicKey:
			alg = "sha256-rsa"
		case *ecdsa.PublicKey:
			alg = "ecdsa-sha256"
		case ed25519.PublicKey:
			alg = "ed25519"
		}
	}
	switch alg {
	case "sha256-rsa":
		return derx.Seq(derx.OID(1, 2, 840, 113549, 1, 1, 11), derx.Null()), crypto.SHA256
	case "sha384-rsa":
		return derx.Seq(derx.OID(1, 2, 840, 113549, 1, 1, 12), derx.Null()), crypto.SHA384
	case "sha512-rsa":
		return derx.Seq(derx.OID(1, 2, 840, 113549, 1, 1, 13), derx.Null()), crypto.SHA512
	case "ecdsa-sha256":
		return derx.Seq(derx.OID(1, 2, 840, 10045, 4, 3, 2)), crypto.SHA256
	case "ecdsa-sha384":
		return derx.Seq(derx.OID(1, 2, 840, 10045, 4, 3, 3)), crypto.SHA384
	case "ecdsa-sha512":
		return derx.Seq(derx.OID(1, 2, 840, 10045, 4, 3, 4)), crypto.SHA512
	case "ed25519":
		return derx.Seq(derx.OID(1, 3, 101, 112)), 0
	}
	panic("pki: unknown signature algorithm " + alg)
}

// SigAlgsFor lists the algorithm names usable with a key.
func SigAlgsFor(k *keys.Key) []string {
	switch k.Pub.(type) {
	case *rsa.PublicKey:
		return []string{"sha256-rsa", "sha384-rsa", "sha512-rsa"}
	case *ecdsa.PublicKey:
		return []string{"ecdsa-sha256", "ecdsa-sha384", "ecdsa-sha512"}
	}
	return []string{"ed25519"}
}

// TBS encodes the TBSCertificate; signer selects the signature AlgorithmIdentifier.
func (t *Template) TBS(signer *keys.Key) []byte {
	alg, _ := SigAlgID(signer, t.SigAlg)
	var parts [][]byte
	if t.Version != 1 {
		parts = append(parts, derx.Explicit(0, derx.Int64(2)))
	}
	serial := t.Serial
	if serial == nil {
		serial = big.NewInt(1)
	}
	issuer := t.RawIssuer
	if issuer == nil {
		issuer = t.Issuer.DER()
	}
	parts = append(parts, derx.Int(serial), alg, issuer,
		derx.Seq(derx.Time(t.NotBefore), derx.Time(t.NotAfter)), t.Subject.DER(), t.Key.SPKI)
	if t.IssuerUID != nil {
		parts = append(parts, derx.TLV(0x81, []byte{0}, t.IssuerUID))
	}
	if t.SubjectUID != nil {
		parts = append(parts, derx.TLV(0x82, []byte{0}, t.SubjectUID))
	}
	if len(t.Exts) > 0 && t.Version != 1 {
		var es [][]byte
		for _, e := range t.Exts {
			es = append(es, e.DER())
		}
		parts = append(parts, derx.Explicit(3, derx.Seq(es...)))
	}
	return derx.Seq(parts...)
}

// SignTBS signs tbs with the key and wraps it into a Certificate.
func SignTBS(tbs []byte, signer *keys.Key, algName string) []byte {
	alg, h := SigAlgID(signer, algName)
	var sig []byte
	var err error
	switch k := signer.Signer.(type) {
	case ed25519.PrivateKey:
		sig = ed25519.Sign(k, tbs)
	default:
		var d []byte
		switch h {
		case crypto.SHA256:
			x := sha256.Sum256(tbs)
			d = x[:]
		case crypto.SHA384:
			x := sha512.Sum384(tbs)
			d = x[:]
		case crypto.SHA512:
			x := sha512.Sum512(tbs)
			d = x[:]
		}
		sig, err = signer.Signer.Sign(rand.Reader, d, h)
		if err != nil {
			panic(err)
		}
	}
	return derx.Seq(tbs, alg, derx.BitString(sig, 0))
}

// Cert is a built certificate with its ground truth.
type Cert struct {
	Label     string
	DER       []byte
	TBS       []byte
	Tmpl      Template
	Key       *keys.Key // subject key
	Parent    *Cert     // issuing certificate (nil when self-signed)
	SignerKey *keys.Key // key that produced the signature
	IsCA      bool      // BasicConstraints CA (or v1 self-signed root)
	Genuine   bool      // signature really made by SignerKey over TBS and untouched since
	SelfSigned bool
}

// SubjectDER / IssuerDER return the encoded names.
func (c *Cert) SubjectDER() []byte { return c.Tmpl.Subject.DER() }
func (c *Cert) IssuerDER() []byte {
	if c.Tmpl.RawIssuer != nil {
		return c.Tmpl.RawIssuer
	}
	return c.Tmpl.Issuer.DER()
}

// SPKIHash is SHA-256 of the certificate's SubjectPublicKeyInfo.
func (c *Cert) SPKIHash() [32]byte { return sha256.Sum256(c.Key.SPKI) }

// Issue builds and signs a certificate under parent (self-signed when parent is nil).
func Issue(parent *Cert, t Template, label string) *Cert {
	c := &Cert{Label: label, Key: t.Key, Parent: parent, Genuine: true}
	if parent == nil {
		t.Issuer = t.Subject
		c.SignerKey = t.Key
		c.SelfSigned = true
	} else {
		t.Issuer = parent.Tmpl.Subject
		c.SignerKey = parent.Key
	}
	for _, e := range t.Exts {
		if eq(e.OID, OIDExtBasic) {
			n := derx.MustParse(e.Value)
			if len(n.Children) > 0 && n.Children[0].Tag() == derx.TagBoolean && n.Children[0].Content[0] != 0 {
				c.IsCA = true
			}
		}
	}
	if t.Version == 1 && parent == nil {
		c.IsCA = true
	}
	c.Tmpl = t
	c.TBS = t.TBS(c.SignerKey)
	c.DER = SignTBS(c.TBS, c.SignerKey, t.SigAlg)
	return c
}

// IssueWithKey signs the template with an arbitrary key while naming `named` as issuer: a forgery
// (Genuine reports whether the signing key is the named issuer's key).
func IssueWithKey(named *Cert, signer *keys.Key, t Template, label string) *Cert {
	c := &Cert{Label: label, Key: t.Key, Parent: named, SignerKey: signer}
	t.Issuer = named.Tmpl.Subject
	c.Tmpl = t
	c.TBS = t.TBS(signer)
	c.DER = SignTBS(c.TBS, signer, t.SigAlg)
	c.Genuine = signer == named.Key
	for _, e := range t.Exts {
		if eq(e.OID, OIDExtBasic) {
			n := derx.MustParse(e.Value)
			if len(n.Children) > 0 && n.Children[0].Tag() == derx.TagBoolean && n.Children[0].Content[0] != 0 {
				c.IsCA = true
			}
		}
	}
	return c
}

func eq(a, b []int) bool {
	if len(a) != len(b) {
		return false
	}
	for i := range a {
		if a[i] != b[i] {
			return false
		}
	}
	return true
}

// OIDEq compares two OIDs.
func OIDEq(a, b []int) bool { return eq(a, b) }

// HasExt reports whether the template carries the extension.
func (t *Template) HasExt(oid []int) bool {
	for _, e := range t.Exts {
		if eq(e.OID, oid) {
			return true
		}
	}
	return false
}

// Epoch is a fixed reference instant used by generators (whole second).
var Epoch = time.Date(2024, 6, 1, 0, 0, 0, 0, time.UTC)

// CATemplate returns a conventional CA template (BasicConstraints CA, keyCertSign, SKI; AKI when aki != nil).
func CATemplate(cn string, key *keys.Key, serial int64, aki []byte) Template {
	t := Template{Serial: big.NewInt(serial), Subject: CN(cn), NotBefore: Epoch.AddDate(-5, 0, 0), NotAfter: Epoch.AddDate(20, 0, 0), Key: key,
		Exts: []Ext{BasicConstraints(true, -1, true), KeyUsage(KUKeyCertSign, KUCRLSign), SKI(KeyID(key))}}
	if aki != nil {
		t.Exts = append(t.Exts, AKI(aki))
	}
	return t
}

// LeafTemplate returns a conventional end-entity template.
func LeafTemplate(cn string, key *keys.Key, serial int64, aki []byte) Template {
	t := Template{Serial: big.NewInt(serial), Subject: CN(cn), NotBefore: Epoch.AddDate(0, -1, 0), NotAfter: Epoch.AddDate(1, 0, 0), Key: key,
		Exts: []Ext{KeyUsage(KUDigitalSignature), EKU(OIDEKUServerAuth), SANDNS(cn + ".example.com"), SKI(KeyID(key))}}
	if aki != nil {
		t.Exts = append(t.Exts, AKI(aki))
	}
	return t
}

func (c *Cert) String() string { return fmt.Sprintf("%s(%d bytes)", c.Label, len(c.DER)) }
