// Package reflog is an in-memory reference CT backend implementing trillian.TrillianLogClient. It
// mirrors the observable behaviour of the Trillian log server (server/log_rpc_server.go v1.7.1) for
// the RPCs the CT front end and migrillian use, with proofs computed by the spec-derived mtree package.
// It records every request and can inject faults / mutate replies according to a plan given as data.
package reflog

import (
	"bytes"
	"context"
	"sync"
	"time"

	"github.com/google/trillian"
	"github.com/google/trillian/types"
	"google.golang.org/grpc"
	"google.golang.org/grpc/codes"
	"google.golang.org/grpc/status"
	"google.golang.org/protobuf/proto"
	statuspb "google.golang.org/genproto/googleapis/rpc/status"

	"verif/internal/mtree"
)

// Call is one recorded request.
type Call struct {
	RPC         string
	N           int // per-RPC call number, starting at 0
	Req         proto.Message
	Deadline    time.Time
	HasDeadline bool
}

// Log is the reference backend. The zero value is not usable; use New.
type Log struct {
	mu        sync.Mutex
	LogID     int64
	Preorder  bool // PREORDERED_LOG: only AddSequencedLeaves writes
	NoDedup   bool // like Trillian's memory storage: duplicates are queued again
	// DupAsRPCError makes QueueLeaf answer a duplicate with a gRPC AlreadyExists ERROR (no leaf) instead of the
	// in-band status: a backend that does so gives the front end nothing to build an SCT from.
	DupAsRPCError bool
	leaves    []*trillian.LogLeaf // sequenced leaves (index = position)
	tree      mtree.Tree
	pending   []*trillian.LogLeaf
	byID      map[string]*trillian.LogLeaf // identity hash -> stored (queued or sequenced) leaf
	sparse    map[int64]*trillian.LogLeaf  // preordered: leaves beyond the integrated prefix
	rootSize  int
	rootNanos uint64
	Roots     []types.LogRootV1 // every root ever published, oldest first

	Calls  []Call
	// Conflicts / IdentityDups record anomalies seen by AddSequencedLeaves.
	Conflicts    []Conflict
	IdentityDups []int64
	counts map[string]int

	// Intercept, when non-nil, is consulted before each RPC; ok=true short-circuits with (rsp, err).
	Intercept func(c Call) (rsp proto.Message, err error, ok bool)
	// Mutate, when non-nil, may alter (or replace) a successful reply before it is returned.
	Mutate func(c Call, rsp proto.Message) proto.Message
	// MaxLeavesPerRange > 0 caps GetLeavesByRange replies (backend short reads).
	MaxLeavesPerRange int
	// QueueTime supplies QueueTimestamp values (optional).
	Now func() time.Time
}

// New returns an empty log with a published size-0 root at timestamp nanos.
func New(logID int64, nanos uint64) *Log {
	l := &Log{LogID: logID, byID: map[string]*trillian.LogLeaf{}, sparse: map[int64]*trillian.LogLeaf{}, counts: map[string]int{}}
	l.publish(nanos)
	return l
}

func (l *Log) publish(nanos uint64) {
	l.rootSize = len(l.leaves)
	l.rootNanos = nanos
	r := l.tree.Root(l.rootSize)
	l.Roots = append(l.Roots, types.LogRootV1{TreeSize: uint64(l.rootSize), RootHash: append([]byte(nil), r[:]...), TimestampNanos: nanos})
}

func (l *Log) slr() *trillian.SignedLogRoot {
	r := l.Roots[len(l.Roots)-1]
	b, err := r.MarshalBinary()
	if err != nil {
		panic(err)
	}
	return &trillian.SignedLogRoot{LogRoot: b}
}

// CurrentRoot returns the latest published root.
func (l *Log) CurrentRoot() types.LogRootV1 {
	l.mu.Lock()
	defer l.mu.Unlock()
	return l.Roots[len(l.Roots)-1]
}

// Size returns the number of sequenced leaves (may exceed the published root in no case: Sequence publishes).
func (l *Log) Size() int { l.mu.Lock(); defer l.mu.Unlock(); return len(l.leaves) }

// Pending returns the number of queued, unsequenced leaves.
func (l *Log) Pending() int { l.mu.Lock(); defer l.mu.Unlock(); return len(l.pending) }

// Leaf returns the sequenced leaf at index i (a copy).
func (l *Log) Leaf(i int) *trillian.LogLeaf {
	l.mu.Lock()
	defer l.mu.Unlock()
	return proto.Clone(l.leaves[i]).(*trillian.LogLeaf)
}

// TreeRoot returns MTH over the first n sequenced leaves (safe for concurrent use).
func (l *Log) TreeRoot(n int) [32]byte {
	l.mu.Lock()
	defer l.mu.Unlock()
	return l.tree.Root(n)
}

// PublishedRoots returns a copy of every root published so far (safe for concurrent use).
func (l *Log) PublishedRoots() []types.LogRootV1 {
	l.mu.Lock()
	defer l.mu.Unlock()
	return append([]types.LogRootV1(nil), l.Roots...)
}

// Tree exposes the Merkle tree of sequenced leaves (read-only use).
func (l *Log) Tree() *mtree.Tree { return &l.tree }

// Sequence integrates up to k pending leaves (k < 0: all) and publishes a new root with the given
// timestamp, even when nothing was integrated (as the Trillian signer does after its interval).
func (l *Log) Sequence(k int, nanos uint64) int {
	l.mu.Lock()
	defer l.mu.Unlock()
	if k < 0 || k > len(l.pending) {
		k = len(l.pending)
	}
	for _, lf := range l.pending[:k] {
		l.integrate(lf)
	}
	l.pending = l.pending[k:]
	l.publish(nanos)
	return k
}

func (l *Log) integrate(lf *trillian.LogLeaf) {
	lf.LeafIndex = int64(len(l.leaves))
	h := mtree.LeafHash(lf.LeafValue)
	lf.MerkleLeafHash = h[:]
	l.leaves = append(l.leaves, lf)
	l.tree.AppendHash(h)
}

// AppendRaw sequences an arbitrary leaf directly (for pre-loading stores); no root is published.
func (l *Log) AppendRaw(leafValue, extraData []byte) {
	l.mu.Lock()
	defer l.mu.Unlock()
	l.integrate(&trillian.LogLeaf{LeafValue: leafValue, ExtraData: extraData, LeafIdentityHash: mtreeHash(leafValue)})
}

// Preset stores a leaf as if an earlier front end had queued it (it is pending, and a later QueueLeaf with the
// same identity hash is answered as a duplicate of it).
func (l *Log) Preset(leaf *trillian.LogLeaf) {
	l.mu.Lock()
	defer l.mu.Unlock()
	lf := proto.Clone(leaf).(*trillian.LogLeaf)
	lf.MerkleLeafHash = mtreeHash(lf.LeafValue)
	l.byID[string(lf.LeafIdentityHash)] = lf
	l.pending = append(l.pending, lf)
}

// Publish publishes a root over all sequenced leaves.
func (l *Log) Publish(nanos uint64) { l.mu.Lock(); defer l.mu.Unlock(); l.publish(nanos) }

func mtreeHash(b []byte) []byte { h := mtree.LeafHash(b); return h[:] }

func (l *Log) enter(ctx context.Context, rpc string, req proto.Message) (Call, proto.Message, error, bool) {
	c := Call{RPC: rpc, N: l.counts[rpc], Req: proto.Clone(req)}
	c.Deadline, c.HasDeadline = ctx.Deadline()
	l.counts[rpc]++
	l.Calls = append(l.Calls, c)
	if l.Intercept != nil {
		if rsp, err, ok := l.Intercept(c); ok {
			return c, rsp, err, true
		}
	}
	return c, nil, nil, false
}

func (l *Log) leave(c Call, rsp proto.Message) proto.Message {
	if l.Mutate != nil {
		return l.Mutate(c, rsp)
	}
	return rsp
}

// CallsOf returns the recorded calls of one RPC.
func (l *Log) CallsOf(rpc string) []Call {
	l.mu.Lock()
	defer l.mu.Unlock()
	var out []Call
	for _, c := range l.Calls {
		if c.RPC == rpc {
			out = append(out, c)
		}
	}
	return out
}

// AllCalls returns every recorded call in order.
func (l *Log) AllCalls() []Call {
	l.mu.Lock()
	defer l.mu.Unlock()
	return append([]Call(nil), l.Calls...)
}

// NumCalls returns the number of recorded calls.
func (l *Log) NumCalls() int { l.mu.Lock(); defer l.mu.Unlock(); return len(l.Calls) }

func cast[T proto.Message](m proto.Message) T {
	var zero T
	if m == nil {
		return zero
	}
	return m.(T)
}

func (l *Log) QueueLeaf(ctx context.Context, in *trillian.QueueLeafRequest, _ ...grpc.CallOption) (*trillian.QueueLeafResponse, error) {
	l.mu.Lock()
	defer l.mu.Unlock()
	c, rsp, err, ok := l.enter(ctx, "QueueLeaf", in)
	if ok {
		return cast[*trillian.QueueLeafResponse](rsp), err
	}
	if in.Leaf == nil {
		return nil, status.Errorf(codes.InvalidArgument, "QueueLeafRequest.Leaf empty")
	}
	if len(in.Leaf.LeafValue) == 0 {
		return nil, status.Errorf(codes.InvalidArgument, "QueueLeafRequest.Leaf.LeafValue: empty")
	}
	if l.Preorder {
		return nil, status.Errorf(codes.InvalidArgument, "operation not allowed for PREORDERED_LOG-type trees")
	}
	leaf := proto.Clone(in.Leaf).(*trillian.LogLeaf)
	leaf.MerkleLeafHash = mtreeHash(leaf.LeafValue)
	if len(leaf.LeafIdentityHash) == 0 {
		leaf.LeafIdentityHash = leaf.MerkleLeafHash
	}
	var out *trillian.QueuedLogLeaf
	if _, dup := l.byID[string(leaf.LeafIdentityHash)]; dup && !l.NoDedup && l.DupAsRPCError {
		return nil, status.Errorf(codes.AlreadyExists, "leaf already exists")
	}
	if prev, dup := l.byID[string(leaf.LeafIdentityHash)]; dup && !l.NoDedup {
		out = &trillian.QueuedLogLeaf{Leaf: proto.Clone(prev).(*trillian.LogLeaf), Status: &statuspb.Status{Code: int32(codes.AlreadyExists), Message: "leaf already exists"}}
	} else {
		l.byID[string(leaf.LeafIdentityHash)] = leaf
		l.pending = append(l.pending, leaf)
		out = &trillian.QueuedLogLeaf{Leaf: proto.Clone(leaf).(*trillian.LogLeaf)}
	}
	return cast[*trillian.QueueLeafResponse](l.leave(c, &trillian.QueueLeafResponse{QueuedLeaf: out})), nil
}

func (l *Log) AddSequencedLeaves(ctx context.Context, in *trillian.AddSequencedLeavesRequest, _ ...grpc.CallOption) (*trillian.AddSequencedLeavesResponse, error) {
	l.mu.Lock()
	defer l.mu.Unlock()
	c, rsp, err, ok := l.enter(ctx, "AddSequencedLeaves", in)
	if ok {
		return cast[*trillian.AddSequencedLeavesResponse](rsp), err
	}
	if len(in.Leaves) == 0 {
		return nil, status.Errorf(codes.InvalidArgument, "AddSequencedLeavesRequest.Leaves empty")
	}
	next := in.Leaves[0].LeafIndex
	for i, lf := range in.Leaves {
		if lf == nil || len(lf.LeafValue) == 0 || lf.LeafIndex < 0 {
			return nil, status.Errorf(codes.InvalidArgument, "AddSequencedLeavesRequest.Leaves[%d] invalid", i)
		}
		if lf.LeafIndex != next {
			return nil, status.Errorf(codes.FailedPrecondition, "AddSequencedLeavesRequest.Leaves[%v].LeafIndex=%v, want %v", i, lf.LeafIndex, next)
		}
		next++
	}
	if !l.Preorder {
		return nil, status.Errorf(codes.InvalidArgument, "operation not allowed for LOG-type trees")
	}
	out := &trillian.AddSequencedLeavesResponse{}
	for _, in := range in.Leaves {
		lf := proto.Clone(in).(*trillian.LogLeaf)
		lf.MerkleLeafHash = mtreeHash(lf.LeafValue)
		if len(lf.LeafIdentityHash) == 0 {
			lf.LeafIdentityHash = lf.MerkleLeafHash
		}
		res := &trillian.QueuedLogLeaf{Leaf: lf}
		var have *trillian.LogLeaf
		if lf.LeafIndex < int64(len(l.leaves)) {
			have = l.leaves[lf.LeafIndex]
		} else if s, ok := l.sparse[lf.LeafIndex]; ok {
			have = s
		}
		switch {
		case have != nil:
			// Same index written again: the SQL storages report a duplicate (index collision).
			res.Status = &statuspb.Status{Code: int32(codes.FailedPrecondition), Message: "conflicting LeafIndex"}
			if bytes.Equal(have.LeafValue, lf.LeafValue) && bytes.Equal(have.ExtraData, lf.ExtraData) {
				res.Status = &statuspb.Status{Code: int32(codes.AlreadyExists), Message: "leaf already exists at this index"}
			}
			l.Conflicts = append(l.Conflicts, Conflict{Index: lf.LeafIndex, Same: res.Status.Code == int32(codes.AlreadyExists)})
		default:
			if prev, dup := l.byID[string(lf.LeafIdentityHash)]; dup && !l.NoDedup && prev.LeafIndex != lf.LeafIndex {
				res.Status = &statuspb.Status{Code: int32(codes.AlreadyExists), Message: "identity hash already present"}
				l.IdentityDups = append(l.IdentityDups, lf.LeafIndex)
			} else {
				l.byID[string(lf.LeafIdentityHash)] = lf
				l.sparse[lf.LeafIndex] = lf
			}
		}
		out.Results = append(out.Results, res)
	}
	return cast[*trillian.AddSequencedLeavesResponse](l.leave(c, out)), nil
}

// Conflict records a second write to an already occupied index of a pre-ordered log.
type Conflict struct {
	Index int64
	Same  bool
}

// IntegrateSparse moves contiguous pre-ordered leaves into the tree and publishes a root (the
// sequencer step of a PREORDERED_LOG). Returns the new size.
func (l *Log) IntegrateSparse(nanos uint64) int {
	l.mu.Lock()
	defer l.mu.Unlock()
	for {
		lf, ok := l.sparse[int64(len(l.leaves))]
		if !ok {
			break
		}
		delete(l.sparse, int64(len(l.leaves)))
		l.integrate(lf)
	}
	l.publish(nanos)
	return len(l.leaves)
}

// SparseIndices lists stored-but-not-integrated indices of a pre-ordered log.
func (l *Log) SparseIndices() []int64 {
	l.mu.Lock()
	defer l.mu.Unlock()
	var out []int64
	for i := range l.sparse {
		out = append(out, i)
	}
	return out
}

// SparseLeaf returns a stored-but-not-integrated leaf.
func (l *Log) SparseLeaf(i int64) *trillian.LogLeaf { l.mu.Lock(); defer l.mu.Unlock(); return l.sparse[i] }

func (l *Log) GetLatestSignedLogRoot(ctx context.Context, in *trillian.GetLatestSignedLogRootRequest, _ ...grpc.CallOption) (*trillian.GetLatestSignedLogRootResponse, error) {
	l.mu.Lock()
	defer l.mu.Unlock()
	c, rsp, err, ok := l.enter(ctx, "GetLatestSignedLogRoot", in)
	if ok {
		return cast[*trillian.GetLatestSignedLogRootResponse](rsp), err
	}
	out := &trillian.GetLatestSignedLogRootResponse{SignedLogRoot: l.slr()}
	if in.FirstTreeSize > 0 {
		if in.FirstTreeSize > int64(l.rootSize) {
			return nil, status.Errorf(codes.InvalidArgument, "first_tree_size(%d) > current(%d)", in.FirstTreeSize, l.rootSize)
		}
		out.Proof = &trillian.Proof{Hashes: mtree.Bytes(l.tree.Proof(int(in.FirstTreeSize), l.rootSize))}
	}
	return cast[*trillian.GetLatestSignedLogRootResponse](l.leave(c, out)), nil
}

func (l *Log) GetConsistencyProof(ctx context.Context, in *trillian.GetConsistencyProofRequest, _ ...grpc.CallOption) (*trillian.GetConsistencyProofResponse, error) {
	l.mu.Lock()
	defer l.mu.Unlock()
	c, rsp, err, ok := l.enter(ctx, "GetConsistencyProof", in)
	if ok {
		return cast[*trillian.GetConsistencyProofResponse](rsp), err
	}
	if in.FirstTreeSize <= 0 || in.SecondTreeSize <= 0 || in.SecondTreeSize < in.FirstTreeSize {
		return nil, status.Errorf(codes.InvalidArgument, "GetConsistencyProofRequest sizes %d %d", in.FirstTreeSize, in.SecondTreeSize)
	}
	out := &trillian.GetConsistencyProofResponse{SignedLogRoot: l.slr()}
	if in.SecondTreeSize <= int64(l.rootSize) {
		out.Proof = &trillian.Proof{Hashes: mtree.Bytes(l.tree.Proof(int(in.FirstTreeSize), int(in.SecondTreeSize)))}
	}
	return cast[*trillian.GetConsistencyProofResponse](l.leave(c, out)), nil
}

func (l *Log) GetInclusionProof(ctx context.Context, in *trillian.GetInclusionProofRequest, _ ...grpc.CallOption) (*trillian.GetInclusionProofResponse, error) {
	l.mu.Lock()
	defer l.mu.Unlock()
	c, rsp, err, ok := l.enter(ctx, "GetInclusionProof", in)
	if ok {
		return cast[*trillian.GetInclusionProofResponse](rsp), err
	}
	if in.TreeSize <= 0 || in.LeafIndex < 0 || in.LeafIndex >= in.TreeSize {
		return nil, status.Errorf(codes.InvalidArgument, "GetInclusionProofRequest")
	}
	out := &trillian.GetInclusionProofResponse{SignedLogRoot: l.slr()}
	if in.TreeSize <= int64(l.rootSize) {
		out.Proof = &trillian.Proof{LeafIndex: in.LeafIndex, Hashes: mtree.Bytes(l.tree.Path(int(in.LeafIndex), int(in.TreeSize)))}
	}
	return cast[*trillian.GetInclusionProofResponse](l.leave(c, out)), nil
}

func (l *Log) GetInclusionProofByHash(ctx context.Context, in *trillian.GetInclusionProofByHashRequest, _ ...grpc.CallOption) (*trillian.GetInclusionProofByHashResponse, error) {
	l.mu.Lock()
	defer l.mu.Unlock()
	c, rsp, err, ok := l.enter(ctx, "GetInclusionProofByHash", in)
	if ok {
		return cast[*trillian.GetInclusionProofByHashResponse](rsp), err
	}
	if in.TreeSize <= 0 {
		return nil, status.Errorf(codes.InvalidArgument, "GetInclusionProofByHashRequest.TreeSize: %v, want > 0", in.TreeSize)
	}
	if len(in.LeafHash) != 32 {
		return nil, status.Errorf(codes.InvalidArgument, "GetInclusionProofByHashRequest.LeafHash: %d bytes, want 32", len(in.LeafHash))
	}
	var proofs []*trillian.Proof
	for i, lf := range l.leaves[:l.rootSize] {
		if !bytes.Equal(lf.MerkleLeafHash, in.LeafHash) || int64(i) >= in.TreeSize {
			continue
		}
		if in.TreeSize > int64(l.rootSize) {
			// the real server fails to build a proof at an unknown revision
			return nil, status.Errorf(codes.InvalidArgument, "tree size %d beyond current %d", in.TreeSize, l.rootSize)
		}
		proofs = append(proofs, &trillian.Proof{LeafIndex: int64(i), Hashes: mtree.Bytes(l.tree.Path(i, int(in.TreeSize)))})
	}
	if len(proofs) < 1 {
		return nil, status.Errorf(codes.NotFound, "No leaf found for hash: %x in tree size %v", in.LeafHash, in.TreeSize)
	}
	return cast[*trillian.GetInclusionProofByHashResponse](l.leave(c, &trillian.GetInclusionProofByHashResponse{SignedLogRoot: l.slr(), Proof: proofs})), nil
}

func (l *Log) GetLeavesByRange(ctx context.Context, in *trillian.GetLeavesByRangeRequest, _ ...grpc.CallOption) (*trillian.GetLeavesByRangeResponse, error) {
	l.mu.Lock()
	defer l.mu.Unlock()
	c, rsp, err, ok := l.enter(ctx, "GetLeavesByRange", in)
	if ok {
		return cast[*trillian.GetLeavesByRangeResponse](rsp), err
	}
	if in.StartIndex < 0 {
		return nil, status.Errorf(codes.InvalidArgument, "GetLeavesByRangeRequest.StartIndex: %v, want >= 0", in.StartIndex)
	}
	if in.Count <= 0 {
		return nil, status.Errorf(codes.InvalidArgument, "GetLeavesByRangeRequest.Count: %v, want > 0", in.Count)
	}
	out := &trillian.GetLeavesByRangeResponse{SignedLogRoot: l.slr()}
	if in.StartIndex < int64(l.rootSize) {
		end := int64(l.rootSize)
		if in.Count < end-in.StartIndex {
			end = in.StartIndex + in.Count
		}
		if l.MaxLeavesPerRange > 0 && end-in.StartIndex > int64(l.MaxLeavesPerRange) {
			end = in.StartIndex + int64(l.MaxLeavesPerRange)
		}
		for _, lf := range l.leaves[in.StartIndex:end] {
			out.Leaves = append(out.Leaves, proto.Clone(lf).(*trillian.LogLeaf))
		}
	}
	return cast[*trillian.GetLeavesByRangeResponse](l.leave(c, out)), nil
}

func (l *Log) GetEntryAndProof(ctx context.Context, in *trillian.GetEntryAndProofRequest, _ ...grpc.CallOption) (*trillian.GetEntryAndProofResponse, error) {
	l.mu.Lock()
	defer l.mu.Unlock()
	c, rsp, err, ok := l.enter(ctx, "GetEntryAndProof", in)
	if ok {
		return cast[*trillian.GetEntryAndProofResponse](rsp), err
	}
	if in.TreeSize <= 0 || in.LeafIndex < 0 || in.LeafIndex >= in.TreeSize {
		return nil, status.Errorf(codes.InvalidArgument, "GetEntryAndProofRequest index %d size %d", in.LeafIndex, in.TreeSize)
	}
	out := &trillian.GetEntryAndProofResponse{SignedLogRoot: l.slr()}
	ts := in.TreeSize
	if ts > int64(l.rootSize) && in.LeafIndex < int64(l.rootSize) {
		ts = int64(l.rootSize)
	}
	if ts <= int64(l.rootSize) {
		out.Proof = &trillian.Proof{LeafIndex: in.LeafIndex, Hashes: mtree.Bytes(l.tree.Path(int(in.LeafIndex), int(ts)))}
		out.Leaf = proto.Clone(l.leaves[in.LeafIndex]).(*trillian.LogLeaf)
	}
	return cast[*trillian.GetEntryAndProofResponse](l.leave(c, out)), nil
}

func (l *Log) InitLog(ctx context.Context, in *trillian.InitLogRequest, _ ...grpc.CallOption) (*trillian.InitLogResponse, error) {
	l.mu.Lock()
	defer l.mu.Unlock()
	return &trillian.InitLogResponse{Created: l.slr()}, nil
}

var _ trillian.TrillianLogClient = (*Log)(nil)
