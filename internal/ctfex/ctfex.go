// Package ctfex builds ctfe.Instances for the harness (through the verif-tagged hook so that the
// clock is controllable) and drives their handlers in-process.
package ctfex

import (
	"bytes"
	"context"
	"crypto/sha256"
	"encoding/hex"
	"encoding/pem"
	"errors"
	"fmt"
	"io"
	"net/http"
	"net/http/httptest"
	"os"
	"path/filepath"
	"runtime"
	"strings"
	"sync"
	"time"

	"github.com/google/certificate-transparency-go/trillian/ctfe"
	"github.com/google/certificate-transparency-go/trillian/ctfe/cache"
	"github.com/google/certificate-transparency-go/trillian/ctfe/configpb"
	"github.com/google/certificate-transparency-go/trillian/ctfe/storage"
	"github.com/google/certificate-transparency-go/x509"
	"github.com/google/trillian"
	"github.com/google/trillian/crypto/keys"
	"github.com/google/trillian/crypto/keys/der"
	"github.com/google/trillian/crypto/keyspb"
	"github.com/google/trillian/monitoring"
	"google.golang.org/protobuf/types/known/anypb"

	vkeys "verif/internal/keys"
	"verif/internal/pki"
)

func init() {
	keys.RegisterHandler(&keyspb.PrivateKey{}, der.FromProto)
}

// Clock is a settable util.TimeSource.
type Clock struct {
	mu sync.Mutex
	t  time.Time
}

func NewClock(t time.Time) *Clock { return &Clock{t: t} }
func (c *Clock) Now() time.Time   { c.mu.Lock(); defer c.mu.Unlock(); return c.t }
func (c *Clock) Set(t time.Time)  { c.mu.Lock(); c.t = t; c.mu.Unlock() }
func (c *Clock) Add(d time.Duration) {
	c.mu.Lock()
	c.t = c.t.Add(d)
	c.mu.Unlock()
}

// ReqEvent is what the spy request log saw for one request.
type ReqEvent struct {
	IssuedSCTs [][]byte
	Statuses   []int
	DERs       int
	Certs      int
}

type reqKey struct{}

// SpyLog is a ctfe.RequestLog that records IssueSCT and Status calls per request.
type SpyLog struct {
	mu     sync.Mutex
	Events []*ReqEvent
}

func (s *SpyLog) Start(ctx context.Context) context.Context {
	ev := &ReqEvent{}
	s.mu.Lock()
	s.Events = append(s.Events, ev)
	s.mu.Unlock()
	return context.WithValue(ctx, reqKey{}, ev)
}
func (s *SpyLog) ev(ctx context.Context) *ReqEvent {
	if e, ok := ctx.Value(reqKey{}).(*ReqEvent); ok {
		return e
	}
	return &ReqEvent{}
}
func (s *SpyLog) LogPrefix(context.Context, string) {}
func (s *SpyLog) AddDERToChain(ctx context.Context, _ []byte) {
	s.mu.Lock()
	s.ev(ctx).DERs++
	s.mu.Unlock()
}
func (s *SpyLog) AddCertToChain(ctx context.Context, _ *x509.Certificate) {
	s.mu.Lock()
	s.ev(ctx).Certs++
	s.mu.Unlock()
}
func (s *SpyLog) FirstAndSecond(context.Context, int64, int64) {}
func (s *SpyLog) StartAndEnd(context.Context, int64, int64)    {}
func (s *SpyLog) LeafIndex(context.Context, int64)             {}
func (s *SpyLog) TreeSize(context.Context, int64)              {}
func (s *SpyLog) LeafHash(context.Context, []byte)             {}
func (s *SpyLog) IssueSCT(ctx context.Context, b []byte) {
	s.mu.Lock()
	e := s.ev(ctx)
	e.IssuedSCTs = append(e.IssuedSCTs, append([]byte(nil), b...))
	s.mu.Unlock()
}
func (s *SpyLog) Status(ctx context.Context, st int) {
	s.mu.Lock()
	e := s.ev(ctx)
	e.Statuses = append(e.Statuses, st)
	s.mu.Unlock()
}

// Last returns the most recent request's record.
func (s *SpyLog) Last() *ReqEvent {
	s.mu.Lock()
	defer s.mu.Unlock()
	if len(s.Events) == 0 {
		return &ReqEvent{}
	}
	return s.Events[len(s.Events)-1]
}

var (
	tmpOnce sync.Once
	tmpDir  string
)

// TempDir is a per-process scratch directory.
func TempDir() string {
	tmpOnce.Do(func() {
		d, err := os.MkdirTemp("", "verif-ctfex-")
		if err != nil {
			panic(err)
		}
		tmpDir = d
	})
	return tmpDir
}

// RootsFile writes the certificates as a PEM bundle (content-addressed, cached) and returns the path.
func RootsFile(roots [][]byte) string {
	var buf bytes.Buffer
	for _, r := range roots {
		pem.Encode(&buf, &pem.Block{Type: "CERTIFICATE", Bytes: r})
	}
	sum := sha256.Sum256(buf.Bytes())
	p := filepath.Join(TempDir(), "roots-"+hex.EncodeToString(sum[:8])+".pem")
	if _, err := os.Stat(p); err != nil {
		if err := os.WriteFile(p, buf.Bytes(), 0o644); err != nil {
			panic(err)
		}
	}
	return p
}

// Opts configures an instance.
type Opts struct {
	LogKey  *vkeys.Key
	Roots   []*pki.Cert
	Backend trillian.TrillianLogClient
	Clock   *Clock // nil: system clock
	// Cfg may edit the LogConfig before validation.
	Cfg func(*configpb.LogConfig)
	// Inst may edit the InstanceOptions before set-up.
	Inst         func(*ctfe.InstanceOptions)
	ChainStorage storage.IssuanceChainStorage
	WrapCache    func(cache.IssuanceChainCache) cache.IssuanceChainCache
	Prefix       string
	LogID        int64
}

// Instance wraps a ctfe.Instance with in-process request helpers.
type Instance struct {
	*ctfe.Instance
	Prefix string
	Spy    *SpyLog
	Opts   ctfe.InstanceOptions
	// SlowWriter makes the in-process ResponseWriter consume what handlers write in small chunks,
	// yielding the processor in between (like a slow network peer). It widens the window in which a
	// handler that hands out shared or recycled buffers is observable.
	SlowWriter bool
	// FailWrites makes every Write of the in-process ResponseWriter fail (the client hung up).
	FailWrites bool
	// Watchdog > 0: a request that has not been answered after that much real time is given up (Response.Hung);
	// its goroutine is left behind. Meant for deadlocks: set it orders of magnitude above any honest latency.
	Watchdog time.Duration
	// ReqTweak, when non-nil, may alter the request (headers, ContentLength, Body) just before it is served.
	ReqTweak func(*http.Request)
}

// brokenWriter is a ResponseWriter whose peer has gone away.
type brokenWriter struct {
	*httptest.ResponseRecorder
}

func (w brokenWriter) Write(b []byte) (int, error) { return 0, errors.New("write: broken pipe") }

// slowWriter copies writes chunk by chunk into the recorder, yielding between chunks.
type slowWriter struct {
	*httptest.ResponseRecorder
}

func (w slowWriter) Write(b []byte) (int, error) {
	n := 0
	for len(b) > 0 {
		k := 32
		if k > len(b) {
			k = len(b)
		}
		w.ResponseRecorder.Write(b[:k])
		b = b[k:]
		n += k
		runtime.Gosched()
	}
	return n, nil
}

// PrivKeyAny wraps a pool key as the Any(keyspb.PrivateKey) the configuration wants.
func PrivKeyAny(k *vkeys.Key) *anypb.Any {
	a, err := anypb.New(&keyspb.PrivateKey{Der: k.PKCS8})
	if err != nil {
		panic(err)
	}
	return a
}

// New builds an instance; it returns the error of validation / set-up untouched.
func New(o Opts) (*Instance, error) {
	if o.Prefix == "" {
		o.Prefix = "log"
	}
	if o.LogID == 0 {
		o.LogID = 6962
	}
	cfg := &configpb.LogConfig{LogId: o.LogID, Prefix: o.Prefix}
	if o.LogKey != nil {
		cfg.PrivateKey = PrivKeyAny(o.LogKey)
	}
	if len(o.Roots) > 0 {
		var ders [][]byte
		for _, r := range o.Roots {
			ders = append(ders, r.DER)
		}
		cfg.RootsPemFile = []string{RootsFile(ders)}
	}
	if o.Cfg != nil {
		o.Cfg(cfg)
	}
	v, err := ctfe.ValidateLogConfig(cfg)
	if err != nil {
		return nil, fmt.Errorf("ValidateLogConfig: %w", err)
	}
	spy := &SpyLog{}
	io := ctfe.InstanceOptions{Validated: v, Client: o.Backend, Deadline: 10 * time.Second, MetricFactory: monitoring.InertMetricFactory{}, RequestLog: spy}
	if o.Inst != nil {
		o.Inst(&io)
	}
	ov := ctfe.VerifOverrides{ChainStorage: o.ChainStorage, WrapCache: o.WrapCache}
	if o.Clock != nil {
		ov.TimeSource = o.Clock
	}
	inst, err := ctfe.SetUpInstanceForVerif(context.Background(), io, ov)
	if err != nil {
		return nil, err
	}
	p := o.Prefix
	if !strings.HasPrefix(p, "/") {
		p = "/" + p
	}
	return &Instance{Instance: inst, Prefix: strings.TrimRight(p, "/"), Spy: spy, Opts: io}, nil
}

// Response is an in-process HTTP response.
type Response struct {
	Status int
	Body   []byte
	Header http.Header
	// NoHandler is set when the instance has no handler for the path.
	NoHandler bool
	// Hung is set when the Watchdog gave the request up.
	Hung bool
}

// Do sends a request to the handler registered for path (e.g. "/ct/v1/get-sth").
func (i *Instance) Do(ctx context.Context, method, path, rawQuery string, body []byte) Response {
	h, ok := i.Handlers[i.Prefix+path]
	if !ok {
		return Response{Status: 404, NoHandler: true}
	}
	var rd io.Reader
	if body != nil {
		rd = bytes.NewReader(body)
	}
	url := "http://log.example" + i.Prefix + path
	if rawQuery != "" {
		url += "?" + rawQuery
	}
	req := httptest.NewRequest(method, url, rd)
	if ctx != nil {
		req = req.WithContext(ctx)
	}
	if i.ReqTweak != nil {
		i.ReqTweak(req)
	}
	w := httptest.NewRecorder()
	serve := func() {
		if i.FailWrites {
			h.ServeHTTP(brokenWriter{w}, req)
		} else if i.SlowWriter {
			h.ServeHTTP(slowWriter{w}, req)
		} else {
			h.ServeHTTP(w, req)
		}
	}
	if i.Watchdog > 0 {
		done := make(chan struct{})
		go func() { defer close(done); serve() }()
		tm := time.NewTimer(i.Watchdog)
		defer tm.Stop()
		select {
		case <-done:
		case <-tm.C:
			return Response{Hung: true}
		}
	} else {
		serve()
	}
	return Response{Status: w.Code, Body: w.Body.Bytes(), Header: w.Header()}
}

// Get is Do(GET).
func (i *Instance) Get(path, rawQuery string) Response {
	return i.Do(context.Background(), http.MethodGet, path, rawQuery, nil)
}

// Post is Do(POST).
func (i *Instance) Post(path string, body []byte) Response {
	return i.Do(context.Background(), http.MethodPost, path, "", body)
}

// RoundTripper serves HTTP client requests from the instance's handlers in-process.
type RoundTripper struct{ Inst *Instance }

func (rt RoundTripper) RoundTrip(r *http.Request) (*http.Response, error) {
	h, ok := rt.Inst.Handlers[r.URL.Path]
	w := httptest.NewRecorder()
	if !ok {
		http.NotFound(w, r)
	} else if rt.Inst.SlowWriter {
		h.ServeHTTP(slowWriter{w}, r)
	} else {
		h.ServeHTTP(w, r)
	}
	res := w.Result()
	res.Request = r
	return res, nil
}
