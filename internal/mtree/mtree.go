// Package mtree implements the Merkle tree definitions of RFC 6962 section 2.1 (MTH, PATH, PROOF)
// directly from their recursive definitions, plus proof verifiers that re-derive roots from proofs.
// It is the reference for every proof the code under test serves or checks.
package mtree

import (
	"bytes"
	"crypto/sha256"
	"errors"
)

type Hash = [32]byte

// LeafHash is SHA-256(0x00 || d).
func LeafHash(d []byte) Hash { return sha256.Sum256(append([]byte{0}, d...)) }

// NodeHash is SHA-256(0x01 || l || r).
func NodeHash(l, r Hash) Hash {
	b := make([]byte, 0, 65)
	b = append(b, 1)
	b = append(b, l[:]...)
	b = append(b, r[:]...)
	return sha256.Sum256(b)
}

// split returns the largest power of two strictly less than n (n > 1).
func split(n int) int {
	k := 1
	for k<<1 < n {
		k <<= 1
	}
	return k
}

// Tree holds leaf hashes; all functions are pure functions of a prefix of them.
type Tree struct{ Leaves []Hash }

func (t *Tree) Append(leafData []byte) { t.Leaves = append(t.Leaves, LeafHash(leafData)) }
func (t *Tree) AppendHash(h Hash)       { t.Leaves = append(t.Leaves, h) }
func (t *Tree) Size() int               { return len(t.Leaves) }

// Root returns MTH(D[0:n]).
func (t *Tree) Root(n int) Hash { return mth(t.Leaves[:n]) }

func mth(d []Hash) Hash {
	switch len(d) {
	case 0:
		return sha256.Sum256(nil)
	case 1:
		return d[0]
	}
	k := split(len(d))
	return NodeHash(mth(d[:k]), mth(d[k:]))
}

// Path returns PATH(m, D[0:n]).
func (t *Tree) Path(m, n int) []Hash { return path(m, t.Leaves[:n]) }

func path(m int, d []Hash) []Hash {
	n := len(d)
	if n <= 1 {
		return []Hash{}
	}
	k := split(n)
	if m < k {
		return append(path(m, d[:k]), mth(d[k:]))
	}
	return append(path(m-k, d[k:]), mth(d[:k]))
}

// Proof returns PROOF(m, D[0:n]) for 0 < m <= n (empty for m == n).
func (t *Tree) Proof(m, n int) []Hash {
	if m == n || m == 0 {
		return []Hash{}
	}
	return subproof(m, t.Leaves[:n], true)
}

func subproof(m int, d []Hash, b bool) []Hash {
	n := len(d)
	if m == n {
		if b {
			return []Hash{}
		}
		return []Hash{mth(d)}
	}
	k := split(n)
	if m <= k {
		return append(subproof(m, d[:k], b), mth(d[k:]))
	}
	return append(subproof(m-k, d[k:], false), mth(d[:k]))
}

// RootFromPath recomputes the root from a leaf hash, its index, the tree size and an audit path
// (RFC 9162 s2.1.3.2). It fails on paths of the wrong length.
func RootFromPath(leaf Hash, index, size uint64, p [][]byte) (Hash, error) {
	if index >= size {
		return Hash{}, errors.New("mtree: index beyond tree size")
	}
	fn, sn := index, size-1
	r := leaf
	for _, raw := range p {
		if len(raw) != 32 {
			return Hash{}, errors.New("mtree: bad hash size in path")
		}
		var h Hash
		copy(h[:], raw)
		if sn == 0 {
			return Hash{}, errors.New("mtree: path too long")
		}
		if fn&1 == 1 || fn == sn {
			r = NodeHash(h, r)
			for fn&1 == 0 && fn != 0 {
				fn >>= 1
				sn >>= 1
			}
		} else {
			r = NodeHash(r, h)
		}
		fn >>= 1
		sn >>= 1
	}
	if sn != 0 {
		return Hash{}, errors.New("mtree: path too short")
	}
	return r, nil
}

// VerifyInclusion checks an audit path against a root.
func VerifyInclusion(leaf Hash, index, size uint64, p [][]byte, root []byte) error {
	r, err := RootFromPath(leaf, index, size, p)
	if err != nil {
		return err
	}
	if !bytes.Equal(r[:], root) {
		return errors.New("mtree: inclusion proof does not reproduce the root")
	}
	return nil
}

// VerifyConsistency checks a consistency proof between (first, root1) and (second, root2) following
// RFC 9162 s2.1.4.2.
func VerifyConsistency(first, second uint64, root1, root2 []byte, proof [][]byte) error {
	if first > second {
		return errors.New("mtree: first > second")
	}
	for _, p := range proof {
		if len(p) != 32 {
			return errors.New("mtree: bad hash size in proof")
		}
	}
	if first == second {
		if len(proof) != 0 {
			return errors.New("mtree: non-empty proof for equal sizes")
		}
		if !bytes.Equal(root1, root2) {
			return errors.New("mtree: equal sizes, different roots")
		}
		return nil
	}
	if first == 0 {
		if len(proof) != 0 {
			return errors.New("mtree: non-empty proof from size 0")
		}
		return nil
	}
	path := make([]Hash, 0, len(proof)+1)
	if first&(first-1) == 0 { // power of two: prepend first root
		var h Hash
		copy(h[:], root1)
		path = append(path, h)
	}
	for _, p := range proof {
		var h Hash
		copy(h[:], p)
		path = append(path, h)
	}
	if len(path) == 0 {
		return errors.New("mtree: empty proof")
	}
	fn, sn := first-1, second-1
	for fn&1 == 1 {
		fn >>= 1
		sn >>= 1
	}
	fr, sr := path[0], path[0]
	for _, c := range path[1:] {
		if sn == 0 {
			return errors.New("mtree: proof too long")
		}
		if fn&1 == 1 || fn == sn {
			fr = NodeHash(c, fr)
			sr = NodeHash(c, sr)
			for fn&1 == 0 && fn != 0 {
				fn >>= 1
				sn >>= 1
			}
		} else {
			sr = NodeHash(sr, c)
		}
		fn >>= 1
		sn >>= 1
	}
	if sn != 0 {
		return errors.New("mtree: proof too short")
	}
	if !bytes.Equal(fr[:], root1) {
		return errors.New("mtree: proof does not reproduce the first root")
	}
	if !bytes.Equal(sr[:], root2) {
		return errors.New("mtree: proof does not reproduce the second root")
	}
	return nil
}

// Bytes converts hashes to byte slices.
func Bytes(hs []Hash) [][]byte {
	out := make([][]byte, len(hs))
	for i := range hs {
		out[i] = append([]byte(nil), hs[i][:]...)
	}
	return out
}
