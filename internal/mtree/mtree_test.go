package mtree

import (
	"encoding/hex"
	"testing"

	"github.com/transparency-dev/merkle/proof"
	"github.com/transparency-dev/merkle/rfc6962"
)

// Reference vectors from the certificate-transparency C++ / Go test suites (8 leaves).
var leafHex = []string{"", "00", "10", "2021", "3031", "40414243", "5051525354555657", "606162636465666768696a6b6c6d6e6f"}
var rootsHex = []string{
	"6e340b9cffb37a989ca544e6bb780a2c78901d3fb33738768511a30617afa01d",
	"fac54203e7cc696cf0dfcb42c92a1d9dbaf70ad9e621f4bd8d98662f00e3c125",
	"aeb6bcfe274b70a14fb067a5e5578264db0fa9b51af5e0ba159158f329e06e77",
	"d37ee418976dd95753c1c73862b9398fa2a2cf9b4ff0fdfe8b30cd95209614b7",
	"4e3bbb1f7b478dcfe71fb631631519a3bca12c9aefca1612bfce4c13a86264d4",
	"76e67dadbcdf1e10e1b74ddc608abd2f98dfb16fbce75277b5232a127f2087ef",
	"ddb89be403809e325750d3d263cd78929c2942b7942a34b77e122c9594a74c8c",
	"5dc9da79a70659a9ad559cb701ded9a2ab9d823aad2f4960cfe370eff4604328",
}

func TestVectorsAndSelfConsistency(t *testing.T) {
	var tr Tree
	for i, h := range leafHex {
		d, _ := hex.DecodeString(h)
		tr.Append(d)
		r := tr.Root(i + 1)
		if hex.EncodeToString(r[:]) != rootsHex[i] {
			t.Fatalf("root %d mismatch", i+1)
		}
	}
	for i := 0; i < 57; i++ {
		tr.Append([]byte{byte(i), 7})
	}
	for n := 1; n <= tr.Size(); n++ {
		rn := tr.Root(n)
		for m := 0; m < n; m++ {
			p := Bytes(tr.Path(m, n))
			if err := VerifyInclusion(tr.Leaves[m], uint64(m), uint64(n), p, rn[:]); err != nil {
				t.Fatalf("incl %d/%d: %v", m, n, err)
			}
			if err := proof.VerifyInclusion(rfc6962.DefaultHasher, uint64(m), uint64(n), tr.Leaves[m][:], p, rn[:]); err != nil {
				t.Fatalf("lib incl %d/%d: %v", m, n, err)
			}
			if len(p) > 0 {
				p[0][0] ^= 1
				if VerifyInclusion(tr.Leaves[m], uint64(m), uint64(n), p, rn[:]) == nil {
					t.Fatalf("corrupted path accepted")
				}
			}
		}
		for m := 1; m <= n; m++ {
			rm := tr.Root(m)
			p := Bytes(tr.Proof(m, n))
			if err := VerifyConsistency(uint64(m), uint64(n), rm[:], rn[:], p); err != nil {
				t.Fatalf("cons %d/%d: %v", m, n, err)
			}
			if err := proof.VerifyConsistency(rfc6962.DefaultHasher, uint64(m), uint64(n), p, rm[:], rn[:]); err != nil {
				t.Fatalf("lib cons %d/%d: %v", m, n, err)
			}
			if len(p) > 0 {
				p[len(p)-1][5] ^= 4
				if VerifyConsistency(uint64(m), uint64(n), rm[:], rn[:], p) == nil {
					t.Fatalf("corrupted proof accepted")
				}
			}
		}
	}
}
