module verif

go 1.26.8

require (
	github.com/google/certificate-transparency-go v0.0.0
	github.com/google/trillian v1.7.1
	github.com/gorilla/mux v1.8.1
	github.com/transparency-dev/merkle v0.0.2
	google.golang.org/genproto/googleapis/rpc v0.0.0-20250115164207-1a7da9e5054f
	google.golang.org/grpc v1.71.1
	google.golang.org/protobuf v1.36.6
	k8s.io/klog/v2 v2.130.1
	pgregory.net/rapid v1.3.0
)

require (
	filippo.io/edwards25519 v1.1.0 // indirect
	github.com/go-logr/logr v1.4.2 // indirect
	github.com/go-sql-driver/mysql v1.9.1 // indirect
	github.com/golang/mock v1.6.0 // indirect
	github.com/google/btree v1.1.3 // indirect
	github.com/hashicorp/golang-lru/v2 v2.0.7 // indirect
	github.com/jackc/pgpassfile v1.0.0 // indirect
	github.com/jackc/pgservicefile v0.0.0-20240606120523-5a60cdf6a761 // indirect
	github.com/jackc/pgx/v5 v5.7.4 // indirect
	github.com/jackc/puddle/v2 v2.2.2 // indirect
	github.com/mattn/go-sqlite3 v1.14.26 // indirect
	golang.org/x/crypto v0.36.0 // indirect
	golang.org/x/net v0.38.0 // indirect
	golang.org/x/sync v0.12.0 // indirect
	golang.org/x/sys v0.31.0 // indirect
	golang.org/x/text v0.23.0 // indirect
)

replace github.com/google/certificate-transparency-go => /repo
