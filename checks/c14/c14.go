// Package c14: storing issuance chains outside the backend is invisible to readers.
package c14

import (
	"crypto/sha256"
	"bytes"
	"context"
	"encoding/base64"
	"encoding/json"
	"errors"
	"fmt"
	"sort"
	"sync"
	"testing"
	"time"

	ct "github.com/google/certificate-transparency-go"
	"github.com/google/certificate-transparency-go/trillian/ctfe"
	"github.com/google/certificate-transparency-go/trillian/ctfe/cache"
	"google.golang.org/grpc/codes"
	"google.golang.org/grpc/status"
	"pgregory.net/rapid"

	"verif/internal/ctfex"
	"verif/internal/derx"
	"verif/internal/harness"
	"verif/internal/keys"
	"verif/internal/memstore"
	"verif/internal/reflog"
	"verif/internal/rfc6962"
	"verif/internal/world"
)

type Step struct {
	Kind string // submit | seq | entries | eap | sleep | preload | fail-add | fail-get | delete | corrupt | cache-err | forget
	Spec *world.ChainSpec
	A, B int
	How  string // corrupt: truncate | extend | flip | swap | empty | reencode-drop
}

type Case struct {
	CacheType string // noop | lru
	CacheSize int
	TTLms     int // 0 = no expiry
	Steps     []Step
	Workers   int // concurrent variant
	// Bulky: most certificates carry 300-450 KiB of padding and the ranges read are long (> 1 MiB of entries)
	Bulky bool
	// Verbosity is the process-wide klog -v level (debug logging must not change what is stored or served)
	Verbosity int
	// Burst > 0 (concurrent variant): after the run that many readers ask for the first entries at the same time
	Burst int
}

// genSpec draws chain specs from a small space so that issuers repeat (chains de-duplicate in storage).
func genSpec(t *rapid.T, label string) world.ChainSpec {
	s := world.ChainSpec{ID: rapid.Uint32Range(1, 1<<20).Draw(t, label+"id"), Root: rapid.IntRange(0, 1).Draw(t, label+"root"), LeafKind: "p256", IncludeRoot: rapid.Bool().Draw(t, label+"incroot")}
	n := rapid.IntRange(0, 4).Draw(t, label+"inters")
	kinds := []string{"p256", "p384", "p256", "rsa2048"}
	s.Inters = append(s.Inters, kinds[:n]...)
	if n >= 1 {
		// cross-signed top CA: the same issuing certificates continue to two different roots
		s.Cross = rapid.IntRange(0, 2).Draw(t, label+"cross") == 0
		s.CrossAlt = rapid.Bool().Draw(t, label+"crossalt")
	}
	s.Precert = rapid.Bool().Draw(t, label+"pre")
	if s.Precert {
		s.PreIssuer = rapid.IntRange(0, 2).Draw(t, label+"pi") == 0
		s.PoisonPos = rapid.IntRange(0, 5).Draw(t, label+"pp")
	}
	switch rapid.IntRange(0, 11).Draw(t, label+"top") {
	case 0:
		s.RootTwin = 1 // a re-issued copy of the root is submitted above the last CA
	case 1:
		s.RootTwin = 2 // a cross-certificate for the root, issued by another trusted root
	case 2:
		// a trusted root submitted on its own: the stored chain is empty
		s = world.ChainSpec{ID: s.ID, Root: s.Root, RootOnly: true, IncludeRoot: true}
	}
	return s
}

// widths of unknown chain hashes (octets); 32 is a well-formed hash nobody stored
var hashWidths = []int{32, 32, 1, 16, 31, 33, 64, 255, 256}

// storageErr is the error a faulty storage read returns.
func storageErr(kind int) error {
	switch kind % 5 {
	case 1:
		return fmt.Errorf("storage: FindByKey: %w", context.DeadlineExceeded)
	case 2:
		return status.Error(codes.DeadlineExceeded, "injected storage failure (FindByKey)")
	case 3:
		return fmt.Errorf("storage: FindByKey: %w", context.Canceled)
	case 4:
		return status.Error(codes.Unavailable, "injected storage failure (FindByKey)")
	}
	return errors.New("injected storage failure (FindByKey)")
}

var corruptions = []string{"truncate", "extend", "flip", "swap", "empty", "drop-cert"}

func genSteps(t *rapid.T, n int, faults bool) []Step {
	var out []Step
	for i := 0; i < n; i++ {
		k := rapid.IntRange(0, 24).Draw(t, "kind")
		switch {
		case k <= 6:
			s := genSpec(t, fmt.Sprintf("s%d", i))
			out = append(out, Step{Kind: "submit", Spec: &s})
		case k <= 9:
			out = append(out, Step{Kind: "seq", A: rapid.IntRange(-1, 3).Draw(t, "k")})
		case k <= 13:
			out = append(out, Step{Kind: "entries", A: rapid.IntRange(0, 30).Draw(t, "a"), B: rapid.IntRange(0, 6).Draw(t, "b")})
		case k <= 15:
			out = append(out, Step{Kind: "eap", A: rapid.IntRange(0, 30).Draw(t, "a"), B: rapid.IntRange(0, 30).Draw(t, "b")})
		case k == 16:
			out = append(out, Step{Kind: "sleep", A: rapid.IntRange(0, 3).Draw(t, "ms")})
		case k == 17:
			s := genSpec(t, fmt.Sprintf("p%d", i))
			out = append(out, Step{Kind: "preload", Spec: &s})
		case k == 18:
			out = append(out, Step{Kind: "forget", A: rapid.IntRange(1, 4).Draw(t, "every")})
		default:
			if !faults {
				out = append(out, Step{Kind: "entries", A: rapid.IntRange(0, 30).Draw(t, "a"), B: rapid.IntRange(0, 6).Draw(t, "b")})
				continue
			}
			switch k {
			case 19:
				out = append(out, Step{Kind: "fail-add", A: rapid.IntRange(0, 2).Draw(t, "n")})
			case 20:
				// B: the error class the storage reports (plain, wrapped / status deadline, cancelled, unavailable)
				out = append(out, Step{Kind: "fail-get", A: rapid.IntRange(0, 2).Draw(t, "n"), B: rapid.IntRange(0, 4).Draw(t, "errkind")})
			case 21:
				out = append(out, Step{Kind: "delete", A: rapid.IntRange(0, 9).Draw(t, "k")})
			case 24:
				// an entry whose extra_data names a chain hash that storage has never seen (A: index into hashWidths)
				sp := genSpec(t, fmt.Sprintf("f%d", i))
				if rapid.Bool().Draw(t, "realhash") {
					// the hash is that of the entry's real chain, written as an earlier version of the front end would have
					// (B = 1); it is read, then another certificate with the same chain is submitted, then it is read again
					tw := sp
					tw.ID = sp.ID ^ 0x2d2d2d
					out = append(out, Step{Kind: "foreign-hash", Spec: &sp, B: 1}, Step{Kind: "read-last"})
					if rapid.Bool().Draw(t, "thensubmit") {
						out = append(out, Step{Kind: "submit", Spec: &tw}, Step{Kind: "read-last"}, Step{Kind: "read-prev"})
					}
					continue
				}
				out = append(out, Step{Kind: "foreign-hash", Spec: &sp, A: rapid.IntRange(0, len(hashWidths)-1).Draw(t, "width")})
			case 22:
				out = append(out, Step{Kind: "corrupt", A: rapid.IntRange(0, 9).Draw(t, "k"), B: rapid.IntRange(0, 5000).Draw(t, "pos"), How: rapid.SampledFrom(corruptions).Draw(t, "how")})
			default:
				if rapid.Bool().Draw(t, "cachecorrupt") {
					out = append(out, Step{Kind: "cache-corrupt", B: rapid.IntRange(0, 5000).Draw(t, "pos"), How: rapid.SampledFrom(corruptions).Draw(t, "how")})
				} else {
					out = append(out, Step{Kind: "cache-err", A: rapid.IntRange(0, 3).Draw(t, "n")})
				}
			}
		}
	}
	return out
}

func genCase(t *rapid.T, faults bool) Case {
	c := Case{CacheType: rapid.SampledFrom([]string{"noop", "lru", "lru", "lru"}).Draw(t, "cache")}
	if c.CacheType == "lru" {
		c.CacheSize = rapid.SampledFrom([]int{0, 1, 2, 64}).Draw(t, "size")
		// short TTLs start a janitor goroutine ticking every TTL/100 that can never be stopped: keep them rare
		c.TTLms = rapid.SampledFrom([]int{0, 0, 3600000, 3600000, 3600000, 3600000, 3600000, 2}).Draw(t, "ttl")
	}
	c.Steps = genSteps(t, rapid.IntRange(4, 30).Draw(t, "n"), faults)
	if rapid.IntRange(0, 3).Draw(t, "verbose") == 0 {
		c.Verbosity = rapid.IntRange(1, 5).Draw(t, "v")
	}
	if rapid.IntRange(0, 11).Draw(t, "bulky") == 0 {
		c.Bulky = true
		for i := range c.Steps {
			switch st := &c.Steps[i]; st.Kind {
			case "submit":
				if !st.Spec.RootOnly && rapid.IntRange(0, 3).Draw(t, "bulk") != 0 {
					st.Spec.Bulk = rapid.IntRange(300, 450).Draw(t, "kib") << 10
				}
			case "entries":
				st.B = 3 + st.B%4
			}
		}
	}
	return c
}

// scriptedCache wraps the real cache: it can forget (report a miss for) every k-th Get and fail the n-th Get,
// and counts hits and misses. A cache that forgets is a legal cache.
type scriptedCache struct {
	inner       cache.IssuanceChainCache
	mu          sync.Mutex
	gets        int
	forgetEvery int
	errAt       map[int]bool
	hits, miss  int
	forgot      int
	corrupt     func(key, chain []byte) []byte // cache-level corruption of hits
}

func (s *scriptedCache) Get(ctx context.Context, key []byte) ([]byte, error) {
	s.mu.Lock()
	n := s.gets
	s.gets++
	fe := s.forgetEvery
	fail := s.errAt[n]
	s.mu.Unlock()
	if fail {
		return nil, errors.New("injected cache failure")
	}
	v, err := s.inner.Get(ctx, key)
	s.mu.Lock()
	defer s.mu.Unlock()
	if v != nil && fe > 0 && n%fe == 0 {
		s.forgot++
		return nil, nil
	}
	if v != nil {
		s.hits++
		if s.corrupt != nil {
			v = s.corrupt(key, append([]byte(nil), v...))
		}
	} else {
		s.miss++
	}
	return v, err
}
func (s *scriptedCache) Set(ctx context.Context, key, chain []byte) error {
	return s.inner.Set(ctx, key, chain)
}

type rig struct {
	direct, indirect *ctfex.Instance
	beD, beI         *reflog.Log
	store            *memstore.Store
	sc               *scriptedCache
	clock            *ctfex.Clock
	faulted          bool // some fault was injected at some point (reporting only)
	addFault         bool
	// transient faults: trigger positions in the call counters of storage Add / FindByKey and cache Get
	addAt, getAt []int
	// persistent damage: chain keys (hex of SHA-256) whose stored row was deleted or is corrupted on read
	damaged      map[string]bool
	cacheCorrupt bool
	chainKeyOf   map[string]string // leaf_input -> chain key of the entry (submitted entries only)
	// foreign: leaf_input of hand-written hash-form entries -> the storage key they name ("" for a made-up hash);
	// while storage does not hold that key the entry cannot be served
	foreign    map[string]string
	everStored map[string]bool // storage keys that were in storage at some point of the case
	hung             bool // a request to the indirect instance never came back (its goroutine is abandoned)
	want             map[string][][]byte // leaf_input -> acceptable reference extra_data values (two precertificates may share a TBS and differ in signature)
	mu               sync.Mutex
}

func newRig(t *testing.T, c Case) *rig {
	r := &rig{beD: reflog.New(1, 1), beI: reflog.New(1, 1), store: memstore.New(), clock: ctfex.NewClock(time.UnixMilli(1700000000123)), want: map[string][][]byte{}, damaged: map[string]bool{}, chainKeyOf: map[string]string{}, foreign: map[string]string{}, everStored: map[string]bool{}}
	key := keys.Pick("p256", 5)
	var err error
	r.direct, err = ctfex.New(ctfex.Opts{LogKey: key, Roots: world.Roots(), Backend: r.beD, Clock: r.clock})
	if err != nil {
		t.Fatalf("direct: %v", err)
	}
	r.indirect, err = ctfex.New(ctfex.Opts{LogKey: key, Roots: world.Roots(), Backend: r.beI, Clock: r.clock, ChainStorage: r.store,
		Inst: func(io *ctfe.InstanceOptions) {
			// the deadline of backend and storage calls is not under test here; an hour keeps a slow, busy machine
			// from turning a burst of readers into deadline errors
			io.Deadline = time.Hour
			if c.CacheType == "lru" {
				io.CacheType = cache.LRU
				io.CacheOption = cache.Option{Size: c.CacheSize, TTL: time.Duration(c.TTLms) * time.Millisecond}
			} else {
				io.CacheType = cache.NOOP
			}
		},
		WrapCache: func(in cache.IssuanceChainCache) cache.IssuanceChainCache {
			r.sc = &scriptedCache{inner: in, errAt: map[int]bool{}}
			return r.sc
		}})
	if err != nil {
		t.Fatalf("indirect: %v", err)
	}
	r.indirect.Watchdog = 120 * time.Second // honest requests take milliseconds, seconds on a very busy machine; only a deadlock reaches this
	return r
}

func addBody(chain [][]byte) []byte {
	var req struct {
		Chain []string `json:"chain"`
	}
	for _, c := range chain {
		req.Chain = append(req.Chain, base64.StdEncoding.EncodeToString(c))
	}
	b, _ := json.Marshal(req)
	return b
}

func (r *rig) sortedKeys() [][]byte {
	ks := r.store.Keys()
	sort.Slice(ks, func(i, j int) bool { return bytes.Compare(ks[i], ks[j]) < 0 })
	return ks
}

// corruptChain alters a stored chain (DER SEQUENCE OF OCTET STRING).
func corruptChain(chain []byte, how string, pos int, other []byte) []byte {
	switch how {
	case "truncate":
		if len(chain) > 3 {
			return chain[:len(chain)-1-pos%3]
		}
		return nil
	case "extend":
		return append(chain, 0, byte(pos))
	case "flip":
		if len(chain) == 0 {
			return []byte{0x30, 0}
		}
		// flip a bit deep inside (certificate contents), keeping the outer structure
		i := len(chain)/2 + pos%(len(chain)/2+1)
		if i >= len(chain) {
			i = len(chain) - 1
		}
		out := append([]byte(nil), chain...)
		out[i] ^= 1 << uint(pos%8)
		return out
	case "swap":
		if other != nil {
			return other
		}
		return derx.Seq()
	case "empty":
		return derx.Seq()
	case "drop-cert":
		n, _, err := derx.Parse(chain)
		if err == nil && len(n.Children) > 0 {
			n.Children = n.Children[:len(n.Children)-1]
			return n.Encode()
		}
		return derx.Seq()
	}
	return chain
}

// chainKey is the storage key of an issuance chain: SHA-256 of the DER SEQUENCE OF OCTET STRING of the
// certificates after the leaf (computed with derx, independently of the service under test).
func chainKey(full [][]byte) string {
	// the service stores asn1.Marshal([]ct.ASN1Cert): SEQUENCE OF SEQUENCE { OCTET STRING }
	var parts [][]byte
	for _, c := range full[1:] {
		parts = append(parts, derx.Seq(derx.Octets(c)))
	}
	sum := sha256.Sum256(derx.Seq(parts...))
	return string(sum[:])
}

type counters struct{ add, get, cget int }

func (r *rig) snap() counters {
	r.sc.mu.Lock()
	g := r.sc.gets
	r.sc.mu.Unlock()
	a, b := r.store.Calls()
	return counters{add: a, get: b, cget: g}
}

func (c counters) with(g int) counters { c.cget = g; return c }

// transientFired reports whether a scripted one-shot fault had its trigger position inside the window
// of calls made between two snapshots.
func (r *rig) transientFired(a, b counters) bool {
	for _, at := range r.addAt {
		if at >= a.add && at < b.add {
			return true
		}
	}
	for _, at := range r.getAt {
		if at >= a.get && at < b.get {
			return true
		}
	}
	r.sc.mu.Lock()
	defer r.sc.mu.Unlock()
	for at := range r.sc.errAt {
		if at >= a.cget && at < b.cget {
			return true
		}
	}
	return false
}

type entry struct{ leaf, extra []byte }

func parseEntries(body []byte) ([]entry, error) {
	var r ct.GetEntriesResponse
	if err := json.Unmarshal(body, &r); err != nil {
		return nil, err
	}
	var out []entry
	for _, e := range r.Entries {
		out = append(out, entry{e.LeafInput, e.ExtraData})
	}
	return out, nil
}

// compareRead issues the same read against both instances and judges the indirect answer.
func (r *rig) compareRead(v *harness.Verdict, path, query string, isEAP bool) {
	if r.hung {
		return
	}
	d := r.direct.Get(path, query)
	before := r.snap()
	i := r.indirect.Get(path, query)
	after := r.snap()
	if i.Hung {
		r.hung = true
		v.Failf("request-hung", "%s?%s: the instance with external chain storage had not answered after %v (the direct one answered %d at once)", path, query, r.indirect.Watchdog, d.Status)
		return
	}
	if d.Status != 200 {
		// request not servable at all (e.g. beyond the tree): the indirect instance must not succeed with data either
		if i.Status == 200 {
			v.Failf("indirect-serves-more", "%s?%s: direct %d, indirect 200", path, query, d.Status)
		}
		return
	}
	if len(r.foreign) > 0 {
		var de []entry
		if isEAP {
			var a ct.GetEntryAndProofResponse
			if json.Unmarshal(d.Body, &a) == nil {
				de = []entry{{a.LeafInput, a.ExtraData}}
			}
		} else {
			de, _ = parseEntries(d.Body)
		}
		for _, e := range de {
			key, isForeign := r.foreign[string(e.leaf)]
			for k := range r.store.M {
				r.everStored[k] = true
			}
			// a chain that storage held at some point may still be in the cache after its row was deleted: the
			// hash is not unknown to the service then (a deleted row is "damage", judged below)
			if isForeign && key != "" && r.everStored[key] {
				v.Class("hand-written-hash-form-entry-resolvable")
				continue // the chain is in storage by now: judged like every other entry below
			}
			if isForeign {
				// the range holds an entry whose chain hash storage does not know: an error, never chain data
				if i.Status == 200 {
					v.Failf("unknown-hash-served", "%s?%s: an entry whose extra_data names a chain hash unknown to storage was answered 200 %q", path, query, trunc(i.Body))
				} else {
					v.Class("unknown-hash-refused")
				}
				return
			}
		}
	}
	if i.Status != 200 {
		// an error answer is legitimate only while a fault is in effect for THIS request: a one-shot fault
		// that fired during it, or persistent damage to the chain of one of the entries asked for
		excuse := r.transientFired(before, after) || r.cacheCorrupt
		if !excuse {
			var de []entry
			if isEAP {
				var a ct.GetEntryAndProofResponse
				if json.Unmarshal(d.Body, &a) == nil {
					de = []entry{{a.LeafInput, a.ExtraData}}
				}
			} else {
				de, _ = parseEntries(d.Body)
			}
			for _, e := range de {
				if k, ok := r.chainKeyOf[string(e.leaf)]; ok && r.damaged[k] {
					excuse = true
				}
			}
		}
		if !excuse {
			sig := "indirect-refuses"
			if r.faulted {
				sig = "entry-lost-after-fault"
			}
			v.Failf(sig, "%s?%s: direct 200, indirect %d %q although no fault is in effect for this request (faults injected earlier in the case: %v)", path, query, i.Status, trunc(i.Body), r.faulted)
		} else {
			v.Class("fault-surfaced-as-error")
		}
		return
	}
	var de, ie []entry
	if isEAP {
		var a, b ct.GetEntryAndProofResponse
		if json.Unmarshal(d.Body, &a) != nil || json.Unmarshal(i.Body, &b) != nil {
			v.Failf("bad-json", "%s bodies do not parse", path)
			return
		}
		de, ie = []entry{{a.LeafInput, a.ExtraData}}, []entry{{b.LeafInput, b.ExtraData}}
		if fmt.Sprint(a.AuditPath) != fmt.Sprint(b.AuditPath) {
			v.Failf("audit-path-differs", "%s?%s: audit paths differ between modes", path, query)
		}
	} else {
		var err1, err2 error
		de, err1 = parseEntries(d.Body)
		ie, err2 = parseEntries(i.Body)
		if err1 != nil || err2 != nil {
			v.Failf("bad-json", "%s bodies do not parse", path)
			return
		}
	}
	if len(de) != len(ie) {
		v.Failf("entry-count", "%s?%s: direct serves %d entries, indirect %d", path, query, len(de), len(ie))
		return
	}
	for k := range de {
		if !bytes.Equal(de[k].leaf, ie[k].leaf) {
			v.Failf("leaf-input-differs", "%s?%s entry %d: leaf_input differs between modes", path, query, k)
		}
		if !bytes.Equal(de[k].extra, ie[k].extra) {
			sig := "extra-data-differs"
			if r.faulted {
				sig = "corrupted-chain-served"
			}
			v.Failf(sig, "%s?%s entry %d: extra_data differs between modes (direct %d bytes, indirect %d bytes; fault injected: %v)", path, query, k, len(de[k].extra), len(ie[k].extra), r.faulted)
		}
		if want, ok := r.want[string(ie[k].leaf)]; ok && !anyEqual(want, ie[k].extra) {
			v.Failf("extra-data-not-rfc", "%s?%s entry %d: extra_data differs from the RFC 6962 encoding of the validated chain", path, query, k)
		}
	}
	v.Class("read-compared")
}

func trunc(b []byte) string {
	if len(b) > 120 {
		return string(b[:120]) + "..."
	}
	return string(b)
}

func (r *rig) submit(v *harness.Verdict, s *world.ChainSpec) {
	b := world.Build(*s)
	path := "/ct/v1/add-chain"
	if s.Precert {
		path = "/ct/v1/add-pre-chain"
	}
	r.clock.Add(time.Millisecond)
	body := addBody(b.Submit)
	if r.hung {
		return
	}
	before := r.snap()
	ri := r.indirect.Post(path, body)
	after := r.snap()
	if ri.Hung {
		r.hung = true
		v.Failf("request-hung", "%s: the instance with external chain storage had not answered after %v", path, r.indirect.Watchdog)
		return
	}
	if ri.Status != 200 {
		if !r.transientFired(before, after) {
			v.Failf("indirect-submission-refused", "%s refused by the indirect instance although no fault fired during the request: %d %q", path, ri.Status, trunc(ri.Body))
		} else {
			v.Class("add-fault-surfaced")
		}
		return
	}
	rd := r.direct.Post(path, body)
	if rd.Status != 200 {
		v.Failf("direct-submission-refused", "%s refused by the direct instance: %d %q", path, rd.Status, trunc(rd.Body))
		return
	}
	var sct ct.AddChainResponse
	json.Unmarshal(rd.Body, &sct)
	lv, err := rfc6962.EncodeLeaf(rfc6962.Leaf{Timestamp: sct.Timestamp, Entry: b.Entry()})
	if err == nil {
		r.mu.Lock()
		r.want[string(lv)] = append(r.want[string(lv)], b.ExtraData())
		k := chainKey(b.Full)
		if _, dup := r.chainKeyOf[string(lv)]; !dup {
			// a later submission of the very same certificate (deterministic RSA signatures make that possible)
			// through another path is a duplicate: the backend keeps the first entry and its chain
			r.chainKeyOf[string(lv)] = k
		}
		r.mu.Unlock()
		if _, ok := r.store.M[k]; ok {
			r.everStored[k] = true
		}
		if _, ok := r.store.M[k]; !ok && len(r.damaged) == 0 && !r.addFault {
			v.Failf("chain-not-stored", "a submission was answered 200 but its issuance chain is not in storage under its hash (store has %d rows)", r.store.Len())
		}
	}
	if len(b.Full) == 2 {
		v.Class("issuer-is-root")
	}
	if b.Spec.RootOnly {
		v.Class("root-submitted-alone(empty-chain)")
	}
	if b.Spec.RootTwin != 0 {
		v.Class("root-twin-in-chain")
	}
	if b.Spec.Bulk > 0 {
		v.Class("bulky-certificate")
	}
	if len(b.Full) >= 5 {
		v.Class("long-chain")
	}
	if b.Spec.Cross {
		v.Class("cross-signed-path")
	}
}

func check(t *testing.T, c Case) (v harness.Verdict) {
	if c.Verbosity > 0 {
		harness.SetKlogVerbosity(c.Verbosity)
		defer harness.SetKlogVerbosity(0)
		v.Class(fmt.Sprintf("klog-v=%d", c.Verbosity))
	}
	r := newRig(t, c)
	seqNs := uint64(1)
	reads := 0
	for _, s := range c.Steps {
		switch s.Kind {
		case "submit":
			r.submit(&v, s.Spec)
		case "seq":
			seqNs += 1000
			r.beD.Sequence(s.A, seqNs)
			r.beI.Sequence(s.A, seqNs)
		case "preload":
			// an entry written before the feature was switched on: full chain inside the backend leaf
			b := world.Build(*s.Spec)
			lv, _ := rfc6962.EncodeLeaf(rfc6962.Leaf{Timestamp: uint64(1600000000000 + len(r.want)), Entry: b.Entry()})
			// only leaves in sequence order are comparable: sequence everything pending first
			seqNs += 1000
			r.beD.Sequence(-1, seqNs)
			r.beI.Sequence(-1, seqNs)
			r.beD.AppendRaw(lv, b.ExtraData())
			r.beI.AppendRaw(lv, b.ExtraData())
			r.beD.Publish(seqNs + 1)
			r.beI.Publish(seqNs + 1)
			r.want[string(lv)] = append(r.want[string(lv)], b.ExtraData())
			v.Class("preloaded-direct-layout")
			v.NonTrivial = true
		case "entries":
			size := r.beD.Size()
			if size == 0 {
				continue
			}
			start := s.A % size
			r.compareRead(&v, "/ct/v1/get-entries", fmt.Sprintf("start=%d&end=%d", start, start+s.B), false)
			reads++
		case "read-last", "read-prev":
			seqNs += 1000
			r.beD.Sequence(-1, seqNs)
			r.beI.Sequence(-1, seqNs)
			size := r.beD.Size()
			idx := size - 1
			if s.Kind == "read-prev" {
				idx = size - 2
			}
			if idx < 0 {
				continue
			}
			r.compareRead(&v, "/ct/v1/get-entries", fmt.Sprintf("start=%d&end=%d", idx, idx), false)
			r.compareRead(&v, "/ct/v1/get-entry-and-proof", fmt.Sprintf("leaf_index=%d&tree_size=%d", idx, size), true)
			reads++
		case "eap":
			size := r.beD.Size()
			if size == 0 {
				continue
			}
			n := s.B%size + 1
			r.compareRead(&v, "/ct/v1/get-entry-and-proof", fmt.Sprintf("leaf_index=%d&tree_size=%d", s.A%n, n), true)
			reads++
		case "sleep":
			time.Sleep(time.Duration(s.A) * time.Millisecond)
		case "forget":
			r.sc.mu.Lock()
			r.sc.forgetEvery = s.A
			r.sc.mu.Unlock()
			v.Class("forgetful-cache")
		case "fail-add":
			at := r.store.AddCalls + s.A
			r.addAt = append(r.addAt, at)
			fired := r.addAt
			r.store.FailAdd = func(n int) error {
				for _, x := range fired {
					if n == x {
						return errors.New("injected storage failure (Add)")
					}
				}
				if false {
					return errors.New("injected storage failure (Add)")
				}
				return nil
			}
			r.addFault, r.faulted = true, true
			v.NonTrivial = true
		case "fail-get":
			at := r.store.GetCalls + s.A
			r.getAt = append(r.getAt, at)
			firedG := r.getAt
			gerr := storageErr(s.B)
			r.store.FailGet = func(n int) error {
				for _, x := range firedG {
					if n == x {
						return gerr
					}
				}
				return nil
			}
			v.Class(fmt.Sprintf("read-fault-kind:%d", s.B%5))
			r.faulted = true
			v.NonTrivial = true
		case "foreign-hash":
			b := world.Build(*s.Spec)
			lv, _ := rfc6962.EncodeLeaf(rfc6962.Leaf{Timestamp: uint64(1500000000000 + len(r.foreign)), Entry: b.Entry()})
			w := hashWidths[s.A%len(hashWidths)]
			h := make([]byte, w)
			for i := range h {
				h[i] = byte(i*37+w) | 1
			}
			key, directExtra := "", []byte(nil)
			if s.B == 1 {
				key = chainKey(b.Full)
				w, h = 32, []byte(key)
				directExtra = b.ExtraData()
			}
			var extra []byte
			if b.Spec.Precert {
				l := len(b.Full[0])
				extra = append(append(extra, byte(l>>16), byte(l>>8), byte(l)), b.Full[0]...)
			}
			extra = append(append(extra, byte(w>>8), byte(w)), h...)
			seqNs += 1000
			r.beD.Sequence(-1, seqNs)
			r.beI.Sequence(-1, seqNs)
			if directExtra == nil {
				directExtra = extra
			}
			r.beD.AppendRaw(lv, directExtra)
			r.beI.AppendRaw(lv, extra)
			r.beD.Publish(seqNs + 1)
			r.beI.Publish(seqNs + 1)
			r.foreign[string(lv)] = key
			if key != "" {
				r.want[string(lv)] = append(r.want[string(lv)], b.ExtraData())
				r.chainKeyOf[string(lv)] = key
				v.Class("hash-form-entry-written-by-hand")
			}
			v.Class(fmt.Sprintf("unknown-hash-width:%d", w))
			v.NonTrivial = true
		case "delete":
			if ks := r.sortedKeys(); len(ks) > 0 {
				r.store.Delete(ks[s.A%len(ks)])
				r.damaged[string(ks[s.A%len(ks)])] = true
				r.faulted, r.addFault = true, true // a later identical chain is re-added; a cached hash may skip the Add
				v.Class("row-deleted")
				v.NonTrivial = true
			}
		case "corrupt":
			ks := r.sortedKeys()
			if len(ks) == 0 {
				continue
			}
			target := string(ks[s.A%len(ks)])
			var other []byte
			if len(ks) > 1 {
				other = r.store.M[string(ks[(s.A+1)%len(ks)])]
			}
			how, pos := s.How, s.B
			r.damaged[target] = true
			r.store.Corrupt = func(key, chain []byte) []byte {
				if string(key) == target {
					return corruptChain(chain, how, pos, other)
				}
				return chain
			}
			r.faulted = true
			v.Class("corrupt:" + how)
			v.NonTrivial = true
		case "cache-corrupt":
			// the cache hands back altered bytes for every later hit (memory corruption / poisoned cache)
			how, pos := s.How, s.B
			r.sc.mu.Lock()
			r.sc.corrupt = func(key, chain []byte) []byte { return corruptChain(chain, how, pos, nil) }
			r.sc.mu.Unlock()
			r.cacheCorrupt = true
			r.faulted, r.addFault = true, true
			v.Class("cache-corrupt:" + how)
			v.NonTrivial = true
		case "cache-err":
			r.sc.mu.Lock()
			r.sc.errAt[r.sc.gets+s.A] = true
			r.sc.mu.Unlock()
			r.faulted, r.addFault = true, true
			v.NonTrivial = true
		}
	}
	// final sweep over the whole log
	seqNs += 1000
	r.beD.Sequence(-1, seqNs)
	r.beI.Sequence(-1, seqNs)
	if size := r.beD.Size(); size > 0 {
		for start := 0; start < size; start += 3 {
			r.compareRead(&v, "/ct/v1/get-entries", fmt.Sprintf("start=%d&end=%d", start, start+2), false)
		}
		r.compareRead(&v, "/ct/v1/get-entry-and-proof", "leaf_index=0&tree_size=1", true)
		r.compareRead(&v, "/ct/v1/get-entry-and-proof", fmt.Sprintf("leaf_index=%d&tree_size=%d", size-1, size), true)
	}
	r.sc.mu.Lock()
	if r.sc.miss+r.sc.forgot > 0 && r.sc.hits > 0 {
		v.Class("cache-hit-and-miss")
		v.NonTrivial = true
	}
	if r.sc.hits > 0 {
		v.Class("cache-hit")
	}
	r.sc.mu.Unlock()
	if r.store.Len() >= 2 {
		v.Class("several-stored-chains")
	}
	return v
}

var Sequential = harness.Define(harness.Opts{
	Name:  "equivalence",
	Rule:  "two Instances (same key, roots, clock) - direct and external chain storage (in-memory storage through the verif hook, the real cache from NewIssuanceChainCache: noop / LRU size 0,1,2,64, TTL none / 2 ms / 1 h, wrapped by a scripted forgetful cache) - fed the same 4-30 steps: submissions from a small chain space (issuers repeat, leaf-only paths to 4 intermediates, both entry types, pre-issuers), sequencing, get-entries / get-entry-and-proof on both, sleeps, entries pre-loaded in direct layout, storage faults (Add / FindByKey error at the n-th call, row deleted, stored chain truncated / extended / bit-flipped / swapped with another chain / emptied / one certificate dropped), cache Get errors. Oracle: every 200 of the indirect instance is byte-identical to the direct instance's answer and to the RFC 6962 encoding; without a fault the indirect instance must answer 200 whenever the direct one does. Non-trivial: a fault, a pre-loaded direct-layout leaf, or both cache hits and misses occurred",
	Quick: 150, Thorough: 600,
}, func(t *rapid.T) Case { return genCase(t, true) }, check)

// ---- concurrent variant: writers and readers on the indirect instance

func genConc(t *rapid.T) Case {
	c := genCase(t, false)
	c.Workers = rapid.IntRange(2, 5).Draw(t, "workers")
	if rapid.IntRange(0, 2).Draw(t, "burst") == 0 {
		c.Burst = rapid.SampledFrom([]int{40, 90, 140}).Draw(t, "readers")
	}
	return c
}

func checkConc(t *testing.T, c Case) (v harness.Verdict) {
	r := newRig(t, c)
	// Writes are slow, and a few of them fail (one-shot faults, decided by the call counter): submissions
	// of the same chain overlap, some of them fail with 5xx - but whatever was ANSWERED 200 must be
	// readable once the dust has settled, because the faults are over by then.
	r.store.AddLatency = 2 * time.Millisecond
	failAt := map[int]bool{}
	for i, s := range c.Steps {
		if s.Kind == "submit" && (s.Spec.ID+uint32(i))%5 == 0 {
			failAt[len(failAt)*3] = true // the 0th, 3rd, 6th ... Add call fails
		}
	}
	r.store.FailAdd = func(n int) error {
		if failAt[n] {
			return errors.New("injected storage failure (Add)")
		}
		return nil
	}
	accepted := map[string]bool{} // leaf values of submissions answered 200
	// certificates are built beforehand so that the submissions of all workers really overlap
	prebuilt := map[int]*world.Built{}
	for i, s := range c.Steps {
		if s.Kind == "submit" {
			prebuilt[i] = world.Build(*s.Spec)
		}
	}
	var wg sync.WaitGroup
	var vmu sync.Mutex
	stop := make(chan struct{})
	seqDone := make(chan struct{})
	go func() {
		defer close(seqDone)
		ns := uint64(10)
		for {
			select {
			case <-stop:
				return
			default:
			}
			ns += 10
			r.beI.Sequence(2, ns)
			time.Sleep(100 * time.Microsecond)
		}
	}()
	for w := 0; w < c.Workers; w++ {
		wg.Add(1)
		go func(w int) {
			defer wg.Done()
			for i, s := range c.Steps {
				if i%c.Workers != w {
					continue
				}
				switch s.Kind {
				case "submit":
					b := prebuilt[i]
					path := "/ct/v1/add-chain"
					if s.Spec.Precert {
						path = "/ct/v1/add-pre-chain"
					}
					// The clock stands still in this variant, so the leaf is known beforehand; it has to be registered
					// BEFORE the request, because a reader may be served the entry before this goroutine resumes (two
					// precertificates can share a TBS, hence a leaf_input, and differ in extra_data).
					if lv, err := rfc6962.EncodeLeaf(rfc6962.Leaf{Timestamp: uint64(r.clock.Now().UnixMilli()), Entry: b.Entry()}); err == nil {
						r.mu.Lock()
						r.want[string(lv)] = append(r.want[string(lv)], b.ExtraData())
						r.mu.Unlock()
					}
					var lvKey string
					if lv, err := rfc6962.EncodeLeaf(rfc6962.Leaf{Timestamp: uint64(r.clock.Now().UnixMilli()), Entry: b.Entry()}); err == nil {
						lvKey = string(lv)
					}
					rsp := r.indirect.Post(path, addBody(b.Submit))
					vmu.Lock()
					if rsp.Status == 200 {
						accepted[lvKey] = true
					} else if rsp.Status < 500 {
						v.Failf("indirect-submission-refused", "%s refused: %d %q", path, rsp.Status, trunc(rsp.Body))
					} else {
						v.Class("add-fault-surfaced")
					}
					vmu.Unlock()
				case "entries", "eap":
					size := int(r.beI.CurrentRoot().TreeSize)
					if size == 0 {
						continue
					}
					start := s.A % size
					rsp := r.indirect.Get("/ct/v1/get-entries", fmt.Sprintf("start=%d&end=%d", start, start+s.B))
					vmu.Lock()
					r.judgeAlone(&v, rsp, start)
					vmu.Unlock()
				case "forget":
					r.sc.mu.Lock()
					r.sc.forgetEvery = s.A
					r.sc.mu.Unlock()
				case "sleep":
					time.Sleep(time.Duration(s.A) * time.Millisecond)
				}
			}
		}(w)
	}
	wg.Wait()
	close(stop)
	<-seqDone
	r.beI.Sequence(-1, 999999)
	r.sc.mu.Lock()
	r.sc.forgetEvery = 1 // the cache has forgotten everything: every chain must come from storage now
	r.sc.mu.Unlock()
	if size := r.beI.Size(); c.Burst > 0 && size > 0 {
		// a burst of readers at once against a storage that takes a millisecond per look-up; a quarter of them give
		// up early (their client went away). Every reader that stays must be served, whatever its neighbours do.
		r.store.FailAdd, r.store.AddLatency = nil, 0
		r.store.Latency = time.Millisecond
		// the front end derives the deadline of storage calls from its clock: a storage that honours contexts
		// needs that clock to be the real one
		r.clock.Set(time.Now())
		wd := r.indirect.Watchdog
		r.indirect.Watchdog = 0 // hundreds of requests at once may be slow; nothing here is judged by the clock
		var bw sync.WaitGroup
		for g := 0; g < c.Burst; g++ {
			bw.Add(1)
			go func(g int) {
				defer bw.Done()
				start := g % min(size, 3)
				ctx, cancel := context.WithCancel(context.Background())
				defer cancel()
				leaves := g%4 == 0
				if leaves {
					go func() { time.Sleep(time.Duration(100+g*7%400) * time.Microsecond); cancel() }()
				}
				rsp := r.indirect.Do(ctx, "GET", "/ct/v1/get-entries", fmt.Sprintf("start=%d&end=%d", start, start), nil)
				if leaves || !accepted[string(r.beI.Leaf(start).LeafValue)] {
					return
				}
				vmu.Lock()
				defer vmu.Unlock()
				if rsp.Status != 200 {
					tail := rsp.Body
					if len(tail) > 160 {
						tail = tail[len(tail)-160:]
					}
					if bytes.Contains(rsp.Body, []byte("deadline exceeded")) {
						// the front end's own one-hour deadline cannot have passed: only a stalled machine gets here
						v.Class("burst-reader-met-a-deadline")
						return
					}
					v.Failf("live-reader-refused-in-burst", "one of %d concurrent readers of entry %d (its own request alive, storage healthy but slow) was answered %d %q ... %q", c.Burst, start, rsp.Status, trunc(rsp.Body), tail)
					return
				}
				r.judgeAlone(&v, rsp, start)
			}(g)
		}
		bw.Wait()
		r.indirect.Watchdog = wd
		r.store.Latency = 0
		v.Class(fmt.Sprintf("reader-burst:%d", c.Burst))
	}
	for start := 0; start < r.beI.Size(); start++ {
		rsp := r.indirect.Get("/ct/v1/get-entries", fmt.Sprintf("start=%d&end=%d", start, start))
		if rsp.Status != 200 && accepted[string(r.beI.Leaf(start).LeafValue)] {
			v.Failf("accepted-entry-unreadable", "entry %d was accepted with 200 (while other writes of its chain were slow or failing) but cannot be served afterwards: %d %q", start, rsp.Status, trunc(rsp.Body))
			continue
		}
		if rsp.Status == 200 {
			r.judgeAlone(&v, rsp, start)
		}
	}
	v.NonTrivial = len(r.want) >= 2
	return v
}

// judgeAlone checks an indirect answer against the RFC 6962 reference encoding (no direct twin in the concurrent run).
func (r *rig) judgeAlone(v *harness.Verdict, rsp ctfex.Response, start int) {
	if rsp.Status != 200 {
		v.Failf("indirect-refuses", "get-entries from %d: %d %q with no fault injected", start, rsp.Status, trunc(rsp.Body))
		return
	}
	es, err := parseEntries(rsp.Body)
	if err != nil {
		v.Failf("bad-json", "get-entries body: %v", err)
		return
	}
	for k, e := range es {
		stored := r.beI.Leaf(start + k)
		if !bytes.Equal(e.leaf, stored.LeafValue) {
			v.Failf("leaf-input-differs", "entry %d: leaf_input differs from the stored leaf", start+k)
		}
		r.mu.Lock()
		want, ok := r.want[string(e.leaf)]
		r.mu.Unlock()
		if ok && !anyEqual(want, e.extra) {
			v.Failf("extra-data-not-rfc", "entry %d: extra_data differs from the RFC 6962 encoding of the validated chain", start+k)
		}
		if ok {
			v.Class("read-compared")
		}
	}
}

var Concurrent = harness.Define(harness.Opts{
	Name:  "concurrent",
	Rule:  "the fault-free step mix split over 2-5 goroutines (writers and readers) on the external-storage instance while a sequencer integrates batches, race detector on; every entry served must carry the RFC 6962 encoding of the chain validated at submission. Non-trivial: >= 2 submissions accepted",
	Quick: 30, Thorough: 120, Crashy: true,
}, genConc, checkConc)

func anyEqual(set [][]byte, b []byte) bool {
	for _, x := range set {
		if bytes.Equal(x, b) {
			return true
		}
	}
	return false
}
