package c14

import (
	"testing"

	"verif/internal/harness"
)

func TestProps(t *testing.T) { harness.Main(t, "C14", Sequential, Concurrent) }
