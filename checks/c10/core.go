package c10

import (
	"bytes"
	"fmt"
	"reflect"
	"runtime"
	"strings"

	stdasn1 "encoding/asn1"

	ctasn1 "github.com/google/certificate-transparency-go/asn1"

	"verif/internal/harness"
)

// outcome is what one decoder did with one input.
type outcome struct {
	err      error
	val      reflect.Value // the decoded value (addressable element), valid also after an error
	rest     []byte
	text     string // neutral rendering when err == nil
	alloc    uint64 // bytes allocated by the call
	panicked string
}

func (o *outcome) ok() bool { return o.err == nil && o.panicked == "" }

var measureAlloc = true

func totalAlloc() uint64 {
	if !measureAlloc {
		return 0
	}
	var ms runtime.MemStats
	runtime.ReadMemStats(&ms)
	return ms.TotalAlloc
}

func laxParams(p string) string {
	if p == "" {
		return "lax"
	}
	return p + ",lax"
}

func runFork(td *TD, input []byte, params string) (o outcome) {
	ptr := reflect.New(td.GoType(forkLib))
	o.val = ptr.Elem()
	before := totalAlloc()
	func() {
		defer func() {
			if r := recover(); r != nil {
				o.panicked = fmt.Sprint(r)
			}
		}()
		o.rest, o.err = ctasn1.UnmarshalWithParams(input, ptr.Interface(), params)
	}()
	o.alloc = totalAlloc() - before
	if o.ok() {
		o.text = render(o.val)
	}
	return
}

func runStd(td *TD, input []byte, params string) (o outcome) {
	ptr := reflect.New(td.GoType(stdLib))
	o.val = ptr.Elem()
	before := totalAlloc()
	func() {
		defer func() {
			if r := recover(); r != nil {
				o.panicked = fmt.Sprint(r)
			}
		}()
		o.rest, o.err = stdasn1.UnmarshalWithParams(input, ptr.Interface(), params)
	}()
	o.alloc = totalAlloc() - before
	if o.ok() {
		o.text = render(o.val)
	}
	return
}

// maxTypeSize is the largest in-memory size of any type in the descriptor (the per-element cost of a slice).
func maxTypeSize(td *TD) uintptr {
	var m uintptr
	td.walk(func(x *TD) {
		if s := x.GoType(forkLib).Size(); s > m {
			m = s
		}
	})
	return m
}

// allocBound is the linear bound of oracle E: a constant, plus a per-input-octet cost that covers the
// element size of the widest slice element (every SEQUENCE OF element takes at least two input octets).
func allocBound(td *TD, n int) uint64 {
	return 4096 + uint64(n)*(24+uint64(maxTypeSize(td)))
}

func isTimeErr(err error) bool {
	return err != nil && (strings.Contains(err.Error(), "parsing time") || strings.Contains(err.Error(), msgTimeSer))
}

func isLaxDocumented(err error) bool {
	if err == nil {
		return false
	}
	for _, m := range laxDocumented {
		if strings.Contains(err.Error(), m) {
			return true
		}
	}
	return false
}

type triple struct {
	std, strict, lax outcome
}

func short(b []byte) string {
	if len(b) > 400 {
		return fmt.Sprintf("%x...(%d bytes)", b[:400], len(b))
	}
	return fmt.Sprintf("%x", b)
}

func clip(s string) string {
	if len(s) > 600 {
		return s[:600] + "..."
	}
	return s
}

// judge runs the three decoders on input and applies oracles A (strict fork == stdlib up to the fixed
// difference list), B (strict accepts => lax accepts identically), the general half of C (a lax-only
// acceptance is one the reference decoder refuses for a documented malformation) and E (no panic,
// linear allocation). It is shared by the rapid properties and the native fuzz target.
func judge(v *harness.Verdict, td *TD, input []byte) triple {
	params := td.Params()
	tr := triple{std: runStd(td, input, params), strict: runFork(td, input, params), lax: runFork(td, input, laxParams(params))}
	std, st, lx := &tr.std, &tr.strict, &tr.lax
	where := func() string {
		return fmt.Sprintf("type=%s params=%q input=%s", td.GoType(forkLib), params, short(input))
	}

	// E
	if st.panicked != "" {
		v.Failf("panic-strict", "fork strict panicked: %s; %s", st.panicked, where())
	}
	if lx.panicked != "" {
		v.Failf("panic-lax", "fork lax panicked: %s; %s", lx.panicked, where())
	}
	if std.panicked != "" {
		v.Class("std-panicked")
	}
	if measureAlloc {
		bound := allocBound(td, len(input))
		// one-time lazy initialisations (time zone data, reflect caches) are not the decoder's allocation: an
		// apparent excess is measured a second time and the smaller figure counts
		if st.alloc > bound && st.panicked == "" {
			if again := runFork(td, input, params); again.alloc < st.alloc {
				st.alloc = again.alloc
			}
		}
		if lx.alloc > bound && lx.panicked == "" {
			if again := runFork(td, input, laxParams(params)); again.alloc < lx.alloc {
				lx.alloc = again.alloc
			}
		}
		if st.alloc > bound {
			v.Failf("alloc-strict", "fork strict allocated %d bytes for %d input bytes (bound %d); %s", st.alloc, len(input), bound, where())
		}
		switch r := float64(max(st.alloc, lx.alloc)) / float64(bound); {
		case r <= 0.1:
			v.Class("E:alloc<=10%-of-bound")
		case r <= 0.5:
			v.Class("E:alloc<=50%-of-bound")
		default:
			v.Class("E:alloc<=100%-of-bound")
		}
		if lx.alloc > bound {
			v.Failf("alloc-lax", "fork lax allocated %d bytes for %d input bytes (bound %d); %s", lx.alloc, len(input), bound, where())
		}
	}
	if st.panicked != "" || lx.panicked != "" || std.panicked != "" {
		return tr
	}
	var f diffFacts
	if std.ok() != st.ok() || (std.ok() && std.text != st.text) || (lx.ok() && !st.ok()) {
		f = factsOf(input) // only needed to classify a disagreement
	}

	// A
	switch {
	case std.ok() != st.ok():
		if e := excusedAcceptDiff(f, std.err, st.err); e != "" {
			v.Class("difflist:" + e)
		} else if st.ok() && isLaxDocumented(std.err) && td.has(func(x *TD) bool { return x.LaxTag }) {
			// entry 2: the fork-only `lax` field parameter (unknown to, and ignored by, the reference decoder)
			v.Class("difflist:E2-lax-field-parameter")
		} else if hasImplGenTime(td) && (f.implTimeNode || isTimeErr(std.err) || isTimeErr(st.err)) {
			// finding, not a list entry: the fork reads an implicitly tagged `generalized` time as UTCTime
			v.Failf("implicit-generalizedtime-read-as-utctime", "implicitly tagged time field with `generalized`: stdlib err=%v, fork strict err=%v; %s", std.err, st.err, where())
		} else if std.ok() {
			v.Failf("strict-rejects-std-accepts", "stdlib accepts, fork strict rejects (%v); %s", st.err, where())
		} else {
			v.Failf("strict-accepts-std-rejects", "stdlib rejects (%v), fork strict accepts; %s", std.err, where())
		}
	case std.ok():
		if !bytes.Equal(std.rest, st.rest) {
			v.Failf("strict-rest-differs", "rest differs: stdlib %x, fork strict %x; %s", std.rest, st.rest, where())
		}
		if std.text != st.text {
			if f.e5a {
				v.Class("difflist:E5a-t61-high-octets")
			} else {
				v.Failf("strict-value-differs", "value differs:\n stdlib %s\n fork   %s\n %s", clip(std.text), clip(st.text), where())
			}
		} else {
			v.Class("A:both-accept")
		}
	default:
		v.Class("A:both-reject")
	}

	// B
	if st.ok() {
		switch {
		case !lx.ok():
			v.Failf("lax-rejects-strict-accepts", "fork strict accepts, lax rejects (%v); %s", lx.err, where())
		case lx.text != st.text:
			v.Failf("lax-value-differs", "strict and lax values differ:\n strict %s\n lax    %s\n %s", clip(st.text), clip(lx.text), where())
		case !bytes.Equal(lx.rest, st.rest):
			v.Failf("lax-rest-differs", "strict rest %x, lax rest %x; %s", st.rest, lx.rest, where())
		}
	}

	// C (general half): what lax accepts beyond strict must be refused by the reference decoder for one of the
	// three documented reasons.
	if lx.ok() && !st.ok() {
		documented := false
		if std.err != nil {
			for _, m := range laxDocumented {
				if strings.Contains(std.err.Error(), m) {
					documented = true
					v.Class("lax-only:" + strings.ReplaceAll(m, " ", "-"))
				}
			}
		}
		if !documented && std.err != nil && excusedAcceptDiff(f, std.err, nil) != "" {
			// the reference decoder stopped earlier at a difference-list construct; nothing can be said
			documented = true
			v.Class("lax-only:masked-by-difflist")
		}
		if !documented {
			v.Failf("lax-accepts-undocumented", "lax accepts what strict rejects (%v) although the reference decoder's verdict is %q, not a documented malformation; %s", st.err, errText(std.err), where())
		}
	}
	return tr
}
