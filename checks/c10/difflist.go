package c10

import "strings"

// The FIXED list of differences between the fork in strict mode and encoding/asn1 of go1.26.8.
// Every entry is a syntactic predicate on the input bytes (plus, for entry T, on the target type)
// together with the direction of the disagreement and the reference decoder's error text. An entry
// never excuses a disagreement of another direction or with another stdlib error.
//
//	E3a  identifier in high-tag-number form whose first base-128 octet is 0x80      std rejects ("integer is not minimally encoded"), fork goes on
//	E3b  primitive content with a base-128 group that starts with 0x80 (OID arcs)    std rejects (same text), fork goes on
//	E4   GeneralizedTime content YYYYMMDDHHMMSS followed by '.' or ',' and digits     std accepts, fork rejects ("did not serialize back")
//	E5a  T61String / GeneralString (universal 20 / 27) with an octet >= 0x80          both accept, values differ (std transcodes Latin-1 to UTF-8)
//	E5b  BMPString (universal 30) with a surrogate / non-character code unit          std rejects ("invalid BMPString"), fork accepts
//
// Entries 1, 2, 6-9 of DESIGN.md C10 need no predicate: error strings are never compared, `lax` is a separate
// mode, `any` targets and non-pointer targets are not generated, depth 10000 is unreachable, and SET OF
// ordering concerns Marshal only (canonical inputs are generated sorted).
type snode struct {
	id      []byte
	cls     int
	tag     int
	cons    bool
	content []byte
}

// tlvAt reads one TLV header at the start of b, leniently (non-minimal and over-long lengths are tolerated,
// content is clipped to what is there). The predicates below are evaluated on the TLV found at EVERY offset
// of the input, so that they still see a construct after a mutation has damaged the lengths around it.
func tlvAt(b []byte) *snode {
	if len(b) < 2 {
		return nil
	}
	i := 1
	tag := int(b[0] & 0x1f)
	if tag == 0x1f {
		tag = 0
		for {
			if i >= len(b) || i > 6 {
				return nil
			}
			tag = tag<<7 | int(b[i]&0x7f)
			i++
			if b[i-1]&0x80 == 0 {
				break
			}
		}
	}
	n := &snode{id: b[:i], cls: int(b[0] >> 6), tag: tag, cons: b[0]&0x20 != 0}
	if i >= len(b) {
		return n
	}
	l := int(b[i])
	i++
	if l&0x80 != 0 {
		nb := l & 0x7f
		if nb == 0 || nb > 4 || i+nb > len(b) {
			return n
		}
		l = 0
		for j := 0; j < nb; j++ {
			l = l<<8 | int(b[i+j])
		}
		i += nb
	}
	end := i + l
	if end > len(b) || end < i {
		end = len(b)
	}
	n.content = b[i:end]
	return n
}

func walkS(input []byte, f func(*snode)) {
	for i := range input {
		if n := tlvAt(input[i:]); n != nil {
			f(n)
		}
	}
}

type diffFacts struct {
	e3a, e3b, e4, e5a, e5b bool
	implTimeNode           bool // a non-universal primitive node whose content looks like a time string
}

func isDigits(b []byte) bool {
	for _, x := range b {
		if x < '0' || x > '9' {
			return false
		}
	}
	return true
}

func factsOf(input []byte) diffFacts {
	var f diffFacts
	walkS(input, func(n *snode) {
		if len(n.id) > 1 && n.id[1] == 0x80 {
			f.e3a = true
		}
		if n.cons {
			return
		}
		c := n.content
		if (n.cls == 0 && n.tag == 6) || n.cls != 0 {
			for i := range c {
				if c[i] == 0x80 && (i == 0 || c[i-1]&0x80 == 0) {
					f.e3b = true
				}
			}
		}
		if ((n.cls == 0 && n.tag == 24) || n.cls != 0) && len(c) >= 16 && isDigits(c[:14]) && (c[14] == '.' || c[14] == ',') && c[15] >= '0' && c[15] <= '9' {
			f.e4 = true
		}
		if n.cls == 0 && (n.tag == 20 || n.tag == 27) {
			for _, x := range c {
				if x >= 0x80 {
					f.e5a = true
				}
			}
		}
		if n.cls == 0 && n.tag == 30 && len(c)%2 == 0 {
			for i := 0; i+1 < len(c); i += 2 {
				p := uint16(c[i])<<8 | uint16(c[i+1])
				if p == 0xfffe || p == 0xffff || (p >= 0xfdd0 && p <= 0xfdef) || (p >= 0xd800 && p <= 0xdfff) {
					f.e5b = true
				}
			}
		}
		if n.cls != 0 && len(c) >= 10 && isDigits(c[:10]) {
			f.implTimeNode = true
		}
	})
	return f
}

// hasImplGenTime reports whether the type holds a time.Time field that is implicitly tagged and carries
// the `generalized` parameter (finding implicit-generalizedtime, not part of the difference list).
func hasImplGenTime(td *TD) bool {
	return td.has(func(x *TD) bool { return x.K == KTime && x.Time == "generalized" && tagged(x) && !x.Expl })
}

const (
	stdMsgBase128 = "integer is not minimally encoded" // parseBase128Int (tags and OID arcs)
	stdMsgBMP     = "invalid BMPString"
	msgTimeSer    = "did not serialize back"
)

// The three documented lax relaxations, by the reference decoder's error text.
var laxDocumented = []string{"integer not minimally-encoded", "zero length OBJECT IDENTIFIER", "PrintableString contains invalid character"}

func errText(err error) string {
	if err == nil {
		return ""
	}
	return err.Error()
}

// excusedAcceptDiff decides whether an accept/reject disagreement between stdlib and the strict fork is
// on the difference list; it returns the entry name or "".
func excusedAcceptDiff(f diffFacts, stdErr, forkErr error) string {
	switch {
	case stdErr != nil && forkErr == nil:
		if (f.e3a || f.e3b) && strings.Contains(stdErr.Error(), stdMsgBase128) {
			if f.e3a {
				return "E3a-tag-0x80"
			}
			return "E3b-arc-0x80"
		}
		if f.e5b && strings.Contains(stdErr.Error(), stdMsgBMP) {
			return "E5b-bmp-reserved"
		}
	case stdErr == nil && forkErr != nil:
		if f.e4 && strings.Contains(forkErr.Error(), msgTimeSer) {
			return "E4-gentime-fraction"
		}
	}
	return ""
}
