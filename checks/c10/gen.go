package c10

import (
	"math"
	"math/big"
	"time"

	"pgregory.net/rapid"

	"verif/internal/harness"
)

const maxDepth = 3

const (
	roleRoot = iota
	roleField
	roleElem
)

var leafKinds = []string{KBool, KInt, KInt32, KInt64, KBig, KBits, KOID, KEnum, KFlag, KStr, KStr, KTime, KTime, KBytes, KRaw, KInt, KOID, KStr}
var rootTags = []int{0, 1, 2, 5, 30, 31, 127, 128, 16383, 16384}
var tagBases = []int{0, 0, 0, 0, 1, 27, 28, 125, 16380}

func pct(t *rapid.T, p int, label string) bool { return rapid.IntRange(0, 99).Draw(t, label) >= 100-p }

// genTD draws a type descriptor. depthLeft is the number of struct / sequence levels still allowed.
func genTD(t *rapid.T, depthLeft int, role int, laxProp bool, forceStruct bool) TD {
	var td TD
	k := rapid.IntRange(0, 99).Draw(t, "kind")
	switch {
	case depthLeft > 0 && (forceStruct || k < 22 || (role == roleRoot && k < 70)):
		td.K = KStruct
	case depthLeft > 0 && k < 34:
		td.K = KSeqOf
	default:
		td.K = leafKinds[rapid.IntRange(0, len(leafKinds)-1).Draw(t, "leaf")]
	}
	if role == roleElem && td.K == KFlag {
		td.K = KBool
	}
	if role != roleElem {
		switch x := rapid.IntRange(0, 9).Draw(t, "tagging"); {
		case x <= 4:
		case x <= 6:
			td.HasTag = true
		case x <= 8:
			td.HasTag, td.Expl = true, true
		default:
			td.HasTag = true
			// every combination of the class options, also together with explicit: encoding/asn1's decoder ignores
			// `private` on an explicit tag and lets `private` win over `application` on an implicit one
			td.Cls = rapid.SampledFrom([]string{"application", "private", "application,private", "private,application"}).Draw(t, "cls")
			if pct(t, 35, "clsexpl") {
				td.Expl = true
			}
		}
		if td.HasTag && role == roleRoot {
			td.Tag = rootTags[rapid.IntRange(0, len(rootTags)-1).Draw(t, "roottag")]
		}
		if (role == roleField && pct(t, 30, "opt")) || (role == roleRoot && pct(t, 15, "rootopt")) {
			// at the root: top-level params "optional[,default:N]" - an empty / exhausted input is then an absent element
			td.Opt = true
		}
		if td.K == KFlag {
			td.Opt = true
			if !td.HasTag {
				td.HasTag = true
				td.Expl = pct(t, 50, "flagexpl")
			}
			if role == roleRoot {
				td.K, td.Opt = KBool, false
			}
		}
	}
	switch td.K {
	case KInt, KInt32, KInt64, KEnum:
		if td.Opt && pct(t, 50, "hasdef") {
			td.HasDef = true
			td.Def = int64(rapid.SampledFrom([]int{0, 1, 2, -1, 5, 127, 128, 100000}).Draw(t, "def"))
		}
	case KStr:
		if role != roleElem {
			td.Str = rapid.SampledFrom([]string{"", "", "utf8", "printable", "ia5", "numeric"}).Draw(t, "strtype")
		}
	case KTime:
		if role != roleElem {
			td.Time = rapid.SampledFrom([]string{"", "", "utc", "generalized"}).Draw(t, "timetype")
		}
	case KBytes:
		if td.Opt && pct(t, 40, "omitempty") {
			td.OmitEmpty = true
		}
	case KSeqOf:
		if td.Opt && pct(t, 40, "omitempty") {
			td.OmitEmpty = true
		}
		if role != roleElem && pct(t, 30, "set") {
			td.Set = true
		}
		e := genTD(t, depthLeft-1, roleElem, laxProp, false)
		td.E = &e
	case KStruct:
		if role != roleElem && pct(t, 15, "set") {
			td.Set = true
		}
		td.RawC = pct(t, 25, "rawc")
		n := rapid.IntRange(0, 5).Draw(t, "nfields")
		base := tagBases[rapid.IntRange(0, len(tagBases)-1).Draw(t, "tagbase")]
		for i := 0; i < n; i++ {
			f := genTD(t, depthLeft-1, roleField, laxProp, false)
			if f.Opt && !tagged(&f) && i != n-1 {
				f.HasTag = true
			}
			if f.HasTag {
				f.Tag = base + i
			}
			if laxProp && pct(t, 4, "laxtag") {
				f.LaxTag = true
			}
			td.F = append(td.F, f)
		}
	}
	return td
}

var intAnchors = []int64{0, 1, -1, 127, 128, -128, -129, 255, 256, 32767, 32768, -32768, -32769, 1 << 23, -(1 << 23), math.MaxInt32, math.MinInt32,
	math.MaxInt32 + 1, math.MinInt32 - 1, 1 << 39, 1 << 47, -(1 << 47), 1 << 55, -(1 << 55) - 1, math.MaxInt64, math.MinInt64}

// genBoundary draws an integer from the encoding-length boundary classes 0, +-1, +-2^(8k-1), +-2^(8k-1) +- 1,
// +-2^(8k), +-(2^(8k) - 1) for k = 1..maxK (the places where the minimal two's-complement length changes and where
// sign octets appear or vanish, e.g. -2^(8k-1) = 80 00..00).
func genBoundary(t *rapid.T, maxK int) *big.Int {
	form := rapid.IntRange(0, 7).Draw(t, "bform")
	k := rapid.IntRange(1, maxK).Draw(t, "bk")
	neg := rapid.Bool().Draw(t, "bneg")
	v := new(big.Int)
	one := big.NewInt(1)
	switch form {
	case 0:
		// zero
	case 1:
		v.SetInt64(1)
	case 2:
		v.Lsh(one, uint(8*k-1))
	case 3:
		v.Lsh(one, uint(8*k-1)).Add(v, one)
	case 4:
		v.Lsh(one, uint(8*k-1)).Sub(v, one)
	case 5:
		v.Lsh(one, uint(8*k))
	case 6:
		v.Lsh(one, uint(8*k)).Sub(v, one)
	default:
		v.Lsh(one, uint(8*k-1)) // the 80 00..00 boundary gets double weight
		neg = true
	}
	if neg {
		v.Neg(v)
	}
	return v
}

func fitsBits(v *big.Int, bits int) bool {
	if bits == 32 {
		return v.IsInt64() && v.Int64() == int64(int32(v.Int64()))
	}
	return v.IsInt64()
}

func genInt(t *rapid.T, bits int) int64 {
	var v int64
	switch rapid.IntRange(0, 5).Draw(t, "intmode") {
	case 0:
		v = int64(rapid.IntRange(-3, 300).Draw(t, "small"))
	case 1:
		v = intAnchors[rapid.IntRange(0, len(intAnchors)-1).Draw(t, "anchor")] + int64(rapid.IntRange(-1, 1).Draw(t, "delta"))
	case 2, 3:
		maxK := 9
		if bits == 32 {
			maxK = 5
		}
		b := genBoundary(t, maxK)
		for !fitsBits(b, bits) {
			// step down one octet at a time until the value fits the target (k = 9 / 5 exist to reach the edge itself)
			if b.Sign() < 0 {
				b.Neg(new(big.Int).Rsh(new(big.Int).Neg(b), 8))
			} else {
				b.Rsh(b, 8)
			}
		}
		v = b.Int64()
	default:
		v = rapid.Int64().Draw(t, "i64")
		v >>= uint(rapid.IntRange(0, 56).Draw(t, "shift"))
	}
	if bits == 32 {
		v = int64(int32(v))
	}
	return v
}

// Content lengths at which the DER length octets change form or width.
var lenSmallBoundary = []int{127, 128, 255, 256}
var lenLargeBoundary = []int{65532, 65535, 65536, 65537} // 65532: an OCTET STRING whose explicit wrapper holds exactly 65536 octets

// hugeBudget limits the 2^24-octet contents (thorough tier only) to one per case; reset by the case generators.
var hugeBudget int

// genLen draws a content length: mostly short, with explicit classes around every length-encoding boundary.
func genLen(t *rapid.T, label string) int {
	switch x := rapid.IntRange(0, 19).Draw(t, label+"lenmode"); {
	case x < 12:
		return rapid.IntRange(0, 8).Draw(t, label+"len")
	case x < 15:
		return rapid.IntRange(120, 135).Draw(t, label+"len")
	case x < 17:
		return rapid.IntRange(250, 262).Draw(t, label+"len")
	case x < 18:
		return lenSmallBoundary[rapid.IntRange(0, len(lenSmallBoundary)-1).Draw(t, label+"lenb")]
	case x < 19:
		if rapid.Bool().Draw(t, label+"lenlarge") {
			return lenLargeBoundary[rapid.IntRange(0, len(lenLargeBoundary)-1).Draw(t, label+"lenB")]
		}
		return lenSmallBoundary[rapid.IntRange(0, len(lenSmallBoundary)-1).Draw(t, label+"lenb")]
	}
	if harness.Thorough() && hugeBudget > 0 && rapid.IntRange(0, 399).Draw(t, label+"huge") == 0 {
		hugeBudget--
		return 1<<24 + rapid.IntRange(-1, 1).Draw(t, label+"huged")
	}
	return rapid.IntRange(0, 600).Draw(t, label+"len")
}

func genBytes(t *rapid.T, label string) []byte {
	n := genLen(t, label)
	if label == "bits" && n > 16 && rapid.Bool().Draw(t, "bitsminus") {
		n-- // BIT STRING content is one octet longer than its data
	}
	if n > 16 {
		// long values need length, not entropy
		seed := rapid.Byte().Draw(t, label+"fill")
		b := make([]byte, n)
		for i := range b {
			b[i] = seed + byte(i*7)
		}
		return b
	}
	return rapid.SliceOfN(rapid.Byte(), n, n).Draw(t, label)
}

const printableChars = "abcxyzABCXYZ0189 '()+,-./:=?"
const asciiExtra = "@!#$%;<>[]_{}|~*&\"\t\x00\x01\x1f\x7f"

func genString(t *rapid.T, charset string, minLen int) string {
	n := rapid.IntRange(minLen, 10).Draw(t, "slen")
	if rapid.IntRange(0, 9).Draw(t, "slong") == 0 {
		n = genLen(t, "s")
	}
	rs := []rune(charset)
	if n > 16 {
		// long strings: exact octet length, characters cycled (one multi-octet character first if the set has any)
		var ascii []byte
		var multi string
		for _, r := range rs {
			if r < 0x80 {
				ascii = append(ascii, byte(r))
			} else if multi == "" {
				multi = string(r)
			}
		}
		off := rapid.IntRange(0, len(ascii)-1).Draw(t, "soff")
		out := make([]byte, 0, n)
		if multi != "" && rapid.Bool().Draw(t, "smulti") {
			out = append(out, multi...)
		}
		for i := 0; len(out) < n; i++ {
			out = append(out, ascii[(off+i)%len(ascii)])
		}
		return string(out)
	}
	out := make([]rune, n)
	for i := range out {
		out[i] = rs[rapid.IntRange(0, len(rs)-1).Draw(t, "ch")]
	}
	return string(out)
}

// UTF-8 alphabet: 1- to 4-octet scalars, the edges of every encoding length, C0 controls and DEL, the scalars next to the
// surrogate gap, the replacement character U+FFFD (validly encoded EF BF BD) and the noncharacter U+FFFF.
const utf8Chars = "aZ0 é€ß中𝄞*&@\u0000\u0001\u001f\u007f\u0080\u07ff\u0800\ud7ff\ue000\ufffd\uffff\U00010000\U0010ffff"
const bmpChars = "aZ0 é€ß中"

// genVal draws a value for td. malP is the per-leaf probability (percent) of a documented lax-only malformation.
func genVal(t *rapid.T, td *TD, malP int, quirk string) Val {
	var v Val
	if td.Opt {
		v.Absent = pct(t, 35, "absent")
		v.Keep = pct(t, 10, "keep")
	}
	implicit := tagged(td) && !td.Expl
	switch td.K {
	case KBool:
		v.B = rapid.Bool().Draw(t, "b")
	case KInt, KInt64:
		v.I = genInt(t, 64)
	case KInt32, KEnum:
		v.I = genInt(t, 32)
	case KBig:
		if pct(t, 45, "bigboundary") {
			b := genBoundary(t, 20)
			v.Neg = b.Sign() < 0
			v.Big = new(big.Int).Abs(b).Bytes()
			break
		}
		n := rapid.IntRange(0, 20).Draw(t, "biglen")
		v.Big = rapid.SliceOfN(rapid.Byte(), n, n).Draw(t, "big")
		if n > 2 && rapid.Bool().Draw(t, "bighi") {
			v.Big[0] |= 0x80
		}
		v.Neg = rapid.Bool().Draw(t, "neg")
	case KBits:
		v.Bytes = genBytes(t, "bits")
		v.Unused = rapid.IntRange(0, 7).Draw(t, "unused")
	case KOID:
		if pct(t, 35, "oidfamily") {
			// families of OIDs whose contents are 14..17 octets long and differ in the last octet only (several of them
			// meet in one case / SEQUENCE OF and across the cases of a process)
			l := rapid.IntRange(14, 17).Draw(t, "oidlen")
			fam := rapid.IntRange(0, 2).Draw(t, "oidfam")
			v.Arcs = []int{1, 2} // one octet 0x2a
			used := 1
			for used < l-1 {
				switch {
				case fam == 1 && used+2 <= l-1:
					v.Arcs = append(v.Arcs, 840) // 86 48
					used += 2
				case fam == 2 && used+3 <= l-1:
					v.Arcs = append(v.Arcs, 113549) // 86 f7 0d
					used += 3
				default:
					v.Arcs = append(v.Arcs, 1)
					used++
				}
			}
			v.Arcs = append(v.Arcs, rapid.IntRange(0, 127).Draw(t, "oidlast"))
			break
		}
		a0 := rapid.IntRange(0, 2).Draw(t, "arc0")
		a1 := rapid.IntRange(0, 39).Draw(t, "arc1")
		if a0 == 2 && pct(t, 30, "arc1big") {
			a1 = rapid.SampledFrom([]int{40, 47, 48, 175, 176, 999, 16303, 16304, math.MaxInt32 - 80}).Draw(t, "arc1v")
		}
		v.Arcs = []int{a0, a1}
		n := rapid.IntRange(0, 6).Draw(t, "narcs")
		for i := 0; i < n; i++ {
			v.Arcs = append(v.Arcs, rapid.SampledFrom([]int{0, 1, 5, 127, 128, 840, 16383, 16384, 113549, 2097151, 2097152, 268435455, 268435456, math.MaxInt32}).Draw(t, "arc"))
		}
	case KFlag:
	case KBytes:
		v.Bytes = genBytes(t, "octets")
	case KStr:
		min := 0
		switch td.Str {
		case "utf8":
			v.S = genString(t, utf8Chars, min)
		case "printable":
			v.S = genString(t, printableChars, min)
		case "ia5":
			v.S = genString(t, printableChars+asciiExtra, min)
		case "numeric":
			v.S = genString(t, "0123456789 ", min)
		default:
			if implicit || pct(t, 50, "defprintable") {
				v.S = genString(t, printableChars, min)
			} else {
				v.S = genString(t, utf8Chars, min)
			}
			if !implicit && pct(t, 25, "wirealt") {
				v.Wire = rapid.SampledFrom([]int{12, 22, 20, 27, 18, 30}).Draw(t, "wire")
				switch v.Wire {
				case 18:
					v.S = genString(t, "0123456789 ", min)
				case 22, 20, 27:
					v.S = genString(t, printableChars+asciiExtra, min)
				case 30:
					v.S = genString(t, bmpChars, min)
					v.Nul = rapid.IntRange(0, 3).Draw(t, "bmpnul") // trailing U+0000 code units: exactly one is a terminator
				}
			}
		}
	case KTime:
		// seconds resolution; UTCTime covers 1950..2049, GeneralizedTime 0000..9999
		inRange := td.Time != "generalized" && (implicit || pct(t, 60, "utcrange"))
		if td.Time == "generalized" {
			inRange = pct(t, 50, "utcrange")
		}
		if inRange {
			v.T = rapid.Int64Range(utcLo, utcHi-1).Draw(t, "tsec")
			if pct(t, 20, "tedge") {
				v.T = rapid.SampledFrom([]int64{utcLo, utcLo + 1, utcHi - 1, 0, 946684799, 946684800}).Draw(t, "tedgev")
			}
		} else {
			lo := time.Date(0, 1, 1, 0, 0, 0, 0, time.UTC).Unix()
			hi := time.Date(9999, 12, 31, 23, 59, 59, 0, time.UTC).Unix()
			v.T = rapid.Int64Range(lo, hi).Draw(t, "tsec")
			if pct(t, 25, "tedge") {
				v.T = rapid.SampledFrom([]int64{lo, hi, utcLo - 1, utcHi, time.Date(1, 1, 1, 0, 0, 1, 0, time.UTC).Unix()}).Draw(t, "tedgev")
			}
			if inUTCRange(v.T) && td.Time != "generalized" {
				v.T = utcHi + (v.T - utcLo)
			}
		}
		if v.T == time.Date(1, 1, 1, 0, 0, 0, 0, time.UTC).Unix() {
			v.T++
		}
		if pct(t, 20, "tz") {
			// numeric zone offsets, -1459..+1459 minutes, with explicit classes for the sub-hour ones
			switch rapid.IntRange(0, 5).Draw(t, "tzclass") {
			case 0:
				v.TZ = -rapid.IntRange(1, 59).Draw(t, "tzm")
			case 1:
				v.TZ = rapid.IntRange(1, 59).Draw(t, "tzm")
			case 2:
				v.TZ = 60 * rapid.IntRange(-24, 24).Draw(t, "tzh")
			case 3:
				v.TZ = rapid.SampledFrom([]int{-1459, 1459, -1440, 1440, -60, 60, -61, 61, -59, 59, -1, 1, -210, 345}).Draw(t, "tze")
			default:
				v.TZ = rapid.IntRange(-1459, 1459).Draw(t, "tzr")
			}
		}
	case KRaw:
		if pct(t, 70, "rawuniv") {
			v.RC = 0
			v.RT = rapid.SampledFrom([]int{0, 1, 2, 3, 4, 5, 6, 10, 12, 16, 17, 19, 22, 23, 24, 30, 31, 200}).Draw(t, "rawtag")
		} else {
			v.RC = rapid.IntRange(1, 3).Draw(t, "rawclass")
			v.RT = rapid.IntRange(200, 250).Draw(t, "rawtag")
		}
		v.RCmp = pct(t, 30, "rawcmp")
		v.Bytes = genBytes(t, "rawc")
		if v.RCmp && pct(t, 60, "rawinner") {
			v.Bytes = tlv([]byte{0x02}, []byte{byte(rapid.IntRange(0, 127).Draw(t, "rawint"))})
		}
	case KStruct:
		v.Kids = make([]Val, len(td.F))
		for i := range td.F {
			v.Kids[i] = genVal(t, &td.F[i], malP, quirk)
		}
	case KSeqOf:
		n := rapid.IntRange(0, 4).Draw(t, "nelem")
		if pct(t, 3, "manyelem") {
			n = rapid.IntRange(20, 70).Draw(t, "nelem2")
		}
		v.Kids = make([]Val, n)
		for i := range v.Kids {
			v.Kids[i] = genVal(t, td.E, malP, quirk)
		}
	}
	if malP > 0 {
		switch td.K {
		case KInt, KInt64, KInt32, KEnum, KBig:
			if pct(t, malP, "mal") {
				v.Pad = rapid.IntRange(1, 3).Draw(t, "pad")
			}
		case KOID:
			if pct(t, malP, "mal") {
				v.NoArcs = true
			}
		case KStr:
			if (td.Str == "printable" || td.Str == "") && pct(t, malP, "mal") {
				v.Latin = genLatin(t)
				if td.Str == "" {
					v.Wire = 0
					if !allPrintableCanon(v.S) {
						v.S = "x"
					}
				}
			}
		}
	}
	if quirk != "" && pct(t, 50, "quirk") {
		switch {
		case quirk == QFrac && td.K == KTime && !implicit:
			v.Quirk = QFrac
		case quirk == QArc80 && td.K == KOID:
			v.Quirk = QArc80
		case (quirk == QT61Hi || quirk == QBMPRes) && td.K == KStr && td.Str == "" && !implicit:
			v.Quirk = quirk
			if quirk == QT61Hi && rapid.Bool().Draw(t, "general") {
				v.Wire = 27
			}
			v.S = "q"
		case quirk == QTag80 && tagged(td) && td.Tag >= 31:
			v.Quirk = QTag80
		}
	}
	return v
}

// Octet classes for PrintableString contents in the lax sub-property.
var latinClasses = []func(t *rapid.T) byte{
	func(t *rapid.T) byte { return printableChars[rapid.IntRange(0, len(printableChars)-1).Draw(t, "lp")] }, // PrintableString set
	func(t *rapid.T) byte { return rapid.ByteRange(0x21, 0x7e).Draw(t, "la") },                              // any visible ASCII (incl. T.61-invalid # $ \ ^ ` { } ~)
	func(t *rapid.T) byte { return rapid.ByteRange(0x01, 0x1f).Draw(t, "lc") },                              // C0 controls
	func(t *rapid.T) byte { return 0x7f },
	func(t *rapid.T) byte { return rapid.ByteRange(0x80, 0x9f).Draw(t, "lc1") }, // C1 controls
	func(t *rapid.T) byte { return rapid.ByteRange(0xa0, 0xfe).Draw(t, "lh") },  // high half (T.61-valid and -invalid)
	func(t *rapid.T) byte { return 0xff },
	func(t *rapid.T) byte { return 0x00 },
}

// genLatin draws PrintableString content octets from a mixture of 1-4 octet classes (the result may be a valid
// PrintableString, ISO 8859-1 text, T.61 text or neither; classifyLatin decides which).
func genLatin(t *rapid.T) []byte {
	nc := rapid.IntRange(1, 4).Draw(t, "latinclasses")
	cls := make([]int, nc)
	for i := range cls {
		cls[i] = rapid.IntRange(0, len(latinClasses)-1).Draw(t, "latinclass")
	}
	n := rapid.IntRange(1, 8).Draw(t, "latinlen")
	if n < nc {
		n = nc
	}
	out := make([]byte, n)
	for i := range out {
		c := cls[i%nc] // every chosen class appears at least once
		if i >= nc {
			c = cls[rapid.IntRange(0, nc-1).Draw(t, "latinpick")]
		}
		out[i] = latinClasses[c](t)
	}
	return out
}
