package c10

import (
	"encoding/pem"
	"hash/fnv"
	"os"
	"path/filepath"
	"strings"
	"testing"

	"pgregory.net/rapid"

	"verif/internal/harness"
)

func intp() TD { return TD{K: KInt} }

// x509-shaped descriptors so that the certificates of the repository's testdata are meaningful seeds.
func x509Types() []TD {
	algID := TD{K: KStruct, F: []TD{{K: KOID}, {K: KRaw, Opt: true}}}
	spki := TD{K: KStruct, RawC: true, F: []TD{algID, {K: KBits}}}
	ext := TD{K: KStruct, F: []TD{{K: KOID}, {K: KBool, Opt: true}, {K: KBytes}}}
	tbs := TD{K: KStruct, RawC: true, F: []TD{
		{K: KInt, Opt: true, Expl: true, HasTag: true, Tag: 0, HasDef: true, Def: 0},
		{K: KBig},
		algID,
		{K: KRaw},
		{K: KStruct, F: []TD{{K: KTime}, {K: KTime}}},
		{K: KRaw},
		spki,
		{K: KBits, Opt: true, HasTag: true, Tag: 1},
		{K: KBits, Opt: true, HasTag: true, Tag: 2},
		{K: KSeqOf, Opt: true, Expl: true, HasTag: true, Tag: 3, E: &ext},
	}}
	cert := TD{K: KStruct, RawC: true, F: []TD{tbs, algID, {K: KBits}}}
	certRawTBS := TD{K: KStruct, RawC: true, F: []TD{{K: KRaw}, algID, {K: KBits}}}
	atv := TD{K: KStruct, F: []TD{{K: KOID}, {K: KStr}}}
	rdn := TD{K: KSeqOf, Set: true, E: &atv}
	keyUsage := TD{K: KBits}
	basic := TD{K: KStruct, F: []TD{{K: KBool, Opt: true}, {K: KInt, Opt: true, HasDef: true, Def: -1}}}
	ints := TD{K: KSeqOf, E: &TD{K: KBig}}
	oids := TD{K: KSeqOf, E: &TD{K: KOID}}
	return []TD{cert, certRawTBS, tbs, spki, rdn, atv, keyUsage, basic, ints, oids, {K: KBig}, {K: KOID}, {K: KStr}, {K: KStr, Str: "printable"}, {K: KTime}, {K: KEnum}, intp()}
}

// fuzzTypes is the fixed list of target types of the native fuzz target: the x509-shaped ones plus
// deterministic samples of the rapid type generator (types holding the two known findings' triggers -
// an implicitly tagged `generalized` time, a field-level `lax` parameter - are left out so that the
// campaign does not stop at them).
func fuzzTypes() []TD {
	out := x509Types()
	g := rapid.Custom(func(t *rapid.T) TD { return genTD(t, maxDepth, roleRoot, false, false) })
	for seed := 1; len(out) < 64 && seed < 1000; seed++ {
		td := g.Example(seed)
		if hasImplGenTime(&td) || td.has(func(x *TD) bool { return x.LaxTag }) {
			continue
		}
		out = append(out, td)
	}
	return out
}

func repoDir() string {
	if d := os.Getenv("VERIF_REPO"); d != "" {
		return d
	}
	return "/repo"
}

func seedDER() [][]byte {
	var out [][]byte
	for _, pat := range []string{"x509/testdata/*.crt", "x509/testdata/invalid/*.pem", "x509/*.crt", "trillian/testdata/*.cert", "trillian/testdata/*.pem", "testdata/*.pem", "testdata/*.cert"} {
		files, _ := filepath.Glob(filepath.Join(repoDir(), pat))
		for _, f := range files {
			if strings.Contains(f, "privkey") {
				continue
			}
			b, err := os.ReadFile(f)
			if err != nil {
				continue
			}
			for {
				var blk *pem.Block
				blk, b = pem.Decode(b)
				if blk == nil {
					break
				}
				if len(blk.Bytes) < 4096 {
					out = append(out, blk.Bytes)
				}
			}
		}
	}
	return out
}

// FuzzDiff: raw bytes against a fixed set of target types; oracles A, B, the general half of C and E
// (allocation sampled) are applied inside the target.
func FuzzDiff(f *testing.F) {
	types := fuzzTypes()
	ders := seedDER()
	for i, d := range ders {
		// certificates against the certificate-shaped types, and every blob against one other type
		f.Add(append([]byte{byte(i % 4)}, d...))
		if i < 40 {
			f.Add(append([]byte{byte(4 + i%(len(types)-4))}, d...))
		}
	}
	// canonical and mutated encodings of generated values for every type
	for i := range types {
		td := types[i]
		vg := rapid.Custom(func(t *rapid.T) Val { rapid.Bool().Draw(t, "_"); return genVal(t, &td, 0, "") })
		mg := rapid.Custom(func(t *rapid.T) []Mut { return genMuts(t, 1, 2) })
		for seed := 1; seed <= 3; seed++ {
			val := vg.Example(seed)
			d, _ := newEncCtx().field(&td, &val, mctx{})
			f.Add(append([]byte{byte(i)}, d...))
			m, _ := applyMuts(d, mg.Example(seed))
			f.Add(append([]byte{byte(i)}, m...))
		}
		lv := rapid.Custom(func(t *rapid.T) Val { rapid.Bool().Draw(t, "_"); return genVal(t, &td, 60, "") })
		val := lv.Example(7)
		d, _ := newEncCtx().field(&td, &val, mctx{})
		f.Add(append([]byte{byte(i)}, d...))
	}
	for _, s := range [][]byte{{0, 0x30, 0x80}, {10, 0x02, 0x84, 0xff, 0xff, 0xff, 0xff}, {8, 0x30, 0x83, 0x01, 0x00, 0x00}, {11, 0x06, 0x00}, {10, 0x02, 0x02, 0x00, 0x01}, {13, 0x13, 0x01, 0xe9}} {
		f.Add(s)
	}
	f.Fuzz(func(t *testing.T, data []byte) {
		if len(data) < 1 || len(data) > 1<<16 {
			return
		}
		td := &types[int(data[0])%len(types)]
		input := data[1:]
		h := fnv.New32a()
		h.Write(data)
		measureAlloc = h.Sum32()%8 == 0
		var v harness.Verdict
		judge(&v, td, input)
		for _, x := range v.Violations {
			t.Errorf("[%s] %s", x.Sig, x.Msg)
		}
	})
}
