package c10

import (
	"bytes"
	"math/big"
	"reflect"
	"sort"
	"strings"
	"time"
	"unicode/utf16"
	"unicode/utf8"

	"verif/internal/derx"
)

// Val is a generated value for a descriptor (plain data; interpretation is directed by the TD).
type Val struct {
	Absent bool   `json:"absent,omitempty"` // optional field left out
	Keep   bool   `json:"keep,omitempty"`   // keep an optional field present although a canonical encoder would omit it
	B      bool   `json:"b,omitempty"`
	I      int64  `json:"i,omitempty"`
	Big    []byte `json:"big,omitempty"` // magnitude
	Neg    bool   `json:"neg,omitempty"`
	Bytes  []byte `json:"bytes,omitempty"` // OCTET STRING / BIT STRING data / RawValue content
	Unused int    `json:"unused,omitempty"`
	Arcs   []int  `json:"arcs,omitempty"`
	S      string `json:"s,omitempty"`
	Wire   int    `json:"wire,omitempty"` // alternative universal string tag on the wire (default-typed strings)
	Nul    int    `json:"nul,omitempty"`  // BMPString: trailing U+0000 code units appended on the wire
	T      int64  `json:"t,omitempty"`    // unix seconds
	TZ     int    `json:"tz,omitempty"`   // zone offset in minutes written on the wire instead of "Z" (accepted by both decoders, re-encoded verbatim by both encoders)
	RC     int    `json:"rc,omitempty"`   // RawValue class 0..3
	RT     int    `json:"rt,omitempty"`   // RawValue tag number
	RCmp   bool   `json:"rcmp,omitempty"`
	Kids   []Val  `json:"kids,omitempty"`

	// The documented lax-only malformations.
	Pad    int    `json:"pad,omitempty"`    // INTEGER / ENUMERATED with Pad redundant leading octets
	NoArcs bool   `json:"noarcs,omitempty"` // zero-length OBJECT IDENTIFIER
	Latin  []byte `json:"latin,omitempty"`  // PrintableString content that is really ISO 8859-1 / T.61

	// Quirk selects an encoding that falls into one entry of the fixed strict-vs-stdlib difference list.
	Quirk string `json:"quirk,omitempty"`
}

const (
	QFrac   = "frac"   // GeneralizedTime with fractional seconds
	QArc80  = "arc80"  // OID arc with a leading 0x80 octet
	QTag80  = "tag80"  // high-tag-number identifier with a leading 0x80 octet
	QT61Hi  = "t61hi"  // T61String / GeneralString with octets >= 0x80
	QBMPRes = "bmpres" // BMPString holding a reserved code point
)

// encCtx accumulates facts about one encoding.
type encCtx struct {
	nonRT     bool // Marshal(Unmarshal(d)) == d is not expected (non-canonical but valid choices)
	noExpect  bool // the expected Go value is not known by construction
	mal       int  // documented lax-only malformations emitted
	laxReject bool // a malformation outside the documented set was emitted: lax must reject as well
	quirks    map[string]int
	classes   map[string]bool
	malUnder  map[string]bool // contexts the malformations sit in: top, struct, seqof, explicit, implicit, depthN
	implGen   bool            // an implicitly tagged `generalized` time is present on the wire
	explRawC  bool            // an explicitly tagged struct with RawContent is present
	laxTagMal int             // malformations that sit below a field-level `lax` tag
}

func newEncCtx() *encCtx {
	return &encCtx{quirks: map[string]int{}, classes: map[string]bool{}, malUnder: map[string]bool{}}
}

func (c *encCtx) cl(s string) { c.classes[s] = true }

// ident builds identifier octets.
func ident(cls byte, cons bool, tag int, lead80 bool) []byte {
	b := cls
	if cons {
		b |= 0x20
	}
	if tag < 31 && !lead80 {
		return []byte{b | byte(tag)}
	}
	out := []byte{b | 0x1f}
	if lead80 {
		out = append(out, 0x80)
	}
	return append(out, base128(tag)...)
}

func base128(v int) []byte {
	tmp := []byte{byte(v & 0x7f)}
	for v >>= 7; v > 0; v >>= 7 {
		tmp = append([]byte{byte(v&0x7f) | 0x80}, tmp...)
	}
	return tmp
}

func tlv(id []byte, content []byte) []byte {
	out := append([]byte(nil), id...)
	out = append(out, derx.EncLen(len(content))...)
	return append(out, content...)
}

// clsBits is the class the DECODER expects for a tagged field, by encoding/asn1's rules (the reference): on an
// explicit tag only `application` counts (else context-specific; `private` is ignored), on an implicit tag
// `private` wins over `application`.
func clsBits(td *TD) byte {
	app, priv := strings.Contains(td.Cls, "application"), strings.Contains(td.Cls, "private")
	switch {
	case td.Expl && app:
		return 0x40
	case td.Expl:
		return 0x80
	case priv:
		return 0xc0
	case app:
		return 0x40
	}
	return 0x80
}

// marshalClsBits is the class Marshal writes: application, else private, else context-specific.
func marshalClsBits(td *TD) byte {
	switch {
	case strings.Contains(td.Cls, "application"):
		return 0x40
	case strings.Contains(td.Cls, "private"):
		return 0xc0
	}
	return 0x80
}

func isPrintableCanon(b byte) bool { // the set Marshal uses to choose PrintableString (no '*', no '&')
	return 'a' <= b && b <= 'z' || 'A' <= b && b <= 'Z' || '0' <= b && b <= '9' || '\'' <= b && b <= ')' ||
		'+' <= b && b <= '/' || b == ' ' || b == ':' || b == '=' || b == '?'
}

func allPrintableCanon(s string) bool {
	for i := 0; i < len(s); i++ {
		if !isPrintableCanon(s[i]) {
			return false
		}
	}
	return true
}

func tagged(td *TD) bool { return td.HasTag || td.Cls != "" || td.Expl }

// mctx describes where a value sits (for the propagation classes of oracle C).
type mctx struct {
	depth   int
	under   []string
	laxTag  bool // below a field carrying the `lax` parameter
	topPath bool
}

func (m mctx) with(s string) mctx {
	n := m
	n.under = append(append([]string(nil), m.under...), s)
	return n
}

func (c *encCtx) noteMal(m mctx, kind string) {
	c.mal++
	c.cl("mal:" + kind)
	if len(m.under) == 0 {
		c.malUnder["top"] = true
	}
	for _, u := range m.under {
		c.malUnder[u] = true
	}
	c.malUnder["depth"+string(rune('0'+m.depth))] = true
	if m.laxTag {
		c.laxTagMal++
	}
}

// field encodes one field (or the root, or a sequence element) and builds the expected fork-typed value.
func (c *encCtx) field(td *TD, v *Val, m mctx) ([]byte, reflect.Value) {
	typ := td.GoType(forkLib)
	if td.LaxTag {
		m.laxTag = true
	}
	absent := func() reflect.Value {
		z := reflect.New(typ).Elem()
		if td.HasDef {
			switch td.K {
			case KInt, KInt32, KInt64, KEnum:
				z.SetInt(td.Def)
			}
		}
		return z
	}
	if td.Opt && v.Absent {
		c.cl("opt-absent")
		return nil, absent()
	}
	if td.Expl {
		m = m.with("explicit")
	} else if tagged(td) {
		m = m.with("implicit")
	}
	real := c
	if td.Opt {
		// decide about canonical omission on a scratch context first, so that an omitted field leaves no trace
		c = newEncCtx()
	}
	utag, cons, body, gv := c.body(td, v, m)
	if td.Opt {
		c = real
		omit := false
		switch {
		case td.HasDef && (td.K == KInt || td.K == KInt32 || td.K == KInt64 || td.K == KEnum):
			omit = gv.Int() == td.Def
		default:
			omit = reflect.DeepEqual(gv.Interface(), reflect.Zero(typ).Interface())
		}
		if td.OmitEmpty && gv.Kind() == reflect.Slice && gv.Len() == 0 {
			omit = true
		}
		if omit {
			if !v.Keep || td.K == KFlag {
				c.cl("opt-canon-omitted")
				return nil, absent()
			}
			c.nonRT = true
			c.cl("opt-present-default")
		} else {
			c.cl("opt-present")
		}
		utag, cons, body, gv = c.body(td, v, m)
	} else if td.OmitEmpty && gv.Kind() == reflect.Slice && gv.Len() == 0 {
		c.nonRT = true
	}
	var out []byte
	lead80 := v.Quirk == QTag80 && tagged(td)
	if lead80 {
		c.quirks[QTag80]++
		c.noExpect = true
	}
	switch {
	case td.K == KRaw:
		// RawValue: the wire identity is the value's own unless the field is tagged.
		switch {
		case td.Expl:
			inner := tlv(ident(byte(v.RC&3)<<6, v.RCmp, v.RT, false), v.Bytes)
			out = tlv(ident(clsBits(td), true, td.Tag, lead80), inner)
			setRaw(gv, int(clsBits(td)>>6), td.Tag, true, inner, out)
		case tagged(td):
			out = tlv(ident(clsBits(td), v.RCmp, td.Tag, lead80), v.Bytes)
			setRaw(gv, int(clsBits(td)>>6), td.Tag, v.RCmp, v.Bytes, out)
		default:
			out = tlv(ident(byte(v.RC&3)<<6, v.RCmp, v.RT, false), v.Bytes)
			setRaw(gv, v.RC&3, v.RT, v.RCmp, v.Bytes, out)
		}
		c.cl("raw")
		return out, gv
	case td.Expl:
		inner := tlv(ident(0, cons, utag, false), body)
		out = tlv(ident(clsBits(td), true, td.Tag, lead80), inner)
		c.cl("tag:explicit")
	case tagged(td):
		out = tlv(ident(clsBits(td), cons, td.Tag, lead80), body)
		c.cl("tag:implicit")
	default:
		out = tlv(ident(0, cons, utag, false), body)
	}
	if tagged(td) && clsBits(td) != marshalClsBits(td) {
		// decoder and encoder of encoding/asn1 disagree about the class for this option combination: not round-trippable
		c.nonRT = true
		c.cl("class:decoder-encoder-asymmetry")
	}
	if tagged(td) {
		if td.Cls != "" {
			c.cl("class:" + td.Cls)
		}
		if td.Tag >= 31 {
			c.cl("tag:high")
		}
	}
	if td.K == KStruct && td.RawC {
		gv.Field(0).SetBytes(append([]byte{}, out...))
		c.cl("rawcontent")
		if td.Expl {
			c.explRawC = true
		}
	}
	if len(out) > 129 {
		c.cl("len:long-form")
	}
	return out, gv
}

func setRaw(gv reflect.Value, class, tag int, cmp bool, content, full []byte) {
	gv.Field(0).SetInt(int64(class))
	gv.Field(1).SetInt(int64(tag))
	gv.Field(2).SetBool(cmp)
	gv.Field(3).SetBytes(append([]byte{}, content...))
	gv.Field(4).SetBytes(append([]byte{}, full...))
}

func bigOf(v *Val) *big.Int {
	n := new(big.Int).SetBytes(v.Big)
	if v.Neg {
		n.Neg(n)
	}
	return n
}

// padInt applies the non-minimal INTEGER malformation; limit is the largest content length the target accepts (0 = none).
func (c *encCtx) padInt(content []byte, v *Val, limit int, m mctx) []byte {
	if v.Pad <= 0 {
		return content
	}
	pad := v.Pad
	if limit > 0 && len(content)+pad > limit {
		pad = limit - len(content)
	}
	if pad <= 0 {
		return content
	}
	fill := byte(0)
	if content[0]&0x80 != 0 {
		fill = 0xff
	}
	c.noteMal(m, "int-nonminimal")
	return append(bytes.Repeat([]byte{fill}, pad), content...)
}

var utcLo = time.Date(1950, 1, 1, 0, 0, 0, 0, time.UTC).Unix()
var utcHi = time.Date(2050, 1, 1, 0, 0, 0, 0, time.UTC).Unix()

func inUTCRange(sec int64) bool { return sec >= utcLo && sec < utcHi }

// body returns the universal tag number, constructed flag, content octets and expected value (without tagging).
func (c *encCtx) body(td *TD, v *Val, m mctx) (int, bool, []byte, reflect.Value) {
	typ := td.GoType(forkLib)
	gv := reflect.New(typ).Elem()
	implicit := tagged(td) && !td.Expl
	switch td.K {
	case KBool:
		gv.SetBool(v.B)
		c.cl("kind:bool")
		if v.B {
			return 1, false, []byte{0xff}, gv
		}
		return 1, false, []byte{0}, gv
	case KInt, KInt64, KInt32, KEnum:
		i := v.I
		if td.K == KInt32 || td.K == KEnum {
			i = int64(int32(i))
		}
		gv.SetInt(i)
		c.cl("kind:" + td.K)
		content := c.padInt(derx.IntContent(big.NewInt(i)), v, 8, m)
		if td.K == KEnum {
			return 10, false, content, gv
		}
		return 2, false, content, gv
	case KBig:
		n := bigOf(v)
		gv.Set(reflect.ValueOf(n))
		c.cl("kind:big")
		return 2, false, c.padInt(derx.IntContent(n), v, 0, m), gv
	case KBits:
		data := append([]byte{}, v.Bytes...)
		unused := v.Unused & 7
		if len(data) == 0 {
			unused = 0
		} else {
			data[len(data)-1] &^= byte(1<<unused) - 1
		}
		gv.Field(0).SetBytes(data)
		gv.Field(1).SetInt(int64(len(data)*8 - unused))
		c.cl("kind:bits")
		return 3, false, append([]byte{byte(unused)}, data...), gv
	case KOID:
		c.cl("kind:oid")
		if v.NoArcs {
			c.noteMal(m, "oid-empty")
			gv.Set(reflect.MakeSlice(typ, 0, 0))
			return 6, false, []byte{}, gv
		}
		arcs := v.Arcs
		s := reflect.MakeSlice(typ, len(arcs), len(arcs))
		for i, a := range arcs {
			s.Index(i).SetInt(int64(a))
		}
		gv.Set(s)
		content := derx.OIDContent(arcs)
		if v.Quirk == QArc80 {
			// re-encode with a superfluous leading 0x80 on the last arc
			last := base128(arcs[len(arcs)-1])
			if len(arcs) == 2 {
				last = base128(arcs[0]*40 + arcs[1])
			}
			content = append(append(append([]byte{}, content[:len(content)-len(last)]...), 0x80), last...)
			c.quirks[QArc80]++
			c.noExpect = true
		}
		return 6, false, content, gv
	case KFlag:
		gv.SetBool(true)
		c.cl("kind:flag")
		return 1, false, []byte{}, gv
	case KBytes:
		gv.SetBytes(append([]byte{}, v.Bytes...))
		c.cl("kind:bytes")
		return 4, false, v.Bytes, gv
	case KStr:
		return c.strBody(td, v, m, gv, implicit)
	case KTime:
		t := time.Unix(v.T, 0).UTC()
		zone := ""
		if v.TZ != 0 && v.Quirk != QFrac {
			// wall clock of that zone plus the numeric offset; the UTCTime / GeneralizedTime choice follows the zone-local year
			lt := t.In(time.FixedZone("", v.TZ*60))
			utcYear := lt.Year() >= 1950 && lt.Year() < 2050
			if lt.Year() >= 0 && lt.Year() <= 9999 && (utcYear == inUTCRange(v.T)) {
				t = lt
				zone = lt.Format("-0700")
				c.cl("time:numeric-offset")
				if v.TZ < 0 && v.TZ > -60 {
					c.cl("time:negative-sub-hour-offset")
				}
			}
		}
		gv.Set(reflect.ValueOf(t))
		c.cl("kind:time")
		gen := td.Time == "generalized" || !inUTCRange(v.T)
		if v.Quirk == QFrac && !implicit {
			c.quirks[QFrac]++
			c.noExpect = true
			return 24, false, []byte(t.Format("20060102150405") + ".5Z"), gv
		}
		if gen {
			if implicit {
				if td.Time == "generalized" {
					c.implGen = true
				} else {
					// GeneralizedTime content under an implicit tag without the `generalized` parameter is
					// read as UTCTime by both decoders; the generator keeps such times inside the UTC range.
					c.noExpect = true
					c.nonRT = true
				}
			}
			c.cl("time:generalized")
			if zone != "" {
				return 24, false, []byte(t.Format("20060102150405") + zone), gv
			}
			return 24, false, []byte(t.Format("20060102150405Z")), gv
		}
		c.cl("time:utc")
		if zone != "" {
			return 23, false, []byte(t.Format("060102150405") + zone), gv
		}
		return 23, false, []byte(t.Format("060102150405Z")), gv
	case KRaw:
		return 0, false, nil, gv
	case KStruct:
		var content []byte
		off := 0
		if td.RawC {
			off = 1
		}
		km := m.with("struct")
		km.depth++
		encs := make([][]byte, len(td.F))
		last := -1
		for i := range td.F {
			b, fv := c.field(&td.F[i], &v.Kids[i], km)
			encs[i] = b
			if len(b) > 0 {
				last = i
			}
			content = append(content, b...)
			gv.Field(i + off).Set(fv)
		}
		// Inherited from encoding/asn1 (identical code in both): a field with `explicit` that meets a zero-length
		// element which ends the enclosing content is refused with "explicit tag has no child" before its tag is
		// even compared - so an absent optional explicit field in front of an empty last element makes both
		// decoders reject valid DER. Outside the by-construction oracle; A/B still apply.
		if last >= 0 && encs[last][len(encs[last])-1] == 0 && len(encs[last]) <= 7 {
			if n, r, err := derx.Parse(encs[last]); err == nil && len(r) == 0 && n.Len == n.HdrLen {
				for i := last - 1; i >= 0 && len(encs[i]) == 0; i-- {
					if td.F[i].Expl {
						c.noExpect = true
						c.cl("inherited:explicit-before-empty-last-element")
					}
				}
			}
		}
		c.cl("kind:struct")
		if td.Set {
			c.cl("set-struct")
			return 17, true, content, gv
		}
		return 16, true, content, gv
	case KSeqOf:
		km := m.with("seqof")
		km.depth++
		encs := make([][]byte, len(v.Kids))
		vals := make([]reflect.Value, len(v.Kids))
		for i := range v.Kids {
			encs[i], vals[i] = c.field(td.E, &v.Kids[i], km)
		}
		if td.Set {
			// canonical SET OF: ascending element encodings (stdlib's Marshal sorts; the fork keeps the order)
			idx := make([]int, len(encs))
			for i := range idx {
				idx[i] = i
			}
			sort.SliceStable(idx, func(a, b int) bool { return bytes.Compare(encs[idx[a]], encs[idx[b]]) < 0 })
			e2 := make([][]byte, len(encs))
			v2 := make([]reflect.Value, len(encs))
			for i, j := range idx {
				e2[i], v2[i] = encs[j], vals[j]
			}
			encs, vals = e2, v2
			c.cl("set-of")
		}
		s := reflect.MakeSlice(typ, len(vals), len(vals))
		var content []byte
		for i := range vals {
			s.Index(i).Set(vals[i])
			content = append(content, encs[i]...)
		}
		gv.Set(s)
		c.cl("kind:seqof")
		if len(vals) == 0 {
			c.cl("seqof:empty")
		}
		if td.Set {
			return 17, true, content, gv
		}
		return 16, true, content, gv
	}
	panic("c10: body: unknown kind " + td.K)
}

func latin1ToUTF8(b []byte) string {
	r := make([]rune, len(b))
	for i, x := range b {
		r[i] = rune(x)
	}
	return string(r)
}

// t61Invalid lists, as inclusive ranges, the octets that the package documentation (comment of couldBeT61 in
// asn1.go) names as never valid in a T.61 string - unassigned positions of the ITU-T T.61 code table - plus NUL,
// which the fork refuses on purpose ("PayPal NUL"). Transcribed as data; the fork's functions are not called.
var t61Invalid = [][2]byte{{0x00, 0x00}, {0x23, 0x24}, {0x5c, 0x5c}, {0x5e, 0x5e}, {0x60, 0x60}, {0x7b, 0x7b}, {0x7d, 0x7e}, {0xa5, 0xa6},
	{0xac, 0xaf}, {0xb9, 0xba}, {0xc0, 0xc0}, {0xc9, 0xc9}, {0xd0, 0xdc}, {0xde, 0xdf}, {0xe5, 0xe5}, {0xff, 0xff}}

func isT61Invalid(x byte) bool {
	for _, r := range t61Invalid {
		if x >= r[0] && x <= r[1] {
			return true
		}
	}
	return false
}

// classifyLatin sorts PrintableString content octets by the documented relaxation rule, in its documented order:
// "printable" (nothing to relax), else "iso" (could be ISO 8859-1: no C0 control, nothing in 0x7F..0x9F -> Latin-1
// transcoded to UTF-8), else "t61" (no octet that is invalid in T.61, no NUL -> octets verbatim), else "none"
// (neither: lax mode must reject it too).
func classifyLatin(b []byte) string {
	bad := false
	for _, x := range b {
		if !(isPrintableCanon(x) || x == '*' || x == '&') {
			bad = true
		}
	}
	if !bad {
		return "printable"
	}
	iso := true
	for _, x := range b {
		if x < 0x20 || (x >= 0x7f && x < 0xa0) {
			iso = false
		}
	}
	if iso {
		return "iso"
	}
	for _, x := range b {
		if isT61Invalid(x) {
			return "none"
		}
	}
	return "t61"
}

func (c *encCtx) strBody(td *TD, v *Val, m mctx, gv reflect.Value, implicit bool) (int, bool, []byte, reflect.Value) {
	c.cl("kind:str")
	s := v.S
	gv.SetString(s)
	// effective wire type
	wire := 0
	switch td.Str {
	case "utf8":
		wire = 12
	case "printable":
		wire = 19
	case "ia5":
		wire = 22
	case "numeric":
		wire = 18
	default:
		if allPrintableCanon(s) {
			wire = 19
		} else {
			wire = 12
			if implicit {
				// an implicitly tagged default string is read as PrintableString by both decoders
				c.noExpect = true
				c.nonRT = true
			}
		}
	}
	if td.Str == "" && !implicit {
		switch v.Quirk {
		case QT61Hi:
			c.quirks[QT61Hi]++
			c.noExpect = true
			c.nonRT = true
			tag := 20
			if v.Wire == 27 {
				tag = 27
			}
			return tag, false, append([]byte(s), 0xe9, 0x80), gv
		case QBMPRes:
			c.quirks[QBMPRes]++
			c.noExpect = true
			c.nonRT = true
			return 30, false, []byte{0x00, 0x41, 0xff, 0xfe}, gv
		}
		if v.Wire != 0 && v.Wire != wire && len(v.Latin) == 0 {
			// a different (valid) universal string type on the wire: decodable, but not what Marshal emits
			ok := false
			content := []byte(s)
			switch v.Wire {
			case 12:
				ok = true
			case 22, 20, 27:
				ok = isASCII(s)
			case 18:
				ok = isNumericStr(s)
			case 30:
				ok = true
				content = nil
				for _, u := range utf16.Encode([]rune(s)) {
					content = append(content, byte(u>>8), byte(u))
				}
				if v.Nul > 0 {
					// a single trailing U+0000 is a terminator and is dropped; further ones are content
					content = append(content, make([]byte, 2*v.Nul)...)
					gv.SetString(s + strings.Repeat("\x00", v.Nul-1))
					c.cl("str:bmp-trailing-nul")
				}
				for _, r := range s {
					if r > 0xffff || r == 0xfffe || r == 0xffff || (r >= 0xfdd0 && r <= 0xfdef) || (r >= 0xd800 && r <= 0xdfff) || r == 0 {
						ok = false
					}
				}
			}
			if ok {
				c.nonRT = true
				c.cl("str:wire-alt")
				return v.Wire, false, content, gv
			}
		}
	}
	if wire == 19 && len(v.Latin) > 0 {
		switch classifyLatin(v.Latin) {
		case "iso":
			c.noteMal(m, "printable-iso8859-1")
			gv.SetString(latin1ToUTF8(v.Latin))
			return 19, false, v.Latin, gv
		case "t61":
			c.noteMal(m, "printable-t61")
			gv.SetString(string(v.Latin))
			return 19, false, v.Latin, gv
		case "none":
			c.laxReject = true
			c.cl("mal:printable-neither-iso-nor-t61")
			return 19, false, v.Latin, gv
		case "printable":
			// the drawn octets happen to be PrintableString characters ('*' and '&' are tolerated on decoding only)
			gv.SetString(string(v.Latin))
			c.nonRT = true
			c.cl("str:printable-drawn")
			return 19, false, v.Latin, gv
		}
	}
	c.cl("str:" + map[int]string{12: "utf8", 19: "printable", 22: "ia5", 18: "numeric"}[wire])
	return wire, false, []byte(s), gv
}

func isASCII(s string) bool {
	for i := 0; i < len(s); i++ {
		if s[i] >= utf8.RuneSelf {
			return false
		}
	}
	return true
}

func isNumericStr(s string) bool {
	for i := 0; i < len(s); i++ {
		if !('0' <= s[i] && s[i] <= '9' || s[i] == ' ') {
			return false
		}
	}
	return true
}

// stripMal returns a copy of v without the documented malformations (the strict-DER twin).
func stripMal(v *Val) Val {
	n := *v
	n.Pad = 0
	n.NoArcs = false
	if len(v.Latin) > 0 {
		// same length, PrintableString characters only (never empty, so the twin keeps the shape of the original)
		b := append([]byte{}, v.Latin...)
		for i := range b {
			if !isPrintableCanon(b[i]) {
				b[i] = 'x'
			}
		}
		n.S = string(b)
	}
	n.Latin = nil
	if len(v.Kids) > 0 {
		n.Kids = make([]Val, len(v.Kids))
		for i := range v.Kids {
			n.Kids[i] = stripMal(&v.Kids[i])
		}
	}
	return n
}
