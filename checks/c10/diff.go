package c10

import (
	"bytes"
	"fmt"
	"reflect"
	"sort"
	"testing"

	stdasn1 "encoding/asn1"

	ctasn1 "github.com/google/certificate-transparency-go/asn1"
	"pgregory.net/rapid"

	"verif/internal/harness"
)

// DiffCase: a generated target type, a generated value of it, optional structure-aware mutations of the
// value's canonical DER, and trailing bytes.
type DiffCase struct {
	T    TD     `json:"t"`
	V    Val    `json:"v"`
	M    []Mut  `json:"m,omitempty"`
	Rest []byte `json:"rest,omitempty"`
}

func genRest(t *rapid.T) []byte {
	if pct(t, 70, "norest") {
		return nil
	}
	return rapid.SliceOfN(rapid.Byte(), 1, 4).Draw(t, "rest")
}

func genDiff(t *rapid.T) DiffCase {
	var c DiffCase
	c.T = genTD(t, maxDepth, roleRoot, false, false)
	quirk := ""
	if pct(t, 15, "quirky") {
		quirk = rapid.SampledFrom([]string{QFrac, QArc80, QTag80, QT61Hi, QBMPRes}).Draw(t, "quirkkind")
	}
	hugeBudget = 1
	c.V = genVal(t, &c.T, 0, quirk)
	if !pct(t, 40, "canonical") {
		c.M = genMuts(t, 1, 3)
	}
	c.Rest = genRest(t)
	return c
}

func addClasses(v *harness.Verdict, ctx *encCtx, prefix string) {
	var ks []string
	for k := range ctx.classes {
		ks = append(ks, k)
	}
	sort.Strings(ks)
	for _, k := range ks {
		v.Class(prefix + k)
	}
	for q := range ctx.quirks {
		v.Class("quirk:" + q)
	}
}

// expectCanonical applies the by-construction oracle to an unmutated encoding without malformations: every
// decoder accepts, yields the generated value and leaves exactly the trailing bytes; and oracle D.
func expectCanonical(v *harness.Verdict, td *TD, tr *triple, ctx *encCtx, d []byte, exp reflect.Value, rest []byte) {
	where := fmt.Sprintf("type=%s params=%q der=%s", td.GoType(forkLib), td.Params(), short(d))
	want := render(exp)
	if !tr.std.ok() {
		// the reference decoder refuses an encoding the generator believes canonical: a generator problem
		v.Failf("check-canonical-refused-by-std", "stdlib rejects generated canonical DER (%v); %s", tr.std.err, where)
		return
	}
	for _, o := range []struct {
		name string
		o    *outcome
	}{{"strict", &tr.strict}, {"lax", &tr.lax}} {
		switch {
		case !o.o.ok():
			v.Failf("canonical-rejected-"+o.name, "fork %s rejects canonical DER (%v); %s", o.name, o.o.err, where)
		case o.o.text != want:
			v.Failf("canonical-value-"+o.name, "fork %s value\n got  %s\n want %s\n %s", o.name, clip(o.o.text), clip(want), where)
		case !bytes.Equal(o.o.rest, rest):
			v.Failf("canonical-rest-"+o.name, "fork %s rest %x, want %x; %s", o.name, o.o.rest, rest, where)
		}
	}
	if tr.std.text != want {
		v.Failf("check-canonical-std-value", "stdlib value\n got  %s\n want %s\n %s", clip(tr.std.text), clip(want), where)
	}
	if !tr.strict.ok() || ctx.nonRT {
		if ctx.nonRT {
			v.Class("D:skipped-noncanonical-choice")
		}
		return
	}
	// D: Marshal(Unmarshal(d)) == d
	params := td.Params()
	fm, ferr := marshalFork(tr.strict.val, params)
	sm, serr := marshalStd(tr.std.val, params)
	forkOK := ferr == nil && bytes.Equal(fm, d)
	stdOK := serr == nil && bytes.Equal(sm, d)
	switch {
	case forkOK && stdOK:
		v.Class("D:roundtrip")
	case ctx.explRawC:
		// inherited, identical in encoding/asn1: RawContent of an explicitly tagged struct keeps the outer wrapper,
		// Marshal strips one header only. Outside the domain of D; counted.
		v.Class("D:excluded-explicit-rawcontent")
		if forkOK != stdOK {
			v.Failf("roundtrip-explicit-rawcontent-diverges", "fork ok=%v (%v) stdlib ok=%v (%v); %s", forkOK, ferr, stdOK, serr, where)
		}
	case !forkOK && stdOK:
		v.Failf("roundtrip-fork", "fork Marshal(Unmarshal(d)) != d: err=%v got %s; %s", ferr, short(fm), where)
	case !forkOK && !stdOK:
		v.Failf("check-roundtrip-both", "neither library reproduces d (generator's canonical form is off?): fork err=%v %s, stdlib err=%v %s; %s", ferr, short(fm), serr, short(sm), where)
	default:
		v.Failf("check-roundtrip-std", "stdlib does not reproduce d but the fork does: stdlib err=%v %s; %s", serr, short(sm), where)
	}
}

func marshalFork(val reflect.Value, params string) (b []byte, err error) {
	defer func() {
		if r := recover(); r != nil {
			err = fmt.Errorf("panic: %v", r)
		}
	}()
	return ctasn1.MarshalWithParams(val.Interface(), params)
}

func marshalStd(val reflect.Value, params string) (b []byte, err error) {
	defer func() {
		if r := recover(); r != nil {
			err = fmt.Errorf("panic: %v", r)
		}
	}()
	return stdasn1.MarshalWithParams(val.Interface(), params)
}

func checkDiff(t *testing.T, c DiffCase) harness.Verdict {
	var v harness.Verdict
	td := &c.T
	ctx := newEncCtx()
	d, exp := ctx.field(td, &c.V, mctx{})
	input := d
	mutated := false
	if len(c.M) > 0 {
		var applied []string
		input, applied = applyMuts(d, c.M)
		for _, a := range applied {
			v.Class("mut:" + a)
		}
		mutated = !bytes.Equal(input, d)
	}
	rest := c.Rest
	if len(d) == 0 {
		// an absent (or canonically omitted) optional top-level element: the input is EMPTY; trailing bytes would
		// be read as the element itself
		rest = nil
		v.Class("input:empty-optional-root")
	}
	input = append(append([]byte{}, input...), rest...)
	tr := judge(&v, td, input)
	if tr.std.ok() && tr.std.panicked == "" {
		// chaining: what the reference decoder left over is fed into a second call (often empty = exhausted input)
		var v2 harness.Verdict
		tr2 := judge(&v2, td, tr.std.rest)
		v.Violations = append(v.Violations, v2.Violations...)
		switch {
		case len(tr.std.rest) == 0 && tr2.std.ok():
			v.Class("chain:empty-rest-accepted")
		case len(tr.std.rest) == 0:
			v.Class("chain:empty-rest-rejected")
		case tr2.std.ok():
			v.Class("chain:rest-accepted")
		default:
			v.Class("chain:rest-rejected")
		}
	}
	addClasses(&v, ctx, "")
	depth := td.Depth()
	v.Class(fmt.Sprintf("depth:%d", depth))
	if len(rest) > 0 {
		v.Class("rest")
	}
	laxOnly := tr.lax.ok() && !tr.strict.ok()
	v.NonTrivial = mutated || depth >= 2 || laxOnly
	if mutated {
		v.Class("input:mutated")
	} else if len(ctx.quirks) > 0 {
		v.Class("input:difflist-quirk")
	} else {
		v.Class("input:canonical")
	}
	if !mutated && !ctx.noExpect && !ctx.implGen && tr.std.panicked == "" && tr.strict.panicked == "" && tr.lax.panicked == "" {
		expectCanonical(&v, td, &tr, ctx, d, exp, rest)
	}
	v.Sample = map[string]any{"type": td.GoType(forkLib).String(), "params": td.Params(), "input": short(input), "std_err": errText(tr.std.err), "strict_err": errText(tr.strict.err), "lax_err": errText(tr.lax.err)}
	return v
}

// Diff is sub-property "diff": oracles A, B, the general half of C, D and E over generated types,
// canonical / difference-list / mutated inputs.
var Diff = harness.Define(harness.Opts{
	Name:     "diff",
	Rule:     "type descriptors realised over both packages with reflect.StructOf; input = derx-encoded canonical DER of a generated value (40%), or the same after 1-3 structure-aware mutations; non-trivial = input mutated, or type nested >= 2, or a lax-only acceptance",
	Quick:    30000,
	Thorough: 40000,
}, genDiff, checkDiff)
