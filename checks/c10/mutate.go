package c10

import (
	"pgregory.net/rapid"

	"verif/internal/derx"
)

// Mut is one structure-aware mutation of a DER tree (plain data).
type Mut struct {
	Op   int    `json:"op"`
	Node int    `json:"node"` // index into the depth-first node list, modulo its length
	A    int    `json:"a,omitempty"`
	B    []byte `json:"b,omitempty"`
}

const (
	mRetag = iota
	mLenDelta
	mLenNonMinimal
	mLenIndefinite
	mSwap
	mDup
	mDelete
	mContent
	mIntNonMinimal
	mEmpty
	mLatin
	mBadBool
	mBitPad
	mOddTime
	mFlip
	mTruncate
	mInsert
	mHighTag
	mArc80
	mAppendByte
	mTimeChar
	mOpCount
)

var mutNames = []string{"retag", "len-delta", "len-nonminimal", "len-indefinite", "swap", "dup", "delete", "content", "int-nonminimal", "empty",
	"latin", "bad-bool", "bit-pad", "odd-time", "flip", "truncate", "insert", "high-tag", "arc80", "append-byte", "time-char"}

var oddTimes = []string{
	"0601021504Z", "060102150405+0100", "0601021504-0330", "060102150405", "060102150460Z", "060230120000Z", "061302120000Z", "060102240000Z",
	"20060102150405.5Z", "20060102150405.50Z", "20060102150405,5Z", "20060102150405.123456789Z", "20060102150405.Z", "20060102150405+0100",
	"200601021504Z", "2006010215Z", "20060102150405", "99991231235959Z", "00000101000000Z", "500101000000Z", "491231235959Z", "20491231235959Z",
	"20500101000000Z", "19500101000000Z", "060102150405Z ", " 060102150405Z", "0601021504051Z", "060102150405z", "", "Z", "20060102150405.000Z", "20060102150405.10Z",
}

func genMuts(t *rapid.T, min, max int) []Mut {
	n := rapid.IntRange(min, max).Draw(t, "nmut")
	out := make([]Mut, n)
	for i := range out {
		m := Mut{Op: rapid.IntRange(0, mOpCount-1).Draw(t, "op"), Node: rapid.IntRange(0, 63).Draw(t, "node"), A: rapid.IntRange(0, 255).Draw(t, "a")}
		switch m.Op {
		case mContent, mInsert:
			m.B = rapid.SliceOfN(rapid.Byte(), 0, 12).Draw(t, "mb")
		case mRetag:
			if rapid.Bool().Draw(t, "retagknown") {
				m.A = int(rapid.SampledFrom([]byte{0x01, 0x02, 0x03, 0x04, 0x05, 0x06, 0x0a, 0x0c, 0x12, 0x13, 0x14, 0x16, 0x17, 0x18, 0x1b, 0x1e, 0x30, 0x31, 0x80, 0x81, 0xa0, 0xa1, 0x40, 0x60, 0xc0, 0x1f, 0x3f, 0x9f, 0xbf}).Draw(t, "retagv"))
			}
		}
		out[i] = m
	}
	return out
}

func parentOf(root, n *derx.Node) (*derx.Node, int) {
	var p *derx.Node
	idx := -1
	root.Walk(func(x *derx.Node) {
		for i, k := range x.Children {
			if k == n {
				p, idx = x, i
			}
		}
	})
	return p, idx
}

func contentOf(n *derx.Node) []byte {
	if n.Children != nil {
		var c []byte
		for _, k := range n.Children {
			c = append(c, k.Encode()...)
		}
		return c
	}
	return n.Content
}

func setContent(n *derx.Node, b []byte) {
	n.Children = nil
	n.Content = b
}

// nonMinimalLen returns length octets for l that are never the minimal form.
func nonMinimalLen(l int, extra int) []byte {
	min := derx.EncLen(l)
	if l < 0x80 {
		out := []byte{0x81 + byte(extra%2)}
		if extra%2 == 1 {
			out = append(out, 0)
		}
		return append(out, byte(l))
	}
	out := []byte{min[0] + 1, 0}
	return append(out, min[1:]...)
}

// applyMuts applies the mutations to the TLV encoding d (which must parse) and returns the new bytes
// together with the names of the mutations that took effect.
func applyMuts(d []byte, muts []Mut) ([]byte, []string) {
	root, rest, err := derx.Parse(d)
	if err != nil || len(rest) != 0 {
		return d, []string{"unparsed"}
	}
	root = root.Clone()
	var applied []string
	truncate := -1
	var tail []byte
	for _, m := range muts {
		nodes := root.All()
		n := nodes[m.Node%len(nodes)]
		done := true
		switch m.Op {
		case mRetag:
			b := byte(m.A)
			if b&0x1f == 0x1f {
				n.ID = []byte{b, byte(31 + m.Node%97)}
			} else {
				n.ID = []byte{b}
			}
		case mLenDelta:
			l := len(contentOf(n))
			delta := m.A%7 - 3
			if delta >= 0 {
				delta++
			}
			if l+delta < 0 {
				delta = 1
			}
			n.RawLen = derx.EncLen(l + delta)
		case mLenNonMinimal:
			n.RawLen = nonMinimalLen(len(contentOf(n)), m.A)
		case mLenIndefinite:
			n.RawLen = []byte{0x80}
		case mSwap:
			p, i := parentOf(root, n)
			if p == nil || len(p.Children) < 2 {
				done = false
				break
			}
			j := (i + 1) % len(p.Children)
			p.Children[i], p.Children[j] = p.Children[j], p.Children[i]
		case mDup:
			p, i := parentOf(root, n)
			if p == nil {
				done = false
				break
			}
			kids := append([]*derx.Node{}, p.Children[:i+1]...)
			kids = append(kids, n.Clone())
			p.Children = append(kids, p.Children[i+1:]...)
		case mDelete:
			p, i := parentOf(root, n)
			if p == nil {
				done = false
				break
			}
			p.Children = append(append([]*derx.Node{}, p.Children[:i]...), p.Children[i+1:]...)
		case mContent:
			setContent(n, m.B)
		case mIntNonMinimal:
			c := contentOf(n)
			fill := byte(0)
			if len(c) > 0 && c[0]&0x80 != 0 {
				fill = 0xff
			}
			setContent(n, append([]byte{fill}, c...))
		case mEmpty:
			setContent(n, []byte{})
		case mLatin:
			c := append([]byte{}, contentOf(n)...)
			if len(c) == 0 {
				c = []byte{0xe9}
			} else {
				c[m.A%len(c)] = []byte{0xe9, 0xa0, 0xff, '@', '*', '&', 0x00, 0x7f, 0x1b, 0x80, '#', '_'}[(m.A/16)%12]
			}
			setContent(n, c)
		case mBadBool:
			switch m.A % 4 {
			case 0:
				setContent(n, []byte{0x01})
			case 1:
				setContent(n, []byte{0xfe})
			case 2:
				setContent(n, []byte{0xff, 0xff})
			default:
				setContent(n, []byte{})
			}
		case mBitPad:
			c := append([]byte{}, contentOf(n)...)
			if len(c) == 0 {
				done = false
				break
			}
			switch m.A % 3 {
			case 0:
				c[0] = byte(m.A/3) % 10
			case 1:
				c[len(c)-1] |= 1
				if c[0] == 0 {
					c[0] = 1
				}
			default:
				c = c[:1]
				c[0] = byte(1 + m.A%7)
			}
			setContent(n, c)
		case mOddTime:
			setContent(n, []byte(oddTimes[m.A%len(oddTimes)]))
		case mFlip:
			c := append([]byte{}, contentOf(n)...)
			if len(c) == 0 {
				done = false
				break
			}
			c[m.A%len(c)] ^= 1 << uint((m.A/len(c))%8)
			setContent(n, c)
		case mTruncate:
			truncate = m.A
		case mInsert:
			if !n.Constructed() || n.Children == nil {
				done = false
				break
			}
			var k *derx.Node
			if kn, r, err := derx.Parse(m.B); err == nil && len(r) == 0 {
				k = kn
			} else {
				id := byte(m.A) &^ 0x20
				if id&0x1f == 0x1f {
					id &^= 0x01
				}
				k = derx.Leaf(id, m.B)
			}
			i := 0
			if len(n.Children) > 0 {
				i = m.A % (len(n.Children) + 1)
			}
			kids := append([]*derx.Node{}, n.Children[:i]...)
			kids = append(kids, k)
			n.Children = append(kids, n.Children[i:]...)
		case mHighTag:
			// re-encode the identifier in high-tag-number form: non-minimal (tag < 31) or with a leading 0x80
			first := n.ID[0]
			var tagno int
			if first&0x1f != 0x1f {
				tagno = int(first & 0x1f)
				if m.A%2 == 0 {
					n.ID = []byte{first | 0x1f, byte(tagno)} // "non-minimal tag"
				} else {
					n.ID = []byte{first | 0x1f, 0x80, byte(tagno)}
				}
			} else {
				n.ID = append([]byte{first, 0x80}, n.ID[1:]...)
			}
		case mArc80:
			c := contentOf(n)
			// insert 0x80 at the start of a base-128 group
			var starts []int
			for i := range c {
				if i == 0 || c[i-1]&0x80 == 0 {
					starts = append(starts, i)
				}
			}
			if len(starts) == 0 {
				done = false
				break
			}
			at := starts[m.A%len(starts)]
			nc := append(append(append([]byte{}, c[:at]...), 0x80), c[at:]...)
			setContent(n, nc)
		case mAppendByte:
			tail = append(tail, byte(m.A))
		case mTimeChar:
			// replace ONE character of a time string (every position is reachable) by a sign, blank or punctuation
			var times []*derx.Node
			for _, x := range nodes {
				if c := x.Content; x.Children == nil && len(c) >= 11 && len(c) <= 24 && isDigits(c[:6]) {
					times = append(times, x)
				}
			}
			if len(times) > 0 {
				n = times[m.Node%len(times)]
			}
			c := append([]byte{}, contentOf(n)...)
			if len(c) == 0 {
				done = false
				break
			}
			c[m.A%len(c)] = "+- .,:Z0/"[(m.A/len(c))%9]
			setContent(n, c)
		}
		if done {
			applied = append(applied, mutNames[m.Op])
		}
	}
	out := append(root.Encode(), tail...)
	if truncate >= 0 && len(out) > 0 {
		out = out[:truncate%len(out)]
	}
	return out, applied
}
