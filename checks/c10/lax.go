package c10

import (
	"bytes"
	"fmt"
	"sort"
	"testing"

	"pgregory.net/rapid"

	"verif/internal/derx"
	"verif/internal/harness"
)

// LaxCase: a generated type and value whose encoding carries k >= 1 of the documented lax-only
// malformations at generated positions (top level, nested struct fields, SEQUENCE OF elements, below
// explicit / implicit tags), optionally followed - later in document order - by one other mutation.
type LaxCase struct {
	T     TD     `json:"t"`
	V     Val    `json:"v"`
	After *Mut   `json:"after,omitempty"`
	Rest  []byte `json:"rest,omitempty"`
}

func malEligible(x *TD) bool {
	switch x.K {
	case KInt, KInt32, KInt64, KEnum, KBig, KOID:
		return true
	case KStr:
		return x.Str == "printable" || x.Str == ""
	}
	return false
}

// twin-safe mutation operators: they touch only the selected node (never an earlier sibling) and do not
// depend on the total length of the encoding.
var afterOps = []int{mRetag, mLenDelta, mLenNonMinimal, mLenIndefinite, mDup, mDelete, mContent, mIntNonMinimal, mEmpty, mLatin, mBadBool, mBitPad, mOddTime, mFlip, mInsert, mHighTag, mArc80, mAppendByte, mTimeChar}

func genLax(t *rapid.T) LaxCase {
	var c LaxCase
	forced, atFront := false, false
	if pct(t, 12, "bareroot") {
		// a bare INTEGER / OID / string / SEQUENCE OF target: lax given for the top-level element only
		k := rapid.SampledFrom([]string{KInt, KInt32, KBig, KOID, KEnum, KStr, KSeqOf, KSeqOf}).Draw(t, "barekind")
		c.T = TD{K: k}
		switch k {
		case KStr:
			c.T.Str = rapid.SampledFrom([]string{"", "printable"}).Draw(t, "barestr")
		case KSeqOf:
			ek := rapid.SampledFrom([]string{KInt, KBig, KOID, KEnum, KStr}).Draw(t, "bareelem")
			c.T.E = &TD{K: ek}
			c.T.Set = pct(t, 30, "bareset")
		}
		switch rapid.IntRange(0, 3).Draw(t, "baretag") {
		case 1:
			c.T.HasTag, c.T.Tag = true, rapid.SampledFrom(rootTags).Draw(t, "barettag")
		case 2:
			c.T.HasTag, c.T.Expl, c.T.Tag = true, true, rapid.SampledFrom(rootTags).Draw(t, "barettag")
		}
		c.V = genVal(t, &c.T, 70, "")
		c.Rest = genRest(t)
		return c
	}
	c.T = genTD(t, maxDepth, roleRoot, true, true)
	if !c.T.has(malEligible) || pct(t, 30, "extra") {
		k := rapid.SampledFrom([]string{KInt, KBig, KOID, KStr, KEnum}).Draw(t, "extrakind")
		f := TD{K: k}
		if k == KStr {
			f.Str = "printable"
		}
		// keep optional untagged fields unambiguous: the new last field takes a tag if its predecessor is an untagged optional
		if n := len(c.T.F); n > 0 && c.T.F[n-1].Opt && !tagged(&c.T.F[n-1]) {
			c.T.F[n-1].HasTag = true
			c.T.F[n-1].Tag = 90 + n
		}
		if atFront = pct(t, 50, "front"); atFront {
			c.T.F = append([]TD{f}, c.T.F...)
		} else {
			c.T.F = append(c.T.F, f)
		}
		forced = true
	}
	hugeBudget = 0
	c.V = genVal(t, &c.T, 45, "")
	if forced {
		// the appended field always carries its malformation
		at := len(c.V.Kids) - 1
		if atFront {
			at = 0
		}
		k := &c.V.Kids[at]
		switch c.T.F[at].K {
		case KOID:
			k.NoArcs = true
		case KStr:
			if len(k.Latin) == 0 {
				k.Latin = genLatin(t)
			}
		default:
			if k.Pad == 0 {
				k.Pad = 1
			}
		}
	}
	if pct(t, 50, "after") {
		ms := genMuts(t, 1, 1)
		ms[0].Op = afterOps[rapid.IntRange(0, len(afterOps)-1).Draw(t, "afterop")]
		c.After = &ms[0]
	}
	c.Rest = genRest(t)
	return c
}

// lastDiffering returns the preorder index of the last primitive node whose content differs between the
// two trees (which have the same shape), or -1.
func lastDiffering(a, b []*derx.Node) int {
	last := -1
	for i := range a {
		if i >= len(b) {
			break
		}
		if a[i].Children == nil && b[i].Children == nil && !bytes.Equal(a[i].Content, b[i].Content) {
			last = i
		}
	}
	return last
}

func checkLax(t *testing.T, c LaxCase) harness.Verdict {
	var v harness.Verdict
	td := &c.T
	ctx := newEncCtx()
	d1, exp := ctx.field(td, &c.V, mctx{})
	if len(d1) == 0 {
		c.Rest = nil // absent optional top-level element: empty input
	}
	input := append(append([]byte{}, d1...), c.Rest...)
	where := fmt.Sprintf("type=%s params=%q input=%s", td.GoType(forkLib), td.Params(), short(input))
	tr := judge(&v, td, input)
	addClasses(&v, ctx, "")
	v.Class(fmt.Sprintf("depth:%d", td.Depth()))
	v.Class(fmt.Sprintf("malformations:%d", min(ctx.mal, 4)))
	var under []string
	for k := range ctx.malUnder {
		under = append(under, k)
	}
	sort.Strings(under)
	for _, k := range under {
		v.Class("mal-under:" + k)
	}
	v.NonTrivial = ctx.mal > 0 || ctx.laxReject
	v.Sample = map[string]any{"type": td.GoType(forkLib).String(), "params": td.Params(), "input": short(input), "malformations": ctx.mal, "under": under,
		"std_err": errText(tr.std.err), "strict_err": errText(tr.strict.err), "lax_err": errText(tr.lax.err)}
	if tr.std.panicked != "" || tr.strict.panicked != "" || tr.lax.panicked != "" || ctx.noExpect || ctx.implGen {
		return v
	}
	switch {
	case ctx.mal == 0 && !ctx.laxReject:
		v.Class("lax:no-malformation-emitted")
		expectCanonical(&v, td, &tr, ctx, d1, exp, c.Rest)
		return v
	case ctx.laxReject:
		// PrintableString whose octets are neither ISO 8859-1 nor T.61 text (or hold NUL): no mode may accept
		if tr.std.ok() {
			v.Failf("check-malformation-accepted-by-std", "stdlib accepts the generated malformation; %s", where)
		}
		if tr.lax.ok() {
			v.Failf("lax-accepts-undocumented-printable", "lax accepts a PrintableString whose octets are neither ISO 8859-1 nor T.61 text; %s", where)
		}
		v.Class("C:lax-must-reject")
		return v
	}
	// C, constructive half
	if tr.std.ok() {
		v.Failf("check-malformation-accepted-by-std", "stdlib accepts the generated malformation; %s", where)
		return v
	}
	allUnderLaxTag := ctx.laxTagMal == ctx.mal
	if allUnderLaxTag {
		// every malformation sits below a field that carries the `lax` parameter: package documentation says the
		// relaxation applies to that field and everything within it, whatever the top-level mode
		v.Class("C:lax-field-parameter")
		if !tr.strict.ok() {
			v.Failf("lax-field-parameter-ignored", "all %d malformation(s) sit below a field tagged `lax`, yet Unmarshal without top-level lax rejects (%v); %s", ctx.mal, tr.strict.err, where)
		}
	} else if tr.strict.ok() {
		v.Failf("strict-accepts-documented-malformation", "strict mode accepts an input with %d lax-only malformation(s); %s", ctx.mal, where)
	}
	want := render(exp)
	switch {
	case !tr.lax.ok():
		v.Failf("lax-rejects-documented-malformation", "lax rejects (%v) an input whose only flaws are %d documented malformation(s) under %v; %s", tr.lax.err, ctx.mal, under, where)
	case tr.lax.text != want:
		v.Failf("lax-value-wrong", "lax value\n got  %s\n want %s\n %s", clip(tr.lax.text), clip(want), where)
	case !bytes.Equal(tr.lax.rest, c.Rest):
		v.Failf("lax-rest-wrong", "lax rest %x, want %x; %s", tr.lax.rest, c.Rest, where)
	default:
		v.Class("C:lax-accepts-with-documented-value")
	}

	// C, negative half: one more mutation later in document order. Lax must treat the malformed input exactly
	// as it treats its strict-DER twin carrying the same mutation.
	if c.After == nil {
		return v
	}
	twinV := stripMal(&c.V)
	ctx0 := newEncCtx()
	d0, _ := ctx0.field(td, &twinV, mctx{})
	if ctx0.noExpect {
		// the twin (not the original) runs into behaviour inherited from encoding/asn1 that refuses valid DER
		v.Class("twin:inherited-quirk")
		return v
	}
	n1, r1, err1 := derx.Parse(d1)
	n0, r0, err0 := derx.Parse(d0)
	if err1 != nil || err0 != nil || len(r1) != 0 || len(r0) != 0 {
		v.Class("twin:unparsed")
		return v
	}
	l1, l0 := n1.All(), n0.All()
	if len(l1) != len(l0) {
		v.Class("twin:shape-differs")
		return v
	}
	last := lastDiffering(l1, l0)
	if last < 0 || last+1 >= len(l1) {
		v.Class("twin:no-later-node")
		return v
	}
	m := *c.After
	m.Node = last + 1 + m.Node%(len(l1)-last-1)
	in1, a1 := applyMuts(d1, []Mut{m})
	in0, _ := applyMuts(d0, []Mut{m})
	if len(a1) == 0 {
		v.Class("twin:mutation-inapplicable")
		return v
	}
	in1 = append(in1, c.Rest...)
	in0 = append(in0, c.Rest...)
	params := td.Params()
	o1 := runFork(td, in1, laxParams(params))
	var v0 harness.Verdict
	tr0 := judge(&v0, td, in0) // the strict-DER twin gets the full differential treatment as well
	v.Violations = append(v.Violations, v0.Violations...)
	o0 := &tr0.lax
	v.Class("twin:" + a1[0])
	if o1.panicked != "" {
		v.Failf("panic-lax", "fork lax panicked: %s; input=%s", o1.panicked, short(in1))
		return v
	}
	w2 := fmt.Sprintf("type=%s params=%q malformed=%s twin=%s", td.GoType(forkLib), params, short(in1), short(in0))
	switch {
	case o1.ok() != o0.ok():
		v.Failf("lax-twin-verdict-differs", "lax verdict on the malformed input (err=%v) differs from its strict-DER twin (err=%v) under the same later mutation %s; %s", o1.err, o0.err, a1[0], w2)
	case o1.ok():
		v.Class("twin:both-accept")
		if !bytes.Equal(o1.rest, o0.rest) {
			v.Failf("lax-twin-rest-differs", "rest %x vs twin %x; %s", o1.rest, o0.rest, w2)
		}
	default:
		v.Class("twin:both-reject")
	}
	return v
}

// Lax is sub-property "lax": oracle C (and A, B, E on the same inputs).
var Lax = harness.Define(harness.Opts{
	Name:     "lax",
	Rule:     "generated struct types and values whose derx encoding carries k>=1 documented lax-only malformations (non-minimal INTEGER/ENUMERATED, zero-length OID, PrintableString with ISO 8859-1 / T.61 octets) at generated depths, 30% with one further mutation later in document order (twin comparison); non-trivial = at least one malformation emitted",
	Quick:    20000,
	Thorough: 25000,
}, genLax, checkLax)
