package c10

import (
	"testing"

	"verif/internal/harness"
)

func TestProps(t *testing.T) { harness.Main(t, "C10", Diff, Lax) }
