// Package c10: the ASN.1 fork is as strict as upstream; lax mode only adds acceptances.
//
// Target Go types are generated at run time: a type descriptor TD (plain data) is realised twice with
// reflect.StructOf - once over the fork's helper types, once over encoding/asn1's - so that the same
// bytes can be fed to both decoders and the results compared through a neutral rendering.
package c10

import (
	"fmt"
	"math/big"
	"reflect"
	"strconv"
	"strings"
	"time"

	stdasn1 "encoding/asn1"

	ctasn1 "github.com/google/certificate-transparency-go/asn1"
)

// Kinds of a type descriptor.
const (
	KBool   = "bool"
	KInt    = "int"
	KInt32  = "int32"
	KInt64  = "int64"
	KBig    = "big"
	KBits   = "bits"
	KOID    = "oid"
	KEnum   = "enum"
	KFlag   = "flag"
	KStr    = "str"
	KTime   = "time"
	KBytes  = "bytes"
	KRaw    = "raw"
	KStruct = "struct"
	KSeqOf  = "seqof"
)

// TD describes one Go target type together with the asn1 field parameters it is used with.
type TD struct {
	K         string `json:"k"`
	Opt       bool   `json:"opt,omitempty"`
	Expl      bool   `json:"expl,omitempty"`
	HasTag    bool   `json:"hastag,omitempty"`
	Tag       int    `json:"tag,omitempty"`
	Cls       string `json:"cls,omitempty"` // "", "application", "private"
	HasDef    bool   `json:"hasdef,omitempty"`
	Def       int64  `json:"def,omitempty"`
	OmitEmpty bool   `json:"omitempty,omitempty"`
	Str       string `json:"str,omitempty"`  // "", utf8, printable, ia5, numeric
	Time      string `json:"time,omitempty"` // "", utc, generalized
	Set       bool   `json:"set,omitempty"`
	LaxTag    bool   `json:"laxtag,omitempty"` // field-level `lax` parameter
	RawC      bool   `json:"rawc,omitempty"`   // struct: first field is RawContent
	F         []TD   `json:"f,omitempty"`      // struct fields
	E         *TD    `json:"e,omitempty"`      // SEQUENCE OF / SET OF element

	ft, st reflect.Type // memoised realisations (not part of the data)
}

// Params renders the asn1 field parameter string of the descriptor.
func (td *TD) Params() string {
	var p []string
	if td.Opt {
		p = append(p, "optional")
	}
	if td.Expl {
		p = append(p, "explicit")
	}
	if td.Cls != "" {
		p = append(p, td.Cls)
	}
	if td.HasTag {
		p = append(p, "tag:"+strconv.Itoa(td.Tag))
	}
	if td.HasDef {
		p = append(p, "default:"+strconv.FormatInt(td.Def, 10))
	}
	if td.OmitEmpty {
		p = append(p, "omitempty")
	}
	if td.Str != "" {
		p = append(p, td.Str)
	}
	if td.Time != "" {
		p = append(p, td.Time)
	}
	if td.Set {
		p = append(p, "set")
	}
	if td.LaxTag {
		p = append(p, "lax")
	}
	return strings.Join(p, ",")
}

// lib is the set of helper types of one ASN.1 package.
type lib struct {
	name                           string
	bits, oid, raw, rawc, enum, fl reflect.Type
}

var forkLib = &lib{"fork", reflect.TypeOf(ctasn1.BitString{}), reflect.TypeOf(ctasn1.ObjectIdentifier{}), reflect.TypeOf(ctasn1.RawValue{}),
	reflect.TypeOf(ctasn1.RawContent{}), reflect.TypeOf(ctasn1.Enumerated(0)), reflect.TypeOf(ctasn1.Flag(false))}

var stdLib = &lib{"std", reflect.TypeOf(stdasn1.BitString{}), reflect.TypeOf(stdasn1.ObjectIdentifier{}), reflect.TypeOf(stdasn1.RawValue{}),
	reflect.TypeOf(stdasn1.RawContent{}), reflect.TypeOf(stdasn1.Enumerated(0)), reflect.TypeOf(stdasn1.Flag(false))}

var (
	bigIntT = reflect.TypeOf((*big.Int)(nil))
	timeT   = reflect.TypeOf(time.Time{})
	bytesT  = reflect.TypeOf([]byte(nil))
)

// GoType realises the descriptor over the helper types of l.
func (td *TD) GoType(l *lib) reflect.Type {
	if l == forkLib {
		if td.ft == nil {
			td.ft = td.goType(l)
		}
		return td.ft
	}
	if td.st == nil {
		td.st = td.goType(l)
	}
	return td.st
}

func (td *TD) goType(l *lib) reflect.Type {
	switch td.K {
	case KBool:
		return reflect.TypeOf(false)
	case KInt:
		return reflect.TypeOf(int(0))
	case KInt32:
		return reflect.TypeOf(int32(0))
	case KInt64:
		return reflect.TypeOf(int64(0))
	case KBig:
		return bigIntT
	case KBits:
		return l.bits
	case KOID:
		return l.oid
	case KEnum:
		return l.enum
	case KFlag:
		return l.fl
	case KStr:
		return reflect.TypeOf("")
	case KTime:
		return timeT
	case KBytes:
		return bytesT
	case KRaw:
		return l.raw
	case KSeqOf:
		return reflect.SliceOf(td.E.GoType(l))
	case KStruct:
		var fs []reflect.StructField
		if td.RawC {
			fs = append(fs, reflect.StructField{Name: "Raw", Type: l.rawc})
		}
		for i := range td.F {
			f := &td.F[i]
			sf := reflect.StructField{Name: "F" + strconv.Itoa(i), Type: f.GoType(l)}
			if p := f.Params(); p != "" {
				sf.Tag = reflect.StructTag(`asn1:"` + p + `"`)
			}
			fs = append(fs, sf)
		}
		return reflect.StructOf(fs)
	}
	panic("c10: unknown kind " + td.K)
}

// Depth is the struct/sequence nesting depth of the descriptor (a leaf has depth 0).
func (td *TD) Depth() int {
	d := 0
	switch td.K {
	case KStruct:
		for i := range td.F {
			if x := td.F[i].Depth(); x > d {
				d = x
			}
		}
		return d + 1
	case KSeqOf:
		return td.E.Depth() + 1
	}
	return 0
}

// walk visits every descriptor of the tree.
func (td *TD) walk(f func(*TD)) {
	f(td)
	for i := range td.F {
		td.F[i].walk(f)
	}
	if td.E != nil {
		td.E.walk(f)
	}
}

// has reports whether some descriptor of the tree satisfies p.
func (td *TD) has(p func(*TD) bool) bool {
	found := false
	td.walk(func(x *TD) {
		if p(x) {
			found = true
		}
	})
	return found
}

// render turns a decoded Go value of either package into a neutral textual tree. Named helper types
// of both packages have identical shapes (BitString{Bytes,BitLength}, RawValue{Class,Tag,IsCompound,
// Bytes,FullBytes}, ObjectIdentifier []int, ...), so the rendering is independent of the package.
// nil and empty slices are distinguished.
func render(v reflect.Value) string {
	var sb strings.Builder
	renderTo(&sb, v)
	return sb.String()
}

func renderTo(sb *strings.Builder, v reflect.Value) {
	switch v.Type() {
	case bigIntT:
		if v.IsNil() {
			sb.WriteString("big:nil")
		} else {
			sb.WriteString("big:" + v.Interface().(*big.Int).String())
		}
		return
	case timeT:
		t := v.Interface().(time.Time)
		_, off := t.Zone()
		fmt.Fprintf(sb, "time:%d.%09d%+d", t.Unix(), t.Nanosecond(), off)
		return
	}
	switch v.Kind() {
	case reflect.Bool:
		fmt.Fprintf(sb, "%t", v.Bool())
	case reflect.Int, reflect.Int8, reflect.Int16, reflect.Int32, reflect.Int64:
		fmt.Fprintf(sb, "%d", v.Int())
	case reflect.String:
		fmt.Fprintf(sb, "%q", v.String())
	case reflect.Slice:
		if v.IsNil() {
			sb.WriteString("nil")
			return
		}
		if v.Type().Elem().Kind() == reflect.Uint8 {
			fmt.Fprintf(sb, "x'%x'", v.Bytes())
			return
		}
		sb.WriteByte('[')
		for i := 0; i < v.Len(); i++ {
			if i > 0 {
				sb.WriteByte(' ')
			}
			renderTo(sb, v.Index(i))
		}
		sb.WriteByte(']')
	case reflect.Struct:
		sb.WriteByte('{')
		for i := 0; i < v.NumField(); i++ {
			if i > 0 {
				sb.WriteByte(' ')
			}
			renderTo(sb, v.Field(i))
		}
		sb.WriteByte('}')
	default:
		fmt.Fprintf(sb, "?%s", v.Kind())
	}
}
