package c13

import (
	"bytes"
	"crypto/sha256"
	"context"
	"encoding/base64"
	"errors"
	"fmt"
	"io"
	"net/http"
	"os"
	"runtime"
	"strconv"
	"strings"
	"sync"
	"testing"
	"time"

	ct "github.com/google/certificate-transparency-go"
	"github.com/google/certificate-transparency-go/client"
	"github.com/google/certificate-transparency-go/jsonclient"

	"verif/internal/vt"
)

// Attempt is one client-level try as seen by the server side (a redirect and its target are one attempt).
type Attempt struct {
	N       int           // 0-based attempt number of this caller
	Ev      int           // index of the script event that answered
	Start   time.Duration // virtual instant (since case start) the first hop arrived
	End     time.Duration // virtual instant the answer (or the abort) left the round tripper
	Aborted bool          // the caller's context ended before the answer was served
	Timeout bool          // the http.Client's own Timeout cut the request while the caller's context was alive
	Method  string        // method of the answering hop ("" when it never arrived)
	Hops    int
	Status  int    // status served (0 for a network error / abort)
	Body    string // body served
	Marker  uint64 // timestamp inside a good body
	// NotBefore is the earliest instant the statement allows the next attempt (End when no demand).
	NotBefore time.Duration
	Demand    bool // the answer carried a parsable, non-negative Retry-After the client must honour
}

// CallRec is what one caller observed.
type CallRec struct {
	Started   bool
	CallStart time.Duration
	Return    time.Duration
	Returned  bool
	ErrKind   string // "nil" | "canceled" | "deadline" | "rsperror" | "other"
	ErrText   string
	IsCtxErr  bool   // the returned error is identical (==) to the caller context's Err()
	IsCause   bool   // the returned error is context.Cause(ctx) and not ctx.Err()
	Status    int    // RspError.StatusCode, or the http.Response status on success (ppr)
	Body      string // RspError.Body, or the returned body on success (ppr)
	Marker    uint64 // timestamp of the returned, parsed answer
	HasRsp    bool   // ppr: a non-nil *http.Response came back
	// bodyRef is the very slice the call handed back (RspError.Body or the success body). It is only
	// read - into Body - at the end of the case, after every caller has finished and after one more
	// submission through another client: what a caller holds must not change behind its back.
	bodyRef []byte
}

type Outcome struct {
	TimedOut bool
	Attempts [][]Attempt // per caller
	Calls    []CallRec
	CapHit   bool
	Stray    []string // requests the round tripper could not attribute
}

const attemptCap = 600

var procsAtStart = runtime.GOMAXPROCS(0)

type callerKey struct{}

type nopLogger struct{}

func (nopLogger) Printf(string, ...interface{}) {}

// slowLogger is a log sink that takes d of (virtual) time per message.
type slowLogger struct{ d time.Duration }

func (l slowLogger) Printf(string, ...interface{}) { time.Sleep(l.d) }

// norm replaces a long body by its length and digest (traces and replays stay small).
func norm(s string) string {
	if len(s) <= 8192 {
		return s
	}
	return fmt.Sprintf("<%d bytes, sha256 %x>", len(s), sha256.Sum256([]byte(s)))
}

const wsPad = " \r\n\t"

// okBody renders the good 200 body of an event: valid JSON for ct.AddChainResponse carrying marker.
func okBody(e Event, marker uint64) string {
	id := base64.StdEncoding.EncodeToString(bytes.Repeat([]byte{0x5a}, 32))
	sig := base64.StdEncoding.EncodeToString([]byte(goodSig))
	mk := func(inner, ext string) string {
		return fmt.Sprintf(`{%s"sct_version":0,"id":"%s","timestamp":%d,"extensions":"%s","signature":"%s"}`, inner, id, marker, ext, sig)
	}
	pre, post := "", ""
	switch e.BodyForm {
	case 1:
		pre = wsPad
	case 2:
		post = "\n"
	case 3:
		pre, post = "\n\n ", " \r\n"
	}
	body := pre + mk("", "") + post
	if e.BodySize > len(body) {
		need := e.BodySize - len(body)
		if e.BodyForm == 4 { // long extensions: base64 text, length a multiple of 4; the rest is white space
			body = mk(strings.Repeat(" ", need%4), strings.Repeat("QUJD", need/4))
		} else {
			body = pre + mk(strings.Repeat(" ", need), "") + post
		}
	}
	return body
}

// badPrefixed renders the unparsable-200 classes that are valid JSON spoilt by a prefix or suffix
// (encoding/json, which decides what "parses" here, accepts none of them).
func badPrefixed(class int, marker uint64) string {
	good := goodBody(marker)
	switch class {
	case -2:
		return "\xef\xbb\xbf" + good // UTF-8 byte order mark
	case -3:
		return "\x00" + good
	case -4:
		return ")]}'\n" + good // anti-hijacking prefix
	case -5: // UTF-16LE with BOM
		b := []byte{0xff, 0xfe}
		for i := 0; i < len(good); i++ {
			b = append(b, good[i], 0)
		}
		return string(b)
	case -6:
		return "\xfe\xff" + good
	default:
		return good + "\x00"
	}
}

type scriptedRT struct {
	mu    sync.Mutex
	start time.Time
	c     Case
	out   *Outcome
	open  []int // per caller: index into out.Attempts[i] of the attempt whose redirect is in flight, or -1
	cctx  []context.Context // per caller: the context the caller passed to the API
	// barrier bookkeeping: arrived[n] counts the callers whose attempt number n waits at a barrier
	arrived map[int]int
	release map[int]chan struct{}
}

// barrier blocks until every caller's attempt number n has arrived (or ctx ends).
func (rt *scriptedRT) barrier(ctx context.Context, n int) bool {
	rt.mu.Lock()
	ch := rt.release[n]
	if ch == nil {
		ch = make(chan struct{})
		rt.release[n] = ch
	}
	rt.arrived[n]++
	want := 0 // the callers whose script says they make an attempt number n at a barrier
	for _, cc := range rt.c.Callers {
		if n < len(cc.Script) && cc.Script[n].Barrier {
			want++
		}
	}
	if rt.arrived[n] == want {
		close(ch)
	}
	rt.mu.Unlock()
	select {
	case <-ch:
		return true
	case <-ctx.Done():
		return false
	}
}

// scrubRT answers every request 404 with a long filler body.
type scrubRT struct{}

func (scrubRT) RoundTrip(req *http.Request) (*http.Response, error) {
	if req.Body != nil {
		io.Copy(io.Discard, req.Body)
		req.Body.Close()
	}
	return mkResponse(req, 404, nil, strings.Repeat("SCRUB-", 700)), nil
}

// stallErr mimics what http.Client.Timeout produces: a timeout error that Is context.DeadlineExceeded.
type stallErr struct{}

func (stallErr) Error() string   { return "scripted stall (Client.Timeout exceeded while awaiting headers)" }
func (stallErr) Timeout() bool   { return true }
func (stallErr) Temporary() bool { return true }
func (stallErr) Is(t error) bool { return t == context.DeadlineExceeded }

func scriptedNetErr(kind int) error {
	switch kind {
	case 1:
		return stallErr{}
	case 2:
		return fmt.Errorf("scripted transport failure: %w", context.Canceled)
	case 3:
		return context.DeadlineExceeded
	case 4:
		return context.Canceled
	}
	return errScripted
}

type brokenReader struct{}

func (brokenReader) Read([]byte) (int, error) { return 0, io.ErrUnexpectedEOF }

var errForeignCause = errors.New("caller-supplied cancellation cause")

var errScripted = errors.New("scripted network error: connection reset by peer")

const goodSig = "\x04\x03\x00\x02\x01\x02" // DigitallySigned{sha256, ecdsa, 2 bytes}

func goodBody(marker uint64) string {
	return fmt.Sprintf(`{"sct_version":0,"id":"%s","timestamp":%d,"extensions":"","signature":"%s"}`,
		base64.StdEncoding.EncodeToString(bytes.Repeat([]byte{0x5a}, 32)), marker, base64.StdEncoding.EncodeToString([]byte(goodSig)))
}

func (rt *scriptedRT) since() time.Duration { return time.Since(rt.start) }

func mkResponse(req *http.Request, status int, hdr http.Header, body string) *http.Response {
	if hdr == nil {
		hdr = http.Header{}
	}
	return &http.Response{
		Status: fmt.Sprintf("%d %s", status, http.StatusText(status)), StatusCode: status,
		Proto: "HTTP/1.1", ProtoMajor: 1, ProtoMinor: 1,
		Header: hdr, Body: io.NopCloser(strings.NewReader(body)), ContentLength: int64(len(body)), Request: req,
	}
}

// RoundTrip serves the script. Every decision is a function of (caller, attempt number) only; the
// virtual clock is read for time stamps and to render "now + d" HTTP dates, never to decide.
func (rt *scriptedRT) RoundTrip(req *http.Request) (*http.Response, error) {
	ctx := req.Context()
	if req.Body != nil {
		io.Copy(io.Discard, req.Body)
		req.Body.Close()
	}
	ci, ok := ctx.Value(callerKey{}).(int)
	if !ok {
		rt.mu.Lock()
		rt.out.Stray = append(rt.out.Stray, req.Method+" "+req.URL.String())
		rt.mu.Unlock()
		return nil, errors.New("stray request")
	}
	script := rt.c.Callers[ci].Script
	isTarget := strings.HasPrefix(req.URL.Path, "/redir/")

	rt.mu.Lock()
	var ai int
	if isTarget && rt.open[ci] >= 0 {
		ai = rt.open[ci]
		rt.open[ci] = -1
	} else {
		if isTarget {
			rt.out.Stray = append(rt.out.Stray, "redirect target without redirect: "+req.URL.String())
		}
		ai = len(rt.out.Attempts[ci])
		ev := ai
		if ev >= len(script) {
			ev = len(script) - 1
		}
		rt.out.Attempts[ci] = append(rt.out.Attempts[ci], Attempt{N: ai, Ev: ev, Start: rt.since()})
		isTarget = false
	}
	a := rt.out.Attempts[ci][ai]
	a.Hops++
	capped := ai >= attemptCap
	if capped {
		rt.out.CapHit = true
	}
	rt.out.Attempts[ci][ai] = a
	rt.mu.Unlock()

	e := script[a.Ev]
	finish := func(f func(a *Attempt)) {
		rt.mu.Lock()
		p := &rt.out.Attempts[ci][ai]
		p.End = rt.since()
		p.NotBefore = p.End
		f(p)
		rt.mu.Unlock()
	}
	abort := func() (*http.Response, error) {
		callerDone := rt.cctx[ci] == nil || rt.cctx[ci].Err() != nil
		finish(func(a *Attempt) {
			if callerDone {
				a.Aborted = true
			} else {
				a.Timeout, a.Method = true, req.Method
			}
		})
		return nil, ctx.Err()
	}
	if ctx.Err() != nil {
		return abort()
	}
	if capped { // runaway guard: park until the caller's context (derived from the bubble's) ends
		<-ctx.Done()
		return abort()
	}
	if e.Redirect != 0 && !isTarget {
		rt.mu.Lock()
		rt.open[ci] = ai
		rt.mu.Unlock()
		h := http.Header{}
		h.Set("Location", fmt.Sprintf("/redir/%d/%d", ci, ai))
		finish(func(a *Attempt) {})
		return mkResponse(req, e.Redirect, h, ""), nil
	}
	if e.Barrier && !rt.barrier(ctx, ai) {
		return abort()
	}
	if !vt.Sleep(ctx, time.Duration(e.LatMs)*time.Millisecond) {
		return abort()
	}
	marker := uint64(ci+1)*1000000 + uint64(ai)
	switch e.Kind {
	case "neterr":
		finish(func(a *Attempt) { a.Method = req.Method })
		return nil, scriptedNetErr(e.NetErr)
	case "ok":
		body := okBody(e, marker)
		finish(func(a *Attempt) { a.Method, a.Status, a.Body, a.Marker = req.Method, 200, norm(body), marker })
		return mkResponse(req, 200, nil, body), nil
	case "bad":
		if e.BadBody == -1 { // the body transfer fails after a few bytes: a transport error on a 200
			body := goodBody(marker)[:20]
			finish(func(a *Attempt) { a.Method, a.Status, a.Body = req.Method, 200, body })
			rsp := mkResponse(req, 200, nil, "")
			rsp.Body, rsp.ContentLength = io.NopCloser(io.MultiReader(strings.NewReader(body), brokenReader{})), -1
			return rsp, nil
		}
		var body string
		if e.BadBody < -1 {
			body = badPrefixed(e.BadBody, marker)
		} else {
			body = badBodies[e.BadBody]
		}
		finish(func(a *Attempt) { a.Method, a.Status, a.Body = req.Method, 200, body })
		return mkResponse(req, 200, nil, body), nil
	}
	body := fmt.Sprintf("status %d for caller %d attempt %d", e.Status, ci, ai)
	if e.BodySize > len(body) {
		body += " " + strings.Repeat("x", e.BodySize-len(body)-2) + "."
	}
	h := http.Header{}
	now := time.Now()
	var notBefore time.Time
	switch e.RA.Form {
	case "sec":
		h.Set("Retry-After", strings.Repeat("0", e.RA.Pad)+fmt.Sprint(e.RA.Sec))
		notBefore = now.Add(time.Duration(e.RA.Sec) * time.Second)
	case "neg":
		h.Set("Retry-After", fmt.Sprint(-e.RA.Sec))
	case "date", "pastdate":
		d := time.Duration(e.RA.Sec) * time.Second
		if e.RA.Form == "pastdate" {
			d = -d
		}
		at := now.Add(d).UTC().Truncate(time.Second)
		h.Set("Retry-After", at.Format(http.TimeFormat))
		switch e.RA.Date {
		case "now":
			h.Set("Date", now.UTC().Format(http.TimeFormat))
		case "ahead":
			h.Set("Date", now.Add(time.Duration(e.RA.Skew)*time.Second).UTC().Format(http.TimeFormat))
		case "behind":
			h.Set("Date", now.Add(-time.Duration(e.RA.Skew)*time.Second).UTC().Format(http.TimeFormat))
		case "garbage":
			h.Set("Date", "yesterday, around noon")
		}
		if e.RA.Form == "date" {
			notBefore = at
		}
	case "garbage":
		h.Set("Retry-After", e.RA.Text)
	}
	finish(func(a *Attempt) {
		a.Method, a.Status, a.Body = req.Method, e.Status, norm(body)
		if (e.Status == 429 || e.Status == 503) && !notBefore.IsZero() && !notBefore.Before(now) {
			a.Demand = true
			a.NotBefore = notBefore.Sub(rt.start)
		}
	})
	return mkResponse(req, e.Status, h, body), nil
}

func classifyErr(err error) string {
	var re jsonclient.RspError
	switch {
	case err == nil:
		return "nil"
	case errors.Is(err, context.Canceled):
		return "canceled"
	case errors.Is(err, context.DeadlineExceeded):
		return "deadline"
	case errors.As(err, &re):
		return "rsperror"
	}
	return "other"
}

// run executes the case inside a synctest bubble and returns the recorded trace.
func run(t *testing.T, c Case, outp *Outcome) {
	want := procsAtStart
	if c.Procs > 0 {
		want = c.Procs
	}
	if v, err := strconv.Atoi(os.Getenv("C13_PROCS")); err == nil && v > 0 { // diagnosis only
		want = v
	}
	if runtime.GOMAXPROCS(0) != want {
		runtime.GOMAXPROCS(want)
	}
	*outp = Outcome{Attempts: make([][]Attempt, len(c.Callers)), Calls: make([]CallRec, len(c.Callers))}
	out := outp
	res := vt.Run(t, 48*time.Hour, func(bctx context.Context) {
		rt := &scriptedRT{start: time.Now(), c: c, out: out, open: make([]int, len(c.Callers)), cctx: make([]context.Context, len(c.Callers)),
			arrived: map[int]int{}, release: map[int]chan struct{}{}}
		for i := range rt.open {
			rt.open[i] = -1
		}
		var logger jsonclient.Logger = nopLogger{}
		if c.LogDelayMs > 0 {
			logger = slowLogger{time.Duration(c.LogDelayMs) * time.Millisecond}
		}
		lc, err := client.New("http://log.test/prefix", &http.Client{Transport: rt, Timeout: time.Duration(c.ClientTimeoutMs) * time.Millisecond}, jsonclient.Options{Logger: logger})
		if err != nil {
			panic(err)
		}
		var wg sync.WaitGroup
		for i := range c.Callers {
			wg.Add(1)
			go func(i int) {
				defer wg.Done()
				cc := c.Callers[i]
				if !vt.Sleep(bctx, time.Duration(cc.StartMs)*time.Millisecond) {
					return
				}
				ctx := context.WithValue(bctx, callerKey{}, i)
				cancel := func() {}
				end := time.Duration(cc.EndMs) * time.Millisecond
				switch cc.Ctx {
				case "deadline":
					switch cc.Cause {
					case 0:
						ctx, cancel = context.WithDeadline(ctx, time.Now().Add(end))
					case 1:
						ctx, cancel = context.WithDeadlineCause(ctx, time.Now().Add(end), errForeignCause)
					default:
						ctx, cancel = context.WithTimeoutCause(ctx, end, fmt.Errorf("budget spent: %w", context.DeadlineExceeded))
					}
				case "cancel":
					stop := func() {}
					switch cc.Cause {
					case 0:
						ctx, stop = context.WithCancel(ctx)
					case 1:
						var cc2 context.CancelCauseFunc
						ctx, cc2 = context.WithCancelCause(ctx)
						stop = func() { cc2(errForeignCause) }
					default:
						var cc2 context.CancelCauseFunc
						ctx, cc2 = context.WithCancelCause(ctx)
						stop = func() { cc2(fmt.Errorf("operator gave up: %w", context.Canceled)) }
					}
					cancel = stop
					if cc.EndMs < 0 {
						stop()
					} else {
						tm := time.AfterFunc(end, stop)
						defer tm.Stop()
					}
				}
				defer cancel()
				rt.mu.Lock()
				rt.cctx[i] = ctx
				rt.mu.Unlock()
				var rec CallRec
				rec.Started, rec.CallStart = true, rt.since()
				var cerr error
				switch cc.API {
				case "ppr":
					var parsed ct.AddChainResponse
					req := ct.AddChainRequest{Chain: [][]byte{{byte(i)}}}
					rsp, body, err := lc.PostAndParseWithRetry(ctx, ct.AddChainPath, &req, &parsed)
					cerr = err
					if rsp != nil {
						rec.HasRsp, rec.Status = true, rsp.StatusCode
					}
					if err == nil {
						rec.bodyRef, rec.Marker = body, parsed.Timestamp
					}
				case "addchain", "addprechain":
					f := lc.AddChain
					if cc.API == "addprechain" {
						f = lc.AddPreChain
					}
					sct, err := f(ctx, []ct.ASN1Cert{{Data: []byte{byte(i)}}})
					cerr = err
					if sct != nil {
						rec.HasRsp, rec.Marker = true, sct.Timestamp
					}
				}
				rec.Return, rec.Returned = rt.since(), true
				rec.ErrKind = classifyErr(cerr)
				if cerr != nil && ctx.Err() != nil {
					rec.IsCtxErr = cerr == ctx.Err()
					rec.IsCause = !rec.IsCtxErr && cerr == context.Cause(ctx)
				}
				if cerr != nil {
					rec.ErrText = cerr.Error()
					var re jsonclient.RspError
					if errors.As(cerr, &re) {
						rec.Status, rec.bodyRef = re.StatusCode, re.Body
					}
				}
				rt.mu.Lock()
				out.Calls[i] = rec
				rt.mu.Unlock()
			}(i)
		}
		wg.Wait()
		// One more submission, through a second client, with a long distinct body; then look at what the
		// callers were given.
		if bctx.Err() == nil {
			if lc2, err := client.New("http://other.test/", &http.Client{Transport: scrubRT{}}, jsonclient.Options{Logger: nopLogger{}}); err == nil {
				for k := 0; k < 2; k++ {
					var x ct.AddChainResponse
					lc2.PostAndParse(bctx, ct.AddChainPath, &ct.AddChainRequest{}, &x)
				}
			}
		}
		for i := range out.Calls {
			if out.Calls[i].bodyRef != nil {
				out.Calls[i].Body = norm(string(out.Calls[i].bodyRef))
			}
		}
	})
	out.TimedOut = res.TimedOut
}
