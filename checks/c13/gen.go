// Package c13: submission retries follow the server's pacing and stop when they should.
//
// A Case is a set of 1-3 callers sharing one client; every caller owns a response script (served by a
// scripted http.RoundTripper that takes every decision from the script position), an API and a context
// plan. The case runs under testing/synctest virtual time (internal/vt); the recorded trace of attempt
// instants is judged afterwards against bounds derived from the property statement only.
package c13

import (
	"pgregory.net/rapid"

	"verif/internal/harness"
)

// RA is the Retry-After header of one answer.
type RA struct {
	Form string // "" absent | "sec" | "date" (IMF-fixdate now+Sec) | "neg" (-Sec) | "pastdate" (now-Sec) | "garbage"
	Sec  int
	// Date header of the same reply (only drawn with the date forms): "" absent | "now" the client's clock |
	// "ahead" / "behind" by Skew seconds | "garbage". The demanded instant is the Retry-After date on the
	// caller's clock whatever the reply's Date says.
	Date string
	Skew int
	Pad  int    // Form "sec": number of leading zeros in the spelling ("010" is 10: delay-seconds = 1*DIGIT, decimal)
	Text string // garbage text
}

// Event is one scripted answer. With Redirect != 0 the first hop answers with that redirect status
// and the event's answer is served at the redirect target (whatever method arrives there).
type Event struct {
	Kind     string // "ok" (200, good body) | "bad" (200, unparsable body) | "status" | "neterr"
	Status   int    // Kind == "status"
	RA       RA
	BadBody  int // index into badBodies; -1 = good-looking body whose transfer breaks half way (read error); -2..-7 = valid JSON made unparsable by a prefix / suffix (see badPrefixed)
	BodyForm int // Kind "ok": 0 compact | 1 leading white space | 2 trailing white space | 3 both | 4 size padding goes into a long "extensions" string instead of white space
	BodySize int // Kind "ok" / "status": when > 0 the body is padded to exactly this many bytes (around and above 1 MiB)
	LatMs    int // service latency of the answering hop
	NetErr   int // Kind == "neterr": 0 plain | 1 timeout-like error with Is(context.DeadlineExceeded) | 2 wraps context.Canceled | 3 bare context.DeadlineExceeded | 4 bare context.Canceled - all while the caller's context is alive
	Barrier  bool // the answer is held until every caller of the case has its attempt of the same number pending, so that all of them are answered at the same virtual instant
	Redirect int // 0 | 301 302 303 (POST becomes GET) | 307 308 (POST preserved)
}

// Caller is one submission.
type Caller struct {
	API     string // "ppr" jsonclient.PostAndParseWithRetry | "addchain" | "addprechain"
	StartMs int    // call instant after the start of the case
	Script  []Event
	Ctx     string // "none" | "deadline" | "cancel"
	Cause   int    // how the context is made: 0 WithDeadline / WithCancel | 1 With...Cause with a foreign error as cause | 2 cause wraps the context error itself
	EndMs   int    // context end, relative to the call instant; -1 = cancelled before the call (Ctx=="cancel")
}

type Case struct {
	Callers []Caller
	// LogDelayMs > 0: the client's Logger (jsonclient.Options.Logger) takes that long (virtual time) per
	// Printf - a slow or contended log sink. The oracle adds it to the upper bounds only.
	LogDelayMs int
	// ClientTimeoutMs > 0 builds the http.Client with that Timeout: an answer slower than it is cut by the
	// client itself - a transport error while the caller's context is alive.
	ClientTimeoutMs int
	// Procs > 0 runs the case with that GOMAXPROCS (real parallelism between callers answered at one instant).
	Procs int
}

var badBodies = []string{"", "{", "not json at all", "<html><body>503</body></html>", `{"sct_version":0,"timestamp":"x"}`,
	`{"sct_version":0,"timestamp":1} trailing`, `[1,2,3]`, `{"sct_version":0,"id":"!!!not-base64!!!"}`, "\x00\x01\x02", `"just a string"`}

// Values that neither strconv.Atoi-style delay-seconds nor an HTTP-date can be read from.
var garbageRA = []string{"soon", "12.5", "1e3", "0x10", "Mon, 99 Foo 2000 25:61:61 GMT", "99999999999999999999", "1 2", "--5", "120s", "never", "½", "1_0", "0b11", "0o17", "+5", "1e1"}

var retryStatuses = []int{408, 429, 503}
var stopStatusesCore = []int{400, 403, 404, 500, 501}
var stopStatusesWide = []int{201, 204, 300, 301, 302, 307, 304, 401, 405, 409, 410, 413, 418, 502, 504, 505, 599}
var secAnchors = []int{0, 1, 2, 3, 5, 30, 64, 120, 127, 128, 129, 130, 200, 256, 300, 599, 600}

func pick[T any](t *rapid.T, xs []T, label string) T {
	return xs[rapid.IntRange(0, len(xs)-1).Draw(t, label)]
}

func genLatency(t *rapid.T) int {
	switch rapid.IntRange(0, 9).Draw(t, "latclass") {
	case 0, 1, 2, 3:
		return 0
	case 4, 5:
		return rapid.IntRange(1, 50).Draw(t, "lat")
	case 6, 7, 8:
		return rapid.IntRange(51, 5000).Draw(t, "lat")
	default:
		return rapid.IntRange(5001, 90000).Draw(t, "lat")
	}
}

func genRA(t *rapid.T) RA {
	switch rapid.IntRange(0, 12).Draw(t, "raform") {
	case 0, 1, 2:
		return RA{}
	case 3, 4, 5, 6:
		pad := 0
		if rapid.IntRange(0, 2).Draw(t, "padded") == 0 {
			pad = rapid.IntRange(1, 3).Draw(t, "pad")
		}
		if rapid.Bool().Draw(t, "anchor") {
			return RA{Form: "sec", Sec: pick(t, secAnchors, "sec"), Pad: pad}
		}
		return RA{Form: "sec", Sec: rapid.IntRange(0, 600).Draw(t, "sec"), Pad: pad}
	case 7, 8, 9:
		r := RA{Form: "date", Sec: rapid.IntRange(0, 600).Draw(t, "sec")}
		if rapid.Bool().Draw(t, "anchor") {
			r.Sec = pick(t, secAnchors, "sec")
		}
		r.Date = pick(t, []string{"", "", "now", "ahead", "ahead", "behind", "garbage"}, "datehdr")
		if r.Date == "ahead" || r.Date == "behind" {
			r.Skew = pick(t, []int{1, 2, 5, 30, 60, 300, 3600, 86400}, "skew")
		}
		return r
	case 10:
		return RA{Form: "neg", Sec: rapid.IntRange(1, 600).Draw(t, "sec")}
	case 11:
		return RA{Form: "pastdate", Sec: rapid.IntRange(1, 100000).Draw(t, "sec")}
	default:
		return RA{Form: "garbage", Text: pick(t, garbageRA, "garbage")}
	}
}

// genRetryable draws an answer the statement says must be retried.
func genRetryable(t *rapid.T) Event {
	e := Event{LatMs: genLatency(t)}
	switch rapid.IntRange(0, 9).Draw(t, "rkind") {
	case 0:
		e.Kind = "neterr"
		if rapid.Bool().Draw(t, "ctxlike") {
			e.NetErr = rapid.IntRange(1, 4).Draw(t, "neterr")
		}
	case 1, 2:
		e.Kind, e.BadBody = "bad", rapid.IntRange(-7, len(badBodies)-1).Draw(t, "badbody")
	case 3, 4:
		e.Kind, e.Status = "status", 408
	case 5, 6, 7:
		e.Kind, e.Status, e.RA = "status", 503, genRA(t)
	default:
		e.Kind, e.Status, e.RA = "status", 429, genRA(t)
	}
	return e
}

// genStop draws an answer that must end the submission.
func genStop(t *rapid.T) Event {
	e := Event{LatMs: genLatency(t)}
	switch rapid.IntRange(0, 5).Draw(t, "skind") {
	case 0, 1, 2:
		e.Kind = "ok"
		if rapid.IntRange(0, 3).Draw(t, "wsform") == 0 {
			e.BodyForm = rapid.IntRange(1, 3).Draw(t, "bodyform")
		}
	case 3, 4:
		e.Kind, e.Status = "status", pick(t, stopStatusesCore, "stop")
	default:
		e.Kind, e.Status = "status", pick(t, stopStatusesWide, "stop")
	}
	if b := rapid.IntRange(0, 99).Draw(t, "bigbody"); b == 41 || b == 73 { // rare: a body around or above 1 MiB
		e.BodySize = pick(t, []int{1<<20 - 1, 1 << 20, 1<<20 + 1, 1<<20 + 4096, 2 << 20, 3<<20 + 17}, "size") + 4*rapid.IntRange(0, 3).Draw(t, "sized")
		if e.Kind == "ok" && rapid.Bool().Draw(t, "inext") {
			e.BodyForm = 4
		}
	}
	if e.Kind == "status" && rapid.IntRange(0, 3).Draw(t, "noiseRA") == 0 {
		e.RA = genRA(t) // noise: a Retry-After on an answer that is not retried
	}
	return e
}

func converting(code int) bool { return code == 301 || code == 302 || code == 303 }

// minWaitMs is the least wait the statement allows after a retryable answer (0 when it imposes none).
func minWaitMs(e Event) int {
	if converting(e.Redirect) {
		return 0
	}
	if e.Kind == "status" && (e.Status == 429 || e.Status == 503) {
		switch e.RA.Form {
		case "sec":
			return e.RA.Sec * 1000
		case "date":
			if e.RA.Sec > 0 {
				return (e.RA.Sec - 1) * 1000
			}
		}
	}
	return 0
}

// exponential: a retryable answer that carries no readable Retry-After (and is not a 408).
func exponential(e Event) bool {
	if converting(e.Redirect) || e.Kind == "neterr" || e.Kind == "bad" {
		return true
	}
	return e.Kind == "status" && (e.Status == 429 || e.Status == 503) && (e.RA.Form == "" || e.RA.Form == "garbage")
}

func stops(e Event) bool {
	if converting(e.Redirect) {
		return false
	}
	return e.Kind == "ok" || (e.Kind == "status" && e.Status != 408 && e.Status != 429 && e.Status != 503)
}

func genCaller(t *rapid.T) Caller {
	var c Caller
	switch rapid.IntRange(0, 19).Draw(t, "api") {
	case 0, 1, 2, 3, 4, 5, 6, 7, 8, 9:
		c.API = "ppr"
	case 10, 11, 12, 13, 14, 15, 16:
		c.API = "addchain"
	default:
		c.API = "addprechain"
	}
	switch rapid.IntRange(0, 5).Draw(t, "startclass") {
	case 0, 1, 2:
		c.StartMs = 0
	case 3, 4:
		c.StartMs = rapid.IntRange(1, 5000).Draw(t, "start")
	default:
		c.StartMs = rapid.IntRange(5001, 300000).Draw(t, "start")
	}
	switch rapid.IntRange(0, 19).Draw(t, "ctx") {
	case 0, 1, 2, 3, 4:
		c.Ctx = "none"
	case 5, 6, 7, 8, 9, 10, 11, 12:
		c.Ctx = "deadline"
	default:
		c.Ctx = "cancel"
	}
	if c.Ctx != "none" && rapid.IntRange(0, 2).Draw(t, "causekind") == 0 {
		c.Cause = rapid.IntRange(1, 2).Draw(t, "cause")
	}
	// prefix of answers that must be retried, then one final answer that repeats for ever
	maxPrefix := 6
	if rapid.IntRange(0, 9).Draw(t, "long") == 0 {
		maxPrefix = 14
	}
	n := rapid.IntRange(0, maxPrefix).Draw(t, "prefix")
	for i := 0; i < n; i++ {
		e := genRetryable(t)
		switch rapid.IntRange(0, 11).Draw(t, "redir") {
		case 0:
			// the POST becomes a GET: whatever the target answers (even a good 200) is not a success
			e.Redirect = pick(t, []int{301, 302, 303}, "code")
			if rapid.Bool().Draw(t, "target-ok") {
				e = Event{Kind: "ok", LatMs: e.LatMs, Redirect: e.Redirect}
			}
			e.RA = RA{} // the statement is silent on a Retry-After sent to a converted request
		case 1:
			e.Redirect = pick(t, []int{307, 308}, "code")
		}
		c.Script = append(c.Script, e)
	}
	var last Event
	switch k := rapid.IntRange(0, 9).Draw(t, "final"); {
	case c.Ctx == "none" || k < 5:
		last = genStop(t)
		if rapid.IntRange(0, 7).Draw(t, "redir") == 0 {
			last.Redirect = pick(t, []int{307, 308}, "code")
		}
	case k < 9:
		last = genRetryable(t)
		if rapid.IntRange(0, 7).Draw(t, "redir") == 0 {
			last.Redirect = pick(t, []int{307, 308}, "code")
		}
	default:
		last = Event{Kind: "ok", LatMs: genLatency(t), Redirect: pick(t, []int{301, 302, 303}, "code")}
		if rapid.Bool().Draw(t, "target-status") {
			last.Kind, last.Status = "status", pick(t, []int{400, 404, 500, 503, 408}, "tstatus")
		}
	}
	c.Script = append(c.Script, last)

	if c.Ctx != "none" {
		first := c.Script[0]
		switch rapid.IntRange(0, 11).Draw(t, "endclass") {
		case 0:
			c.EndMs = 0
			if c.Ctx == "cancel" && rapid.Bool().Draw(t, "pre") {
				c.EndMs = -1
			}
		case 1:
			c.EndMs = first.LatMs // the very instant the first answer arrives (a tie)
		case 2:
			c.EndMs = rapid.IntRange(0, first.LatMs).Draw(t, "end") // during the first request
		case 3, 4:
			c.EndMs = rapid.IntRange(1, 1500).Draw(t, "end")
		case 5, 6:
			c.EndMs = rapid.IntRange(1501, 30000).Draw(t, "end")
		case 7, 8, 9:
			c.EndMs = rapid.IntRange(30001, 800000).Draw(t, "end")
		default:
			c.EndMs = rapid.IntRange(800001, 4000000).Draw(t, "end")
		}
		// Keep the number of attempts of the endlessly repeating final answer bounded. An answer without
		// a usable Retry-After is backed off exponentially (about 8 + T/128 s attempts - the attempt cap
		// of the round tripper guards that expectation); 408 and answers with a Retry-After are retried
		// as fast as latency + demanded wait allow: at most 80 such cycles fit before the context ends.
		if l := &c.Script[len(c.Script)-1]; !stops(*l) && !exponential(*l) {
			cycle := l.LatMs + minWaitMs(*l)
			if cycle < 400 {
				l.LatMs += 400 - cycle
				cycle = 400
			}
			if limit := 80 * cycle; c.EndMs > limit {
				c.EndMs = limit
			}
		}
	}
	return c
}

func gen(t *rapid.T) Case {
	var c Case
	n := 1
	switch rapid.IntRange(0, 9).Draw(t, "callers") {
	case 5, 6, 7:
		n = 2
	case 8, 9:
		n = 3
	}
	for i := 0; i < n; i++ {
		c.Callers = append(c.Callers, genCaller(t))
	}
	if rapid.IntRange(0, 3).Draw(t, "clienttimeout") == 0 {
		c.ClientTimeoutMs = pick(t, []int{1, 10, 100, 1000, 3000, 10000, 60000}, "timeout") + rapid.IntRange(0, 50).Draw(t, "timeoutd")
		for i := range c.Callers {
			cc := &c.Callers[i]
			for k := range cc.Script {
				if cc.Script[k].LatMs == c.ClientTimeoutMs { // no tie between the answer and the client's timer
					cc.Script[k].LatMs++
				}
			}
			// without a context end the final answer must get through
			if l := &cc.Script[len(cc.Script)-1]; cc.Ctx == "none" && l.LatMs >= c.ClientTimeoutMs {
				l.LatMs = c.ClientTimeoutMs - 1
			}
		}
	}
	return c
}

// genShared draws the concurrency-focused shape: 2-4 callers without context end whose attempts of the same
// number are all answered at the same virtual instant (barrier) with very different Retry-After demands,
// executed with real parallelism. The lower bound must hold per caller against the answer that caller got.
func genShared(t *rapid.T) Case {
	c := Case{Procs: 4}
	if rapid.IntRange(0, 3).Draw(t, "slowlog") != 0 {
		c.LogDelayMs = rapid.IntRange(1, 20).Draw(t, "logdelay")
	}
	n := rapid.IntRange(2, 4).Draw(t, "callers")
	rounds := rapid.IntRange(1, 6).Draw(t, "rounds")
	lastBarrier := rapid.IntRange(0, 3).Draw(t, "lastbarrier") != 0
	for i := 0; i < n; i++ {
		cc := Caller{API: pick(t, []string{"ppr", "addchain", "addprechain"}, "api"), Ctx: "none"}
		// some callers succeed earlier than the others: their 200 is answered at the very instant (or a
		// few ms after) the others get their retryable answers of the same round
		mine := rounds
		if rapid.IntRange(0, 2).Draw(t, "shorter") == 0 {
			mine = rapid.IntRange(0, rounds).Draw(t, "mine")
		}
		for r := 0; r < mine; r++ {
			e := Event{Kind: "status", Status: pick(t, []int{503, 429}, "status"), Barrier: true}
			switch rapid.IntRange(0, 9).Draw(t, "shape") {
			case 0, 1, 2, 3: // a long demand
				e.RA = RA{Form: pick(t, []string{"sec", "date"}, "form"), Sec: rapid.IntRange(30, 600).Draw(t, "long")}
				if e.RA.Form == "sec" {
					e.RA.Pad = rapid.IntRange(0, 2).Draw(t, "pad")
				}
			case 4, 5, 6: // a short one
				e.RA = RA{Form: "sec", Sec: rapid.IntRange(0, 3).Draw(t, "short")}
			case 7:
				e.RA = RA{}
			case 8:
				e = Event{Kind: "neterr", Barrier: true}
			default:
				e = Event{Kind: "status", Status: 408, Barrier: true}
			}
			cc.Script = append(cc.Script, e)
		}
		cc.Script = append(cc.Script, Event{Kind: "ok", Barrier: lastBarrier, LatMs: rapid.IntRange(0, 25).Draw(t, "oklat")})
		c.Callers = append(c.Callers, cc)
	}
	return c
}

var Shared = harness.Define(harness.Opts{
	Name: "shared",
	Rule: "2-4 callers sharing one client, no context end, 1-6 rounds in which all callers still submitting are answered at the same virtual instant (barrier in the round tripper) with very different Retry-After demands (30..600 s seconds/date vs 0..3 s, absent, network error, 408), then a good 200 (some callers get theirs rounds earlier, at the instant or 0..25 ms after the others' retryable answers); three cases in four with a slow client Logger (1..20 ms of virtual time per Printf); run with GOMAXPROCS=4 so that the callers really run in parallel. Same trace oracle as 'retry'. Non-trivial: some caller made >= 2 attempts.",
	Quick: 1500, Thorough: 5000, Crashy: true,
}, genShared, check)

var Retry = harness.Define(harness.Opts{
	Name: "retry",
	Rule: "1-3 callers sharing one client, each with a response script (prefix of answers that must be retried + a final answer repeating for ever; Retry-After absent/seconds/IMF-fixdate/negative/past/garbage; latencies; redirects), API in {PostAndParseWithRetry, AddChain, AddPreChain}, context none/deadline/cancel at a drawn instant; run under virtual time. Non-trivial: some caller made >= 2 attempts or its context ended before a final answer.",
	Quick: 8000, Thorough: 30000, Crashy: true,
}, gen, check)
