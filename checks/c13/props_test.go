package c13

import (
	"testing"

	"verif/internal/harness"
)

func TestProps(t *testing.T) { harness.Main(t, "C13", Retry, Shared) }
