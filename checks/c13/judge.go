package c13

import (
	"encoding/json"
	"fmt"
	"sync"

	ct "github.com/google/certificate-transparency-go"
	"strings"
	"testing"
	"time"

	"verif/internal/harness"
)

const (
	capWait = 128 * time.Second
	jitter  = 250 * time.Millisecond
)

// kindOf classifies an answered attempt from the script and the method the server side saw - never
// from anything the client reported.
//
//	"ok"        good 200 answered to a POST          -> the submission must return it
//	"stop"      any status other than 200/408/429/503 answered to a POST -> must be returned as RspError
//	"retry"     network error, unparsable 200, 408, 429, 503 answered to a POST -> must be retried
//	"converted" the answering hop arrived with another method (a redirect turned the POST into a GET)
//	"aborted"   the request context ended before an answer was served
func kindOf(a Attempt, e Event) string {
	switch {
	case a.Timeout:
		return "retry" // cut by the client's own timeout: a transport error
	case a.Aborted || a.Method == "":
		return "aborted"
	case a.Method != "POST":
		return "converted"
	case e.Kind == "ok":
		return "ok"
	case e.Kind == "status" && e.Status != 408 && e.Status != 429 && e.Status != 503:
		return "stop"
	}
	return "retry"
}

// plain408: the attempt was really answered 408 (and not cut by the client's timeout).
func plain408(a Attempt, e Event, kind string) bool {
	return kind == "retry" && !a.Timeout && e.Kind == "status" && e.Status == 408
}

var (
	selfTest    sync.Once
	selfTestErr string
)

// bodySelfTest pins the body classes against encoding/json (the parser that defines "a body that parses"
// for this client): every good form must decode into ct.AddChainResponse with its marker, every bad one must not.
func bodySelfTest() string {
	for form := 0; form <= 4; form++ {
		for _, size := range []int{0, 5000} {
			var r ct.AddChainResponse
			if err := json.Unmarshal([]byte(okBody(Event{Kind: "ok", BodyForm: form, BodySize: size}, 77)), &r); err != nil || r.Timestamp != 77 {
				return fmt.Sprintf("good body form %d size %d does not parse: %v", form, size, err)
			}
			if b := okBody(Event{Kind: "ok", BodyForm: form, BodySize: size}, 77); size > 0 && len(b) != size {
				return fmt.Sprintf("good body form %d: length %d, want %d", form, len(b), size)
			}
		}
	}
	for i, b := range badBodies {
		var r ct.AddChainResponse
		if json.Unmarshal([]byte(b), &r) == nil {
			return fmt.Sprintf("bad body %d parses", i)
		}
	}
	for cl := -7; cl <= -2; cl++ {
		var r ct.AddChainResponse
		if json.Unmarshal([]byte(badPrefixed(cl, 77)), &r) == nil {
			return fmt.Sprintf("bad body class %d parses", cl)
		}
	}
	return ""
}

func clip(s string) string {
	if len(s) > 160 {
		return s[:160] + "..."
	}
	return s
}

func evLabel(e Event) string {
	switch {
	case e.Kind == "status":
		return fmt.Sprint(e.Status)
	case e.Kind == "bad" && e.BadBody == -1:
		return "bodyerr"
	case e.Kind == "bad" && e.BadBody < -1:
		return "bad-prefixed-json"
	}
	return e.Kind
}

func check(t *testing.T, c Case) (v harness.Verdict) {
	// The case runs in a subtest: when the race detector fires inside the bubble, synctest.Test ends the
	// test it was given with FailNow; in a subtest that leaves this goroutine alive, so that the harness
	// can attribute the report to the case (sig data-race) instead of the whole run dying without a verdict.
	var out Outcome
	ran := false
	t.Run("case", func(st *testing.T) {
		run(st, c, &out)
		ran = true
	})
	if len(out.Calls) != len(c.Callers) {
		v.Failf("case-aborted", "the case was aborted before it started")
		return v
	}
	if !ran {
		v.Class("aborted-by-test-framework") // e.g. a race report; the harness adds the data-race finding
	}
	judge(c, out, &v)
	return v
}

func judge(c Case, out Outcome, v *harness.Verdict) {
	single := len(c.Callers) == 1
	selfTest.Do(func() { selfTestErr = bodySelfTest() })
	if selfTestErr != "" {
		v.Failf("harness-selftest", "%s", selfTestErr)
		return
	}
	if c.LogDelayMs > 0 {
		v.Class("slow-logger")
	}
	v.Class(fmt.Sprintf("callers:%d", len(c.Callers)))
	if out.TimedOut {
		v.Failf("no-termination", "the case did not end within 48 h of virtual time: %s", render(c, out))
	}
	if out.CapHit {
		v.Failf("runaway-attempts", "a caller made more than %d attempts: %s", attemptCap, render(c, out))
	}
	for _, s := range out.Stray {
		v.Failf("stray-request", "%s", s)
	}
	for i := range c.Callers {
		judgeCaller(c, i, out, single, v)
	}
	if len(v.Violations) > 0 {
		v.Violations[0].Msg += "\n" + render(c, out)
	}
	// one count per case and label
	seen := map[string]bool{}
	var cl []string
	for _, x := range v.Classes {
		if !seen[x] {
			seen[x] = true
			cl = append(cl, x)
		}
	}
	v.Classes = cl
}

func judgeCaller(c Case, i int, out Outcome, single bool, v *harness.Verdict) {
	cc, at, rec := c.Callers[i], out.Attempts[i], out.Calls[i]
	n := len(at)
	who := fmt.Sprintf("caller %d (%s)", i, cc.API)
	v.Class("api:"+cc.API, "ctx:"+cc.Ctx)
	if cc.Cause != 0 {
		v.Class(fmt.Sprintf("ctx-cause:%d", cc.Cause))
	}
	if !rec.Started || !rec.Returned {
		if !out.TimedOut {
			v.Failf("harness", "%s never ran", who)
		}
		return
	}
	kinds := make([]string, n)
	for k, a := range at {
		e := cc.Script[a.Ev]
		kinds[k] = kindOf(a, e)
		if kinds[k] != "aborted" {
			if a.Timeout {
				v.Class("answer:client-timeout")
				continue
			}
			v.Class("answer:" + evLabel(e))
			if e.Kind == "ok" && e.BodyForm != 0 {
				v.Class(fmt.Sprintf("ok-body-form:%d", e.BodyForm))
			}
			if (e.Kind == "ok" || e.Kind == "status") && e.BodySize > 0 {
				switch {
				case e.BodySize <= 1<<20:
					v.Class("body-size:<=1MiB")
				default:
					v.Class("body-size:>1MiB")
				}
			}
			if e.Kind == "neterr" && e.NetErr != 0 {
				v.Class("answer:neterr-wrapping-context-error")
			}
			if e.Kind == "status" && (e.Status == 429 || e.Status == 503) && kinds[k] == "retry" {
				f := e.RA.Form
				if f == "" {
					f = "absent"
				}
				v.Class("retry-after-sent:" + f)
			}
			if e.Redirect != 0 {
				v.Class(fmt.Sprintf("redirect:%d->%s", e.Redirect, a.Method))
			}
		}
	}
	switch {
	case n <= 1:
		v.Class(fmt.Sprintf("attempts:%d", n))
	case n <= 4:
		v.Class("attempts:2-4")
	case n <= 9:
		v.Class("attempts:5-9")
	default:
		v.Class("attempts:10+")
	}
	if cc.Ctx == "cancel" && cc.EndMs < 0 {
		v.Class("ctx:cancelled-before-call")
	}
	// the fixed jitter, plus the time the harness's own slow log sink takes per message
	logDelay := time.Duration(c.LogDelayMs) * time.Millisecond
	slack := jitter + logDelay // the client reads the shared back-off only after its (slow) log call: answers that arrive meanwhile count
	hasEnd := cc.Ctx != "none"
	var tEnd time.Duration
	if hasEnd {
		tEnd = rec.CallStart
		if cc.EndMs > 0 {
			tEnd += time.Duration(cc.EndMs) * time.Millisecond
		}
	}

	// ---- the trace: which answers were followed by another attempt, and when
	for k := 0; k+1 < n; k++ {
		a, next, e := at[k], at[k+1], cc.Script[at[k].Ev]
		switch kinds[k] {
		case "ok":
			v.Failf("attempt-after-success", "%s: attempt %d got a parsable 200 at %v, yet attempt %d followed at %v", who, k, a.End, k+1, next.Start)
			continue
		case "stop":
			v.Failf("retry-of-nonretryable", "%s: attempt %d was answered %d at %v (must be returned at once), yet attempt %d followed at %v", who, k, e.Status, a.End, k+1, next.Start)
			continue
		case "aborted":
			v.Failf("attempt-after-context-end", "%s: attempt %d was cut short by the context at %v, yet attempt %d followed at %v", who, k, a.End, k+1, next.Start)
			continue
		}
		gap := next.Start - a.End
		is408 := plain408(a, e, kinds[k])
		if kinds[k] == "retry" && a.Demand {
			v.Class("retry-after-honoured:" + e.RA.Form)
			if e.RA.Form == "date" && e.RA.Date != "" {
				v.Class("date-header:" + e.RA.Date)
			}
			if e.RA.Form == "sec" && e.RA.Pad > 0 {
				v.Class("retry-after-honoured:sec-zero-padded")
			}
			if next.Start < a.NotBefore {
				v.Failf("retry-before-retry-after-"+e.RA.Form, "%s: attempt %d answered %d with Retry-After (%s %d) at %v => not before %v, but attempt %d started at %v (gap %v)",
					who, k, e.Status, e.RA.Form, e.RA.Sec, a.End, a.NotBefore, k+1, next.Start, gap)
			}
		}
		if single {
			if is408 {
				if gap > slack {
					v.Failf("delay-after-408", "%s: attempt %d answered 408 at %v, next attempt only at %v (gap %v > %v)", who, k, a.End, next.Start, gap, slack)
				}
			} else {
				allowed := capWait
				if kinds[k] == "retry" && a.Demand && a.NotBefore-a.End > allowed {
					allowed = a.NotBefore - a.End
				}
				if gap > allowed+slack {
					v.Failf("wait-exceeds-cap", "%s: attempt %d (%s) ended at %v, next attempt at %v: gap %v > %v + %v", who, k, evLabel(e), a.End, next.Start, gap, allowed, slack)
				}
				if !(kinds[k] == "retry" && a.Demand) && gap >= capWait {
					v.Class("reached-128s-cap")
				}
			}
		} else {
			// Shared back-off: a wait is justified by any demand or exponential back-off imposed on
			// the client up to this instant (by any caller's answers), never by more.
			upper := a.End
			for j := range out.Attempts {
				for _, x := range out.Attempts[j] {
					ex := c.Callers[j].Script[x.Ev]
					kx := kindOf(x, ex)
					if x.End > a.End+logDelay || (kx != "retry" && kx != "converted") || plain408(x, ex, kx) {
						continue
					}
					u := x.End + capWait
					if kx == "retry" && x.Demand && x.NotBefore > u {
						u = x.NotBefore
					}
					if u > upper {
						upper = u
					}
				}
			}
			if next.Start > upper+slack {
				v.Failf("wait-exceeds-cap-shared", "%s: attempt %d (%s) ended at %v, next attempt at %v, but nothing imposed on the client justifies waiting beyond %v + %v", who, k, evLabel(e), a.End, next.Start, upper, slack)
			}
		}
	}
	for k, a := range at {
		if a.Start < rec.CallStart || a.Start > rec.Return {
			v.Failf("attempt-outside-call", "%s: attempt %d at %v outside the call [%v, %v]", who, k, a.Start, rec.CallStart, rec.Return)
		}
		if hasEnd && a.Start > tEnd {
			v.Failf("attempt-after-context-end", "%s: attempt %d started at %v, after the context ended at %v", who, k, a.Start, tEnd)
		}
	}
	if out.TimedOut {
		return
	}

	// ---- the result
	lastKind := "none"
	var last Attempt
	var lastEv Event
	if n > 0 {
		last, lastKind, lastEv = at[n-1], kinds[n-1], cc.Script[at[n-1].Ev]
	}
	R := rec.Return
	if rec.IsCause {
		v.Failf("context-cause-returned-instead-of-ctx-err", "%s (context %s, cause kind %d): the call returned the cancellation cause %q at %v, not the context's error", who, cc.Ctx, cc.Cause, rec.ErrText, R)
		if n >= 2 || hasEnd {
			v.NonTrivial = true
		}
		return
	}
	ctxResult := rec.ErrKind == "canceled" || rec.ErrKind == "deadline"
	if hasEnd && !ctxResult && R > tEnd {
		v.Failf("context-end-ignored", "%s: context ended at %v but the call returned (%s) only at %v", who, tEnd, rec.ErrKind, R)
	}
	switch rec.ErrKind {
	case "nil":
		switch lastKind {
		case "ok":
			v.Class("end:success")
			if R != last.End {
				v.Failf("late-return", "%s: parsable 200 arrived at %v, call returned at %v", who, last.End, R)
			}
			bad := rec.Marker != last.Marker
			if cc.API == "ppr" && (!rec.HasRsp || rec.Status != 200 || rec.Body != last.Body) {
				bad = true
			}
			if bad {
				v.Failf("wrong-response-returned", "%s: returned marker %d status %d, body at the end of the case %q; the first parsable 200 was marker %d body %q", who, rec.Marker, rec.Status, clip(rec.Body), last.Marker, last.Body)
			}
		case "converted":
			v.Failf("redirected-post-success", "%s: attempt %d was redirected (%d) and arrived as %s; its answer (%s) was returned as success", who, n-1, lastEv.Redirect, last.Method, evLabel(lastEv))
		case "retry":
			v.Failf("success-without-good-200", "%s: success returned although the last answer was %s (body %q)", who, evLabel(lastEv), last.Body)
		default:
			v.Failf("success-without-good-200", "%s: success returned although the last attempt was %s", who, lastKind)
		}
	case "rsperror", "other":
		switch {
		case lastKind == "stop" && rec.ErrKind == "rsperror":
			v.Class("end:status-error")
			if rec.Status != last.Status || rec.Body != last.Body {
				v.Failf("rsperror-status-body", "%s: answered %d %q; at the end of the case (after the other callers and one more submission) the RspError carries %d %q", who, last.Status, last.Body, rec.Status, clip(rec.Body))
			}
			if R != last.End {
				v.Failf("late-return", "%s: status %d arrived at %v, call returned at %v", who, last.Status, last.End, R)
			}
		case lastKind == "stop":
			v.Failf("status-error-not-rsperror", "%s: answered %d %q, returned a plain error without status and body: %s", who, last.Status, last.Body, rec.ErrText)
		case lastKind == "converted" && R == last.End:
			v.Class("end:converted-error") // the statement only forbids success here
		case lastKind == "retry":
			v.Failf("retryable-returned-as-error", "%s: the last answer (%s at %v) must be retried, but the call returned at %v with %s: %s", who, evLabel(lastEv), last.End, R, rec.ErrKind, rec.ErrText)
		default:
			v.Failf("unexpected-error", "%s: last attempt %s, call returned at %v with %s: %s", who, lastKind, R, rec.ErrKind, rec.ErrText)
		}
	case "canceled", "deadline":
		want := map[string]string{"cancel": "canceled", "deadline": "deadline"}[cc.Ctx]
		switch {
		case lastKind == "retry" && R == last.End && (!hasEnd || R < tEnd):
			v.Failf("transport-error-returned-as-context-end", "%s: attempt %d failed in transport at %v (%s, timeout=%v) while the caller's context was alive; instead of a retry the call returned %q", who, n-1, last.End, evLabel(lastEv), last.Timeout, rec.ErrText)
		case !hasEnd:
			v.Failf("spurious-context-error", "%s: no context end was planned, yet the call returned %s", who, rec.ErrText)
		case !rec.IsCtxErr:
			v.Failf("context-error-not-identical", "%s: the call returned %q, which is not the caller context's Err()", who, rec.ErrText)
		case rec.ErrKind != want:
			v.Failf("wrong-context-error", "%s: context plan %s, error %s", who, cc.Ctx, rec.ErrText)
		case R > tEnd:
			v.Failf("context-end-late", "%s: context ended at %v, its error came back only at %v", who, tEnd, R)
		case R < tEnd:
			v.Failf("context-error-early", "%s: context ends at %v, its error came back already at %v", who, tEnd, R)
		case (lastKind == "ok" || lastKind == "stop") && last.End < tEnd:
			v.Failf("final-answer-not-returned", "%s: a final answer (%s) arrived at %v, before the context ended at %v, but the context error was returned", who, evLabel(lastEv), last.End, tEnd)
		default:
			switch {
			case lastKind == "aborted":
				v.Class("end:ctx-during-request")
			case lastKind == "none":
				v.Class("end:ctx-before-request")
			case last.End == tEnd:
				v.Class("end:ctx-tie-with-answer")
			default:
				v.Class("end:ctx-during-wait")
			}
		}
	}
	if n >= 2 || (hasEnd && ctxResult) {
		v.NonTrivial = true
	}
}

// render prints the case and its trace compactly (part of the failure message and of replays).
func render(c Case, out Outcome) string {
	s := ""
	for i, cc := range c.Callers {
		s += fmt.Sprintf("caller %d api=%s start=%dms ctx=%s end=%dms script=[", i, cc.API, cc.StartMs, cc.Ctx, cc.EndMs)
		for k, e := range cc.Script {
			if k > 0 {
				s += " "
			}
			if e.Redirect != 0 {
				s += fmt.Sprintf("%d>", e.Redirect)
			}
			s += evLabel(e)
			if e.RA.Form != "" {
				s += fmt.Sprintf("(RA %s %s%d%s)", e.RA.Form, strings.Repeat("0", e.RA.Pad), e.RA.Sec, e.RA.Text)
			}
			if e.LatMs != 0 {
				s += fmt.Sprintf("+%dms", e.LatMs)
			}
		}
		s += "]\n"
		if i < len(out.Attempts) {
			lim := len(out.Attempts[i])
			for k, a := range out.Attempts[i] {
				if k >= 24 && k < lim-4 {
					if k == 24 {
						s += "    ...\n"
					}
					continue
				}
				s += fmt.Sprintf("    #%d ev=%d %v..%v %s status=%d aborted=%v hops=%d notBefore=%v\n", a.N, a.Ev, a.Start, a.End, a.Method, a.Status, a.Aborted, a.Hops, a.NotBefore)
			}
		}
		if i < len(out.Calls) {
			r := out.Calls[i]
			s += fmt.Sprintf("    call %v..%v -> %s status=%d marker=%d %q\n", r.CallStart, r.Return, r.ErrKind, r.Status, r.Marker, r.ErrText)
		}
	}
	return s
}
