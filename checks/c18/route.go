package c18

import (
	"context"
	"crypto/sha256"
	"fmt"
	"net/http"
	"net/http/httptest"
	"strings"
	"sync"
	"testing"
	"time"

	ct "github.com/google/certificate-transparency-go"
	"github.com/google/certificate-transparency-go/client"
	"github.com/google/certificate-transparency-go/trillian/ctfe/configpb"
	"pgregory.net/rapid"

	"verif/internal/ctfex"
	"verif/internal/harness"
	"verif/internal/keys"
	"verif/internal/reflog"
)

// RouteCase: a contiguous shard list served by one front-end instance per shard, and certificates
// submitted through the temporal client.
type RouteCase struct {
	Shards   []Window
	NotAfter []int64 // unix seconds of the leaves' NotAfter
	Chain    ChainKind
}

func genRoute(t *rapid.T) RouteCase {
	n := rapid.IntRange(1, 4).Draw(t, "n")
	c := RouteCase{Shards: genContiguous(t, n), Chain: genChainKind(t)}
	var bounds []Inst
	for _, w := range c.Shards {
		bounds = append(bounds, w.bounds()...)
	}
	np := rapid.IntRange(1, 4).Draw(t, "nprobes")
	for i := 0; i < np; i++ {
		p := genProbe(t, fmt.Sprintf("p%d", i), bounds)
		s := p.S
		if p.N != 0 && rapid.Bool().Draw(t, fmt.Sprintf("ceil%d", i)) {
			s++
		}
		if s < minCert {
			s = minCert
		}
		if s > maxCert {
			s = maxCert
		}
		c.NotAfter = append(c.NotAfter, s)
	}
	return c
}

// hostMux serves each shard's host from its instance and counts the requests per host.
type hostMux struct {
	mu    sync.Mutex
	insts map[string]*ctfex.Instance
	hits  map[string]int
}

func (m *hostMux) RoundTrip(r *http.Request) (*http.Response, error) {
	m.mu.Lock()
	m.hits[r.URL.Host]++
	inst := m.insts[r.URL.Host]
	m.mu.Unlock()
	if inst == nil {
		w := httptest.NewRecorder()
		http.NotFound(w, r)
		res := w.Result()
		res.Request = r
		return res, nil
	}
	return ctfex.RoundTripper{Inst: inst}.RoundTrip(r)
}

func (m *hostMux) snapshot() map[string]int {
	m.mu.Lock()
	defer m.mu.Unlock()
	o := map[string]int{}
	for k, v := range m.hits {
		o[k] = v
	}
	return o
}

func checkRoute(t *testing.T, c RouteCase) (v harness.Verdict) {
	sh := c.Shards
	if len(sh) == 0 || !clampTS(sh) || diagnose(sh) != "" {
		v.Discard = true
		return v
	}
	for _, s := range c.NotAfter {
		if s < minCert || s > maxCert {
			v.Discard = true
			return v
		}
	}
	v.Class(fmt.Sprintf("shards:%d", len(sh)))
	mux := &hostMux{insts: map[string]*ctfex.Instance{}, hits: map[string]int{}}
	cfg := shardList(sh)
	var insts []*ctfex.Instance
	var bes []*reflog.Log
	var logIDs [][32]byte
	_, trusted := trustFor(c.Chain, c.NotAfter)
	chainClasses(&v, c.Chain)
	for i, w := range sh {
		w := w
		k := keys.Pick("p256", 30+i)
		be := reflog.New(int64(7000+i), 1)
		inst, err := newInstance(ctfex.Opts{LogKey: k, Roots: trusted, Backend: be, LogID: int64(7000 + i), Cfg: func(lc *configpb.LogConfig) {
			lc.NotAfterStart, lc.NotAfterLimit = ts(w.Start), ts(w.Limit)
		}}, c.Chain.Lone && i == len(sh)-1)
		if err != nil {
			v.Failf("ctfe-valid-window-refused", "instance set-up refuses the window of shard %d %v: %v", i, w, err)
			return v
		}
		insts, bes = append(insts, inst), append(bes, be)
		logIDs = append(logIDs, sha256.Sum256(k.SPKI))
		cfg.Shard[i].PublicKeyDer = k.SPKI
		mux.insts[fmt.Sprintf("shard%d.example", i)] = inst
	}
	tlc, err := client.NewTemporalLogClient(cfg, &http.Client{Transport: mux})
	if err != nil {
		v.Failf("client-refuses-contiguous", "NewTemporalLogClient refuses the contiguous list %v: %v", sh, err)
		return v
	}
	for _, sec := range c.NotAfter {
		s := Inst{S: sec}
		want := -1
		for i, w := range sh {
			if inside(w, s) {
				if want >= 0 {
					t.Fatalf("oracle self-check: %v lies in shards %d and %d of %v", s, want, i, sh)
				}
				want = i
			}
			if nearBound(w, s) {
				v.NonTrivial = true
			}
		}
		ch := chainFor(sec, c.Chain)
		var chain []ct.ASN1Cert
		for _, d := range ch.ders {
			chain = append(chain, ct.ASN1Cert{Data: d})
		}
		before := mux.snapshot()
		ctx, cancel := context.WithTimeout(context.Background(), 20*time.Second)
		var sct *ct.SignedCertificateTimestamp
		if c.Chain.Precert {
			sct, err = tlc.AddPreChain(ctx, chain)
		} else {
			sct, err = tlc.AddChain(ctx, chain)
		}
		cancel()
		after := mux.snapshot()
		var hit []string
		total := 0
		for h, n := range after {
			if d := n - before[h]; d > 0 {
				hit = append(hit, fmt.Sprintf("%s x%d", h, d))
				total += d
			}
		}
		if want < 0 {
			v.Class("route:outside-span")
			if err == nil || total != 0 {
				v.Failf("route-outside-span-submitted", "NotAfter %v is outside every shard of %v, yet the temporal client submitted it (requests %v, err %v)", s, sh, hit, err)
			}
		} else {
			v.Class("route:in-span")
			host := fmt.Sprintf("shard%d.example", want)
			switch {
			case total == 0 && c.Chain.Quirk != 0 && twinRouted(tlc, sec, c.Chain):
				// the same certificate without the parser finding IS submitted: the finding is the cause
				v.Failf("route-client-refuses-nonfatal-leaf", "NotAfter %v belongs to shard %d %v and its server admits the leaf (the X.509 parser reports only a NON-fatal error for it), but TemporalLogClient refuses to submit it: %v", s, want, sh[want], err)
			case total == 0:
				v.Failf("route-inside-span-not-submitted", "NotAfter %v belongs to shard %d %v, whose server admits it, but the temporal client submitted it nowhere: %v", s, want, sh[want], err)
			case total != 1 || after[host]-before[host] != 1:
				v.Failf("route-wrong-shard", "NotAfter %v belongs to shard %d %v only, requests went to %v (err %v)", s, want, sh[want], hit, err)
			case err != nil:
				v.Failf("route-refused-by-own-shard", "NotAfter %v routed to shard %d %v, whose server (configured with that window) refuses it: %v", s, want, sh[want], err)
			case sct.LogID.KeyID != logIDs[want]:
				v.Failf("route-wrong-shard", "NotAfter %v: SCT carries log id %x, shard %d has %x", s, sct.LogID.KeyID, want, logIDs[want])
			}
		}
		// a server of every shard, asked directly
		for i, inst := range insts {
			q0 := len(bes[i].CallsOf("QueueLeaf"))
			rsp := inst.Post(addPath(c.Chain), addChainBody(ch.ders))
			queued := len(bes[i].CallsOf("QueueLeaf")) - q0
			if i == want {
				if rsp.Status != 200 || queued != 1 {
					v.Failf("ctfe-refuses-inside", "shard %d %v: %s of NotAfter %v answers %d (%s), %d QueueLeaf calls", i, sh[i], addPath(c.Chain), s, rsp.Status, strings.TrimSpace(string(rsp.Body)), queued)
				}
			} else if rsp.Status < 400 || rsp.Status > 499 || queued != 0 {
				v.Failf("ctfe-admits-outside", "shard %d %v: %s of NotAfter %v answers %d, %d QueueLeaf calls; the certificate belongs to shard %d", i, sh[i], addPath(c.Chain), s, rsp.Status, queued, want)
			}
		}
	}
	return v
}

// twinRouted submits the twin of a quirky leaf - same NotAfter, validity and issuer, no parser finding -
// through the temporal client and reports whether it was accepted somewhere. Used only to name the
// root cause of a refusal, never for the verdict.
func twinRouted(tlc *client.TemporalLogClient, sec int64, k ChainKind) bool {
	k.Quirk = 0
	var chain []ct.ASN1Cert
	for _, d := range chainFor(sec, k).ders {
		chain = append(chain, ct.ASN1Cert{Data: d})
	}
	ctx, cancel := context.WithTimeout(context.Background(), 20*time.Second)
	defer cancel()
	var err error
	if k.Precert {
		_, err = tlc.AddPreChain(ctx, chain)
	} else {
		_, err = tlc.AddChain(ctx, chain)
	}
	return err == nil
}

// RouteProp is the end-to-end half of C18.
var RouteProp = harness.Define(harness.Opts{
	Name:  "route",
	Rule:  "a contiguous list of 1-4 shards, one ctfe Instance per shard configured with that shard's window (own key), a TemporalLogClient over an in-process transport; 1-4 leaves (or precertificates) with NotAfter at whole seconds next to shard bounds. AddChain / AddPreChain must reach exactly the shard whose window contains NotAfter and be admitted there with that shard's SCT; every other shard's server refuses the same chain with 4xx; instants outside the span are not submitted at all. Non-trivial: NotAfter within 1 s of a bound",
	Quick: 700, Thorough: 6000,
}, genRoute, checkRoute)
