package c18

import (
	"testing"

	"verif/internal/harness"
)

func TestProps(t *testing.T) {
	harness.Main(t, "C18", WindowProp, ShardsProp, RouteProp, SeqProp, ReconfProp)
}
