package c18

import (
	"encoding/json"
	"fmt"
	"sort"
	"strings"
	"sync"
	"testing"

	"github.com/google/certificate-transparency-go/loglist3"
	"github.com/google/certificate-transparency-go/x509"
	"github.com/google/certificate-transparency-go/x509util"
	"pgregory.net/rapid"

	"verif/internal/harness"
	"verif/internal/world"
)

// SeqLog is one log of the list: its window (nil bounds = no temporal interval; a lone absent limit
// is not generated) and which of the four standard roots it accepts (-1: the log is absent from the
// roots collection, which the filter documents as "always compatible").
type SeqLog struct {
	W     Window
	Op    int // operator index 0..2
	Roots int // -1, or a bit mask over world.Roots()
}

// SeqQuery is one filter call on the shared list.
type SeqQuery struct {
	Kind int // 0 TemporallyCompatible, 1 Compatible(cert, nil, nil), 2 Compatible(cert, root, roots), 3 RootCompatible(root, roots)
	T    Inst
	Root int // index into world.Roots()
}

// SeqCase: several queries against ONE LogList value.
type SeqCase struct {
	Logs    []SeqLog
	Queries []SeqQuery
	Zones   Zones
}

func genSeq(t *rapid.T) SeqCase {
	var c SeqCase
	n := rapid.IntRange(2, 7).Draw(t, "nlogs")
	base := genContiguous(t, rapid.IntRange(1, 4).Draw(t, "nshards"))
	nops := rapid.IntRange(1, 3).Draw(t, "nops")
	var bounds []Inst
	for i := 0; i < n; i++ {
		l := SeqLog{Op: rapid.IntRange(0, nops-1).Draw(t, fmt.Sprintf("op%d", i))}
		switch k := rapid.IntRange(0, 9).Draw(t, fmt.Sprintf("lk%d", i)); {
		case k < 3: // not a temporal shard
		case k < 7: // one of the shards (the same shard may be run by several logs)
			l.W = base[rapid.IntRange(0, len(base)-1).Draw(t, fmt.Sprintf("sh%d", i))]
		case k < 9: // the whole span (overlaps every shard)
			l.W = Window{Start: base[0].Start, Limit: base[len(base)-1].Limit}
		default:
			l.W = genWindowOnly(t, fmt.Sprintf("w%d", i))
		}
		if l.W.Limit == nil {
			l.W.Start = nil // a lone absent limit is inexpressible in a log list
		}
		switch rapid.IntRange(0, 5).Draw(t, fmt.Sprintf("rk%d", i)) {
		case 0:
			l.Roots = -1
		case 1, 2:
			l.Roots = 15
		default:
			l.Roots = rapid.IntRange(0, 15).Draw(t, fmt.Sprintf("rm%d", i))
		}
		bounds = append(bounds, l.W.bounds()...)
		c.Logs = append(c.Logs, l)
	}
	nq := rapid.IntRange(2, 5).Draw(t, "nq")
	for i := 0; i < nq; i++ {
		q := SeqQuery{Kind: rapid.SampledFrom([]int{0, 1, 2, 2, 2, 3}).Draw(t, fmt.Sprintf("qk%d", i)), Root: rapid.IntRange(0, 3).Draw(t, fmt.Sprintf("qr%d", i))}
		q.T = genProbe(t, fmt.Sprintf("q%d", i), bounds)
		if q.T.S < minTS {
			q.T.S = minTS // the zero time stands in for an absent start: only instants from year 1 on
		}
		c.Queries = append(c.Queries, q)
	}
	c.Zones = genZones(t)
	return c
}

var (
	maskMu    sync.Mutex
	maskPools = map[int]*x509util.PEMCertPool{}
)

func poolFor(mask int) *x509util.PEMCertPool {
	maskMu.Lock()
	defer maskMu.Unlock()
	if p, ok := maskPools[mask]; ok {
		return p
	}
	p := x509util.NewPEMCertPool()
	for i := range world.Roots() {
		if mask&(1<<i) != 0 {
			p.AddCert(parsedRoot(i))
		}
	}
	maskPools[mask] = p
	return p
}

func seqURL(i int) string { return fmt.Sprintf("https://log%d.example/", i) }

// buildSeqList makes the list from the case data (called twice: the list under test and a pristine twin).
func buildSeqList(c SeqCase) *loglist3.LogList {
	ops := map[int]*loglist3.Operator{}
	ll := &loglist3.LogList{Version: "c18"}
	for i, sl := range c.Logs {
		op := ops[sl.Op]
		if op == nil {
			op = &loglist3.Operator{Name: fmt.Sprintf("op%d", sl.Op), Email: []string{"x@example.com"}}
			ops[sl.Op] = op
			ll.Operators = append(ll.Operators, op)
		}
		l, ok := logFor(i, sl.W, c.Zones[1])
		if !ok {
			panic("c18: inexpressible window in a sequence case")
		}
		l.URL = seqURL(i)
		l.LogID = []byte{byte(i)}
		op.Logs = append(op.Logs, l)
	}
	return ll
}

// listing renders a list as operator -> URLs in order, so omissions, duplicates and reorderings show.
func listing(ll loglist3.LogList) string {
	var parts []string
	for _, op := range ll.Operators {
		var u []string
		for _, l := range op.Logs {
			u = append(u, l.URL)
		}
		parts = append(parts, op.Name+":"+strings.Join(u, ","))
	}
	sort.Strings(parts)
	return strings.Join(parts, " ")
}

func checkSeq(t *testing.T, c SeqCase) (v harness.Verdict) {
	for _, l := range c.Logs {
		if !clampTS([]Window{l.W}) || (l.W.Limit == nil && l.W.Start != nil) || l.Roots < -1 || l.Roots > 15 {
			v.Discard = true
			return v
		}
	}
	if len(c.Logs) == 0 || len(c.Queries) == 0 {
		v.Discard = true
		return v
	}
	ll := buildSeqList(c)
	pristine, _ := json.Marshal(buildSeqList(c))
	roots := loglist3.LogRoots{}
	for i, l := range c.Logs {
		if l.Roots >= 0 {
			roots[seqURL(i)] = poolFor(l.Roots)
		}
	}
	v.Class(fmt.Sprintf("queries:%d", len(c.Queries)))
	history := ""
	for qi, q := range c.Queries {
		// the expected answer comes from the case data alone: window predicate and root membership per log
		want := map[int][]string{}
		dropsByRoot, dropsByTime := false, false
		for i, l := range c.Logs {
			tOK := q.Kind == 3 || inside(l.W, q.T)
			rOK := q.Kind < 2 || l.Roots < 0 || l.Roots&(1<<q.Root) != 0
			if !tOK {
				dropsByTime = true
			}
			if tOK && !rOK {
				dropsByRoot = true
			}
			if tOK && rOK {
				want[l.Op] = append(want[l.Op], seqURL(i))
			}
			if q.Kind != 3 && nearBound(l.W, q.T) {
				v.NonTrivial = true
			}
		}
		var parts []string
		for op, u := range want {
			parts = append(parts, fmt.Sprintf("op%d:%s", op, strings.Join(u, ",")))
		}
		sort.Strings(parts)
		wantS := strings.Join(parts, " ")

		cert := &x509.Certificate{NotAfter: q.T.In(c.Zones[0])}
		var got loglist3.LogList
		var name string
		switch q.Kind {
		case 0:
			name, got = "TemporallyCompatible", ll.TemporallyCompatible(cert)
		case 1:
			name, got = "Compatible(cert, nil, nil)", ll.Compatible(cert, nil, nil)
		case 2:
			name, got = fmt.Sprintf("Compatible(cert, root%d, roots)", q.Root), ll.Compatible(cert, parsedRoot(q.Root), roots)
		default:
			name, got = fmt.Sprintf("RootCompatible(root%d, roots)", q.Root), ll.RootCompatible(parsedRoot(q.Root), roots)
		}
		if qi > 0 {
			v.NonTrivial = true
		}
		switch {
		case dropsByRoot && dropsByTime:
			v.Class("query:drops-by-root-and-time")
		case dropsByRoot:
			v.Class("query:drops-by-root-only")
		case dropsByTime:
			v.Class("query:drops-by-time-only")
		default:
			v.Class("query:keeps-all")
		}
		if g := listing(got); g != wantS {
			sig := "loglist-answer-wrong-first-query"
			if qi > 0 {
				sig = "loglist-answer-depends-on-history"
			}
			v.Failf(sig, "query %d %s for NotAfter %v returns {%s}; start <= t < limit over the list as built selects {%s}. Earlier queries on the same list: [%s]", qi, name, q.T, g, wantS, history)
		}
		history += fmt.Sprintf("%s@%v; ", name, q.T)
		if now, _ := json.Marshal(ll); string(now) != string(pristine) {
			v.Failf("loglist-mutated-by-query", "after query %d %s the LogList itself changed:\n now      %s\n pristine %s", qi, name, listing(*ll), listing(*buildSeqList(c)))
			return v
		}
	}
	return v
}

// SeqProp: the log-list filter is a pure function of (list, certificate): no state survives a call.
var SeqProp = harness.Define(harness.Opts{
	Name:  "llseq",
	Rule:  "ONE LogList value (2-7 logs over 1-3 operators: non-temporal logs, shards of a contiguous list, span-wide and free windows, per-log accepted-root sets or no entry in the roots collection) queried 2-5 times with TemporallyCompatible, Compatible without roots, Compatible with a root filter that may drop logs, and RootCompatible, at instants next to the bounds; every answer (operator by operator, in order, duplicates visible) must be what start <= t < limit and root membership select from the list AS BUILT, and the list must stay byte-identical (JSON) to a pristine twin after every call. Non-trivial: a second or later query, or an instant within 1 s of a bound",
	Quick: 4000, Thorough: 40000,
}, genSeq, checkSeq)
