package c18

import (
	"fmt"
	"net/http"
	"sort"
	"strings"
	"testing"
	"time"

	clientpb "github.com/google/certificate-transparency-go/client/configpb"

	"github.com/google/certificate-transparency-go/client"
	"github.com/google/certificate-transparency-go/loglist3"
	"github.com/google/certificate-transparency-go/trillian/ctfe"
	"github.com/google/certificate-transparency-go/trillian/ctfe/configpb"
	"github.com/google/certificate-transparency-go/x509"
	"github.com/google/certificate-transparency-go/x509util"
	"pgregory.net/rapid"

	"verif/internal/ctfex"
	"verif/internal/harness"
	"verif/internal/keys"
	"verif/internal/reflog"
	"verif/internal/world"
)

// WindowCase: one window, a handful of instants, one chain shape.
type WindowCase struct {
	W      Window
	Probes []Inst
	Chain  ChainKind
	Zones  Zones
	// Expiry policy of the log, combined with the window: 0 none, 1 reject_expired, 2 reject_unexpired.
	Expiry int
	// Now is the validator's current time on the direct path (the Instance path runs on the real clock).
	Now Inst
	// ViaInstance also submits through a ctfe.Instance configured with the window.
	ViaInstance bool
}

func genWindowOnly(t *rapid.T, label string) Window {
	start := genBase(t, label+".start")
	ws, wn := genWidth(t, label+".width")
	limit := add(start, ws, wn)
	if limit.S > maxTS { // keep the limit a valid Timestamp
		limit = Inst{S: maxTS, N: 999999999}
		if cmp(start, limit) >= 0 {
			start = add(limit, -ws, -wn)
		}
	}
	var w Window
	switch rapid.IntRange(0, 7).Draw(t, label+".open") {
	case 0:
		w.Limit = &limit
	case 1:
		w.Start = &start
	case 2:
	default:
		w.Start, w.Limit = &start, &limit
	}
	return w
}

func (w Window) bounds() []Inst {
	var b []Inst
	if w.Start != nil {
		b = append(b, *w.Start)
	}
	if w.Limit != nil {
		b = append(b, *w.Limit)
	}
	return b
}

func genWindow(t *rapid.T) WindowCase {
	c := WindowCase{W: genWindowOnly(t, "w"), Chain: genChainKind(t), Zones: genZones(t)}
	n := rapid.IntRange(1, 4).Draw(t, "nprobes")
	for i := 0; i < n; i++ {
		c.Probes = append(c.Probes, genProbe(t, fmt.Sprintf("p%d", i), c.W.bounds()))
	}
	c.ViaInstance = rapid.IntRange(0, 2).Draw(t, "inst") != 0
	if e := rapid.IntRange(0, 3).Draw(t, "expiry"); e > 1 {
		c.Expiry = e - 1
	}
	c.Now = genNow(t, c.W.bounds(), c.Probes)
	return c
}

// Policy is the log's expiry policy as seen by the oracle: which flag is set, what "now" is, and
// how far (seconds) NotAfter must be from now before the oracle relies on the expiry verdict.
type Policy struct {
	Expiry int
	Now    Inst
	Margin int64
}

// expect gives the oracle's demands for NotAfter = s under window w and policy p. The window
// predicate decides on its own: outside is always refused. Inside, the expiry policy may only
// remove admissions; where it clearly has no objection (NotAfter more than Margin away from now on
// the permitted side) the certificate must be admitted. How the policy treats NotAfter next to now
// is not this property's business.
func expect(w Window, s Inst, p Policy) (mustAdmit, mustRefuse bool) {
	if !inside(w, s) {
		return false, true
	}
	switch p.Expiry {
	case 0:
		return true, false
	case 1: // reject_expired: fine when the certificate clearly expires in the future
		return cmp(s, add(p.Now, p.Margin, 0)) > 0, false
	default: // reject_unexpired: fine when the certificate clearly expired in the past
		return cmp(s, add(p.Now, -p.Margin, 0)) < 0, false
	}
}

func (p Policy) String() string {
	switch p.Expiry {
	case 1:
		return fmt.Sprintf(" with reject_expired, now=%v", p.Now)
	case 2:
		return fmt.Sprintf(" with reject_unexpired, now=%v", p.Now)
	}
	return ""
}

func logConfig(w Window, expiry int) *configpb.LogConfig {
	return &configpb.LogConfig{LogId: 6962, Prefix: "log", PrivateKey: ctfex.PrivKeyAny(keys.Pick("p256", 1)), NotAfterStart: ts(w.Start), NotAfterLimit: ts(w.Limit),
		RejectExpired: expiry == 1, RejectUnexpired: expiry == 2}
}

// windowOpts runs the configured window through the front end's own configuration path:
// LogConfig timestamps and flags -> ValidateLogConfig -> NewCertValidationOpts.
func windowOpts(w Window, p Policy, pool *x509util.PEMCertPool) (ctfe.CertValidationOpts, error) {
	vc, err := ctfe.ValidateLogConfig(logConfig(w, p.Expiry))
	if err != nil {
		return ctfe.CertValidationOpts{}, err
	}
	now := pkiNow
	if p.Expiry != 0 {
		now = p.Now.Time()
	}
	return ctfe.NewCertValidationOpts(pool, now, vc.Config.RejectExpired, vc.Config.RejectUnexpired, vc.NotAfterStart, vc.NotAfterLimit, vc.Config.AcceptOnlyCa, vc.KeyUsages), nil
}

// judgeValidate checks ValidateChain under w (and policy p) for a leaf expiring at the whole second s.
func judgeValidate(v *harness.Verdict, opts ctfe.CertValidationOpts, w Window, s Inst, k ChainKind, ctx string, p Policy) (admitted bool) {
	ch := chainFor(s.S, k)
	_, err := ctfe.ValidateChain(ch.ders, opts)
	mustAdmit, mustRefuse := expect(w, s, p)
	switch {
	case mustAdmit && err != nil:
		v.Failf("ctfe-refuses-inside", "%sValidateChain refuses NotAfter %v under window %v%v (start <= t < limit holds): %v", ctx, s, w, p, err)
	case mustRefuse && err == nil:
		sig := "ctfe-admits-outside"
		if p.Expiry != 0 {
			sig = "ctfe-admits-outside-under-expiry-policy"
		}
		v.Failf(sig, "%sValidateChain admits NotAfter %v under window %v%v (start <= t < limit does not hold)", ctx, s, w, p)
	}
	if p.Expiry != 0 {
		switch {
		case mustRefuse:
			v.Class("expiry:outside-window")
		case mustAdmit:
			v.Class("expiry:inside-policy-silent")
		case err != nil:
			v.Class("expiry:inside-policy-removes")
		default:
			v.Class("expiry:inside-near-now")
		}
	}
	return err == nil
}

// genNow draws the validator's clock: next to a bound or a probed instant, clearly after / before
// all of them (a log whose window lies wholly in the past or future), or anywhere.
func genNow(t *rapid.T, bounds, probes []Inst) Inst {
	all := append(append([]Inst{}, bounds...), probes...)
	lo, hi := all[0], all[0]
	for _, x := range all {
		if cmp(x, lo) < 0 {
			lo = x
		}
		if cmp(x, hi) > 0 {
			hi = x
		}
	}
	switch rapid.IntRange(0, 5).Draw(t, "now.k") {
	case 0, 1:
		return add(hi, rapid.Int64Range(2, 86400*365*5).Draw(t, "now.after"), 0)
	case 2:
		return add(lo, -rapid.Int64Range(2, 86400*365*5).Draw(t, "now.before"), 0)
	case 3:
		return genBase(t, "now.abs")
	default:
		return genProbe(t, "now", all)
	}
}

func shardCfg(i int, w Window) *clientpb.LogShardConfig {
	return &clientpb.LogShardConfig{Uri: fmt.Sprintf("http://shard%d.example/log", i), NotAfterStart: ts(w.Start), NotAfterLimit: ts(w.Limit)}
}

// logFor expresses w as a log-list entry. ok is false when the log list cannot express the window:
// TemporalInterval carries two mandatory instants, so "no interval" stands for the doubly unbounded
// window, the zero time (the smallest instant there is) for an absent start, and an absent limit
// alone has no representation.
func logFor(i int, w Window, z int) (*loglist3.Log, bool) {
	l := &loglist3.Log{URL: fmt.Sprintf("https://shard%d.example/log/", i), Description: fmt.Sprintf("shard %d", i)}
	switch {
	case w.Start == nil && w.Limit == nil:
		return l, true
	case w.Limit == nil:
		return nil, false
	case w.Start == nil:
		l.TemporalInterval = &loglist3.TemporalInterval{EndExclusive: w.Limit.In(z)}
	default:
		l.TemporalInterval = &loglist3.TemporalInterval{StartInclusive: w.Start.In(z), EndExclusive: w.Limit.In(z)}
	}
	return l, true
}

// logListApplies: the log list stands in for "no start" with the zero time.Time, which is only the
// same thing for instants from year 1 on (no certificate or Timestamp can name an earlier one).
func logListApplies(v *harness.Verdict, p Inst) bool {
	if p.S < minTS {
		v.Class("loglist:skip-before-year-1")
		return false
	}
	return true
}

func urlsOf(ll loglist3.LogList) []string {
	var out []string
	for _, op := range ll.Operators {
		for _, l := range op.Logs {
			out = append(out, l.URL)
		}
	}
	sort.Strings(out)
	return out
}

var rootCertOnce = map[int]*x509.Certificate{}

func parsedRoot(i int) *x509.Certificate {
	leafMu.Lock()
	defer leafMu.Unlock()
	if c, ok := rootCertOnce[i]; ok {
		return c
	}
	c, err := x509.ParseCertificate(world.Roots()[i].DER)
	if err != nil {
		panic(err)
	}
	rootCertOnce[i] = c
	return c
}

// judgeLogList compares the three filter entry points with the expected URL set for NotAfter = t.
func judgeLogList(v *harness.Verdict, ll *loglist3.LogList, want []string, t Inst, z int, root int, desc string) {
	cert := &x509.Certificate{NotAfter: t.In(z)}
	sort.Strings(want)
	w := strings.Join(want, " ")
	rc := parsedRoot(root)
	lr := loglist3.LogRoots{}
	for _, op := range ll.Operators {
		for _, l := range op.Logs {
			lr[l.URL] = roots()
		}
	}
	for _, r := range []struct {
		name string
		got  loglist3.LogList
	}{
		{"TemporallyCompatible", ll.TemporallyCompatible(cert)},
		{"Compatible(no root)", ll.Compatible(cert, nil, nil)},
		{"Compatible(root,roots)", ll.Compatible(cert, rc, lr)},
	} {
		name, got := r.name, r.got
		if g := strings.Join(urlsOf(got), " "); g != w {
			sig := "loglist-drops-inside"
			if len(g) > len(w) {
				sig = "loglist-keeps-outside"
			}
			v.Failf(sig, "%s for NotAfter %v over %s keeps {%s}, start <= t < limit selects {%s}", name, t, desc, g, w)
		}
		for _, op := range got.Operators {
			if len(op.Logs) == 0 {
				v.Failf("loglist-empty-operator", "%s returned operator %q without logs", name, op.Name)
			}
		}
	}
}

func checkWindow(t *testing.T, c WindowCase) (v harness.Verdict) {
	w := c.W
	if (w.Start != nil && !validTS(*w.Start)) || (w.Limit != nil && !validTS(*w.Limit)) || (w.Start != nil && w.Limit != nil && cmp(*w.Start, *w.Limit) >= 0) {
		v.Discard = true // outside the domain (reachable only by hand-edited replay files)
		return v
	}
	switch {
	case w.Start == nil && w.Limit == nil:
		v.Class("window:unbounded")
	case w.Start == nil:
		v.Class("window:no-start")
	case w.Limit == nil:
		v.Class("window:no-limit")
	default:
		v.Class("window:closed")
	}
	if (w.Start != nil && w.Start.N != 0) || (w.Limit != nil && w.Limit.N != 0) {
		v.Class("window:subsecond-bound")
	}

	// (1) front end, direct
	if c.Now == (Inst{S: minTS}) {
		// the zero time.Time means "no clock given, use the system's" to NewCertValidationOpts
		c.Now.N = 1
	}
	pol := Policy{Expiry: c.Expiry, Now: c.Now, Margin: 1}
	// the Instance validates against the real clock: the oracle only relies on the expiry verdict
	// for certificates expiring more than two days away from it
	real := time.Now()
	instPol := Policy{Expiry: c.Expiry, Now: Inst{S: real.Unix(), N: int32(real.Nanosecond())}, Margin: 2 * 86400}
	switch c.Expiry {
	case 1:
		v.Class("policy:reject-expired")
	case 2:
		v.Class("policy:reject-unexpired")
	}
	pool, trusted := trustFor(c.Chain, secsOf(c.Probes))
	chainClasses(&v, c.Chain)
	opts, err := windowOpts(w, pol, pool)
	if err != nil {
		v.Failf("ctfe-valid-window-refused", "ValidateLogConfig refuses window %v: %v", w, err)
		return v
	}
	// (1b) front end, through an instance
	var inst *ctfex.Instance
	var be *reflog.Log
	if c.ViaInstance {
		be = reflog.New(6962, 1)
		inst, err = newInstance(ctfex.Opts{LogKey: keys.Pick("p256", 1), Roots: trusted, Backend: be, Cfg: func(lc *configpb.LogConfig) {
			lc.NotAfterStart, lc.NotAfterLimit = ts(w.Start), ts(w.Limit)
			lc.RejectExpired, lc.RejectUnexpired = c.Expiry == 1, c.Expiry == 2
		}}, c.Chain.Lone)
		if err != nil {
			v.Failf("ctfe-valid-window-refused", "instance set-up refuses window %v: %v", w, err)
			return v
		}
		v.Class("ctfe:instance")
	}
	// (2) client with a single shard
	tlc, err := client.NewTemporalLogClient(&clientpb.TemporalLogConfig{Shard: []*clientpb.LogShardConfig{shardCfg(0, w)}}, http.DefaultClient)
	if err != nil {
		v.Failf("client-valid-window-refused", "NewTemporalLogClient refuses the single shard %v: %v", w, err)
		return v
	}
	// (3) log list with this one log (where expressible)
	var ll *loglist3.LogList
	if l, ok := logFor(0, w, c.Zones[1]); ok {
		ll = &loglist3.LogList{Operators: []*loglist3.Operator{{Name: "op", Logs: []*loglist3.Log{l}}}}
	} else {
		v.Class("loglist:inexpressible")
	}

	if c.Zones != (Zones{}) {
		v.Class("zones:non-utc")
	}
	seen := map[Inst]bool{}
	for _, p := range c.Probes {
		want := inside(w, p)
		if nearBound(w, p) {
			v.NonTrivial = true
		}
		if w.Start != nil {
			v.Class("t-vs-start:" + relClass(*w.Start, p))
		}
		if w.Limit != nil {
			v.Class("t-vs-limit:" + relClass(*w.Limit, p))
		}
		if want {
			v.Class("expect:inside")
		} else {
			v.Class("expect:outside")
		}
		if p.N != 0 {
			v.Class("t:subsecond")
		}
		// client
		idx, err := tlc.IndexByDate(p.In(c.Zones[0]))
		switch {
		case want && (err != nil || idx != 0):
			v.Failf("client-misses-inside", "IndexByDate(%v) over the single shard %v = (%d, %v); start <= t < limit holds", p, w, idx, err)
		case !want && err == nil:
			v.Failf("client-routes-outside", "IndexByDate(%v) over the single shard %v = %d; start <= t < limit does not hold", p, w, idx)
		}
		// log list
		if ll != nil && logListApplies(&v, p) {
			var wantURLs []string
			if want {
				wantURLs = []string{ll.Operators[0].Logs[0].URL}
			}
			judgeLogList(&v, ll, wantURLs, p, c.Zones[0], c.Chain.Root, "window "+w.String())
		}
		// front end at the whole seconds next to p
		for _, s := range certSeconds(p) {
			if seen[s] {
				continue
			}
			seen[s] = true
			v.Class("ctfe:validate")
			if nearBound(w, s) {
				v.Class("ctfe:near-bound")
			}
			judgeValidate(&v, opts, w, s, c.Chain, "", pol)
			if inst != nil {
				ch := chainFor(s.S, c.Chain)
				before := len(be.CallsOf("QueueLeaf"))
				rsp := inst.Post(addPath(c.Chain), addChainBody(ch.ders))
				queued := len(be.CallsOf("QueueLeaf")) - before
				mustAdmit, mustRefuse := expect(w, s, instPol)
				if mustAdmit && (rsp.Status != 200 || queued != 1) {
					v.Failf("ctfe-refuses-inside", "%s of NotAfter %v under window %v%v: status %d (%s), %d QueueLeaf calls; start <= t < limit holds", addPath(c.Chain), s, w, instPol, rsp.Status, strings.TrimSpace(string(rsp.Body)), queued)
				}
				if mustRefuse && (rsp.Status < 400 || rsp.Status > 499 || queued != 0) {
					sig := "ctfe-admits-outside"
					if c.Expiry != 0 {
						sig = "ctfe-admits-outside-under-expiry-policy"
					}
					v.Failf(sig, "%s of NotAfter %v under window %v%v: status %d, %d QueueLeaf calls; start <= t < limit does not hold", addPath(c.Chain), s, w, instPol, rsp.Status, queued)
				}
				if c.Expiry != 0 && !mustRefuse {
					if mustAdmit {
						v.Class("expiry:instance-inside-policy-silent")
					} else {
						v.Class("expiry:instance-inside-policy-may-remove")
					}
				}
			}
		}
		if len(certSeconds(p)) == 0 {
			v.Class("ctfe:unencodable-instant")
		}
	}
	return v
}

// WindowProp is the single-interval half of C18.
var WindowProp = harness.Define(harness.Opts{
	Name:  "window",
	Rule:  "one window [start, limit) with either bound optional and nanosecond parts, 1-4 instants from {bound-1s, -1ns, bound, +1ns, +1s, far}; ValidateChain (options via ValidateLogConfig), add-[pre-]chain on an Instance, a one-shard TemporalLogClient and a one-log LogList must all agree with start <= t < limit. Non-trivial: an instant within 1 s of a bound",
	Quick: 5000, Thorough: 50000,
}, genWindow, checkWindow)
