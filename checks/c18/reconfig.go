package c18

import (
	"context"
	"fmt"
	"os"
	"strings"
	"testing"
	"time"

	"github.com/google/certificate-transparency-go/trillian/ctfe"
	"github.com/google/certificate-transparency-go/trillian/ctfe/configpb"
	"github.com/google/trillian/monitoring"
	"google.golang.org/protobuf/proto"
	"google.golang.org/protobuf/types/known/timestamppb"
	"pgregory.net/rapid"

	"verif/internal/ctfex"
	"verif/internal/harness"
	"verif/internal/keys"
	"verif/internal/reflog"
)

// ReconfStep is one (re)configuration of the SAME LogConfig message, followed by admissions.
type ReconfStep struct {
	W        Window // may be inverted (start > limit): then only the validation verdict is examined
	Expiry   int    // 0 none, 1 reject_expired, 2 reject_unexpired
	InPlace  bool   // overwrite the fields of the existing Timestamp messages instead of replacing them
	Instance bool   // also set up an Instance from the validated config and submit through it
	Probes   []Inst
}

// ReconfCase: a shard's config message that is validated, edited in place (window rolled forward,
// bound added or removed, template filled in), validated again, ...
type ReconfCase struct {
	Steps []ReconfStep
	Chain ChainKind
	Now   Inst
}

func genReconf(t *rapid.T) ReconfCase {
	var c ReconfCase
	n := rapid.IntRange(2, 4).Draw(t, "steps")
	var bounds []Inst
	var ws []Window
	for i := 0; i < n; i++ {
		var w Window
		switch k := rapid.IntRange(0, 5).Draw(t, fmt.Sprintf("s%d.k", i)); {
		case i > 0 && k == 0 && ws[i-1].Limit != nil: // rolled forward: starts where the previous window ended
			st := *ws[i-1].Limit
			ds, dn := genWidth(t, fmt.Sprintf("s%d.w", i))
			li := add(st, ds, dn)
			if validTS(li) {
				w = Window{Start: &st, Limit: &li}
				break
			}
			fallthrough
		case i > 0 && k == 1: // same bounds, one of them dropped
			w = ws[i-1]
			if rapid.Bool().Draw(t, fmt.Sprintf("s%d.drop", i)) {
				w.Start = nil
			} else {
				w.Limit = nil
			}
		case i > 0 && k == 2 && len(bounds) > 0: // nudged by a nanosecond or a second
			w = shift(ws[i-1], int64(rapid.IntRange(-1, 1).Draw(t, fmt.Sprintf("s%d.ds", i))), int64(rapid.IntRange(-1, 1).Draw(t, fmt.Sprintf("s%d.dn", i))))
			if !clampTS([]Window{w}) {
				w = ws[i-1]
			}
		default:
			w = genWindowOnly(t, fmt.Sprintf("s%d.win", i))
		}
		if w.Start != nil && w.Limit != nil && rapid.IntRange(0, 5).Draw(t, fmt.Sprintf("s%d.inv", i)) == 0 {
			w.Start, w.Limit = w.Limit, w.Start
		}
		ws = append(ws, w)
		bounds = append(bounds, w.bounds()...)
	}
	for i, w := range ws {
		st := ReconfStep{W: w, InPlace: rapid.Bool().Draw(t, fmt.Sprintf("s%d.inplace", i)), Instance: rapid.IntRange(0, 3).Draw(t, fmt.Sprintf("s%d.inst", i)) == 0}
		if e := rapid.IntRange(0, 5).Draw(t, fmt.Sprintf("s%d.exp", i)); e > 3 {
			st.Expiry = e - 3
		}
		np := rapid.IntRange(1, 3).Draw(t, fmt.Sprintf("s%d.np", i))
		for j := 0; j < np; j++ {
			// probes sit at the bounds of every step, so a window left over from an earlier step shows
			st.Probes = append(st.Probes, genProbe(t, fmt.Sprintf("s%d.p%d", i, j), bounds))
		}
		c.Steps = append(c.Steps, st)
	}
	c.Chain = genChainKind(t)
	var all []Inst
	for _, s := range c.Steps {
		all = append(all, s.Probes...)
	}
	c.Now = genNow(t, bounds, all)
	return c
}

func setTS(dst **timestamppb.Timestamp, v *Inst, inPlace bool) {
	switch {
	case v == nil:
		*dst = nil
	case inPlace && *dst != nil:
		(*dst).Seconds, (*dst).Nanos = v.S, v.N
	default:
		*dst = ts(v)
	}
}

func checkReconf(t *testing.T, c ReconfCase) (v harness.Verdict) {
	if len(c.Steps) == 0 {
		v.Discard = true
		return v
	}
	for _, s := range c.Steps {
		if !clampTS([]Window{s.W}) || (s.W.Start != nil && s.W.Limit != nil && cmp(*s.W.Start, *s.W.Limit) == 0) || s.Expiry < 0 || s.Expiry > 2 {
			v.Discard = true
			return v
		}
	}
	if c.Now == (Inst{S: minTS}) {
		c.Now.N = 1
	}
	var allProbes []Inst
	for _, s := range c.Steps {
		allProbes = append(allProbes, s.Probes...)
	}
	pool, trusted := trustFor(c.Chain, secsOf(allProbes))
	var ders [][]byte
	for _, r := range trusted {
		ders = append(ders, r.DER)
	}
	chainClasses(&v, c.Chain)
	if c.Chain.Lone {
		defer os.Remove(ctfex.RootsFile(ders))
	}
	// the one message object that lives through the whole case
	cfg := &configpb.LogConfig{LogId: 6962, Prefix: "log", PrivateKey: ctfex.PrivKeyAny(keys.Pick("p256", 1)), RootsPemFile: []string{ctfex.RootsFile(ders)}}
	real := time.Now()
	for si, s := range c.Steps {
		w := s.W
		setTS(&cfg.NotAfterStart, w.Start, s.InPlace)
		setTS(&cfg.NotAfterLimit, w.Limit, s.InPlace)
		cfg.RejectExpired, cfg.RejectUnexpired = s.Expiry == 1, s.Expiry == 2
		if si > 0 {
			v.NonTrivial = true
		}
		inverted := w.Start != nil && w.Limit != nil && cmp(*w.Start, *w.Limit) > 0

		vc, err := ctfe.ValidateLogConfig(cfg)
		// metamorphic: the verdict on the long-lived message equals the verdict on a fresh deep copy of it
		_, errFresh := ctfe.ValidateLogConfig(proto.Clone(cfg).(*configpb.LogConfig))
		if (err == nil) != (errFresh == nil) {
			v.Failf("ctfe-config-verdict-depends-on-history", "step %d: ValidateLogConfig of the re-used message with window %v says %v, of a fresh copy of the same message says %v", si, w, errStr(err), errStr(errFresh))
		}
		if inverted {
			v.Class("step:inverted-window")
			if err == nil {
				v.Class("step:inverted-accepted")
			}
			continue
		}
		v.Class("step:valid-window")
		if err != nil {
			v.Failf("ctfe-valid-window-refused", "step %d: ValidateLogConfig refuses window %v: %v", si, w, err)
			return v
		}
		pol := Policy{Expiry: s.Expiry, Now: c.Now, Margin: 1}
		opts := ctfe.NewCertValidationOpts(pool, c.Now.Time(), vc.Config.RejectExpired, vc.Config.RejectUnexpired, vc.NotAfterStart, vc.NotAfterLimit, vc.Config.AcceptOnlyCa, vc.KeyUsages)
		var inst *ctfex.Instance
		var be *reflog.Log
		if s.Instance {
			be = reflog.New(6962, 1)
			raw, err := ctfe.SetUpInstanceForVerif(context.Background(), ctfe.InstanceOptions{Validated: vc, Client: be, Deadline: 10 * time.Second, MetricFactory: monitoring.InertMetricFactory{}, RequestLog: &ctfex.SpyLog{}}, ctfe.VerifOverrides{})
			if err != nil {
				v.Failf("ctfe-valid-window-refused", "step %d: instance set-up refuses window %v: %v", si, w, err)
				return v
			}
			inst = &ctfex.Instance{Instance: raw, Prefix: "/log"}
			v.Class("step:instance")
		}
		instPol := Policy{Expiry: s.Expiry, Now: Inst{S: real.Unix(), N: int32(real.Nanosecond())}, Margin: 2 * 86400}
		for _, p := range s.Probes {
			for _, sec := range certSeconds(p) {
				if nearBound(w, sec) {
					v.NonTrivial = true
				}
				if si > 0 {
					prev := c.Steps[si-1].W
					if inside(prev, sec) != inside(w, sec) {
						v.Class("probe:tells-previous-window-apart")
					}
				}
				judgeValidate(&v, opts, w, sec, c.Chain, fmt.Sprintf("step %d (message re-used): ", si), pol)
				if inst != nil {
					ch := chainFor(sec.S, c.Chain)
					before := len(be.CallsOf("QueueLeaf"))
					rsp := inst.Post(addPath(c.Chain), addChainBody(ch.ders))
					queued := len(be.CallsOf("QueueLeaf")) - before
					mustAdmit, mustRefuse := expect(w, sec, instPol)
					if mustAdmit && (rsp.Status != 200 || queued != 1) {
						v.Failf("ctfe-refuses-inside", "step %d (message re-used): %s of NotAfter %v under window %v%v: status %d (%s)", si, addPath(c.Chain), sec, w, instPol, rsp.Status, strings.TrimSpace(string(rsp.Body)))
					}
					if mustRefuse && (rsp.Status < 400 || rsp.Status > 499 || queued != 0) {
						v.Failf("ctfe-admits-outside", "step %d (message re-used): %s of NotAfter %v under window %v%v: status %d, %d QueueLeaf calls", si, addPath(c.Chain), sec, w, instPol, rsp.Status, queued)
					}
				}
			}
		}
	}
	return v
}

func errStr(err error) string {
	if err == nil {
		return "valid"
	}
	return "invalid (" + err.Error() + ")"
}

// ReconfProp: the admission window is the one the config message carries NOW, whatever the same
// message object said when it was validated before.
var ReconfProp = harness.Define(harness.Opts{
	Name:  "reconfig",
	Rule:  "ONE configpb.LogConfig message validated 2-4 times; between validations its window is changed in place (rolled forward, a bound dropped, nudged by 1 ns / 1 s, replaced; Timestamp fields overwritten or pointers swapped; sometimes inverted; expiry flags toggled). After each validation ValidateChain (and add-[pre-]chain on an Instance set up from the validated config) must follow start <= t < limit of the CURRENT window at instants next to the bounds of every step, and the validation verdict must equal that of a fresh deep copy of the message. Non-trivial: second or later step, or NotAfter within 1 s of a bound",
	Quick: 1500, Thorough: 15000,
}, genReconf, checkReconf)
