package c18

import (
	"fmt"
	"net/http"
	"testing"

	"github.com/google/certificate-transparency-go/client"
	clientpb "github.com/google/certificate-transparency-go/client/configpb"
	"github.com/google/certificate-transparency-go/loglist3"
	"github.com/google/certificate-transparency-go/trillian/ctfe"
	"github.com/google/certificate-transparency-go/x509util"
	"pgregory.net/rapid"

	"verif/internal/harness"
)

// ShardsCase: a shard list (contiguous or broken) and instants to route.
type ShardsCase struct {
	Shards []Window
	Probes []Inst
	Chain  ChainKind
	Zones  Zones
}

// genContiguous draws a chronological, gap-free list of n shards.
func genContiguous(t *rapid.T, n int) []Window {
	type dur struct{ s, n int64 }
	ws := make([]dur, n)
	for i := range ws {
		ws[i].s, ws[i].n = genWidth(t, fmt.Sprintf("w%d", i))
	}
	b := make([]Inst, n+1)
	switch rapid.IntRange(0, 9).Draw(t, "anchor") {
	case 0: // the list starts at the smallest Timestamp
		b[0] = Inst{S: minTS}
	case 1: // the list ends at the largest Timestamp
		b[n] = Inst{S: maxTS, N: 999999999}
		for i := n - 1; i >= 0; i-- {
			b[i] = add(b[i+1], -ws[i].s, -ws[i].n)
		}
	default:
		b[0] = genBase(t, "base")
		if room := int64(n+1) * 86400 * 366 * 10; b[0].S > maxTS-room {
			b[0].S -= room // room for n shards of up to ten years
		}
	}
	if b[n] == (Inst{}) {
		for i := 0; i < n; i++ {
			b[i+1] = add(b[i], ws[i].s, ws[i].n)
		}
	}
	out := make([]Window, n)
	for i := range out {
		lo, hi := b[i], b[i+1]
		out[i] = Window{Start: &lo, Limit: &hi}
	}
	if rapid.IntRange(0, 3).Draw(t, "openlow") == 0 {
		out[0].Start = nil
	}
	if rapid.IntRange(0, 3).Draw(t, "openhigh") == 0 {
		out[n-1].Limit = nil
	}
	return out
}

func shift(w Window, ds, dn int64) Window {
	var o Window
	if w.Start != nil {
		x := add(*w.Start, ds, dn)
		o.Start = &x
	}
	if w.Limit != nil {
		x := add(*w.Limit, ds, dn)
		o.Limit = &x
	}
	return o
}

func clampTS(ws []Window) bool {
	for _, w := range ws {
		for _, b := range []*Inst{w.Start, w.Limit} {
			if b != nil && !validTS(*b) {
				return false
			}
		}
	}
	return true
}

func genShards(t *rapid.T) ShardsCase {
	n := rapid.IntRange(1, 6).Draw(t, "n")
	if rapid.IntRange(0, 5).Draw(t, "many") == 0 {
		// monthly / quarterly sharding: long lists (implementations may switch algorithm with size)
		n = rapid.IntRange(7, 40).Draw(t, "nmany")
	}
	sh := genContiguous(t, n)
	orig := append([]Window(nil), sh...)
	if rapid.IntRange(0, 9).Draw(t, "break") < 4 {
		k := 0
		if n > 1 {
			k = rapid.IntRange(1, n-1).Draw(t, "at")
		}
		small := [][2]int64{{0, 1}, {0, 999999999}, {1, 0}, {86400, 0}}
		d := small[rapid.IntRange(0, len(small)-1).Draw(t, "delta")]
		switch kind := rapid.IntRange(0, 8).Draw(t, "kind"); {
		case kind == 0 && n > 1: // gap before shard k: everything from k on moves later
			for i := k; i < n; i++ {
				sh[i] = shift(sh[i], d[0], d[1])
			}
		case kind == 1 && n > 1: // overlap: everything from k on moves earlier
			for i := k; i < n; i++ {
				sh[i] = shift(sh[i], -d[0], -d[1])
			}
		case kind == 2: // one shard inverted
			j := rapid.IntRange(0, n-1).Draw(t, "inv")
			if sh[j].Start != nil && sh[j].Limit != nil {
				sh[j].Start, sh[j].Limit = sh[j].Limit, sh[j].Start
			}
		case kind == 3: // an empty shard [b, b) spliced in between two neighbours (contiguity kept)
			j := rapid.IntRange(0, n).Draw(t, "emp")
			var at *Inst
			if j < n {
				at = sh[j].Start
			}
			if at == nil && j > 0 {
				at = sh[j-1].Limit
			}
			if at != nil {
				a1, a2 := *at, *at
				e := Window{Start: &a1, Limit: &a2}
				sh = append(sh[:j], append([]Window{e}, sh[j:]...)...)
			}
		case kind == 4 && n > 1: // an unbounded shard followed by another
			sh[k-1].Limit = nil
		case kind == 5 && n > 1: // missing lower bound in the middle
			sh[k].Start = nil
		case kind == 6 && n > 1: // chronologically descending
			for i, j := 0, n-1; i < j; i, j = i+1, j-1 {
				sh[i], sh[j] = sh[j], sh[i]
			}
		case kind == 7: // one shard listed twice
			j := rapid.IntRange(0, n-1).Draw(t, "dup")
			sh = append(sh[:j+1], append([]Window{sh[j]}, sh[j+1:]...)...)
		case kind == 8 && n > 2: // one shard missing from the middle
			sh = append(sh[:k], sh[k+1:]...)
		}
		if !clampTS(sh) {
			sh = orig
		}
	}
	c := ShardsCase{Shards: sh, Chain: genChainKind(t), Zones: genZones(t)}
	var bounds []Inst
	for _, w := range sh {
		bounds = append(bounds, w.bounds()...)
	}
	np := rapid.IntRange(2, 6).Draw(t, "nprobes")
	for i := 0; i < np; i++ {
		c.Probes = append(c.Probes, genProbe(t, fmt.Sprintf("p%d", i), bounds))
	}
	// the two ends of the whole list get their own probes: in a long list they are two bounds among many
	var ends []Inst
	if sh[0].Start != nil {
		ends = append(ends, *sh[0].Start)
	}
	if sh[len(sh)-1].Limit != nil {
		ends = append(ends, *sh[len(sh)-1].Limit)
	}
	if len(ends) > 0 {
		ne := rapid.IntRange(0, 2).Draw(t, "nends")
		for i := 0; i < ne; i++ {
			c.Probes = append(c.Probes, genProbe(t, fmt.Sprintf("e%d", i), ends))
		}
	}
	return c
}

// diagnose applies the statement's construction rule to a shard list: "" when it is a contiguous,
// chronological list of non-inverted intervals in which only the first may lack a start and only the
// last may lack a limit; otherwise the first reason it is not.
func diagnose(sh []Window) string {
	for _, w := range sh {
		if w.Start != nil && w.Limit != nil {
			if c := cmp(*w.Start, *w.Limit); c > 0 {
				return "inverted"
			} else if c == 0 {
				return "empty"
			}
		}
	}
	for i := 1; i < len(sh); i++ {
		switch {
		case sh[i-1].Limit == nil:
			return "extends-unbounded"
		case sh[i].Start == nil:
			return "no-start-in-the-middle"
		case cmp(*sh[i].Start, *sh[i-1].Limit) > 0:
			return "gap"
		case cmp(*sh[i].Start, *sh[i-1].Limit) < 0:
			return "overlap"
		}
	}
	return ""
}

func shardList(sh []Window) *clientpb.TemporalLogConfig {
	cfg := &clientpb.TemporalLogConfig{}
	for i, w := range sh {
		cfg.Shard = append(cfg.Shard, shardCfg(i, w))
	}
	return cfg
}

// logList expresses the shards as a log list spread over two operators; the second result maps
// list position -> URL ("" where the window is inexpressible).
func logList(sh []Window, z int) (*loglist3.LogList, []string) {
	ops := []*loglist3.Operator{{Name: "even"}, {Name: "odd"}}
	urls := make([]string, len(sh))
	for i, w := range sh {
		if l, ok := logFor(i, w, z); ok {
			ops[i%2].Logs = append(ops[i%2].Logs, l)
			urls[i] = l.URL
		}
	}
	ll := &loglist3.LogList{}
	for _, op := range ops {
		if len(op.Logs) > 0 {
			ll.Operators = append(ll.Operators, op)
		}
	}
	return ll, urls
}

func checkShards(t *testing.T, c ShardsCase) (v harness.Verdict) {
	sh := c.Shards
	if len(sh) == 0 || !clampTS(sh) {
		v.Discard = true
		return v
	}
	why := diagnose(sh)
	tlc, err := client.NewTemporalLogClient(shardList(sh), http.DefaultClient)
	ll, urls := logList(sh, c.Zones[1])
	v.Class(fmt.Sprintf("shards:%d", len(sh)))

	if why != "" {
		v.NonTrivial = true
		v.Class("broken:" + why)
		if err == nil {
			v.Failf("client-accepts-"+why, "NewTemporalLogClient accepts a shard list that is broken (%s): %v", why, sh)
		}
	} else {
		v.Class("contiguous")
		if sh[0].Start == nil {
			v.Class("contiguous:open-low")
		}
		if sh[len(sh)-1].Limit == nil {
			v.Class("contiguous:open-high")
		}
		if err != nil {
			v.Failf("client-refuses-contiguous", "NewTemporalLogClient refuses the contiguous list %v: %v", sh, err)
			return v
		}
	}

	opts := map[int]ctfe.CertValidationOpts{}
	var pool *x509util.PEMCertPool
	if why == "" {
		pool, _ = trustFor(c.Chain, secsOf(c.Probes))
		chainClasses(&v, c.Chain)
		if len(sh) > 8 {
			v.Class("contiguous:more-than-8-shards")
		}
	}
	// optsFor validates shard i's window on first use (long lists only visit some shards per instant)
	optsFor := func(i int) (ctfe.CertValidationOpts, bool) {
		if o, ok := opts[i]; ok {
			return o, true
		}
		o, err := windowOpts(sh[i], Policy{}, pool)
		if err != nil {
			v.Failf("ctfe-valid-window-refused", "ValidateLogConfig refuses the window of shard %d %v: %v", i, sh[i], err)
			return o, false
		}
		opts[i] = o
		return o, true
	}

	span := Window{Start: sh[0].Start, Limit: sh[len(sh)-1].Limit}
	seen := map[Inst]bool{}
	for _, p := range c.Probes {
		var in []int
		near := false
		for i, w := range sh {
			if inside(w, p) {
				in = append(in, i)
			}
			near = near || nearBound(w, p)
		}
		if near {
			v.NonTrivial = true
			v.Class("t:near-bound")
		}
		// log list: pure per-log predicate, meaningful for broken lists too
		var wantURLs []string
		for _, i := range in {
			if urls[i] != "" {
				wantURLs = append(wantURLs, urls[i])
			}
		}
		if len(ll.Operators) > 0 && logListApplies(&v, p) {
			judgeLogList(&v, ll, wantURLs, p, c.Zones[0], c.Chain.Root, fmt.Sprintf("shards %v", sh))
		}
		if why != "" {
			continue
		}
		// a contiguous list: the predicate itself must select exactly one shard inside the span, none outside
		if inSpan := inside(span, p); (inSpan && len(in) != 1) || (!inSpan && len(in) != 0) {
			t.Fatalf("oracle self-check: instant %v, span %v, shards %v: %d shards contain it", p, span, sh, len(in))
		}
		want := -1
		if len(in) == 1 {
			want = in[0]
			v.Class("route:in-span")
			if want > 0 && cmp(p, *sh[want].Start) == 0 {
				v.Class("route:at-inner-boundary")
			}
		} else {
			v.Class("route:outside-span")
		}
		idx, err := tlc.IndexByDate(p.In(c.Zones[0]))
		switch {
		case want < 0 && err == nil:
			v.Failf("client-routes-outside", "IndexByDate(%v) = %d, but the instant is outside the span %v of %v", p, idx, span, sh)
		case want >= 0 && err != nil:
			v.Failf("client-misses-inside", "IndexByDate(%v) fails (%v), but shard %d %v contains it", p, err, want, sh[want])
		case want >= 0 && idx != want:
			v.Failf("client-wrong-shard", "IndexByDate(%v) = %d, but start <= t < limit holds for shard %d %v only (list %v)", p, idx, want, sh[want], sh)
		}
		// routed to shard i <=> a server configured with shard i's window admits
		for _, s := range certSeconds(p) {
			if seen[s] {
				continue
			}
			seen[s] = true
			ridx, rerr := tlc.IndexByDate(s.Time())
			if rerr != nil {
				ridx = -1
			}
			// every shard of a short list; of a long one the first, the last, the shard the client chose,
			// the shard that contains the instant, and their neighbours
			visit := map[int]bool{0: true, len(sh) - 1: true}
			for _, x := range []int{ridx, want} {
				for d := -1; d <= 1; d++ {
					if x >= 0 && x+d >= 0 && x+d < len(sh) {
						visit[x+d] = true
					}
				}
			}
			for i, w := range sh {
				if len(sh) > 8 && !visit[i] {
					continue
				}
				o, ok := optsFor(i)
				if !ok {
					return v
				}
				v.Class("ctfe:validate")
				admitted := judgeValidate(&v, o, w, s, c.Chain, fmt.Sprintf("shard %d: ", i), Policy{})
				if admitted != (ridx == i) {
					v.Failf("route-admission-mismatch", "NotAfter %v: client routes to shard %d, a server with the window of shard %d %v admits=%v", s, ridx, i, w, admitted)
				}
			}
		}
	}
	return v
}

// ShardsProp is the shard-list half of C18.
var ShardsProp = harness.Define(harness.Opts{
	Name:  "shards",
	Rule:  "shard lists of 1-6 (one in six: 7-40) contiguous shards (open or closed ends, nanosecond bounds) and broken variants (gap, overlap, inverted, empty, unbounded-then-more, missing start in the middle, reversed, duplicate, missing shard); 2-6 instants at bound-1s/-1ns/0/+1ns/+1s/far plus 0-2 at the two ends of the whole list. NewTemporalLogClient refuses exactly the broken lists; IndexByDate = the one shard with start <= t < limit or none; each shard's window in ValidateChain admits iff routed there; the log-list filter keeps exactly the logs containing t. Non-trivial: broken list, or an instant within 1 s of a bound",
	Quick: 3000, Thorough: 30000,
}, genShards, checkShards)
