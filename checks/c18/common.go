// Package c18: every component draws temporal shard boundaries at the same instants.
//
// The oracle is the predicate of the statement, start <= t < limit with either bound optional,
// evaluated on (unix second, nanosecond) integer pairs - it never touches time.Time comparisons, the
// code under test, or protobuf timestamps.
package c18

import (
	"encoding/base64"
	"encoding/json"
	"fmt"
	"math/big"
	"os"
	"sync"
	"time"

	"github.com/google/certificate-transparency-go/trillian/ctfe"
	"github.com/google/certificate-transparency-go/trillian/ctfe/configpb"
	"github.com/google/certificate-transparency-go/x509"
	"github.com/google/certificate-transparency-go/x509util"
	"google.golang.org/protobuf/types/known/timestamppb"
	"pgregory.net/rapid"

	"verif/internal/ctfex"
	"verif/internal/derx"
	"verif/internal/harness"
	"verif/internal/keys"
	"verif/internal/pki"
	"verif/internal/world"
)

// Inst is an instant: unix seconds + nanoseconds in [0, 1e9).
type Inst struct {
	S int64
	N int32
}

// Window is [Start, Limit) with optional bounds.
type Window struct {
	Start *Inst `json:",omitempty"`
	Limit *Inst `json:",omitempty"`
}

const (
	minTS = int64(-62135596800) // 0001-01-01T00:00:00Z, the smallest valid protobuf Timestamp
	maxTS = int64(253402300799) // 9999-12-31T23:59:59Z
	nano  = int64(1000000000)
)

var (
	// certificates are generated for NotAfter in [1951-01-01, 9999-12-31T23:59:59Z] only.
	minCert = time.Date(1951, 1, 1, 0, 0, 0, 0, time.UTC).Unix()
	maxCert = maxTS
	y2050   = time.Date(2050, 1, 1, 0, 0, 0, 0, time.UTC).Unix()
)

// pkiNow is the "current time" handed to the validator (expiry checks are off in every configuration used).
var pkiNow = pki.Epoch

func cmp(a, b Inst) int {
	switch {
	case a.S < b.S:
		return -1
	case a.S > b.S:
		return 1
	case a.N < b.N:
		return -1
	case a.N > b.N:
		return 1
	}
	return 0
}

// add returns a + (ds seconds, dn nanoseconds), normalised. Uses math/big-free integer arithmetic;
// operands are far from the int64 limits (|S| < 2^38).
func add(a Inst, ds, dn int64) Inst {
	s := a.S + ds
	n := int64(a.N) + dn
	s += n / nano
	n %= nano
	if n < 0 {
		n += nano
		s--
	}
	return Inst{S: s, N: int32(n)}
}

// inside is the statement's predicate.
func inside(w Window, t Inst) bool {
	if w.Start != nil && cmp(*w.Start, t) > 0 {
		return false
	}
	if w.Limit != nil && cmp(t, *w.Limit) >= 0 {
		return false
	}
	return true
}

func (i Inst) Time() time.Time { return time.Unix(i.S, int64(i.N)).UTC() }

// In presents the same instant with a fixed zone offset of z minutes (0 = UTC): which zone a
// time.Time is expressed in must not matter to any of the components.
func (i Inst) In(z int) time.Time {
	if z == 0 {
		return i.Time()
	}
	return i.Time().In(time.FixedZone("", z*60))
}

// Zones: [0] presentation of the probed instants, [1] presentation of the log list's interval bounds.
type Zones [2]int

func genZones(t *rapid.T) Zones {
	g := rapid.SampledFrom([]int{0, 0, 0, 60, -300, 330, 840, -720})
	return Zones{g.Draw(t, "zone.t"), g.Draw(t, "zone.ll")}
}
func (i Inst) String() string {
	return fmt.Sprintf("%s(%d.%09d)", i.Time().Format("2006-01-02T15:04:05.999999999Z"), i.S, i.N)
}
func (w Window) String() string {
	s, l := "-inf", "+inf"
	if w.Start != nil {
		s = w.Start.String()
	}
	if w.Limit != nil {
		l = w.Limit.String()
	}
	return "[" + s + ", " + l + ")"
}

func ts(i *Inst) *timestamppb.Timestamp {
	if i == nil {
		return nil
	}
	return &timestamppb.Timestamp{Seconds: i.S, Nanos: i.N}
}

func validTS(i Inst) bool { return i.S >= minTS && i.S <= maxTS && i.N >= 0 && int64(i.N) < nano }

// certSeconds lists the whole-second instants next to t that an X.509 NotAfter can carry: floor(t)
// and, when t has a sub-second part, floor(t)+1. Instants outside the encodable range are dropped.
func certSeconds(t Inst) []Inst {
	var out []Inst
	c := []Inst{{S: t.S}}
	if t.N != 0 {
		c = append(c, Inst{S: t.S + 1})
	}
	for _, x := range c {
		if x.S >= minCert && x.S <= maxCert {
			out = append(out, x)
		}
	}
	return out
}

// ---- generators ----

var nanoChoices = []int32{0, 0, 0, 1, 2, 500000000, 999999998, 999999999}

func genNanos(t *rapid.T, label string) int32 {
	if rapid.IntRange(0, 9).Draw(t, label+".nr") == 0 {
		return int32(rapid.IntRange(0, 999999999).Draw(t, label+".nv"))
	}
	return rapid.SampledFrom(nanoChoices).Draw(t, label+".n")
}

// genBase draws a bound: mostly in the decades certificates live in, sometimes at the UTCTime /
// GeneralizedTime switch, the edges of the certificate range or of the Timestamp range.
func genBase(t *rapid.T, label string) Inst {
	var s int64
	switch rapid.IntRange(0, 11).Draw(t, label+".where") {
	case 0: // around 2050-01-01 (UTCTime -> GeneralizedTime)
		s = y2050 + int64(rapid.IntRange(-3, 3).Draw(t, label+".d"))
	case 1: // early
		s = minCert + int64(rapid.IntRange(0, 86400*365*30).Draw(t, label+".d"))
	case 2: // late
		s = maxCert - int64(rapid.IntRange(0, 86400*365*100).Draw(t, label+".d"))
	case 3: // anywhere a Timestamp can be
		s = rapid.Int64Range(minTS, maxTS).Draw(t, label+".any")
	case 4: // unix epoch and the 2^31 / 2^32 second marks
		s = rapid.SampledFrom([]int64{0, 1 << 31, 1 << 32, -1}).Draw(t, label+".mark") + int64(rapid.IntRange(-2, 2).Draw(t, label+".d"))
	default: // 2020 .. 2040
		s = 1577836800 + rapid.Int64Range(0, 86400*365*20).Draw(t, label+".d")
	}
	return Inst{S: s, N: genNanos(t, label)}
}

// genWidth draws a positive duration as (seconds, nanos).
func genWidth(t *rapid.T, label string) (int64, int64) {
	switch rapid.IntRange(0, 11).Draw(t, label+".wk") {
	case 0:
		return 0, 1
	case 1:
		return 0, 999999999
	case 2:
		return 1, 0
	case 3:
		return 1, 1
	case 4:
		return 2, 0
	case 5:
		return 60, 0
	case 6:
		return 86400, 0
	case 7:
		return 86400 * 365, 0
	case 8:
		return int64(rapid.IntRange(0, 3).Draw(t, label+".ws")), int64(rapid.IntRange(1, 999999999).Draw(t, label+".wn"))
	default:
		return rapid.Int64Range(1, 86400*365*10).Draw(t, label+".ws"), int64(genNanos(t, label+".w"))
	}
}

// deltas are the offsets of the design: bound-1s, -1ns, bound, +1ns, +1s (far is drawn separately).
var deltas = [][2]int64{{-1, 0}, {0, -1}, {0, 0}, {0, 1}, {1, 0}}

// genProbe draws an instant next to one of the bounds (or far from all of them).
func genProbe(t *rapid.T, label string, bounds []Inst) Inst {
	if len(bounds) == 0 {
		return genBase(t, label+".free")
	}
	b := bounds[rapid.IntRange(0, len(bounds)-1).Draw(t, label+".b")]
	k := rapid.IntRange(0, 6).Draw(t, label+".k")
	switch {
	case k < 5:
		return add(b, deltas[k][0], deltas[k][1])
	case k == 5: // far, relative
		d := rapid.Int64Range(2, 86400*365*5).Draw(t, label+".far")
		if rapid.Bool().Draw(t, label+".neg") {
			d = -d
		}
		return add(b, d, int64(genNanos(t, label+".fn")))
	default: // far, absolute
		return genBase(t, label+".abs")
	}
}

// ---- certificates ----

// ChainKind selects the issuing path of the generated leaf.
type ChainKind struct {
	Root    int  // index into world.Roots()
	Inter   bool // one intermediate between root and leaf
	Precert bool // leaf carries the poison extension (submitted through add-pre-chain)
	// Lone: the submission is ONE certificate, a self-signed root with the drawn NotAfter that the log
	// trusts (RFC 6962 s3.1 lets a chain consist of a root); its NotAfter is judged like any leaf's.
	Lone bool `json:",omitempty"`
	// NB places the leaf's NotBefore relative to its NotAfter: 0 ninety days earlier (ordinary), 1 one
	// second earlier, 2 equal, 3 one second LATER, 4 one year LATER. Admission window and shard choice
	// depend on NotAfter alone, so the other end of the validity period must not matter to either side.
	NB int `json:",omitempty"`
	// Quirk gives the leaf a defect the lenient X.509 parser reports as a NON-FATAL error (the front end
	// accepts such certificates): 1 a SAN with a 5-octet iPAddress, 2 an embedded SCT-list extension whose
	// TLS structure is malformed (certificates only). The window applies to them like to any leaf.
	Quirk int `json:",omitempty"`
}

var nbOffsets = []time.Duration{-90 * 24 * time.Hour, -time.Second, 0, time.Second, 365 * 24 * time.Hour}

func genChainKind(t *rapid.T) ChainKind {
	k := ChainKind{Root: rapid.IntRange(0, len(world.RootKinds)-1).Draw(t, "root"), Inter: rapid.Bool().Draw(t, "inter"), Precert: rapid.IntRange(0, 3).Draw(t, "pre") == 0}
	if rapid.IntRange(0, 5).Draw(t, "lone") == 0 {
		k = ChainKind{Root: k.Root, Lone: true}
	} else if rapid.IntRange(0, 3).Draw(t, "nbodd") == 0 {
		k.NB = rapid.IntRange(1, 4).Draw(t, "nb")
	}
	if !k.Lone && rapid.IntRange(0, 4).Draw(t, "quirky") == 0 {
		k.Quirk = 1
		if !k.Precert && rapid.Bool().Draw(t, "quirk2") {
			k.Quirk = 2
		}
	}
	return k
}

type leafKey struct {
	sec int64
	k   ChainKind
}

type chain struct {
	leaf *pki.Cert
	ders [][]byte // leaf, (issuer); the root is submitted only as the direct issuer of a precertificate
}

var (
	leafMu    sync.Mutex
	leafCache = map[leafKey]*chain{}
	interMu   sync.Mutex
	interC    = map[int]*pki.Cert{}
	poolOnce  sync.Once
	rootPool  *x509util.PEMCertPool
)

func roots() *x509util.PEMCertPool {
	poolOnce.Do(func() {
		rootPool = x509util.NewPEMCertPool()
		for _, r := range world.Roots() {
			c, err := x509.ParseCertificate(r.DER)
			if err != nil {
				panic(fmt.Sprintf("c18: world root does not parse: %v", err))
			}
			worldParsed = append(worldParsed, c)
			rootPool.AddCert(c)
		}
	})
	return rootPool
}

var worldParsed []*x509.Certificate

// poolWith is the standard trust set plus the given extra roots.
func poolWith(extra []*pki.Cert) *x509util.PEMCertPool {
	roots()
	p := x509util.NewPEMCertPool()
	for _, c := range worldParsed {
		p.AddCert(c)
	}
	for _, e := range extra {
		c, err := x509.ParseCertificate(e.DER)
		if err != nil {
			panic(fmt.Sprintf("c18: generated root does not parse: %v", err))
		}
		p.AddCert(c)
	}
	return p
}

// trustFor returns what a log must trust for the case: the standard roots, plus - for lone-root
// submissions - the generated root of every NotAfter second the case will submit.
func trustFor(k ChainKind, secs []int64) (*x509util.PEMCertPool, []*pki.Cert) {
	if !k.Lone {
		return roots(), world.Roots()
	}
	var extra []*pki.Cert
	seen := map[int64]bool{}
	for _, s := range secs {
		if s < minCert || s > maxCert || seen[s] {
			continue
		}
		seen[s] = true
		extra = append(extra, chainFor(s, k).leaf)
	}
	return poolWith(extra), append(append([]*pki.Cert{}, world.Roots()...), extra...)
}

// secsOf lists the certificate seconds next to the probed instants.
func secsOf(probes []Inst) []int64 {
	var out []int64
	for _, p := range probes {
		for _, s := range certSeconds(p) {
			out = append(out, s.S)
		}
	}
	return out
}

// newInstance is ctfex.New; for lone-root cases (a distinct trust set per case) the content-addressed
// roots file is removed again once the instance has read it.
func newInstance(o ctfex.Opts, lone bool) (*ctfex.Instance, error) {
	var path string
	inner := o.Cfg
	o.Cfg = func(lc *configpb.LogConfig) {
		if len(lc.RootsPemFile) > 0 {
			path = lc.RootsPemFile[0]
		}
		if inner != nil {
			inner(lc)
		}
	}
	inst, err := ctfex.New(o)
	if lone && path != "" {
		os.Remove(path)
	}
	return inst, err
}

func intermediate(root int) *pki.Cert {
	interMu.Lock()
	defer interMu.Unlock()
	if c, ok := interC[root]; ok {
		return c
	}
	r := world.Roots()[root]
	t := pki.CATemplate(fmt.Sprintf("C18 CA %d", root), keys.Pick("p256", 20+root), int64(7000+root), pki.KeyID(r.Key))
	// the CA outlives every leaf the check issues
	t.NotBefore = time.Date(1950, 1, 1, 0, 0, 0, 0, time.UTC)
	t.NotAfter = time.Date(9999, 12, 31, 23, 59, 59, 0, time.UTC)
	c := pki.Issue(r, t, fmt.Sprintf("c18ca%d", root))
	interC[root] = c
	return c
}

// chainFor returns (cached) a valid chain whose leaf has NotAfter = sec exactly. On first use the
// chain is validated once without any window: a chain the front end refuses for another reason would
// make every "outside" expectation pass vacuously.
func chainFor(sec int64, k ChainKind) *chain {
	if k.NB < 0 || k.NB >= len(nbOffsets) {
		k.NB = 0
	}
	if k.Quirk < 0 || k.Quirk > 2 || k.Lone || (k.Quirk == 2 && k.Precert) {
		k.Quirk = 0
	}
	if sec < minCert || sec > maxCert {
		panic(fmt.Sprintf("c18: NotAfter %d outside the certificate range", sec))
	}
	key := leafKey{sec, k}
	leafMu.Lock()
	defer leafMu.Unlock()
	if c, ok := leafCache[key]; ok {
		return c
	}
	if len(leafCache) > 4096 {
		leafCache = map[leafKey]*chain{}
	}
	if k.Lone {
		kk := keys.Pick("p256", 40+int(sec%5))
		t := pki.CATemplate(fmt.Sprintf("C18 Lone Root %d", sec), kk, sec-minCert+1, nil)
		na := time.Unix(sec, 0).UTC()
		t.NotAfter = na
		t.NotBefore = na.AddDate(-10, 0, 0)
		root := pki.Issue(nil, t, fmt.Sprintf("c18lone%d", sec))
		c := &chain{leaf: root, ders: [][]byte{root.DER}}
		opts := ctfe.NewCertValidationOpts(poolWith([]*pki.Cert{root}), pki.Epoch, false, false, nil, nil, false, nil)
		path, err := ctfe.ValidateChain(c.ders, opts)
		if err != nil {
			panic(fmt.Sprintf("c18: generated lone root (NotAfter %d) is refused without any window by a log trusting it: %v", sec, err))
		}
		if got := path[0].NotAfter; got.Unix() != sec || got.Nanosecond() != 0 || len(path) != 1 {
			panic(fmt.Sprintf("c18: generated lone root parses with NotAfter %v (path of %d), want unix %d", got, len(path), sec))
		}
		leafCache[key] = c
		return c
	}
	issuer := world.Roots()[k.Root]
	var ders [][]byte
	if k.Inter {
		issuer = intermediate(k.Root)
	}
	cn := fmt.Sprintf("c18-%d", sec)
	lk := keys.Pick("p256", int(sec%7))
	serial := new(big.Int).SetInt64(sec - minCert + 1)
	serial.Lsh(serial, 4).Add(serial, big.NewInt(int64(k.Root*4)+b2i(k.Inter)*2+b2i(k.Precert)))
	serial.Lsh(serial, 3).Add(serial, big.NewInt(int64(k.NB%len(nbOffsets))))
	serial.Lsh(serial, 2).Add(serial, big.NewInt(int64(k.Quirk&3)))
	t := pki.LeafTemplate(cn, lk, 1, pki.KeyID(issuer.Key))
	t.Serial = serial
	na := time.Unix(sec, 0).UTC()
	t.NotAfter = na
	t.NotBefore = na.Add(nbOffsets[k.NB%len(nbOffsets)])
	if end := time.Unix(maxCert, 0).UTC(); t.NotBefore.After(end) {
		t.NotBefore = end // year 9999 is the last an X.509 time can name
	}
	switch k.Quirk {
	case 1:
		for i, e := range t.Exts {
			if pki.OIDEq(e.OID, pki.OIDExtSAN) {
				t.Exts[i] = pki.Ext{OID: pki.OIDExtSAN, Value: derx.Seq(derx.TLV(0x82, []byte(cn+".example.com")), derx.TLV(0x87, []byte{10, 0, 0, 1, 9}))}
			}
		}
	case 2:
		// list length says 5 octets, 3 follow
		t.Exts = append(t.Exts, pki.SCTList([]byte{0, 5, 0, 1, 7}))
	}
	if k.Precert {
		t.Exts = append([]pki.Ext{pki.Poison()}, t.Exts...)
	}
	leaf := pki.Issue(issuer, t, cn)
	ders = append(ders, leaf.DER)
	if k.Inter || k.Precert {
		// (a precertificate is always submitted with its issuer: clients need it to rebuild the entry)
		ders = append(ders, issuer.DER)
	}
	c := &chain{leaf: leaf, ders: ders}
	// control: admitted when no window is configured, and the parsed NotAfter is the intended instant
	opts := ctfe.NewCertValidationOpts(roots(), pki.Epoch, false, false, nil, nil, false, nil)
	path, err := ctfe.ValidateChain(ders, opts)
	if err != nil {
		panic(fmt.Sprintf("c18: generated chain (NotAfter %d, %+v) is refused without any window: %v", sec, k, err))
	}
	if got := path[0].NotAfter; got.Unix() != sec || got.Nanosecond() != 0 {
		panic(fmt.Sprintf("c18: generated leaf parses with NotAfter %v, want unix %d", got, sec))
	}
	// the quirk is what it is meant to be: a finding of the parser, but not a fatal one
	if _, perr := x509.ParseCertificate(leaf.DER); (perr != nil) != (k.Quirk != 0) || x509.IsFatal(perr) {
		panic(fmt.Sprintf("c18: generated leaf (%+v) parses with error %v; want a non-fatal error exactly for quirky leaves", k, perr))
	}
	leafCache[key] = c
	return c
}

func b2i(b bool) int64 {
	if b {
		return 1
	}
	return 0
}

func addChainBody(ders [][]byte) []byte {
	var req struct {
		Chain []string `json:"chain"`
	}
	for _, c := range ders {
		req.Chain = append(req.Chain, base64.StdEncoding.EncodeToString(c))
	}
	b, _ := json.Marshal(req)
	return b
}

func addPath(k ChainKind) string {
	if k.Precert {
		return "/ct/v1/add-pre-chain"
	}
	return "/ct/v1/add-chain"
}

// nearBound reports whether t lies within one second of a bound of w.
func nearBound(w Window, t Inst) bool {
	for _, b := range []*Inst{w.Start, w.Limit} {
		if b == nil {
			continue
		}
		lo, hi := add(*b, -1, 0), add(*b, 1, 0)
		if cmp(lo, t) <= 0 && cmp(t, hi) <= 0 {
			return true
		}
	}
	return false
}

// relClass names where t sits relative to a bound b (for the class histogram).
func relClass(b, t Inst) string {
	switch c := cmp(t, b); {
	case c == 0:
		return "at"
	case c < 0:
		if t == add(b, 0, -1) {
			return "-1ns"
		}
		if cmp(t, add(b, -1, 0)) >= 0 {
			return "-1s"
		}
		return "before"
	default:
		if t == add(b, 0, 1) {
			return "+1ns"
		}
		if cmp(t, add(b, 1, 0)) <= 0 {
			return "+1s"
		}
		return "after"
	}
}

func chainClasses(v *harness.Verdict, k ChainKind) {
	switch {
	case k.Lone:
		v.Class("chain:lone-root")
	case k.NB >= 3:
		v.Class("chain:notbefore-after-notafter")
	case k.NB > 0:
		v.Class("chain:notbefore-at-notafter")
	}
	if k.Quirk != 0 {
		v.Class(fmt.Sprintf("chain:nonfatal-parse-finding-%d", k.Quirk))
	}
}
