package c11

import (
	"crypto/elliptic"
	"fmt"
	"math/big"
	"testing"

	"github.com/google/certificate-transparency-go/x509"
	"pgregory.net/rapid"

	"verif/internal/derx"
	"verif/internal/harness"
	"verif/internal/pki"
)

// HistoryCase is a short history of DIFFERENT inputs that share the bits of one fresh public key (one no
// other case and no fixture has): every parse outcome must be a function of the input bytes alone, so
// asking again after the neighbours have been parsed - in the opposite order - must give the same verdict.
// The key is drawn, not taken from the pool: a parser must never have seen it when the case starts.
type HistoryCase struct {
	EC      bool      `json:"ec,omitempty"` // P-256 point from Scalar, else RSA (N, E)
	N       []byte    `json:"n,omitempty"`
	E       int       `json:"e,omitempty"`
	Scalar  []byte    `json:"scalar,omitempty"`
	Inputs  []HistInp `json:"inputs"`
	Reverse bool      `json:"reverse,omitempty"` // first pass in reverse listing order
}

// HistInp is one input: the key inside an algorithm identifier variant and a wrapper.
type HistInp struct {
	Alg  int `json:"alg"`  // index into histAlgs (RSA) / histCurves (EC)
	Wrap int `json:"wrap"` // 0 certificate, 1 bare SubjectPublicKeyInfo, 2 CSR, 3 TBSCertificate
}

// RSA AlgorithmIdentifier variants: the well-formed one first, then the shapes a lenient parser reports on.
var histAlgs = [][]byte{
	derx.Seq(derx.OID(1, 2, 840, 113549, 1, 1, 1), derx.Null()),
	derx.Seq(derx.OID(1, 2, 840, 113549, 1, 1, 1)),
	derx.Seq(derx.OID(1, 2, 840, 113549, 1, 1, 1), derx.Seq()),
	derx.Seq(derx.OID(1, 2, 840, 113549, 1, 1, 1), derx.Octets([]byte{1})),
	derx.Seq(derx.OID(2, 5, 8, 1, 1), derx.Null()),
	derx.Seq(derx.OID(1, 2, 840, 113549, 1, 1, 7), derx.Seq()),
	derx.Seq(derx.OID(1, 2, 840, 113549, 1, 1, 1), derx.TLV(0x05, nil), derx.Null()),
}

// EC parameter variants around the same point.
var histCurves = [][]byte{
	derx.Seq(derx.OID(1, 2, 840, 10045, 2, 1), derx.OID(1, 2, 840, 10045, 3, 1, 7)),
	derx.Seq(derx.OID(1, 2, 840, 10045, 2, 1), derx.OID(1, 3, 132, 0, 34)),
	derx.Seq(derx.OID(1, 2, 840, 10045, 2, 1)),
	derx.Seq(derx.OID(1, 2, 840, 10045, 2, 1), derx.Null()),
	derx.Seq(derx.OID(1, 2, 840, 10045, 2, 1), derx.OID(1, 2, 840, 10045, 3, 1, 7), derx.Null()),
}

func genHistory(t *rapid.T) HistoryCase {
	c := HistoryCase{EC: uni(t, "ec")%4 == 0, Reverse: rapid.Bool().Draw(t, "reverse")}
	if c.EC {
		c.Scalar = rapid.SliceOfN(rapid.Byte(), 16, 31).Draw(t, "scalar")
	} else {
		c.N = rapid.SliceOfN(rapid.Byte(), 64, 128).Draw(t, "n")
		c.E = []int{65537, 3, 17, 1, 1<<31 - 1}[uni(t, "e")%5]
	}
	n := 2 + uni(t, "inputs")%3
	for i := 0; i < n; i++ {
		in := HistInp{Wrap: []int{0, 0, 1, 2, 3}[uni(t, "wrap")%5]}
		if c.EC {
			in.Alg = uni(t, "alg") % len(histCurves)
		} else {
			in.Alg = uni(t, "alg") % len(histAlgs)
			if i == 0 && uni(t, "clean")%2 == 0 {
				in.Alg = 0
			}
		}
		c.Inputs = append(c.Inputs, in)
	}
	return c
}

func (c HistoryCase) keyBits() []byte {
	if c.EC {
		k := new(big.Int).SetBytes(c.Scalar)
		k.Add(k, big.NewInt(1))
		x, y := elliptic.P256().ScalarBaseMult(k.Bytes())
		return derx.BitString(elliptic.Marshal(elliptic.P256(), x, y), 0)
	}
	n := append([]byte(nil), c.N...)
	n[0] |= 0x40
	n[0] &= 0x7f
	n[len(n)-1] |= 1
	return derx.BitString(derx.Seq(derx.Int(new(big.Int).SetBytes(n)), intDER(c.E)), 0)
}

func (c HistoryCase) input(in HistInp) []byte {
	alg := histAlgs[in.Alg%len(histAlgs)]
	if c.EC {
		alg = histCurves[in.Alg%len(histCurves)]
	}
	spki := derx.Seq(alg, c.keyBits())
	name := pki.CN("history").DER()
	sig := derx.Seq(derx.OID(1, 2, 840, 113549, 1, 1, 11), derx.Null())
	sigVal := derx.BitString(make([]byte, 64), 0)
	tbs := derx.Seq(derx.Explicit(0, intDER(2)), intDER(1+in.Alg), sig, name, derx.Seq(derx.Time(pki.Epoch), derx.Time(pki.Epoch.AddDate(1, 0, 0))), name, spki)
	switch in.Wrap {
	case 1:
		return spki
	case 2:
		return derx.Seq(derx.Seq(intDER(0), name, spki, derx.TLV(0xa0)), sig, sigVal)
	case 3:
		return tbs
	}
	return derx.Seq(tbs, sig, sigVal)
}

// verdictOf parses one input with the entry point of its wrapper and renders everything observable.
func verdictOf(v *harness.Verdict, wrap int, in []byte) string {
	b := append([]byte(nil), in...)
	switch wrap {
	case 1:
		k, err := x509.ParsePKIXPublicKey(b)
		return fmt.Sprintf("%s|%v|%s", contract(v, "ParsePKIXPublicKey", k, err), err, pubString(k))
	case 2:
		r, err := x509.ParseCertificateRequest(b)
		s := fmt.Sprintf("%s|%v", contract(v, "ParseCertificateRequest", r, err), err)
		if r != nil {
			s += "|" + pubString(r.PublicKey) + "|" + r.PublicKeyAlgorithm.String()
		}
		return s
	case 3:
		c, err := x509.ParseTBSCertificate(b)
		s := fmt.Sprintf("%s|%v", contract(v, "ParseTBSCertificate", c, err), err)
		if c != nil {
			s += "|" + pubString(c.PublicKey) + "|" + c.PublicKeyAlgorithm.String()
		}
		return s
	}
	c, err := x509.ParseCertificate(b)
	s := fmt.Sprintf("%s|%v", contract(v, "ParseCertificate", c, err), err)
	if c != nil {
		s += "|" + pubString(c.PublicKey) + "|" + c.PublicKeyAlgorithm.String() + "|" + c.SerialNumber.String()
	}
	return s
}

func checkHistory(t *testing.T, c HistoryCase) harness.Verdict {
	var v harness.Verdict
	if len(c.Inputs) == 0 || (!c.EC && len(c.N) == 0) {
		v.Discard = true
		return v
	}
	var ins [][]byte
	for _, in := range c.Inputs {
		ins = append(ins, c.input(in))
	}
	order := make([]int, len(ins))
	for i := range order {
		order[i] = i
		if c.Reverse {
			order[i] = len(ins) - 1 - i
		}
	}
	first := make([]string, len(ins))
	for _, i := range order {
		first[i] = verdictOf(&v, c.Inputs[i].Wrap, ins[i])
	}
	classes := map[string]bool{}
	for pass := 0; pass < 2; pass++ { // opposite order, then the first order again
		for k := range order {
			i := order[len(order)-1-k]
			if pass == 1 {
				i = order[k]
			}
			again := verdictOf(&v, c.Inputs[i].Wrap, ins[i])
			if again != first[i] {
				v.Failf("history:verdict-depends-on-earlier-inputs", "input %d (alg variant %d, wrapper %d): first verdict %q, after its neighbours had been parsed %q", i, c.Inputs[i].Alg, c.Inputs[i].Wrap, first[i], again)
			}
		}
	}
	for i := range ins {
		cl := first[i]
		for j, ch := range cl {
			if ch == '|' {
				cl = cl[:j]
				break
			}
		}
		classes[cl] = true
		v.Class("first:" + cl)
	}
	v.NonTrivial = len(classes) >= 2 // the history mixes outcomes (e.g. clean and non-fatal) around one key
	if c.EC {
		v.Class("key:ec")
	} else {
		v.Class("key:rsa")
	}
	v.Class(fmt.Sprintf("inputs:%d", len(ins)))
	return v
}

// History is the "outcome is a function of the bytes" part of sub-properties (a) and (c).
var History = harness.Define(harness.Opts{Name: "history",
	Rule:  "2-4 different inputs (certificate, TBSCertificate, bare SPKI, CSR) around one freshly drawn RSA or P-256 public key under seven / five AlgorithmIdentifier variants (NULL, absent, other parameters, other OIDs), parsed in one order, then in the opposite order, then in the first order again: every verdict (error class, error text, key, algorithm) for given bytes must be identical each time; non-trivial = the history mixes at least two outcome classes",
	Quick: 3000, Thorough: 20000}, genHistory, checkHistory)
