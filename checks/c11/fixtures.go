// Package c11: the lenient X.509 parser is total, error-coherent and exact on well-formed input.
package c11

import (
	"bytes"
	"crypto/ecdsa"
	"crypto/rand"
	"crypto/rsa"
	stdx509 "crypto/x509"
	stdpkix "crypto/x509/pkix"
	"encoding/base64"
	"encoding/hex"
	"encoding/pem"
	"fmt"
	"math/big"
	"net"
	"net/url"
	"os"
	"path/filepath"
	"regexp"
	"sort"
	"strings"
	"sync"
	"time"

	"verif/internal/derx"
	"verif/internal/keys"
	"verif/internal/pki"
)

// Fixture is one base input of sub-properties (a) and (c).
type Fixture struct {
	Name string // stable identifier (file:block or gen:label)
	Kind string // cert tbs crl spki pkcs1 pkcs8 sec1 csr other
	DER  []byte
}

var (
	fixOnce  sync.Once
	fixAll   []Fixture
	fixByKnd = map[string][]int{}
	fixByNam = map[string]int{}
)

func repoDir() string {
	if d := os.Getenv("VERIF_REPO"); d != "" {
		return d
	}
	return "/repo"
}

func pemKind(typ string, hdr map[string]string) string {
	if _, enc := hdr["DEK-Info"]; enc {
		return "other" // encrypted private keys: opaque bytes
	}
	switch typ {
	case "CERTIFICATE", "TRUSTED CERTIFICATE":
		return "cert"
	case "X509 CRL":
		return "crl"
	case "PUBLIC KEY":
		return "spki"
	case "RSA PRIVATE KEY":
		return "pkcs1"
	case "PRIVATE KEY":
		return "pkcs8"
	case "EC PRIVATE KEY":
		return "sec1"
	case "CERTIFICATE REQUEST", "NEW CERTIFICATE REQUEST":
		return "csr"
	}
	return "other"
}

var (
	reHex = regexp.MustCompile(`"(30[0-9a-fA-F]{80,})"`)
	reB64 = regexp.MustCompile(`"(MI[A-Za-z0-9+/]{80,}={0,2})"`)
)

// guessKind classifies a DER blob found without a PEM label by its shape (derx only).
func guessKind(b []byte) string {
	n, rest, err := derx.Parse(b)
	if err != nil || len(rest) != 0 || n.Tag() != derx.TagSequence || len(n.Children) == 0 {
		return "other"
	}
	if len(n.Children) == 3 && n.Children[0].Tag() == derx.TagSequence && n.Children[2].Tag() == derx.TagBitString {
		tbs := n.Children[0]
		if len(tbs.Children) >= 6 {
			k := tbs.Children
			i := 0
			if k[0].Tag() == 0xa0 {
				i = 1
			}
			if len(k) > i+5 && k[i+3].Tag() == derx.TagSequence && len(k[i+3].Children) == 2 && (k[i+3].Children[0].Tag() == derx.TagUTCTime || k[i+3].Children[0].Tag() == derx.TagGenTime) {
				return "cert"
			}
		}
		if len(tbs.Children) >= 3 && tbs.Children[0].Tag() == derx.TagInteger && len(tbs.Children[0].Content) == 1 && tbs.Children[1].Tag() == derx.TagSequence && tbs.Children[2].Tag() == derx.TagSequence && len(tbs.Children) <= 4 {
			return "csr"
		}
		return "crl"
	}
	return "other"
}

func loadRepoFixtures() []Fixture {
	var out []Fixture
	seen := map[string]bool{}
	add := func(name, kind string, der []byte) {
		if len(der) == 0 || len(der) > 1<<16 {
			return
		}
		key := kind + string(der)
		if seen[key] {
			return
		}
		seen[key] = true
		out = append(out, Fixture{Name: name, Kind: kind, DER: der})
	}
	var files []string
	for _, dir := range []string{"x509/testdata", "testdata", "trillian/testdata"} {
		filepath.Walk(filepath.Join(repoDir(), dir), func(p string, info os.FileInfo, err error) error {
			if err == nil && !info.IsDir() && info.Size() < 1<<20 {
				files = append(files, p)
			}
			return nil
		})
	}
	src, _ := filepath.Glob(filepath.Join(repoDir(), "x509", "*_test.go"))
	files = append(files, src...)
	sort.Strings(files)
	for _, f := range files {
		b, err := os.ReadFile(f)
		if err != nil {
			continue
		}
		rel, _ := filepath.Rel(repoDir(), f)
		isSrc := strings.HasSuffix(f, ".go")
		if strings.HasSuffix(f, ".json") || strings.HasSuffix(f, ".cfg") || strings.HasSuffix(f, ".md") || (strings.HasSuffix(f, ".go") && !strings.HasSuffix(f, "_test.go")) {
			continue
		}
		rest := b
		n := 0
		for {
			var blk *pem.Block
			blk, rest = pem.Decode(rest)
			if blk == nil {
				break
			}
			add(fmt.Sprintf("%s#%d", rel, n), pemKind(blk.Type, blk.Headers), blk.Bytes)
			n++
		}
		if isSrc {
			for i, m := range reHex.FindAllSubmatch(b, -1) {
				if d, err := hex.DecodeString(string(m[1])); err == nil {
					add(fmt.Sprintf("%s#hex%d", rel, i), guessKind(d), d)
				}
			}
			for i, m := range reB64.FindAllSubmatch(b, -1) {
				if d, err := base64.StdEncoding.DecodeString(string(m[1])); err == nil {
					add(fmt.Sprintf("%s#b64%d", rel, i), guessKind(d), d)
				}
			}
		} else if n == 0 && len(b) > 2 && b[0] == 0x30 {
			add(rel, guessKind(b), b)
		}
	}
	return out
}

func mustURL(s string) *url.URL {
	u, err := url.Parse(s)
	if err != nil {
		panic(err)
	}
	return u
}

// sctListBytes builds a TLS SignedCertificateTimestampList holding opaque SCTs of the given sizes.
func sctListBytes(scts ...[]byte) []byte {
	var body []byte
	for _, s := range scts {
		body = append(body, byte(len(s)>>8), byte(len(s)))
		body = append(body, s...)
	}
	return append([]byte{byte(len(body) >> 8), byte(len(body))}, body...)
}

// rpkiExts builds RFC 3779 extensions (ipAddrBlocks, autonomousSysNum) and a SubjectInfoAccess.
func rpkiExts() []pki.Ext {
	ipBlocks := derx.Seq(
		derx.Seq(derx.Octets([]byte{0, 1}), derx.Seq(
			derx.BitString([]byte{10, 0}, 0),
			derx.Seq(derx.BitString([]byte{192, 168, 0}, 0), derx.BitString([]byte{192, 168, 0x80}, 7)))),
		derx.Seq(derx.Octets([]byte{0, 2, 1}), derx.Null()))
	asIDs := derx.Seq(
		derx.Explicit(0, derx.Seq(derx.Int64(64496), derx.Seq(derx.Int64(64500), derx.Int64(64511)))),
		derx.Explicit(1, derx.Null()))
	sia := derx.Seq(
		derx.Seq(derx.OID(1, 3, 6, 1, 5, 5, 7, 48, 5), derx.TLV(0x86, []byte("rsync://repo.example.net/ca/"))),
		derx.Seq(derx.OID(1, 3, 6, 1, 5, 5, 7, 48, 3), derx.TLV(0x86, []byte("http://tsa.example.net/"))))
	return []pki.Ext{
		{OID: []int{1, 3, 6, 1, 5, 5, 7, 1, 7}, Critical: true, Value: ipBlocks},
		{OID: []int{1, 3, 6, 1, 5, 5, 7, 1, 8}, Critical: true, Value: asIDs},
		{OID: []int{1, 3, 6, 1, 5, 5, 7, 1, 11}, Value: sia},
	}
}

func genFixtures() []Fixture {
	var out []Fixture
	add := func(name, kind string, der []byte) {
		out = append(out, Fixture{Name: "gen:" + name, Kind: kind, DER: der})
	}
	// --- pki-built hierarchy
	rootK, intK, leafK, edK := keys.Pick("rsa2048", 0), keys.Pick("p256", 0), keys.Pick("rsa1024", 0), keys.Pick("ed25519", 0)
	root := pki.Issue(nil, pki.CATemplate("C11 Root", rootK, 1, nil), "root")
	inter := pki.Issue(root, pki.CATemplate("C11 Intermediate", intK, 2, pki.KeyID(rootK)), "int")
	leafT := pki.LeafTemplate("leaf", leafK, 3, pki.KeyID(intK))
	leaf := pki.Issue(inter, leafT, "leaf")
	preT := pki.LeafTemplate("pre", edK, 4, pki.KeyID(intK))
	preT.Exts = append([]pki.Ext{pki.Poison()}, preT.Exts...)
	pre := pki.Issue(inter, preT, "pre")
	sctT := pki.LeafTemplate("withsct", keys.Pick("p384", 0), 5, pki.KeyID(intK))
	sctT.Exts = append(sctT.Exts, pki.SCTList(sctListBytes(bytes.Repeat([]byte{0x5c}, 47), bytes.Repeat([]byte{0x11}, 119))))
	sct := pki.Issue(inter, sctT, "sct")
	rpkiT := pki.CATemplate("rpki", keys.Pick("p521", 0), 6, pki.KeyID(rootK))
	rpkiT.Exts = append(rpkiT.Exts, rpkiExts()...)
	rpki := pki.Issue(root, rpkiT, "rpki")
	v1T := pki.Template{Version: 1, Serial: big.NewInt(7), Subject: pki.CN("v1 root"), NotBefore: pki.Epoch, NotAfter: pki.Epoch.AddDate(30, 0, 0), Key: keys.Pick("rsa1024", 1)}
	v1 := pki.Issue(nil, v1T, "v1")
	uidT := pki.LeafTemplate("uids", keys.Pick("p224", 0), 8, nil)
	uidT.IssuerUID, uidT.SubjectUID = []byte{1, 2, 3}, []byte{4, 5}
	uidT.Subject = pki.Name{{{OID: pki.OIDCountry, Tag: derx.TagPrintable, Value: "GB"}}, {{OID: pki.OIDOrg, Tag: derx.TagUTF8String, Value: "Örg"}, {OID: pki.OIDOrgUnit, Tag: derx.TagT61, Value: "unit"}},
		{{OID: pki.OIDCommonName, Tag: derx.TagBMP, Value: "\x00b\x00m\x00p"}}, {{OID: []int{1, 2, 840, 113549, 1, 9, 1}, Tag: derx.TagIA5, Value: "a@example.com"}}}
	uid := pki.Issue(inter, uidT, "uids")
	for _, c := range []*pki.Cert{root, inter, leaf, pre, sct, rpki, v1, uid} {
		add("pki-"+c.Label, "cert", c.DER)
	}

	// --- stdlib-issued certificates (rich templates)
	caTmpl := &stdx509.Certificate{
		SerialNumber: big.NewInt(0x1001), Subject: stdpkix.Name{CommonName: "std ca", Organization: []string{"Org", "Org2"}, Country: []string{"CH"}},
		NotBefore: time.Date(2020, 1, 1, 0, 0, 0, 0, time.UTC), NotAfter: time.Date(2051, 1, 1, 0, 0, 0, 0, time.UTC),
		KeyUsage: stdx509.KeyUsageCertSign | stdx509.KeyUsageCRLSign | stdx509.KeyUsageDigitalSignature, BasicConstraintsValid: true, IsCA: true, MaxPathLen: 0, MaxPathLenZero: true,
		SubjectKeyId: []byte{1, 2, 3, 4, 5, 6, 7, 8},
		PermittedDNSDomainsCritical: true, PermittedDNSDomains: []string{"example.com", ".example.org"}, ExcludedDNSDomains: []string{"bad.example.com"},
		PermittedIPRanges:       []*net.IPNet{{IP: net.IP{10, 0, 0, 0}, Mask: net.IPMask{255, 0, 0, 0}}},
		ExcludedIPRanges:        []*net.IPNet{{IP: net.ParseIP("2001:db8::"), Mask: net.CIDRMask(32, 128)}},
		PermittedEmailAddresses: []string{"user@example.com", "example.net"}, ExcludedEmailAddresses: []string{".example.info"},
		PermittedURIDomains: []string{"example.com"}, ExcludedURIDomains: []string{".sub.example.com"},
	}
	caKey := keys.Pick("rsa2048", 1)
	caDER, err := stdx509.CreateCertificate(rand.Reader, caTmpl, caTmpl, caKey.Pub, caKey.Signer)
	if err != nil {
		panic(err)
	}
	add("std-ca", "cert", caDER)
	caCert, err := stdx509.ParseCertificate(caDER)
	if err != nil {
		panic(err)
	}
	pol1, _ := stdx509.OIDFromInts([]uint64{2, 23, 140, 1, 2, 1})
	pol2, _ := stdx509.OIDFromInts([]uint64{1, 3, 6, 1, 4, 1, 99999, 1})
	leafTmpl := &stdx509.Certificate{
		SerialNumber: new(big.Int).SetBytes(bytes.Repeat([]byte{0x7a}, 19)), Subject: stdpkix.Name{CommonName: "std leaf", Locality: []string{"Zürich"}, SerialNumber: "42"},
		NotBefore: time.Date(2049, 12, 31, 23, 59, 59, 0, time.UTC), NotAfter: time.Date(2050, 1, 1, 0, 0, 0, 0, time.UTC),
		KeyUsage:    stdx509.KeyUsageDigitalSignature | stdx509.KeyUsageKeyEncipherment | stdx509.KeyUsageDecipherOnly | stdx509.KeyUsageKeyAgreement,
		ExtKeyUsage: []stdx509.ExtKeyUsage{stdx509.ExtKeyUsageServerAuth, stdx509.ExtKeyUsageClientAuth}, UnknownExtKeyUsage: []asn1OID{{1, 3, 6, 1, 4, 1, 11129, 2, 4, 4}, {1, 2, 3, 4}},
		BasicConstraintsValid: true, DNSNames: []string{"a.example.com", "*.b.example.com"}, EmailAddresses: []string{"x@example.com"},
		IPAddresses: []net.IP{{192, 0, 2, 1}, net.ParseIP("2001:db8::1")}, URIs: []*url.URL{mustURL("https://example.com/path?q=1"), mustURL("spiffe://td/wl")},
		OCSPServer: []string{"http://ocsp.example.com"}, IssuingCertificateURL: []string{"http://ca.example.com/ca.crt"}, CRLDistributionPoints: []string{"http://crl.example.com/1.crl", "ldap://x/y"},
		Policies: []stdx509.OID{pol1, pol2},
		ExtraExtensions: []stdpkix.Extension{{Id: asn1OID{1, 3, 6, 1, 4, 1, 99999, 7}, Critical: true, Value: []byte{0x05, 0x00}}, {Id: asn1OID{1, 3, 6, 1, 4, 1, 99999, 8}, Value: []byte{0x04, 0x02, 0xca, 0xfe}},
			{Id: asn1OID{1, 3, 6, 1, 4, 1, 11129, 2, 4, 2}, Value: derx.Octets(sctListBytes(bytes.Repeat([]byte{7}, 60)))}},
	}
	for i, kk := range []string{"p224", "p256", "p521", "rsa1024", "ed25519"} {
		k := keys.Pick(kk, 2)
		t := *leafTmpl
		t.SerialNumber = big.NewInt(int64(0x2000 + i))
		if i%2 == 1 {
			t.SignatureAlgorithm = stdx509.SHA384WithRSAPSS
		}
		d, err := stdx509.CreateCertificate(rand.Reader, &t, caCert, k.Pub, caKey.Signer)
		if err != nil {
			panic(err)
		}
		add("std-leaf-"+kk, "cert", d)
	}
	// self-signed with ECDSA / Ed25519 signatures
	for _, kk := range []string{"p384", "ed25519"} {
		k := keys.Pick(kk, 1)
		t := *leafTmpl
		t.SerialNumber = big.NewInt(0x3000)
		d, err := stdx509.CreateCertificate(rand.Reader, &t, &t, k.Pub, k.Signer)
		if err != nil {
			panic(err)
		}
		add("std-self-"+kk, "cert", d)
	}

	// --- CRLs
	rl := &stdx509.RevocationList{Number: big.NewInt(17), ThisUpdate: time.Date(2024, 1, 1, 0, 0, 0, 0, time.UTC), NextUpdate: time.Date(2050, 6, 1, 0, 0, 0, 0, time.UTC),
		RevokedCertificateEntries: []stdx509.RevocationListEntry{
			{SerialNumber: big.NewInt(5), RevocationTime: time.Date(2023, 5, 5, 5, 5, 5, 0, time.UTC), ReasonCode: 1},
			{SerialNumber: big.NewInt(0x7fffffff), RevocationTime: time.Date(2023, 6, 6, 0, 0, 0, 0, time.UTC),
				ExtraExtensions: []stdpkix.Extension{{Id: asn1OID{2, 5, 29, 24}, Value: derx.GenTime(time.Date(2023, 1, 1, 0, 0, 0, 0, time.UTC))},
					{Id: asn1OID{2, 5, 29, 29}, Critical: true, Value: derx.Seq(derx.TLV(0xa4, pki.CN("other issuer").DER()))}}},
			{SerialNumber: big.NewInt(9), RevocationTime: time.Date(2023, 7, 7, 0, 0, 0, 0, time.UTC)},
		}}
	crl1, err := stdx509.CreateRevocationList(rand.Reader, rl, caCert, caKey.Signer)
	if err != nil {
		panic(err)
	}
	add("std-crl", "crl", crl1)
	rl2 := *rl
	rl2.RevokedCertificateEntries = nil
	idp := derx.Seq(derx.Explicit(0, derx.TLV(0xa0, derx.TLV(0x86, []byte("http://crl.example.com/idp.crl")))), derx.TLV(0x81, []byte{0xff}))
	rl2.ExtraExtensions = []stdpkix.Extension{
		{Id: asn1OID{2, 5, 29, 28}, Critical: true, Value: idp},
		{Id: asn1OID{2, 5, 29, 18}, Value: derx.Seq(derx.TLV(0x82, []byte("issuer.example.com")), derx.TLV(0x81, []byte("ca@example.com")), derx.TLV(0x87, []byte{10, 1, 2, 3}))},
		{Id: asn1OID{2, 5, 29, 27}, Critical: true, Value: derx.Int64(3)},
		{Id: asn1OID{2, 5, 29, 46}, Value: derx.Seq(derx.Seq(derx.Explicit(0, derx.TLV(0xa0, derx.TLV(0x86, []byte("http://crl.example.com/delta.crl"))))))},
		{Id: asn1OID{1, 3, 6, 1, 5, 5, 7, 1, 1}, Value: derx.Seq(derx.Seq(derx.OID(1, 3, 6, 1, 5, 5, 7, 48, 2), derx.TLV(0x86, []byte("http://ca.example.com/ca.p7c"))), derx.Seq(derx.OID(1, 3, 6, 1, 5, 5, 7, 48, 1), derx.TLV(0x86, []byte("http://ocsp.example.com"))))},
	}
	crl2, err := stdx509.CreateRevocationList(rand.Reader, &rl2, caCert, caKey.Signer)
	if err != nil {
		panic(err)
	}
	add("std-crl-exts", "crl", crl2)
	// hand-built v1 CRL (no version, no extensions, no nextUpdate)
	tbsCRL := derx.Seq(derx.Seq(derx.OID(1, 2, 840, 113549, 1, 1, 11), derx.Null()), pki.CN("v1 crl issuer").DER(), derx.UTCTime(pki.Epoch),
		derx.Seq(derx.Seq(derx.Int64(77), derx.UTCTime(pki.Epoch))))
	add("derx-crl-v1", "crl", derx.Seq(tbsCRL, derx.Seq(derx.OID(1, 2, 840, 113549, 1, 1, 11), derx.Null()), derx.BitString(bytes.Repeat([]byte{0xab}, 64), 0)))

	// --- keys
	for _, kind := range keys.SignerKinds {
		k := keys.Pick(kind, 3)
		add("spki-"+kind, "spki", k.SPKI)
		add("pkcs8-"+kind, "pkcs8", k.PKCS8)
		switch p := k.Signer.(type) {
		case *rsa.PrivateKey:
			add("pkcs1-"+kind, "pkcs1", stdx509.MarshalPKCS1PrivateKey(p))
			add("pkcs1pub-"+kind, "other", stdx509.MarshalPKCS1PublicKey(&p.PublicKey))
		case *ecdsa.PrivateKey:
			d, err := stdx509.MarshalECPrivateKey(p)
			if err != nil {
				panic(err)
			}
			add("sec1-"+kind, "sec1", d)
		}
	}
	for _, kind := range []string{"dsa1024", "dsa2048"} {
		if k := keys.Pick(kind, 0); k.SPKI != nil {
			add("spki-"+kind, "spki", k.SPKI)
		}
	}
	// RSAES-OAEP and RSA-PSS SubjectPublicKeyInfo built by derx around a pool key
	{
		k := keys.Pick("rsa1024", 3)
		bits := derx.MustParse(k.SPKI).Children[1].Encode()
		add("spki-oaep", "spki", derx.Seq(derx.Seq(derx.OID(1, 2, 840, 113549, 1, 1, 7), derx.Seq()), bits))
		add("spki-oaep-params", "spki", derx.Seq(derx.Seq(derx.OID(1, 2, 840, 113549, 1, 1, 7),
			derx.Seq(derx.Explicit(0, derx.Seq(derx.OID(2, 16, 840, 1, 101, 3, 4, 2, 1), derx.Null())))), bits))
	}

	// --- CSRs
	for i, kind := range []string{"rsa1024", "p256", "ed25519"} {
		k := keys.Pick(kind, 4)
		t := &stdx509.CertificateRequest{Subject: stdpkix.Name{CommonName: "csr " + kind, Organization: []string{"Org"}},
			DNSNames: []string{"csr.example.com"}, EmailAddresses: []string{"csr@example.com"}, IPAddresses: []net.IP{{127, 0, 0, 1}}, URIs: []*url.URL{mustURL("https://csr.example.com/")}}
		if i == 0 {
			t.ExtraExtensions = []stdpkix.Extension{{Id: asn1OID{2, 5, 29, 15}, Critical: true, Value: derx.BitString([]byte{0xa0}, 5)}}
		}
		d, err := stdx509.CreateCertificateRequest(rand.Reader, t, k.Signer)
		if err != nil {
			panic(err)
		}
		add("csr-"+kind, "csr", d)
	}
	return out
}

var sctOIDDER = derx.OID(1, 3, 6, 1, 4, 1, 11129, 2, 4, 2)

func loadFixtures() {
	all := append(loadRepoFixtures(), genFixtures()...)
	// derived inputs: TBSCertificate and SubjectPublicKeyInfo of every certificate fixture
	n := len(all)
	seenSPKI := map[string]bool{}
	for i := 0; i < n; i++ {
		f := all[i]
		if f.Kind != "cert" {
			continue
		}
		loc, ok := locateCert(f.DER, false)
		if !ok {
			continue
		}
		if bytes.Contains(f.DER, sctOIDDER) { // certificates with an embedded SCT list: a kind of their own, so that the TLS-level operator has targets
			all = append(all, Fixture{Name: f.Name + "/sct", Kind: "sctcert", DER: f.DER})
		}
		all = append(all, Fixture{Name: f.Name + "/tbs", Kind: "tbs", DER: f.DER[loc.tbs.off : loc.tbs.off+loc.tbs.n]})
		spki := f.DER[loc.spki.off : loc.spki.off+loc.spki.n]
		if !seenSPKI[string(spki)] {
			seenSPKI[string(spki)] = true
			all = append(all, Fixture{Name: f.Name + "/spki", Kind: "spki", DER: spki})
		}
	}
	fixAll = all
	for i, f := range fixAll {
		fixByKnd[f.Kind] = append(fixByKnd[f.Kind], i)
		fixByNam[f.Name] = i
	}
}

// Fixtures returns the process-wide fixture table (loaded once).
func Fixtures() []Fixture {
	fixOnce.Do(loadFixtures)
	return fixAll
}

func fixturesOfKind(k string) []int {
	Fixtures()
	return fixByKnd[k]
}

// fixtureFor resolves a (index, name) reference; the name wins when both are given and disagree.
func fixtureFor(idx int, name string) (Fixture, bool) {
	fx := Fixtures()
	if name != "" {
		if idx >= 0 && idx < len(fx) && fx[idx].Name == name {
			return fx[idx], true
		}
		if i, ok := fixByNam[name]; ok {
			return fx[i], true
		}
		return Fixture{}, false
	}
	if idx < 0 || idx >= len(fx) {
		return Fixture{}, false
	}
	return fx[idx], true
}
