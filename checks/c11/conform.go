package c11

import (
	"bytes"
	"crypto/dsa"
	"crypto/ecdsa"
	"crypto/ed25519"
	"crypto/rand"
	"crypto/rsa"
	stdx509 "crypto/x509"
	stdpkix "crypto/x509/pkix"
	stdasn1 "encoding/asn1"
	"fmt"
	"math/big"
	"net"
	"net/url"
	"reflect"
	"sort"
	"strings"
	"testing"
	"time"
	"unicode/utf16"

	"github.com/google/certificate-transparency-go/x509"
	"github.com/google/certificate-transparency-go/x509/pkix"
	"pgregory.net/rapid"

	"verif/internal/derx"
	"verif/internal/harness"
	"verif/internal/keys"
	"verif/internal/pki"
)

// ---- the template (plain data) --------------------------------------------------------------

// AttrSpec is one name attribute. Type indexes attrTypes; Str selects the ASN.1 string type used by the
// derx encoder (the stdlib encoder chooses PrintableString / UTF8String itself); NewRDN starts a new
// RDN (derx encoder; the stdlib groups by type).
type AttrSpec struct {
	Type   int    `json:"t"`
	Value  string `json:"v"`
	Str    int    `json:"s,omitempty"`
	NewRDN bool   `json:"n,omitempty"`
}

type IPNetSpec struct {
	IP   []byte `json:"ip"`
	Ones int    `json:"ones"`
}

type UnkExt struct {
	Arc      int    `json:"arc"`           // private arc 1.3.6.1.4.1.99999.<Arc> unless OID is set
	OID      []int  `json:"oid,omitempty"` // an OID from the neighbourhood of the interpreted extensions (see neighbourOIDs)
	Critical bool   `json:"crit,omitempty"`
	Value    []byte `json:"val"`
}

// ConfCase is one certificate template of sub-property (b).
type ConfCase struct {
	Enc        int        `json:"enc"` // 0: crypto/x509.CreateCertificate; 1: derx (internal/pki) for what the former cannot emit
	KeyKind    string     `json:"key"`
	KeyIdx     int        `json:"keyi"`
	SignerKind string     `json:"signer"`
	SignerIdx  int        `json:"signeri"`
	SigAlg     int        `json:"sigalg"`
	SelfSigned bool       `json:"self,omitempty"`
	Serial     []byte     `json:"serial"`
	Subject    []AttrSpec `json:"subject"`
	Issuer     []AttrSpec `json:"issuer"`
	NotBefore  int64      `json:"nb"`
	NotAfter   int64      `json:"na"`

	HasKU   bool  `json:"hasku,omitempty"`
	KU      int   `json:"ku,omitempty"`
	HasBC   bool  `json:"hasbc,omitempty"`
	IsCA    bool  `json:"ca,omitempty"`
	PathLen int   `json:"pathlen"` // -1: absent
	EKU     []int `json:"eku,omitempty"`
	SKI     []byte `json:"ski,omitempty"`
	AKI     []byte `json:"aki,omitempty"`

	DNS    []string `json:"dns,omitempty"`
	Emails []string `json:"emails,omitempty"`
	URIs   []string `json:"uris,omitempty"`
	IPs    [][]byte `json:"ips,omitempty"`

	NCCritical bool        `json:"nccrit,omitempty"`
	PermDNS    []string    `json:"pdns,omitempty"`
	ExclDNS    []string    `json:"xdns,omitempty"`
	PermEmail  []string    `json:"pemail,omitempty"`
	ExclEmail  []string    `json:"xemail,omitempty"`
	PermURI    []string    `json:"puri,omitempty"`
	ExclURI    []string    `json:"xuri,omitempty"`
	PermIP     []IPNetSpec `json:"pip,omitempty"`
	ExclIP     []IPNetSpec `json:"xip,omitempty"`
	PermOther  []int       `json:"pother,omitempty"` // derx encoder: GeneralName forms neither parser interprets (indexes otherForms)
	ExclOther  []int       `json:"xother,omitempty"`

	Policies [][]int  `json:"policies,omitempty"`
	OCSP     []string `json:"ocsp,omitempty"`
	CAIssuer []string `json:"caissuers,omitempty"`
	CRLDP    []string `json:"crldp,omitempty"`
	SCTs     [][]byte `json:"scts,omitempty"`
	Unknown  []UnkExt `json:"unknown,omitempty"`

	// derx encoder only
	Shuffle  int    `json:"shuffle,omitempty"`  // extension order (0: canonical)
	Variant  int    `json:"variant,omitempty"`  // bit set of encoding variants, see pkiBuild
	V1       bool   `json:"v1,omitempty"`       // version 1: no extensions
	IssUID   []byte `json:"issuid,omitempty"`   // issuerUniqueID
	SubUID   []byte `json:"subuid,omitempty"`   // subjectUniqueID
	Empty    int    `json:"empty,omitempty"`    // bit set: extensions encoded with their smallest value (03 01 00, 04 00, 30 00), see emptyShapes
}

func (u UnkExt) oid() []int {
	if len(u.OID) > 0 {
		return u.OID
	}
	return []int{1, 3, 6, 1, 4, 1, 99999, u.Arc}
}

// interpretedExtOIDs: the extension types at least one of the two parsers interprets.
var interpretedExtOIDs = [][]int{
	{2, 5, 29, 14}, {2, 5, 29, 15}, {2, 5, 29, 17}, {2, 5, 29, 19}, {2, 5, 29, 30}, {2, 5, 29, 31}, {2, 5, 29, 32}, {2, 5, 29, 33}, {2, 5, 29, 35}, {2, 5, 29, 36}, {2, 5, 29, 37}, {2, 5, 29, 54},
	{1, 3, 6, 1, 5, 5, 7, 1, 1}, {1, 3, 6, 1, 5, 5, 7, 1, 11}, {1, 3, 6, 1, 5, 5, 7, 1, 7}, {1, 3, 6, 1, 5, 5, 7, 1, 8}, {1, 3, 6, 1, 4, 1, 11129, 2, 4, 2},
}

// neighbourOIDs: every interpreted OID with one more arc appended, with its last arc dropped and with
// its last arc +-1 - minus the ones that are interpreted themselves. Neither parser knows any of them, so
// each is an unknown extension: listed raw, reported as unhandled when critical, nothing else.
var neighbourOIDs = func() [][]int {
	known := map[string]bool{}
	for _, o := range interpretedExtOIDs {
		known[oidStr(o)] = true
	}
	seen := map[string]bool{}
	var out [][]int
	add := func(o []int) {
		if k := oidStr(o); !known[k] && !seen[k] && len(o) >= 3 {
			seen[k] = true
			out = append(out, append([]int{}, o...))
		}
	}
	for _, o := range interpretedExtOIDs {
		for _, extra := range []int{0, 1, 2, 7, 128} {
			add(append(append([]int{}, o...), extra))
		}
		add(append(append([]int{}, o...), 1, 1))
		add(o[:len(o)-1])
		add(append(append([]int{}, o[:len(o)-1]...), o[len(o)-1]+1))
		if o[len(o)-1] > 0 {
			add(append(append([]int{}, o[:len(o)-1]...), o[len(o)-1]-1))
		}
	}
	return out
}()

// plausibleValues: extension values that mean something to the interpreted neighbours.
var plausibleValues = [][]byte{
	derx.Octets([]byte{1, 2, 3, 4}), derx.Seq(derx.Bool(true), derx.Int64(3)), derx.Seq(), derx.BitString([]byte{0x86}, 1), derx.Seq(derx.TLV(0x80, []byte{9, 9})),
	derx.Seq(derx.TLV(0x82, []byte("neighbour.example"))), derx.Seq(derx.OID(1, 3, 6, 1, 5, 5, 7, 3, 1)), derx.Seq(derx.Seq(derx.OID(2, 23, 140, 1, 2, 1))), derx.Null(), derx.Int64(5),
}

var attrTypes = []struct {
	oid  []int
	name string
}{
	{[]int{2, 5, 4, 6}, "C"}, {[]int{2, 5, 4, 10}, "O"}, {[]int{2, 5, 4, 11}, "OU"}, {[]int{2, 5, 4, 7}, "L"}, {[]int{2, 5, 4, 8}, "ST"},
	{[]int{2, 5, 4, 9}, "STREET"}, {[]int{2, 5, 4, 17}, "POSTAL"}, {[]int{2, 5, 4, 5}, "SERIAL"}, {[]int{2, 5, 4, 3}, "CN"},
	{[]int{0, 9, 2342, 19200300, 100, 1, 25}, "DC"}, {[]int{1, 2, 840, 113549, 1, 9, 1}, "EMAIL"}, {[]int{2, 5, 4, 42}, "GN"}, {[]int{1, 3, 6, 1, 4, 1, 99999, 1, 1}, "PRIV"},
}

// ekuOIDs: the extended key usages (RFC 5280 s4.2.1.12 and vendor ones) both parsers know, then the
// CT precertificate-signing one only the fork knows, then two private ones neither knows.
var ekuOIDs = [][]int{
	{2, 5, 29, 37, 0}, {1, 3, 6, 1, 5, 5, 7, 3, 1}, {1, 3, 6, 1, 5, 5, 7, 3, 2}, {1, 3, 6, 1, 5, 5, 7, 3, 3}, {1, 3, 6, 1, 5, 5, 7, 3, 4}, {1, 3, 6, 1, 5, 5, 7, 3, 5}, {1, 3, 6, 1, 5, 5, 7, 3, 6},
	{1, 3, 6, 1, 5, 5, 7, 3, 7}, {1, 3, 6, 1, 5, 5, 7, 3, 8}, {1, 3, 6, 1, 5, 5, 7, 3, 9}, {1, 3, 6, 1, 4, 1, 311, 10, 3, 3}, {2, 16, 840, 1, 113730, 4, 1}, {1, 3, 6, 1, 4, 1, 311, 2, 1, 22}, {1, 3, 6, 1, 4, 1, 311, 61, 1, 1},
	{1, 3, 6, 1, 4, 1, 11129, 2, 4, 4}, {1, 3, 6, 1, 4, 1, 99999, 3, 1}, {1, 2, 3, 4, 5},
}

const nStdEKU = 14 // entries of ekuOIDs with a crypto/x509.ExtKeyUsage constant (same numbering in both packages)

var timeAnchors = []int64{
	-631152000,   // 1950-01-01 00:00:00: first UTCTime instant
	-631152001,   // 1949-12-31 23:59:59: GeneralizedTime
	-2208988800,  // 1900-01-01
	0, 946684800, // 1970, 2000
	1717200000,   // 2024-06-01
	2147483647,   // 2038-01-19
	2524607999,   // 2049-12-31 23:59:59: last UTCTime instant
	2524608000,   // 2050-01-01 00:00:00: first GeneralizedTime instant
	4102444800,   // 2100-01-01
	253402300799, // 9999-12-31 23:59:59
}

var sampleValues = []string{"Example", "ex ample.-:=?", "Zürich", "日本語", "a*b", "a&b", "x@y.z", "0", " lead", "trail ", "aaaaaaaaaaaaaaaaaaaaaaaaaaaaaaaaaaaaaaaaaaaaaaaaaaaaaaaaaaaaaaaaaaaaaaaa", "12 34", "Ωmega", "under_score", "semi;colon", "quo\"te", "(paren)", "plus+", "q?", "a,b", "Caf\u00e9", "\u00c6r\u00f8sk\u00f8bing", "Stra\u00dfe \u00a7 5", "\u00ff\u00a0\u0080"}

var dnsSamples = []string{"example.com", "a.example.com", "*.example.com", "xn--bcher-kva.example", "localhost", "a-b.c-d.example.org", "1.example.net", "example.com.", "EXAMPLE.com", "very.deep.sub.domain.example.co.uk"}
var emailSamples = []string{"user@example.com", "a.b+c@sub.example.org", "x@y.z", "\"quoted\"@example.com", "UPPER@EXAMPLE.COM"}
var uriSamples = []string{"https://example.com/path?q=1#f", "spiffe://trust.example/wl/a", "urn:uuid:6e8bc430-9c3a-11d9-9669-0800200c9a66", "http://example.com", "ldap://ldap.example.com/cn=x?y", "mailto:a@example.com", "https://xn--bcher-kva.example/%C3%BC", "file:///etc/x"}
var ncDNS = []string{"example.com", ".example.com", "sub.example.org", "com", "a-b.example.net"}
var ncEmail = []string{"user@example.com", "example.com", ".example.com", "a.b@sub.example.org"}
var ncURI = []string{"example.com", ".example.com", "sub.example.org"}
var urlSamples = []string{"http://ocsp.example.com", "http://ca.example.com/ca.crt", "http://crl.example.com/1.crl", "ldap://dir.example.com/cn=CA,dc=example?certificateRevocationList;binary", "https://x.example/a b", "http://[2001:db8::1]/x", ""}

func pickN[T any](t *rapid.T, label string, from []T, max int) []T {
	n := []int{0, 0, 1, 1, 2, 3}[uni(t, label+"#")%6]
	if n > max {
		n = max
	}
	var out []T
	used := map[int]bool{}
	for len(out) < n && len(used) < len(from) {
		i := uni(t, label) % len(from)
		for used[i] {
			i = (i + 1) % len(from)
		}
		used[i] = true
		out = append(out, from[i])
	}
	return out
}

func genAttrs(t *rapid.T, label string, enc int) []AttrSpec {
	n := []int{1, 1, 2, 3, 4, 0, 6}[uni(t, label+"#")%7]
	var out []AttrSpec
	for i := 0; i < n; i++ {
		a := AttrSpec{Type: uni(t, label+"t") % len(attrTypes)}
		switch r := uni(t, label+"k") % 5; r {
		case 4: // ISO 8859-1 text: what TeletexString attributes hold in practice (octets >= 0x80)
			b := rapid.SliceOfN(rapid.Byte(), 1, 12).Draw(t, label+"l1")
			r := make([]rune, len(b))
			for i, x := range b {
				if x < 0x20 || x == 0x7f {
					x = 0xe9
				}
				r[i] = rune(x)
			}
			a.Value = string(r)
		case 0:
			a.Value = rapid.StringMatching(`[A-Za-z0-9 .,'()+/:=?-]{0,24}`).Draw(t, label+"v")
		case 1:
			a.Value = rapid.StringN(0, 12, 40).Draw(t, label+"u")
		default:
			a.Value = sampleValues[uni(t, label+"s")%len(sampleValues)]
		}
		switch attrTypes[a.Type].name {
		case "C":
			a.Value = []string{"CH", "GB", "US", "de"}[mix(len(a.Value))%4]
		case "DC", "EMAIL": // IA5String attributes: ASCII only
			a.Value = strings.Map(func(r rune) rune {
				if r > 0x7e || r < 0x20 {
					return 'x'
				}
				return r
			}, a.Value)
		}
		a.Value = strings.ToValidUTF8(strings.ReplaceAll(a.Value, "\x00", ""), "?")
		a.Str = rapid.IntRange(0, 5).Draw(t, label+"str")
		a.NewRDN = rapid.IntRange(0, 3).Draw(t, label+"rdn") != 0
		out = append(out, a)
	}
	return out
}

func genNets(t *rapid.T, label string) []IPNetSpec {
	n := []int{0, 0, 0, 1, 2}[uni(t, label+"#")%5]
	var out []IPNetSpec
	for i := 0; i < n; i++ {
		l := 4
		if rapid.Bool().Draw(t, label+"v6") {
			l = 16
		}
		out = append(out, IPNetSpec{IP: rapid.SliceOfN(rapid.Byte(), l, l).Draw(t, label+"ip"), Ones: rapid.IntRange(0, l*8).Draw(t, label+"ones")})
	}
	return out
}

var sigAlgsRSA = []stdx509.SignatureAlgorithm{stdx509.SHA256WithRSA, stdx509.SHA384WithRSA, stdx509.SHA512WithRSA, stdx509.SHA256WithRSAPSS, stdx509.SHA384WithRSAPSS, stdx509.SHA512WithRSAPSS}
var sigAlgsEC = []stdx509.SignatureAlgorithm{stdx509.ECDSAWithSHA256, stdx509.ECDSAWithSHA384, stdx509.ECDSAWithSHA512}

func genConf(t *rapid.T) ConfCase {
	c := ConfCase{PathLen: -1}
	if rapid.IntRange(0, 3).Draw(t, "enc") == 0 {
		c.Enc = 1
	}
	kinds := keys.SignerKinds
	c.KeyKind = kinds[uni(t, "keykind")%len(kinds)]
	c.KeyIdx = rapid.IntRange(0, 7).Draw(t, "keyidx")
	c.SignerKind = kinds[uni(t, "signerkind")%len(kinds)]
	c.SignerIdx = rapid.IntRange(0, 7).Draw(t, "signeridx")
	c.SigAlg = rapid.IntRange(0, 5).Draw(t, "sigalg")
	c.SelfSigned = rapid.IntRange(0, 3).Draw(t, "self") == 0
	c.Serial = rapid.SliceOfN(rapid.Byte(), 1, 20).Draw(t, "serial")
	c.Subject = genAttrs(t, "subj", c.Enc)
	c.Issuer = genAttrs(t, "iss", c.Enc)
	if len(c.Issuer) == 0 {
		c.Issuer = []AttrSpec{{Type: 8, Value: "issuer"}}
	}
	tm := func(label string) int64 {
		a := timeAnchors[uni(t, label)%len(timeAnchors)]
		switch rapid.IntRange(0, 3).Draw(t, label+"d") {
		case 0:
			a += int64(rapid.IntRange(-2, 2).Draw(t, label+"dd"))
		case 1:
			a += int64(rapid.IntRange(-400*86400, 400*86400).Draw(t, label+"dd"))
		}
		if a < -5364662400 {
			a = -5364662400
		}
		if a > 253402300799 {
			a = 253402300799
		}
		return a
	}
	c.NotBefore, c.NotAfter = tm("nb"), tm("na")
	if c.NotAfter < c.NotBefore {
		c.NotBefore, c.NotAfter = c.NotAfter, c.NotBefore
	}
	on := func(label string, outOf int) bool { return rapid.IntRange(0, outOf-1).Draw(t, label) != 0 }
	if on("hasku", 3) {
		c.HasKU = true
		c.KU = rapid.IntRange(1, 511).Draw(t, "ku")
	}
	if on("hasbc", 3) {
		c.HasBC = true
		c.IsCA = rapid.Bool().Draw(t, "ca")
		if c.IsCA {
			c.PathLen = []int{-1, 0, 0, 1, 2, 7, 127, 128, 1 << 20}[uni(t, "pathlen")%9]
		}
	}
	for _, i := range pickN(t, "eku", []int{0, 1, 2, 3, 4, 5, 6, 7, 8, 9, 10, 11, 12, 13, 14, 14, 15, 16}, 5) {
		dup := false
		for _, j := range c.EKU {
			dup = dup || i == j
		}
		if !dup {
			c.EKU = append(c.EKU, i)
		}
	}
	if on("hasski", 2) {
		c.SKI = rapid.SliceOfN(rapid.Byte(), 1, 32).Draw(t, "ski")
	}
	if on("hasaki", 2) {
		c.AKI = rapid.SliceOfN(rapid.Byte(), 1, 32).Draw(t, "aki")
	}
	c.DNS = pickN(t, "dns", dnsSamples, 3)
	c.Emails = pickN(t, "email", emailSamples, 2)
	c.URIs = pickN(t, "uri", uriSamples, 2)
	for i, n := 0, []int{0, 0, 1, 2, 3}[uni(t, "ips#")%5]; i < n; i++ {
		l := 4
		if rapid.Bool().Draw(t, "ipv6") {
			l = 16
		}
		c.IPs = append(c.IPs, rapid.SliceOfN(rapid.Byte(), l, l).Draw(t, "ip"))
	}
	// a third of the templates carry a SAN of one single name kind, half of those with an empty subject
	// (a conforming encoder then marks the SAN critical; the derx encoder can also do so with a subject)
	if mode := uni(t, "sanmode") % 12; mode < 4 {
		one := func(label string, from []string) []string { return []string{from[uni(t, label)%len(from)]} }
		dns, emails, uris, ips := c.DNS, c.Emails, c.URIs, c.IPs
		c.DNS, c.Emails, c.URIs, c.IPs = nil, nil, nil, nil
		switch mode {
		case 0:
			if c.DNS = dns; len(dns) == 0 {
				c.DNS = one("dns1", dnsSamples)
			}
		case 1:
			if c.Emails = emails; len(emails) == 0 {
				c.Emails = one("email1", emailSamples)
			}
		case 2:
			if c.IPs = ips; len(ips) == 0 {
				c.IPs = [][]byte{rapid.SliceOfN(rapid.Byte(), 4, 4).Draw(t, "ip1")}
			}
		case 3:
			if c.URIs = uris; len(uris) == 0 {
				c.URIs = one("uri1", uriSamples)
			}
		}
		if rapid.Bool().Draw(t, "emptysubject") {
			c.Subject = nil
		}
	}
	if on("hasnc", 3) && c.IsCA {
		c.NCCritical = rapid.Bool().Draw(t, "nccrit")
		c.PermDNS, c.ExclDNS = pickN(t, "pdns", ncDNS, 2), pickN(t, "xdns", ncDNS, 2)
		c.PermEmail, c.ExclEmail = pickN(t, "pemail", ncEmail, 2), pickN(t, "xemail", ncEmail, 2)
		c.PermURI, c.ExclURI = pickN(t, "puri", ncURI, 2), pickN(t, "xuri", ncURI, 2)
		c.PermIP, c.ExclIP = genNets(t, "pip"), genNets(t, "xip")
		if c.Enc == 1 {
			c.PermOther, c.ExclOther = pickN(t, "pother", []int{0, 1, 2, 3, 4}, 2), pickN(t, "xother", []int{0, 1, 2, 3, 4}, 2)
		}
	}
	for i, n := 0, []int{0, 0, 1, 2, 3}[uni(t, "pol#")%5]; i < n; i++ {
		base := [][]int{{2, 5, 29, 32, 0}, {2, 23, 140, 1, 2, 1}, {2, 23, 140, 1, 2, 2}, {1, 3, 6, 1, 4, 1, 99999, 2}, {0, 39, 1}, {1, 0, 8571, 2}, {2, 999, 1 << 27}}[uni(t, "pol")%7]
		p := append(append([]int{}, base...), i+1)
		if i == 0 && rapid.Bool().Draw(t, "polbare") {
			p = append([]int{}, base...)
		}
		c.Policies = append(c.Policies, p)
	}
	c.OCSP = pickN(t, "ocsp", urlSamples, 2)
	c.CAIssuer = pickN(t, "caissuer", urlSamples, 2)
	c.CRLDP = pickN(t, "crldp", urlSamples, 3)
	for i, n := 0, []int{0, 0, 0, 1, 2, 3}[uni(t, "sct#")%6]; i < n; i++ {
		c.SCTs = append(c.SCTs, rapid.SliceOfN(rapid.Byte(), 1, 130).Draw(t, "sct"))
	}
	for i, n := 0, []int{0, 0, 1, 1, 2, 3}[uni(t, "unk#")%6]; i < n; i++ {
		u := UnkExt{Arc: 100 + i, Critical: rapid.Bool().Draw(t, "unkcrit"), Value: rapid.SliceOfN(rapid.Byte(), 0, 20).Draw(t, "unkval")}
		if uni(t, "unknear")%2 == 0 { // an uninterpreted OID right next to an interpreted one
			o := neighbourOIDs[uni(t, "unkoid")%len(neighbourOIDs)]
			dup := false
			for _, x := range c.Unknown {
				dup = dup || oidStr(x.OID) == oidStr(o)
			}
			if !dup {
				u.OID = o
			}
			if uni(t, "unkplausible")%2 == 0 { // with a value that would be meaningful for the neighbour
				u.Value = plausibleValues[uni(t, "unkpv")%len(plausibleValues)]
			}
		}
		c.Unknown = append(c.Unknown, u)
	}
	if c.Enc == 1 {
		c.Shuffle = rapid.IntRange(0, 1<<16).Draw(t, "shuffle")
		c.Variant = rapid.IntRange(0, 1<<12-1).Draw(t, "variant")
		c.V1 = rapid.IntRange(0, 15).Draw(t, "v1") == 0
		if uni(t, "hasempty")%3 == 0 {
			c.Empty = 1 << uint(uni(t, "empty")%len(emptyShapes))
			if rapid.Bool().Draw(t, "empty2") {
				c.Empty |= 1 << uint(uni(t, "emptyb")%len(emptyShapes))
			}
		}
		if rapid.IntRange(0, 7).Draw(t, "uids") == 0 {
			c.IssUID = rapid.SliceOfN(rapid.Byte(), 1, 8).Draw(t, "issuid")
			c.SubUID = rapid.SliceOfN(rapid.Byte(), 1, 8).Draw(t, "subuid")
		}
	}
	return c
}

// ---- encoder 0: crypto/x509.CreateCertificate -------------------------------------------------

func stdName(attrs []AttrSpec) stdpkix.Name {
	var n stdpkix.Name
	for _, a := range attrs {
		switch attrTypes[a.Type].name {
		case "C":
			n.Country = append(n.Country, a.Value)
		case "O":
			n.Organization = append(n.Organization, a.Value)
		case "OU":
			n.OrganizationalUnit = append(n.OrganizationalUnit, a.Value)
		case "L":
			n.Locality = append(n.Locality, a.Value)
		case "ST":
			n.Province = append(n.Province, a.Value)
		case "STREET":
			n.StreetAddress = append(n.StreetAddress, a.Value)
		case "POSTAL":
			n.PostalCode = append(n.PostalCode, a.Value)
		case "SERIAL":
			n.SerialNumber = a.Value
		case "CN":
			n.CommonName = a.Value
		case "DC", "EMAIL":
			n.ExtraNames = append(n.ExtraNames, stdpkix.AttributeTypeAndValue{Type: attrTypes[a.Type].oid, Value: stdasn1.RawValue{Tag: stdasn1.TagIA5String, Bytes: []byte(a.Value)}})
		default:
			n.ExtraNames = append(n.ExtraNames, stdpkix.AttributeTypeAndValue{Type: attrTypes[a.Type].oid, Value: a.Value})
		}
	}
	return n
}

func ipnets(l []IPNetSpec) []*net.IPNet {
	var out []*net.IPNet
	for _, s := range l {
		m := net.CIDRMask(s.Ones, len(s.IP)*8)
		out = append(out, &net.IPNet{IP: net.IP(s.IP).Mask(m), Mask: m})
	}
	return out
}

func serialOf(b []byte) *big.Int {
	b = append([]byte(nil), b...)
	b[0] &= 0x7f
	s := new(big.Int).SetBytes(b)
	if s.Sign() == 0 {
		s.SetInt64(1)
	}
	return s
}

func sctList(scts [][]byte) []byte { return sctListBytes(scts...) }

func stdBuild(c ConfCase) ([]byte, error) {
	key := keys.Pick(c.KeyKind, c.KeyIdx)
	signer := keys.Pick(c.SignerKind, c.SignerIdx)
	if c.SelfSigned {
		signer = key
	}
	t := &stdx509.Certificate{SerialNumber: serialOf(c.Serial), Subject: stdName(c.Subject), NotBefore: time.Unix(c.NotBefore, 0).UTC(), NotAfter: time.Unix(c.NotAfter, 0).UTC()}
	switch signer.Pub.(type) {
	case *rsa.PublicKey:
		a := sigAlgsRSA[c.SigAlg%len(sigAlgsRSA)]
		if signer.Pub.(*rsa.PublicKey).N.BitLen() < 2048 && a == stdx509.SHA512WithRSAPSS {
			a = stdx509.SHA256WithRSAPSS // a 1024-bit modulus cannot hold a SHA-512 PSS encoding
		}
		t.SignatureAlgorithm = a
	case *ecdsa.PublicKey:
		t.SignatureAlgorithm = sigAlgsEC[c.SigAlg%len(sigAlgsEC)]
	}
	if c.HasKU {
		t.KeyUsage = stdx509.KeyUsage(c.KU)
	}
	if c.HasBC {
		t.BasicConstraintsValid, t.IsCA, t.MaxPathLen = true, c.IsCA, c.PathLen
		t.MaxPathLenZero = c.PathLen == 0
	}
	for _, i := range c.EKU {
		if i < nStdEKU {
			t.ExtKeyUsage = append(t.ExtKeyUsage, stdx509.ExtKeyUsage(i))
		} else {
			t.UnknownExtKeyUsage = append(t.UnknownExtKeyUsage, ekuOIDs[i])
		}
	}
	t.SubjectKeyId, t.AuthorityKeyId = c.SKI, c.AKI
	t.DNSNames, t.EmailAddresses = c.DNS, c.Emails
	for _, u := range c.URIs {
		t.URIs = append(t.URIs, mustURL(u))
	}
	for _, ip := range c.IPs {
		t.IPAddresses = append(t.IPAddresses, net.IP(ip))
	}
	t.PermittedDNSDomainsCritical = c.NCCritical
	t.PermittedDNSDomains, t.ExcludedDNSDomains = c.PermDNS, c.ExclDNS
	t.PermittedEmailAddresses, t.ExcludedEmailAddresses = c.PermEmail, c.ExclEmail
	t.PermittedURIDomains, t.ExcludedURIDomains = c.PermURI, c.ExclURI
	t.PermittedIPRanges, t.ExcludedIPRanges = ipnets(c.PermIP), ipnets(c.ExclIP)
	for _, p := range c.Policies {
		u := make([]uint64, len(p))
		for i, a := range p {
			u[i] = uint64(a)
		}
		o, err := stdx509.OIDFromInts(u)
		if err != nil {
			return nil, err
		}
		t.Policies = append(t.Policies, o)
	}
	t.OCSPServer, t.IssuingCertificateURL, t.CRLDistributionPoints = c.OCSP, c.CAIssuer, c.CRLDP
	if len(c.SCTs) > 0 {
		t.ExtraExtensions = append(t.ExtraExtensions, stdpkix.Extension{Id: pki.OIDExtSCTList, Value: derx.Octets(sctList(c.SCTs))})
	}
	for _, u := range c.Unknown {
		t.ExtraExtensions = append(t.ExtraExtensions, stdpkix.Extension{Id: u.oid(), Critical: u.Critical, Value: u.Value})
	}
	parent := t
	if !c.SelfSigned {
		parent = &stdx509.Certificate{Subject: stdName(c.Issuer), SubjectKeyId: c.AKI}
	}
	return stdx509.CreateCertificate(rand.Reader, t, parent, key.Pub, signer.Signer)
}

// ---- encoder 1: derx / internal/pki -----------------------------------------------------------

func isPrintableStrict(s string) bool {
	for _, r := range s {
		if !(r >= 'a' && r <= 'z' || r >= 'A' && r <= 'Z' || r >= '0' && r <= '9' || strings.ContainsRune(" '()+,-./:=?", r)) {
			return false
		}
	}
	return true
}

func isASCII(s string) bool {
	for _, r := range s {
		if r > 0x7e || r < 0x20 {
			return false
		}
	}
	return true
}

func isNumeric(s string) bool {
	for _, r := range s {
		if !(r >= '0' && r <= '9' || r == ' ') {
			return false
		}
	}
	return true
}

func isBMP(s string) bool {
	for _, r := range s {
		if r > 0xfffd || (r >= 0xd800 && r <= 0xdfff) || r < 0x20 {
			return false
		}
	}
	return true
}

// pkiAttr encodes one attribute value with the requested string type when the value allows it
// (RFC 5280 DirectoryString choices plus IA5String for the two attributes defined with it).
func pkiAttr(a AttrSpec) pki.Attr {
	out := pki.Attr{OID: attrTypes[a.Type].oid, Tag: derx.TagUTF8String, Value: a.Value}
	switch nm := attrTypes[a.Type].name; {
	case nm == "DC" || nm == "EMAIL":
		out.Tag = derx.TagIA5
		return out
	case nm == "C":
		out.Tag = derx.TagPrintable
		return out
	}
	switch a.Str {
	case 1:
		if isPrintableStrict(a.Value) {
			out.Tag = derx.TagPrintable
		}
	case 2:
		// TeletexString, ASCII only. With octets >= 0x80 the pinned reference (crypto/x509 of go1.26.8) reads
		// ISO 8859-1 and returns UTF-8 while the fork returns the raw octets: version drift of the reference
		// (older crypto/x509 did what the fork does), kept out of the generator - see level_note.
		if isASCII(a.Value) {
			out.Tag = derx.TagT61
		}
	case 3:
		if isBMP(a.Value) {
			u := utf16.Encode([]rune(a.Value))
			b := make([]byte, 0, 2*len(u))
			for _, x := range u {
				b = append(b, byte(x>>8), byte(x))
			}
			out.Tag, out.Value = derx.TagBMP, string(b)
		}
	case 4:
		if isNumeric(a.Value) {
			out.Tag = derx.TagNumeric
		}
	case 5:
		if isASCII(a.Value) {
			out.Tag = derx.TagIA5
		}
	}
	return out
}

func pkiName(attrs []AttrSpec) pki.Name {
	var n pki.Name
	for i, a := range attrs {
		at := pkiAttr(a)
		if i == 0 || a.NewRDN {
			n = append(n, []pki.Attr{at})
			continue
		}
		// multi-valued RDN: DER wants the SET OF sorted by encoding; keep it sorted so that the certificate is well formed
		rdn := append(n[len(n)-1], at)
		sort.SliceStable(rdn, func(i, j int) bool {
			return bytes.Compare(derx.Seq(derx.OID(rdn[i].OID...), derx.Str(rdn[i].Tag, rdn[i].Value)), derx.Seq(derx.OID(rdn[j].OID...), derx.Str(rdn[j].Tag, rdn[j].Value))) < 0
		})
		n[len(n)-1] = rdn
	}
	if n == nil {
		n = pki.Name{}
	}
	return n
}

func gnURI(s string) []byte { return derx.TLV(0x86, []byte(s)) }

// otherForms: GeneralName forms that neither parser interprets as a constraint base.
var otherForms = [][]byte{
	derx.TLV(0xa4, pki.CN("dir constraint").DER()),                                                                     // directoryName
	derx.TLV(0xa0, derx.OID(1, 3, 6, 1, 4, 1, 311, 20, 2, 3), derx.Explicit(0, derx.Str(derx.TagUTF8String, "upn@x"))), // otherName
	derx.TLV(0xa3, derx.Seq()),                                                                                         // x400Address (opaque here)
	derx.TLV(0x88, derx.OIDContent([]int{1, 2, 3, 4})),                                                                 // registeredID
	derx.TLV(0xa5, derx.TLV(0xa1, derx.Str(derx.TagUTF8String, "party"))),                                              // ediPartyName
}

func subtrees(tag byte, dns, emails, uris []string, nets []IPNetSpec, other []int) []byte {
	var body [][]byte
	for i, o := range other {
		if i%2 == 0 {
			body = append(body, derx.Seq(otherForms[o%len(otherForms)]))
		}
	}
	for _, d := range dns {
		body = append(body, derx.Seq(derx.TLV(0x82, []byte(d))))
	}
	for _, n := range nets {
		m := net.CIDRMask(n.Ones, len(n.IP)*8)
		body = append(body, derx.Seq(derx.TLV(0x87, []byte(net.IP(n.IP).Mask(m)), []byte(m))))
	}
	for _, e := range emails {
		body = append(body, derx.Seq(derx.TLV(0x81, []byte(e))))
	}
	for _, u := range uris {
		body = append(body, derx.Seq(derx.TLV(0x86, []byte(u))))
	}
	for i, o := range other {
		if i%2 == 1 {
			body = append(body, derx.Seq(otherForms[o%len(otherForms)]))
		}
	}
	if len(body) == 0 {
		return nil
	}
	return derx.TLV(tag, body...)
}

// Not generated (out of domain, see level_note): a distribution point named relative to the CRL issuer
// (RFC 5280 s4.2.1.13 says conforming CAs SHOULD NOT use it; crypto/x509 refuses the form, and so does the
// fork: testdata/notes).

// emptyShapes: extensions the derx encoder can emit with the smallest value of their type. These are the
// shapes both parsers accept without complaint; RFC 5280 asks CAs for at least one bit / element in most
// of them, so they sit at the edge of "well formed", but byte-level fast paths break exactly there.
var emptyShapes = []struct {
	name string
	oid  []int
	val  []byte
}{
	{"ku-empty-bitstring", pki.OIDExtKeyUsage, derx.BitString(nil, 0)},
	{"eku-empty-sequence", pki.OIDExtEKU, derx.Seq()},
	{"ski-empty-octets", pki.OIDExtSKI, derx.Octets(nil)},
	{"aki-empty-sequence", pki.OIDExtAKI, derx.Seq()},
	{"policies-empty-sequence", pki.OIDExtPolicies, derx.Seq()},
	{"crldp-empty-sequence", pki.OIDExtCRLDP, derx.Seq()},
	{"san-empty-sequence", pki.OIDExtSAN, derx.Seq()},
	{"crldp-empty-point", pki.OIDExtCRLDP, derx.Seq(derx.Seq())},
	{"aki-empty-keyid", pki.OIDExtAKI, derx.Seq(derx.TLV(0x80))},
}

// pkiBuild encodes the template with derx. Variant bits choose well-formed encodings the stdlib
// encoder never produces.
func pkiBuild(c ConfCase) ([]byte, error) {
	key := keys.Pick(c.KeyKind, c.KeyIdx)
	signer := keys.Pick(c.SignerKind, c.SignerIdx)
	if c.SelfSigned {
		signer = key
	}
	bit := func(i int) bool { return c.Variant>>uint(i)&1 == 1 }
	var exts []pki.Ext
	if c.HasKU {
		var bits []int
		for i := 0; i < 9; i++ {
			if c.KU>>uint(i)&1 == 1 {
				bits = append(bits, i)
			}
		}
		e := pki.KeyUsage(bits...)
		e.Critical = !bit(0)
		exts = append(exts, e)
	}
	if c.HasBC {
		exts = append(exts, pki.BasicConstraints(c.IsCA, c.PathLen, !bit(1)))
	}
	if len(c.EKU) > 0 {
		var o [][]int
		for _, i := range c.EKU {
			o = append(o, ekuOIDs[i])
		}
		e := pki.EKU(o...)
		e.Critical = bit(2)
		exts = append(exts, e)
	}
	if len(c.SKI) > 0 {
		exts = append(exts, pki.SKI(c.SKI))
	}
	if len(c.AKI) > 0 {
		body := [][]byte{derx.TLV(0x80, c.AKI)}
		if bit(3) { // authorityCertIssuer + authorityCertSerialNumber as well
			body = append(body, derx.TLV(0xa1, derx.TLV(0xa4, pki.CN("aki issuer").DER())), derx.TLV(0x82, []byte{0x01, 0x02}))
		}
		exts = append(exts, pki.Ext{OID: pki.OIDExtAKI, Value: derx.Seq(body...)})
	}
	{
		var san [][]byte
		if bit(4) { // kinds of GeneralName neither parser cracks
			san = append(san, derx.TLV(0xa0, derx.OID(1, 3, 6, 1, 4, 1, 311, 20, 2, 3), derx.Explicit(0, derx.Str(derx.TagUTF8String, "upn@example.com"))), derx.TLV(0x88, derx.OIDContent([]int{1, 2, 3, 4})))
		}
		for _, d := range c.DNS {
			san = append(san, derx.TLV(0x82, []byte(d)))
		}
		for _, ip := range c.IPs {
			san = append(san, derx.TLV(0x87, ip))
		}
		if bit(4) {
			san = append(san, derx.TLV(0xa4, pki.CN("dir name").DER()))
		}
		for _, e := range c.Emails {
			san = append(san, derx.TLV(0x81, []byte(e)))
		}
		for _, u := range c.URIs {
			san = append(san, gnURI(u))
		}
		if len(san) > 0 {
			exts = append(exts, pki.Ext{OID: pki.OIDExtSAN, Critical: len(c.Subject) == 0 || bit(5), Value: derx.Seq(san...)})
		}
	}
	if p, x := subtrees(0xa0, c.PermDNS, c.PermEmail, c.PermURI, c.PermIP, c.PermOther), subtrees(0xa1, c.ExclDNS, c.ExclEmail, c.ExclURI, c.ExclIP, c.ExclOther); p != nil || x != nil {
		exts = append(exts, pki.Ext{OID: pki.OIDExtNameConstr, Critical: c.NCCritical, Value: derx.Seq(p, x)})
	}
	if len(c.Policies) > 0 {
		var body [][]byte
		for i, p := range c.Policies {
			if bit(6) && i == 0 { // with policy qualifiers: a CPS pointer and a user notice
				q := derx.Seq(derx.Seq(derx.OID(1, 3, 6, 1, 5, 5, 7, 2, 1), derx.Str(derx.TagIA5, "https://cps.example.com")),
					derx.Seq(derx.OID(1, 3, 6, 1, 5, 5, 7, 2, 2), derx.Seq(derx.Str(derx.TagUTF8String, "notice"))))
				body = append(body, derx.Seq(derx.OID(p...), q))
			} else {
				body = append(body, derx.Seq(derx.OID(p...)))
			}
		}
		exts = append(exts, pki.Ext{OID: pki.OIDExtPolicies, Critical: bit(7), Value: derx.Seq(body...)})
	}
	if len(c.OCSP)+len(c.CAIssuer) > 0 || bit(8) {
		var body [][]byte
		for _, u := range c.OCSP {
			body = append(body, derx.Seq(derx.OID(1, 3, 6, 1, 5, 5, 7, 48, 1), gnURI(u)))
		}
		if bit(8) { // an access method neither parser knows, and a non-URI location
			body = append(body, derx.Seq(derx.OID(1, 3, 6, 1, 5, 5, 7, 48, 99), gnURI("http://other.example.com")), derx.Seq(derx.OID(1, 3, 6, 1, 5, 5, 7, 48, 1), derx.TLV(0x82, []byte("ocsp.example.com"))))
		}
		for _, u := range c.CAIssuer {
			body = append(body, derx.Seq(derx.OID(1, 3, 6, 1, 5, 5, 7, 48, 2), gnURI(u)))
		}
		exts = append(exts, pki.Ext{OID: pki.OIDExtAIA, Value: derx.Seq(body...)})
	}
	if len(c.CRLDP) > 0 || bit(9) {
		var body [][]byte
		for i, u := range c.CRLDP {
			names := [][]byte{gnURI(u)}
			if bit(10) && i == 0 { // a second URI and a non-URI name after the URIs
				names = append(names, gnURI("ldap://second.example.com/x"), derx.TLV(0xa4, pki.CN("crl dir").DER()))
			}
			dp := [][]byte{derx.TLV(0xa0, derx.TLV(0xa0, names...))}
			if bit(10) && i == 0 {
				dp = append(dp, derx.TLV(0x81, []byte{0x01, 0x7e}), derx.TLV(0xa2, derx.TLV(0xa4, pki.CN("crl issuer").DER())))
			}
			body = append(body, derx.Seq(dp...))
		}
		if bit(9) { // a distribution point without a name
			body = append(body, derx.Seq(derx.TLV(0xa2, derx.TLV(0xa4, pki.CN("only issuer").DER()))))
		}
		exts = append(exts, pki.Ext{OID: pki.OIDExtCRLDP, Value: derx.Seq(body...)})
	}
	if len(c.SCTs) > 0 {
		exts = append(exts, pki.SCTList(sctList(c.SCTs)))
	}
	for _, u := range c.Unknown {
		exts = append(exts, pki.Ext{OID: u.oid(), Critical: u.Critical, Value: u.Value})
	}
	for i, sh := range emptyShapes {
		if c.Empty>>uint(i)&1 == 0 {
			continue
		}
		replaced := false
		for j := range exts {
			if pki.OIDEq(exts[j].OID, sh.oid) {
				exts[j].Value, replaced = sh.val, true
			}
		}
		if !replaced {
			exts = append(exts, pki.Ext{OID: sh.oid, Critical: pki.OIDEq(sh.oid, pki.OIDExtKeyUsage) || (pki.OIDEq(sh.oid, pki.OIDExtSAN) && len(c.Subject) == 0), Value: sh.val})
		}
	}
	if c.Shuffle != 0 { // any extension order is well formed
		s := uint64(c.Shuffle)
		for i := len(exts) - 1; i > 0; i-- {
			s = s*6364136223846793005 + 1442695040888963407
			j := int((s >> 33) % uint64(i+1))
			exts[i], exts[j] = exts[j], exts[i]
		}
	}
	t := pki.Template{Serial: serialOf(c.Serial), Subject: pkiName(c.Subject), NotBefore: time.Unix(c.NotBefore, 0).UTC(), NotAfter: time.Unix(c.NotAfter, 0).UTC(), Key: key,
		IssuerUID: c.IssUID, SubjectUID: c.SubUID, Exts: exts}
	algs := pki.SigAlgsFor(signer)
	t.SigAlg = algs[c.SigAlg%len(algs)]
	if c.V1 {
		t.Version, t.Exts, t.IssuerUID, t.SubjectUID = 1, nil, nil, nil
	}
	if c.SelfSigned {
		return pki.Issue(nil, t, "conf").DER, nil
	}
	parent := &pki.Cert{Key: signer, Tmpl: pki.Template{Subject: pkiName(c.Issuer)}}
	return pki.Issue(parent, t, "conf").DER, nil
}

// ---- comparison -------------------------------------------------------------------------------

func oidStr(o []int) string {
	var sb strings.Builder
	for i, a := range o {
		if i > 0 {
			sb.WriteByte('.')
		}
		fmt.Fprint(&sb, a)
	}
	return sb.String()
}

func cmpName(v *harness.Verdict, which string, f pkix.Name, s stdpkix.Name) {
	type flat struct {
		C, O, OU, L, ST, Street, Postal []string
		Serial, CN                     string
	}
	ff := flat{f.Country, f.Organization, f.OrganizationalUnit, f.Locality, f.Province, f.StreetAddress, f.PostalCode, f.SerialNumber, f.CommonName}
	sf := flat{s.Country, s.Organization, s.OrganizationalUnit, s.Locality, s.Province, s.StreetAddress, s.PostalCode, s.SerialNumber, s.CommonName}
	if !reflect.DeepEqual(ff, sf) {
		v.Failf("conf:name-fields", "%s: cracked name fields differ: fork %+v, crypto/x509 %+v", which, ff, sf)
	}
	if len(f.Names) != len(s.Names) {
		v.Failf("conf:name-attributes", "%s: %d attributes vs %d", which, len(f.Names), len(s.Names))
		return
	}
	for i := range f.Names {
		fv, fok := f.Names[i].Value.(string)
		sv, sok := s.Names[i].Value.(string)
		if oidStr(f.Names[i].Type) != oidStr(s.Names[i].Type) || fok != sok || fv != sv {
			v.Failf("conf:name-attributes", "%s: attribute %d differs: fork %v=%q (%T), crypto/x509 %v=%q (%T)", which, i, f.Names[i].Type, fv, f.Names[i].Value, s.Names[i].Type, sv, s.Names[i].Value)
		}
	}
}

func pubString(k any) string {
	switch p := k.(type) {
	case *rsa.PublicKey:
		return fmt.Sprintf("rsa:%x:%d", p.N, p.E)
	case *ecdsa.PublicKey:
		return fmt.Sprintf("ecdsa:%s:%x:%x", p.Curve.Params().Name, p.X, p.Y)
	case ed25519.PublicKey:
		return fmt.Sprintf("ed25519:%x", []byte(p))
	case *dsa.PublicKey:
		return fmt.Sprintf("dsa:%x:%x:%x:%x", p.P, p.Q, p.G, p.Y)
	case nil:
		return "nil"
	}
	return fmt.Sprintf("%T", k)
}

func strs[T any](l []T, f func(T) string) []string {
	out := make([]string, len(l))
	for i, x := range l {
		out[i] = f(x)
	}
	return out
}

func netStr(n *net.IPNet) string { return fmt.Sprintf("%x/%x", []byte(n.IP), []byte(n.Mask)) }

func cmpList(v *harness.Verdict, sig, field string, f, s []string) {
	if len(f) != len(s) {
		v.Failf(sig, "%s: fork %q, crypto/x509 %q", field, f, s)
		return
	}
	for i := range f {
		if f[i] != s[i] {
			v.Failf(sig, "%s: fork %q, crypto/x509 %q", field, f, s)
			return
		}
	}
}

// compareCerts is the field-by-field comparison over the intersection of the two Certificate types.
func compareCerts(v *harness.Verdict, c ConfCase, f *x509.Certificate, s *stdx509.Certificate) {
	for _, r := range []struct {
		n    string
		a, b []byte
	}{{"Raw", f.Raw, s.Raw}, {"RawTBSCertificate", f.RawTBSCertificate, s.RawTBSCertificate}, {"RawSubjectPublicKeyInfo", f.RawSubjectPublicKeyInfo, s.RawSubjectPublicKeyInfo},
		{"RawSubject", f.RawSubject, s.RawSubject}, {"RawIssuer", f.RawIssuer, s.RawIssuer}, {"Signature", f.Signature, s.Signature},
		{"SubjectKeyId", f.SubjectKeyId, s.SubjectKeyId}, {"AuthorityKeyId", f.AuthorityKeyId, s.AuthorityKeyId}} {
		if !bytes.Equal(r.a, r.b) {
			v.Failf("conf:"+r.n, "%s differs: fork %x, crypto/x509 %x", r.n, r.a, r.b)
		}
	}
	if f.SignatureAlgorithm.String() != s.SignatureAlgorithm.String() {
		v.Failf("conf:SignatureAlgorithm", "fork %v, crypto/x509 %v", f.SignatureAlgorithm, s.SignatureAlgorithm)
	}
	if f.PublicKeyAlgorithm.String() != s.PublicKeyAlgorithm.String() {
		v.Failf("conf:PublicKeyAlgorithm", "fork %v, crypto/x509 %v", f.PublicKeyAlgorithm, s.PublicKeyAlgorithm)
	}
	if a, b := pubString(f.PublicKey), pubString(s.PublicKey); a != b {
		v.Failf("conf:PublicKey", "fork %s, crypto/x509 %s", a, b)
	}
	if f.Version != s.Version {
		v.Failf("conf:Version", "fork %d, crypto/x509 %d", f.Version, s.Version)
	}
	if f.SerialNumber == nil || f.SerialNumber.Cmp(s.SerialNumber) != 0 {
		v.Failf("conf:SerialNumber", "fork %v, crypto/x509 %v", f.SerialNumber, s.SerialNumber)
	}
	cmpName(v, "Issuer", f.Issuer, s.Issuer)
	cmpName(v, "Subject", f.Subject, s.Subject)
	if !f.NotBefore.Equal(s.NotBefore) || !f.NotAfter.Equal(s.NotAfter) || f.NotBefore.Location() != time.UTC || f.NotAfter.Location() != time.UTC {
		v.Failf("conf:Validity", "fork %v..%v, crypto/x509 %v..%v", f.NotBefore, f.NotAfter, s.NotBefore, s.NotAfter)
	}
	if int(f.KeyUsage) != int(s.KeyUsage) {
		v.Failf("conf:KeyUsage", "fork %#x, crypto/x509 %#x", int(f.KeyUsage), int(s.KeyUsage))
	}
	if len(f.Extensions) != len(s.Extensions) {
		v.Failf("conf:Extensions", "fork lists %d extensions, crypto/x509 %d", len(f.Extensions), len(s.Extensions))
	} else {
		for i := range f.Extensions {
			if oidStr(f.Extensions[i].Id) != oidStr(s.Extensions[i].Id) || f.Extensions[i].Critical != s.Extensions[i].Critical || !bytes.Equal(f.Extensions[i].Value, s.Extensions[i].Value) {
				v.Failf("conf:Extensions", "extension %d differs: fork %v crit=%v %x, crypto/x509 %v crit=%v %x", i, f.Extensions[i].Id, f.Extensions[i].Critical, f.Extensions[i].Value, s.Extensions[i].Id, s.Extensions[i].Critical, s.Extensions[i].Value)
			}
		}
	}
	// unhandled critical extensions: the whole list, except the extension types only one of the two
	// parsers interprets (none of which the generators mark critical)
	oneSided := map[string]bool{
		"1.3.6.1.4.1.11129.2.4.2": true, "1.3.6.1.4.1.11129.2.4.3": true, "1.3.6.1.5.5.7.1.7": true, "1.3.6.1.5.5.7.1.8": true, "1.3.6.1.5.5.7.1.11": true, // fork only: SCT list, poison, RFC 3779, SIA
		"2.5.29.33": true, "2.5.29.36": true, "2.5.29.54": true, // crypto/x509 only: policy mappings, policy constraints, inhibit anyPolicy
	}
	both := func(l [][]int) []string {
		var out []string
		for _, o := range l {
			if !oneSided[oidStr(o)] {
				out = append(out, oidStr(o))
			}
		}
		return out
	}
	cmpList(v, "conf:UnhandledCriticalExtensions", "UnhandledCriticalExtensions",
		both(strsOID(f.UnhandledCriticalExtensions)), both(strsOID(s.UnhandledCriticalExtensions)))
	// EKUs: the fourteen constants both packages share are compared as lists; the unknown OIDs likewise,
	// after setting aside the CT precertificate-signing usage, for which only the fork has a constant
	// (it may report it either way; the total number of occurrences must agree).
	ctOID := oidStr(ekuOIDs[nStdEKU])
	var fk, sk, fu, su []string
	fct, sct := 0, 0
	for _, e := range f.ExtKeyUsage {
		switch {
		case int(e) == nStdEKU:
			fct++
		case int(e) < 0 || int(e) > nStdEKU:
			v.Failf("conf:ExtKeyUsage", "fork reports an out-of-range ExtKeyUsage %d", int(e))
		default:
			fk = append(fk, oidStr(ekuOIDs[e]))
		}
	}
	for _, e := range s.ExtKeyUsage {
		sk = append(sk, oidStr(ekuOIDs[e]))
	}
	for _, o := range f.UnknownExtKeyUsage {
		if oidStr(o) == ctOID {
			fct++
		} else {
			fu = append(fu, oidStr(o))
		}
	}
	for _, o := range s.UnknownExtKeyUsage {
		if oidStr(o) == ctOID {
			sct++
		} else {
			su = append(su, oidStr(o))
		}
	}
	cmpList(v, "conf:ExtKeyUsage", "ExtKeyUsage (shared constants, as OIDs)", fk, sk)
	cmpList(v, "conf:UnknownExtKeyUsage", "UnknownExtKeyUsage (without the CT usage)", fu, su)
	if fct != sct {
		v.Failf("conf:ExtKeyUsage", "CT precertificate-signing usage: fork reports it %d times, crypto/x509 %d times", fct, sct)
	}
	if f.BasicConstraintsValid != s.BasicConstraintsValid || f.IsCA != s.IsCA || f.MaxPathLen != s.MaxPathLen || f.MaxPathLenZero != s.MaxPathLenZero {
		v.Failf("conf:BasicConstraints", "fork (valid=%v ca=%v pathlen=%d zero=%v), crypto/x509 (valid=%v ca=%v pathlen=%d zero=%v)",
			f.BasicConstraintsValid, f.IsCA, f.MaxPathLen, f.MaxPathLenZero, s.BasicConstraintsValid, s.IsCA, s.MaxPathLen, s.MaxPathLenZero)
	}
	id := func(x string) string { return x }
	cmpList(v, "conf:OCSPServer", "OCSPServer", f.OCSPServer, s.OCSPServer)
	cmpList(v, "conf:IssuingCertificateURL", "IssuingCertificateURL", f.IssuingCertificateURL, s.IssuingCertificateURL)
	cmpList(v, "conf:DNSNames", "DNSNames", f.DNSNames, s.DNSNames)
	cmpList(v, "conf:EmailAddresses", "EmailAddresses", f.EmailAddresses, s.EmailAddresses)
	cmpList(v, "conf:IPAddresses", "IPAddresses", strs(f.IPAddresses, func(i net.IP) string { return fmt.Sprintf("%x", []byte(i)) }), strs(s.IPAddresses, func(i net.IP) string { return fmt.Sprintf("%x", []byte(i)) }))
	cmpList(v, "conf:URIs", "URIs", strs(f.URIs, func(u *url.URL) string { return u.String() }), strs(s.URIs, func(u *url.URL) string { return u.String() }))
	if f.PermittedDNSDomainsCritical != s.PermittedDNSDomainsCritical {
		v.Failf("conf:NameConstraintsCritical", "fork %v, crypto/x509 %v", f.PermittedDNSDomainsCritical, s.PermittedDNSDomainsCritical)
	}
	cmpList(v, "conf:PermittedDNSDomains", "PermittedDNSDomains", strs(f.PermittedDNSDomains, id), s.PermittedDNSDomains)
	cmpList(v, "conf:ExcludedDNSDomains", "ExcludedDNSDomains", strs(f.ExcludedDNSDomains, id), s.ExcludedDNSDomains)
	cmpList(v, "conf:PermittedIPRanges", "PermittedIPRanges", strs(f.PermittedIPRanges, netStr), strs(s.PermittedIPRanges, netStr))
	cmpList(v, "conf:ExcludedIPRanges", "ExcludedIPRanges", strs(f.ExcludedIPRanges, netStr), strs(s.ExcludedIPRanges, netStr))
	cmpList(v, "conf:PermittedEmailAddresses", "PermittedEmailAddresses", f.PermittedEmailAddresses, s.PermittedEmailAddresses)
	cmpList(v, "conf:ExcludedEmailAddresses", "ExcludedEmailAddresses", f.ExcludedEmailAddresses, s.ExcludedEmailAddresses)
	cmpList(v, "conf:PermittedURIDomains", "PermittedURIDomains", f.PermittedURIDomains, s.PermittedURIDomains)
	cmpList(v, "conf:ExcludedURIDomains", "ExcludedURIDomains", f.ExcludedURIDomains, s.ExcludedURIDomains)
	cmpList(v, "conf:CRLDistributionPoints", "CRLDistributionPoints", f.CRLDistributionPoints, s.CRLDistributionPoints)
	cmpList(v, "conf:PolicyIdentifiers", "PolicyIdentifiers", strsOIDs(f.PolicyIdentifiers), strsOIDs(s.PolicyIdentifiers))
	// fork-only fields with ground truth in the template
	if len(c.SCTs) > 0 && !c.V1 {
		if !bytes.Equal(f.RawSCT, sctList(c.SCTs)) {
			v.Failf("conf:RawSCT", "RawSCT is not the embedded list")
		}
		if len(f.SCTList.SCTList) != len(c.SCTs) {
			v.Failf("conf:SCTList", "SCTList has %d entries, template %d", len(f.SCTList.SCTList), len(c.SCTs))
		} else {
			for i := range c.SCTs {
				if !bytes.Equal(f.SCTList.SCTList[i].Val, c.SCTs[i]) {
					v.Failf("conf:SCTList", "SCT %d differs from the template", i)
				}
			}
		}
	}
}

func strsOID[T ~[]int](l []T) [][]int {
	out := make([][]int, len(l))
	for i, o := range l {
		out[i] = []int(o)
	}
	return out
}

func strsOIDs[T ~[]int](l []T) []string {
	out := make([]string, len(l))
	for i, o := range l {
		out[i] = oidStr([]int(o))
	}
	return out
}

func checkConf(t *testing.T, c ConfCase) harness.Verdict {
	var v harness.Verdict
	var der []byte
	var err error
	if c.Enc == 0 {
		der, err = stdBuild(c)
		v.Class("enc:stdlib")
	} else {
		der, err = pkiBuild(c)
		v.Class("enc:derx")
	}
	if err != nil {
		// the template is outside what the encoder issues: not a verdict on the parser (counted; must stay rare)
		v.Class("encoder-refuses")
		v.Discard = true
		harnessNote("encoder refuses: %v", err)
		return v
	}
	ref, rerr := stdx509.ParseCertificate(der)
	if rerr != nil {
		v.Class("reference-rejects")
		v.Discard = true
		harnessNote("reference rejects (enc %d): %v", c.Enc, rerr)
		return v
	}
	got, gerr := x509.ParseCertificate(append([]byte(nil), der...))
	if gerr != nil {
		if got == nil {
			v.Failf("conf:fatal", "well-formed certificate refused: %v", gerr)
			return v
		}
		v.Failf("conf:nonfatal", "well-formed certificate parsed with non-fatal errors: %v", gerr)
	}
	if got == nil {
		v.Failf("incoherent:ParseCertificate:nil-nil", "neither certificate nor error")
		return v
	}
	compareCerts(&v, c, got, ref)
	// the TBS entry point on the same certificate
	if tbs, terr := x509.ParseTBSCertificate(append([]byte(nil), ref.RawTBSCertificate...)); terr != nil || tbs == nil {
		v.Failf("conf:tbs", "ParseTBSCertificate on the TBS of a well-formed certificate: %v", terr)
	} else if !bytes.Equal(tbs.RawSubject, ref.RawSubject) || !bytes.Equal(tbs.RawIssuer, ref.RawIssuer) || tbs.SerialNumber.Cmp(ref.SerialNumber) != 0 || len(tbs.Extensions) != len(ref.Extensions) {
		v.Failf("conf:tbs", "ParseTBSCertificate disagrees with the reference on subject / issuer / serial / extension count")
	}
	n := len(ref.Extensions)
	v.NonTrivial = n >= 4
	v.Class(fmt.Sprintf("exts:%d", min(n, 12)))
	for _, e := range ref.Extensions {
		v.Class("ext:" + e.Id.String())
	}
	v.Class("key:"+c.KeyKind, "sig:"+ref.SignatureAlgorithm.String())
	if c.SelfSigned {
		v.Class("self-signed")
	}
	for _, tm := range []time.Time{ref.NotBefore, ref.NotAfter} {
		if tm.Year() >= 2050 || tm.Year() < 1950 {
			v.Class("time:generalized")
		} else {
			v.Class("time:utc")
		}
	}
	if ref.BasicConstraintsValid {
		switch {
		case ref.MaxPathLen == 0 && ref.MaxPathLenZero:
			v.Class("pathlen:0")
		case ref.MaxPathLen > 0:
			v.Class("pathlen:n")
		default:
			v.Class("pathlen:none")
		}
	}
	for _, ip := range ref.IPAddresses {
		v.Class(fmt.Sprintf("san-ip:%d", len(ip)))
	}
	if len(ref.ExcludedDNSDomains)+len(ref.ExcludedIPRanges)+len(ref.ExcludedEmailAddresses)+len(ref.ExcludedURIDomains) > 0 {
		v.Class("nc:excluded")
	}
	if len(ref.PermittedDNSDomains)+len(ref.PermittedIPRanges)+len(ref.PermittedEmailAddresses)+len(ref.PermittedURIDomains) > 0 {
		v.Class("nc:permitted")
	}
	for _, e := range ref.Extensions {
		if e.Critical {
			v.Class("critical:" + e.Id.String())
		}
		if e.Critical && e.Id.String() == "2.5.29.17" {
			kinds := ""
			for _, k := range []struct {
				n  int
				nm string
			}{{len(ref.DNSNames), "dns"}, {len(ref.EmailAddresses), "email"}, {len(ref.IPAddresses), "ip"}, {len(ref.URIs), "uri"}} {
				if k.n > 0 {
					kinds += "+" + k.nm
				}
			}
			v.Class("critical-san:" + kinds)
		}
	}
	for _, u := range c.Unknown {
		if len(u.OID) > 0 && !c.V1 {
			v.Class("unknown-neighbour-oid")
			switch {
			case len(u.OID) > 4 && u.OID[0] == 2:
				v.Class("unknown-neighbour:id-ce-longer")
			case len(u.OID) == 3:
				v.Class("unknown-neighbour:id-ce-itself")
			}
		}
	}
	if len(ref.UnhandledCriticalExtensions) > 0 {
		v.Class("unhandled-critical")
	}
	if ref.Version != 3 {
		v.Class(fmt.Sprintf("version:%d", ref.Version))
	}
	if len(c.Subject) == 0 {
		v.Class("empty-subject")
	}
	if c.Enc == 1 {
		for _, a := range append(append([]AttrSpec{}, c.Subject...), c.Issuer...) {
			v.Class("str:" + map[byte]string{derx.TagUTF8String: "utf8", derx.TagPrintable: "printable", derx.TagT61: "t61", derx.TagBMP: "bmp", derx.TagNumeric: "numeric", derx.TagIA5: "ia5"}[pkiAttr(a).Tag])
		}
		if !c.V1 {
			for i, nm := range []string{"ku-noncritical", "bc-noncritical", "eku-critical", "aki-issuer-serial", "san-other-kinds", "san-critical", "policy-qualifiers", "policies-critical", "aia-other-methods", "crldp-no-name", "crldp-reasons-issuer"} {
				if c.Variant>>uint(i)&1 == 1 {
					v.Class("variant:" + nm)
				}
			}
			if c.Shuffle != 0 {
				v.Class("variant:shuffled-extensions")
			}
			if len(c.PermOther) > 0 {
				v.Class("nc:permitted-other-forms")
			}
			if len(c.ExclOther) > 0 {
				v.Class("nc:excluded-other-forms")
			}
			if len(c.PermOther) > 0 && len(c.ExclOther) == 0 && len(ref.ExcludedDNSDomains)+len(ref.ExcludedIPRanges)+len(ref.ExcludedEmailAddresses)+len(ref.ExcludedURIDomains) > 0 && c.NCCritical {
				v.Class("nc:critical-other-in-permitted-only")
			}
			for i, sh := range emptyShapes {
				if c.Empty>>uint(i)&1 == 1 {
					v.Class("empty:" + sh.name)
				}
			}
			if c.IssUID != nil {
				v.Class("variant:unique-ids")
			}
		}
	}
	v.Sample = map[string]any{"enc": c.Enc, "key": c.KeyKind, "sig": ref.SignatureAlgorithm.String(), "exts": n, "len": len(der)}
	return v
}

var noteSeen = map[string]int{}

// harnessNote records (once per message) why a template was discarded; visible with -v only.
func harnessNote(format string, a ...any) {
	m := fmt.Sprintf(format, a...)
	noteSeen[m]++
	if noteSeen[m] == 1 && len(noteSeen) < 40 {
		fmt.Println("C11-NOTE:", m)
	}
}

// Conform is sub-property (b).
var Conform = harness.Define(harness.Opts{Name: "conform",
	Rule:  "certificate templates (names, SANs, key usages, constraints, policies, access and distribution points, SCT lists, unknown extensions; eight key types, ten signature algorithms; validity on both sides of 1950 / 2050) issued by crypto/x509.CreateCertificate (3/4) or a derx encoder for well-formed shapes the former cannot emit (1/4); non-trivial = at least 4 extensions",
	Quick: 3000, Thorough: 8000}, genConf, checkConf)
