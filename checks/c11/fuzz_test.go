package c11

import (
	"bytes"
	"reflect"
	"strings"
	"testing"

	"github.com/google/certificate-transparency-go/x509"

	"verif/internal/derx"
	"verif/internal/harness"
)

// The native fuzz targets carry the oracle of sub-property (a) - (object, error-class) contract and
// raw-slice fidelity - inside the target, plus the one-element case of sub-property (c). They are seeded
// with every fixture of the matching kinds (repository testdata + generated corpus).

func seed(f *testing.F, kinds ...string) {
	for _, fx := range Fixtures() {
		for _, k := range kinds {
			if fx.Kind == k {
				f.Add(fx.DER)
			}
		}
	}
	f.Add([]byte{})
	f.Add([]byte{0x30, 0x00})
}

func report(t *testing.T, v *harness.Verdict) {
	if len(v.Violations) == 0 {
		return
	}
	var sb strings.Builder
	for _, x := range v.Violations {
		sb.WriteString("[" + x.Sig + "] " + x.Msg + "\n")
	}
	t.Fatalf("C11 violated:\n%s", sb.String())
}

func FuzzCertificates(f *testing.F) {
	seed(f, "cert", "tbs")
	f.Fuzz(func(t *testing.T, data []byte) {
		if len(data) > 1<<16 {
			return
		}
		var v harness.Verdict
		in := append([]byte(nil), data...)
		c, err := x509.ParseCertificate(in)
		if !bytes.Equal(in, data) {
			v.Failf("input-modified:ParseCertificate", "ParseCertificate modified its input buffer")
		}
		cl := contract(&v, "ParseCertificate", c, err)
		if c != nil {
			checkRaw(&v, "ParseCertificate", in, 0, c, false)
		}
		in2 := append([]byte(nil), data...)
		tc, terr := x509.ParseTBSCertificate(in2)
		if !bytes.Equal(in2, data) {
			v.Failf("input-modified:ParseTBSCertificate", "ParseTBSCertificate modified its input buffer")
		}
		contract(&v, "ParseTBSCertificate", tc, terr)
		if tc != nil {
			checkRaw(&v, "ParseTBSCertificate", in2, 0, tc, true)
		}
		in3 := append([]byte(nil), data...)
		cs, cerr := x509.ParseCertificates(in3)
		if !bytes.Equal(in3, data) {
			v.Failf("input-modified:ParseCertificates", "ParseCertificates modified its input buffer")
		}
		cls := contract(&v, "ParseCertificates", cs, cerr)
		off := 0
		for i, e := range cs {
			if e == nil {
				v.Failf("certificates-nil-element", "element %d is nil (err %v)", i, cerr)
				break
			}
			checkRaw(&v, "ParseCertificates", in3, off, e, false)
			off += len(e.Raw)
		}
		// one element: the list entry point must agree with the single one
		if n, rest, perr := derx.Parse(data); perr == nil && len(rest) == 0 && n.Len == len(data) && len(v.Violations) == 0 {
			if cl != cls {
				v.Failf("concat-error-class", "ParseCertificate: %s (%v), ParseCertificates: %s (%v)", cl, err, cls, cerr)
			} else if cl != "fatal" && (len(cs) != 1 || !reflect.DeepEqual(cs[0], c)) {
				v.Failf("concat-element-differs", "ParseCertificates returned %d certificates; fields differing from ParseCertificate's: %s", len(cs), func() string {
					if len(cs) == 1 {
						return diffCerts(cs[0], c)
					}
					return "-"
				}())
			}
		}
		report(t, &v)
	})
}

func FuzzLists(f *testing.F) {
	seed(f, "crl")
	for _, fx := range Fixtures() {
		if fx.Kind == "crl" {
			f.Add(pemCRL(fx.DER))
			for m := 2; m < len(pemModes); m++ {
				f.Add(pemArmour(fx.DER, m, len(fx.DER)*m))
			}
		}
	}
	f.Fuzz(func(t *testing.T, data []byte) {
		if len(data) > 1<<16 {
			return
		}
		var v harness.Verdict
		cp := func() []byte { return append([]byte(nil), data...) }
		l1, e1 := x509.ParseCertificateList(cp())
		contract(&v, "ParseCertificateList", l1, e1)
		l2, e2 := x509.ParseCertificateListDER(cp())
		contract(&v, "ParseCertificateListDER", l2, e2)
		l3, e3 := x509.ParseCRL(cp())
		contract(&v, "ParseCRL", l3, e3)
		l4, e4 := x509.ParseDERCRL(cp())
		contract(&v, "ParseDERCRL", l4, e4)
		report(t, &v)
	})
}

func FuzzKeysAndRequests(f *testing.F) {
	seed(f, "spki", "pkcs1", "pkcs8", "sec1", "csr", "other")
	f.Fuzz(func(t *testing.T, data []byte) {
		if len(data) > 1<<14 {
			return
		}
		var v harness.Verdict
		cp := func() []byte { return append([]byte(nil), data...) }
		k1, e1 := x509.ParsePKIXPublicKey(cp())
		contract(&v, "ParsePKIXPublicKey", k1, e1)
		k2, e2 := x509.ParsePKCS1PrivateKey(cp())
		contract(&v, "ParsePKCS1PrivateKey", k2, e2)
		k3, e3 := x509.ParsePKCS8PrivateKey(cp())
		contract(&v, "ParsePKCS8PrivateKey", k3, e3)
		k4, e4 := x509.ParseECPrivateKey(cp())
		contract(&v, "ParseECPrivateKey", k4, e4)
		r, e5 := x509.ParseCertificateRequest(cp())
		contract(&v, "ParseCertificateRequest", r, e5)
		report(t, &v)
	})
}
