package c11

import (
	"bytes"
	"crypto/rand"
	stdx509 "crypto/x509"
	stdpkix "crypto/x509/pkix"
	"fmt"
	"math/big"
	"sync"
	"testing"
	"time"

	"github.com/google/certificate-transparency-go/x509"
	"pgregory.net/rapid"

	"verif/internal/derx"
	"verif/internal/harness"
	"verif/internal/keys"
	"verif/internal/pki"
)

// PayloadCase is one input of the payload sub-property: a structurally well-formed certificate (and a CSR
// and a CRL around the same names) whose string-typed GeneralNames and name constraints carry payloads
// drawn from a hostile grammar. The mutation operators of "total" rarely reach the string grammars the
// parser interprets (RFC 2821 mailboxes, domain names, URIs); this generator aims at them.
type PayloadCase struct {
	SANEmail  [][]byte `json:"san_email,omitempty"`
	SANDNS    [][]byte `json:"san_dns,omitempty"`
	SANURI    [][]byte `json:"san_uri,omitempty"`
	PermEmail [][]byte `json:"perm_email,omitempty"`
	ExclEmail [][]byte `json:"excl_email,omitempty"`
	PermDNS   [][]byte `json:"perm_dns,omitempty"`
	ExclDNS   [][]byte `json:"excl_dns,omitempty"`
	PermURI   [][]byte `json:"perm_uri,omitempty"`
	ExclURI   [][]byte `json:"excl_uri,omitempty"`
	AIA       [][]byte `json:"aia,omitempty"`
	CRLDP     [][]byte `json:"crldp,omitempty"`
	Critical  bool     `json:"critical,omitempty"`     // name constraints (and SAN) critical
	NoSubject bool     `json:"no_subject,omitempty"`
}

var labelPool = []string{"example", "com", "a", "", "-a", "a-", "xn--bcher-kva", "aaaaaaaaaaaaaaaaaaaaaaaaaaaaaaaaaaaaaaaaaaaaaaaaaaaaaaaaaaaaaaaa", "*", "a_b", "1", "\xe9", "sub", "org", "A", "a b", "%41"}
var hostPool = []string{"[::1]", "[2001:db8::1]", "[::1", "192.0.2.1", "2001:db8::1", "[192.0.2.1]", "localhost", "0x7f.1", "[fe80::1%25eth0]"}
var atomPool = []string{"a", "user", "first.last", "", "a+b", "x'y", "a!#$%&*/=?^_`{|}~-b", "\xfc", "(c)", "a,b", "<a>", "a:b", "a;b"}
var qPool = []string{"a", "@", "\\", "\\\"", "\\\\", " ", ".", "\\@", "\x0b", "\x7f", "\"", "a@b", "\\a", "\t", "\xe9", "\x00"}
var schemePool = []string{"http", "https", "spiffe", "urn", "ldap", "", "1http", "ht tp", "mailto", "file"}
var sepPool = []string{"://", ":", ":/", "", ":///", "//"}
var pathPool = []string{"", "/", "/a b", "/%41", "/%zz", "/%", "?q=%", "#f", "/../..", "/\x00", "/a?b#c#d", ":8080/x", "/\xe9", "?", "#"}
var nastyPool = []string{"", " ", ".", "..", "@", "@@", "a@", "@b", "a@b@c", "\"", "\"\"", "\"@", "\"\\", "\\", "a\\@b", "\"a\"@b", "\"a\"b@c", ".com", "a..b", "a.", ".a.", "*.", "*", "*.*.com",
	"%", "%0", "%00", "\x00", "a\x00b", "http://", "http://@", "http://:@:", "http://a:b@c:d", "http://[", "http://]", "http://[]", "://", ":", "//", "///", "a://b://c", "\r\n", "\xff\xfe", "xn--", "xn--a", "a@[::1]", "a@[1.2.3.4]", "<a@b>", "a b@c", "a@b c", "a@b.", "a@.b", "a@b..c", "@.", "\"a b\"@c", "\"a\\ b\"@c"}

func genDomain(t *rapid.T, label string) string {
	if uni(t, label+"lit")%6 == 0 {
		return hostPool[uni(t, label+"host")%len(hostPool)]
	}
	n := uni(t, label+"#") % 5
	s := ""
	if uni(t, label+"lead")%4 == 0 {
		s = "."
	}
	for i := 0; i < n; i++ {
		if i > 0 {
			s += "."
		}
		s += labelPool[uni(t, label+"l")%len(labelPool)]
	}
	if uni(t, label+"trail")%5 == 0 {
		s += "."
	}
	return s
}

func genMailbox(t *rapid.T, label string) string {
	s := ""
	if uni(t, label+"q")%2 == 0 { // quoted local part: closed, unterminated, ending in a dangling escape, or followed by junk
		s = "\""
		for i, n := 0, uni(t, label+"q#")%6; i < n; i++ {
			s += qPool[uni(t, label+"qe")%len(qPool)]
		}
		switch uni(t, label+"qend") % 4 {
		case 0:
			s += "\""
		case 1:
		case 2:
			return s + "\\"
		default:
			s += "\"" + atomPool[uni(t, label+"qjunk")%len(atomPool)]
		}
	} else {
		for i, n := 0, 1+uni(t, label+"a#")%3; i < n; i++ {
			if i > 0 {
				s += "."
			}
			s += atomPool[uni(t, label+"a")%len(atomPool)]
		}
	}
	if uni(t, label+"at")%4 != 0 {
		s += "@" + genDomain(t, label+"d")
	}
	return s
}

func genURI(t *rapid.T, label string) string {
	s := schemePool[uni(t, label+"s")%len(schemePool)] + sepPool[uni(t, label+"sep")%len(sepPool)]
	if uni(t, label+"ui")%5 == 0 {
		s += []string{"u@", "u:p@", "@", "u:p:q@", "%41@", "u@v@"}[uni(t, label+"uiv")%6]
	}
	s += genDomain(t, label+"h")
	if uni(t, label+"port")%5 == 0 {
		s += []string{":80", ":", ":99999", ":-1", ":8a", ":080"}[uni(t, label+"portv")%6]
	}
	return s + pathPool[uni(t, label+"p")%len(pathPool)]
}

// genHostile draws one payload for a GeneralName of the given kind ('e' rfc822Name, 'd' dNSName, 'u' URI).
func genHostile(t *rapid.T, label string, kind byte) []byte {
	var s string
	switch uni(t, label+"mode") % 8 {
	case 0:
		s = nastyPool[uni(t, label+"nasty")%len(nastyPool)]
	case 1: // token soup
		for i, n := 0, 1+uni(t, label+"t#")%6; i < n; i++ {
			all := [][]string{labelPool, atomPool, qPool, pathPool, sepPool, hostPool, {"@", ".", "\"", "\\", ":", "/", "%", "[", "]"}}
			p := all[uni(t, label+"tp")%len(all)]
			s += p[uni(t, label+"tv")%len(p)]
		}
	default:
		switch kind {
		case 'e':
			s = genMailbox(t, label)
		case 'd':
			s = genDomain(t, label)
		default:
			s = genURI(t, label)
		}
	}
	b := []byte(s)
	if len(b) > 0 && uni(t, label+"cut")%4 == 0 { // a prefix: unterminated quotes, dangling escapes, half an IPv6 literal
		b = b[:1+uni(t, label+"cutat")%len(b)]
	}
	if uni(t, label+"inj")%8 == 0 {
		at := 0
		if len(b) > 0 {
			at = uni(t, label+"injat") % (len(b) + 1)
		}
		c := []byte{0x00, 0xe9, 0x80, 0xff, 0x7f, 0x0b, '\n', '\\', '"', '@'}[uni(t, label+"injc")%10]
		b = append(append(append([]byte{}, b[:at]...), c), b[at:]...)
	}
	if uni(t, label+"long")%24 == 0 && len(b) > 0 { // very long
		b = bytes.Repeat(append(b, '.'), 1+400/len(b))
	}
	return b
}

func genPayload(t *rapid.T) PayloadCase {
	c := PayloadCase{Critical: rapid.Bool().Draw(t, "critical"), NoSubject: uni(t, "nosubject")%4 == 0}
	// one to three of the eleven slots are filled per case: a hostile string in one extension must not
	// always be masked by a fatal error in an earlier one (the constraint mailboxes, the one grammar the parser walks byte by byte, are listed twice)
	slots := []struct {
		dst  *[][]byte
		kind byte
	}{{&c.PermEmail, 'e'}, {&c.ExclEmail, 'e'}, {&c.PermEmail, 'e'}, {&c.ExclEmail, 'e'}, {&c.SANEmail, 'e'}, {&c.SANDNS, 'd'}, {&c.SANURI, 'u'}, {&c.PermDNS, 'd'}, {&c.ExclDNS, 'd'},
		{&c.PermURI, 'd'}, {&c.ExclURI, 'u'}, {&c.AIA, 'u'}, {&c.CRLDP, 'u'}}
	for i, n := 0, 1+uni(t, "slots")%3; i < n; i++ {
		sl := slots[uni(t, "slot")%len(slots)]
		for j, m := 0, 1+uni(t, "perslot")%2; j < m; j++ {
			*sl.dst = append(*sl.dst, genHostile(t, "p", sl.kind))
		}
	}
	return c
}

func gns(tag byte, l [][]byte) [][]byte {
	var out [][]byte
	for _, b := range l {
		out = append(out, derx.TLV(tag, b))
	}
	return out
}

func cat(l ...[][]byte) [][]byte {
	var out [][]byte
	for _, x := range l {
		out = append(out, x...)
	}
	return out
}

func wrapEach(l [][]byte) [][]byte {
	out := make([][]byte, len(l))
	for i, b := range l {
		out[i] = derx.Seq(b)
	}
	return out
}

var payloadCA struct {
	once sync.Once
	cert *stdx509.Certificate
	key  *keys.Key
}

// payloadInputs builds the three encodings around the payloads: a certificate (derx), a CSR and a CRL
// (crypto/x509 encoders with the raw GeneralNames as extra extensions).
func payloadInputs(c PayloadCase) (cert, csr, crl []byte, err error) {
	key := keys.Pick("ed25519", 5)
	var exts []pki.Ext
	exts = append(exts, pki.BasicConstraints(true, -1, true))
	san := cat(gns(0x81, c.SANEmail), gns(0x82, c.SANDNS), gns(0x86, c.SANURI))
	if len(san) > 0 {
		exts = append(exts, pki.Ext{OID: pki.OIDExtSAN, Critical: c.NoSubject || c.Critical, Value: derx.Seq(san...)})
	}
	perm := wrapEach(cat(gns(0x81, c.PermEmail), gns(0x82, c.PermDNS), gns(0x86, c.PermURI)))
	excl := wrapEach(cat(gns(0x81, c.ExclEmail), gns(0x82, c.ExclDNS), gns(0x86, c.ExclURI)))
	if len(perm)+len(excl) > 0 {
		var body [][]byte
		if len(perm) > 0 {
			body = append(body, derx.TLV(0xa0, perm...))
		}
		if len(excl) > 0 {
			body = append(body, derx.TLV(0xa1, excl...))
		}
		exts = append(exts, pki.Ext{OID: pki.OIDExtNameConstr, Critical: c.Critical, Value: derx.Seq(body...)})
	}
	if len(c.AIA) > 0 {
		var body [][]byte
		for i, u := range c.AIA {
			body = append(body, derx.Seq(derx.OID(1, 3, 6, 1, 5, 5, 7, 48, 1+i%2), derx.TLV(0x86, u)))
		}
		exts = append(exts, pki.Ext{OID: pki.OIDExtAIA, Value: derx.Seq(body...)})
	}
	if len(c.CRLDP) > 0 {
		exts = append(exts, pki.Ext{OID: pki.OIDExtCRLDP, Value: derx.Seq(derx.Seq(derx.TLV(0xa0, derx.TLV(0xa0, gns(0x86, c.CRLDP)...))))})
	}
	t := pki.Template{Serial: big.NewInt(77), Subject: pki.CN("payload"), NotBefore: pki.Epoch, NotAfter: pki.Epoch.AddDate(1, 0, 0), Key: key, Exts: exts}
	if c.NoSubject {
		t.Subject = pki.Name{}
	}
	cert = pki.Issue(nil, t, "payload").DER

	if len(san) > 0 {
		rt := &stdx509.CertificateRequest{Subject: stdpkix.Name{CommonName: "payload"}, ExtraExtensions: []stdpkix.Extension{{Id: asn1OID(pki.OIDExtSAN), Value: derx.Seq(san...)}}}
		if csr, err = stdx509.CreateCertificateRequest(rand.Reader, rt, key.Signer); err != nil {
			return nil, nil, nil, err
		}
	}
	payloadCA.once.Do(func() {
		k := keys.Pick("ed25519", 6)
		ct := pki.CATemplate("payload crl issuer", k, 1, nil)
		d := pki.Issue(nil, ct, "crlca").DER
		payloadCA.cert, err = stdx509.ParseCertificate(d)
		payloadCA.key = k
	})
	if payloadCA.cert == nil {
		return nil, nil, nil, fmt.Errorf("payload CRL issuer: %v", err)
	}
	names := cat(san, gns(0x86, c.CRLDP))
	if len(names) > 0 {
		rl := &stdx509.RevocationList{Number: big.NewInt(1), ThisUpdate: pki.Epoch, NextUpdate: pki.Epoch.Add(24 * time.Hour),
			ExtraExtensions: []stdpkix.Extension{
				{Id: asn1OID{2, 5, 29, 18}, Value: derx.Seq(names...)},
				{Id: asn1OID{2, 5, 29, 28}, Critical: true, Value: derx.Seq(derx.TLV(0xa0, derx.TLV(0xa0, names...)))},
				{Id: asn1OID{2, 5, 29, 46}, Value: derx.Seq(derx.Seq(derx.TLV(0xa0, derx.TLV(0xa0, names...))))}},
			RevokedCertificateEntries: []stdx509.RevocationListEntry{{SerialNumber: big.NewInt(3), RevocationTime: pki.Epoch,
				ExtraExtensions: []stdpkix.Extension{{Id: asn1OID{2, 5, 29, 29}, Critical: true, Value: derx.Seq(names...)}}}}}
		if crl, err = stdx509.CreateRevocationList(rand.Reader, rl, payloadCA.cert, payloadCA.key.Signer); err != nil {
			return nil, nil, nil, err
		}
	}
	return cert, csr, crl, nil
}

func checkPayload(t *testing.T, c PayloadCase) harness.Verdict {
	var v harness.Verdict
	cert, csr, crl, err := payloadInputs(c)
	if err != nil {
		v.Failf("harness:payload-encoder", "cannot encode the case: %v", err)
		return v
	}
	res := runAll(&v, cert, nil)
	v.Class("cert:" + res["ParseCertificate"])
	if csr != nil {
		r := runAll(&v, csr, nil)
		v.Class("csr:" + r["ParseCertificateRequest"])
	}
	if crl != nil {
		r := runAll(&v, crl, pemCRL(crl))
		v.Class("crl:" + r["ParseCertificateListDER"])
	}
	n := len(c.SANEmail) + len(c.SANDNS) + len(c.SANURI) + len(c.PermEmail) + len(c.ExclEmail) + len(c.PermDNS) + len(c.ExclDNS) + len(c.PermURI) + len(c.ExclURI) + len(c.AIA) + len(c.CRLDP)
	v.NonTrivial = n > 0
	if len(c.PermEmail)+len(c.ExclEmail) > 0 {
		v.Class("nc-email")
	}
	if len(c.PermDNS)+len(c.ExclDNS)+len(c.PermURI)+len(c.ExclURI) > 0 {
		v.Class("nc-dns-uri")
	}
	if len(c.SANEmail)+len(c.SANDNS)+len(c.SANURI) > 0 {
		v.Class("san")
	}
	// where the reference accepts the same bytes they are a well-formed certificate: conformance applies
	if ref, rerr := stdx509.ParseCertificate(cert); rerr == nil {
		v.Class("reference-accepts")
		got, gerr := x509.ParseCertificate(append([]byte(nil), cert...))
		switch {
		case got == nil:
			v.Failf("conf:fatal", "certificate accepted by crypto/x509 is refused: %v", gerr)
		case gerr != nil:
			v.Failf("conf:nonfatal", "certificate accepted by crypto/x509 parses with non-fatal errors: %v", gerr)
		default:
			compareCerts(&v, ConfCase{}, got, ref)
		}
	} else {
		v.Class("reference-rejects")
	}
	v.Sample = map[string]any{"strings": n, "cert": res["ParseCertificate"], "len": len(cert)}
	return v
}

// Payload is the payload-level part of sub-property (a) (and of (b) where the reference accepts).
var Payload = harness.Define(harness.Opts{Name: "payload",
	Rule:  "well-formed certificate / CSR / CRL whose rfc822Name, dNSName and URI GeneralNames (SAN, permitted and excluded name constraints, AIA, CRLDP, issuerAltName, issuing distribution point, certificate issuer) carry payloads from a hostile grammar (quoted and unterminated mailboxes, quoted-pairs, empty labels, leading / trailing dots, IPv6 literals, ports, percent escapes, NUL, non-ASCII, very long), fed to all twelve entry points; compared field by field where crypto/x509 accepts the same bytes; non-trivial = at least one payload",
	Quick: 6000, Thorough: 30000}, genPayload, checkPayload)
