package c11

import (
	"bytes"
	stdx509 "crypto/x509"
	"fmt"
	"math/big"
	"testing"

	"github.com/google/certificate-transparency-go/x509"
	"pgregory.net/rapid"

	"verif/internal/derx"
	"verif/internal/harness"
	"verif/internal/keys"
	"verif/internal/pki"
)

// AlgIDCase is one input of the algorithm-identifier sub-property: a certificate, a CSR and a CRL built
// with derx around generated AlgorithmIdentifiers - in the certificate's two signatureAlgorithm fields,
// the SubjectPublicKeyInfo, the CSR and the CRL. Parsers never check the signature value, so it is
// opaque bytes here.
type AlgIDCase struct {
	Sig      AlgSpec  `json:"sig"`
	Outer    *AlgSpec `json:"outer,omitempty"` // when set, the outer signatureAlgorithm differs from tbs.signature
	Key      AlgSpec  `json:"key"`             // SubjectPublicKeyInfo.algorithm
	KeyKind  string   `json:"keykind"`         // pool key whose subjectPublicKey BIT STRING is carried
	SigBytes int      `json:"sigbytes"`
}

// AlgSpec describes one AlgorithmIdentifier.
type AlgSpec struct {
	OID     int     `json:"oid"`    // index into the table of the field (sigOIDs / keyOIDs)
	Params  int     `json:"params"` // see paramKinds
	Garbage []byte  `json:"garbage,omitempty"`
	PSS     PSSSpec `json:"pss"`
	Curve   int     `json:"curve,omitempty"`
}

// PSSSpec is RSASSA-PSS-params (RFC 4055 s3.1), every field independently present / absent / odd.
type PSSSpec struct {
	Hash       int  `json:"hash"`       // index into hashOIDs; -1: field absent (default SHA-1)
	HashParams int  `json:"hashparams"` // 0 absent, 1 NULL, 2 garbage
	MGF        int  `json:"mgf"`        // 0 MGF1, 1 another OID, -1 field absent
	MGFHash    int  `json:"mgfhash"`    // index into hashOIDs; -1: MGF parameters absent
	MGFParams  int  `json:"mgfparams"`  // 0 absent, 1 NULL, 2 garbage
	Salt       int  `json:"salt"`       // -2: field absent; otherwise the value
	Trailer    int  `json:"trailer"`    // -2: field absent; otherwise the value
	Implicit   bool `json:"implicit,omitempty"`
}

var sigOIDs = [][]int{
	{1, 2, 840, 113549, 1, 1, 10}, // RSASSA-PSS first: the one with structured parameters
	{1, 2, 840, 113549, 1, 1, 2}, {1, 2, 840, 113549, 1, 1, 4}, {1, 2, 840, 113549, 1, 1, 5}, {1, 2, 840, 113549, 1, 1, 11}, {1, 2, 840, 113549, 1, 1, 12}, {1, 2, 840, 113549, 1, 1, 13}, {1, 2, 840, 113549, 1, 1, 14},
	{1, 2, 840, 10040, 4, 3}, {2, 16, 840, 1, 101, 3, 4, 3, 2}, {1, 2, 840, 10045, 4, 1}, {1, 2, 840, 10045, 4, 3, 1}, {1, 2, 840, 10045, 4, 3, 2}, {1, 2, 840, 10045, 4, 3, 3}, {1, 2, 840, 10045, 4, 3, 4},
	{1, 3, 101, 112}, {1, 3, 101, 113}, {1, 3, 14, 3, 2, 29}, {1, 2, 840, 113549, 1, 1, 1}, {1, 2, 3, 4},
}

var keyOIDs = [][]int{
	{1, 2, 840, 113549, 1, 1, 1}, {1, 2, 840, 113549, 1, 1, 10}, {1, 2, 840, 113549, 1, 1, 7}, {1, 2, 840, 10040, 4, 1}, {1, 2, 840, 10045, 2, 1}, {1, 3, 101, 112}, {1, 3, 101, 110}, {2, 5, 8, 1, 1}, {1, 3, 132, 1, 12}, {1, 2, 3, 4},
	{1, 3, 101, 111}, {1, 3, 101, 113}, {1, 3, 101, 109}, {1, 3, 101, 114}, {1, 2, 840, 113549, 1, 3, 1}, {1, 2, 840, 10046, 2, 1}, {1, 3, 132, 1, 13}, {1, 2, 840, 113549, 1, 1, 11}, {1, 2, 840, 10045, 4, 3, 2},
}

var hashOIDs = [][]int{
	{1, 3, 14, 3, 2, 26}, {2, 16, 840, 1, 101, 3, 4, 2, 4}, {2, 16, 840, 1, 101, 3, 4, 2, 1}, {2, 16, 840, 1, 101, 3, 4, 2, 2}, {2, 16, 840, 1, 101, 3, 4, 2, 3}, {2, 16, 840, 1, 101, 3, 4, 2, 5}, {2, 16, 840, 1, 101, 3, 4, 2, 6},
	{2, 16, 840, 1, 101, 3, 4, 2, 8}, {1, 2, 840, 113549, 2, 5}, {1, 2, 3, 4, 5},
}
var hashSizes = []int{20, 28, 32, 48, 64, 28, 32, 32, 16, 0}

var curveOIDs = [][]int{{1, 3, 132, 0, 33}, {1, 2, 840, 10045, 3, 1, 7}, {1, 3, 132, 0, 34}, {1, 3, 132, 0, 35}, {1, 2, 840, 10045, 3, 1, 1}, {1, 3, 132, 0, 10}, {1, 2, 3, 4}}

// paramKinds of AlgSpec.Params.
const (
	pAbsent = iota
	pNull
	pGarbage    // Garbage verbatim (any bytes)
	pPSS        // RSASSA-PSS-params from PSS
	pEmptySeq   // 30 00
	pCurve      // a named-curve OID
	pDSA        // Dss-Parms of the pool DSA key (or small integers)
	pOctets     // an OCTET STRING
	pOAEP       // RSAES-OAEP-params with explicit SHA-256
	pParamKinds // count
)

func genPSS(t *rapid.T, label string) PSSSpec {
	p := PSSSpec{Hash: uni(t, label+"h") % len(hashOIDs)}
	if uni(t, label+"habs")%8 == 0 {
		p.Hash = -1
	}
	p.HashParams = []int{0, 1, 1, 2}[uni(t, label+"hp")%4]
	p.MGF = []int{0, 0, 0, 0, 1, -1}[uni(t, label+"m")%6]
	if uni(t, label+"same")%3 != 0 && p.Hash >= 0 { // the coordinated choice: MGF1 over the same digest
		p.MGFHash = p.Hash
	} else {
		p.MGFHash = uni(t, label+"mh")%(len(hashOIDs)+1) - 1
	}
	p.MGFParams = []int{0, 1, 1, 2}[uni(t, label+"mp")%4]
	switch uni(t, label+"s") % 4 {
	case 0, 1: // the digest size of the hash
		if p.Hash >= 0 {
			p.Salt = hashSizes[p.Hash]
		} else {
			p.Salt = 20
		}
	case 2:
		p.Salt = []int{0, 1, 20, 28, 32, 48, 64, 65, 255, 256, 1 << 31, -1, -2, 1<<63 - 1}[uni(t, label+"sv")%14]
	default:
		p.Salt = rapid.IntRange(0, 70).Draw(t, label+"sr")
	}
	p.Trailer = []int{-2, -2, 1, 1, 0, 2, 188, -1}[uni(t, label+"t")%8]
	p.Implicit = uni(t, label+"impl")%16 == 0
	return p
}

func genAlgSpec(t *rapid.T, label string, table [][]int, key bool) AlgSpec {
	a := AlgSpec{OID: uni(t, label+"oid") % len(table)}
	if !key && uni(t, label+"pssbias")%3 == 0 {
		a.OID = 0 // RSASSA-PSS
	}
	a.Params = uni(t, label+"p") % pParamKinds
	isPSS := bytes.Equal(derx.OID(table[a.OID]...), derx.OID(1, 2, 840, 113549, 1, 1, 10))
	if isPSS && uni(t, label+"psspar")%4 != 0 {
		a.Params = pPSS
	}
	if key && uni(t, label+"natural")%2 == 0 { // the parameters the algorithm calls for
		a.Params = []int{pNull, pPSS, pOAEP, pDSA, pCurve, pAbsent, pAbsent, pNull, pCurve, pAbsent, pAbsent, pAbsent, pAbsent, pAbsent, pDSA, pDSA, pCurve, pNull, pAbsent}[a.OID]
	}
	switch a.Params {
	case pGarbage, pOctets:
		a.Garbage = rapid.SliceOfN(rapid.Byte(), 0, 12).Draw(t, label+"g")
	case pPSS:
		a.PSS = genPSS(t, label+"pss")
	case pCurve:
		a.Curve = uni(t, label+"c") % len(curveOIDs)
	}
	return a
}

func genAlgID(t *rapid.T) AlgIDCase {
	c := AlgIDCase{Sig: genAlgSpec(t, "sig", sigOIDs, false), Key: genAlgSpec(t, "key", keyOIDs, true)}
	if uni(t, "outer")%5 == 0 {
		o := genAlgSpec(t, "outer", sigOIDs, false)
		c.Outer = &o
	}
	kinds := []string{"rsa1024", "rsa2048", "p224", "p256", "p384", "p521", "ed25519", "dsa1024"}
	c.KeyKind = kinds[uni(t, "keykind")%len(kinds)]
	if uni(t, "keymatch")%2 == 0 { // a key of the kind the algorithm names
		c.KeyKind = []string{"rsa1024", "rsa2048", "rsa1024", "dsa1024", []string{"p224", "p256", "p384", "p521"}[c.Key.Curve%4], "ed25519", "ed25519", "rsa1024", "p256", "p256", "ed25519", "ed25519", "ed25519", "ed25519", "dsa1024", "dsa1024", "p256", "rsa1024", "p256"}[c.Key.OID]
	}
	c.SigBytes = []int{0, 1, 64, 128, 256}[uni(t, "sigbytes")%5]
	return c
}

func intDER(v int) []byte { return derx.Int(big.NewInt(int64(v))) }

func (p PSSSpec) der() []byte {
	var parts [][]byte
	wrap := func(n int, inner []byte) []byte {
		if p.Implicit { // wrongly IMPLICIT tagging: the context tag replaces the inner tag
			k, _, err := derx.Parse(inner)
			if err == nil {
				return derx.TLV(0xa0|byte(n), k.Content)
			}
		}
		return derx.Explicit(n, inner)
	}
	params := func(kind int) [][]byte {
		switch kind {
		case 1:
			return [][]byte{derx.Null()}
		case 2:
			return [][]byte{derx.Octets([]byte{1, 2, 3})}
		}
		return nil
	}
	if p.Hash >= 0 {
		parts = append(parts, wrap(0, derx.Seq(append([][]byte{derx.OID(hashOIDs[p.Hash%len(hashOIDs)]...)}, params(p.HashParams)...)...)))
	}
	if p.MGF >= 0 {
		mgf := [][]byte{derx.OID(1, 2, 840, 113549, 1, 1, 8)}
		if p.MGF == 1 {
			mgf = [][]byte{derx.OID(1, 2, 840, 113549, 1, 1, 9)}
		}
		if p.MGFHash >= 0 {
			mgf = append(mgf, derx.Seq(append([][]byte{derx.OID(hashOIDs[p.MGFHash%len(hashOIDs)]...)}, params(p.MGFParams)...)...))
		}
		parts = append(parts, wrap(1, derx.Seq(mgf...)))
	}
	if p.Salt != -2 {
		parts = append(parts, wrap(2, intDER(p.Salt)))
	}
	if p.Trailer != -2 {
		parts = append(parts, wrap(3, intDER(p.Trailer)))
	}
	return derx.Seq(parts...)
}

func (a AlgSpec) der(table [][]int) []byte {
	parts := [][]byte{derx.OID(table[a.OID%len(table)]...)}
	switch a.Params {
	case pNull:
		parts = append(parts, derx.Null())
	case pGarbage:
		parts = append(parts, a.Garbage)
	case pPSS:
		parts = append(parts, a.PSS.der())
	case pEmptySeq:
		parts = append(parts, derx.Seq())
	case pCurve:
		parts = append(parts, derx.OID(curveOIDs[a.Curve%len(curveOIDs)]...))
	case pDSA:
		if k := keys.Pick("dsa1024", 0); k.DSA != nil {
			parts = append(parts, derx.Seq(derx.Int(k.DSA.P), derx.Int(k.DSA.Q), derx.Int(k.DSA.G)))
		} else {
			parts = append(parts, derx.Seq(intDER(23), intDER(11), intDER(2)))
		}
	case pOctets:
		parts = append(parts, derx.Octets(a.Garbage))
	case pOAEP:
		h := derx.Seq(derx.OID(2, 16, 840, 1, 101, 3, 4, 2, 1), derx.Null())
		parts = append(parts, derx.Seq(derx.Explicit(0, h), derx.Explicit(1, derx.Seq(derx.OID(1, 2, 840, 113549, 1, 1, 8), h))))
	}
	return derx.Seq(parts...)
}

// keyBits returns the subjectPublicKey BIT STRING (whole TLV) of a pool key.
func keyBits(kind string) []byte {
	k := keys.Pick(kind, 1)
	if k.SPKI != nil {
		if n, _, err := derx.Parse(k.SPKI); err == nil && len(n.Children) == 2 {
			return n.Children[1].Encode()
		}
	}
	if k.DSA != nil {
		return derx.BitString(derx.Int(k.DSA.Y), 0)
	}
	return derx.BitString([]byte{4, 1, 2, 3}, 0)
}

func algidInputs(c AlgIDCase) (cert, csr, crl, spki []byte) {
	sig := c.Sig.der(sigOIDs)
	outer := sig
	if c.Outer != nil {
		outer = c.Outer.der(sigOIDs)
	}
	spki = derx.Seq(c.Key.der(keyOIDs), keyBits(c.KeyKind))
	sigVal := derx.BitString(bytes.Repeat([]byte{0x5a}, c.SigBytes), 0)
	name := pki.CN("algid").DER()
	validity := derx.Seq(derx.Time(pki.Epoch), derx.Time(pki.Epoch.AddDate(1, 0, 0)))
	exts := derx.Explicit(3, derx.Seq(pki.BasicConstraints(false, -1, true).DER(), pki.SANDNS("algid.example.com").DER()))
	tbs := derx.Seq(derx.Explicit(0, intDER(2)), intDER(4711), sig, name, validity, name, spki, exts)
	cert = derx.Seq(tbs, outer, sigVal)
	csr = derx.Seq(derx.Seq(intDER(0), name, spki, derx.TLV(0xa0)), outer, sigVal)
	crl = derx.Seq(derx.Seq(intDER(1), sig, name, derx.Time(pki.Epoch), derx.Time(pki.Epoch.AddDate(0, 1, 0))), outer, sigVal)
	return
}

func checkAlgID(t *testing.T, c AlgIDCase) harness.Verdict {
	var v harness.Verdict
	cert, csr, crl, spki := algidInputs(c)
	r4 := runAll(&v, spki, nil) // the bare SubjectPublicKeyInfo: the PKIX entry point sees every key algorithm OID
	v.Class("spki:" + r4["ParsePKIXPublicKey"])
	res := runAll(&v, cert, nil)
	r2 := runAll(&v, csr, nil)
	r3 := runAll(&v, crl, nil)
	v.Class("cert:"+res["ParseCertificate"], "csr:"+r2["ParseCertificateRequest"], "crl:"+r3["ParseCertificateListDER"])
	v.Class(fmt.Sprintf("sig-oid:%d", c.Sig.OID), fmt.Sprintf("sig-params:%d", c.Sig.Params), fmt.Sprintf("key-oid:%d", c.Key.OID), fmt.Sprintf("key-params:%d", c.Key.Params))
	v.NonTrivial = true
	if c.Sig.Params == pPSS {
		p := c.Sig.PSS
		if p.Hash >= 0 && p.MGF == 0 && p.MGFHash == p.Hash && p.Salt == hashSizes[p.Hash] && (p.Trailer == 1 || p.Trailer == -2) && !p.Implicit {
			v.Class(fmt.Sprintf("pss-coherent:hash%d", p.Hash))
		} else {
			v.Class("pss-other")
		}
	}
	// crypto/x509 interprets neither RSAES-OAEP keys (fork only) nor reports X25519 keys the way the fork does
	// (crypto/x509 only): the comparison is confined to key algorithms both interpret or both ignore
	// ... and md2WithRSAEncryption is named by the fork only (crypto/x509 of go1.26 has dropped it from its table).
	md2 := func(a AlgSpec) bool { return a.OID == 1 }
	oneSided := c.Key.OID == 2 || c.Key.OID == 6 || md2(c.Sig)
	if ref, rerr := stdx509.ParseCertificate(cert); rerr == nil && !oneSided {
		v.Class("reference-accepts")
		got, gerr := x509.ParseCertificate(append([]byte(nil), cert...))
		switch {
		case got == nil:
			v.Failf("conf:fatal", "certificate accepted by crypto/x509 is refused: %v", gerr)
		case gerr != nil:
			v.Failf("conf:nonfatal", "certificate accepted by crypto/x509 parses with non-fatal errors: %v", gerr)
		default:
			compareCerts(&v, ConfCase{}, got, ref)
			v.Class("sigalg:" + ref.SignatureAlgorithm.String())
		}
	} else if rerr != nil {
		v.Class("reference-rejects")
	}
	v.Sample = map[string]any{"sig": c.Sig.OID, "params": c.Sig.Params, "key": c.Key.OID, "cert": res["ParseCertificate"]}
	return v
}

// AlgID is the AlgorithmIdentifier-level part of sub-properties (a) and (b).
var AlgID = harness.Define(harness.Opts{Name: "algid",
	Rule:  "certificate, CSR and CRL built with derx around generated AlgorithmIdentifiers: twenty signature OIDs (RSASSA-PSS a third of the time) with absent / NULL / garbage / empty-SEQUENCE / curve / DSA / OAEP / RSASSA-PSS parameters - the latter over ten hash OIDs x MGF (MGF1 over the same or another digest, other function, absent) x salt lengths (digest size, boundary values, absent) x trailer fields - in tbs.signature and (same or different) the outer field; ten public-key algorithm OIDs with natural or foreign parameters around pool keys; fed to all twelve entry points, compared field by field where crypto/x509 accepts the certificate",
	Quick: 5000, Thorough: 30000}, genAlgID, checkAlgID)
