package c11

import (
	"encoding/hex"
	"encoding/json"
	"fmt"
	"os"
	"testing"

	"github.com/google/certificate-transparency-go/x509"
)

func TestDbg(t *testing.T) {
	p := os.Getenv("DBG_CASE")
	if p == "" {
		t.Skip()
	}
	b, _ := os.ReadFile(p)
	var rf struct{ Case TotalCase }
	json.Unmarshal(b, &rf)
	in, kind, applied, _ := resolve(rf.Case.Src, rf.Case.Name, rf.Case.Raw, rf.Case.Muts)
	fmt.Println(kind, applied, rf.Case.Name)
	fmt.Println(hex.EncodeToString(in[:min(len(in), 120)]))
	c, err := x509.ParseCertificate(in)
	fmt.Printf("cert=%v err=%v\n", c != nil, err)
	if c != nil {
		fmt.Println("version", c.Version, "serial", c.SerialNumber)
	}
}
