package c11

import (
	"testing"

	"verif/internal/harness"
)

func TestProps(t *testing.T) { harness.Main(t, "C11", Total, Payload, AlgID, History, Conform, Concat) }
