package c11

import (
	"bytes"
	"fmt"
	"reflect"
	"testing"

	"github.com/google/certificate-transparency-go/x509"
	"pgregory.net/rapid"

	"verif/internal/derx"
	"verif/internal/harness"
)

// Elem is one certificate of a concatenation: a certificate fixture under 0-2 mutations that keep it
// one TLV (or raw bytes, for hand-written replays).
type Elem struct {
	Src  int    `json:"src"`
	Name string `json:"name,omitempty"`
	Muts []Mut  `json:"muts,omitempty"`
	Raw  []byte `json:"raw,omitempty"`
}

// ConcatCase is one input of sub-property (c).
type ConcatCase struct {
	Elems []Elem `json:"elems"`
}

// laxOps are the three malformations the lax ASN.1 mode forgives, plus value edits that keep a
// certificate parseable; they make the interesting elements (accepted, with or without a non-fatal error).
var concatOps = []int{mIntNonMinimal, mIntNonMinimal, mLatin, mLatin, mEmptyOID, mEmptyOID, mOIDReplace, mIntSet, mEmptyValid, mEmptyValid, mSCTList, mFlip, mBadBool, mBitPad, mOddTime, mSwap, mDup, mDelete, mInsert, mRetag, mLenNonMinimal, mArc80, mContent}

func genConcat(t *rapid.T) ConcatCase {
	n := []int{2, 1, 2, 3, 4, 2, 3}[uni(t, "n")%7]
	c := ConcatCase{}
	certs := fixturesOfKind("cert")
	for i := 0; i < n; i++ {
		idx := certs[uni(t, "fixture")%len(certs)]
		e := Elem{Src: idx, Name: Fixtures()[idx].Name}
		nm := []int{0, 0, 1, 1, 1, 2}[uni(t, "nmut")%6]
		for j := 0; j < nm; j++ {
			m := Mut{Op: concatOps[uni(t, "op")%len(concatOps)], Node: rapid.IntRange(0, 1<<16).Draw(t, "node"), A: rapid.IntRange(0, 1<<16).Draw(t, "a")}
			if m.Op == mContent || m.Op == mInsert {
				m.B = rapid.SliceOfN(rapid.Byte(), 0, 8).Draw(t, "mb")
			}
			e.Muts = append(e.Muts, m)
		}
		c.Elems = append(c.Elems, e)
	}
	return c
}

func errClass(obj any, err error) string {
	switch {
	case isNilObj(obj) || x509.IsFatal(err):
		return "fatal"
	case err != nil:
		return "nonfatal"
	}
	return "ok"
}

func checkConcat(t *testing.T, c ConcatCase) harness.Verdict {
	var v harness.Verdict
	var parts [][]byte
	var whole []byte
	framed := true
	for _, e := range c.Elems {
		b, _, _, ok := resolve(e.Src, e.Name, e.Raw, e.Muts)
		if !ok {
			v.Failf("harness:unknown-fixture", "fixture %d %q not found", e.Src, e.Name)
			return v
		}
		if n, rest, err := derx.Parse(b); err != nil || len(rest) != 0 || n.Len != len(b) {
			framed = false
		}
		parts = append(parts, b)
		whole = append(whole, b...)
	}
	v.Class(fmt.Sprintf("n:%d", len(parts)))

	wbuf := append([]byte(nil), whole...)
	all, allErr := x509.ParseCertificates(wbuf)
	if !bytes.Equal(wbuf, whole) {
		v.Failf("input-modified:ParseCertificates", "ParseCertificates modified its input buffer")
	}
	allClass := contract(&v, "ParseCertificates", all, allErr)
	if !framed {
		// an element that is not exactly one TLV shifts the boundaries of its neighbours: the
		// per-element law does not apply, only coherence does.
		v.Class("unframed")
		return v
	}
	var single []*x509.Certificate
	var classes []string
	anyFatal, anyNonFatal, outerLax := false, false, false
	for i, b := range parts {
		sbuf := append([]byte(nil), b...)
		ci, err := x509.ParseCertificate(sbuf)
		if !bytes.Equal(sbuf, b) {
			v.Failf("input-modified:ParseCertificate", "ParseCertificate modified its input buffer (element %d)", i)
		}
		cl := contract(&v, "ParseCertificate", ci, err)
		classes = append(classes, cl)
		single = append(single, ci)
		switch cl {
		case "fatal":
			anyFatal = true
		case "nonfatal":
			anyNonFatal = true
			if loc, _ := locateCert(b, false); loc.outerLax {
				outerLax = true
				v.Class("elem:lax-outer")
			} else {
				v.Class("elem:lax-inner")
			}
		}
		v.Class("elem:" + cl)
		_ = i
	}
	if len(v.Violations) > 0 {
		return v
	}
	v.NonTrivial = len(parts) >= 2 && anyNonFatal
	v.Sample = map[string]any{"elems": classes, "whole": allClass, "len": len(whole)}
	switch {
	case anyFatal:
		v.Class("expect:fatal")
		if allClass != "fatal" {
			v.Failf("concat-accepts-fatal-element", "elements parse alone as %v but ParseCertificates returned %d certificates (err %v)", classes, len(all), allErr)
		}
		return v
	case allClass == "fatal":
		if outerLax {
			v.Failf("parsecertificates-lax-fallback", "every element is accepted by ParseCertificate (%v, one of them only by the lax ASN.1 pass) but ParseCertificates fails fatally: %v", classes, allErr)
		} else {
			v.Failf("concat-fatal-though-elements-parse", "every element is accepted by ParseCertificate (%v) but ParseCertificates fails fatally: %v", classes, allErr)
		}
		return v
	}
	want := "ok"
	if anyNonFatal {
		want = "nonfatal"
	}
	v.Class("expect:" + want)
	if allClass != want {
		v.Failf("concat-error-class", "elements parse alone as %v, ParseCertificates error class is %s (%v)", classes, allClass, allErr)
	}
	if len(all) != len(parts) {
		v.Failf("concat-count", "ParseCertificates returned %d certificates for %d elements", len(all), len(parts))
		return v
	}
	for i := range parts {
		if all[i] == nil {
			v.Failf("certificates-nil-element", "element %d is nil", i)
			continue
		}
		if string(all[i].Raw) != string(parts[i]) {
			v.Failf("concat-element-raw", "element %d: Raw is not the %d bytes of the element", i, len(parts[i]))
			continue
		}
		if !reflect.DeepEqual(all[i], single[i]) {
			v.Failf("concat-element-differs", "element %d: the certificate from ParseCertificates differs from ParseCertificate's: %s", i, diffCerts(all[i], single[i]))
		}
	}
	return v
}

// diffCerts names the first fields in which two parsed certificates differ.
func diffCerts(a, b *x509.Certificate) string {
	va, vb := reflect.ValueOf(*a), reflect.ValueOf(*b)
	out := ""
	for i := 0; i < va.NumField(); i++ {
		if !reflect.DeepEqual(va.Field(i).Interface(), vb.Field(i).Interface()) {
			out += va.Type().Field(i).Name + " "
		}
	}
	return out
}

// Concat is sub-property (c).
var Concat = harness.Define(harness.Opts{Name: "concat",
	Rule:  "concatenations of 1-4 certificate fixtures, each under 0-2 mutations that keep it one TLV; ParseCertificates judged element by element against ParseCertificate; non-trivial = n >= 2 with at least one element accepted only with a non-fatal error",
	Quick: 8000, Thorough: 30000}, genConcat, checkConcat)
