package c11

import (
	"pgregory.net/rapid"

	"verif/internal/derx"
)

// Mut is one structure-preserving mutation of a DER tree (plain data).
type Mut struct {
	Op   int    `json:"op"`
	Node int    `json:"node"` // index into the list of eligible nodes (depth first), modulo its length
	A    int    `json:"a,omitempty"`
	B    []byte `json:"b,omitempty"`
}

const (
	mRetag = iota
	mLenDelta
	mLenNonMinimal
	mLenIndefinite
	mSwap
	mDup
	mDelete
	mContent
	mIntNonMinimal
	mEmpty
	mLatin
	mBadBool
	mBitPad
	mOddTime
	mFlip
	mTruncate
	mInsert
	mHighTag
	mArc80
	mAppendByte
	mOIDReplace
	mIntSet
	mEmptyOID
	mWrapTrail
	mEmptyValid
	mSCTList
	mOpCount
)

var mutNames = []string{"retag", "len-delta", "len-nonminimal", "len-indefinite", "swap", "dup", "delete", "content", "int-nonminimal", "empty",
	"latin", "bad-bool", "bit-pad", "odd-time", "flip", "truncate", "insert", "high-tag", "arc80", "append-byte", "oid-replace", "int-set", "empty-oid", "wrap-trail", "empty-valid", "sct-list"}

// framingOps change the outer framing of the input (they are left out where an input must stay one TLV).
var framingOps = map[int]bool{mTruncate: true, mAppendByte: true}

var oddTimes = []string{
	"0601021504Z", "060102150405+0100", "0601021504-0330", "060102150405", "060102150460Z", "060230120000Z", "061302120000Z", "060102240000Z",
	"20060102150405.5Z", "20060102150405.50Z", "20060102150405,5Z", "20060102150405.123456789Z", "20060102150405.Z", "20060102150405+0100",
	"200601021504Z", "2006010215Z", "20060102150405", "99991231235959Z", "00000101000000Z", "500101000000Z", "491231235959Z", "20491231235959Z",
	"20500101000000Z", "19500101000000Z", "060102150405Z ", " 060102150405Z", "0601021504051Z", "060102150405z", "", "Z", "20060102150405.000Z", "20060102150405.10Z",
}

// interestingOIDs are OIDs the parsers under test dispatch on.
var interestingOIDs = [][]int{
	{2, 5, 29, 14}, {2, 5, 29, 15}, {2, 5, 29, 17}, {2, 5, 29, 18}, {2, 5, 29, 19}, {2, 5, 29, 20}, {2, 5, 29, 21}, {2, 5, 29, 24}, {2, 5, 29, 27}, {2, 5, 29, 28}, {2, 5, 29, 29},
	{2, 5, 29, 30}, {2, 5, 29, 31}, {2, 5, 29, 32}, {2, 5, 29, 35}, {2, 5, 29, 37}, {2, 5, 29, 46}, {2, 5, 29, 99},
	{1, 3, 6, 1, 5, 5, 7, 1, 1}, {1, 3, 6, 1, 5, 5, 7, 1, 11}, {1, 3, 6, 1, 5, 5, 7, 1, 7}, {1, 3, 6, 1, 5, 5, 7, 1, 8}, {1, 3, 6, 1, 4, 1, 11129, 2, 4, 2}, {1, 3, 6, 1, 4, 1, 11129, 2, 4, 3},
	{1, 3, 6, 1, 5, 5, 7, 48, 1}, {1, 3, 6, 1, 5, 5, 7, 48, 2}, {1, 3, 6, 1, 5, 5, 7, 48, 3}, {1, 3, 6, 1, 5, 5, 7, 48, 5},
	{1, 2, 840, 113549, 1, 1, 1}, {1, 2, 840, 113549, 1, 1, 7}, {1, 2, 840, 113549, 1, 1, 10}, {1, 2, 840, 113549, 1, 1, 11}, {1, 2, 840, 113549, 1, 1, 5}, {1, 2, 840, 113549, 1, 1, 4},
	{1, 2, 840, 10040, 4, 1}, {1, 2, 840, 10040, 4, 3}, {1, 2, 840, 10045, 2, 1}, {1, 2, 840, 10045, 4, 3, 2}, {1, 3, 101, 112}, {1, 3, 101, 110}, {1, 3, 101, 111}, {1, 3, 101, 113}, {1, 3, 101, 109}, {1, 3, 101, 114}, {2, 5, 8, 1, 1},
	{1, 3, 132, 0, 33}, {1, 2, 840, 10045, 3, 1, 7}, {1, 3, 132, 0, 34}, {1, 3, 132, 0, 35}, {1, 2, 840, 10045, 3, 1, 1}, {1, 3, 132, 0, 10},
	{2, 5, 4, 3}, {2, 5, 4, 6}, {2, 5, 4, 5}, {1, 2, 840, 113549, 1, 9, 1}, {1, 2, 840, 113549, 1, 9, 14},
	{1, 3, 6, 1, 5, 5, 7, 3, 1}, {2, 5, 29, 37, 0}, {1, 3, 6, 1, 4, 1, 11129, 2, 4, 4},
}

var interestingInts = [][]byte{{0}, {1}, {2}, {3}, {0xff}, {0x80}, {0x7f}, {0x00, 0x80}, {0x7f, 0xff, 0xff, 0xff}, {0x00, 0x80, 0x00, 0x00, 0x00}, {0x80, 0x00, 0x00, 0x00},
	{0x7f, 0xff, 0xff, 0xff, 0xff, 0xff, 0xff, 0xff}, {0x00, 0x80, 0x00, 0x00, 0x00, 0x00, 0x00, 0x00, 0x00}, {0x80, 0, 0, 0, 0, 0, 0, 0}, {0xff, 0x7f}, {}, {0x01, 0x00, 0x01}}

// mix spreads rapid's small-biased integers over a whole index range (0 stays a fixed point of shrinking).
func mix(x int) int { return int((uint64(x) * 0x9E3779B97F4A7C15) >> 33) }

// uni draws a near-uniform non-negative integer: rapid's integer generators favour 0, 1 and the bounds,
// which would turn every table lookup into a lopsided choice; four bytes hashed together do not.
func uni(t *rapid.T, label string) int {
	b := rapid.SliceOfN(rapid.Byte(), 4, 4).Draw(t, label)
	return mix(int(b[0]) | int(b[1])<<8 | int(b[2])<<16 | int(b[3])<<24 | 1<<32)
}

// opTable weights the operations: value-level ones (which mostly leave a parseable object) three times
// as often as the framing-level ones (which mostly end in a fatal error).
var opTable = func() []int {
	var t []int
	for op := 0; op < mOpCount; op++ {
		w := 3
		switch op {
		case mRetag, mLenDelta, mLenNonMinimal, mLenIndefinite, mEmpty, mTruncate, mHighTag, mAppendByte, mContent:
			w = 1
		case mIntNonMinimal, mLatin, mEmptyOID, mEmptyValid:
			w = 5
		}
		for i := 0; i < w; i++ {
			t = append(t, op)
		}
	}
	return t
}()

var nmutTable = []int{0, 1, 1, 1, 1, 2, 2, 2, 3, 3, 4}

func genMutsOps(t *rapid.T, min, max int, allowFraming bool) []Mut {
	n := nmutTable[uni(t, "nmut")%len(nmutTable)]
	if n < min {
		n = min
	}
	if n > max {
		n = max
	}
	out := make([]Mut, 0, n)
	for i := 0; i < n; i++ {
		m := Mut{Op: opTable[uni(t, "op")%len(opTable)], Node: rapid.IntRange(0, 1<<16).Draw(t, "node"), A: rapid.IntRange(0, 1<<16).Draw(t, "a")}
		if !allowFraming && framingOps[m.Op] {
			m.Op = mFlip
		}
		switch m.Op {
		case mContent, mInsert:
			m.B = rapid.SliceOfN(rapid.Byte(), 0, 12).Draw(t, "mb")
		case mRetag:
			if rapid.Bool().Draw(t, "retagknown") {
				m.A = 1<<20 | int(rapid.SampledFrom([]byte{0x01, 0x02, 0x03, 0x04, 0x05, 0x06, 0x0a, 0x0c, 0x12, 0x13, 0x14, 0x16, 0x17, 0x18, 0x1b, 0x1e, 0x30, 0x31, 0x80, 0x81, 0x82, 0x86, 0x87, 0xa0, 0xa1, 0xa3, 0xa4, 0x40, 0x60, 0xc0, 0x1f, 0x3f, 0x9f, 0xbf}).Draw(t, "retagv"))
			}
		}
		out = append(out, m)
	}
	return out
}

// mtree is a derx tree in which OCTET STRINGs and BIT STRINGs that wrap DER have been opened.
type mtree struct {
	root    *derx.Node
	bitWrap map[*derx.Node]bool // BIT STRING whose Children encode after a 0x00 unused-bits octet
}

func (mt *mtree) explode(n *derx.Node, depth int) {
	if depth > 24 {
		return
	}
	if n.Children == nil && len(n.ID) == 1 {
		switch n.ID[0] {
		case derx.TagOctetString:
			if k, rest, err := derx.Parse(n.Content); err == nil && len(rest) == 0 && len(n.Content) > 2 {
				n.Children = []*derx.Node{k.Clone()}
			}
		case derx.TagBitString:
			if len(n.Content) > 3 && n.Content[0] == 0 && n.Content[1] == 0x30 {
				if k, rest, err := derx.Parse(n.Content[1:]); err == nil && len(rest) == 0 {
					n.Children = []*derx.Node{k.Clone()}
					mt.bitWrap[n] = true
				}
			}
		}
	}
	for _, k := range n.Children {
		mt.explode(k, depth+1)
	}
}

func (mt *mtree) encode(n *derx.Node) []byte {
	var c []byte
	if n.Children != nil {
		if mt.bitWrap[n] {
			c = append(c, 0)
		}
		for _, k := range n.Children {
			c = append(c, mt.encode(k)...)
		}
	} else {
		c = n.Content
	}
	out := append([]byte(nil), n.ID...)
	if n.RawLen != nil {
		out = append(out, n.RawLen...)
	} else {
		out = append(out, derx.EncLen(len(c))...)
	}
	return append(out, c...)
}

func (mt *mtree) contentOf(n *derx.Node) []byte {
	if n.Children != nil {
		var c []byte
		if mt.bitWrap[n] {
			c = append(c, 0)
		}
		for _, k := range n.Children {
			c = append(c, mt.encode(k)...)
		}
		return c
	}
	return n.Content
}

func (mt *mtree) setContent(n *derx.Node, b []byte) {
	n.Children = nil
	delete(mt.bitWrap, n)
	n.Content = b
}

func (mt *mtree) parentOf(n *derx.Node) (*derx.Node, int) {
	var p *derx.Node
	idx := -1
	mt.root.Walk(func(x *derx.Node) {
		for i, k := range x.Children {
			if k == n {
				p, idx = x, i
			}
		}
	})
	return p, idx
}

// nonMinimalLen returns length octets for l that are never the minimal form.
func nonMinimalLen(l int, extra int) []byte {
	min := derx.EncLen(l)
	if l < 0x80 {
		out := []byte{0x81 + byte(extra%2)}
		if extra%2 == 1 {
			out = append(out, 0)
		}
		return append(out, byte(l))
	}
	out := []byte{min[0] + 1, 0}
	return append(out, min[1:]...)
}

// pick selects the node a mutation acts on: among the nodes with one of the wanted universal tags when
// there are any (so that typed mutations mostly land on a value of their type), else among all nodes.
func pick(nodes []*derx.Node, idx int, tags ...byte) *derx.Node {
	if len(tags) > 0 {
		var el []*derx.Node
		for _, n := range nodes {
			if len(n.ID) != 1 {
				continue
			}
			for _, t := range tags {
				if n.ID[0] == t {
					el = append(el, n)
					break
				}
			}
		}
		if len(el) > 0 {
			return el[mix(idx)%len(el)]
		}
	}
	return nodes[mix(idx)%len(nodes)]
}

// applyMuts applies the mutations to the TLV encoding d and returns the new bytes together with the
// names of the mutations that took effect. An input that is not one TLV is returned unchanged.
func applyMuts(d []byte, muts []Mut) ([]byte, []string) {
	if len(muts) == 0 {
		return d, nil
	}
	root, rest, err := derx.Parse(d)
	if err != nil || len(rest) != 0 {
		return d, []string{"unparsed"}
	}
	mt := &mtree{root: root.Clone(), bitWrap: map[*derx.Node]bool{}}
	mt.explode(mt.root, 0)
	var applied []string
	truncate := -1
	var tail []byte
	for _, m := range muts {
		nodes := mt.root.All()
		done := true
		if m.Op != mRetag || m.A < 1<<20 {
			m.A = mix(m.A) // table indices, byte positions and bit numbers are derived from the spread value
		}
		switch m.Op {
		case mRetag:
			n := pick(nodes, m.Node)
			b := byte(m.A)
			if b&0x1f == 0x1f {
				n.ID = []byte{b, byte(31 + mix(m.Node)%97)}
			} else {
				n.ID = []byte{b}
			}
		case mLenDelta:
			n := pick(nodes, m.Node)
			l := len(mt.contentOf(n))
			delta := m.A%7 - 3
			if delta >= 0 {
				delta++
			}
			if l+delta < 0 {
				delta = 1
			}
			n.RawLen = derx.EncLen(l + delta)
		case mLenNonMinimal:
			n := pick(nodes, m.Node)
			n.RawLen = nonMinimalLen(len(mt.contentOf(n)), m.A)
		case mLenIndefinite:
			pick(nodes, m.Node).RawLen = []byte{0x80}
		case mSwap:
			n := pick(nodes, m.Node)
			p, i := mt.parentOf(n)
			if p == nil || len(p.Children) < 2 {
				done = false
				break
			}
			j := (i + 1 + m.A%(len(p.Children)-1)) % len(p.Children)
			p.Children[i], p.Children[j] = p.Children[j], p.Children[i]
		case mDup:
			n := pick(nodes, m.Node)
			p, i := mt.parentOf(n)
			if p == nil {
				done = false
				break
			}
			kids := append([]*derx.Node{}, p.Children[:i+1]...)
			cl := n.Clone()
			kids = append(kids, cl)
			p.Children = append(kids, p.Children[i+1:]...)
			mt.rewrap(n, cl)
		case mDelete:
			n := pick(nodes, m.Node)
			p, i := mt.parentOf(n)
			if p == nil {
				done = false
				break
			}
			p.Children = append(append([]*derx.Node{}, p.Children[:i]...), p.Children[i+1:]...)
		case mContent:
			mt.setContent(pick(nodes, m.Node), m.B)
		case mIntNonMinimal:
			n := pick(nodes, m.Node, derx.TagInteger, derx.TagEnumerated)
			c := mt.contentOf(n)
			fill := byte(0)
			if len(c) > 0 && c[0]&0x80 != 0 {
				fill = 0xff
			}
			mt.setContent(n, append([]byte{fill}, c...))
		case mEmpty:
			mt.setContent(pick(nodes, m.Node), []byte{})
		case mEmptyOID:
			mt.setContent(pick(nodes, m.Node, derx.TagOID), []byte{})
		case mLatin:
			n := pick(nodes, m.Node, derx.TagPrintable, derx.TagIA5, derx.TagUTF8String, derx.TagNumeric, 0x82, 0x81, 0x86)
			c := append([]byte{}, mt.contentOf(n)...)
			if len(c) == 0 {
				c = []byte{0xe9}
			} else {
				c[m.A%len(c)] = []byte{0xe9, 0xa0, 0xff, '@', '*', '&', 0x00, 0x7f, 0x1b, 0x80, '#', '_', ' ', '.', '%', ':'}[(m.A/16)%16]
			}
			mt.setContent(n, c)
		case mBadBool:
			n := pick(nodes, m.Node, derx.TagBoolean)
			switch m.A % 5 {
			case 0:
				mt.setContent(n, []byte{0x01})
			case 1:
				mt.setContent(n, []byte{0xfe})
			case 2:
				mt.setContent(n, []byte{0xff, 0xff})
			case 3:
				mt.setContent(n, []byte{0x00})
			default:
				mt.setContent(n, []byte{})
			}
		case mBitPad:
			n := pick(nodes, m.Node, derx.TagBitString, 0x81, 0x82, 0x83)
			c := append([]byte{}, mt.contentOf(n)...)
			if len(c) == 0 {
				done = false
				break
			}
			switch m.A % 5 {
			case 3, 4: // a VALID non-zero unused-bits count: 1..7, with those low bits of the last octet cleared
				if len(c) < 2 {
					done = false
					break
				}
				k := 1 + (m.A/5)%7
				c[0] = byte(k)
				c[len(c)-1] &^= byte(1<<uint(k) - 1)
			case 0:
				c[0] = byte(m.A/3) % 10
			case 1:
				c[len(c)-1] |= 1
				if c[0] == 0 {
					c[0] = 1
				}
			default:
				c = c[:1]
				c[0] = byte(1 + m.A%7)
			}
			mt.setContent(n, c)
		case mOddTime:
			mt.setContent(pick(nodes, m.Node, derx.TagUTCTime, derx.TagGenTime), []byte(oddTimes[m.A%len(oddTimes)]))
		case mFlip:
			n := pick(nodes, m.Node)
			for tries := 0; len(n.Children) > 0 && tries < 4; tries++ { // prefer a leaf: flipping inside re-encoded children is a content mutation of them
				n = n.Children[(m.A+tries)%len(n.Children)]
			}
			c := append([]byte{}, mt.contentOf(n)...)
			if len(c) == 0 {
				done = false
				break
			}
			c[m.A%len(c)] ^= 1 << uint((m.A/len(c))%8)
			mt.setContent(n, c)
		case mTruncate:
			truncate = m.A
		case mInsert:
			n := pick(nodes, m.Node, derx.TagSequence, derx.TagSet, 0xa0, 0xa3)
			if n.Children == nil || mt.bitWrap[n] || !n.Constructed() {
				done = false
				break
			}
			var k *derx.Node
			if kn, r, err := derx.Parse(m.B); err == nil && len(r) == 0 {
				k = kn.Clone()
			} else {
				id := byte(m.A) &^ 0x20
				if id&0x1f == 0x1f {
					id &^= 0x01
				}
				k = derx.Leaf(id, m.B)
			}
			i := 0
			if len(n.Children) > 0 {
				i = m.A % (len(n.Children) + 1)
			}
			kids := append([]*derx.Node{}, n.Children[:i]...)
			kids = append(kids, k)
			n.Children = append(kids, n.Children[i:]...)
		case mHighTag:
			n := pick(nodes, m.Node)
			first := n.ID[0]
			if first&0x1f != 0x1f {
				tagno := int(first & 0x1f)
				if m.A%2 == 0 {
					n.ID = []byte{first | 0x1f, byte(tagno)}
				} else {
					n.ID = []byte{first | 0x1f, 0x80, byte(tagno)}
				}
			} else {
				n.ID = append([]byte{first, 0x80}, n.ID[1:]...)
			}
		case mArc80:
			n := pick(nodes, m.Node, derx.TagOID)
			c := mt.contentOf(n)
			var starts []int
			for i := range c {
				if i == 0 || c[i-1]&0x80 == 0 {
					starts = append(starts, i)
				}
			}
			if len(starts) == 0 {
				done = false
				break
			}
			at := starts[m.A%len(starts)]
			mt.setContent(n, append(append(append([]byte{}, c[:at]...), 0x80), c[at:]...))
		case mAppendByte:
			tail = append(tail, byte(m.A))
		case mOIDReplace:
			n := pick(nodes, m.Node, derx.TagOID)
			mt.setContent(n, derx.OIDContent(interestingOIDs[m.A%len(interestingOIDs)]))
		case mEmptyValid:
			// the smallest well-formed value of the node's type: BIT STRING 03 01 00, OCTET STRING 04 00,
			// SEQUENCE / SET / constructed context tag with no elements, INTEGER 0, BOOLEAN false, empty string.
			// Three times out of four the node is taken from inside a wrapped DER value (extension values, RSA keys).
			var inner []*derx.Node
			for _, x := range nodes {
				if x.Children != nil && !x.Constructed() {
					for _, k := range x.Children {
						inner = append(inner, k.All()...)
					}
				}
			}
			var n *derx.Node
			if len(inner) > 0 && m.A%4 != 0 {
				n = inner[mix(m.Node)%len(inner)]
			} else {
				n = pick(nodes, m.Node)
			}
			switch {
			case len(n.ID) == 1 && n.ID[0] == derx.TagBitString:
				mt.setContent(n, []byte{0})
			case len(n.ID) == 1 && (n.ID[0] == derx.TagInteger || n.ID[0] == derx.TagEnumerated || n.ID[0] == derx.TagBoolean):
				mt.setContent(n, []byte{0})
			case len(n.ID) == 1 && (n.ID[0] == derx.TagUTCTime || n.ID[0] == derx.TagGenTime || n.ID[0] == derx.TagNull):
				done = false
			case n.Constructed():
				delete(mt.bitWrap, n)
				n.Content, n.Children = []byte{}, []*derx.Node{}
			default:
				mt.setContent(n, []byte{})
			}
		case mSCTList:
			// an edit inside the TLS encoding (RFC 6962 s3.3) of an embedded SCT list; both OCTET STRING
			// wrappers and every enclosing length stay consistent
			var lists []*derx.Node
			for _, x := range nodes {
				if x.Constructed() && len(x.Children) >= 2 && len(x.Children[0].ID) == 1 && x.Children[0].ID[0] == derx.TagOID && string(mt.contentOf(x.Children[0])) == string(sctOIDDER[2:]) {
					v := x.Children[len(x.Children)-1]
					if len(v.ID) == 1 && v.ID[0] == derx.TagOctetString && len(v.Children) == 1 && v.Children[0].ID[0] == derx.TagOctetString {
						lists = append(lists, v.Children[0])
					}
				}
			}
			if len(lists) == 0 {
				done = false
				break
			}
			n := lists[mix(m.Node)%len(lists)]
			mt.setContent(n, sctEdit(mt.contentOf(n), m.A))
		case mWrapTrail:
			// trailing element inside an OCTET STRING / BIT STRING that wraps DER (extension values, RSA keys),
			// or - when the input has none - at the end of any constructed node
			var wraps []*derx.Node
			for _, x := range nodes {
				if x.Children != nil && !x.Constructed() {
					wraps = append(wraps, x)
				}
			}
			var n *derx.Node
			if len(wraps) > 0 {
				n = wraps[mix(m.Node)%len(wraps)]
			} else if n = pick(nodes, m.Node, derx.TagSequence); n.Children == nil {
				done = false
				break
			}
			junk := [][]byte{{0x05, 0x00}, {0x02, 0x01, 0x00}, {0x30, 0x00}, {0x04, 0x01, 0xff}, {0x01, 0x01, 0xff}}[m.A%5]
			k, _, _ := derx.Parse(junk)
			n.Children = append(append([]*derx.Node{}, n.Children...), k.Clone())
		case mIntSet:
			n := pick(nodes, m.Node, derx.TagInteger, derx.TagEnumerated)
			mt.setContent(n, interestingInts[m.A%len(interestingInts)])
		}
		if done {
			applied = append(applied, mutNames[m.Op])
		}
	}
	out := append(mt.encode(mt.root), tail...)
	if truncate >= 0 && len(out) > 0 {
		out = out[:truncate%len(out)]
	}
	return out, applied
}

// rewrap copies the bit-wrap marks of a subtree onto its clone.
func (mt *mtree) rewrap(orig, clone *derx.Node) {
	if mt.bitWrap[orig] {
		mt.bitWrap[clone] = true
	}
	for i := range orig.Children {
		if i < len(clone.Children) {
			mt.rewrap(orig.Children[i], clone.Children[i])
		}
	}
}

// sctEdit applies one TLS-level edit to a SignedCertificateTimestampList: the 2-byte list length or the
// 2-byte length of the first / last SerializedSCT moved by +-1, +-2 or to an extreme, zero-length SCTs,
// trailing bytes inside or after the list, a dropped tail, a duplicated entry.
func sctEdit(l []byte, a int) []byte {
	out := append([]byte(nil), l...)
	if len(out) < 4 {
		return [][]byte{{}, {0}, {0, 0}, {0, 1}, {0, 2, 0, 0}, {0, 3, 0, 1}, {0xff, 0xff}}[a%7]
	}
	// offsets of the SerializedSCT length prefixes, as far as the list is consistent
	var offs []int
	for o := 2; o+2 <= len(out); {
		offs = append(offs, o)
		o += 2 + (int(out[o])<<8 | int(out[o+1]))
	}
	put := func(o, v int) {
		if v < 0 {
			v = 0
		}
		out[o], out[o+1] = byte(v>>8), byte(v)
	}
	get := func(o int) int { return int(out[o])<<8 | int(out[o+1]) }
	deltas := []int{1, 2, -1, -2, 3, -3}
	last := offs[len(offs)-1]
	switch k := a % 16; k {
	case 0, 1, 2: // list length
		put(0, get(0)+deltas[(a/16)%6])
	case 3, 4, 5, 6: // last SCT length
		put(last, get(last)+deltas[(a/16)%6])
	case 7: // first SCT length
		put(offs[0], get(offs[0])+deltas[(a/16)%6])
	case 8: // a zero-length SCT appended (list length adjusted)
		out = append(out, 0, 0)
		put(0, get(0)+2)
	case 9: // last SCT declared empty
		put(last, 0)
	case 10: // trailing bytes after the list
		out = append(out, make([]byte, 1+(a/16)%2)...)
	case 11: // trailing bytes inside the list
		n := 1 + (a/16)%2
		out = append(out, make([]byte, n)...)
		put(0, get(0)+n)
	case 12: // tail dropped, lengths kept
		out = out[:len(out)-1-(a/16)%2]
	case 13: // tail dropped, list length adjusted
		n := 1 + (a/16)%2
		out = out[:len(out)-n]
		put(0, get(0)-n)
	case 14: // extremes
		put([]int{0, last}[(a/16)%2], []int{0, 0xffff, 1}[(a/32)%3])
	default: // last entry duplicated
		e := append([]byte(nil), out[last:]...)
		out = append(out, e...)
		put(0, get(0)+len(e))
	}
	return out
}
