package c11

import (
	"bytes"
	"encoding/pem"
	"fmt"
	"reflect"
	"strings"
	"testing"

	"github.com/google/certificate-transparency-go/x509"
	"pgregory.net/rapid"

	"verif/internal/derx"
	"verif/internal/harness"
)

// TotalCase is one input of sub-property (a): a fixture (by index; the name is carried for robust
// replays) under 0-4 structure-preserving mutations, or raw bytes.
type TotalCase struct {
	Src  int    `json:"src"`
	Name string `json:"name,omitempty"`
	Muts []Mut  `json:"muts,omitempty"`
	PEM  int    `json:"pem,omitempty"` // PEM armour (see pemModes): fed to the two PEM-aware entry points instead of the DER, and as plain input to all twelve
	PEMA int    `json:"pema,omitempty"` // position / variant parameter of the PEM mode
	Raw  []byte `json:"raw,omitempty"` // when set, the base input (Src/Name ignored)
}

var kindWeights = []struct {
	kind string
	w    int
}{{"cert", 37}, {"sctcert", 4}, {"tbs", 9}, {"crl", 13}, {"spki", 9}, {"pkcs1", 5}, {"pkcs8", 7}, {"sec1", 4}, {"csr", 8}, {"other", 2}, {"raw", 3}}

func genFixtureRef(t *rapid.T, kinds []string) (int, string) {
	total := 0
	for _, kw := range kindWeights {
		for _, k := range kinds {
			if k == kw.kind && (k == "raw" || len(fixturesOfKind(k)) > 0) {
				total += kw.w
			}
		}
	}
	r := uni(t, "kindw") % total
	kind := ""
	for _, kw := range kindWeights {
		ok := false
		for _, k := range kinds {
			if k == kw.kind && (k == "raw" || len(fixturesOfKind(k)) > 0) {
				ok = true
			}
		}
		if !ok {
			continue
		}
		if r < kw.w {
			kind = kw.kind
			break
		}
		r -= kw.w
	}
	if kind == "raw" {
		return -1, ""
	}
	ids := fixturesOfKind(kind)
	i := ids[uni(t, "fixture")%len(ids)]
	return i, Fixtures()[i].Name
}

var allKinds = []string{"cert", "sctcert", "tbs", "crl", "spki", "pkcs1", "pkcs8", "sec1", "csr", "other", "raw"}

func genTotal(t *rapid.T) TotalCase {
	var c TotalCase
	c.Src, c.Name = genFixtureRef(t, allKinds)
	if c.Src < 0 {
		c.Raw = rapid.SliceOfN(rapid.Byte(), 0, 64).Draw(t, "raw")
		if rapid.Bool().Draw(t, "rawseq") && len(c.Raw) > 0 { // make it look like a SEQUENCE of the right length
			c.Raw = derx.Seq(c.Raw)
		}
		c.Src = 0
	}
	c.Muts = genMutsOps(t, 0, 4, true)
	if c.Raw == nil && Fixtures()[c.Src].Kind == "sctcert" && len(c.Muts) < 4 {
		// the first edit happens inside the TLS encoding of the embedded SCT list
		c.Muts = append([]Mut{{Op: mSCTList, A: rapid.IntRange(0, 1<<16).Draw(t, "scta")}}, c.Muts...)
	}
	if uni(t, "pem")%7 == 0 {
		c.PEM = 1 + uni(t, "pemmode")%(len(pemModes)-1)
		c.PEMA = rapid.IntRange(0, 1<<16).Draw(t, "pema")
	}
	return c
}

func isNilObj(o any) bool {
	if o == nil {
		return true
	}
	v := reflect.ValueOf(o)
	switch v.Kind() {
	case reflect.Pointer, reflect.Slice, reflect.Map, reflect.Interface, reflect.Func, reflect.Chan:
		return v.IsNil()
	}
	return false
}

// contract judges one (object, error) pair: exactly one of {object, err nil or non-fatal} / {no object,
// fatal error}. It returns "ok", "nonfatal" or "fatal" for the class histogram.
func contract(v *harness.Verdict, ep string, obj any, err error) string {
	objNil := isNilObj(obj)
	fatal := x509.IsFatal(err)
	if objNil && obj != nil && (ep == "ParsePKIXPublicKey" || ep == "ParsePKCS8PrivateKey") {
		// these two return an interface: a typed nil pointer inside it compares != nil at the call site
		v.Failf("incoherent:"+ep+":typed-nil", "%s returned a non-nil interface holding a nil %T (err %v)", ep, obj, err)
		return "mixed"
	}
	switch {
	case !objNil && fatal:
		v.Failf("incoherent:"+ep+":object-with-fatal-error", "%s returned an object together with a fatal error: %v", ep, err)
		return "mixed"
	case objNil && err == nil:
		v.Failf("incoherent:"+ep+":nil-nil", "%s returned neither an object nor an error", ep)
		return "mixed"
	case objNil && !fatal:
		v.Failf("incoherent:"+ep+":no-object-with-nonfatal-error", "%s returned no object but an error classified non-fatal: %v", ep, err)
		return "mixed"
	case objNil:
		return "fatal"
	case err != nil:
		return "nonfatal"
	}
	return "ok"
}

// checkRaw judges raw-slice fidelity of one returned certificate against the spans derx locates in
// in[base:]; tbsOnly for ParseTBSCertificate.
func checkRaw(v *harness.Verdict, ep string, in []byte, base int, c *x509.Certificate, tbsOnly bool) {
	loc, ok := locateCert(in[base:], tbsOnly)
	if !ok && loc.looseExplicit {
		v.Class("raw-skipped:loose-explicit-version")
		return
	}
	if !ok {
		v.Failf("raw:"+ep+":unlocatable", "%s returned a certificate but derx cannot locate tbs/issuer/subject/spki in the input", ep)
		return
	}
	v.Class("raw-checked:" + ep)
	shift := func(s span) span { return span{s.off + base, s.n} }
	for _, f := range []struct {
		name string
		got  []byte
		want span
	}{{"Raw", c.Raw, shift(loc.raw)}, {"RawTBSCertificate", c.RawTBSCertificate, shift(loc.tbs)}, {"RawIssuer", c.RawIssuer, shift(loc.issuer)},
		{"RawSubject", c.RawSubject, shift(loc.subject)}, {"RawSubjectPublicKeyInfo", c.RawSubjectPublicKeyInfo, shift(loc.spki)}} {
		if !sameSlice(in, f.got, f.want) {
			v.Failf("raw:"+f.name, "%s: %s is not input[%d:%d] (len %d, equal bytes: %v)", ep, f.name, f.want.off, f.want.off+f.want.n, len(f.got),
				f.want.off+f.want.n <= len(in) && string(f.got) == string(in[f.want.off:f.want.off+f.want.n]))
		}
	}
}

// runAll feeds in to every entry point and judges the contract and the raw fields; it returns the
// outcome label per entry point.
func runAll(v *harness.Verdict, in []byte, pemIn []byte) map[string]string {
	res := map[string]string{}
	cp := func() []byte { return append([]byte(nil), in...) } // every parser gets its own copy: aliasing is judged per call
	// a parser must leave its input alone (the raw fields alias it): each buffer is compared with the
	// pristine input after the call
	intact := func(ep string, b, pristine []byte) {
		if !bytes.Equal(b, pristine) {
			at := 0
			for at < len(b) && at < len(pristine) && b[at] == pristine[at] {
				at++
			}
			v.Failf("input-modified:"+ep, "%s modified its input buffer (first difference at offset %d of %d)", ep, at, len(pristine))
		}
	}
	{
		b := cp()
		c, err := x509.ParseCertificate(b)
		intact("ParseCertificate", b, in)
		res["ParseCertificate"] = contract(v, "ParseCertificate", c, err)
		if err != nil && c == nil {
			if m := normErr(err); strings.HasPrefix(m, "x###:") {
				v.Class("branch:" + m)
			}
		}
		if c != nil {
			checkRaw(v, "ParseCertificate", b, 0, c, false)
		}
	}
	{
		b := cp()
		c, err := x509.ParseTBSCertificate(b)
		intact("ParseTBSCertificate", b, in)
		res["ParseTBSCertificate"] = contract(v, "ParseTBSCertificate", c, err)
		if c != nil {
			checkRaw(v, "ParseTBSCertificate", b, 0, c, true)
		}
	}
	{
		b := cp()
		cs, err := x509.ParseCertificates(b)
		intact("ParseCertificates", b, in)
		res["ParseCertificates"] = contract(v, "ParseCertificates", cs, err)
		off := 0
		for i, c := range cs {
			if c == nil {
				v.Failf("certificates-nil-element", "ParseCertificates returned a slice whose element %d is nil (err %v)", i, err)
				break
			}
			checkRaw(v, "ParseCertificates", b, off, c, false)
			off += len(c.Raw)
		}
		if cs != nil && off != len(b) {
			v.Failf("certificates-coverage", "ParseCertificates returned %d certificates covering %d of %d input bytes", len(cs), off, len(b))
		}
	}
	lists := in
	if pemIn != nil {
		lists = pemIn
	}
	{
		b := append([]byte(nil), lists...)
		l, err := x509.ParseCertificateList(b)
		intact("ParseCertificateList", b, lists)
		res["ParseCertificateList"] = contract(v, "ParseCertificateList", l, err)
	}
	{
		b := cp()
		l, err := x509.ParseCertificateListDER(b)
		intact("ParseCertificateListDER", b, in)
		res["ParseCertificateListDER"] = contract(v, "ParseCertificateListDER", l, err)
	}
	{
		b := append([]byte(nil), lists...)
		l, err := x509.ParseCRL(b)
		intact("ParseCRL", b, lists)
		res["ParseCRL"] = contract(v, "ParseCRL", l, err)
	}
	{
		b := cp()
		l, err := x509.ParseDERCRL(b)
		intact("ParseDERCRL", b, in)
		res["ParseDERCRL"] = contract(v, "ParseDERCRL", l, err)
	}
	{
		b := cp()
		k, err := x509.ParsePKIXPublicKey(b)
		intact("ParsePKIXPublicKey", b, in)
		res["ParsePKIXPublicKey"] = contract(v, "ParsePKIXPublicKey", k, err)
	}
	{
		b := cp()
		k, err := x509.ParsePKCS1PrivateKey(b)
		intact("ParsePKCS1PrivateKey", b, in)
		res["ParsePKCS1PrivateKey"] = contract(v, "ParsePKCS1PrivateKey", k, err)
	}
	{
		b := cp()
		k, err := x509.ParsePKCS8PrivateKey(b)
		intact("ParsePKCS8PrivateKey", b, in)
		res["ParsePKCS8PrivateKey"] = contract(v, "ParsePKCS8PrivateKey", k, err)
	}
	{
		b := cp()
		k, err := x509.ParseECPrivateKey(b)
		intact("ParseECPrivateKey", b, in)
		res["ParseECPrivateKey"] = contract(v, "ParseECPrivateKey", k, err)
	}
	{
		b := cp()
		r, err := x509.ParseCertificateRequest(b)
		intact("ParseCertificateRequest", b, in)
		res["ParseCertificateRequest"] = contract(v, "ParseCertificateRequest", r, err)
	}
	return res
}

// resolve builds the input bytes of a (fixture | raw, mutations) pair.
func resolve(src int, name string, raw []byte, muts []Mut) (in []byte, kind string, applied []string, ok bool) {
	base := raw
	kind = "raw"
	if raw == nil {
		f, found := fixtureFor(src, name)
		if !found {
			return nil, "", nil, false
		}
		base, kind = f.DER, f.Kind
	}
	in, applied = applyMuts(base, muts)
	return in, kind, applied, true
}

func checkTotal(t *testing.T, c TotalCase) harness.Verdict {
	var v harness.Verdict
	in, kind, applied, ok := resolve(c.Src, c.Name, c.Raw, c.Muts)
	if !ok {
		v.Failf("harness:unknown-fixture", "fixture %d %q not found", c.Src, c.Name)
		return v
	}
	var pemIn []byte
	if c.PEM > 0 {
		pemIn = pemArmour(in, c.PEM, c.PEMA)
		v.Class("pem:" + pemModes[c.PEM%len(pemModes)])
	}
	res := runAll(&v, in, pemIn)
	if pemIn != nil { // PEM-looking text as the input of every entry point
		for ep, r := range runAll(&v, pemIn, nil) {
			if r != "fatal" {
				v.Class("pem-text:" + ep + ":" + r)
			}
		}
	}
	v.Class("kind:" + kind)
	v.Class(fmt.Sprintf("muts:%d", len(c.Muts)))
	for _, a := range applied {
		v.Class("mut:" + a)
	}
	object := false
	for ep, r := range res {
		v.Class(ep + ":" + r)
		if r == "ok" || r == "nonfatal" {
			object = true
		}
	}
	mutated := len(applied) > 0 && !(len(applied) == 1 && applied[0] == "unparsed")
	if mutated && object {
		v.NonTrivial = true
		v.Class("mutated-and-parsed")
		own := map[string]string{"cert": "ParseCertificate", "sctcert": "ParseCertificate", "tbs": "ParseTBSCertificate", "crl": "ParseCertificateListDER", "spki": "ParsePKIXPublicKey", "pkcs1": "ParsePKCS1PrivateKey",
			"pkcs8": "ParsePKCS8PrivateKey", "sec1": "ParseECPrivateKey", "csr": "ParseCertificateRequest"}[kind]
		if own != "" {
			v.Class("mutated:" + kind + ":" + res[own])
		}
	}
	v.Sample = map[string]any{"src": c.Name, "muts": strings.Join(applied, ","), "len": len(in), "results": res}
	return v
}

// Total is sub-property (a).
var Total = harness.Define(harness.Opts{Name: "total",
	Rule:  "repository fixtures + generated certificates / CRLs / keys / CSRs (and some raw byte strings) under 0-4 structure-preserving derx mutations, fed to all twelve entry points; non-trivial = mutated input for which at least one entry point still returns an object",
	Quick: 30000, Thorough: 100000}, genTotal, checkTotal)

func pemCRL(der []byte) []byte { return pem.EncodeToMemory(&pem.Block{Type: "X509 CRL", Bytes: der}) }

// normErr shortens an error text to a class label (which fatal branches the generator reaches).
func normErr(err error) string {
	m := err.Error()
	for _, cut := range []string{" (got", " \"", ": x509:", " of length", " curve ", " mask ", " value "} {
		if i := strings.Index(m, cut); i > 0 {
			m = m[:i]
		}
	}
	b := []byte(m)
	for i, c := range b {
		if c >= '0' && c <= '9' {
			b[i] = '#'
		}
		if c < 0x20 || c > 0x7e {
			b[i] = '?'
		}
	}
	if len(b) > 56 {
		b = b[:56]
	}
	return string(b)
}

var pemModes = []string{"none", "crl", "truncated", "no-end-line", "bad-base64", "end-label-differs", "bare-marker", "other-label", "marker-then-der", "marker-no-newline", "headers", "crl-then-junk", "lowercase-marker"}

// pemArmour renders der as PEM-looking text: a proper "X509 CRL" block, or one of the ways such a block is
// broken in the wild (truncation anywhere, missing or mismatching END line, damaged base64, the bare
// marker, other labels, RFC 1421 headers, trailing junk).
func pemArmour(der []byte, mode, a int) []byte {
	good := pemCRL(der)
	a = mix(a)
	switch pemModes[mode%len(pemModes)] {
	case "crl":
		return good
	case "truncated":
		return good[:a%len(good)]
	case "no-end-line":
		return good[:bytes.LastIndex(good, []byte("-----END"))]
	case "bad-base64":
		b := append([]byte(nil), good...)
		at := len("-----BEGIN X509 CRL-----\n") + a%max(1, len(b)-len("-----BEGIN X509 CRL-----\n-----END X509 CRL-----\n"))
		b[at] = []byte{'!', '=', ' ', 0, '-', '\n'}[a%6]
		return b
	case "end-label-differs":
		return bytes.Replace(good, []byte("-----END X509 CRL"), []byte("-----END CERTIFICATE"), 1)
	case "bare-marker":
		return [][]byte{[]byte("-----BEGIN X509 CRL"), []byte("-----BEGIN X509 CRL-----"), []byte("-----BEGIN X509 CRL-----\n"), []byte("-----BEGIN X509 CRL-----\n-----END X509 CRL-----\n")}[a%4]
	case "other-label":
		return pem.EncodeToMemory(&pem.Block{Type: []string{"CERTIFICATE", "X509 CRLX", "X509 CRL ", "PUBLIC KEY", ""}[a%5], Bytes: der})
	case "marker-then-der":
		return append([]byte("-----BEGIN X509 CRL-----\n"), der...)
	case "marker-no-newline":
		return append([]byte("-----BEGIN X509 CRL"), good[len("-----BEGIN X509 CRL"):][a%8:]...)
	case "headers":
		return pem.EncodeToMemory(&pem.Block{Type: "X509 CRL", Headers: map[string]string{"Proc-Type": "4,ENCRYPTED", "DEK-Info": "AES-128-CBC,00"}, Bytes: der})
	case "crl-then-junk":
		return append(append([]byte(nil), good...), good[:a%len(good)]...)
	case "lowercase-marker":
		return bytes.Replace(good, []byte("BEGIN X509 CRL"), []byte("begin x509 crl"), 1)
	}
	return good
}
