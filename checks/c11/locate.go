package c11

import (
	stdasn1 "encoding/asn1"
	"unsafe"

	"verif/internal/derx"
)

type asn1OID = stdasn1.ObjectIdentifier

// span is a byte range of the input.
type span struct{ off, n int }

// certLoc is where derx finds the raw fields of a certificate inside an input.
type certLoc struct {
	raw, tbs, issuer, subject, spki span
	// outerLax reports a lax-only malformation in the part of the certificate that the outer
	// (struct-level) ASN.1 pass decodes: a non-minimal INTEGER (version, serial number) or a zero-length
	// OBJECT IDENTIFIER (algorithm identifiers, extension ids).
	outerLax bool
	// looseExplicit: the [0] version wrapper does not hold exactly one TLV. encoding/asn1 and the fork
	// alike ignore the length of an EXPLICIT wrapper, so such an input has no well-defined field
	// positions and raw-slice fidelity is not judged on it (counted).
	looseExplicit bool
}

// tlvs splits content into consecutive TLVs (as far as they parse), with offsets relative to base.
func tlvs(content []byte, base int, max int) []*derx.Node {
	var out []*derx.Node
	off := base
	for len(content) > 0 && len(out) < max {
		n, rest, err := derx.Parse(content)
		if err != nil {
			break
		}
		n.Off = off // offsets of descendants are not used
		out = append(out, n)
		off += n.Len
		content = rest
	}
	return out
}

func nonMinimalInt(c []byte) bool {
	return len(c) >= 2 && ((c[0] == 0 && c[1]&0x80 == 0) || (c[0] == 0xff && c[1]&0x80 != 0))
}

// locateCert finds the raw fields positionally, the way X.509 defines them: Certificate ::= SEQUENCE {
// tbsCertificate, ... }, TBSCertificate ::= SEQUENCE { [0] version OPTIONAL, serialNumber, signature,
// issuer, validity, subject, subjectPublicKeyInfo, ... }. With tbsOnly the input is a TBSCertificate.
func locateCert(in []byte, tbsOnly bool) (certLoc, bool) {
	var l certLoc
	root, _, err := derx.Parse(in)
	if err != nil {
		return l, false
	}
	l.raw = span{0, root.Len}
	var tbs *derx.Node
	var outer []*derx.Node
	if tbsOnly {
		tbs = root
	} else {
		outer = tlvs(root.Content, root.HdrLen, 3)
		if len(outer) < 1 {
			return l, false
		}
		tbs = outer[0]
	}
	l.tbs = span{tbs.Off, tbs.Len}
	k := tlvs(tbs.Content, tbs.Off+tbs.HdrLen, 11)
	i := 0
	if len(k) > 0 && k[0].ID[0]&0xdf == 0x80 && len(k[0].ID) == 1 { // context-specific tag 0: the version
		v := tlvs(k[0].Content, 0, 2)
		if len(v) == 1 && v[0].Tag() == derx.TagInteger && nonMinimalInt(v[0].Content) {
			l.outerLax = true
		}
		if len(v) != 1 || v[0].Len != len(k[0].Content) {
			l.looseExplicit = true
			return l, false
		}
		i = 1
	}
	if len(k) < i+6 {
		return l, false
	}
	l.issuer = span{k[i+2].Off, k[i+2].Len}
	l.subject = span{k[i+4].Off, k[i+4].Len}
	l.spki = span{k[i+5].Off, k[i+5].Len}
	if k[i].Tag() == derx.TagInteger && nonMinimalInt(k[i].Content) {
		l.outerLax = true
	}
	emptyOIDFirst := func(n *derx.Node) bool {
		c := tlvs(n.Content, 0, 1)
		return len(c) == 1 && c[0].Tag() == derx.TagOID && len(c[0].Content) == 0
	}
	if emptyOIDFirst(k[i+1]) {
		l.outerLax = true
	}
	if sp := tlvs(k[i+5].Content, 0, 1); len(sp) == 1 && emptyOIDFirst(sp[0]) {
		l.outerLax = true
	}
	if len(outer) >= 2 && emptyOIDFirst(outer[1]) {
		l.outerLax = true
	}
	for _, x := range k[i+6:] {
		if x.ID[0] == 0xa3 && len(x.ID) == 1 {
			if seq := tlvs(x.Content, 0, 1); len(seq) == 1 {
				for _, e := range tlvs(seq[0].Content, 0, 1<<12) {
					if emptyOIDFirst(e) {
						l.outerLax = true
					}
				}
			}
		}
	}
	return l, true
}

// sameSlice reports whether got is exactly in[s.off : s.off+s.n] - the same memory, not a copy.
func sameSlice(in, got []byte, s span) bool {
	if len(got) != s.n {
		return false
	}
	if s.n == 0 {
		return true
	}
	return unsafe.Pointer(&got[0]) == unsafe.Pointer(&in[s.off])
}
