package c09

import (
	"fmt"
	"reflect"
	"strings"

	"pgregory.net/rapid"
)

// Top-level presentations: the same entry points (Marshal, MarshalWithParams, Unmarshal, UnmarshalWithParams)
// handed something other than "a value of a supported type" / "a pointer to one". The package documents no
// behaviour for most of these, so the only assertion is the last clause of the statement: an error, never a
// panic. (The struct itself and supported non-struct top-level types with good params are the main path of
// the values / bytes trials and are judged there against the reference codec.)

// Presentations of a generated value v of the generated type T to Marshal.
const (
	mPtr         = "m:ptr"           // &v
	mNilPtr      = "m:nilptr"        // (*T)(nil)
	mPtrPtr      = "m:ptrptr"        // &&v
	mPtrToNilPtr = "m:ptr-to-nilptr" // &(*T)(nil)
	mNilIface    = "m:nil-interface" // Marshal(nil)
	mIfaceInPtr  = "m:ptr-to-interface"
	mBadParams   = "m:badparams"   // MarshalWithParams(v, <hostile params>)
	mUnsupported = "m:unsupported" // a value of a Go type outside the mapping table
	// Targets handed to Unmarshal.
	uNonPtr      = "u:nonptr"        // v itself
	uNilPtr      = "u:nilptr"        // (*T)(nil)
	uNilIface    = "u:nil-interface" // Unmarshal(b, nil)
	uPtrPtr      = "u:ptrptr"        // **T, inner pointer set
	uPtrToNilPtr = "u:ptr-to-nilptr" // **T, inner pointer nil
	uBadParams   = "u:badparams"
	uUnsupported = "u:unsupported" // pointer to a Go type outside the mapping table
)

var presentations = []string{mPtr, mNilPtr, mNilPtr, mPtrPtr, mPtrToNilPtr, mNilIface, mIfaceInPtr, mBadParams, mBadParams, mUnsupported, mUnsupported,
	uNonPtr, uNilPtr, uNilIface, uPtrPtr, uPtrToNilPtr, uBadParams, uBadParams, uUnsupported, uUnsupported}

// toleratedPanics: presentations for which the unchanged package panics inside reflect today and which break a
// DOCUMENTED precondition rather than the property ("val" of Unmarshal is "a pointer (to allow the value to be
// written to)"; an untyped nil is not a value of any type). They are exercised and their outcome is counted
// as a class, but a panic there is not reported. Everything else must return an error.
var toleratedPanics = map[string]bool{uNonPtr: true, uNilPtr: true, uNilIface: true, mNilIface: true}

// Hostile / odd params strings ("The form of the params is the same as the field tags").
var badParams = []string{
	"", "bogus", ",", ",,,:", ":", "size:", "size:0", "size:9", "size:-1", "size:4294967295", "size:4294967296", "size:1x",
	"maxval:", "maxval:18446744073709551615", "maxval:18446744073709551616", "maxval:-1",
	"minlen:0", "minlen:5", "maxlen:0", "maxlen:x", "minlen:4,maxlen:2", "maxlen:2,minlen:4", "minlen:18446744073709551615,maxlen:18446744073709551615",
	"maxlen:18446744073709551615", "maxlen:72057594037927936", "size:1,val:9", "val:3", "selector:", "selector:X", "selector:X,val:1", "selector:F0,val:0",
	"selector:X,val:1,minlen:0,maxlen:5", "size:2,selector:X", "selector:X,size:2", "size:8", "size:3,maxlen:9", "maxlen:9,size:3", "maxlen:255,maxval:70000",
	"minlen:1,maxlen:255", "size:2", "maxval:255", "\x00", "size:2\x00", "tls:\"size:2\"", " size:2", "size: 2", "SIZE:2",
}

type unexportedNamed struct{ X uint8 }

// Go types outside the mapping table of the package comment (or inside it but wrongly annotated).
var unsupportedTypes = []reflect.Type{
	reflect.TypeOf(int(0)), reflect.TypeOf(int8(0)), reflect.TypeOf(int16(0)), reflect.TypeOf(int32(0)), reflect.TypeOf(int64(0)), reflect.TypeOf(uint(0)), reflect.TypeOf(uintptr(0)),
	reflect.TypeOf(false), reflect.TypeOf(float32(0)), reflect.TypeOf(float64(0)), reflect.TypeOf(complex128(0)), reflect.TypeOf(""),
	reflect.TypeOf(map[string]int(nil)), reflect.TypeOf((chan int)(nil)), reflect.TypeOf((func())(nil)), reflect.TypeOf((*any)(nil)).Elem(), reflect.TypeOf((*error)(nil)).Elem(),
	reflect.TypeOf([2]uint16{}), reflect.TypeOf([0]uint16{}), reflect.TypeOf([3]string{}), reflect.TypeOf([]int(nil)), reflect.TypeOf([]string(nil)), reflect.TypeOf([][]byte(nil)),
	reflect.TypeOf((*uint8)(nil)), reflect.TypeOf((**uint16)(nil)), reflect.TypeOf((*struct{})(nil)),
	reflect.TypeOf(struct{ X int }{}), reflect.TypeOf(struct{ X any }{}), reflect.TypeOf(struct{ X *uint8 }{}), reflect.TypeOf(struct{ X [2]uint16 }{}),
	reflect.TypeOf(struct {
		X []string `tls:"minlen:0,maxlen:9"`
	}{}),
	reflect.TypeOf(struct{ X []byte }{}), // slice without tag
	reflect.TypeOf(struct {
		X []byte `tls:"minlen:1"`
	}{}), // no maxlen
	reflect.TypeOf(struct {
		X []byte `tls:"minlen:5,maxlen:2"`
	}{}),
	reflect.TypeOf(struct {
		X uint64 `tls:"size:9"`
	}{}),
	reflect.TypeOf(struct{ X EnumA }{}), // enum without size
	reflect.TypeOf(struct {
		X *uint16 `tls:"selector:Nope,val:1"`
	}{}), // selector not seen
	reflect.TypeOf(struct {
		S EnumA  `tls:"size:1"`
		X uint16 `tls:"selector:S,val:0"`
	}{}), // arm that is not a pointer
	reflect.TypeOf(struct {
		S EnumA   `tls:"size:1"`
		X *uint16 `tls:"selector:S,val:0"`
		Y *uint32 `tls:"selector:S,val:0"`
	}{}), // duplicate arm value
	reflect.TypeOf(struct {
		S EnumA `tls:"size:1"`
		X *int  `tls:"selector:S,val:0"`
	}{}),
	reflect.TypeOf(struct {
		X []struct{ Y int } `tls:"minlen:0,maxlen:9"`
	}{}),
	reflect.TypeOf(unexportedNamed{}),
	reflect.TypeOf(struct{ X map[string][]byte }{}),
	reflect.TypeOf(struct{ X func() }{}),
}

func genPresentation(t *rapid.T, c *Case) Trial {
	how := pick(t, "how", presentations...)
	tr := Trial{Kind: "present", How: how, Note: how}
	g := &valGen{cap: 24}
	switch how {
	case mBadParams, uBadParams:
		tr.Params = pick(t, "badparams", badParams...)
	case mUnsupported, uUnsupported:
		tr.Index = rapid.IntRange(0, len(unsupportedTypes)-1).Draw(t, "unsupported")
		tr.NonZero = rapid.Bool().Draw(t, "nonzero")
		if rapid.IntRange(0, 3).Draw(t, "withparams") == 0 {
			tr.Params = pick(t, "params", "size:2", "minlen:0,maxlen:9", "maxval:255", "selector:X,val:1")
		}
	}
	if strings.HasPrefix(how, "m:") {
		v := g.val(t, &c.Type)
		tr.V = &v
	} else {
		in, _ := genInput(t, &c.Type)
		tr.Input = in
	}
	return tr
}

// nonZeroOf builds some non-zero value of an arbitrary (unsupported) type so that Marshal has data to walk.
func nonZeroOf(t reflect.Type, depth int) reflect.Value {
	v := reflect.New(t).Elem()
	if depth > 3 {
		return v
	}
	switch t.Kind() {
	case reflect.Int, reflect.Int8, reflect.Int16, reflect.Int32, reflect.Int64:
		v.SetInt(-3)
	case reflect.Uint, reflect.Uint8, reflect.Uint16, reflect.Uint32, reflect.Uint64, reflect.Uintptr:
		v.SetUint(3)
	case reflect.Bool:
		v.SetBool(true)
	case reflect.Float32, reflect.Float64:
		v.SetFloat(1.5)
	case reflect.String:
		v.SetString("xyz")
	case reflect.Map:
		v.Set(reflect.MakeMap(t))
	case reflect.Chan:
		v.Set(reflect.MakeChan(t, 1))
	case reflect.Slice:
		s := reflect.MakeSlice(t, 2, 2)
		for i := 0; i < 2; i++ {
			s.Index(i).Set(nonZeroOf(t.Elem(), depth+1))
		}
		v.Set(s)
	case reflect.Array:
		for i := 0; i < t.Len(); i++ {
			v.Index(i).Set(nonZeroOf(t.Elem(), depth+1))
		}
	case reflect.Ptr:
		p := reflect.New(t.Elem())
		p.Elem().Set(nonZeroOf(t.Elem(), depth+1))
		v.Set(p)
	case reflect.Struct:
		for i := 0; i < t.NumField(); i++ {
			if t.Field(i).IsExported() {
				v.Field(i).Set(nonZeroOf(t.Field(i).Type, depth+1))
			}
		}
	case reflect.Interface:
		if t.NumMethod() == 0 {
			v.Set(reflect.ValueOf(uint16(7)))
		}
	}
	return v
}

// present runs one top-level presentation and reports a panic unless it is a tolerated precondition breach.
func (ck *checker) present(tr *Trial) {
	d, v := ck.d, ck.v
	how := tr.How
	params := tr.Params
	if params == "" && how != mBadParams && how != uBadParams {
		params = ck.params // good params for a non-struct top-level type
	}
	var r callResult
	marshal := strings.HasPrefix(how, "m:")
	var arg any
	var descr string
	if marshal {
		var rv reflect.Value
		if tr.V != nil {
			if _, _, _, err := refEnc(d, tr.V, quirks{}); errorsIsShape(err) {
				return
			}
			rv = toReflect(d, tr.V, ck.typ)
		} else {
			rv = reflect.New(ck.typ).Elem()
		}
		p := reflect.New(ck.typ)
		p.Elem().Set(rv)
		switch how {
		case mPtr:
			arg = p.Interface()
		case mNilPtr:
			arg = reflect.Zero(reflect.PointerTo(ck.typ)).Interface()
		case mPtrPtr:
			pp := reflect.New(p.Type())
			pp.Elem().Set(p)
			arg = pp.Interface()
		case mPtrToNilPtr:
			arg = reflect.New(reflect.PointerTo(ck.typ)).Interface()
		case mNilIface:
			arg = nil
		case mIfaceInPtr:
			var boxed any = rv.Interface()
			arg = &boxed
		case mBadParams:
			arg = rv.Interface()
		case mUnsupported:
			ut := unsupportedTypes[tr.Index%len(unsupportedTypes)]
			if ut.Kind() == reflect.Interface {
				return // boxing collapses a top-level interface value: it is m:nil-interface or its dynamic value
			}
			uv := reflect.New(ut).Elem()
			if tr.NonZero {
				uv = nonZeroOf(ut, 0)
			}
			arg = uv.Interface()
			descr = ut.String()
		default:
			return
		}
		r = callMarshal(arg, params, params != "" || how == mBadParams)
	} else {
		in := append([]byte{}, tr.Input...)
		switch how {
		case uNonPtr:
			arg = reflect.New(ck.typ).Elem().Interface()
		case uNilPtr:
			arg = reflect.Zero(reflect.PointerTo(ck.typ)).Interface()
		case uNilIface:
			arg = nil
		case uPtrPtr:
			pp := reflect.New(reflect.PointerTo(ck.typ))
			pp.Elem().Set(reflect.New(ck.typ))
			arg = pp.Interface()
		case uPtrToNilPtr:
			arg = reflect.New(reflect.PointerTo(ck.typ)).Interface()
		case uBadParams:
			arg = reflect.New(ck.typ).Interface()
		case uUnsupported:
			ut := unsupportedTypes[tr.Index%len(unsupportedTypes)]
			p := reflect.New(ut)
			if tr.NonZero {
				p.Elem().Set(nonZeroOf(ut, 0))
			}
			arg = p.Interface()
			descr = ut.String()
		default:
			return
		}
		r = callUnmarshal(in, arg, params, params != "" || how == uBadParams)
	}
	outcome := "error"
	switch {
	case r.pan != "":
		outcome = "panic"
	case r.err == nil:
		outcome = "accepted"
	}
	if r.pan != "" && toleratedPanics[how] {
		ck.class("present:" + how + ":tolerated-panic(documented precondition)")
		return
	}
	ck.class("present:" + how + ":" + outcome)
	if r.pan != "" {
		what := fmt.Sprintf("%T", arg)
		if descr != "" {
			what = descr
		}
		if marshal {
			v.Failf("panic-toplevel-"+strings.ReplaceAll(how, ":", "-"), "type %s: Marshal[WithParams] given %s (%s, params %q) panicked instead of returning an error: %s", d, how, what, params, r.pan)
		} else {
			v.Failf("panic-toplevel-"+strings.ReplaceAll(how, ":", "-"), "type %s: Unmarshal[WithParams] of %s into %s (%s, params %q) panicked instead of returning an error: %s", d, hx(tr.Input), how, what, params, r.pan)
		}
	}
}
