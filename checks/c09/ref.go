package c09

import (
	"errors"
	"fmt"
)

// Reference codec over descriptors, from RFC 5246 section 4 and the package comment of /repo/tls/tls.go:
//
//	s4.1  big-endian, one-byte basic block
//	s4.3  T v[n]: n bytes; T v<floor..ceiling>: a length prefix of as many bytes as it takes to hold
//	      `ceiling`, counting BYTES, floor <= length <= ceiling, the content is a whole number of elements
//	s4.4  uint8 uint16 uint24 uint32 uint64
//	s4.5  an enum occupies as much space as its maximal ordinal (maxval:N) or as declared (size:S)
//	s4.6  structs are the concatenation of their fields; s4.6.1 a variant is present iff the selector
//	      (an earlier field of the same struct) has the arm's value; exactly one arm per selector value
//
// It shares no code with the package under test and does not use reflection.

// Error categories (they become part of violation signatures, so they name mechanisms).
var (
	errTrunc      = errors.New("truncated")
	errLenBound   = errors.New("length-bound")
	errEnumWide   = errors.New("enum-width")
	errU24        = errors.New("uint24-range")
	errIntRange   = errors.New("int-range")
	errVariant    = errors.New("variant")
	errShape      = errors.New("value-shape")
	errQuirk      = errors.New("quirk") // only produced by the defect models below
	errPanicModel = errors.New("panic-model")
)

func category(err error) string {
	for _, e := range []error{errTrunc, errLenBound, errEnumWide, errU24, errIntRange, errVariant, errShape, errQuirk} {
		if errors.Is(err, e) {
			return e.Error()
		}
	}
	return "other"
}

// quirks switch on MODELS of the two defects known on the unchanged tree (DESIGN.md 2.3). They are never
// used to compute an expectation; they only name the root cause of a mismatch that has already been found.
type quirks struct {
	D1 bool // a uint24 is decoded from the first three bytes of the buffer instead of the current offset
	D2 bool // an 8-byte enum / 8-byte length prefix is refused in both directions (1<<64 == 0)
	D3 bool // an 8-byte length prefix >= 2^63 becomes a negative int and slices out of range (hidden behind D2)
}

// site is an integer inside an encoding that steers decoding (targets for input mutation).
type site struct {
	Off, W   int
	Kind     string // "len" | "enum" | "sel"
	Min, Max uint64
	Arms     []uint64
}

type flags struct {
	UnknownEnum bool // an enum declared with maxval:N holds a value above N that still fits its width
	// Work the decoder did until it stopped (success or error), the basis of the allocation bound:
	Visits      uint64 // descriptor nodes visited (each costs the real decoder a constant: tag parsing, maps, ...)
	GoBytes     uint64 // bytes of Go memory the decoded data needs: vector contents, arrays, sizeof(element) per vector element
	ScalarElems uint64 // vector elements that are plain integers / byte arrays (no tags to parse, no maps)
	CapByLen    uint64 // model of a known mistake: sum over non-byte vectors of length-in-BYTES x sizeof(element)
}

// goSize over-estimates the size of the Go representation of one value of d (no reflection).
func goSize(d *Desc) uint64 {
	d = d.res()
	switch d.K {
	case KU8:
		return 1
	case KU16:
		return 2
	case KU24, KU32:
		return 4
	case KU64, KEnum:
		return 8
	case KArray:
		return uint64(d.N+7) &^ 7
	case KBytes, KVec:
		return 24
	case KStruct:
		var n uint64
		for i := range d.Fields {
			if d.Fields[i].Arm {
				n += 8
				continue
			}
			n += goSize(&d.Fields[i].D)
		}
		return n
	}
	return 8
}

func putUint(out []byte, v uint64, w int) []byte {
	for i := w - 1; i >= 0; i-- {
		out = append(out, byte(v>>(8*uint(i))))
	}
	return out
}

func fits(v uint64, w int) bool { return w >= 8 || v < uint64(1)<<(8*uint(w)) }

type encState struct {
	q     quirks
	sites []site
	fl    flags
}

// refEnc is the reference encoder.
func refEnc(d *Desc, v *Val, q quirks) ([]byte, []site, flags, error) {
	st := &encState{q: q}
	out, err := st.enc(nil, d, v)
	if err != nil {
		return nil, nil, st.fl, err
	}
	return out, st.sites, st.fl, nil
}

func (st *encState) enc(out []byte, d *Desc, v *Val) ([]byte, error) {
	d = d.res()
	switch d.K {
	case KU8, KU16, KU32, KU64, KU24:
		w := intWidth(d.K)
		if !fits(v.U, w) {
			if d.K == KU24 {
				return nil, fmt.Errorf("%w: %d", errU24, v.U)
			}
			return nil, fmt.Errorf("%w: %d in %s", errIntRange, v.U, d.K)
		}
		return putUint(out, v.U, w), nil
	case KEnum:
		w := d.enumWidth()
		if st.q.D2 && w == 8 {
			return nil, errQuirk
		}
		if !fits(v.U, w) {
			return nil, fmt.Errorf("%w: %d does not fit %d bytes", errEnumWide, v.U, w)
		}
		if d.Size == 0 && v.U > d.MaxVal {
			st.fl.UnknownEnum = true
		}
		st.sites = append(st.sites, site{Off: len(out), W: w, Kind: "enum"})
		return putUint(out, v.U, w), nil
	case KArray:
		if len(v.B) != d.N {
			return nil, fmt.Errorf("%w: array of %d bytes for [%d]byte", errShape, len(v.B), d.N)
		}
		return append(out, v.B...), nil
	case KBytes:
		w := widthFor(d.Max)
		if st.q.D2 && w == 8 {
			return nil, errQuirk
		}
		n := uint64(len(v.B))
		if n < d.Min || n > d.Max {
			return nil, fmt.Errorf("%w: %d bytes outside <%d..%d>", errLenBound, n, d.Min, d.Max)
		}
		st.sites = append(st.sites, site{Off: len(out), W: w, Kind: "len", Min: d.Min, Max: d.Max})
		out = putUint(out, n, w)
		return append(out, v.B...), nil
	case KVec:
		w := widthFor(d.Max)
		inner := &encState{q: st.q}
		var body []byte
		for i := range v.L {
			var err error
			body, err = inner.enc(body, d.Elem, &v.L[i])
			if err != nil {
				return nil, err
			}
		}
		if inner.fl.UnknownEnum {
			st.fl.UnknownEnum = true
		}
		if st.q.D2 && w == 8 {
			return nil, errQuirk
		}
		n := uint64(len(body))
		if n < d.Min || n > d.Max {
			return nil, fmt.Errorf("%w: %d bytes outside <%d..%d>", errLenBound, n, d.Min, d.Max)
		}
		st.sites = append(st.sites, site{Off: len(out), W: w, Kind: "len", Min: d.Min, Max: d.Max})
		base := len(out) + w
		for _, s := range inner.sites {
			s.Off += base
			st.sites = append(st.sites, s)
		}
		out = putUint(out, n, w)
		return append(out, body...), nil
	case KStruct:
		if len(v.L) != len(d.Fields) {
			return nil, fmt.Errorf("%w: %d field values for %d fields", errShape, len(v.L), len(d.Fields))
		}
		chosen := map[int]int{} // selector index -> number of arms chosen
		for i := range d.Fields {
			f := &d.Fields[i]
			fv := &v.L[i]
			if f.Arm {
				if _, ok := chosen[f.Sel]; !ok {
					chosen[f.Sel] = 0
				}
				if v.L[f.Sel].U != f.Val {
					if !fv.Nil {
						return nil, fmt.Errorf("%w: arm F%d is not selected (F%d=%d) but is present", errVariant, i, f.Sel, v.L[f.Sel].U)
					}
					continue
				}
				if fv.Nil {
					return nil, fmt.Errorf("%w: arm F%d is selected (F%d=%d) but absent", errVariant, i, f.Sel, f.Val)
				}
				chosen[f.Sel]++
			}
			mark := len(st.sites)
			var err error
			out, err = st.enc(out, &f.D, fv)
			if err != nil {
				return nil, err
			}
			if !f.Arm && f.D.K == KEnum {
				if arms := d.armsOf(i); len(arms) > 0 && mark < len(st.sites) {
					st.sites[mark].Kind = "sel"
					st.sites[mark].Arms = arms
				}
			}
		}
		for sel, n := range chosen {
			if n != 1 {
				return nil, fmt.Errorf("%w: selector F%d=%d has no arm", errVariant, sel, v.L[sel].U)
			}
		}
		return out, nil
	}
	return nil, fmt.Errorf("%w: kind %q", errShape, d.K)
}

// armsOf lists the arm values that refer to selector field i.
func (d *Desc) armsOf(i int) []uint64 {
	var a []uint64
	for j := range d.Fields {
		if d.Fields[j].Arm && d.Fields[j].Sel == i {
			a = append(a, d.Fields[j].Val)
		}
	}
	return a
}

func getUint(b []byte) uint64 {
	var v uint64
	for _, x := range b {
		v = v<<8 | uint64(x)
	}
	return v
}

type decState struct {
	q  quirks
	fl flags
}

// refDec is the reference decoder: value, number of bytes consumed, error.
func refDec(d *Desc, in []byte, q quirks) (Val, int, flags, error) {
	st := &decState{q: q}
	v, off, err := st.dec(d, in, 0)
	if err != nil {
		return Val{}, 0, st.fl, err
	}
	return v, off, st.fl, nil
}

// dec decodes one d from base[off:]. base is the buffer the value lives in: the whole input at the top,
// the content of the enclosing vector for vector elements (only the D1 model cares about the difference).
func (st *decState) dec(d *Desc, base []byte, off int) (Val, int, error) {
	d = d.res()
	st.fl.Visits++
	rest := base[off:]
	switch d.K {
	case KU8, KU16, KU24, KU32, KU64:
		w := intWidth(d.K)
		if len(rest) < w {
			return Val{}, off, fmt.Errorf("%w: %s needs %d bytes, %d left", errTrunc, d.K, w, len(rest))
		}
		src := rest
		if st.q.D1 && d.K == KU24 {
			src = base
		}
		return Val{U: getUint(src[:w])}, off + w, nil
	case KEnum:
		w := d.enumWidth()
		if len(rest) < w {
			return Val{}, off, fmt.Errorf("%w: enum needs %d bytes, %d left", errTrunc, w, len(rest))
		}
		if st.q.D2 && w == 8 {
			return Val{}, off, errQuirk
		}
		u := getUint(rest[:w])
		if d.Size == 0 && u > d.MaxVal {
			st.fl.UnknownEnum = true
		}
		return Val{U: u}, off + w, nil
	case KArray:
		if len(rest) < d.N {
			return Val{}, off, fmt.Errorf("%w: [%d]byte, %d left", errTrunc, d.N, len(rest))
		}
		st.fl.GoBytes += uint64(d.N)
		return Val{B: append(Hex{}, rest[:d.N]...)}, off + d.N, nil
	case KBytes, KVec:
		w := widthFor(d.Max)
		if len(rest) < w {
			return Val{}, off, fmt.Errorf("%w: length prefix needs %d bytes, %d left", errTrunc, w, len(rest))
		}
		if st.q.D2 && w == 8 {
			return Val{}, off, errQuirk
		}
		n := getUint(rest[:w])
		if n < d.Min || n > d.Max {
			return Val{}, off, fmt.Errorf("%w: length %d outside <%d..%d>", errLenBound, n, d.Min, d.Max)
		}
		rest = rest[w:]
		if st.q.D3 && n >= 1<<63 {
			return Val{}, off, errPanicModel
		}
		if n > uint64(len(rest)) {
			return Val{}, off, fmt.Errorf("%w: vector of %d bytes, %d left", errTrunc, n, len(rest))
		}
		body := rest[:n]
		end := off + w + int(n)
		if d.K == KBytes || d.Elem.res().K == KU8 {
			st.fl.GoBytes += n // one copy of the content
		}
		if d.K == KBytes {
			var v Val
			if n > 0 {
				v.B = append(Hex{}, body...)
			}
			return v, end, nil
		}
		esz := goSize(d.Elem)
		if d.Elem.res().K != KU8 {
			st.fl.CapByLen += n * esz
		}
		var v Val
		scalar := d.Elem.res().K != KStruct
		for p := 0; p < len(body); {
			st.fl.GoBytes += esz
			if scalar {
				st.fl.ScalarElems++
			}
			ev, np, err := st.dec(d.Elem, body, p)
			if err != nil {
				return Val{}, off, err
			}
			if np <= p {
				return Val{}, off, fmt.Errorf("%w: zero-width element", errShape)
			}
			p = np
			v.L = append(v.L, ev)
		}
		return v, end, nil
	case KStruct:
		v := Val{L: make([]Val, len(d.Fields))}
		chosen := map[int]int{}
		for i := range d.Fields {
			f := &d.Fields[i]
			if f.Arm {
				if _, ok := chosen[f.Sel]; !ok {
					chosen[f.Sel] = 0
				}
				if v.L[f.Sel].U != f.Val {
					v.L[i] = Val{Nil: true}
					continue
				}
				chosen[f.Sel]++
			}
			fv, np, err := st.dec(&f.D, base, off)
			if err != nil {
				return Val{}, off, err
			}
			v.L[i], off = fv, np
		}
		for sel, n := range chosen {
			if n != 1 {
				return Val{}, off, fmt.Errorf("%w: selector F%d=%d has no arm", errVariant, sel, v.L[sel].U)
			}
		}
		return v, off, nil
	}
	return Val{}, off, fmt.Errorf("%w: kind %q", errShape, d.K)
}
