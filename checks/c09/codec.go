package c09

import (
	"bytes"
	"fmt"
	"reflect"
	"runtime"
	"runtime/debug"
	"sort"
	"strings"
	"testing"

	"github.com/google/certificate-transparency-go/tls"

	"verif/internal/harness"
)

// Signatures of the two defects known on the unchanged tree (DESIGN.md 2.3, D1 and D2).
const (
	sigD1 = "uint24-offset" // parseField reads a uint24 from data[0..2] instead of rest[0..2]
	sigD2 = "enum-8-byte"   // fieldInfo.check: 1<<(8*8) == 0 refuses every 8-byte enum / 8-byte length prefix
	// Hidden behind D2 (8-byte prefixes are refused outright today): parseField converts the length to int
	// before comparing it with the bytes left, so a prefix >= 2^63 is negative and rest[:datalen] panics.
	sigD3 = "length-prefix-int-overflow"
	// parseField reserved reflect.MakeSlice(sliceType, 0, datalen): one ELEMENT per BYTE of a non-byte vector.
	sigCap = "alloc-amplification-vector-of-structs"
)

// ---- calling the code under test ------------------------------------------------------------------

type callResult struct {
	out   []byte // Marshal: encoding; Unmarshal: rest
	err   error
	alloc uint64
	pan   string
}

func totalAlloc() uint64 {
	var ms runtime.MemStats
	runtime.ReadMemStats(&ms)
	return ms.TotalAlloc
}

func guarded(f func()) (pan string) {
	defer func() {
		if r := recover(); r != nil {
			st := string(debug.Stack())
			if i := strings.Index(st, "certificate-transparency-go/tls."); i >= 0 {
				st = st[i:]
			}
			if len(st) > 700 {
				st = st[:700]
			}
			pan = fmt.Sprintf("%v\n%s", r, st)
		}
	}()
	f()
	return ""
}

func callMarshal(val any, params string, withParams bool) (r callResult) {
	before := totalAlloc()
	r.pan = guarded(func() {
		if withParams {
			r.out, r.err = tls.MarshalWithParams(val, params)
		} else {
			r.out, r.err = tls.Marshal(val)
		}
	})
	r.alloc = totalAlloc() - before
	return r
}

func callUnmarshal(in []byte, ptr any, params string, withParams bool) (r callResult) {
	before := totalAlloc()
	r.pan = guarded(func() {
		if withParams {
			r.out, r.err = tls.UnmarshalWithParams(in, ptr, params)
		} else {
			r.out, r.err = tls.Unmarshal(in, ptr)
		}
	})
	r.alloc = totalAlloc() - before
	return r
}

// ---- allocation bounds ("an allocation larger than the input justifies") -------------------------------
//
// Both directions walk the type by reflection and pay a constant per field visited (tag parsing, two small
// maps per struct, a scratch buffer per field). A field is visited once per occurrence in the data, and every
// occurrence inside a vector costs at least one input byte (zero-width elements are outside the domain), so
// the justified amount is linear in len(input) with a factor proportional to the size of the type. The
// constants were calibrated on the unchanged tree (largest observed ratio about 0.3 of the bound) - what the
// bound must catch is allocation driven by a length prefix rather than by bytes actually present.
//
// Unmarshal (tightened after the capacity = length-in-bytes finding, /repo d7b1792): the bound is no longer
// len(input) x size-of-type but follows the WORK the reference decoder did on the same input until it stopped:
// a constant per descriptor node visited plus a small multiple of the Go memory the decoded data needs (vector
// contents once; sizeof(element) per decoded element, times the growth factor of append; plain integer / array
// elements of a vector cost a small constant, not a field's worth of tag parsing). Reserving memory per
// length prefix, per input byte or per byte of a vector instead of per element breaks it at KB scale.
func unmarshalBound(d *Desc, fl flags) uint64 {
	return 16384 + 512*(fl.Visits-fl.ScalarElems+uint64(d.nodes())) + 64*fl.ScalarElems + 8*fl.GoBytes
}

func marshalBound(d *Desc, v *Val) uint64 {
	n := uint64(d.nodes())
	return 16384 + 2048*n + 64*uint64(v.size()) + 1024*uint64(v.count())
}

// size is the number of content bytes a value carries.
func (v *Val) size() int {
	n := len(v.B) + 8
	for i := range v.L {
		n += v.L[i].size()
	}
	return n
}

func (v *Val) count() int {
	n := 1
	for i := range v.L {
		n += v.L[i].count()
	}
	return n
}

var debugMaxU, debugMaxM float64

// ---- static facts about the type (classes, non-triviality) ----------------------------------------

type typeFacts struct {
	classes     map[string]bool
	multiOffset bool // a multi-byte field can sit at a non-zero offset
	variant     bool
	boundaryTag bool
	depth       int
}

func isEdge(x uint64) bool {
	for _, e := range widthEdges {
		if e == x {
			return true
		}
	}
	return false
}

func (tf *typeFacts) walk(d *Desc, depth int, nonZero bool) {
	if d.K == KRef {
		tf.classes["static-type-reference"] = true
		if nonZero {
			tf.multiOffset = true
		}
		return
	}
	if depth > tf.depth {
		tf.depth = depth
	}
	switch d.K {
	case KU16, KU24, KU32, KU64:
		tf.classes["has:"+d.K] = true
		if nonZero {
			tf.multiOffset = true
			if d.K == KU24 {
				tf.classes["uint24-at-nonzero-offset"] = true
			}
		}
	case KU8:
		tf.classes["has:u8"] = true
	case KEnum:
		w := d.enumWidth()
		tf.classes[fmt.Sprintf("enum-width-%d", w)] = true
		if d.Size != 0 {
			tf.classes["enum-size-tag"] = true
		} else {
			tf.classes["enum-maxval-tag"] = true
		}
		if d.Alias != 0 {
			tf.classes["enum-named-alias"] = true
		}
		if d.Size == 8 || (d.Size == 0 && isEdge(d.MaxVal)) {
			tf.boundaryTag = true
		}
		if w > 1 && nonZero {
			tf.multiOffset = true
		}
	case KArray:
		tf.classes["has:array"] = true
		if d.N == 0 {
			tf.classes["array-len-0"] = true
		}
	case KBytes, KVec:
		tf.classes[fmt.Sprintf("prefix-width-%d", widthFor(d.Max))] = true
		if isEdge(d.Max) {
			tf.boundaryTag = true
			tf.classes["maxlen-at-width-edge"] = true
		}
		if d.Min == d.Max {
			tf.classes["minlen==maxlen"] = true
		}
		if d.Min > 0 {
			tf.classes["minlen>0"] = true
		}
		if nonZero {
			tf.multiOffset = true
		}
		if d.K == KBytes {
			tf.classes["has:bytes"] = true
		} else {
			if d.Elem.K == KStruct {
				tf.classes["vec-of-struct"] = true
			} else {
				tf.classes["vec-of-"+d.Elem.K] = true
			}
			// elements after the first sit at a non-zero offset of the vector content
			tf.walk(d.Elem, depth+1, true)
		}
	case KStruct:
		if len(d.Fields) == 0 {
			tf.classes["empty-struct"] = true
		}
		sels := map[int]bool{}
		nz := nonZero
		for i := range d.Fields {
			f := &d.Fields[i]
			if f.Arm {
				tf.variant = true
				sels[f.Sel] = true
				tf.classes["arm:"+f.D.K] = true
				if i > f.Sel+1 {
					tf.classes["arm-not-adjacent-to-selector"] = true
				}
			}
			tf.walk(&f.D, depth+1, nz)
			if f.Arm || f.D.K != KArray || f.D.N > 0 {
				nz = true
			}
		}
		if len(sels) > 0 {
			tf.classes["variant"] = true
		}
		if len(sels) > 1 {
			tf.classes["two-selectors"] = true
		}
	}
}

func factsOf(d *Desc) *typeFacts {
	tf := &typeFacts{classes: map[string]bool{}}
	tf.walk(d, 0, false)
	if d.K != KStruct {
		tf.classes["top-level-"+d.K+"-with-params"] = true
	}
	tf.classes[fmt.Sprintf("nesting-depth-%d", min(tf.depth, 4))] = true
	if tf.multiOffset {
		tf.classes["multibyte-at-nonzero-offset"] = true
	}
	if tf.boundaryTag {
		tf.classes["boundary-tag"] = true
	}
	return tf
}

// appendToByteFields makes a shallow copy of rv (as assigning a struct does) and appends one octet to every
// byte-slice field of the copy, through nested structs and chosen arms; the original must not notice. It
// returns the number of fields appended to.
func appendToByteFields(rv reflect.Value) int {
	cp := reflect.New(rv.Type()).Elem()
	cp.Set(rv)
	return appendBytesIn(cp, 0)
}

func appendBytesIn(v reflect.Value, depth int) int {
	if depth > 8 {
		return 0
	}
	switch v.Kind() {
	case reflect.Slice:
		if v.Type().Elem().Kind() == reflect.Uint8 {
			v.Set(reflect.Append(v, reflect.ValueOf(uint8(0x5a))))
			return 1
		}
		n := 0
		for i := 0; i < v.Len() && i < 4; i++ {
			// elements live in the backing array shared with the original: work on a copy of the element
			e := reflect.New(v.Type().Elem()).Elem()
			e.Set(v.Index(i))
			n += appendBytesIn(e, depth+1)
		}
		return n
	case reflect.Struct:
		n := 0
		for i := 0; i < v.NumField(); i++ {
			if v.Type().Field(i).IsExported() {
				n += appendBytesIn(v.Field(i), depth+1)
			}
		}
		return n
	case reflect.Ptr:
		if v.IsNil() {
			return 0
		}
		e := reflect.New(v.Type().Elem()).Elem()
		e.Set(v.Elem())
		return appendBytesIn(e, depth+1)
	}
	return 0
}

// dirtyVal is a value with every arm present, every vector non-empty and every integer non-zero: what a
// destination may hold before Unmarshal overwrites it.
func dirtyVal(d *Desc) Val { return dirtyValN(d, 0) }

func dirtyValN(d *Desc, refs int) Val {
	if d.K == KRef {
		refs++
		d = d.res()
	}
	switch d.K {
	case KU8, KU16, KU24, KU32, KU64, KEnum:
		return Val{U: 0xa5}
	case KArray:
		return Val{B: bytes.Repeat([]byte{0xa5}, d.N)}
	case KBytes:
		return Val{B: Hex{0xa5, 0xa5, 0xa5}}
	case KVec:
		if refs > 2 && d.Elem.hasRef() {
			return Val{}
		}
		return Val{L: []Val{dirtyValN(d.Elem, refs)}}
	case KStruct:
		v := Val{L: make([]Val, len(d.Fields))}
		for i := range d.Fields {
			if refs > 2 && d.Fields[i].Arm && d.Fields[i].D.hasRef() {
				v.L[i] = Val{Nil: true}
				continue
			}
			v.L[i] = dirtyValN(&d.Fields[i].D, refs)
		}
		return v
	}
	return Val{}
}

// ---- the check ------------------------------------------------------------------------------------

type checker struct {
	v       *harness.Verdict
	d       *Desc
	typ     reflect.Type
	params  string
	classes map[string]bool
	mutated bool
}

func (ck *checker) class(s string) { ck.classes[s] = true }

// blame names the known defect whose model reproduces the observed decoding exactly, if any.
func (ck *checker) blameDecode(in []byte, realOK bool, realVal *Val, realConsumed int) []string {
	for _, q := range []quirks{{D1: true}, {D2: true}, {D1: true, D2: true}} {
		mv, mc, _, merr := refDec(ck.d, in, q)
		if (merr == nil) != realOK {
			continue
		}
		if realOK && (mc != realConsumed || !eqVal(ck.d, &mv, realVal)) {
			continue
		}
		var sigs []string
		if q.D1 {
			sigs = append(sigs, sigD1)
		}
		if q.D2 {
			sigs = append(sigs, sigD2)
		}
		return sigs
	}
	return nil
}

func (ck *checker) where(tr *Trial) string {
	if ck.typ.Name() != "" {
		return fmt.Sprintf("static type %s = %s trial %s", ck.typ, ck.d, tr.Note)
	}
	return fmt.Sprintf("type %s params %q trial %s", ck.d, ck.params, tr.Note)
}

// decode runs Unmarshal on in and judges it against the reference decoder. want, when non-nil, is the value
// the input was encoded from (round trip).
func (ck *checker) decode(tr *Trial, in []byte, want *Val) {
	v, d := ck.v, ck.d
	exp, consumed, fl, expErr := refDec(d, in, quirks{})
	if want != nil {
		if expErr != nil || consumed != len(in) || !eqVal(d, &exp, want) {
			v.Failf("oracle-self-check", "reference decoder does not invert the reference encoder (harness bug): %s: %v", ck.where(tr), expErr)
			return
		}
	}
	if fl.UnknownEnum {
		ck.class("input-with-enum-above-maxval")
	}
	ptr := reflect.New(ck.typ)
	if tr.Dirty {
		dv := dirtyVal(d)
		ptr.Elem().Set(toReflect(d, &dv, ck.typ))
		ck.class("dirty-destination")
	}
	buf := append([]byte{}, in...)
	if len(in) == 0 && tr.Dirty {
		buf = nil
	}
	r := callUnmarshal(buf, ptr.Interface(), ck.params, ck.params != "" || tr.Dirty)
	if r.pan != "" {
		if _, _, _, merr := refDec(d, in, quirks{D3: true}); merr == errPanicModel {
			v.Failf(sigD3, "%s: Unmarshal(%s) panicked on an 8-byte length prefix >= 2^63: %s", ck.where(tr), hx(in), r.pan)
			return
		}
		v.Failf("panic-unmarshal", "%s: Unmarshal(%s) panicked: %s", ck.where(tr), hx(in), r.pan)
		return
	}
	if b := unmarshalBound(d, fl); r.alloc > b {
		// re-measure: TotalAlloc is process-wide (another goroutine may have allocated meanwhile), and the first
		// call on a freshly built type pays one-off reflect cache fills that no input is responsible for
		ck.class("alloc-remeasured")
		for i := 0; i < 2 && r.alloc > b; i++ {
			p2 := reflect.New(ck.typ)
			r2 := callUnmarshal(append([]byte{}, in...), p2.Interface(), ck.params, true)
			r.alloc = min(r.alloc, r2.alloc)
		}
		if r.alloc > b {
			sig := "alloc-unmarshal"
			if fl.CapByLen > 0 && r.alloc >= fl.CapByLen/4 && r.alloc <= b+2*fl.CapByLen {
				// as much as one element per BYTE of a non-byte vector would take (KNOWN_FINDINGS: fixed d7b1792)
				sig = sigCap
			}
			v.Failf(sig, "%s: Unmarshal of %d input bytes allocated %d bytes (bound %d: %d nodes visited, decoded data needs %d bytes): %s", ck.where(tr), len(in), r.alloc, b, fl.Visits, fl.GoBytes, hx(in))
		}
	} else if f := float64(r.alloc) / float64(b); f > debugMaxU {
		debugMaxU = f // (first measurements only: a re-measured call is dominated by noise)
	}
	realOK := r.err == nil
	var got Val
	gotConsumed := 0
	if realOK {
		got = fromReflect(d, ptr.Elem())
		gotConsumed = len(in) - len(r.out)
	}
	if expErr == nil {
		ck.class("decode-accept")
		if consumed < len(in) {
			ck.class("decode-accept-with-rest")
		}
	} else {
		ck.class("decode-reject:" + category(expErr))
	}
	switch {
	case expErr == nil && !realOK:
		if fl.UnknownEnum {
			// statement silent on enum values above maxval that fit the width: refusing them is fine as long
			// as the other direction refuses them too
			m := callMarshal(toReflect(d, &exp, ck.typ).Interface(), ck.params, true)
			if m.pan == "" && m.err != nil {
				ck.class("enum-above-maxval-refused-both-ways")
				return
			}
		}
		if sigs := ck.blameDecode(in, false, nil, 0); sigs != nil {
			for _, s := range sigs {
				v.Failf(s, "%s: Unmarshal(%s) refused a valid encoding of %s: %v", ck.where(tr), hx(in), show(exp), r.err)
			}
			return
		}
		v.Failf("unmarshal-refuses-valid", "%s: Unmarshal(%s) = error %q, reference decodes %s consuming %d", ck.where(tr), hx(in), r.err, show(exp), consumed)
		return
	case expErr != nil && realOK:
		if sigs := ck.blameDecode(in, true, &got, gotConsumed); sigs != nil {
			for _, s := range sigs {
				v.Failf(s, "%s: Unmarshal(%s) accepted input the reference refuses (%v)", ck.where(tr), hx(in), expErr)
			}
			return
		}
		v.Failf("unmarshal-accepts-"+category(expErr), "%s: Unmarshal(%s) = %s (rest %d bytes), reference refuses: %v", ck.where(tr), hx(in), show(got), len(r.out), expErr)
		return
	case expErr != nil:
		return // both refuse
	}
	// both accept
	if !eqVal(d, &got, &exp) || gotConsumed != consumed {
		if sigs := ck.blameDecode(in, true, &got, gotConsumed); sigs != nil {
			for _, s := range sigs {
				v.Failf(s, "%s: Unmarshal(%s) = %s consuming %d, want %s consuming %d", ck.where(tr), hx(in), show(got), gotConsumed, show(exp), consumed)
			}
			return
		}
		if gotConsumed != consumed {
			v.Failf("unmarshal-rest", "%s: Unmarshal(%s) consumed %d bytes, reference %d", ck.where(tr), hx(in), gotConsumed, consumed)
		} else {
			v.Failf("unmarshal-value", "%s: Unmarshal(%s) = %s, want %s", ck.where(tr), hx(in), show(got), show(exp))
		}
		return
	}
	if !bytes.Equal(r.out, in[consumed:]) {
		v.Failf("unmarshal-rest", "%s: Unmarshal(%s) returned rest %s, want %s", ck.where(tr), hx(in), hx(r.out), hx(in[consumed:]))
		return
	}
	// The decoded value is a value in its own right ("decoding the encoding returns the value"): what the
	// caller does to the input buffer afterwards, or to a copy of the structure, must not change it.
	for i := range buf {
		buf[i] = ^buf[i] // the caller re-uses its receive buffer
	}
	if after := fromReflect(d, ptr.Elem()); !eqVal(d, &after, &exp) {
		v.Failf("unmarshal-aliases-input", "%s: the value decoded from %s changed when the input buffer was overwritten afterwards: now %s", ck.where(tr), hx(in), show(after))
		return
	}
	if n := appendToByteFields(ptr.Elem()); n > 0 {
		ck.class("appended-to-decoded-byte-fields")
		if after := fromReflect(d, ptr.Elem()); !eqVal(d, &after, &exp) {
			v.Failf("unmarshal-shares-backing-array", "%s: the value decoded from %s changed when one octet was appended to each []byte field of a COPY of it: now %s", ck.where(tr), hx(in), show(after))
			return
		}
	}
	// re-encoding the decoded Go value reproduces exactly the bytes consumed
	m := callMarshal(ptr.Elem().Interface(), ck.params, ck.params != "")
	switch {
	case m.pan != "":
		v.Failf("panic-marshal", "%s: Marshal of the value decoded from %s panicked: %s", ck.where(tr), hx(in), m.pan)
	case m.err != nil:
		v.Failf("reencode-refused", "%s: Unmarshal accepted %s as %s but Marshal refuses that value: %v", ck.where(tr), hx(in[:consumed]), show(got), m.err)
	case !bytes.Equal(m.out, in[:consumed]):
		v.Failf("reencode-bytes", "%s: decoded %s, re-encoded as %s", ck.where(tr), hx(in[:consumed]), hx(m.out))
	}
}

func (ck *checker) value(tr *Trial, idx int) {
	v, d := ck.v, ck.d
	if tr.V == nil {
		return
	}
	exp, _, fl, expErr := refEnc(d, tr.V, quirks{})
	if fl.UnknownEnum {
		ck.class("value-with-enum-above-maxval")
	}
	if errorsIsShape(expErr) {
		return // the Case does not describe a value of this type (hand-edited replay file)
	}
	rv := toReflect(d, tr.V, ck.typ)
	m := callMarshal(rv.Interface(), ck.params, ck.params != "" || idx%2 == 1)
	if m.pan != "" {
		v.Failf("panic-marshal", "%s: Marshal(%s) panicked: %s", ck.where(tr), show(tr.V), m.pan)
		return
	}
	if b := marshalBound(d, tr.V); m.alloc > b {
		for i := 0; i < 2 && m.alloc > b; i++ {
			m2 := callMarshal(rv.Interface(), ck.params, true)
			m.alloc = min(m.alloc, m2.alloc)
		}
		if m.alloc > b {
			v.Failf("alloc-marshal", "%s: Marshal producing %d bytes allocated %d bytes (bound %d)", ck.where(tr), len(m.out), m.alloc, b)
		}
	} else if f := float64(m.alloc) / float64(b); f > debugMaxM {
		debugMaxM = f
	}
	if expErr != nil {
		ck.class("value-invalid:" + category(expErr))
		ck.mutated = true
		if m.err == nil {
			v.Failf("marshal-accepts-"+category(expErr), "%s: Marshal(%s) = %s, but the value is invalid: %v", ck.where(tr), show(tr.V), hx(m.out), expErr)
		}
		return
	}
	ck.class("value-valid")
	if m.err != nil {
		if fl.UnknownEnum {
			if _, _, _, merr := refDec(d, exp, quirks{}); merr == nil {
				u := callUnmarshal(append([]byte{}, exp...), reflect.New(ck.typ).Interface(), ck.params, true)
				if u.pan == "" && u.err != nil {
					ck.class("enum-above-maxval-refused-both-ways")
					return
				}
			}
		}
		if _, _, _, qerr := refEnc(d, tr.V, quirks{D2: true}); qerr != nil {
			v.Failf(sigD2, "%s: Marshal(%s) refused a valid value: %v (want %s)", ck.where(tr), show(tr.V), m.err, hx(exp))
			return
		}
		v.Failf("marshal-refuses-valid", "%s: Marshal(%s) = error %q, want %s", ck.where(tr), show(tr.V), m.err, hx(exp))
		return
	}
	if !bytes.Equal(m.out, exp) {
		v.Failf("marshal-bytes", "%s: Marshal(%s) = %s, want %s", ck.where(tr), show(tr.V), hx(m.out), hx(exp))
		return
	}
	if len(exp) > 256 {
		ck.class("encoding>256B")
	}
	if len(exp) > 65535 {
		ck.class("encoding>64KiB")
	}
	ck.decode(tr, exp, tr.V)
}

func errorsIsShape(err error) bool { return err != nil && category(err) == errShape.Error() }

func checkCase(t *testing.T, c Case) (v harness.Verdict) {
	classes := map[string]bool{}
	if !checkOne(&c, &v, classes) {
		return harness.Verdict{Discard: true}
	}
	// follow-up types coded in the same process right after this one (same-named static types)
	for i := range c.Then {
		checkOne(&c.Then[i], &v, classes)
	}
	for cl := range classes {
		v.Classes = append(v.Classes, cl)
	}
	sort.Strings(v.Classes)
	// one violation per signature and case is enough
	seen := map[string]bool{}
	var vs []harness.Violation
	for _, x := range v.Violations {
		if !seen[x.Sig] {
			seen[x.Sig] = true
			vs = append(vs, x)
		}
	}
	v.Violations = vs
	return v
}

// checkOne runs the trials of one type (generated, or static when c.Static names one).
func checkOne(c *Case, v *harness.Verdict, classes map[string]bool) bool {
	d := &c.Type
	var typ reflect.Type
	if c.Static != "" {
		s := staticByName(c.Static)
		if s == nil {
			return false
		}
		d, typ = &s.Desc, s.Type
		classes["static:"+s.Name] = true
		classes["static-group:"+s.Group] = true
		v.NonTrivial = true
	} else {
		if err := d.validate(ctxTop, 0); err != nil {
			return false
		}
		typ = d.goType()
	}
	tf := factsOf(d)
	for cl := range tf.classes {
		classes[cl] = true
	}
	ck := &checker{v: v, d: d, typ: typ, classes: classes}
	if d.K != KStruct {
		ck.params = d.tag()
	}
	for i := range c.Trials {
		tr := &c.Trials[i]
		switch tr.Kind {
		case "value":
			ck.value(tr, i)
		case "present":
			ck.present(tr)
		case "bytes":
			if strings.HasPrefix(tr.Note, "mut") || tr.Note == "raw" {
				ck.mutated = true
			}
			ck.class("input:" + strings.SplitN(tr.Note, ":", 3)[0] + func() string {
				if p := strings.SplitN(tr.Note, ":", 3); len(p) > 1 && p[0] == "mut" {
					return ":" + p[1]
				}
				return ""
			}())
			ck.decode(tr, tr.Input, nil)
		}
	}
	v.NonTrivial = v.NonTrivial || tf.multiOffset || tf.variant || tf.boundaryTag || ck.mutated
	return true
}

// Values: Marshal against the reference encoder, round trip, refusal of invalid values.
var Values = harness.Define(harness.Opts{
	Name:  "values",
	Rule:  "type descriptors (depth<=3, <=8(+variant) fields per struct: uint8/16/24/32/64, tls.Enum and aliases with size:1..8 or maxval at the width edges, [0..40]byte, []byte / []T / []struct with minlen/maxlen at the width edges, nested structs, 0-2 selector groups with 1-3 pointer arms anywhere after the selector, top-level non-struct types with params) realised by reflect.StructOf, 3-6 values each (boundary-biased; 40% made invalid in exactly one way: length below min / above max, enum wider than its size, uint24 overflow, unchosen arm present, chosen arm absent, selector without arm), plus 1-3 top-level presentations per case (pointer, typed nil pointer, **T, pointer to nil pointer, pointer to interface, nil interface, hostile params strings, unsupported or wrongly annotated Go types; Unmarshal into non-pointer / nil pointer / nil interface / **T) judged only as error-never-panic. Oracle: reference encoder/decoder over descriptors (RFC 5246 s4). Non-trivial: the type has a multi-byte field at a non-zero offset, a variant or a tag at a width boundary, or the value was made invalid",
	Quick: 8000, Thorough: 20000, MaxSample: 900,
}, genValues, checkCase)

// Static: the same oracles on statically declared Go types, which reflect.StructOf cannot build: named types,
// several distinct types sharing one qualified name (coded one after the other in drawn order) and
// self-referential types.
var Static = harness.Define(harness.Opts{
	Name:  "static",
	Rule:  "statically declared types with hand-written descriptors: five distinct function-local struct types all named c09.record (different enum sizes, prefix widths, bounds, field counts, arm values) taken 2-4 at a time in drawn order within one case, package-level named types (a vector of a named struct), and self-referential types (linked list through a variant pointer after its selector, tree through a vector of itself, mutually recursive expression nodes; nesting depth decided by the data, up to 6 levels). Per type 2-4 values (30% made invalid) and 1-3 byte strings (valid+tail, steering-integer rewrite, byte mutations, raw), judged exactly like the values / bytes sub-properties. Every case is non-trivial",
	Quick: 1500, Thorough: 4000, MaxSample: 900,
	// unbounded recursion over a self-referential TYPE is a fatal stack overflow, not a panic: persist each
	// case before it runs so that the driver can name the culprit when the process dies
	Crashy: true,
}, genStatic, checkCase)

// Bytes: Unmarshal against the reference decoder on encodings with trailing data, mutated encodings and raw bytes.
var Bytes = harness.Define(harness.Opts{
	Name:  "bytes",
	Rule:  "same type generator; 3-6 byte strings each: a valid encoding plus 0-4 trailing bytes, a valid encoding with one steering integer (length prefix, enum, selector) rewritten to a boundary value and padded so that bounds rather than truncation decide, 1-3 byte-level mutations (insert, flip, set, truncate, delete, duplicate tail), or raw bytes; a quarter of the decodes go into a destination that already holds another value. Oracle: accept/reject, value, rest, re-encoding == consumed prefix, no panic, allocation linear in len(input). Non-trivial: as for values, or the input was mutated / raw",
	Quick: 8000, Thorough: 20000, MaxSample: 900,
}, genBytesCase, checkCase)
