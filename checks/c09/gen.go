package c09

import (
	"math"

	"pgregory.net/rapid"

	"verif/internal/harness"
)

// ---- type generator -------------------------------------------------------------------------------

// Boundaries of the 1..8-byte widths (tag bounds "at the 1/2/3/.../8-byte boundaries").
var widthEdges = []uint64{
	0xff, 0x100, 0xffff, 0x10000, 0xffffff, 0x1000000, 0xffffffff, 0x100000000,
	0xffffffffff, 0x10000000000, 0xffffffffffff, 0x1000000000000,
	0xffffffffffffff, 0x100000000000000, math.MaxInt64, 1 << 63, math.MaxUint64,
}

func pick[T any](t *rapid.T, label string, xs ...T) T {
	return xs[rapid.IntRange(0, len(xs)-1).Draw(t, label)]
}

func genEnum(t *rapid.T) Desc {
	d := Desc{K: KEnum, Alias: pick(t, "alias", 0, 0, 1, 2)}
	switch rapid.IntRange(0, 2).Draw(t, "enumform") {
	case 0, 1:
		d.Size = pick(t, "size", 1, 1, 2, 2, 3, 4, 5, 6, 7, 8, 8)
	default:
		switch rapid.IntRange(0, 3).Draw(t, "maxvalform") {
		case 0:
			d.MaxVal = uint64(rapid.IntRange(0, 300).Draw(t, "maxval"))
		case 1, 2:
			d.MaxVal = pick(t, "maxvaledge", widthEdges...)
		default:
			d.MaxVal = rapid.Uint64().Draw(t, "maxvalr")
		}
	}
	return d
}

// genBounds draws minlen/maxlen. small keeps both modest (vectors of structs, where values are built
// element by element).
func genBounds(t *rapid.T, small bool) (min, max uint64) {
	switch rapid.IntRange(0, 9).Draw(t, "maxform") {
	case 0, 1, 2, 3, 4:
		max = uint64(rapid.IntRange(1, 40).Draw(t, "max"))
	case 5, 6:
		max = pick[uint64](t, "maxmid", 255, 256, 300, 65535, 65536, 70000)
	default:
		max = pick(t, "maxedge", widthEdges...)
	}
	lim := max
	if small && lim > 24 {
		lim = 24
	}
	switch rapid.IntRange(0, 9).Draw(t, "minform") {
	case 0, 1, 2, 3:
		min = 0
	case 4:
		min = 1
	case 5:
		min = 2
	case 6, 7:
		if lim > 40 {
			lim = 40
		}
		min = uint64(rapid.IntRange(0, int(lim)).Draw(t, "min"))
	case 8:
		if max <= 300 && !small {
			min = max // fixed size
		}
	default:
		if harness.Thorough() && !small {
			min = pick[uint64](t, "minedge", 255, 256, 257, 65535, 65536)
		} else if !small {
			min = pick[uint64](t, "minedge", 255, 256, 257)
		}
	}
	if min > max {
		min = max
	}
	return min, max
}

type typeGen struct {
	budget int // remaining descriptor nodes
}

var scalarKinds = []string{KU8, KU16, KU24, KU24, KU32, KU64}

func (g *typeGen) desc(t *rapid.T, depth, ctx int) Desc {
	g.budget--
	// weights: scalars dominate at depth, containers near the top
	var k string
	r := rapid.IntRange(0, 99).Draw(t, "kind")
	deep := depth >= 3 || g.budget <= 0
	switch {
	case r < 34:
		k = pick(t, "scalar", scalarKinds...)
	case r < 50:
		k = KEnum
	case r < 60:
		k = KArray
	case r < 74:
		k = KBytes
	case r < 84:
		k = KVec
	default:
		k = KStruct
	}
	if ctx == ctxElem && !deep && r%2 == 0 {
		k = KStruct // vectors of structs are the interesting vectors
	}
	if deep && (k == KVec || k == KStruct) {
		k = pick(t, "scalar", scalarKinds...)
	}
	if ctx == ctxElem && (k == KBytes || k == KVec || k == KEnum) {
		// a vector directly inside a vector needs a wrapper struct (package comment); an enum needs a tag
		if deep {
			k = pick(t, "scalar", scalarKinds...)
		} else {
			k = KStruct
		}
	}
	if ctx == ctxArm && k == KEnum {
		k = pick(t, "scalar", scalarKinds...)
	}
	switch k {
	case KEnum:
		return genEnum(t)
	case KArray:
		lo := 0
		if ctx == ctxElem {
			lo = 1
		}
		n := rapid.IntRange(lo, 40).Draw(t, "arraylen")
		if rapid.IntRange(0, 3).Draw(t, "arraysmall") > 0 && n > 4 {
			n = lo + n%4
		}
		if ctx == ctxElem && rapid.IntRange(0, 2).Draw(t, "arraybig") == 0 {
			// large fixed-size elements: the Go size of an element is far above one byte, so memory reserved
			// per byte of the vector instead of per element shows at KB scale
			n = pick(t, "arraybiglen", 256, 257, 512, 1000, 1024, 2048, 4096)
		}
		return Desc{K: KArray, N: n}
	case KBytes:
		mn, mx := genBounds(t, false)
		return Desc{K: KBytes, Min: mn, Max: mx, TagRev: rapid.IntRange(0, 4).Draw(t, "tagrev") == 0, Alias: pick(t, "balias", 0, 0, 0, 1)}
	case KVec:
		mn, mx := genBounds(t, true)
		e := g.desc(t, depth+1, ctxElem)
		if e.minWidth() == 0 { // zero-width elements are outside the domain: pad with one byte
			e = Desc{K: KStruct, Fields: []Field{{D: Desc{K: KU8}}, {D: e}}}
		}
		if w := e.minWidth(); w > 40 {
			// wide elements: bounds that admit a few of them
			mx = pick[uint64](t, "widemax", w, 2*w, 4*w+3, 65535, 70000, 1<<24-1, 1<<32)
			mn = pick[uint64](t, "widemin", 0, 0, 0, 1, w)
			if mx < w {
				mx = w
			}
			if mn > mx {
				mn = mx
			}
		}
		return Desc{K: KVec, Min: mn, Max: mx, Elem: &e, TagRev: rapid.IntRange(0, 4).Draw(t, "tagrev") == 0}
	case KStruct:
		return g.structDesc(t, depth, ctx)
	}
	return Desc{K: k}
}

// Arm values: small ordinals plus the edges of the selector's width.
func armVals(t *rapid.T, sel *Desc, n int) []uint64 {
	w := sel.enumWidth()
	hi := uint64(math.MaxUint64)
	if w < 8 {
		hi = uint64(1)<<(8*uint(w)) - 1
	}
	if sel.Size == 0 && sel.MaxVal < hi {
		hi = sel.MaxVal
	}
	cands := []uint64{0, 1, 2, 3, 4, 0x7f, 0x80, 0xff, 0x100, 0x8000, 0xffff, hi, hi - 1, hi / 2}
	var out []uint64
	for tries := 0; len(out) < n && tries < 40; tries++ {
		v := pick(t, "armval", cands...)
		if v > hi {
			continue
		}
		dup := false
		for _, x := range out {
			dup = dup || x == v
		}
		if !dup {
			out = append(out, v)
		}
	}
	return out
}

func (g *typeGen) structDesc(t *rapid.T, depth, ctx int) Desc {
	maxF := 8
	if depth > 0 {
		maxF = 5
	}
	nf := rapid.IntRange(0, maxF).Draw(t, "nfields")
	if ctx == ctxElem && nf == 0 {
		nf = 1
	}
	d := Desc{K: KStruct}
	for i := 0; i < nf; i++ {
		d.Fields = append(d.Fields, Field{D: g.desc(t, depth+1, ctxField)})
	}
	// variants: up to two selector groups, each a selector enum followed (anywhere later) by 1-3 arms
	ngroups := pick(t, "ngroups", 0, 0, 1, 1, 1, 2)
	for gi := 0; gi < ngroups && g.budget > 0; gi++ {
		selD := genEnum(t)
		pos := rapid.IntRange(0, len(d.Fields)).Draw(t, "selpos")
		d.insert(pos, Field{D: selD})
		narms := rapid.IntRange(1, 3).Draw(t, "narms")
		vals := armVals(t, &selD, narms)
		selIdx := pos
		for _, av := range vals {
			ap := rapid.IntRange(selIdx+1, len(d.Fields)).Draw(t, "armpos")
			arm := Field{D: g.desc(t, depth+1, ctxArm), Arm: true, Sel: selIdx, Val: av}
			d.insert(ap, arm)
		}
	}
	return d
}

// insert puts f at position pos and renumbers the selector references of arms behind it.
func (d *Desc) insert(pos int, f Field) {
	for i := range d.Fields {
		if d.Fields[i].Arm && d.Fields[i].Sel >= pos {
			d.Fields[i].Sel++
		}
	}
	d.Fields = append(d.Fields, Field{})
	copy(d.Fields[pos+1:], d.Fields[pos:])
	d.Fields[pos] = f
}

// genType draws the top-level type: a struct nine times out of ten, else any shape with top-level params.
func genType(t *rapid.T) Desc {
	g := &typeGen{budget: 28}
	if rapid.IntRange(0, 9).Draw(t, "topform") > 0 {
		return g.structDesc(t, 0, ctxTop)
	}
	return g.desc(t, 1, ctxTop)
}

// ---- value generator ------------------------------------------------------------------------------

type valGen struct {
	cap   uint64 // soft limit on generated vector lengths
	depth int    // references to static (possibly recursive) types followed so far on this path
}

// maxRefDepth bounds the data-driven nesting of recursive static types.
const maxRefDepth = 5

func genUintBits(t *rapid.T, max uint64) uint64 {
	switch rapid.IntRange(0, 7).Draw(t, "uform") {
	case 0:
		return 0
	case 1:
		return min(1, max)
	case 2:
		return max
	case 3:
		return 0x0102030405060708 & max // distinct bytes: byte order and offset mistakes show
	case 4:
		return 0xf1e2d3c4b5a69788 & max
	default:
		if max == math.MaxUint64 {
			return rapid.Uint64().Draw(t, "u")
		}
		return rapid.Uint64Range(0, max).Draw(t, "u")
	}
}

func widthMax(w int) uint64 {
	if w >= 8 {
		return math.MaxUint64
	}
	return uint64(1)<<(8*uint(w)) - 1
}

func genBytes(t *rapid.T, n int) Hex {
	if n <= 48 {
		return Hex(rapid.SliceOfN(rapid.Byte(), n, n).Draw(t, "bytes"))
	}
	chunk := rapid.SliceOfN(rapid.Byte(), 16, 16).Draw(t, "chunk")
	b := make(Hex, n)
	for i := range b {
		b[i] = chunk[i%16] ^ byte(i>>4)
	}
	return b
}

func (g *valGen) length(t *rapid.T, mn, mx uint64) uint64 {
	if mn >= mx {
		return mn
	}
	hi := mx
	if hi > mn+g.cap {
		hi = mn + g.cap
	}
	var n uint64
	switch rapid.IntRange(0, 7).Draw(t, "lenform") {
	case 0, 1:
		n = mn
	case 2:
		n = mn + 1
	case 3:
		n = mx
	case 4:
		n = mx - 1
	default:
		n = rapid.Uint64Range(mn, hi).Draw(t, "len")
	}
	if n > hi || n < mn {
		n = mn
	}
	return n
}

func (g *valGen) val(t *rapid.T, d *Desc) Val {
	if d.K == KRef {
		g.depth++
		defer func() { g.depth-- }()
		d = d.res()
	}
	switch d.K {
	case KU8, KU16, KU24, KU32, KU64:
		return Val{U: genUintBits(t, widthMax(intWidth(d.K)))}
	case KEnum:
		hi := widthMax(d.enumWidth())
		if d.Size == 0 && d.MaxVal < hi {
			hi = d.MaxVal // values above maxval that still fit the width: the statement is silent, stay out
		}
		return Val{U: genUintBits(t, hi)}
	case KArray:
		return Val{B: genBytes(t, d.N)}
	case KBytes:
		n := g.length(t, d.Min, d.Max)
		return Val{B: genBytes(t, int(n)), Nil: n == 0 && rapid.Bool().Draw(t, "nilslice")}
	case KVec:
		target := g.length(t, d.Min, d.Max)
		if g.depth >= maxRefDepth && d.Elem.hasRef() {
			target = d.Min // stop the recursion through a vector of itself
		} else if w := d.Elem.minWidth(); w > 40 {
			// wide elements: aim at 0-4 of them rather than at a number of bytes
			if k := uint64(rapid.IntRange(0, 4).Draw(t, "wideelems")) * w; k > target {
				target = min(k, d.Max)
			}
		}
		var v Val
		var total uint64
		maxElems := 64
		if d.Elem.hasRef() && d.Elem.res().hasRef() {
			maxElems = 3 // a vector of a recursive type: keep the fan-out small, the depth does the work
		}
		for i := 0; total < target && i < maxElems; i++ {
			e := g.val(t, d.Elem)
			b, _, _, err := refEnc(d.Elem, &e, quirks{})
			if err != nil {
				break
			}
			if total+uint64(len(b)) > d.Max {
				break
			}
			v.L = append(v.L, e)
			total += uint64(len(b))
		}
		v.Nil = len(v.L) == 0 && rapid.Bool().Draw(t, "nilslice")
		return v
	case KStruct:
		v := Val{L: make([]Val, len(d.Fields))}
		for i := range d.Fields {
			f := &d.Fields[i]
			if f.Arm {
				if v.L[f.Sel].U != f.Val {
					v.L[i] = Val{Nil: true}
					continue
				}
				v.L[i] = g.val(t, &f.D)
				continue
			}
			if f.D.K == KEnum {
				if arms := d.armsOf(i); len(arms) > 0 {
					if g.depth >= maxRefDepth {
						if ta := d.terminalArms(i); len(ta) > 0 {
							arms = ta // stop the recursion through a variant pointer
						}
					}
					v.L[i] = Val{U: pick(t, "selval", arms...)}
					continue
				}
			}
			v.L[i] = g.val(t, &f.D)
		}
		return v
	}
	return Val{}
}

// zeroVal is the smallest valid value of d (used to populate arms / extend vectors when invalidating).
func zeroVal(d *Desc) Val {
	d = d.res()
	switch d.K {
	case KArray:
		return Val{B: make(Hex, d.N)}
	case KBytes:
		if d.Min > 1<<17 {
			return Val{}
		}
		return Val{B: make(Hex, d.Min)}
	case KVec:
		var v Val
		if d.Min == 0 {
			return v
		}
		e := zeroVal(d.Elem)
		b, _, _, err := refEnc(d.Elem, &e, quirks{})
		if err != nil || len(b) == 0 {
			return v
		}
		for total := uint64(0); total < d.Min && len(v.L) < 1<<12; total += uint64(len(b)) {
			v.L = append(v.L, e)
		}
		return v
	case KStruct:
		v := Val{L: make([]Val, len(d.Fields))}
		for i := range d.Fields {
			f := &d.Fields[i]
			if f.Arm {
				if v.L[f.Sel].U != f.Val {
					v.L[i] = Val{Nil: true}
					continue
				}
			} else if f.D.K == KEnum {
				if arms := d.armsOf(i); len(arms) > 0 {
					if ta := d.terminalArms(i); len(ta) > 0 {
						arms = ta
					}
					v.L[i] = Val{U: arms[0]}
					continue
				}
			}
			v.L[i] = zeroVal(&f.D)
		}
		return v
	}
	return Val{}
}

func cloneVal(v Val) Val {
	o := Val{U: v.U, Nil: v.Nil}
	if v.B != nil {
		o.B = append(Hex{}, v.B...)
	}
	if v.L != nil {
		o.L = make([]Val, len(v.L))
		for i := range v.L {
			o.L[i] = cloneVal(v.L[i])
		}
	}
	return o
}

// ---- invalid values --------------------------------------------------------------------------------

type invSite struct {
	label string
	apply func()
}

// invalidSites enumerates the places where v (a valid value of d) can be made invalid in exactly one way.
func invalidSites(d *Desc, v *Val, limit uint64, out *[]invSite) {
	d = d.res()
	switch d.K {
	case KU24:
		*out = append(*out, invSite{"uint24-overflow", func() { v.U = 0x1000000 }},
			invSite{"uint24-overflow", func() { v.U = 0xffffffff }})
	case KEnum:
		if w := d.enumWidth(); w < 8 {
			*out = append(*out, invSite{"enum-too-wide", func() { v.U = uint64(1) << (8 * uint(w)) }},
				invSite{"enum-too-wide", func() { v.U = math.MaxUint64 }})
		}
	case KBytes:
		if d.Min > 0 {
			*out = append(*out, invSite{"len-below-min", func() { v.B = v.B[:d.Min-1] }})
		}
		if d.Max < limit {
			*out = append(*out, invSite{"len-above-max", func() {
				for uint64(len(v.B)) <= d.Max {
					v.B = append(v.B, byte(len(v.B)))
				}
			}})
		}
	case KVec:
		for i := range v.L {
			invalidSites(d.Elem, &v.L[i], limit, out)
		}
		if d.Min > 0 && len(v.L) > 0 {
			*out = append(*out, invSite{"len-below-min", func() {
				for len(v.L) > 0 {
					v.L = v.L[:len(v.L)-1]
					if bodyLen(d, v) < d.Min {
						return
					}
				}
			}})
		}
		if d.Max < limit {
			*out = append(*out, invSite{"len-above-max", func() {
				e := zeroVal(d.Elem)
				if len(v.L) > 0 {
					e = cloneVal(v.L[0])
				}
				b, _, _, err := refEnc(d.Elem, &e, quirks{})
				if err != nil || len(b) == 0 {
					return
				}
				total := bodyLen(d, v)
				for ; total <= d.Max; total += uint64(len(b)) {
					v.L = append(v.L, cloneVal(e))
				}
			}})
		}
	case KStruct:
		for i := range d.Fields {
			f := &d.Fields[i]
			fv := &v.L[i]
			if f.Arm {
				if fv.Nil {
					*out = append(*out, invSite{"arm-unchosen-nonnil", func() { *fv = zeroVal(&f.D) }})
				} else {
					invalidSites(&f.D, fv, limit, out)
					*out = append(*out, invSite{"arm-chosen-nil", func() { *fv = Val{Nil: true} }})
				}
				continue
			}
			if f.D.K == KEnum {
				if arms := d.armsOf(i); len(arms) > 0 {
					*out = append(*out, invSite{"selector-no-arm", func() {
						hi := widthMax(f.D.enumWidth())
						for c := uint64(0); c <= 8; c++ {
							cand := c
							if c > 4 {
								cand = hi - (c - 5)
							}
							free := cand <= hi
							for _, a := range arms {
								free = free && a != cand
							}
							if free {
								fv.U = cand
								return
							}
						}
					}})
				}
			}
			invalidSites(&f.D, fv, limit, out)
		}
	}
}

// terminalArms lists the arm values of selector field i whose arm types do not lead back into a static type.
func (d *Desc) terminalArms(i int) []uint64 {
	var a []uint64
	for j := range d.Fields {
		if d.Fields[j].Arm && d.Fields[j].Sel == i && !d.Fields[j].D.hasRef() {
			a = append(a, d.Fields[j].Val)
		}
	}
	return a
}

// bodyLen is the encoded size of the elements of vector value v (without the length prefix).
func bodyLen(d *Desc, v *Val) uint64 {
	var total uint64
	for i := range v.L {
		if eb, _, _, err := refEnc(d.Elem, &v.L[i], quirks{}); err == nil {
			total += uint64(len(eb))
		}
	}
	return total
}

// ---- cases -----------------------------------------------------------------------------------------

// Trial is one experiment on the Case's type.
type Trial struct {
	Kind  string `json:"kind"`            // "value" (Marshal + round trip) | "bytes" (Unmarshal of Input) | "present"
	Note  string `json:"note,omitempty"`  // how the trial was made (valid, invalid:<label>, enc+tail, mut:<op>, raw)
	V     *Val   `json:"v,omitempty"`     // kind value
	Input Hex    `json:"input,omitempty"` // kind bytes
	Dirty bool   `json:"dirty,omitempty"` // decode into a destination that already holds another value
	// kind "present": a top-level presentation (toplevel.go)
	How     string `json:"how,omitempty"`
	Params  string `json:"params,omitempty"`
	Index   int    `json:"index,omitempty"`   // which unsupported Go type
	NonZero bool   `json:"nonzero,omitempty"` // unsupported type: non-zero value
}

// Case is one generated type with a handful of trials.
type Case struct {
	Static string  `json:"static,omitempty"` // name of a statically declared type (static.go); Type is then informative only
	Type   Desc    `json:"type"`
	Trials []Trial `json:"trials"`
	Then   []Case  `json:"then,omitempty"` // further types coded in the same process right after this one
}

func valueCap(t *rapid.T) uint64 {
	r := rapid.IntRange(0, 99).Draw(t, "cap")
	switch {
	case harness.Thorough() && r < 3:
		return 70100
	case r < 2:
		return 70100
	case r < 12:
		return 400
	}
	return 24
}

// genStaticTrials draws value trials (some made invalid) and byte-string trials for a static type.
func genStaticTrials(t *rapid.T, c *Case, d *Desc, nvals, nbytes int) {
	for i := 0; i < nvals; i++ {
		g := &valGen{cap: pick[uint64](t, "scap", 8, 24, 24, 60)}
		v := g.val(t, d)
		tr := Trial{Kind: "value", Note: "valid", V: &v, Dirty: rapid.IntRange(0, 3).Draw(t, "dirty") == 0}
		if rapid.IntRange(0, 9).Draw(t, "invalid") < 3 {
			var sites []invSite
			invalidSites(d, &v, 400, &sites)
			if len(sites) > 0 {
				s := sites[rapid.IntRange(0, len(sites)-1).Draw(t, "site")]
				s.apply()
				tr.Note = "invalid:" + s.label
			}
		}
		c.Trials = append(c.Trials, tr)
	}
	for i := 0; i < nbytes; i++ {
		in, note := genInput(t, d)
		c.Trials = append(c.Trials, Trial{Kind: "bytes", Note: note, Input: in, Dirty: rapid.IntRange(0, 3).Draw(t, "dirty") == 0})
	}
}

// genStatic draws a case over statically declared types: either one named / recursive type, or a sequence of
// two to four of the distinct types that are all called c09.record, coded one after the other in drawn order.
func genStatic(t *rapid.T) Case {
	one := func(name string, nvals, nbytes int) Case {
		s := staticByName(name)
		c := Case{Static: name, Type: s.Desc}
		genStaticTrials(t, &c, &s.Desc, nvals, nbytes)
		return c
	}
	if rapid.IntRange(0, 2).Draw(t, "staticform") == 0 {
		names := staticGroup("record")
		n := rapid.IntRange(2, 4).Draw(t, "nrecords")
		var seq []Case
		for i := 0; i < n; i++ {
			seq = append(seq, one(pick(t, "record", names...), 2, 1))
		}
		c := seq[0]
		c.Then = seq[1:]
		return c
	}
	names := append(staticGroup("recursive"), staticGroup("named")...)
	return one(pick(t, "static", names...), rapid.IntRange(2, 4).Draw(t, "nvals"), rapid.IntRange(1, 3).Draw(t, "nbytes"))
}

func genValues(t *rapid.T) Case {
	c := Case{Type: genType(t)}
	n := rapid.IntRange(3, 6).Draw(t, "ntrials")
	for i := 0; i < n; i++ {
		g := &valGen{cap: valueCap(t)}
		v := g.val(t, &c.Type)
		tr := Trial{Kind: "value", Note: "valid", V: &v, Dirty: rapid.IntRange(0, 3).Draw(t, "dirty") == 0}
		if rapid.IntRange(0, 9).Draw(t, "invalid") < 4 {
			var sites []invSite
			limit := uint64(400)
			if g.cap > 400 {
				limit = 70100
			}
			invalidSites(&c.Type, &v, limit, &sites)
			if len(sites) > 0 {
				s := sites[rapid.IntRange(0, len(sites)-1).Draw(t, "site")]
				s.apply()
				tr.Note = "invalid:" + s.label
			}
		}
		c.Trials = append(c.Trials, tr)
	}
	// top-level presentations of the value / of the decode target: error, never panic
	for k := rapid.IntRange(1, 3).Draw(t, "npresent"); k > 0; k-- {
		c.Trials = append(c.Trials, genPresentation(t, &c))
	}
	return c
}

// mutateAtSite rewrites one steering integer of a valid encoding to a boundary value, and pads the input so
// that a changed length is judged on its bounds rather than on truncation.
func mutateAtSite(t *rapid.T, enc []byte, s site) ([]byte, string) {
	cur := getUint(enc[s.Off : s.Off+s.W])
	hi := widthMax(s.W)
	var cands []uint64
	var op string
	switch s.Kind {
	case "len":
		op = "len"
		cands = []uint64{cur + 1, cur - 1, s.Min - 1, s.Max + 1, s.Min, s.Max, 0, hi, hi / 2, uint64(len(enc) - s.Off - s.W), uint64(len(enc)-s.Off-s.W) + 1}
	case "sel":
		op = "sel"
		cands = append([]uint64{cur + 1, 0, hi, cur ^ 1}, s.Arms...)
	default:
		op = "enum"
		cands = []uint64{cur + 1, 0, hi, cur ^ 0x80, rapid.Uint64().Draw(t, "enumv")}
	}
	nv := cands[rapid.IntRange(0, len(cands)-1).Draw(t, "sitev")] & hi
	out := append([]byte{}, enc[:s.Off]...)
	out = putUint(out, nv, s.W)
	out = append(out, enc[s.Off+s.W:]...)
	if s.Kind == "len" && nv > cur && nv-cur <= 70100 && rapid.IntRange(0, 3).Draw(t, "pad") > 0 {
		for i := uint64(0); i < nv-cur; i++ {
			out = append(out, byte(0x40+i))
		}
	}
	return out, op
}

func genInput(t *rapid.T, d *Desc) ([]byte, string) {
	mode := rapid.IntRange(0, 9).Draw(t, "inmode")
	if mode == 0 {
		n := rapid.IntRange(0, 48).Draw(t, "rawlen")
		b := rapid.SliceOfN(rapid.Byte(), n, n).Draw(t, "raw")
		if n > 0 && rapid.Bool().Draw(t, "rawlead") {
			b[0] = pick[byte](t, "lead", 0, 1, 0xff)
		}
		return b, "raw"
	}
	g := &valGen{cap: valueCap(t)}
	v := g.val(t, d)
	enc, sites, _, err := refEnc(d, &v, quirks{})
	if err != nil {
		// no valid value could be built (degenerate bounds): fall back to raw bytes
		return rapid.SliceOfN(rapid.Byte(), 0, 24).Draw(t, "raw"), "raw"
	}
	switch {
	case mode <= 2:
		tail := rapid.SliceOfN(rapid.Byte(), 0, 4).Draw(t, "tail")
		return append(enc, tail...), "enc+tail"
	case mode <= 6 && len(sites) > 0:
		s := sites[rapid.IntRange(0, len(sites)-1).Draw(t, "site")]
		out, op := mutateAtSite(t, enc, s)
		return out, "mut:" + op
	}
	out := append([]byte{}, enc...)
	note := "mut"
	for k := rapid.IntRange(1, 3).Draw(t, "nmut"); k > 0; k-- {
		pos := 0
		if len(out) > 0 {
			pos = rapid.IntRange(0, len(out)-1).Draw(t, "pos")
		}
		switch op := rapid.IntRange(0, 5).Draw(t, "op"); {
		case len(out) == 0 || op == 0:
			out = append(out[:pos:pos], append([]byte{rapid.Byte().Draw(t, "ins")}, out[pos:]...)...)
			note += ":ins"
		case op == 1:
			out[pos] ^= 1 << uint(rapid.IntRange(0, 7).Draw(t, "bit"))
			note += ":flip"
		case op == 2:
			out[pos] = pick[byte](t, "set", 0, 0xff, 0x80, 1)
			note += ":set"
		case op == 3:
			out = out[:pos]
			note += ":trunc"
		case op == 4:
			out = append(out[:pos:pos], out[pos+1:]...)
			note += ":del"
		default:
			out = append(out, out[pos:]...)
			note += ":dup"
		}
	}
	return out, note
}

func genBytesCase(t *rapid.T) Case {
	c := Case{Type: genType(t)}
	n := rapid.IntRange(3, 6).Draw(t, "ntrials")
	for i := 0; i < n; i++ {
		in, note := genInput(t, &c.Type)
		c.Trials = append(c.Trials, Trial{Kind: "bytes", Note: note, Input: in, Dirty: rapid.IntRange(0, 3).Draw(t, "dirty") == 0})
	}
	return c
}
