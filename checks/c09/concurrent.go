package c09

import (
	"bytes"
	"fmt"
	"os"
	"reflect"
	"runtime"
	"sync"
	"sync/atomic"
	"testing"

	"github.com/google/certificate-transparency-go/tls"
	"pgregory.net/rapid"

	"verif/internal/harness"
)

// Concurrent first use. Marshal and Unmarshal keep no documented state, so callers use them from many
// goroutines; whatever the package remembers per TYPE (tag caches and the like) is first filled when a type is
// first seen. Each case therefore builds a type that this process has never handed to the package - the
// generated struct plus one salt field whose maxlen tag comes from a process-wide counter - and releases 4-8
// goroutines on it at the same instant, half of them marshalling, half unmarshalling, each with its own value
// / input. Every call is judged against the reference codec: same bytes, same accept/reject, same value, same
// rest, and no panic. Afterwards the same calls are repeated sequentially (the type is warm now) and must
// give the same answers.

type ConcCase struct {
	Type    Desc    `json:"type"`    // top-level struct; its last field is the salt field, whose maxlen is replaced at check time
	Workers []Trial `json:"workers"` // kind "value": Marshal V; kind "bytes": Unmarshal Input
}

var freshSalt atomic.Uint64

func genConc(t *rapid.T) ConcCase {
	g := &typeGen{budget: 28}
	c := ConcCase{Type: g.structDesc(t, 0, ctxTop)}
	// a few more plain fields widen the window in which a per-type structure is being filled
	for k := rapid.IntRange(0, 6).Draw(t, "extra"); k > 0; k-- {
		c.Type.Fields = append(c.Type.Fields, Field{D: g.desc(t, 3, ctxField)})
	}
	// the salt field: any maxlen in 70000..2^24-1 has a three-byte prefix, so values and inputs made for this
	// stand-in are values and inputs of the fresh type
	c.Type.Fields = append(c.Type.Fields, Field{D: Desc{K: KBytes, Min: 0, Max: 70000}})
	n := rapid.IntRange(4, 8).Draw(t, "workers")
	for i := 0; i < n; i++ {
		vg := &valGen{cap: 24}
		if i%2 == 0 {
			v := vg.val(t, &c.Type)
			c.Workers = append(c.Workers, Trial{Kind: "value", Note: "valid", V: &v})
		} else {
			in, note := genInput(t, &c.Type)
			c.Workers = append(c.Workers, Trial{Kind: "bytes", Note: note, Input: in})
		}
	}
	return c
}

type concResult struct {
	out []byte
	err error
	pan string
	dst reflect.Value
}

// checkConc runs the experiment on two fresh types per case (the outcome depends on the schedule); a replay
// repeats it 300 times so that a saved case has a fair chance to show the failure again.
func checkConc(t *testing.T, c ConcCase) (v harness.Verdict) {
	rounds := 2
	if os.Getenv("VERIF_REPLAY") != "" {
		rounds = 300
	}
	for r := 0; r < rounds; r++ {
		v = concRound(c)
		if v.Discard || len(v.Violations) > 0 {
			break
		}
	}
	return v
}

func concRound(c ConcCase) (v harness.Verdict) {
	nf := len(c.Type.Fields)
	if c.Type.K != KStruct || nf == 0 || c.Type.Fields[nf-1].D.K != KBytes || c.Type.Fields[nf-1].Arm ||
		c.Type.validate(ctxTop, 0) != nil || len(c.Workers) == 0 || len(c.Workers) > 64 {
		v.Discard = true
		return v
	}
	// the fresh type: same shape, the salt field becomes `[]byte minlen:0,maxlen:<never used before>`
	d := c.Type
	d.Fields = append([]Field{}, c.Type.Fields...)
	d.Fields[nf-1].D.Max = 70001 + freshSalt.Add(1)%(1<<24-70002)
	typ := d.goType()
	n := len(c.Workers)
	args := make([]any, n)
	ins := make([][]byte, n)
	bufs := make([][]byte, n)
	vals := make([]Val, n)
	res := make([]concResult, n)
	for i := range c.Workers {
		w := &c.Workers[i]
		if w.Kind == "value" {
			if w.V == nil || len(w.V.L) != nf {
				v.Discard = true
				return v
			}
			vals[i] = *w.V
			args[i] = toReflect(&d, &vals[i], typ).Interface()
		} else {
			ins[i] = w.Input
			bufs[i] = append([]byte{}, w.Input...)
			res[i].dst = reflect.New(typ)
			args[i] = res[i].dst.Interface()
		}
	}
	// barrier among the workers themselves: the last one to arrive releases all (no hand-over through the
	// scheduler between "everybody is ready" and "go")
	var arrived atomic.Int32
	var done sync.WaitGroup
	done.Add(n)
	for i := 0; i < n; i++ {
		go func(i int) {
			defer done.Done()
			arrived.Add(1)
			for spins := 0; arrived.Load() < int32(n); spins++ {
				if spins > 2000 {
					runtime.Gosched() // fewer processors than workers: let the others start
					spins = 0
				}
			}
			// straight into the package: no allocation measurement here (ReadMemStats stops the world and would
			// stagger the goroutines)
			r := &res[i]
			if c.Workers[i].Kind == "value" {
				r.pan = guarded(func() { r.out, r.err = tls.Marshal(args[i]) })
			} else {
				r.pan = guarded(func() { r.out, r.err = tls.Unmarshal(bufs[i], args[i]) })
			}
		}(i)
	}
	done.Wait()

	where := func(i int) string {
		return fmt.Sprintf("fresh type %s, worker %d of %d (%s)", &d, i, n, c.Workers[i].Note)
	}
	classes := map[string]bool{fmt.Sprintf("workers-%d", n): true}
	for i := range c.Workers {
		r := &res[i]
		if r.pan != "" {
			v.Failf("panic-concurrent-first-use", "%s: panicked when %d goroutines used the type for the first time at once: %s", where(i), n, r.pan)
			continue
		}
		if c.Workers[i].Kind == "value" {
			exp, _, _, expErr := refEnc(&d, &vals[i], quirks{})
			switch {
			case (expErr == nil) != (r.err == nil):
				v.Failf("concurrent-marshal-verdict", "%s: Marshal(%s) error %v, reference error %v", where(i), show(vals[i]), r.err, expErr)
			case expErr == nil && !bytes.Equal(exp, r.out):
				v.Failf("concurrent-marshal-bytes", "%s: Marshal(%s) = %s, want %s", where(i), show(vals[i]), hx(r.out), hx(exp))
			}
			if expErr == nil {
				classes["marshal-valid"] = true
			} else {
				classes["marshal-invalid"] = true
			}
			// the same call again, alone
			if again := callMarshal(args[i], "", false); again.pan != "" || (again.err == nil) != (r.err == nil) || !bytes.Equal(again.out, r.out) {
				v.Failf("concurrent-marshal-unstable", "%s: the same Marshal repeated alone gives %s / %v %s, concurrently it gave %s / %v", where(i), hx(again.out), again.err, again.pan, hx(r.out), r.err)
			}
			continue
		}
		exp, consumed, _, expErr := refDec(&d, ins[i], quirks{})
		if expErr == nil {
			classes["unmarshal-accept"] = true
		} else {
			classes["unmarshal-reject:"+category(expErr)] = true
		}
		switch {
		case (expErr == nil) != (r.err == nil):
			v.Failf("concurrent-unmarshal-verdict", "%s: Unmarshal(%s) error %v, reference error %v", where(i), hx(ins[i]), r.err, expErr)
		case expErr == nil:
			got := fromReflect(&d, r.dst.Elem())
			if !eqVal(&d, &got, &exp) {
				v.Failf("concurrent-unmarshal-value", "%s: Unmarshal(%s) = %s, want %s", where(i), hx(ins[i]), show(got), show(exp))
			} else if !bytes.Equal(r.out, ins[i][consumed:]) {
				v.Failf("concurrent-unmarshal-rest", "%s: Unmarshal(%s) rest %s, want %s", where(i), hx(ins[i]), hx(r.out), hx(ins[i][consumed:]))
			}
		}
	}
	v.NonTrivial = true
	for cl := range classes {
		v.Classes = append(v.Classes, cl)
	}
	seen := map[string]bool{}
	var vs []harness.Violation
	for _, x := range v.Violations {
		if !seen[x.Sig] {
			seen[x.Sig] = true
			vs = append(vs, x)
		}
	}
	v.Violations = vs
	return v
}

var Concurrent = harness.Define(harness.Opts{
	Name:  "concurrent",
	Rule:  "a generated top-level struct (the usual shapes, plus 0-6 extra scalar fields) made NEW to the process by one more field `[]byte minlen:0,maxlen:<process-wide counter>`; 4-8 goroutines are released on it at the same instant, the even ones marshalling a value each, the odd ones unmarshalling an input each (valid encodings, mutated encodings, raw bytes); every call is judged against the reference codec (bytes, accept/reject, value, rest, no panic) and each Marshal is repeated alone afterwards and must give the same answer. The race detector is NOT on (see level_note). Every case is non-trivial",
	Quick: 2500, Thorough: 4000, MaxSample: 900,
}, genConc, checkConc)
