// Package c09: the TLS presentation codec (/repo/tls) is a bijection on every supported type shape.
//
// The check quantifies over TYPES: a type is described by a Desc (plain data, part of the Case), realised
// as a Go type with reflect.StructOf carrying `tls:"..."` tags, and judged against a reference codec that
// works on descriptors only (ref.go, written from RFC 5246 section 4 and the package comment of tls.go).
package c09

import (
	"encoding/hex"
	"encoding/json"
	"fmt"
	"reflect"
	"strconv"
	"strings"

	"github.com/google/certificate-transparency-go/tls"
)

// Kinds of descriptor nodes.
const (
	KU8     = "u8"
	KU16    = "u16"
	KU24    = "u24"
	KU32    = "u32"
	KU64    = "u64"
	KEnum   = "enum"   // tls.Enum (or a named alias) with size:S or maxval:N
	KArray  = "array"  // [N]byte
	KBytes  = "bytes"  // []byte  `minlen:Min,maxlen:Max`
	KVec    = "vec"    // []Elem  `minlen:Min,maxlen:Max` (bounds in bytes, RFC 5246 s4.3)
	KStruct = "struct" // struct { Fields }
)

// Desc describes one TLS presentation-language type.
type Desc struct {
	K      string  `json:"k"`
	Alias  int     `json:"alias,omitempty"`  // enum: 0 tls.Enum, 1..2 named aliases; bytes: 1 = named []byte type
	Size   int     `json:"size,omitempty"`   // enum: size:S (0 => maxval form)
	MaxVal uint64  `json:"maxval,omitempty"` // enum: maxval:N
	N      int     `json:"n,omitempty"`      // array length
	Min    uint64  `json:"min,omitempty"`    // bytes / vec
	Max    uint64  `json:"max,omitempty"`    // bytes / vec
	TagRev bool    `json:"tagrev,omitempty"` // write maxlen before minlen in the tag
	Elem   *Desc   `json:"elem,omitempty"`   // vec element
	Ref    string  `json:"ref,omitempty"`    // K == "ref": name of a static type (static.go)
	Fields []Field `json:"fields,omitempty"` // struct
}

// Field is one struct member. An arm is a pointer field chosen by the value of an earlier enum field.
type Field struct {
	D   Desc   `json:"d"`
	Arm bool   `json:"arm,omitempty"`
	Sel int    `json:"sel,omitempty"` // arm: index of the selector field in the same struct
	Val uint64 `json:"val,omitempty"` // arm: selector value that chooses it
}

// Hex is a byte string rendered as hex in JSON (replay files stay readable).
type Hex []byte

func (h Hex) MarshalJSON() ([]byte, error) { return json.Marshal(hex.EncodeToString(h)) }
func (h *Hex) UnmarshalJSON(b []byte) error {
	var s string
	if err := json.Unmarshal(b, &s); err != nil {
		return err
	}
	d, err := hex.DecodeString(s)
	if err != nil {
		return err
	}
	*h = d
	return nil
}

// Val is a value of a described type.
type Val struct {
	U   uint64 `json:"u,omitempty"`   // integers, enums
	B   Hex    `json:"b,omitempty"`   // array / bytes content
	L   []Val  `json:"l,omitempty"`   // vec elements / struct fields (in field order)
	Nil bool   `json:"nil,omitempty"` // arm: pointer is nil; bytes/vec: Go slice is nil rather than empty
}

// widthFor is the number of bytes needed to hold values up to max (RFC 5246 s4.3 / s4.5).
func widthFor(max uint64) int {
	n := 1
	for max > 0xff {
		max >>= 8
		n++
	}
	return n
}

func (d *Desc) enumWidth() int {
	if d.Size != 0 {
		return d.Size
	}
	return widthFor(d.MaxVal)
}

func intWidth(k string) int {
	switch k {
	case KU8:
		return 1
	case KU16:
		return 2
	case KU24:
		return 3
	case KU32:
		return 4
	case KU64:
		return 8
	}
	return 0
}

// minWidth is the smallest number of bytes any value of d encodes to.
func (d *Desc) minWidth() uint64 {
	d = d.res()
	switch d.K {
	case KU8, KU16, KU24, KU32, KU64:
		return uint64(intWidth(d.K))
	case KEnum:
		return uint64(d.enumWidth())
	case KArray:
		return uint64(d.N)
	case KBytes, KVec:
		return uint64(widthFor(d.Max)) + d.Min
	case KStruct:
		var w uint64
		for i := range d.Fields {
			if d.Fields[i].Arm {
				continue // lower bound only
			}
			w += d.Fields[i].D.minWidth()
		}
		return w
	}
	return 0
}

// nodes counts descriptor nodes (used to scale the allocation bound).
func (d *Desc) nodes() int { return d.nodesN(1) }

// nodesN follows references to static types `follow` levels deep (recursive types are cyclic).
func (d *Desc) nodesN(follow int) int {
	if d.K == KRef {
		if follow == 0 {
			return 1
		}
		return d.res().nodesN(follow - 1)
	}
	n := 1
	if d.Elem != nil {
		n += d.Elem.nodesN(follow)
	}
	for i := range d.Fields {
		n += d.Fields[i].D.nodesN(follow)
	}
	return n
}

// validate says whether d lies in the supported domain of the property (DESIGN.md C09): the documented tag
// grammar, no zero-width vector elements, no maxlen:0, no badly annotated variants.
func (d *Desc) validate(ctx int, depth int) error {
	if d.K == KRef {
		if staticByName(d.Ref) == nil {
			return fmt.Errorf("unknown static type %q", d.Ref)
		}
		return nil // static types are declared inside the domain
	}
	if depth > 6 {
		return fmt.Errorf("too deep")
	}
	switch d.K {
	case KU8, KU16, KU24, KU32, KU64:
		return nil
	case KEnum:
		if ctx == ctxElem || ctx == ctxArm {
			return fmt.Errorf("enum needs its own tag")
		}
		if d.Size < 0 || d.Size > 8 || d.Alias < 0 || d.Alias > 2 {
			return fmt.Errorf("enum size/alias")
		}
		return nil
	case KArray:
		if d.N < 0 || d.N > 4096 {
			return fmt.Errorf("array length")
		}
		if ctx == ctxElem && d.N == 0 {
			return fmt.Errorf("zero-width element")
		}
		return nil
	case KBytes, KVec:
		if ctx == ctxElem {
			return fmt.Errorf("vector directly inside vector needs a wrapper struct")
		}
		if d.Max == 0 || d.Min > d.Max {
			return fmt.Errorf("bad bounds")
		}
		if d.K == KVec {
			if d.Elem == nil {
				return fmt.Errorf("vec without element")
			}
			if err := d.Elem.validate(ctxElem, depth+1); err != nil {
				return err
			}
			if d.Elem.minWidth() == 0 {
				return fmt.Errorf("zero-width element")
			}
		}
		return nil
	case KStruct:
		// 40 fields per nested struct; the top-level struct may be wide (sub-property wide: 65-84 fields, so
		// that field positions beyond a machine word are exercised)
		if len(d.Fields) > 40 && (depth > 0 || len(d.Fields) > 100) {
			return fmt.Errorf("too many fields")
		}
		seen := map[[2]uint64]bool{}
		for i := range d.Fields {
			f := &d.Fields[i]
			c := ctxField
			if f.Arm {
				c = ctxArm
				if f.Sel < 0 || f.Sel >= i || d.Fields[f.Sel].Arm || d.Fields[f.Sel].D.K != KEnum {
					return fmt.Errorf("arm without earlier selector")
				}
				k := [2]uint64{uint64(f.Sel), f.Val}
				if seen[k] {
					return fmt.Errorf("duplicate arm value")
				}
				seen[k] = true
			}
			if err := f.D.validate(c, depth+1); err != nil {
				return err
			}
		}
		return nil
	}
	return fmt.Errorf("unknown kind %q", d.K)
}

const (
	ctxTop = iota
	ctxField
	ctxElem
	ctxArm
)

// Named types a library user could define (the package comment: "users can alias types of their own to Enum").
type (
	EnumA  tls.Enum
	EnumB  tls.Enum
	BytesA []byte
)

var (
	tU8     = reflect.TypeOf(uint8(0))
	tU16    = reflect.TypeOf(uint16(0))
	tU24    = reflect.TypeOf(tls.Uint24(0))
	tU32    = reflect.TypeOf(uint32(0))
	tU64    = reflect.TypeOf(uint64(0))
	tEnums  = []reflect.Type{reflect.TypeOf(tls.Enum(0)), reflect.TypeOf(EnumA(0)), reflect.TypeOf(EnumB(0))}
	tBytes  = reflect.TypeOf([]byte(nil))
	tBytesA = reflect.TypeOf(BytesA(nil))
)

// tag renders the tls tag text of d (without the selector part).
func (d *Desc) tag() string {
	switch d.K {
	case KEnum:
		if d.Size != 0 {
			return "size:" + strconv.Itoa(d.Size)
		}
		return "maxval:" + strconv.FormatUint(d.MaxVal, 10)
	case KBytes, KVec:
		mn, mx := "minlen:"+strconv.FormatUint(d.Min, 10), "maxlen:"+strconv.FormatUint(d.Max, 10)
		if d.TagRev {
			return mx + "," + mn
		}
		return mn + "," + mx
	}
	return ""
}

// goType realises d as a Go type.
func (d *Desc) goType() reflect.Type {
	switch d.K {
	case KRef:
		return staticByName(d.Ref).Type
	case KU8:
		return tU8
	case KU16:
		return tU16
	case KU24:
		return tU24
	case KU32:
		return tU32
	case KU64:
		return tU64
	case KEnum:
		return tEnums[d.Alias%len(tEnums)]
	case KArray:
		return reflect.ArrayOf(d.N, tU8)
	case KBytes:
		if d.Alias == 1 {
			return tBytesA
		}
		return tBytes
	case KVec:
		return reflect.SliceOf(d.Elem.goType())
	case KStruct:
		fs := make([]reflect.StructField, len(d.Fields))
		for i := range d.Fields {
			f := &d.Fields[i]
			ft := f.D.goType()
			tg := f.D.tag()
			if f.Arm {
				ft = reflect.PointerTo(ft)
				sel := "selector:F" + strconv.Itoa(f.Sel) + ",val:" + strconv.FormatUint(f.Val, 10)
				if tg != "" {
					tg = sel + "," + tg
				} else {
					tg = sel
				}
			}
			fs[i] = reflect.StructField{Name: "F" + strconv.Itoa(i), Type: ft}
			if tg != "" {
				fs[i].Tag = reflect.StructTag(`tls:"` + tg + `"`)
			}
		}
		return reflect.StructOf(fs)
	}
	panic("goType: unknown kind " + d.K)
}

// String renders the type in (roughly) Go syntax for messages.
func (d *Desc) String() string {
	switch d.K {
	case KRef:
		return d.Ref
	case KEnum:
		return fmt.Sprintf("Enum%s`%s`", []string{"", "A", "B"}[d.Alias%3], d.tag())
	case KArray:
		return fmt.Sprintf("[%d]byte", d.N)
	case KBytes:
		return "[]byte`" + d.tag() + "`"
	case KVec:
		return "[]" + d.Elem.String() + "`" + d.tag() + "`"
	case KStruct:
		var sb strings.Builder
		sb.WriteString("struct{")
		for i := range d.Fields {
			f := &d.Fields[i]
			if i > 0 {
				sb.WriteString("; ")
			}
			fmt.Fprintf(&sb, "F%d ", i)
			if f.Arm {
				fmt.Fprintf(&sb, "*(sel F%d=%d)", f.Sel, f.Val)
			}
			sb.WriteString(f.D.String())
		}
		sb.WriteString("}")
		return sb.String()
	}
	return d.K
}

// toReflect builds the Go value of type t (= d.goType()) that v denotes. It never validates: invalid values
// (wrong lengths, over-wide enums, wrong arms) must be representable so that Marshal can refuse them.
func toReflect(d *Desc, v *Val, t reflect.Type) reflect.Value {
	d = d.res()
	rv := reflect.New(t).Elem()
	switch d.K {
	case KU8, KU16, KU24, KU32, KU64, KEnum:
		rv.SetUint(v.U)
	case KArray:
		reflect.Copy(rv, reflect.ValueOf([]byte(v.B)))
	case KBytes:
		if len(v.B) == 0 && v.Nil {
			return rv // nil slice
		}
		s := reflect.MakeSlice(t, len(v.B), len(v.B))
		reflect.Copy(s, reflect.ValueOf([]byte(v.B)))
		rv.Set(s)
	case KVec:
		if len(v.L) == 0 && v.Nil {
			return rv
		}
		s := reflect.MakeSlice(t, len(v.L), len(v.L))
		for i := range v.L {
			s.Index(i).Set(toReflect(d.Elem, &v.L[i], t.Elem()))
		}
		rv.Set(s)
	case KStruct:
		for i := range d.Fields {
			if i >= len(v.L) {
				break
			}
			f := &d.Fields[i]
			ft := t.Field(i).Type
			if f.Arm {
				if v.L[i].Nil {
					continue
				}
				p := reflect.New(ft.Elem())
				p.Elem().Set(toReflect(&f.D, &v.L[i], ft.Elem()))
				rv.Field(i).Set(p)
				continue
			}
			rv.Field(i).Set(toReflect(&f.D, &v.L[i], ft))
		}
	}
	return rv
}

// fromReflect reads a Go value back into the neutral Val form (nil and empty slices are the same value).
func fromReflect(d *Desc, rv reflect.Value) Val {
	d = d.res()
	var v Val
	switch d.K {
	case KU8, KU16, KU24, KU32, KU64, KEnum:
		v.U = rv.Uint()
	case KArray:
		b := make([]byte, rv.Len())
		reflect.Copy(reflect.ValueOf(b), rv)
		v.B = b
	case KBytes:
		if rv.Len() > 0 {
			b := make([]byte, rv.Len())
			reflect.Copy(reflect.ValueOf(b), rv)
			v.B = b
		}
	case KVec:
		for i := 0; i < rv.Len(); i++ {
			v.L = append(v.L, fromReflect(d.Elem, rv.Index(i)))
		}
	case KStruct:
		v.L = make([]Val, len(d.Fields))
		for i := range d.Fields {
			f := &d.Fields[i]
			fv := rv.Field(i)
			if f.Arm {
				if fv.IsNil() {
					v.L[i] = Val{Nil: true}
					continue
				}
				fv = fv.Elem()
			}
			v.L[i] = fromReflect(&f.D, fv)
		}
	}
	return v
}

// eqVal compares two values of type d structurally (slice nil-ness is not part of the value).
func eqVal(d *Desc, a, b *Val) bool {
	d = d.res()
	switch d.K {
	case KU8, KU16, KU24, KU32, KU64, KEnum:
		return a.U == b.U
	case KArray, KBytes:
		return string(a.B) == string(b.B)
	case KVec:
		if len(a.L) != len(b.L) {
			return false
		}
		for i := range a.L {
			if !eqVal(d.Elem, &a.L[i], &b.L[i]) {
				return false
			}
		}
		return true
	case KStruct:
		if len(a.L) != len(d.Fields) || len(b.L) != len(d.Fields) {
			return false
		}
		for i := range d.Fields {
			f := &d.Fields[i]
			if f.Arm {
				if a.L[i].Nil != b.L[i].Nil {
					return false
				}
				if a.L[i].Nil {
					continue
				}
			}
			if !eqVal(&f.D, &a.L[i], &b.L[i]) {
				return false
			}
		}
		return true
	}
	return false
}

// show renders a value compactly for messages.
func show(v any) string {
	b, _ := json.Marshal(v)
	if len(b) > 600 {
		return string(b[:600]) + "..."
	}
	return string(b)
}

func hx(b []byte) string {
	if len(b) > 200 {
		return hex.EncodeToString(b[:200]) + fmt.Sprintf("...(%d bytes)", len(b))
	}
	return hex.EncodeToString(b)
}
