package c09

import (
	"bytes"
	"encoding/hex"
	"reflect"
	"strconv"
	"testing"

	"verif/internal/rfc6962"
)

// selfTest validates the reference codec itself against hand-computed vectors taken from the RFC 5246 s4
// text and against the independently written RFC 6962 encoders of internal/rfc6962. It never touches the
// package under test. A failure here is a harness problem (reported as inconclusive by the driver).
func selfTest(t *testing.T) {
	u16 := Desc{K: KU16}
	vectors := []struct {
		name string
		d    Desc
		v    Val
		hex  string // "" => the value is invalid
	}{
		// s4.3: "uint16 longer<0..800>; /* zero to 400 16-bit unsigned integers */" - two-byte length, in bytes
		{"longer<0..800>", Desc{K: KVec, Min: 0, Max: 800, Elem: &u16}, Val{L: []Val{{U: 1}, {U: 0x0203}}}, "000400010203"},
		// s4.3: "opaque mandatory<300..400>; /* length field is 2 bytes, cannot be empty */"
		{"mandatory<300..400> empty", Desc{K: KBytes, Min: 300, Max: 400}, Val{}, ""},
		{"mandatory<300..400> 300", Desc{K: KBytes, Min: 300, Max: 400}, Val{B: bytes.Repeat([]byte{7}, 300)}, "012c" + hex.EncodeToString(bytes.Repeat([]byte{7}, 300))},
		// s4.3: a one-byte length for <0..255>, three bytes for <0..2^24-1>
		{"opaque<0..255>", Desc{K: KBytes, Max: 255}, Val{B: Hex{0xaa}}, "01aa"},
		{"opaque<0..256>", Desc{K: KBytes, Max: 256}, Val{B: Hex{0xaa}}, "0001aa"},
		{"opaque<1..2^24-1>", Desc{K: KBytes, Min: 1, Max: 1<<24 - 1}, Val{B: Hex{0xaa, 0xbb}}, "000002aabb"},
		{"opaque<0..2^24>", Desc{K: KBytes, Max: 1 << 24}, Val{B: Hex{0xaa}}, "00000001aa"},
		{"opaque<0..2^64-1>", Desc{K: KBytes, Max: 1<<64 - 1}, Val{B: Hex{0xaa}}, "0000000000000001aa"},
		// s4.4: "uint8 uint24[3]" big-endian
		{"uint24", Desc{K: KU24}, Val{U: 0x010203}, "010203"},
		{"uint24 overflow", Desc{K: KU24}, Val{U: 0x1000000}, ""},
		{"uint64", Desc{K: KU64}, Val{U: 0x0102030405060708}, "0102030405060708"},
		// s4.5: "enum { red(3), blue(5), white(7) } Color;" one byte; "enum { sweet(1), sour(2), bitter(4), (32000) } Taste;" two bytes
		{"Color", Desc{K: KEnum, MaxVal: 7}, Val{U: 5}, "05"},
		{"Taste", Desc{K: KEnum, MaxVal: 32000}, Val{U: 4}, "0004"},
		{"enum size:8", Desc{K: KEnum, Size: 8}, Val{U: 0xf1e2d3c4b5a69788}, "f1e2d3c4b5a69788"},
		{"enum size:3 too wide", Desc{K: KEnum, Size: 3}, Val{U: 1 << 24}, ""},
		// s4.6.1 variant as in the package comment: Sel enum maxval:2; case 1: uint16; case 2: uint32
		{"VariantItem e1", variantItem, Val{L: []Val{{U: 1}, {U: 0x1234}, {Nil: true}}}, "011234"},
		{"VariantItem e2", variantItem, Val{L: []Val{{U: 2}, {Nil: true}, {U: 0x12345678}}}, "0212345678"},
		{"VariantItem no arm", variantItem, Val{L: []Val{{U: 0}, {Nil: true}, {Nil: true}}}, ""},
		{"VariantItem both", variantItem, Val{L: []Val{{U: 1}, {U: 1}, {U: 2}}}, ""},
		{"VariantItem chosen nil", variantItem, Val{L: []Val{{U: 1}, {Nil: true}, {Nil: true}}}, ""},
		// the D1 shape: a uint24 behind another field
		{"u8+u24", Desc{K: KStruct, Fields: []Field{{D: Desc{K: KU8}}, {D: Desc{K: KU24}}}}, Val{L: []Val{{U: 7}, {U: 0x010203}}}, "07010203"},
	}
	for _, tc := range vectors {
		got, _, _, err := refEnc(&tc.d, &tc.v, quirks{})
		if tc.hex == "" {
			if err == nil {
				t.Fatalf("selftest %s: reference encoder accepted an invalid value", tc.name)
			}
			continue
		}
		if err != nil || hex.EncodeToString(got) != tc.hex {
			t.Fatalf("selftest %s: refEnc = %x, %v; want %s", tc.name, got, err, tc.hex)
		}
		in := append(got, 0xee)
		dv, n, _, err := refDec(&tc.d, in, quirks{})
		if err != nil || n != len(got) || !eqVal(&tc.d, &dv, &tc.v) {
			t.Fatalf("selftest %s: refDec = %s, %d, %v", tc.name, show(dv), n, err)
		}
		for cut := 0; cut < len(got); cut++ {
			if _, _, _, err := refDec(&tc.d, got[:cut], quirks{}); err == nil {
				t.Fatalf("selftest %s: refDec accepted a truncation to %d bytes", tc.name, cut)
			}
		}
	}
	for _, bad := range []struct {
		name string
		d    Desc
		hex  string
	}{
		{"length above max", Desc{K: KBytes, Min: 2, Max: 4}, "050102030405"},
		{"length below min", Desc{K: KBytes, Min: 2, Max: 4}, "0101"},
		{"partial element", Desc{K: KVec, Min: 0, Max: 800, Elem: &u16}, "0003000102"},
		{"unknown selector", variantItem, "001234"},
	} {
		b, _ := hex.DecodeString(bad.hex)
		if _, _, _, err := refDec(&bad.d, b, quirks{}); err == nil {
			t.Fatalf("selftest %s: reference decoder accepted %s", bad.name, bad.hex)
		}
	}
	// the defect models: D1 turns {7, 0x010203} into {7, 0x070102}; D2 refuses 8-byte enums
	d1 := Desc{K: KStruct, Fields: []Field{{D: Desc{K: KU8}}, {D: Desc{K: KU24}}}}
	if v, _, _, err := refDec(&d1, []byte{7, 1, 2, 3}, quirks{D1: true}); err != nil || v.L[1].U != 0x070102 {
		t.Fatalf("selftest: D1 model wrong: %s %v", show(v), err)
	}
	d2 := Desc{K: KEnum, Size: 8}
	if _, _, _, err := refEnc(&d2, &Val{U: 1}, quirks{D2: true}); err == nil {
		t.Fatalf("selftest: D2 model wrong")
	}

	// RFC 6962 MerkleTreeLeaf against internal/rfc6962
	var kh [32]byte
	for i := range kh {
		kh[i] = byte(0xc0 + i)
	}
	leaves := []struct {
		l rfc6962.Leaf
		v Val
	}{
		{rfc6962.Leaf{Timestamp: 0x0102030405060708, Entry: rfc6962.Entry{Type: rfc6962.X509Entry, Cert: []byte{0x30, 0x03, 1, 2, 3}}, Extensions: []byte{9, 9}},
			Val{L: []Val{{U: 0}, {U: 0}, {L: []Val{{U: 0x0102030405060708}, {U: 0}, {L: []Val{{B: Hex{0x30, 0x03, 1, 2, 3}}}}, {Nil: true}, {B: Hex{9, 9}}}}}}},
		{rfc6962.Leaf{Timestamp: 77, Entry: rfc6962.Entry{Type: rfc6962.PrecertEntry, IssuerKeyHash: kh, TBS: []byte{0x30, 0x00}}},
			Val{L: []Val{{U: 0}, {U: 0}, {L: []Val{{U: 77}, {U: 1}, {Nil: true}, {L: []Val{{B: kh[:]}, {B: Hex{0x30, 0x00}}}}, {}}}}}},
	}
	for i, lc := range leaves {
		want, err := rfc6962.EncodeLeaf(lc.l)
		if err != nil {
			t.Fatalf("selftest leaf %d: %v", i, err)
		}
		got, _, _, err := refEnc(&merkleTreeLeaf, &lc.v, quirks{})
		if err != nil || !bytes.Equal(got, want) {
			t.Fatalf("selftest leaf %d: refEnc = %x, %v; rfc6962 = %x", i, got, err, want)
		}
		dv, n, _, err := refDec(&merkleTreeLeaf, want, quirks{})
		if err != nil || n != len(want) || !eqVal(&merkleTreeLeaf, &dv, &lc.v) {
			t.Fatalf("selftest leaf %d: refDec = %s, %d, %v", i, show(dv), n, err)
		}
	}
	// the hand-written descriptors of the static types must describe the declared Go types
	for i := range staticTypes {
		s := &staticTypes[i]
		if s.Type.Kind() != reflect.Struct || s.Type.NumField() != len(s.Desc.Fields) {
			t.Fatalf("selftest: static type %s: descriptor has %d fields, Go type %s", s.Name, len(s.Desc.Fields), s.Type)
		}
		for j := range s.Desc.Fields {
			f, gf := &s.Desc.Fields[j], s.Type.Field(j)
			wantTag, wantType := f.D.tag(), gf.Type
			if f.Arm {
				sel := "selector:" + s.Type.Field(f.Sel).Name + ",val:" + strconv.FormatUint(f.Val, 10)
				if wantTag != "" {
					sel += "," + wantTag
				}
				wantTag = sel
				if gf.Type.Kind() != reflect.Ptr {
					t.Fatalf("selftest: static type %s field %s: arm is not a pointer", s.Name, gf.Name)
				}
				wantType = gf.Type.Elem()
			}
			if gf.Tag.Get("tls") != wantTag {
				t.Fatalf("selftest: static type %s field %s: tag %q, descriptor says %q", s.Name, gf.Name, gf.Tag.Get("tls"), wantTag)
			}
			if got := f.D.goType(); got != wantType {
				t.Fatalf("selftest: static type %s field %s: Go type %s, descriptor says %s", s.Name, gf.Name, wantType, got)
			}
		}
		z := zeroVal(&s.Desc)
		if b, _, _, err := refEnc(&s.Desc, &z, quirks{}); err != nil {
			t.Fatalf("selftest: static type %s: zero value does not encode: %v (%x)", s.Name, err, b)
		}
	}
	for _, d := range []*Desc{&variantItem, &merkleTreeLeaf, &digitallySigned} {
		if err := d.validate(ctxTop, 0); err != nil {
			t.Fatalf("selftest: %s does not validate: %v", d, err)
		}
	}
}

// The VariantItem example of the package comment of tls.go.
var variantItem = Desc{K: KStruct, Fields: []Field{
	{D: Desc{K: KEnum, MaxVal: 2}},
	{D: Desc{K: KU16}, Arm: true, Sel: 0, Val: 1},
	{D: Desc{K: KU32}, Arm: true, Sel: 0, Val: 2},
}}

// RFC 5246 s4.7 DigitallySigned with the algorithm octets of s7.4.1.4.1.
var digitallySigned = Desc{K: KStruct, Fields: []Field{
	{D: Desc{K: KStruct, Fields: []Field{{D: Desc{K: KEnum, MaxVal: 255, Alias: 1}}, {D: Desc{K: KEnum, MaxVal: 255, Alias: 2}}}}},
	{D: Desc{K: KBytes, Min: 0, Max: 65535}},
}}

// RFC 6962 s3.4 MerkleTreeLeaf (the shape of ct.MerkleTreeLeaf).
var merkleTreeLeaf = Desc{K: KStruct, Fields: []Field{
	{D: Desc{K: KEnum, MaxVal: 255}},
	{D: Desc{K: KEnum, MaxVal: 255}},
	{Arm: true, Sel: 1, Val: 0, D: Desc{K: KStruct, Fields: []Field{
		{D: Desc{K: KU64}},
		{D: Desc{K: KEnum, MaxVal: 65535}},
		{Arm: true, Sel: 1, Val: 0, D: Desc{K: KStruct, Fields: []Field{{D: Desc{K: KBytes, Min: 1, Max: 16777215}}}}},
		{Arm: true, Sel: 1, Val: 1, D: Desc{K: KStruct, Fields: []Field{{D: Desc{K: KArray, N: 32}}, {D: Desc{K: KBytes, Min: 1, Max: 16777215}}}}},
		{D: Desc{K: KBytes, Min: 0, Max: 65535, Alias: 1}},
	}}},
}}
