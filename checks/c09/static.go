package c09

import (
	"reflect"

	"github.com/google/certificate-transparency-go/tls"
)

// Statically declared types. reflect.StructOf can only build UNNAMED, NON-RECURSIVE struct types, so two
// families of supported type shapes need declared Go types:
//
//   - named types, including several DISTINCT types that share one qualified name (function-local `type record`
//     in different functions): the codec of a type must depend on the type, not on which other type of the same
//     name was coded earlier in the process;
//   - self-referential types (a linked list through a variant pointer placed after its selector, a tree through
//     a vector of itself, mutually recursive expression nodes): "nesting depth" decided by the data.
//
// Each comes with a hand-written descriptor; KRef nodes name another static type and close the cycles.

// KRef is a descriptor node that stands for a static type (by name).
const KRef = "ref"

type staticType struct {
	Name  string
	Group string // "record" (same-named local types), "named", "recursive"
	Desc  Desc
	Type  reflect.Type
}

func enumSize(n int) Desc        { return Desc{K: KEnum, Size: n} }
func bytesOf(mn, mx uint64) Desc { return Desc{K: KBytes, Min: mn, Max: mx} }
func arm(sel int, val uint64, d Desc) Field {
	return Field{D: d, Arm: true, Sel: sel, Val: val}
}
func st(fs ...Field) Desc { return Desc{K: KStruct, Fields: fs} }
func fld(d Desc) Field    { return Field{D: d} }

// Five distinct struct types, every one of them called c09.record.
func recordA() reflect.Type {
	type record struct {
		Kind tls.Enum `tls:"size:1"`
		Body []byte   `tls:"minlen:0,maxlen:255"`
		N    uint16
	}
	return reflect.TypeOf(record{})
}
func recordB() reflect.Type {
	type record struct {
		Kind tls.Enum `tls:"size:2"`
		Body []byte   `tls:"minlen:0,maxlen:65535"`
		N    uint16
	}
	return reflect.TypeOf(record{})
}
func recordC() reflect.Type {
	type record struct {
		Kind tls.Enum `tls:"maxval:16777215"`
		Body []byte   `tls:"minlen:2,maxlen:16777215"`
		N    tls.Uint24
	}
	return reflect.TypeOf(record{})
}
func recordD() reflect.Type {
	type record struct {
		Kind tls.Enum `tls:"size:1"`
		A    *uint16  `tls:"selector:Kind,val:0"`
		B    *uint32  `tls:"selector:Kind,val:1"`
		Tail []uint16 `tls:"minlen:0,maxlen:8"`
		Last uint8
	}
	return reflect.TypeOf(record{})
}
func recordE() reflect.Type {
	type record struct {
		Kind tls.Enum `tls:"size:1"`
		A    *uint16  `tls:"selector:Kind,val:1"`
		B    *uint32  `tls:"selector:Kind,val:2"`
	}
	return reflect.TypeOf(record{})
}

// Package-level named types.
type namedInner struct {
	Val []byte `tls:"minlen:1,maxlen:300"`
}
type namedOuter struct {
	Ver    EnumA        `tls:"maxval:255"`
	Inners []namedInner `tls:"minlen:0,maxlen:65535"`
	Stamp  uint64
	Len    tls.Uint24
}

// A TLS linked list: the variant pointer after its selector points back at the enclosing struct.
type listNode struct {
	Val  uint16
	More tls.Enum  `tls:"size:1"`
	End  *[0]byte  `tls:"selector:More,val:0"`
	Next *listNode `tls:"selector:More,val:1"`
}

// A tree through a vector of itself.
type treeNode struct {
	Tag  uint8
	Kids []treeNode `tls:"minlen:0,maxlen:65535"`
}

// Mutually recursive expression nodes.
type exprNode struct {
	Op  tls.Enum    `tls:"maxval:2"`
	Lit *tls.Uint24 `tls:"selector:Op,val:0"`
	Neg *exprNode   `tls:"selector:Op,val:1"`
	Bin *exprPair   `tls:"selector:Op,val:2"`
}
type exprPair struct {
	L, R exprNode
}

var staticTypes = []staticType{
	{"recordA", "record", st(fld(enumSize(1)), fld(bytesOf(0, 255)), fld(Desc{K: KU16})), recordA()},
	{"recordB", "record", st(fld(enumSize(2)), fld(bytesOf(0, 65535)), fld(Desc{K: KU16})), recordB()},
	{"recordC", "record", st(fld(Desc{K: KEnum, MaxVal: 16777215}), fld(bytesOf(2, 16777215)), fld(Desc{K: KU24})), recordC()},
	{"recordD", "record", st(fld(enumSize(1)), arm(0, 0, Desc{K: KU16}), arm(0, 1, Desc{K: KU32}), fld(Desc{K: KVec, Min: 0, Max: 8, Elem: &Desc{K: KU16}}), fld(Desc{K: KU8})), recordD()},
	{"recordE", "record", st(fld(enumSize(1)), arm(0, 1, Desc{K: KU16}), arm(0, 2, Desc{K: KU32})), recordE()},
	{"namedInner", "named", st(fld(bytesOf(1, 300))), reflect.TypeOf(namedInner{})},
	{"namedOuter", "named", st(fld(Desc{K: KEnum, MaxVal: 255, Alias: 1}), fld(Desc{K: KVec, Min: 0, Max: 65535, Elem: &Desc{K: KRef, Ref: "namedInner"}}), fld(Desc{K: KU64}), fld(Desc{K: KU24})), reflect.TypeOf(namedOuter{})},
	{"listNode", "recursive", st(fld(Desc{K: KU16}), fld(enumSize(1)), arm(1, 0, Desc{K: KArray, N: 0}), arm(1, 1, Desc{K: KRef, Ref: "listNode"})), reflect.TypeOf(listNode{})},
	{"treeNode", "recursive", st(fld(Desc{K: KU8}), fld(Desc{K: KVec, Min: 0, Max: 65535, Elem: &Desc{K: KRef, Ref: "treeNode"}})), reflect.TypeOf(treeNode{})},
	{"exprNode", "recursive", st(fld(Desc{K: KEnum, MaxVal: 2}), arm(0, 0, Desc{K: KU24}), arm(0, 1, Desc{K: KRef, Ref: "exprNode"}), arm(0, 2, Desc{K: KRef, Ref: "exprPair"})), reflect.TypeOf(exprNode{})},
	{"exprPair", "recursive", st(fld(Desc{K: KRef, Ref: "exprNode"}), fld(Desc{K: KRef, Ref: "exprNode"})), reflect.TypeOf(exprPair{})},
}

func staticByName(name string) *staticType {
	for i := range staticTypes {
		if staticTypes[i].Name == name {
			return &staticTypes[i]
		}
	}
	return nil
}

func staticGroup(group string) []string {
	var out []string
	for i := range staticTypes {
		if staticTypes[i].Group == group {
			out = append(out, staticTypes[i].Name)
		}
	}
	return out
}

// res resolves a KRef node to the descriptor of the static type it names.
func (d *Desc) res() *Desc {
	for d.K == KRef {
		s := staticByName(d.Ref)
		if s == nil {
			return &Desc{K: "unknown-ref:" + d.Ref}
		}
		d = &s.Desc
	}
	return d
}

// hasRef reports whether d contains a KRef node (without following it).
func (d *Desc) hasRef() bool {
	if d.K == KRef {
		return true
	}
	if d.Elem != nil && d.Elem.hasRef() {
		return true
	}
	for i := range d.Fields {
		if d.Fields[i].D.hasRef() {
			return true
		}
	}
	return false
}
