package c09

import (
	"encoding/hex"
	"encoding/json"
	"os"
	"path/filepath"
	"reflect"
	"testing"

	"verif/internal/rfc6962"
)

// Native fuzz target. The first argument selects the TYPE (and a value of it) through the small total decoder
// below - every byte string denotes a descriptor inside the domain - the second argument is the raw input for
// Unmarshal. The oracle is the same checkCase as in the rapid properties.

type rd struct {
	b []byte
	i int
}

func (r *rd) u8() byte {
	if r.i >= len(r.b) {
		return 0
	}
	x := r.b[r.i]
	r.i++
	return x
}

var (
	fzKinds    = []string{KU8, KU16, KU24, KU32, KU64, KEnum, KArray, KBytes, KVec, KStruct}
	fzMaxVals  = append([]uint64{0, 1, 2, 7, 127, 254, 300, 32000}, widthEdges...)
	fzMaxLens  = append([]uint64{1, 2, 3, 4, 5, 6, 7, 8, 9, 10, 12, 16, 20, 32, 40, 100, 255, 256, 300, 65535, 65536, 70000}, widthEdges...)
	fzArmVals  = []uint64{0, 1, 2, 3, 4, 5, 0x7f, 0x80, 0xff, 0x100, 0x8000, 0xffff, 0x10000, 1<<64 - 1}
	fzMaxNodes = 40
)

type fzDec struct {
	r      *rd
	budget int
}

func (z *fzDec) desc(depth, ctx int) Desc {
	z.budget--
	b := z.r.u8()
	k := fzKinds[int(b&0x0f)%len(fzKinds)]
	if (depth >= 3 || z.budget <= 0) && (k == KVec || k == KStruct) {
		k = KU8
	}
	if ctx == ctxElem && (k == KBytes || k == KVec || k == KEnum) {
		k = KU16
	}
	if ctx == ctxArm && k == KEnum {
		k = KU32
	}
	switch k {
	case KEnum:
		e := z.r.u8()
		d := Desc{K: KEnum, Alias: int(e>>6) % 3}
		if e&0x20 != 0 {
			d.Size = 1 + int(e&7)
		} else {
			d.MaxVal = fzMaxVals[int(z.r.u8())%len(fzMaxVals)]
		}
		return d
	case KArray:
		b := z.r.u8()
		n := int(b) % 41
		if ctx == ctxElem && n == 0 {
			n = 1
		}
		if ctx == ctxElem && b >= 0xf8 {
			n = []int{256, 512, 1024, 4096}[b&3] // large fixed-size vector elements
		}
		return Desc{K: KArray, N: n}
	case KBytes, KVec:
		d := Desc{K: k}
		d.Max = fzMaxLens[int(z.r.u8())%len(fzMaxLens)]
		y := z.r.u8()
		d.Min = uint64(y & 0x3f)
		if d.Min > d.Max {
			d.Min = d.Max
		}
		if y&0x40 != 0 && d.Max <= 300 {
			d.Min = d.Max
		}
		d.TagRev = y&0x80 != 0
		if k == KBytes {
			d.Alias = int(b>>4) & 1
			return d
		}
		e := z.desc(depth+1, ctxElem)
		if e.minWidth() == 0 {
			e = Desc{K: KStruct, Fields: []Field{{D: Desc{K: KU8}}, {D: e}}}
		}
		d.Elem = &e
		return d
	case KStruct:
		d := Desc{K: KStruct}
		nf := int(z.r.u8()) % 10
		for i := 0; i < nf && z.budget > 0; i++ {
			a := z.r.u8()
			f := Field{}
			if a&0x80 != 0 {
				var sels []int
				for j := range d.Fields {
					if !d.Fields[j].Arm && d.Fields[j].D.K == KEnum {
						sels = append(sels, j)
					}
				}
				if len(sels) > 0 {
					f.Arm, f.Sel = true, sels[int(a>>4&7)%len(sels)]
					f.Val = fzArmVals[int(z.r.u8())%len(fzArmVals)]
					if hi := widthMax(d.Fields[f.Sel].D.enumWidth()); f.Val > hi {
						f.Val = hi
					}
					for _, av := range d.armsOf(f.Sel) {
						if av == f.Val {
							f = Field{} // duplicate arm value: badly annotated, outside the domain
							break
						}
					}
				}
			}
			c := ctxField
			if f.Arm {
				c = ctxArm
			}
			f.D = z.desc(depth+1, c)
			d.Fields = append(d.Fields, f)
		}
		return d
	}
	return Desc{K: k}
}

func (z *fzDec) val(d *Desc) Val {
	r := z.r
	switch d.K {
	case KU8, KU16, KU24, KU32, KU64, KEnum:
		w := intWidth(d.K)
		if d.K == KEnum {
			w = d.enumWidth()
		}
		var u uint64
		for i := 0; i < w; i++ {
			u = u<<8 | uint64(r.u8())
		}
		if d.K == KU24 && u == 0xfffffe {
			u = 0x1000000 // reachable invalid value
		}
		if d.K == KEnum && w < 8 && u == widthMax(w)-1 && r.u8() == 0xff {
			u = widthMax(w) + 1 // enum wider than its size
		}
		return Val{U: u}
	case KArray:
		b := make(Hex, d.N)
		for i := range b {
			b[i] = r.u8()
		}
		return Val{B: b}
	case KBytes:
		n := int(r.u8())
		if n >= 0xf0 {
			n = int(d.Max%512) + n - 0xf8 // around maxlen
		}
		if n < 0 {
			n = 0
		}
		b := make(Hex, n)
		for i := range b {
			b[i] = r.u8()
		}
		return Val{B: b, Nil: n == 0}
	case KVec:
		var v Val
		for n := int(r.u8()) % 6; n > 0; n-- {
			v.L = append(v.L, z.val(d.Elem))
		}
		return v
	case KStruct:
		v := Val{L: make([]Val, len(d.Fields))}
		for i := range d.Fields {
			f := &d.Fields[i]
			if f.Arm {
				present := v.L[f.Sel].U == f.Val
				if r.u8() == 0xff {
					present = !present // wrong arm presence: Marshal must refuse
				}
				if !present {
					v.L[i] = Val{Nil: true}
					continue
				}
				v.L[i] = z.val(&f.D)
				continue
			}
			if f.D.K == KEnum {
				if arms := d.armsOf(i); len(arms) > 0 {
					if x := r.u8(); x < 0xf0 {
						v.L[i] = Val{U: arms[int(x)%len(arms)]}
						continue
					}
				}
			}
			v.L[i] = z.val(&f.D)
		}
		return v
	}
	return Val{}
}

// descToBytes is the inverse of fzDec.desc on the descriptors used as seeds (ok=false if d is not expressible).
func descToBytes(d *Desc, out []byte) ([]byte, bool) {
	idx := func(tab []uint64, x uint64) (byte, bool) {
		for i, v := range tab {
			if v == x {
				return byte(i), true
			}
		}
		return 0, false
	}
	kb := byte(0)
	for i, k := range fzKinds {
		if k == d.K {
			kb = byte(i)
		}
	}
	switch d.K {
	case KEnum:
		e := byte(d.Alias) << 6
		if d.Size != 0 {
			return append(out, kb, e|0x20|byte(d.Size-1)), true
		}
		m, ok := idx(fzMaxVals, d.MaxVal)
		return append(out, kb, e, m), ok
	case KArray:
		return append(out, kb, byte(d.N)), d.N <= 40
	case KBytes, KVec:
		if d.K == KBytes && d.Alias == 1 {
			kb |= 0x10
		}
		m, ok := idx(fzMaxLens, d.Max)
		y := byte(d.Min)
		if d.Min > 0x3f {
			if d.Min != d.Max || d.Max > 300 {
				return out, false
			}
			y = 0x40
		}
		if d.TagRev {
			y |= 0x80
		}
		out = append(out, kb, m, y)
		if d.K == KVec {
			var ok2 bool
			out, ok2 = descToBytes(d.Elem, out)
			ok = ok && ok2
		}
		return out, ok
	case KStruct:
		out = append(out, kb, byte(len(d.Fields)))
		ok := len(d.Fields) < 10
		for i := range d.Fields {
			f := &d.Fields[i]
			if f.Arm {
				n := 0
				for j := 0; j < f.Sel; j++ {
					if !d.Fields[j].Arm && d.Fields[j].D.K == KEnum {
						n++
					}
				}
				v, ok2 := idx(fzArmVals, f.Val)
				ok = ok && ok2
				out = append(out, 0x80|byte(n)<<4, v)
			} else {
				out = append(out, 0)
			}
			var ok2 bool
			out, ok2 = descToBytes(&f.D, out)
			ok = ok && ok2
		}
		return out, ok
	}
	return append(out, kb), true
}

// The hand-written types of /repo/tls/tls_test.go as descriptors, with the encodings that file lists.
var (
	tTestStruct = Desc{K: KStruct, Fields: []Field{{D: Desc{K: KBytes, Min: 2, Max: 4}}, {D: Desc{K: KU16}}, {D: Desc{K: KArray, N: 4}}, {D: Desc{K: KEnum, Size: 2}}}}
	tVariant    = Desc{K: KStruct, Fields: []Field{{D: Desc{K: KEnum, Size: 1}}, {D: Desc{K: KU16}, Arm: true, Sel: 0, Val: 0}, {D: Desc{K: KU32}, Arm: true, Sel: 0, Val: 1}}}
	tTwoVar     = Desc{K: KStruct, Fields: []Field{{D: Desc{K: KEnum, Size: 1}}, {D: Desc{K: KU16}, Arm: true, Sel: 0, Val: 0}, {D: Desc{K: KU32}, Arm: true, Sel: 0, Val: 1},
		{D: Desc{K: KEnum, Size: 1}}, {D: Desc{K: KU16}, Arm: true, Sel: 3, Val: 0}, {D: Desc{K: KU32}, Arm: true, Sel: 3, Val: 1}}}
	tNonByte   = Desc{K: KStruct, Fields: []Field{{D: Desc{K: KVec, Min: 2, Max: 6, Elem: &Desc{K: KU16}}}}}
	tSliceOfSt = Desc{K: KStruct, Fields: []Field{{D: Desc{K: KVec, Min: 0, Max: 100, Elem: &tVariant}}}}
	tInner     = Desc{K: KStruct, Fields: []Field{{D: Desc{K: KBytes, Min: 0, Max: 65535}}}}
	tSliceOfSl = Desc{K: KStruct, Fields: []Field{{D: Desc{K: KVec, Min: 0, Max: 65535, Elem: &tInner}}}}
	tD1        = Desc{K: KStruct, Fields: []Field{{D: Desc{K: KU8}}, {D: Desc{K: KU24}}}}
	tD2        = Desc{K: KStruct, Fields: []Field{{D: Desc{K: KEnum, Size: 8}}}}
	tD3        = Desc{K: KStruct, Fields: []Field{{D: Desc{K: KBytes, Max: 1<<64 - 1}}}}
)

func knownSigs() map[string]bool {
	m := map[string]bool{}
	paths := []string{os.Getenv("VERIF_KNOWN")}
	if r := os.Getenv("VERIF_ROOT"); r != "" {
		paths = append(paths, filepath.Join(r, "KNOWN_FINDINGS.json"))
	}
	paths = append(paths, "/verif/KNOWN_FINDINGS.json")
	for _, p := range paths {
		if p == "" {
			continue
		}
		b, err := os.ReadFile(p)
		if err != nil {
			continue
		}
		var all []struct{ Property, Status, Signature string }
		if json.Unmarshal(b, &all) == nil {
			for _, k := range all {
				if k.Property == "C09" && k.Status == "known" {
					m[k.Signature] = true
				}
			}
		}
		break
	}
	return m
}

func FuzzCodec(f *testing.F) {
	known := knownSigs()
	var kh [32]byte
	leaf, _ := rfc6962.EncodeLeaf(rfc6962.Leaf{Timestamp: 0x0102030405060708, Entry: rfc6962.Entry{Type: rfc6962.PrecertEntry, IssuerKeyHash: kh, TBS: []byte{0x30, 0x00}}, Extensions: []byte{1}})
	seeds := []struct {
		d  *Desc
		in []string
	}{
		{&tTestStruct, []string{"020a0b0101010203040011", "020a0b01010102030400", "010a0101010203040011"}},
		{&tVariant, []string{"000102", "0101020304", "010102", "092122"}},
		{&tTwoVar, []string{"0001020104030201"}},
		{&tNonByte, []string{"06010102020303", "05010102020303"}},
		{&tSliceOfSt, []string{"00", "080001020101020304", "0403010203"}},
		{&tSliceOfSl, []string{"000a00030102030003040506"}},
		{&variantItem, []string{"011234", "0212345678", "001234"}},
		{&digitallySigned, []string{"0403000a00010203040506070809", "04030003010203"}},
		{&merkleTreeLeaf, []string{hex.EncodeToString(leaf)}},
		{&tD1, []string{"07010203"}},
		{&tD2, []string{"0000000000000001", "ffffffffffffffff"}},
		{&tD3, []string{"0000000000000001aa", "ffffffffffffffff00", "800000000000000000"}},
		{&Desc{K: KU24}, []string{"010203"}},
		{&Desc{K: KEnum, Size: 5}, []string{"0100000001"}},
		{&Desc{K: KBytes, Min: 1, Max: 5}, []string{"020a0b"}},
	}
	for _, s := range seeds {
		sel, ok := descToBytes(s.d, nil)
		z := &fzDec{r: &rd{b: sel}, budget: fzMaxNodes}
		back := z.desc(0, ctxTop)
		if !ok || !reflect.DeepEqual(&back, s.d) {
			f.Fatalf("seed descriptor %s does not survive the selector encoding (got %s)", s.d, &back)
		}
		for _, h := range s.in {
			in, err := hex.DecodeString(h)
			if err != nil {
				f.Fatal(err)
			}
			// selector bytes, a flags byte, then value bytes: reuse the input as value material
			f.Add(append(append(append([]byte{}, sel...), 0), in...), in)
		}
	}
	f.Fuzz(func(t *testing.T, sel, input []byte) {
		if len(sel) > 4096 || len(input) > 1<<16 {
			t.Skip()
		}
		z := &fzDec{r: &rd{b: sel}, budget: fzMaxNodes}
		d := z.desc(0, ctxTop)
		if err := d.validate(ctxTop, 0); err != nil {
			t.Fatalf("selector decoder left the domain: %v: %s", err, &d)
		}
		flags := z.r.u8()
		val := z.val(&d)
		c := Case{Type: d, Trials: []Trial{
			{Kind: "bytes", Note: "raw", Input: input, Dirty: flags&1 != 0},
			{Kind: "value", Note: "fuzz", V: &val, Dirty: flags&2 != 0},
		}}
		how := presentations[int(flags>>2)%len(presentations)]
		c.Trials = append(c.Trials, Trial{Kind: "present", How: how, Note: how, V: &val, Input: input, NonZero: flags&0x80 != 0,
			Params: badParams[int(z.r.u8())%len(badParams)], Index: int(z.r.u8())})
		if how != mBadParams && how != uBadParams && c.Trials[2].Index%4 != 0 {
			c.Trials[2].Params = ""
		}
		v := checkCase(t, c)
		for _, x := range v.Violations {
			if known[x.Sig] {
				continue
			}
			js, _ := json.Marshal(c)
			t.Fatalf("[%s] %s\ncase: %s", x.Sig, x.Msg, js)
		}
	})
}
