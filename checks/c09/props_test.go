package c09

import (
	"fmt"
	"os"
	"runtime/debug"
	"testing"

	"verif/internal/harness"
)

func TestProps(t *testing.T) {
	// The types of this check nest a handful of levels: 64 MiB of stack is ample, and a runaway recursion over
	// a self-referential type dies in a fraction of a second instead of after eating 1 GiB.
	debug.SetMaxStack(64 << 20)
	selfTest(t)
	harness.Main(t, "C09", Values, Bytes, Static, Wide, Big, Concurrent)
	if os.Getenv("VERIF_C09_DEBUG") != "" {
		fmt.Printf("C09-DEBUG max alloc/bound: unmarshal %.3f marshal %.3f\n", debugMaxU, debugMaxM)
	}
}
