package c09

import (
	"fmt"
	"os"
	"testing"

	"verif/internal/harness"
)

func TestProps(t *testing.T) {
	selfTest(t)
	harness.Main(t, "C09", Values, Bytes)
	if os.Getenv("VERIF_C09_DEBUG") != "" {
		fmt.Printf("C09-DEBUG max alloc/bound: unmarshal %.3f marshal %.3f\n", debugMaxU, debugMaxM)
	}
}
