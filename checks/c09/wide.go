package c09

import (
	"sort"
	"testing"

	"pgregory.net/rapid"

	"verif/internal/harness"
)

// Wide: struct WIDTH as a dimension of the type space. The values / bytes generators build structs of at most
// about 16 fields, so nothing that depends on the POSITION of a field in its struct (per-position bookkeeping
// in a machine word, small fixed-size tables) is exercised beyond index 15. Here every case is one top-level
// struct of 65-84 fields: flat fields of every leaf kind, one selector group whose selector enum sits at a field
// index >= 64 (its arms behind it), usually a second group whose selector sits at an index < 64 with arms
// anywhere behind it (before or beyond index 64), and sometimes a third one placed freely. Judged by the same
// checker as every other case (reference codec, round trip, refusal of invalid values, byte strings).

// wideLeaf draws a flat field: scalars dominate so that a value of 80 fields stays small.
func wideLeaf(t *rapid.T, g *typeGen, ctx int) Desc {
	r := rapid.IntRange(0, 99).Draw(t, "wkind")
	switch {
	case r < 60:
		return Desc{K: pick(t, "scalar", scalarKinds...)}
	case r < 70 && ctx != ctxArm:
		return genEnum(t)
	case r < 80:
		return Desc{K: KArray, N: rapid.IntRange(0, 5).Draw(t, "arraylen")}
	case r < 92:
		mn, mx := genBounds(t, false)
		return Desc{K: KBytes, Min: mn, Max: mx}
	}
	g.budget = 6
	return g.desc(t, 2, ctx) // now and then a small nested struct or vector
}

// wideGroup inserts a selector enum at a position drawn from [lo, hi] and 1-3 arms behind it.
func wideGroup(t *rapid.T, g *typeGen, d *Desc, lo, hi int) {
	selD := genEnum(t)
	pos := rapid.IntRange(lo, hi).Draw(t, "selpos")
	d.insert(pos, Field{D: selD})
	for _, av := range armVals(t, &selD, rapid.IntRange(1, 3).Draw(t, "narms")) {
		ap := rapid.IntRange(pos+1, len(d.Fields)).Draw(t, "armpos")
		if rapid.IntRange(0, 2).Draw(t, "armnear") == 0 && pos+3 <= len(d.Fields) {
			ap = rapid.IntRange(pos+1, pos+3).Draw(t, "armposnear")
		}
		d.insert(ap, Field{D: wideLeaf(t, g, ctxArm), Arm: true, Sel: pos, Val: av})
	}
}

func genWideType(t *rapid.T) Desc {
	g := &typeGen{}
	d := Desc{K: KStruct}
	for n := rapid.IntRange(64, 72).Draw(t, "nfields"); n > 0; n-- {
		d.Fields = append(d.Fields, Field{D: wideLeaf(t, g, ctxField)})
	}
	// first the group beyond the word boundary: later insertions in front of it only move it further out
	wideGroup(t, g, &d, 64, len(d.Fields))
	if rapid.IntRange(0, 3).Draw(t, "lowgroup") > 0 {
		wideGroup(t, g, &d, 0, 63)
	}
	if rapid.IntRange(0, 3).Draw(t, "freegroup") == 0 {
		wideGroup(t, g, &d, 0, len(d.Fields))
	}
	return d
}

func genWide(t *rapid.T) Case {
	c := Case{Type: genWideType(t)}
	genStaticTrials(t, &c, &c.Type, rapid.IntRange(2, 3).Draw(t, "nvals"), rapid.IntRange(1, 2).Draw(t, "nbytes"))
	return c
}

func checkWide(t *testing.T, c Case) (v harness.Verdict) {
	if c.Static != "" || len(c.Then) != 0 || c.Type.K != KStruct {
		return harness.Verdict{Discard: true}
	}
	v = checkCase(t, c)
	if v.Discard {
		return v
	}
	d := &c.Type
	if len(d.Fields) >= 65 {
		v.Classes = append(v.Classes, "wide:>=65-fields")
	}
	for i := range d.Fields {
		if f := &d.Fields[i]; f.Arm {
			switch {
			case f.Sel >= 64:
				v.Classes = append(v.Classes, "wide:selector-at>=64")
			case i >= 64:
				v.Classes = append(v.Classes, "wide:selector-at<64-arm-at>=64")
			default:
				v.Classes = append(v.Classes, "wide:selector-and-arm-at<64")
			}
		}
	}
	v.Classes = dedupSorted(v.Classes)
	v.NonTrivial = true
	return v
}

func dedupSorted(xs []string) []string {
	sort.Strings(xs)
	out := xs[:0]
	for i, x := range xs {
		if i == 0 || x != xs[i-1] {
			out = append(out, x)
		}
	}
	return out
}

var Wide = harness.Define(harness.Opts{
	Name:  "wide",
	Rule:  "one top-level struct of 65-84 fields per case (reflect.StructOf; flat fields: uint8/16/24/32/64, enums, [0..5]byte, []byte with bounds at the width edges, now and then a small nested struct or vector) with one selector group whose selector enum sits at a field index >= 64 and 1-3 pointer arms behind it, three times out of four a second group whose selector sits at an index < 64 with arms anywhere behind it (before or beyond index 64), one time in four a third group placed freely; 2-3 values (30% made invalid in exactly one way) and 1-2 byte strings (valid+tail, steering-integer rewrite, byte mutations, raw) per type, judged exactly like the values / bytes sub-properties (Marshal == reference encoder, round trip, refusals, reference decoder, allocation). Every case is non-trivial",
	Quick: 400, Thorough: 1500, MaxSample: 400,
}, genWide, checkWide)
