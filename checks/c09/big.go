package c09

import (
	"testing"

	"pgregory.net/rapid"

	"verif/internal/harness"
)

// Big: vector LENGTHS at the 3-byte / 4-byte prefix boundary (2^24). The values / bytes sub-properties keep
// vector contents below about 70 KB, so they exercise the maxlen TAG at every width edge but the length of an
// actual value only up to the 2-byte edge. Here a handful of cases per run carry one vector of about 16 MiB.
// (The next edge, 2^32, would need 4 GiB values and is not exercised.)
//
// The case is compact (the content is a 16-byte chunk repeated); the descriptor and the value are expanded at
// check time and judged by the same checker as every other value trial: Marshal == reference encoder, invalid
// lengths refused, Unmarshal(Marshal(v)) == (v, no rest), re-encoding == consumed bytes, allocation linear.

type BigCase struct {
	Form   string `json:"form"`   // "bytes": []byte; "wrapped": []struct{ []byte `maxlen:4294967295` } with one big and one small element (the general, non-byte slice path)
	MaxLen uint64 `json:"maxlen"` // tag maxlen
	MinLen uint64 `json:"minlen"`
	Len    int    `json:"len"`             // content length in bytes
	Chunk  Hex    `json:"chunk"`           // 16 bytes, repeated (xor a counter) to Len
	Elem   string `json:"elem,omitempty"`  // form "many": element kind (u16 u24 u32 u64) or "a<N>" for [N]byte
	Count  int    `json:"count,omitempty"` // form "many": number of elements
	Lead   bool   `json:"lead"`            // a uint8 field before the vector (non-zero offset)
	Tail   bool   `json:"tail"`            // a uint16 field behind it
}

const bigEdge = 1 << 24

// genMany: a LONG vector of SMALL elements (tens to hundreds of thousands of entries): the cost per element must
// stay constant, i.e. cumulative allocation (TotalAlloc) linear in the number of elements - growing the vector
// by a fixed number of entries per reallocation is quadratic and shows here.
func genMany(t *rapid.T) BigCase {
	c := BigCase{Form: "many", Chunk: Hex(rapid.SliceOfN(rapid.Byte(), 16, 16).Draw(t, "chunk")),
		Elem: pick(t, "elem", "u16", "u16", "u24", "u32", "u64", "a2", "a3", "a8"),
		Lead: rapid.Bool().Draw(t, "lead"), Tail: rapid.Bool().Draw(t, "tail")}
	w := manyElem(c.Elem).minWidth()
	switch rapid.IntRange(0, 3).Draw(t, "scale") {
	case 0: // a full two-byte prefix
		c.MaxLen = 65535
		c.Count = int(65535 / w)
	default: // three or four byte prefix
		c.MaxLen = pick[uint64](t, "maxlen", 1<<24-1, 1<<24, 1<<32-1)
		c.Count = pick(t, "count", 100000, 150000, 262144, 300000, 524288)
		if uint64(c.Count)*w > c.MaxLen {
			c.Count = int(c.MaxLen / w)
		}
	}
	c.Count -= pick(t, "countd", 0, 0, 1, 7)
	return c
}

func manyElem(k string) *Desc {
	switch k {
	case "u16":
		return &Desc{K: KU16}
	case "u24":
		return &Desc{K: KU24}
	case "u32":
		return &Desc{K: KU32}
	case "u64":
		return &Desc{K: KU64}
	case "a2":
		return &Desc{K: KArray, N: 2}
	case "a3":
		return &Desc{K: KArray, N: 3}
	}
	return &Desc{K: KArray, N: 8}
}

func genBig(t *rapid.T) BigCase {
	if rapid.IntRange(0, 2).Draw(t, "many") == 0 {
		return genMany(t)
	}
	c := BigCase{
		Form:   pick(t, "form", "bytes", "bytes", "wrapped"),
		MaxLen: pick[uint64](t, "maxlen", bigEdge-1, bigEdge, bigEdge+4096, 1<<32-1, 1<<32, 1<<40, 1<<56, 1<<64-1),
		Chunk:  Hex(rapid.SliceOfN(rapid.Byte(), 16, 16).Draw(t, "chunk")),
		Lead:   rapid.Bool().Draw(t, "lead"),
		Tail:   rapid.Bool().Draw(t, "tail"),
	}
	c.MinLen = pick[uint64](t, "minlen", 0, 0, 1, bigEdge-4096, bigEdge)
	if c.MinLen > c.MaxLen {
		c.MinLen = c.MaxLen
	}
	c.Len = bigEdge + pick(t, "dlen", -12, -1, 0, 0, 1, 2, 4096)
	return c
}

func (c *BigCase) expand() (Desc, Val) {
	if c.Form == "many" {
		e := manyElem(c.Elem)
		c.Len = c.Count * int(e.minWidth())
	}
	content := make(Hex, c.Len)
	chunk := c.Chunk
	if len(chunk) == 0 {
		chunk = Hex{0}
	}
	for i := range content {
		content[i] = chunk[i%len(chunk)] ^ byte(i>>4) ^ byte(i>>12)
	}
	var vd Desc
	var vv Val
	switch c.Form {
	case "many":
		e := manyElem(c.Elem)
		w := int(e.minWidth())
		vd = Desc{K: KVec, Min: c.MinLen, Max: c.MaxLen, Elem: e}
		vv.L = make([]Val, c.Count)
		for i := range vv.L {
			b := content[i*w : (i+1)*w]
			if e.K == KArray {
				vv.L[i] = Val{B: b}
			} else {
				vv.L[i] = Val{U: getUint(b)}
			}
		}
	case "wrapped":
		// outer length = (4 + Len) + (4 + 3): both the outer vector and its first element pass 2^24
		inner := Desc{K: KStruct, Fields: []Field{{D: Desc{K: KBytes, Min: 0, Max: 1<<32 - 1}}}}
		vd = Desc{K: KVec, Min: c.MinLen, Max: c.MaxLen, Elem: &inner}
		vv.L = []Val{{L: []Val{{B: content}}}, {L: []Val{{B: Hex{1, 2, 3}}}}}
	default:
		vd = Desc{K: KBytes, Min: c.MinLen, Max: c.MaxLen}
		vv = Val{B: content}
	}
	d := Desc{K: KStruct}
	v := Val{}
	if c.Lead {
		d.Fields = append(d.Fields, Field{D: Desc{K: KU8}})
		v.L = append(v.L, Val{U: 0x5a})
	}
	d.Fields = append(d.Fields, Field{D: vd})
	v.L = append(v.L, vv)
	if c.Tail {
		d.Fields = append(d.Fields, Field{D: Desc{K: KU16}})
		v.L = append(v.L, Val{U: 0xbeef})
	}
	return d, v
}

func checkBig(t *testing.T, c BigCase) (v harness.Verdict) {
	if c.Len < 0 || c.Len > bigEdge+1<<20 || c.MaxLen == 0 || c.MinLen > c.MaxLen || c.Count < 0 || c.Count > 1<<21 {
		v.Discard = true
		return v
	}
	d, val := c.expand()
	classes := map[string]bool{}
	ck := &checker{v: &v, d: &d, typ: d.goType(), classes: classes}
	tr := &Trial{Kind: "value", Note: "big", V: &val}
	ck.value(tr, 0)
	switch {
	case c.Form == "many":
		ck.class("many:" + c.Elem)
		if c.Count > 65535 {
			ck.class("many:>65535-elements")
		} else {
			ck.class("many:2-byte-prefix-full")
		}
	case c.Len < bigEdge:
		ck.class("len<2^24")
	case c.Len == bigEdge:
		ck.class("len==2^24")
	default:
		ck.class("len>2^24")
	}
	ck.class("form:" + c.Form)
	ck.class("prefix-width-" + string(rune('0'+widthFor(c.MaxLen))))
	v.NonTrivial = true
	for cl := range classes {
		v.Classes = append(v.Classes, cl)
	}
	// messages carry at most a 200-byte hex prefix of the data (hx), so they stay small
	return v
}

var Big = harness.Define(harness.Opts{
	Name:  "big",
	Rule:  "struct{[uint8;] V; [uint16]} with V = []byte or []struct{[]byte `maxlen:4294967295`} (one big element, one small), maxlen in {2^24-1, 2^24, 2^24+4096, 2^32-1, 2^32, 2^40, 2^56, 2^64-1}, minlen in {0, 1, 2^24-4096, 2^24}, and one value whose vector holds 2^24-12 .. 2^24+4096 bytes (valid or out of bounds depending on the tag); judged like every value trial (Marshal == reference, refusal of out-of-bounds lengths, round trip, re-encoding, allocation); one case in three instead carries a LONG vector of small elements (uint16/24/32/64 or [2|3|8]byte; a full 2-byte prefix, or 100000..524288 elements under a 3/4-byte prefix) so that a per-element cost that grows with the length of the vector (cumulative TotalAlloc) breaks the allocation bound. Every case is non-trivial",
	Quick: 15, Thorough: 15, MaxSample: 400,
}, genBig, checkBig)
