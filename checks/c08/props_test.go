package c08

import (
	"testing"

	"verif/internal/harness"
)

func TestProps(t *testing.T) { harness.Main(t, "C08", Storm, Matrix, FaultSeq, BadReq) }
