package c08

import (
	"encoding/base64"
	"fmt"
	"net/url"
	"strings"
	"testing"

	"pgregory.net/rapid"

	"verif/internal/harness"
)

// SeqCase: a sequence of valid requests on one instance with one fault injected at a drawn position.
type SeqCase struct {
	Mask, Mapper, Indirect bool
	Verbose, Bulky         bool
	Accept                 string
	Requests               []SeqReq
	FaultAt                int // index into Requests of the request that meets the fault
	Fault                  Fault
	Repeat                 int // the faulted request is sent that many more times, meeting the same fault each time
}

type SeqReq struct {
	Endpoint string
	Variant  int
}

func genSeq(t *rapid.T) SeqCase {
	c := SeqCase{Mask: rapid.Bool().Draw(t, "mask"), Mapper: rapid.Bool().Draw(t, "mapper"), Indirect: rapid.Bool().Draw(t, "indirect")}
	c.Accept = rapid.SampledFrom(accepts).Draw(t, "accept")
	c.Verbose = rapid.IntRange(0, 3).Draw(t, "verbose") == 0
	c.Bulky = rapid.IntRange(0, 5).Draw(t, "bulky") == 0
	n := rapid.IntRange(1, 6).Draw(t, "n")
	for i := 0; i < n; i++ {
		c.Requests = append(c.Requests, SeqReq{Endpoint: rapid.SampledFrom(endpoints).Draw(t, "ep"), Variant: rapid.IntRange(0, 1000).Draw(t, "variant")})
	}
	c.FaultAt = rapid.IntRange(0, n-1).Draw(t, "at")
	fs := allFaults(c.Requests[c.FaultAt].Endpoint)
	c.Fault = fs[rapid.IntRange(0, len(fs)-1).Draw(t, "fault")]
	if rapid.IntRange(0, 2).Draw(t, "repeated") == 0 {
		c.Repeat = rapid.IntRange(1, 3).Draw(t, "repeat")
	}
	return c
}

func checkSeq(t *testing.T, c SeqCase) (v harness.Verdict) {
	if c.Verbose {
		harness.SetKlogVerbosity(3)
		defer harness.SetKlogVerbosity(0)
		v.Class("debug-logging-on")
	}
	if c.Bulky {
		v.Class("bulky-entries")
	}
	r := newRigB(t, c.Mask, c.Mapper, c.Indirect, c.Bulky)
	r.setAccept(c.Accept)
	v.NonTrivial = len(c.Requests) > 1
	for i, rq := range c.Requests {
		faulty := i == c.FaultAt
		if faulty {
			r.arm(rq.Endpoint, c.Fault, 0)
		}
		q := validRequestB(rq.Endpoint, rq.Variant, faulty && c.Fault.Kind == "beyond-tree", c.Bulky)
		o := r.do(q)
		r.be.Intercept, r.be.Mutate = nil, nil
		if faulty {
			v.Class("fault:"+c.Fault.Kind, "ep:"+rq.Endpoint)
			if c.Fault.Kind == "reply" && c.Fault.Reply == "proof-empty" && strings.Contains(q.query, "tree_size=1") {
				continue // an empty audit path is correct for a tree of one leaf
			}
			judgeFault(&v, r, rq.Endpoint, c.Fault, c.Mask, c.Mapper, o, fmt.Sprintf("request %d of %d", i+1, len(c.Requests)))
			// a backend that keeps misbehaving in the same way must keep being refused: the same request again
			for k := 1; k <= c.Repeat; k++ {
				r.arm(rq.Endpoint, c.Fault, 0)
				o := r.do(q)
				r.be.Intercept, r.be.Mutate = nil, nil
				judgeFault(&v, r, rq.Endpoint, c.Fault, c.Mask, c.Mapper, o, fmt.Sprintf("request %d of %d, repetition %d of the same fault", i+1, len(c.Requests), k))
				v.Class("fault-repeated")
			}
			continue
		}
		// every un-faulted valid request must succeed: the oracle is not vacuous and a fault does not poison later requests
		if o.panicked != nil {
			v.Failf("panic", "valid %s %s panicked: %v", rq.Endpoint, q.query, o.panicked)
		} else if o.status != 200 {
			v.Failf("valid-request-refused", "valid %s %s (request %d, fault at %d) answered %d %q", rq.Endpoint, q.query, i, c.FaultAt, o.status, trunc(o.body))
		} else if strings.HasPrefix(rq.Endpoint, "add-") && (o.ev == nil || len(o.ev.IssuedSCTs) != 1) {
			v.Failf("issue-sct-log", "successful %s did not record exactly one issued SCT", rq.Endpoint)
		}
		checkDeadlines(&v, r, o, rq.Endpoint)
	}
	return v
}

var FaultSeq = harness.Define(harness.Opts{
	Name:  "faultseq",
	Rule:  "1-6 valid requests (random endpoints, parameters varied within validity) on one instance, one fault from the matrix injected at a drawn position, random mask/mapper/storage mode; un-faulted requests must answer 200, the faulted one is judged like a matrix cell. Non-trivial: >= 2 requests",
	Quick: 1500, Thorough: 12000,
}, genSeq, checkSeq)

// ---------------------------------------------------------------------------------------------
// bad requests

type BadCase struct {
	Endpoint string
	Method   string
	Params   map[string]*string // nil value = parameter absent
	Body     string
	Mask     bool
	Why      string
	RawTail  string // appended verbatim to the encoded query (malformed query strings)
}

var badTokens = []string{"", "-1", "-9223372036854775808", "9223372036854775808", "18446744073709551616", "1.0", "1e2", "0x1", "١", " 1", "1 ", "abc", "99999999999999999999999999", "NaN", "1,2", "1;2"}

func sp(s string) *string { return &s }

func genBad(t *rapid.T) BadCase {
	c := BadCase{Mask: rapid.Bool().Draw(t, "mask"), Params: map[string]*string{}}
	c.Endpoint = rapid.SampledFrom(append([]string{"get-roots"}, endpoints...)).Draw(t, "ep")
	post := strings.HasPrefix(c.Endpoint, "add-")
	c.Method = "GET"
	if post {
		c.Method = "POST"
	}
	f := getFixture()
	tok := func(label string) *string {
		if rapid.IntRange(0, 5).Draw(t, label+"absent") == 0 {
			return nil
		}
		return sp(rapid.SampledFrom(badTokens).Draw(t, label))
	}
	small := func(label string, lo, hi int) int { return rapid.IntRange(lo, hi).Draw(t, label) }
	if rapid.IntRange(0, 4).Draw(t, "wrongmethod") == 0 {
		// method tokens are case-sensitive (RFC 9110 s9.1): "get" and "Post" are not the methods the endpoints take
		c.Method = rapid.SampledFrom([]string{"GET", "POST", "PUT", "DELETE", "HEAD", "PATCH", "OPTIONS", "get", "Get", "post", "Post", "pOST", "gET", "GETS", "POSTS"}).Draw(t, "method")
		if (post && c.Method == "POST") || (!post && c.Method == "GET") {
			c.Method = "PUT"
		}
		c.Why = "wrong method"
		// otherwise valid parameters
		q := validRequest(c.Endpoint2(), 1, false)
		vals, _ := url.ParseQuery(q.query)
		for k, vs := range vals {
			c.Params[k] = sp(vs[0])
		}
		c.Body = string(q.body)
		return c
	}
	if !post && rapid.IntRange(0, 6).Draw(t, "rawtail") == 0 {
		// valid parameters, but the query string as a whole does not parse
		q := validRequest(c.Endpoint2(), 1, false)
		vals, _ := url.ParseQuery(q.query)
		for k, vs := range vals {
			c.Params[k] = sp(vs[0])
		}
		c.RawTail = rapid.SampledFrom([]string{"&x=%zz", "&%zz", "&a;b", ";", "&x=%", "&%G1=1", "&y=%f"}).Draw(t, "tail")
		c.Why = "malformed query string"
		return c
	}
	switch c.Endpoint {
	case "get-roots", "get-sth":
		// no parameters: only wrong methods are bad requests
		c.Method = rapid.SampledFrom([]string{"POST", "PUT", "DELETE"}).Draw(t, "method2")
		c.Why = "wrong method"
	case "get-sth-consistency":
		switch small("mode", 0, 3) {
		case 0:
			c.Params["first"], c.Params["second"], c.Why = tok("first"), sp("5"), "malformed first"
		case 1:
			c.Params["first"], c.Params["second"], c.Why = sp("2"), tok("second"), "malformed second"
		case 2:
			a := small("a", 1, 1000)
			c.Params["first"], c.Params["second"], c.Why = sp(fmt.Sprint(a+small("d", 1, 50))), sp(fmt.Sprint(a)), "second < first"
		default:
			c.Params["first"], c.Params["second"], c.Why = tok("first"), tok("second"), "both malformed"
		}
	case "get-proof-by-hash":
		good := base64.StdEncoding.EncodeToString(f.hashes[2])
		switch small("mode", 0, 2) {
		case 0:
			k := rapid.IntRange(0, len(good)-2).Draw(t, "blankat")
			bad := rapid.SampledFrom([]string{"", "!!!!", "AAA", "====", good[:len(good)-1], "a b", strings.ReplaceAll(good, "=", ""),
				good[:k] + " " + good[k+1:], strings.Repeat(" ", 44), "    ", good[:k] + "\t" + good[k+1:], " " + good, good + " ", good[:k] + "-" + good[k+1:], good[:k] + "_" + good[k+1:]}).Draw(t, "badhash")
			if rapid.Bool().Draw(t, "hashabsent") {
				c.Params["tree_size"], c.Why = sp("5"), "hash absent"
			} else {
				c.Params["hash"], c.Params["tree_size"], c.Why = sp(bad), sp("5"), "bad base64 hash"
			}
		case 1:
			c.Params["hash"], c.Params["tree_size"], c.Why = sp(good), tok("ts"), "malformed tree_size"
		default:
			c.Params["hash"], c.Params["tree_size"], c.Why = sp(good), sp("0"), "tree_size 0"
		}
	case "get-entries":
		switch small("mode", 0, 2) {
		case 0:
			c.Params["start"], c.Params["end"], c.Why = tok("start"), sp("3"), "malformed start"
		case 1:
			c.Params["start"], c.Params["end"], c.Why = sp("1"), tok("end"), "malformed end"
		default:
			a := small("a", 1, 1000)
			c.Params["start"], c.Params["end"], c.Why = sp(fmt.Sprint(a)), sp(fmt.Sprint(a-small("d", 1, a))), "start > end"
		}
	case "get-entry-and-proof":
		switch small("mode", 0, 3) {
		case 0:
			c.Params["leaf_index"], c.Params["tree_size"], c.Why = tok("li"), sp("5"), "malformed leaf_index"
		case 1:
			c.Params["leaf_index"], c.Params["tree_size"], c.Why = sp("1"), tok("ts"), "malformed tree_size"
		case 2:
			c.Params["leaf_index"], c.Params["tree_size"], c.Why = sp("0"), sp("0"), "tree_size 0"
		default:
			a := small("a", 1, 1000)
			c.Params["leaf_index"], c.Params["tree_size"], c.Why = sp(fmt.Sprint(a+small("d", 0, 5))), sp(fmt.Sprint(a)), "leaf_index >= tree_size"
		}
	case "add-chain", "add-pre-chain":
		good := validRequest(c.Endpoint, 2, false)
		bodies := []string{"", "{", "null", "[]", "{}", `{"chain":[]}`, `{"chain":null}`, `{"chain":["!!!"]}`, `{"chain":[1,2]}`, `{"chain":"x"}`, `{"chain":["AAAA"]}`,
			`{"chain":["` + base64.StdEncoding.EncodeToString([]byte("not a certificate")) + `"]}`, string(good.body[:len(good.body)/2]), string(good.body) + "trailing"}
		c.Body = rapid.SampledFrom(bodies).Draw(t, "body")
		c.Why = "malformed body"
	}
	return c
}

// Endpoint2 maps get-roots (which has no valid-request builder) onto get-sth for parameter purposes.
func (c BadCase) Endpoint2() string {
	if c.Endpoint == "get-roots" {
		return "get-sth"
	}
	return c.Endpoint
}

func checkBad(t *testing.T, c BadCase) (v harness.Verdict) {
	v.NonTrivial = true
	v.Class("why:"+c.Why, "ep:"+c.Endpoint)
	r := newRig(t, c.Mask, false, false)
	q := url.Values{}
	for k, p := range c.Params {
		if p != nil {
			q.Set(k, *p)
		}
	}
	var body []byte
	if c.Method == "POST" || c.Body != "" {
		body = []byte(c.Body)
	}
	query := strings.TrimPrefix(q.Encode()+c.RawTail, "&")
	o := r.do(request{c.Method, "/ct/v1/" + c.Endpoint, query, body})
	tag := fmt.Sprintf("%s %s ?%s body=%q (%s)", c.Method, c.Endpoint, query, trunc(body), c.Why)
	if c.Endpoint == "get-roots" && c.RawTail != "" {
		// get-roots makes no backend call and takes no parameters; only the status is judged
	}
	if o.panicked != nil {
		v.Failf("panic", "%s: panicked: %v", tag, o.panicked)
		return v
	}
	if o.status < 400 || o.status >= 500 {
		v.Failf("bad-request-status", "%s: status %d, want 4xx", tag, o.status)
	}
	if len(o.calls) != 0 {
		v.Failf("bad-request-reached-backend", "%s: %d backend calls (first %s)", tag, len(o.calls), o.calls[0].RPC)
	}
	if o.ev != nil && len(o.ev.IssuedSCTs) != 0 {
		v.Failf("sct-issued-on-failure", "%s: SCT issued", tag)
	}
	return v
}

var BadReq = harness.Define(harness.Opts{
	Name:  "badreq",
	Rule:  "wrong HTTP methods and missing / malformed / out-of-range parameters (token grammar: empty, negative, 2^63, 2^64, floats, exponents, hex, non-ASCII digits, spaces, words, bad base64, inverted ranges, malformed JSON bodies and certificate bytes) on all eight endpoints; oracle: 4xx and zero backend calls. Parameter syntaxes strconv accepts but a reader might not (+1, 007) and wrong-length hashes are not generated",
	Quick: 2500, Thorough: 15000,
}, genBad, checkBad)
