// Package c08: backend faults and bad requests never surface as success.
package c08

import (
	"context"
	"crypto/sha256"
	"database/sql"
	"encoding/base64"
	"encoding/json"
	"errors"
	"fmt"
	"net/http"
	"net/url"
	"strings"
	"sync"
	"testing"
	"time"

	"github.com/google/certificate-transparency-go/trillian/ctfe"
	"github.com/google/trillian"
	"github.com/google/trillian/types"
	"google.golang.org/grpc/codes"
	"google.golang.org/grpc/status"
	"google.golang.org/protobuf/proto"

	"verif/internal/ctfex"
	"verif/internal/derx"
	"verif/internal/harness"
	"verif/internal/keys"
	"verif/internal/memstore"
	"verif/internal/mtree"
	"verif/internal/reflog"
	"verif/internal/rfc6962"
	"verif/internal/world"
)

// Fault is one injected backend misbehaviour.
type Fault struct {
	Kind  string // code | plain | ctx-deadline | ctx-cancel | reply | beyond-tree | storage (the chain storage of a log with external chains fails its reads: Reply names the error class)
	Code  int    // gRPC status code for Kind == code
	Reply string // name of the reply malformation for Kind == reply
}

// Cell is one matrix cell.
type Cell struct {
	Endpoint string
	Fault    Fault
	Mask     bool
	Mapper   bool // an ErrorMapper overriding NotFound -> 410 and Internal -> 502
	Indirect bool // external issuance-chain storage mode
	Accept   string // Accept request header ("" = none)
	Verbose  bool // the process runs with klog -v=3 (debug logging on)
	SmallMax bool // get-entries: at most 4 entries per answer, and the range asked for crosses a multiple of 4, so that alignment shortens it
	Bulky    bool // the stored entries are ~30 KiB each, so a reply of a few entries exceeds any ordinary buffer
}

var endpoints = []string{"add-chain", "add-pre-chain", "get-sth", "get-sth-consistency", "get-proof-by-hash", "get-entries", "get-entry-and-proof"}

var rpcOf = map[string]string{
	"add-chain": "QueueLeaf", "add-pre-chain": "QueueLeaf", "get-sth": "GetLatestSignedLogRoot", "get-sth-consistency": "GetConsistencyProof",
	"get-proof-by-hash": "GetInclusionProofByHash", "get-entries": "GetLeavesByRange", "get-entry-and-proof": "GetEntryAndProof",
}

// Trailing bytes after a complete LogRootV1 are not in the list: the Trillian library's own
// UnmarshalBinary (outside this repository) accepts them, the root that is served is intact, and the
// property only speaks of a tree head that is "missing or garbled".
var rootGarbles = []string{"slr-absent", "root-empty", "root-truncated", "root-version", "root-badlen"}

// replyFaults lists the malformed replies that apply to each endpoint.
var replyFaults = map[string][]string{
	"add-chain":           {"queued-absent", "leaf-absent", "leafvalue-garbage", "leafvalue-trailing", "leafvalue-empty"},
	"add-pre-chain":       {"queued-absent", "leaf-absent", "leafvalue-garbage", "leafvalue-trailing", "leafvalue-empty"},
	"get-sth":             append(append([]string{}, rootGarbles...), "roothash-0", "roothash-31", "roothash-33"),
	"get-sth-consistency": append(append([]string{}, rootGarbles...), "proof-absent", "proof-hash-0", "proof-hash-31", "proof-hash-33"),
	"get-proof-by-hash":   append(append([]string{}, rootGarbles...), "proof-list-empty", "proof-hash-0", "proof-hash-31", "proof-hash-33", "proof-hash-31-then-good-proof", "proof-hash-0-then-good-proof"),
	"get-entries":         append(append([]string{}, rootGarbles...), "surplus-leaves", "surplus-one", "index-off", "shifted-run", "single-leaf-elsewhere", "out-of-order", "inner-swap", "inner-duplicate", "inner-foreign"),
	"get-entry-and-proof": append(append([]string{}, rootGarbles...), "leaf-absent", "leafvalue-empty", "proof-absent", "proof-empty"),
}

// accepts are Accept request headers a client may send; none of them may change status, masking or SCT handling.
var accepts = []string{"", "", "application/json", "*/*", "text/html, application/json;q=0.9", "application/json; charset=utf-8"}

func allFaults(ep string) []Fault {
	var fs []Fault
	for c := 1; c <= 16; c++ {
		fs = append(fs, Fault{Kind: "code", Code: c})
	}
	fs = append(fs, Fault{Kind: "plain"}, Fault{Kind: "ctx-deadline"}, Fault{Kind: "ctx-cancel"})
	for _, r := range replyFaults[ep] {
		fs = append(fs, Fault{Kind: "reply", Reply: r})
	}
	if ep != "add-chain" && ep != "add-pre-chain" && ep != "get-sth" {
		fs = append(fs, Fault{Kind: "beyond-tree"})
	}
	return fs
}

func matrix() []Cell {
	var out []Cell
	for _, ep := range endpoints {
		for _, f := range allFaults(ep) {
			for _, mask := range []bool{false, true} {
				for _, mapper := range []bool{false, true} {
					out = append(out, Cell{Endpoint: ep, Fault: f, Mask: mask, Mapper: mapper})
					entryEP := ep == "get-entries" || ep == "get-entry-and-proof"
					if entryEP || ep == "add-chain" || ep == "add-pre-chain" {
						out = append(out, Cell{Endpoint: ep, Fault: f, Mask: mask, Mapper: mapper, Indirect: true})
					}
					if !mapper {
						// a client that asks for JSON gets the same statuses and the same masking
						out = append(out, Cell{Endpoint: ep, Fault: f, Mask: mask, Accept: "application/json"})
					}
					if !mapper {
						// debug logging is a process-wide configuration: every fault again with it switched on
						out = append(out, Cell{Endpoint: ep, Fault: f, Mask: mask, Verbose: true})
					}
					if ep == "get-entries" && !mapper {
						out = append(out, Cell{Endpoint: ep, Fault: f, Mask: mask, SmallMax: true})
					}
					if entryEP && f.Kind == "plain" {
						// the chain storage behind a log with external chains is a backend too
						for _, class := range []string{"plain", "deadline", "status-deadline", "canceled", "unavailable", "no-rows"} {
							out = append(out, Cell{Endpoint: ep, Fault: Fault{Kind: "storage", Reply: class}, Mask: mask, Mapper: mapper, Indirect: true})
						}
					}
					if entryEP && !mapper {
						out = append(out, Cell{Endpoint: ep, Fault: f, Mask: mask, Bulky: true}, Cell{Endpoint: ep, Fault: f, Mask: mask, Bulky: true, Indirect: true})
					}
				}
			}
		}
	}
	return out
}

// ---- fixture: leaves of a small log, built once per process

type fixture struct {
	leaves [][2][]byte // leaf value, extra data
	hashes [][]byte
	// for logs with external chain storage: the hash-form extra data of each leaf and the storage rows
	hashExtra [][]byte
	chainKey  []string
	chainDER  [][]byte
}

var (
	fixOnce [2]sync.Once
	fixes   [2]fixture
)

func getFixture() *fixture { return getFixtureB(false) }

// getFixtureB returns the six stored entries: ordinary ones, or (bulky) ones of about 30 KiB each.
func getFixtureB(bulky bool) *fixture {
	k, bulk := 0, 0
	if bulky {
		k, bulk = 1, 30000
	}
	fixOnce[k].Do(func() {
		for i := 0; i < 6; i++ {
			b := world.Build(world.ChainSpec{ID: uint32(7000 + 100*k + i), Root: i % 4, Inters: []string{"p256"}[:i%2], LeafKind: "p256", Precert: i%3 == 1, PreIssuer: i == 4, IncludeRoot: true, Bulk: bulk})
			lv, err := rfc6962.EncodeLeaf(rfc6962.Leaf{Timestamp: uint64(1000 + i), Entry: b.Entry()})
			if err != nil {
				panic(err)
			}
			fixes[k].leaves = append(fixes[k].leaves, [2][]byte{lv, b.ExtraData()})
			var parts [][]byte
			for _, c := range b.Full[1:] {
				parts = append(parts, derx.Seq(derx.Octets(c)))
			}
			chain := derx.Seq(parts...)
			sum := sha256.Sum256(chain)
			var hx []byte
			if b.Spec.Precert {
				l := len(b.Full[0])
				hx = append(append(hx, byte(l>>16), byte(l>>8), byte(l)), b.Full[0]...)
			}
			hx = append(append(hx, 0, 32), sum[:]...)
			fixes[k].hashExtra = append(fixes[k].hashExtra, hx)
			fixes[k].chainKey = append(fixes[k].chainKey, string(sum[:]))
			fixes[k].chainDER = append(fixes[k].chainDER, chain)
			h := mtree.LeafHash(lv)
			fixes[k].hashes = append(fixes[k].hashes, h[:])
		}
	})
	return &fixes[k]
}

const fixSize = 6

var errMapper = func(err error) (int, bool) {
	if st, ok := status.FromError(err); ok {
		switch st.Code() {
		case codes.NotFound:
			return http.StatusGone, true
		case codes.Internal:
			return http.StatusBadGateway, true
		}
	}
	return 0, false
}

type rig struct {
	concurrent bool // several requests at once: request-log records cannot be attributed by position
	be    *reflog.Log
	inst  *ctfex.Instance
	clock *ctfex.Clock
	store *memstore.Store
}

const rpcDeadline = 7 * time.Second

func newRig(t *testing.T, mask, mapper, indirect bool) *rig { return newRigB(t, mask, mapper, indirect, false) }

// newRigMapped is a rig whose ErrorMapper turns every backend error into one fixed status.
func newRigMapped(t *testing.T, mask, indirect bool, statusCode int) *rig {
	mapAll = statusCode
	defer func() { mapAll = 0 }()
	return newRigB(t, mask, true, indirect, false)
}

var mapAll int

func newRigB(t *testing.T, mask, mapper, indirect, bulky bool) *rig {
	f := getFixtureB(bulky)
	all := mapAll
	r := &rig{be: reflog.New(6962, 1), clock: ctfex.NewClock(time.Date(2024, 3, 1, 12, 0, 0, 500, time.UTC))}
	for i, l := range f.leaves {
		if indirect && i%2 == 1 {
			// every other stored entry is in the hash-addressed layout: its chain lives in the chain storage
			r.be.AppendRaw(l[0], f.hashExtra[i])
			continue
		}
		r.be.AppendRaw(l[0], l[1])
	}
	r.be.Publish(1234567890)
	o := ctfex.Opts{LogKey: keys.Pick("p256", 2), Roots: world.Roots(), Backend: r.be, Clock: r.clock, Inst: func(io *ctfe.InstanceOptions) {
		io.MaskInternalErrors = mask
		io.Deadline = rpcDeadline
		if mapper {
			io.ErrorMapper = errMapper
		}
		if all != 0 {
			io.ErrorMapper = func(error) (int, bool) { return all, true }
		}
	}}
	if indirect {
		r.store = memstore.New()
		for i := range f.chainKey {
			r.store.M[f.chainKey[i]] = f.chainDER[i]
		}
		o.ChainStorage = r.store
	}
	inst, err := ctfex.New(o)
	if err != nil {
		t.Fatalf("instance: %v", err)
	}
	r.inst = inst
	return r
}

// request describes one HTTP request.
type request struct {
	method, path, query string
	body                []byte
}

func addBody(chain [][]byte) []byte {
	var req struct {
		Chain []string `json:"chain"`
	}
	for _, c := range chain {
		req.Chain = append(req.Chain, base64.StdEncoding.EncodeToString(c))
	}
	b, _ := json.Marshal(req)
	return b
}

var freshID uint32 = 900000

// validRequest builds a request with valid parameters for the endpoint; variant perturbs them within validity.
func validRequest(ep string, variant int, beyond bool) request {
	return validRequestB(ep, variant, beyond, false)
}

func validRequestB(ep string, variant int, beyond, bulky bool) request {
	f := getFixtureB(bulky)
	switch ep {
	case "add-chain", "add-pre-chain":
		freshID++
		b := world.Build(world.ChainSpec{ID: freshID, Root: variant % 4, Inters: []string{"p256", "p384"}[:variant%3], LeafKind: "p256", Precert: ep == "add-pre-chain", PreIssuer: variant%2 == 1, IncludeRoot: variant%2 == 0})
		return request{"POST", "/ct/v1/" + ep, "", addBody(b.Submit)}
	case "get-sth":
		return request{"GET", "/ct/v1/get-sth", "", nil}
	case "get-sth-consistency":
		first, second := 1+variant%4, 2+variant%4+variant%2
		if second > fixSize {
			second = fixSize
		}
		if beyond {
			second = fixSize + 1 + variant%5
		}
		return request{"GET", "/ct/v1/get-sth-consistency", fmt.Sprintf("first=%d&second=%d", first, second), nil}
	case "get-proof-by-hash":
		idx := variant % fixSize
		ts := fixSize - variant%(fixSize-idx)
		if beyond {
			ts = fixSize + 1 + variant%5
		}
		q := url.Values{"hash": {base64.StdEncoding.EncodeToString(f.hashes[idx])}, "tree_size": {fmt.Sprint(ts)}}
		return request{"GET", "/ct/v1/get-proof-by-hash", q.Encode(), nil}
	case "get-entries":
		start := variant % fixSize
		end := start + variant%3
		if variant%2 == 1 {
			// every other variant asks for a range of at least four stored leaves
			start = variant % 2
			end = start + 3 + variant%2
		}
		if beyond {
			start = fixSize + variant%5
			end = start + variant%3
		}
		return request{"GET", "/ct/v1/get-entries", fmt.Sprintf("start=%d&end=%d", start, end), nil}
	case "get-entry-and-proof":
		idx := variant % (fixSize - 1)
		ts := idx + 2 + variant%(fixSize-idx-1)
		if ts > fixSize {
			ts = fixSize
		}
		if beyond {
			ts = fixSize + 1 + variant%5
		}
		return request{"GET", "/ct/v1/get-entry-and-proof", fmt.Sprintf("leaf_index=%d&tree_size=%d", idx, ts), nil}
	}
	panic(ep)
}

func garbleRoot(slrp **trillian.SignedLogRoot, how string) {
	slr := *slrp
	switch how {
	case "slr-absent":
		*slrp = nil
	case "root-empty":
		slr.LogRoot = []byte{}
	case "root-truncated":
		slr.LogRoot = slr.LogRoot[:len(slr.LogRoot)-3]
	case "root-version":
		slr.LogRoot[1] = 2
	case "root-badlen":
		// the root-hash length prefix claims more bytes than the message holds
		slr.LogRoot[10] = 0xff
	case "roothash-0", "roothash-31", "roothash-33":
		var r types.LogRootV1
		if err := r.UnmarshalBinary(slr.LogRoot); err != nil {
			panic(err)
		}
		n := map[string]int{"roothash-0": 0, "roothash-31": 31, "roothash-33": 33}[how]
		r.RootHash = make([]byte, n)
		b, err := r.MarshalBinary()
		if err != nil {
			panic(err)
		}
		slr.LogRoot = b
	}
}

func badHash(how string) []byte {
	return make([]byte, map[string]int{"proof-hash-0": 0, "proof-hash-31": 31, "proof-hash-33": 33}[how])
}

// mutateReply applies the named malformation to an honest reply.
func mutateReply(how string, rsp proto.Message) proto.Message {
	isRoot := strings.HasPrefix(how, "root") || how == "slr-absent"
	switch r := rsp.(type) {
	case *trillian.QueueLeafResponse:
		switch how {
		case "queued-absent":
			r.QueuedLeaf = nil
		case "leaf-absent":
			r.QueuedLeaf.Leaf = nil
		case "leafvalue-garbage":
			r.QueuedLeaf.Leaf.LeafValue = []byte{0, 0, 1, 2, 3}
		case "leafvalue-trailing":
			r.QueuedLeaf.Leaf.LeafValue = append(r.QueuedLeaf.Leaf.LeafValue, 0)
		case "leafvalue-empty":
			r.QueuedLeaf.Leaf.LeafValue = nil
		}
	case *trillian.GetLatestSignedLogRootResponse:
		garbleRoot(&r.SignedLogRoot, how)
	case *trillian.GetConsistencyProofResponse:
		switch {
		case isRoot:
			garbleRoot(&r.SignedLogRoot, how)
		case how == "proof-absent":
			r.Proof = nil
		default:
			r.Proof.Hashes = append(r.Proof.Hashes, nil)
			copy(r.Proof.Hashes[1:], r.Proof.Hashes)
			r.Proof.Hashes[0] = badHash(how)
		}
	case *trillian.GetInclusionProofByHashResponse:
		switch {
		case isRoot:
			garbleRoot(&r.SignedLogRoot, how)
		case how == "proof-list-empty":
			r.Proof = nil
		case strings.HasSuffix(how, "-then-good-proof"):
			// the first proof (the one that is served) is malformed, a well-formed one follows
			bad := proto.Clone(r.Proof[0]).(*trillian.Proof)
			bad.Hashes = append(bad.Hashes, badHash(strings.TrimSuffix(how, "-then-good-proof")))
			r.Proof = append([]*trillian.Proof{bad}, r.Proof...)
		default:
			r.Proof[0].Hashes = append(r.Proof[0].Hashes, badHash(how))
		}
	case *trillian.GetLeavesByRangeResponse:
		switch {
		case isRoot:
			garbleRoot(&r.SignedLogRoot, how)
		case how == "surplus-one":
			// exactly one leaf more than was asked for, contiguous with the rest
			last := r.Leaves[len(r.Leaves)-1]
			extra := proto.Clone(last).(*trillian.LogLeaf)
			extra.LeafIndex = last.LeafIndex + 1
			r.Leaves = append(r.Leaves, extra)
		case how == "surplus-leaves":
			last := r.Leaves[len(r.Leaves)-1]
			for i := 1; i <= 3; i++ {
				extra := proto.Clone(last).(*trillian.LogLeaf)
				extra.LeafIndex = last.LeafIndex + int64(i)
				r.Leaves = append(r.Leaves, extra)
			}
		case how == "index-off":
			r.Leaves[len(r.Leaves)-1].LeafIndex++
		case how == "shifted-run":
			// an unbroken run that starts one index late
			for _, l := range r.Leaves {
				l.LeafIndex++
			}
		case how == "single-leaf-elsewhere":
			// one leaf only, and not the one asked for first
			r.Leaves = r.Leaves[:1]
			r.Leaves[0].LeafIndex++
		case how == "inner-swap" && len(r.Leaves) >= 4:
			// both ends in place, two inner leaves exchanged
			r.Leaves[1], r.Leaves[2] = r.Leaves[2], r.Leaves[1]
		case how == "inner-duplicate" && len(r.Leaves) >= 4:
			r.Leaves[2] = proto.Clone(r.Leaves[1]).(*trillian.LogLeaf)
		case how == "inner-foreign" && len(r.Leaves) >= 4:
			r.Leaves[1].LeafIndex = r.Leaves[len(r.Leaves)-1].LeafIndex + 7
		case strings.HasPrefix(how, "inner-"):
			r.Leaves[0].LeafIndex += 2 // too few leaves to leave the ends alone
		case how == "out-of-order":
			if len(r.Leaves) >= 2 {
				r.Leaves[0], r.Leaves[1] = r.Leaves[1], r.Leaves[0]
			} else {
				r.Leaves[0].LeafIndex--
			}
		}
	case *trillian.GetEntryAndProofResponse:
		switch {
		case isRoot:
			garbleRoot(&r.SignedLogRoot, how)
		case how == "leaf-absent":
			r.Leaf = nil
		case how == "leafvalue-empty":
			r.Leaf.LeafValue = nil
		case how == "proof-absent":
			r.Proof = nil
		case how == "proof-empty":
			r.Proof.Hashes = nil
		}
	}
	return rsp
}

// expected status class.
func expect(f Fault, mapper bool) string {
	switch f.Kind {
	case "code":
		c := codes.Code(f.Code)
		if mapper {
			switch c {
			case codes.NotFound:
				return "=410"
			case codes.Internal:
				return "=502"
			}
		}
		switch c {
		case codes.InvalidArgument, codes.OutOfRange, codes.AlreadyExists, codes.NotFound, codes.PermissionDenied, codes.Unauthenticated, codes.FailedPrecondition, codes.Aborted:
			return "4xx-not-429"
		case codes.ResourceExhausted:
			return "=429"
		case codes.Unavailable:
			return "=503"
		case codes.Canceled, codes.DeadlineExceeded:
			return "=504"
		default:
			return "5xx"
		}
	case "plain", "ctx-deadline", "ctx-cancel":
		return "5xx"
	case "storage":
		return "non-200"
	case "beyond-tree":
		return "4xx-not-429"
	case "reply":
		if f.Reply == "proof-list-empty" {
			// the backend found no proof: the statement does not fix a class; any non-200 is accepted
			return "non-200"
		}
		return "5xx"
	}
	panic(f.Kind)
}

func classOK(class string, st int) bool {
	switch class {
	case "4xx-not-429":
		return st >= 400 && st < 500 && st != 429
	case "5xx":
		return st >= 500 && st < 600
	case "non-200":
		return st != 200 && st >= 400 && st < 600
	}
	if strings.HasPrefix(class, "=") {
		return fmt.Sprint(st) == class[1:]
	}
	return false
}

func faultErr(f Fault) error {
	switch f.Kind {
	case "code":
		return status.Error(codes.Code(f.Code), "injected fault")
	case "plain":
		return errors.New("injected plain error")
	case "ctx-deadline":
		return context.DeadlineExceeded
	case "ctx-cancel":
		return context.Canceled
	}
	return nil
}

func storageErr(class string) error {
	switch class {
	case "deadline":
		return fmt.Errorf("chain storage: %w", context.DeadlineExceeded)
	case "status-deadline":
		return status.Error(codes.DeadlineExceeded, "chain storage")
	case "canceled":
		return fmt.Errorf("chain storage: %w", context.Canceled)
	case "unavailable":
		return status.Error(codes.Unavailable, "chain storage")
	case "no-rows":
		return sql.ErrNoRows
	}
	return errors.New("chain storage: injected failure")
}

// arm installs the fault for the n-th call (0-based, counted from now) of the endpoint's RPC.
func (r *rig) arm(ep string, f Fault, nth int) {
	if f.Kind == "storage" {
		err := storageErr(f.Reply)
		r.store.FailGet = func(int) error { return err }
		return
	}
	rpc := rpcOf[ep]
	base := len(r.be.CallsOf(rpc))
	target := base + nth
	if err := faultErr(f); err != nil {
		r.be.Intercept = func(c reflog.Call) (proto.Message, error, bool) {
			if c.RPC == rpc && c.N == target {
				return nil, err, true
			}
			return nil, nil, false
		}
		return
	}
	if f.Kind == "reply" {
		r.be.Mutate = func(c reflog.Call, rsp proto.Message) proto.Message {
			if c.RPC == rpc && c.N == target {
				return mutateReply(f.Reply, rsp)
			}
			return rsp
		}
	}
	if f.Kind == "beyond-tree" && ep == "get-proof-by-hash" {
		// a backend that answers with its (smaller) tree head and a proof nonetheless
		root := r.be.CurrentRoot()
		r.be.Intercept = func(c reflog.Call) (proto.Message, error, bool) {
			if c.RPC == rpc && c.N == target {
				rb, _ := root.MarshalBinary()
				return &trillian.GetInclusionProofByHashResponse{SignedLogRoot: &trillian.SignedLogRoot{LogRoot: rb},
					Proof: []*trillian.Proof{{LeafIndex: 1, Hashes: [][]byte{make([]byte, 32), make([]byte, 32)}}}}, nil, true
			}
			return nil, nil, false
		}
	}
}

type outcome struct {
	status   int
	body     []byte
	panicked any
	ev       *ctfex.ReqEvent
	calls    []reflog.Call // backend calls made during this request
}

// setAccept makes every request of the rig carry that Accept header.
func (r *rig) setAccept(a string) {
	if a != "" {
		r.inst.ReqTweak = func(rq *http.Request) { rq.Header.Set("Accept", a) }
	}
}

func (r *rig) do(q request) (o outcome) {
	nCalls := r.be.NumCalls()
	nEv := 0
	if !r.concurrent {
		nEv = len(r.inst.Spy.Events)
	}
	func() {
		defer func() {
			if p := recover(); p != nil {
				o.panicked = p
			}
		}()
		rsp := r.inst.Do(context.Background(), q.method, q.path, q.query, q.body)
		o.status, o.body = rsp.Status, rsp.Body
	}()
	if !r.concurrent && len(r.inst.Spy.Events) > nEv {
		o.ev = r.inst.Spy.Events[nEv]
	}
	o.calls = r.be.AllCalls()[nCalls:]
	return o
}

// judgeFault applies the C08 oracle to the outcome of the request that hit the fault.
func judgeFault(v *harness.Verdict, r *rig, ep string, f Fault, mask, mapper bool, o outcome, where string) {
	tag := fmt.Sprintf("%s %s/%d/%s mask=%v mapper=%v %s", ep, f.Kind, f.Code, f.Reply, mask, mapper, where)
	if o.panicked != nil {
		sig := "panic"
		if f.Kind == "reply" {
			sig = "panic-absent-part"
		}
		v.Failf(sig, "%s: handler panicked: %v", tag, o.panicked)
		return
	}
	if o.status == 200 {
		v.Failf("fault-answered-200", "%s: answered 200 %q", tag, trunc(o.body))
		return
	}
	want := expect(f, mapper)
	if !classOK(want, o.status) {
		v.Failf("status-class", "%s: status %d, want %s", tag, o.status, want)
	}
	if o.ev != nil {
		if len(o.ev.IssuedSCTs) != 0 {
			v.Failf("sct-issued-on-failure", "%s: RequestLog.IssueSCT called on a %d path", tag, o.status)
		}
		if len(o.ev.Statuses) != 1 || o.ev.Statuses[0] != o.status {
			v.Failf("status-log", "%s: RequestLog.Status %v, HTTP status %d", tag, o.ev.Statuses, o.status)
		}
	}
	if strings.HasPrefix(ep, "add-") {
		var m map[string]any
		if json.Unmarshal(o.body, &m) == nil && m["signature"] != nil {
			v.Failf("sct-in-error-body", "%s: non-200 body carries an SCT: %q", tag, trunc(o.body))
		}
	}
	if o.status == 500 {
		if mask && string(o.body) != "Internal Server Error\n" {
			v.Failf("mask-leak", "%s: masked 500 body is %q", tag, trunc(o.body))
		}
	}
	checkDeadlines(v, r, o, tag)
}

func checkDeadlines(v *harness.Verdict, r *rig, o outcome, tag string) {
	limit := r.clock.Now().Add(rpcDeadline)
	for _, c := range o.calls {
		if !c.HasDeadline || c.Deadline.After(limit) {
			v.Failf("rpc-deadline", "%s: backend call %s carries deadline %v (has=%v), want <= clock+%v", tag, c.RPC, c.Deadline, c.HasDeadline, rpcDeadline)
		}
	}
}

func trunc(b []byte) string {
	if len(b) > 160 {
		return string(b[:160]) + "..."
	}
	return string(b)
}

func checkCell(t *testing.T, c Cell) (v harness.Verdict) {
	v.NonTrivial = true
	if c.Verbose {
		harness.SetKlogVerbosity(3)
		defer harness.SetKlogVerbosity(0)
		v.Class("debug-logging-on")
	}
	if c.Bulky {
		v.Class("bulky-entries")
	}
	r := newRigB(t, c.Mask, c.Mapper, c.Indirect, c.Bulky)
	r.setAccept(c.Accept)
	if c.Accept != "" {
		v.Class("accept-header:" + c.Accept)
	}
	r.arm(c.Endpoint, c.Fault, 0)
	q := validRequestB(c.Endpoint, 3, c.Fault.Kind == "beyond-tree", c.Bulky)
	if c.SmallMax {
		ctfe.MaxGetEntriesAllowed = 4
		defer func() { ctfe.MaxGetEntriesAllowed = 1000 }()
		if c.Fault.Kind != "beyond-tree" {
			q.query = "start=1&end=5" // capped to 4 entries and shortened by alignment to [1,3]
		}
		v.Class("small-max-aligned-range")
	}
	if c.Fault.Kind == "storage" {
		if c.Endpoint == "get-entries" {
			q.query = "start=0&end=3"
		} else {
			q.query = fmt.Sprintf("leaf_index=1&tree_size=%d", fixSize)
		}
	}
	o := r.do(q)
	v.Class("ep:"+c.Endpoint, "fault:"+c.Fault.Kind)
	if c.Fault.Kind == "storage" {
		if g, _ := 0, 0; g == 0 {
			if _, gets := r.store.Calls(); gets == 0 && o.panicked == nil {
				v.Failf("harness-fault-not-hit", "%v: the chain storage was not read, the fault cannot have been exercised", c)
			}
		}
	}
	judgeFault(&v, r, c.Endpoint, c.Fault, c.Mask, c.Mapper, o, "matrix")
	if len(o.calls) != 1 && o.panicked == nil && c.Fault.Kind != "storage" {
		v.Failf("harness-fault-not-hit", "%v: request made %d backend calls, the fault cannot have been exercised", c, len(o.calls))
	}
	return v
}

// Matrix is the exhaustive endpoint x RPC x fault x configuration matrix.
var Matrix = harness.DefineEnum(harness.Opts{
	Name: "matrix",
	Rule: "exhaustive: 7 backend-calling endpoints x {gRPC codes 1..16 as status errors, plain error, raw context.DeadlineExceeded / Canceled, every malformed-reply class applicable to the endpoint's RPC, request beyond the current tree} x MaskInternalErrors on/off x ErrorMapper absent/overriding x (for entry-serving and submission endpoints) direct/external chain storage, plus every cell again with klog -v=3 and the entry-serving cells again over ~30 KiB entries (replies far larger than any write buffer); every cell is distinct and non-trivial",
}, matrix, checkCell)
