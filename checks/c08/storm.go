package c08

import (
	"fmt"
	"sync"
	"testing"

	"google.golang.org/protobuf/proto"
	"pgregory.net/rapid"

	"verif/internal/harness"
	"verif/internal/reflog"
)

// StormCase: several clients at once against one instance whose backend fails every call in the same way.
// Failing requests share whatever the front end keeps per log (error counters, log throttles, caches); each
// of them must still be answered like a matrix cell, and the process must survive (race detector on).
type StormCase struct {
	Mask, Mapper, Indirect bool
	Accept                 string
	Workers, PerWorker     int
	Fault                  Fault // Kind code | plain | ctx-deadline | ctx-cancel only
	Endpoints              []string
	// MapTo != 0: an ErrorMapper turns every backend error into this HTTP status (statuses the process has
	// not reported before appear in several requests at once)
	MapTo int
}

func genStorm(t *rapid.T) StormCase {
	c := StormCase{Mask: rapid.Bool().Draw(t, "mask"), Mapper: rapid.Bool().Draw(t, "mapper"), Indirect: rapid.Bool().Draw(t, "indirect"), Accept: rapid.SampledFrom(accepts).Draw(t, "accept")}
	c.Workers, c.PerWorker = rapid.IntRange(2, 8).Draw(t, "workers"), rapid.IntRange(3, 12).Draw(t, "per")
	var fs []Fault
	for _, f := range allFaults("get-sth") {
		if f.Kind != "reply" {
			fs = append(fs, f)
		}
	}
	c.Fault = fs[rapid.IntRange(0, len(fs)-1).Draw(t, "fault")]
	if rapid.Bool().Draw(t, "mapto") {
		c.MapTo = rapid.IntRange(400, 599).Draw(t, "status")
	}
	for i, n := 0, rapid.IntRange(1, 4).Draw(t, "neps"); i < n; i++ {
		c.Endpoints = append(c.Endpoints, rapid.SampledFrom(endpoints).Draw(t, "ep"))
	}
	return c
}

func checkStorm(t *testing.T, c StormCase) (v harness.Verdict) {
	v.NonTrivial = true
	r := newRigB(t, c.Mask, c.Mapper, c.Indirect, false)
	if c.MapTo != 0 {
		r = newRigMapped(t, c.Mask, c.Indirect, c.MapTo)
	}
	r.setAccept(c.Accept)
	r.concurrent = true
	err := faultErr(c.Fault)
	r.be.Intercept = func(reflog.Call) (proto.Message, error, bool) { return nil, err, true }
	var mu sync.Mutex
	var wg sync.WaitGroup
	for w := 0; w < c.Workers; w++ {
		wg.Add(1)
		go func(w int) {
			defer wg.Done()
			for k := 0; k < c.PerWorker; k++ {
				ep := c.Endpoints[(w+k)%len(c.Endpoints)]
				mu.Lock()
				q := validRequest(ep, w*31+k, false) // builds certificates: one at a time
				mu.Unlock()
				o := r.do(q)
				mu.Lock()
				o.ev = nil // request-log records of concurrent requests cannot be told apart by position
				if c.MapTo != 0 {
					if o.panicked != nil {
						v.Failf("panic", "storm worker %d request %d (%s): %v", w, k, ep, o.panicked)
					} else if o.status != c.MapTo {
						v.Failf("status-class", "storm worker %d request %d (%s): the mapper asks for %d, answered %d %q", w, k, ep, c.MapTo, o.status, trunc(o.body))
					}
				} else {
					judgeFault(&v, r, ep, c.Fault, c.Mask, c.Mapper, o, fmt.Sprintf("storm worker %d request %d", w, k))
				}
				mu.Unlock()
			}
		}(w)
	}
	wg.Wait()
	v.Class("fault:"+c.Fault.Kind, fmt.Sprintf("workers:%d", c.Workers))
	return v
}

// Storm is the concurrent half of C08.
var Storm = harness.Define(harness.Opts{
	Name:  "storm",
	Rule:  "2-8 goroutines send 3-12 valid requests each (1-4 endpoints) to one instance whose backend fails every call with one drawn error (gRPC code 1..16, plain error, raw context errors); every answer is judged like a matrix cell; the race detector is on. Every case is non-trivial",
	Quick: 120, Thorough: 1500, Crashy: true,
}, genStorm, checkStorm)
