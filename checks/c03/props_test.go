package c03

import (
	"testing"

	"verif/internal/harness"
)

func TestProps(t *testing.T) { harness.Main(t, "C03", Entry, SCT, Huge) }
