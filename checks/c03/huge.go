package c03

import (
	"bytes"
	"crypto/sha256"
	"fmt"
	"math/big"
	"testing"

	ct "github.com/google/certificate-transparency-go"
	"github.com/google/certificate-transparency-go/ctutil"
	"github.com/google/certificate-transparency-go/tls"
	"github.com/google/certificate-transparency-go/x509"
	"pgregory.net/rapid"

	"verif/internal/harness"
	"verif/internal/keys"
	"verif/internal/pki"
	"verif/internal/preref"
	"verif/internal/rfc6962"
)

// HugeCase: the logged TBSCertificate E sits within one SCT-list extension of the 2^24-1 byte capacity of
// PreCert.tbs_certificate, so that the final certificate's TBS is larger than that capacity while the
// entry itself still fits. Thorough tier only (about 16 MiB per artefact).
type HugeCase struct {
	Slack     int // len(E) = 2^24-1 - Slack
	Fill      byte
	IssuerIdx int
	LeafIdx   int
	BigAt     int // position of the big private extension among the content extensions (0..2)
	PoisonPos int
	SCTPos    int
	SCTExtLen int
	Timestamp uint64
}

const maxTBS = 1<<24 - 1

func genHuge(t *rapid.T) HugeCase {
	c := HugeCase{
		Fill:      byte(rapid.IntRange(0, 255).Draw(t, "fill")),
		IssuerIdx: rapid.IntRange(0, 7).Draw(t, "issuer"),
		LeafIdx:   rapid.IntRange(8, 15).Draw(t, "leaf"),
		BigAt:     rapid.IntRange(0, 2).Draw(t, "bigat"),
		PoisonPos: rapid.IntRange(0, 3).Draw(t, "poisonpos"),
		SCTPos:    rapid.IntRange(0, 3).Draw(t, "sctpos"),
		SCTExtLen: rapid.IntRange(0, 300).Draw(t, "sctextlen"),
		Timestamp: genTimestamp(t, "ts"),
	}
	switch rapid.IntRange(0, 2).Draw(t, "slackmode") {
	case 0:
		c.Slack = rapid.IntRange(0, 2).Draw(t, "slack0")
	default:
		c.Slack = rapid.IntRange(0, 60).Draw(t, "slack")
	}
	return c
}

func checkHuge(t *testing.T, c HugeCase) harness.Verdict {
	var v harness.Verdict
	ik, lk := keys.Pick("p256", c.IssuerIdx), keys.Pick("p256", c.LeafIdx)
	iname := pki.CN("huge issuer")
	icert := caCert(iname, iname, ik, ik, "", 1, []pki.Ext{pki.BasicConstraints(true, -1, true), pki.SKI(pki.KeyID(ik))})
	small := []pki.Ext{pki.SKI(pki.KeyID(lk)), pki.SANDNS("huge.example")}
	tbs := func(exts []pki.Ext) []byte {
		tm := pki.Template{Serial: big.NewInt(0x4855), Issuer: iname, Subject: pki.CN("huge"), NotBefore: pki.Epoch, NotAfter: pki.Epoch.AddDate(1, 0, 0), Key: lk, Exts: exts}
		return tm.TBS(ik)
	}
	content := func(n int) []pki.Ext {
		bigExt := pki.Ext{OID: []int{1, 3, 6, 1, 4, 1, 99999, 16}, Value: bytes.Repeat([]byte{c.Fill, c.Fill ^ 0x5a, 0x30, 0x80}, n/4+1)[:n]}
		return insertExt(small, c.BigAt, bigExt)
	}
	// size the big value so that E is exactly maxTBS - Slack bytes long
	target := maxTBS - c.Slack
	n := target - 400
	var e []byte
	for i := 0; i < 4; i++ {
		e = tbs(content(n))
		if len(e) == target {
			break
		}
		n += target - len(e)
	}
	if len(e) != target {
		v.Failf("harness-selfcheck", "could not size E to %d bytes (got %d)", target, len(e))
		return v
	}
	exts := content(n)
	anchor := &rfc6962.SCT{LogID: logID(3), Timestamp: c.Timestamp, Extensions: det("huge-ext", c.SCTExtLen),
		Signature: rfc6962.DigitallySigned{Hash: 4, Sig: 3, Signature: det("huge-sig", 71)}}
	list, err := rfc6962.EncodeSCTList([][]byte{mustSCT(anchor)})
	if err != nil {
		panic(err)
	}
	ptbs := tbs(insertExt(exts, clamp(c.PoisonPos, len(exts)), pki.Poison()))
	ftbs := tbs(insertExt(exts, clamp(c.SCTPos, len(exts)), pki.SCTList(list)))
	if ref, rerr := preref.Transform(ptbs, preref.OIDPoison, nil); rerr != nil || !bytes.Equal(ref, e) {
		v.Failf("harness-selfcheck", "reference transformation of the huge precertificate does not give E (%v)", rerr)
		return v
	}
	if len(ftbs) <= maxTBS {
		v.Failf("harness-selfcheck", "final TBS (%d bytes) does not exceed the entry capacity", len(ftbs))
		return v
	}
	v.NonTrivial = true
	v.Class(fmt.Sprintf("slack<=%d", map[bool]int{true: 2, false: 60}[c.Slack <= 2]))
	if len(ptbs) > maxTBS {
		v.Class("precert-tbs-also-over-capacity")
	}
	P, F := pki.SignTBS(ptbs, ik, ""), pki.SignTBS(ftbs, ik, "")
	parse := func(label string, der []byte) *x509.Certificate {
		cert, perr := x509.ParseCertificate(der)
		if perr != nil {
			v.Failf("generated-cert-unclean", "%s does not parse cleanly: %v", label, perr)
		}
		return cert
	}
	pI, pP, pF := parse("I", icert), parse("P", P), parse("F", F)
	if len(v.Violations) > 0 {
		return v
	}
	hash := sha256.Sum256(ik.SPKI)
	want, err := rfc6962.EncodeLeaf(rfc6962.Leaf{Timestamp: c.Timestamp, Entry: rfc6962.Entry{Type: rfc6962.PrecertEntry, IssuerKeyHash: hash, TBS: e}})
	if err != nil {
		panic(err)
	}
	judge := func(route string, leaf *ct.MerkleTreeLeaf, lerr error) {
		if lerr != nil || leaf == nil || leaf.TimestampedEntry == nil || leaf.TimestampedEntry.PrecertEntry == nil {
			v.Failf("huge-"+route+"-error", "%s refuses an entry of %d bytes (capacity %d; final TBS %d bytes): %v", route, len(e), maxTBS, len(ftbs), lerr)
			return
		}
		pe := leaf.TimestampedEntry.PrecertEntry
		if pe.IssuerKeyHash != hash || !bytes.Equal(pe.TBSCertificate, e) {
			v.Failf("huge-"+route+"-entry", "%s: entry differs from E (tbs %d bytes, want %d; first difference at %d)", route, len(pe.TBSCertificate), len(e), firstDiff(pe.TBSCertificate, e))
			return
		}
		enc, merr := tls.Marshal(*leaf)
		if merr != nil || !bytes.Equal(enc, want) {
			v.Failf("huge-"+route+"-encoding", "%s: leaf does not TLS-encode to the RFC 6962 reference (%v)", route, merr)
		}
	}
	leaf, lerr := ct.MerkleTreeLeafFromChain([]*x509.Certificate{pP, pI}, ct.PrecertLogEntryType, c.Timestamp)
	judge("fromchain", leaf, lerr)
	leaf, lerr = ct.MerkleTreeLeafForEmbeddedSCT([]*x509.Certificate{pF, pI}, c.Timestamp)
	judge("embedded", leaf, lerr)
	wantHash := rfc6962.LeafHash(want)
	sct := modelToCT(anchor)
	if h, herr := ctutil.LeafHash([]*x509.Certificate{pP, pI}, sct, false); herr != nil || h != wantHash {
		v.Failf("huge-leafhash-precert", "ctutil.LeafHash(precert chain) = %x (%v), want %x", h, herr, wantHash)
	}
	if h, herr := ctutil.LeafHash([]*x509.Certificate{pF, pI}, sct, true); herr != nil || h != wantHash {
		v.Failf("huge-leafhash-embedded", "ctutil.LeafHash(final chain, embedded) = %x (%v), want %x", h, herr, wantHash)
	}
	return v
}

// Huge runs in the thorough tier only (Quick: 0): every artefact is about 16 MiB.
var Huge = harness.Define(harness.Opts{
	Name:      "huge",
	Rule:      "thorough only: the logged TBSCertificate is 2^24-1-slack bytes (slack 0..60, smaller than the SCT list extension), so the final certificate's TBS exceeds the capacity of PreCert.tbs_certificate while the entry fits; both routes must still give the same entry",
	Quick:     0,
	Thorough:  2,
	MaxSample: 400,
}, genHuge, checkHuge)
