// Package c03: the precertificate route and the embedded-SCT route yield the identical log entry.
//
// model.go holds the Case (pure data), its rapid generator and the builder that turns a Case into the
// byte-level artefacts (issuer I, optional pre-issuer PI, precertificate P, expected entry E, final
// certificate F) together with the ground truth the oracles need. Nothing in this file calls the code
// under test.
package c03

import (
	"bytes"
	"crypto"
	"crypto/ecdsa"
	"crypto/rand"
	"crypto/rsa"
	"crypto/sha256"
	"encoding/binary"
	"encoding/hex"
	"encoding/pem"
	"fmt"
	"math"
	"math/big"
	"sort"
	"strings"
	"sync"
	"time"

	"pgregory.net/rapid"

	"verif/internal/derx"
	"verif/internal/harness"
	"verif/internal/keys"
	"verif/internal/pki"
	"verif/internal/preref"
	"verif/internal/rfc6962"
)

// ---------------------------------------------------------------------------------------------
// Case

// AttrC is one AttributeTypeAndValue: OID indexes attrOIDs, Tag is the string type.
type AttrC struct {
	OID int
	Tag byte
	Val string
}

// NameC is an RDNSequence; each RDN is a SET of attributes (sorted into DER order by the builder).
type NameC [][]AttrC

// ExtC is one non-CT extension of the content.
type ExtC struct {
	Kind string // bc ku eku san ski aki pol aia crldp unk
	Crit bool
	V    int // variant selector (meaning depends on Kind)
	N    int // size selector: value length for unk, key-id length for ski/aki, element count otherwise
	Arc  int // unk: selects the OID
	Arcs []int // unk (when Arc is not one of the fixed awkward OIDs): private arcs below 1.3.6.1.4.1, 1-5 base-128 digits each
}

// UIDC is a UniqueIdentifier BIT STRING.
type UIDC struct {
	Hex    string
	Unused int // 0..7 (0 when empty)
}

// SCTC describes one element of the embedded SCT list.
type SCTC struct {
	Kind    string // anchor | wf | opaque
	Version uint8  // wf: the sct_version octet (0 = v1; anything else is opaque to the list codec but still has the SCT layout)
	LogIdx  int    // wf: selects the log id
	TS      uint64 // wf
	ExtLen  int    // wf / anchor: length of the CtExtensions
	Hash    uint8  // wf
	Sig     uint8  // wf
	SigLen  int    // wf (anchor of the entry prop): length of the signature bytes
	BlobLen int    // opaque: total length
}

// Case is the complete description of one certificate content and its two routes.
type Case struct {
	// content C
	Serial     string // hex magnitude of the serial number (minimal, positive)
	Subject    NameC
	NotBefore  int64 // unix seconds, 1950-01-01 .. 9999-12-31T23:59:59
	NotAfter   int64
	KeyKind    string
	KeyIdx     int
	IssuerUID  *UIDC
	SubjectUID *UIDC
	Exts       []ExtC

	VersionField int // 0: v3 ([0] 2); 1: version field absent (labelled v1) ; 2: [0] 1 (labelled v2) - the extensions stay

	// issuance
	IssuerNoNull  bool // RSA issuer keys only: the issuer's SubjectPublicKeyInfo omits the NULL algorithm parameters
	IssuerName    NameC
	IssuerKeyKind string
	IssuerKeyIdx  int
	SigAlg        int // index into pki.SigAlgsFor(issuer key)
	PreIssuer     bool
	PIName        NameC
	PIRespell     bool // the precertificate spells the pre-issuer's name with other string types than the pre-issuer certificate does
	PIKeyIdx      int
	PIAKI         int  // 0 none, 1 key id (20), 2 short key id, 3 key id + issuer + serial, 4 long key id
	PIAKICrit     bool
	PIEKUShape    int // where the CT EKU sits among the pre-issuer's EKUs
	IssuerEKU     int  // EKUs of the final issuer (and of the sibling issuer): 0 none, 1 serverAuth, 2 anyExtendedKeyUsage, 3 anyExtendedKeyUsage + others, 4 serverAuth + clientAuth
	IssuerCTEKU   bool // with a pre-issuer only: the final issuer itself lists the CT EKU next to other EKUs (EKU-constrained CA)
	IssuerSKI     int // subjectKeyIdentifier of the final issuer: 0 absent, 1 key-derived, 2.. one of skiPool (independent of the key)
	PISKI         int // same for the pre-issuer
	SiblingOff    int // selects the key of the sibling issuer (same name and SKI as the final issuer, another key)
	SiblingFirst  bool
	PoisonPos     int // clamped to [0, len(Exts)]
	PoisonNonCrit bool // the poison extension is NOT flagged critical (RFC 6962 wants it critical; only route agreement is asserted then)
	SCTPos        int // clamped to [0, len(extensions of E)]
	ExtraInChain  bool // append a fourth certificate to the submitted chain

	// SCT list
	Timestamp  uint64
	SCTs       []SCTC
	ListTarget int // when > 0: pad one filler SCT so that the list body is exactly this long (if feasible)
	LogKeyKind string
	LogKeyIdx  int

	// negatives
	Poison2Pos int    // position of the second poison in the "two poisons" variant
	SCT2Pos    int    // position of the second SCT list in the "two lists" variant
	TSDelta    uint64 // != 0: the "other timestamp"
	OtherE     int    // which "other entry" the foreign SCT is signed over
	PEM        bool   // read the SCTs back through the PEM form as well
	Trailing   string // hex, 1-3 bytes appended after the TLS list inside the OCTET STRING (negative variant)
}

var attrOIDs = [][]int{
	{2, 5, 4, 3}, {2, 5, 4, 6}, {2, 5, 4, 10}, {2, 5, 4, 11}, {2, 5, 4, 7}, {2, 5, 4, 8}, {2, 5, 4, 5},
	{1, 2, 840, 113549, 1, 9, 1}, {0, 9, 2342, 19200300, 100, 1, 25}, {2, 5, 4, 97}, {1, 3, 6, 1, 4, 1, 311, 60, 2, 1, 3},
}

const printableChars = "ABCDEFGHIJKLMNOPQRSTUVWXYZabcdefghijklmnopqrstuvwxyz0123456789 '()+,-./:=?"

var utf8Runes = []rune("abcXYZ09 -.é ñüßŁødzЖяλ中文日本한€✓𝔘")

func genStr(t *rapid.T, tag byte, label string) string {
	n := rapid.IntRange(0, 14).Draw(t, label+"len")
	if rapid.IntRange(0, 39).Draw(t, label+"long") == 0 {
		n = rapid.IntRange(60, 140).Draw(t, label+"longlen")
	}
	rs := make([]rune, n)
	for i := range rs {
		switch tag {
		case derx.TagPrintable:
			rs[i] = rune(printableChars[rapid.IntRange(0, len(printableChars)-1).Draw(t, label+"c")])
		case derx.TagIA5:
			rs[i] = rune(rapid.IntRange(0x20, 0x7e).Draw(t, label+"c"))
		default:
			rs[i] = utf8Runes[rapid.IntRange(0, len(utf8Runes)-1).Draw(t, label+"c")]
		}
	}
	return string(rs)
}

var strTags = []byte{derx.TagPrintable, derx.TagUTF8String, derx.TagIA5}

func genName(t *rapid.T, label string, allowEmpty bool) NameC {
	lo := 1
	if allowEmpty && rapid.IntRange(0, 29).Draw(t, label+"empty") == 0 {
		lo = 0
	}
	nr := 0
	if lo == 1 {
		nr = rapid.IntRange(1, 4).Draw(t, label+"rdns")
	}
	var n NameC
	for i := 0; i < nr; i++ {
		na := 1
		if rapid.IntRange(0, 3).Draw(t, label+"multi") == 0 {
			na = rapid.IntRange(2, 3).Draw(t, label+"attrs")
		}
		var rdn []AttrC
		for j := 0; j < na; j++ {
			tag := strTags[rapid.IntRange(0, 2).Draw(t, label+"tag")]
			rdn = append(rdn, AttrC{OID: rapid.IntRange(0, len(attrOIDs)-1).Draw(t, label+"oid"), Tag: tag, Val: genStr(t, tag, label+"v")})
		}
		n = append(n, rdn)
	}
	return n
}

var (
	tMin  = time.Date(1950, 1, 1, 0, 0, 0, 0, time.UTC).Unix()
	t2050 = time.Date(2050, 1, 1, 0, 0, 0, 0, time.UTC).Unix()
	tMax  = time.Date(9999, 12, 31, 23, 59, 59, 0, time.UTC).Unix()
	t2000 = time.Date(2000, 1, 1, 0, 0, 0, 0, time.UTC).Unix()
)

func genTime(t *rapid.T, label string) int64 {
	switch rapid.IntRange(0, 11).Draw(t, label+"mode") {
	case 0:
		return t2050 - int64(rapid.IntRange(1, 3).Draw(t, label+"d"))
	case 1:
		return t2050 + int64(rapid.IntRange(0, 2).Draw(t, label+"d"))
	case 2:
		return []int64{tMin, tMax, t2000 - 1, t2000, 0, tMax - 1, t2050 + 86400*366}[rapid.IntRange(0, 6).Draw(t, label+"b")]
	case 3:
		return rapid.Int64Range(t2050, tMax).Draw(t, label+"gen")
	case 4:
		return rapid.Int64Range(tMin, t2050-1).Draw(t, label+"utc")
	default: // ordinary: 2015..2049 / 2050..2060
		return rapid.Int64Range(1420070400, t2050+10*366*86400).Draw(t, label+"ord")
	}
}

var leafKinds = []string{"p256", "p256", "p384", "p521", "p224", "rsa2048", "rsa2048", "rsa1024", "rsa3072", "ed25519"}
var issuerKinds = []string{"p256", "p256", "p256", "p384", "rsa2048", "rsa2048", "ed25519", "rsa3072", "p521"}
var extKinds = []string{"bc", "ku", "eku", "san", "ski", "aki", "pol", "aia", "crldp"}

var arcBounds = []int{0, 1, 127, 128, 16383, 16384, 1<<21 - 1, 1 << 21, 1<<28 - 1, 1 << 28, 1<<31 - 1}

// genArc draws an OID arc of 1..5 base-128 digits, biased to the digit-count boundaries.
func genArc(t *rapid.T, label string) int {
	if rapid.IntRange(0, 2).Draw(t, label+"bound") == 0 {
		return arcBounds[rapid.IntRange(0, len(arcBounds)-1).Draw(t, label+"b")]
	}
	d := rapid.IntRange(1, 5).Draw(t, label+"digits")
	lo, hi := 1<<uint(7*(d-1)), 1<<uint(7*d)-1
	if d == 1 {
		lo = 0
	}
	if d == 5 {
		hi = 1<<31 - 1
	}
	return rapid.IntRange(lo, hi).Draw(t, label+"v")
}

func genExts(t *rapid.T) []ExtC {
	n := rapid.IntRange(0, 8).Draw(t, "nexts")
	// a permutation of the nine known kinds; unknown OIDs are interleaved with distinct arcs
	perm := rapid.Permutation(extKinds).Draw(t, "extperm")
	var out []ExtC
	ki := 0
	usedArc := map[int]bool{}
	quoted := false
	for len(out) < n {
		if !quoted && rapid.IntRange(0, 9).Draw(t, "quote") == 0 {
			// a private extension whose value quotes ANOTHER certificate (with another SCT list) as PEM text
			quoted = true
			out = append(out, ExtC{Kind: "quote", Crit: false, V: rapid.IntRange(0, 2).Draw(t, "quotev")})
			continue
		}
		if rapid.IntRange(0, 3).Draw(t, "unk") == 0 || ki >= len(perm) {
			arc := rapid.IntRange(0, 400).Draw(t, "arc")
			if rapid.IntRange(0, 2).Draw(t, "arcodd") == 0 {
				arc = rapid.IntRange(0, len(nearCT)-1).Draw(t, "arcoddv")
			}
			if usedArc[arc] {
				arc = 401 + len(out)
			}
			usedArc[arc] = true
			ln := 0
			switch rapid.IntRange(0, 5).Draw(t, "unklenmode") {
			case 0:
				ln = rapid.IntRange(0, 3).Draw(t, "unklen0")
			case 1:
				ln = rapid.IntRange(90, 135).Draw(t, "unklen1")
			case 2:
				ln = rapid.IntRange(225, 270).Draw(t, "unklen2")
			default:
				ln = rapid.IntRange(0, 60).Draw(t, "unklen")
			}
			var arcs []int
			if arc >= len(nearCT) {
				for i, na := 0, rapid.IntRange(1, 2).Draw(t, "narcs"); i < na; i++ {
					arcs = append(arcs, genArc(t, "oidarc"))
				}
			}
			out = append(out, ExtC{Kind: "unk", Crit: rapid.Bool().Draw(t, "crit"), Arc: arc, Arcs: arcs, N: ln, V: rapid.IntRange(0, 255).Draw(t, "unkv")})
			continue
		}
		out = append(out, ExtC{Kind: perm[ki], Crit: rapid.Bool().Draw(t, "crit"), V: rapid.IntRange(0, 1<<16).Draw(t, "v"), N: rapid.IntRange(0, 40).Draw(t, "n")})
		ki++
	}
	return out
}

func genUID(t *rapid.T, label string) *UIDC {
	if rapid.IntRange(0, 4).Draw(t, label+"has") != 0 {
		return nil
	}
	n := rapid.IntRange(0, 9).Draw(t, label+"len")
	b := make([]byte, n)
	for i := range b {
		b[i] = byte(rapid.IntRange(0, 255).Draw(t, label+"b"))
	}
	u := &UIDC{}
	if n > 0 {
		u.Unused = rapid.IntRange(0, 7).Draw(t, label+"unused")
		b[n-1] &^= byte(1<<uint(u.Unused)) - 1
	}
	u.Hex = hex.EncodeToString(b)
	return u
}

func genSerial(t *rapid.T) string {
	n := rapid.IntRange(1, 20).Draw(t, "seriallen")
	switch rapid.IntRange(0, 5).Draw(t, "serialmode") {
	case 0:
		n = 20
	case 1:
		n = 1
	}
	b := make([]byte, n)
	for i := range b {
		b[i] = byte(rapid.IntRange(0, 255).Draw(t, "serialb"))
	}
	if b[0] == 0 {
		b[0] = 1
	}
	// RFC 5280: at most 20 content octets, so a 20-byte magnitude must not need the 0x00 pad
	if n == 20 && b[0]&0x80 != 0 {
		b[0] &= 0x7f
		if b[0] == 0 {
			b[0] = 0x7f
		}
	}
	return hex.EncodeToString(b)
}

func genTimestamp(t *rapid.T, label string) uint64 {
	switch rapid.IntRange(0, 7).Draw(t, label+"mode") {
	case 0:
		return []uint64{0, 1, math.MaxUint64, math.MaxUint64 - 1, 1 << 63, 1<<63 - 1, 1 << 32, 255, 256}[rapid.IntRange(0, 8).Draw(t, label+"b")]
	case 1:
		return rapid.Uint64().Draw(t, label+"any")
	default:
		return rapid.Uint64Range(1356998400000, 1900000000000).Draw(t, label+"ms")
	}
}

func genSCTs(t *rapid.T, signedAnchor bool) []SCTC {
	n := rapid.IntRange(1, 6).Draw(t, "nscts")
	anchor := rapid.IntRange(0, n-1).Draw(t, "anchor")
	opaqueOK := rapid.IntRange(0, 4).Draw(t, "opaquelist") == 0
	var out []SCTC
	for i := 0; i < n; i++ {
		if i == anchor {
			s := SCTC{Kind: "anchor", ExtLen: 0, SigLen: rapid.IntRange(0, 80).Draw(t, "asiglen")}
			if rapid.IntRange(0, 3).Draw(t, "aext") == 0 {
				s.ExtLen = rapid.IntRange(1, 40).Draw(t, "aextlen")
			}
			out = append(out, s)
			continue
		}
		if opaqueOK && rapid.IntRange(0, 1).Draw(t, "opaque") == 0 {
			bl := rapid.IntRange(1, 60).Draw(t, "bloblen")
			if rapid.IntRange(0, 3).Draw(t, "blob1") == 0 {
				bl = 1
			}
			out = append(out, SCTC{Kind: "opaque", BlobLen: bl, LogIdx: rapid.IntRange(0, 255).Draw(t, "blobv")})
			continue
		}
		s := SCTC{Kind: "wf", LogIdx: rapid.IntRange(0, 7).Draw(t, "log"), TS: genTimestamp(t, "scts"),
			Hash: uint8(rapid.IntRange(0, 6).Draw(t, "hash")), Sig: uint8(rapid.IntRange(0, 3).Draw(t, "sig")),
			SigLen: rapid.IntRange(0, 80).Draw(t, "siglen")}
		if rapid.IntRange(0, 3).Draw(t, "nonv1") == 0 {
			s.Version = uint8(rapid.IntRange(1, 255).Draw(t, "sctversion"))
		}
		switch rapid.IntRange(0, 9).Draw(t, "extmode") {
		case 0:
			s.ExtLen = rapid.IntRange(1, 300).Draw(t, "extlen")
		case 1:
			s.SigLen = rapid.IntRange(250, 520).Draw(t, "bigsig")
		case 2:
			s.Hash, s.Sig = uint8(rapid.IntRange(0, 255).Draw(t, "anyhash")), uint8(rapid.IntRange(0, 255).Draw(t, "anysig"))
		}
		out = append(out, s)
	}
	return out
}

var listTargets = []int{65535, 65534, 65336, 65335, 65400, 256, 255, 128, 127, 16384, 65000}

// genCase draws a whole case; signedAnchor selects the SCT sub-property (the anchor SCT is really signed).
func genCase(t *rapid.T, signedAnchor bool) Case {
	c := Case{}
	c.Serial = genSerial(t)
	c.Subject = genName(t, "subj", true)
	c.NotBefore = genTime(t, "nb")
	c.NotAfter = genTime(t, "na")
	if c.NotAfter < c.NotBefore && rapid.IntRange(0, 9).Draw(t, "order") != 0 {
		c.NotBefore, c.NotAfter = c.NotAfter, c.NotBefore
	}
	c.KeyKind = rapid.SampledFrom(leafKinds).Draw(t, "keykind")
	c.KeyIdx = rapid.IntRange(0, 15).Draw(t, "keyidx")
	c.IssuerUID = genUID(t, "iuid")
	c.SubjectUID = genUID(t, "suid")
	c.Exts = genExts(t)

	c.IssuerName = genName(t, "iss", false)
	c.IssuerKeyKind = rapid.SampledFrom(issuerKinds).Draw(t, "isskind")
	c.IssuerKeyIdx = rapid.IntRange(0, 5).Draw(t, "issidx")
	c.SigAlg = rapid.IntRange(0, 2).Draw(t, "sigalg")
	c.IssuerNoNull = rapid.IntRange(0, 2).Draw(t, "issnonull") == 0
	if v := rapid.IntRange(0, 6).Draw(t, "versionfield"); v >= 5 {
		c.VersionField = v - 4
	}
	c.IssuerEKU = rapid.IntRange(0, 4).Draw(t, "isseku")
	c.IssuerSKI = rapid.IntRange(0, 1+len(skiPool)).Draw(t, "issski")
	c.PISKI = rapid.IntRange(0, 1+len(skiPool)).Draw(t, "piski")
	c.SiblingOff = rapid.IntRange(0, 4).Draw(t, "siboff")
	c.SiblingFirst = rapid.Bool().Draw(t, "sibfirst")
	c.PreIssuer = rapid.IntRange(0, 9).Draw(t, "preissuer") < 5
	if c.PreIssuer {
		c.IssuerCTEKU = rapid.IntRange(0, 2).Draw(t, "issctEKU") == 0
		c.PIName = genName(t, "pi", false)
		c.PIRespell = rapid.IntRange(0, 3).Draw(t, "pirespell") == 0
		c.PIKeyIdx = rapid.IntRange(0, 5).Draw(t, "piidx")
		c.PIAKI = rapid.IntRange(0, 4).Draw(t, "piaki")
		if rapid.IntRange(0, 2).Draw(t, "piakinone") == 0 {
			c.PIAKI = 0
		}
		c.PIAKICrit = rapid.IntRange(0, 5).Draw(t, "piakicrit") == 0
		c.PIEKUShape = rapid.IntRange(0, 3).Draw(t, "piekushape")
	}
	// positions are uniform over the slots that exist (the SCT position is clamped by the builder when the
	// pre-issuer rewrite removes the AKI)
	c.PoisonNonCrit = rapid.IntRange(0, 5).Draw(t, "poisonnoncrit") == 0
	c.PoisonPos = rapid.IntRange(0, len(c.Exts)).Draw(t, "poisonpos")
	c.SCTPos = rapid.IntRange(0, len(c.Exts)+1).Draw(t, "sctpos")
	c.ExtraInChain = rapid.IntRange(0, 3).Draw(t, "extra") == 0

	c.Timestamp = genTimestamp(t, "ts")
	c.SCTs = genSCTs(t, signedAnchor)
	if rapid.IntRange(0, 24).Draw(t, "target") == 0 {
		c.ListTarget = listTargets[rapid.IntRange(0, len(listTargets)-1).Draw(t, "targetv")]
		if rapid.IntRange(0, 2).Draw(t, "targetd") == 0 {
			c.ListTarget -= rapid.IntRange(0, 300).Draw(t, "targetdelta")
		}
	}
	c.LogKeyKind = rapid.SampledFrom([]string{"p256", "p256", "rsa2048"}).Draw(t, "logkind")
	c.LogKeyIdx = rapid.IntRange(6, 15).Draw(t, "logidx")

	c.Poison2Pos = rapid.IntRange(0, 10).Draw(t, "poison2")
	c.SCT2Pos = rapid.IntRange(0, 10).Draw(t, "sct2")
	c.TSDelta = rapid.Uint64Range(1, math.MaxUint64).Draw(t, "tsdelta")
	if rapid.IntRange(0, 1).Draw(t, "tsd1") == 0 {
		c.TSDelta = uint64(rapid.IntRange(1, 3).Draw(t, "tsdsmall"))
	}
	c.OtherE = rapid.IntRange(0, 3).Draw(t, "othere")
	c.PEM = rapid.IntRange(0, 3).Draw(t, "pem") == 0
	tr := make([]byte, rapid.IntRange(1, 3).Draw(t, "trailn"))
	for i := range tr {
		tr[i] = byte(rapid.IntRange(0, 255).Draw(t, "trailb"))
	}
	c.Trailing = hex.EncodeToString(tr)
	return c
}

// ---------------------------------------------------------------------------------------------
// Builder

func det(seed string, n int) []byte {
	var out []byte
	for i := uint32(0); len(out) < n; i++ {
		var ctr [4]byte
		binary.BigEndian.PutUint32(ctr[:], i)
		h := sha256.Sum256(append(ctr[:], seed...))
		out = append(out, h[:]...)
	}
	return out[:n]
}

func nameOf(n NameC) pki.Name {
	out := pki.Name{}
	for _, rdn := range n {
		var attrs []pki.Attr
		for _, a := range rdn {
			attrs = append(attrs, pki.Attr{OID: attrOIDs[a.OID%len(attrOIDs)], Tag: a.Tag, Value: a.Val})
		}
		// DER: the elements of a SET OF are sorted by their encodings; equal encodings collapse
		enc := func(a pki.Attr) []byte { return derx.Seq(derx.OID(a.OID...), derx.Str(a.Tag, a.Value)) }
		sort.SliceStable(attrs, func(i, j int) bool { return bytes.Compare(enc(attrs[i]), enc(attrs[j])) < 0 })
		var uniq []pki.Attr
		for i, a := range attrs {
			if i > 0 && bytes.Equal(enc(a), enc(attrs[i-1])) {
				continue
			}
			uniq = append(uniq, a)
		}
		out = append(out, uniq)
	}
	return out
}

// respell returns the same name with every attribute value moved to another string type where the value
// allows it (PrintableString / IA5String -> UTF8String, UTF8String -> PrintableString): the same
// distinguished name under RFC 5280 s7.1 comparison, other DER.
func respell(n NameC) NameC {
	out := make(NameC, len(n))
	for i, rdn := range n {
		for _, a := range rdn {
			switch a.Tag {
			case derx.TagPrintable, derx.TagIA5:
				a.Tag = derx.TagUTF8String
			default:
				ok := true
				for _, r := range a.Val {
					if r > 0x7f || !strings.ContainsRune(printableChars, r) {
						ok = false
					}
				}
				if ok {
					a.Tag = derx.TagPrintable
				}
			}
			out[i] = append(out[i], a)
		}
	}
	return out
}

var ekuPool = [][]int{pki.OIDEKUServerAuth, pki.OIDEKUClientAuth, pki.OIDEKUCodeSigning, pki.OIDEKUEmail, pki.OIDEKUTimeStamp, pki.OIDEKUOCSP, pki.OIDEKUAny, {1, 3, 6, 1, 4, 1, 99999, 7, 1}}

// nearCT are OIDs that share long prefixes with the two CT extension OIDs; none of them is a CT extension.
var nearCT = [][]int{
	{1, 3, 6, 1, 4, 1, 11129, 2, 4, 1}, {1, 3, 6, 1, 4, 1, 11129, 2, 4, 5}, {1, 3, 6, 1, 4, 1, 11129, 2, 4},
	{1, 3, 6, 1, 4, 1, 11129, 2, 4, 3, 1}, {1, 3, 6, 1, 4, 1, 11129, 2, 4, 2, 0}, {1, 3, 6, 1, 4, 1, 11129, 2, 4, 131},
	{1, 3, 6, 1, 4, 1, 11129, 2, 5, 3}, {2, 5, 29, 35, 1}, {2, 5, 29, 36},
	// not near anything, but awkward to re-encode: multi-octet first subidentifier, 31-bit arcs, a zero arc
	{2, 999, 3}, {1, 3, 6, 1, 4, 1, 2147483647, 1}, {2, 25, 2147483647, 0, 127, 128, 16383, 16384}, {0, 9, 2342},
}

func akiValue(style int, seed string, n int) []byte {
	switch style {
	case 2:
		return derx.Seq(derx.TLV(0x80, det(seed, 1)))
	case 3:
		dn := pki.CN("aki issuer " + seed[:min(len(seed), 6)]).DER()
		return derx.Seq(derx.TLV(0x80, det(seed, 20)), derx.TLV(0xa1, derx.TLV(0xa4, dn)), derx.TLV(0x82, derx.IntContent(new(big.Int).SetBytes(det(seed+"s", 9)))))
	case 4:
		return derx.Seq(derx.TLV(0x80, det(seed, 20+n*4)))
	default:
		return derx.Seq(derx.TLV(0x80, det(seed, 20)))
	}
}

var (
	quoteOnce sync.Once
	quoteText string
)

// quotedPEM is the PEM form of an unrelated certificate that carries an SCT list of its own (one SCT that
// occurs in no generated list).
func quotedPEM() string {
	quoteOnce.Do(func() {
		k := keys.Pick("p256", 2)
		inner := mustSCT(&rfc6962.SCT{LogID: logID(1000), Timestamp: 424242, Signature: rfc6962.DigitallySigned{Hash: 4, Sig: 3, Signature: det("quoted-sig", 70)}})
		l, err := rfc6962.EncodeSCTList([][]byte{inner})
		if err != nil {
			panic(err)
		}
		t := pki.LeafTemplate("quoted", k, 77, nil)
		t.Exts = append(t.Exts, pki.SCTList(l))
		c := pki.Issue(nil, t, "quoted")
		quoteText = string(pem.EncodeToMemory(&pem.Block{Type: "CERTIFICATE", Bytes: c.DER}))
	})
	return quoteText
}

func extOf(e ExtC, idx int) pki.Ext {
	seed := fmt.Sprintf("%s/%d/%d/%d", e.Kind, e.V, e.N, idx)
	var x pki.Ext
	switch e.Kind {
	case "bc":
		switch e.V % 4 {
		case 0:
			x = pki.BasicConstraints(false, -1, false)
		case 1:
			x = pki.BasicConstraints(true, -1, false)
		default:
			x = pki.BasicConstraints(true, e.N%5, false)
		}
	case "ku":
		var bits []int
		for b := 0; b < 9; b++ {
			if e.V>>uint(b)&1 == 1 {
				bits = append(bits, b)
			}
		}
		if len(bits) == 0 {
			bits = []int{0}
		}
		x = pki.KeyUsage(bits...)
	case "eku":
		k := 1 + e.N%3
		var oids [][]int
		for i := 0; i < k; i++ {
			oids = append(oids, ekuPool[(e.V+i*3)%len(ekuPool)])
		}
		x = pki.EKU(oids...)
	case "san":
		k := 1 + e.N%3
		var body [][]byte
		for i := 0; i < k; i++ {
			switch (e.V + i) % 5 {
			case 0:
				body = append(body, derx.TLV(0x82, []byte(fmt.Sprintf("h%d.example.com", e.V))))
			case 1:
				body = append(body, derx.TLV(0x81, []byte(fmt.Sprintf("u%d@example.org", e.V))))
			case 2:
				body = append(body, derx.TLV(0x87, det(seed, 4)))
			case 3:
				body = append(body, derx.TLV(0x87, det(seed, 16)))
			default:
				body = append(body, derx.TLV(0x86, []byte(fmt.Sprintf("https://example.net/%d", e.V))))
			}
		}
		x = pki.Ext{OID: pki.OIDExtSAN, Value: derx.Seq(body...)}
	case "ski":
		x = pki.SKI(det(seed, 1+e.N%32))
	case "aki":
		x = pki.Ext{OID: pki.OIDExtAKI, Value: akiValue(1+e.V%4, seed, e.N%8)}
	case "pol":
		k := 1 + e.N%2
		var body [][]byte
		for i := 0; i < k; i++ {
			oid := derx.OID(2, 23, 140, 1, 2, 1+(e.V+i)%3)
			if (e.V>>4+i)%2 == 0 {
				body = append(body, derx.Seq(oid))
			} else {
				q := derx.Seq(derx.OID(1, 3, 6, 1, 5, 5, 7, 2, 1), derx.Str(derx.TagIA5, fmt.Sprintf("https://cps.example/%d", e.V)))
				body = append(body, derx.Seq(oid, derx.Seq(q)))
			}
		}
		x = pki.Ext{OID: pki.OIDExtPolicies, Value: derx.Seq(body...)}
	case "aia":
		k := 1 + e.N%2
		var body [][]byte
		for i := 0; i < k; i++ {
			m := derx.OID(1, 3, 6, 1, 5, 5, 7, 48, 1+(e.V+i)%2)
			body = append(body, derx.Seq(m, derx.TLV(0x86, []byte(fmt.Sprintf("http://aia.example/%d/%d", e.V, i)))))
		}
		x = pki.Ext{OID: pki.OIDExtAIA, Value: derx.Seq(body...)}
	case "crldp":
		k := 1 + e.N%2
		var body [][]byte
		for i := 0; i < k; i++ {
			uri := derx.TLV(0x86, []byte(fmt.Sprintf("http://crl.example/%d/%d.crl", e.V, i)))
			body = append(body, derx.Seq(derx.TLV(0xa0, derx.TLV(0xa0, uri))))
		}
		x = pki.Ext{OID: pki.OIDExtCRLDP, Value: derx.Seq(body...)}
	case "quote":
		txt := quotedPEM()
		switch e.V % 3 {
		case 0:
			x = pki.Ext{OID: []int{1, 3, 6, 1, 4, 1, 99999, 9, 1}, Value: []byte(txt)}
		case 1:
			x = pki.Ext{OID: []int{1, 3, 6, 1, 4, 1, 99999, 9, 1}, Value: []byte("issued in place of:\n" + txt)}
		default:
			x = pki.Ext{OID: []int{1, 3, 6, 1, 4, 1, 99999, 9, 1}, Value: derx.Str(derx.TagUTF8String, "see also\n"+txt+"(end)\n")}
		}
	default: // unk
		var oid []int
		if e.Arc < len(nearCT) {
			oid = nearCT[e.Arc]
		} else if len(e.Arcs) > 0 {
			// distinct per position so that no two private extensions share an OID
			oid = append(append([]int{1, 3, 6, 1, 4, 1}, e.Arcs...), idx)
		} else {
			oid = []int{1, 3, 6, 1, 4, 1, 99999, 3, e.Arc * 37}
		}
		x = pki.Ext{OID: oid, Value: det(seed, e.N)}
	}
	x.Critical = e.Crit
	return x
}

func insertExt(l []pki.Ext, at int, e pki.Ext) []pki.Ext {
	if at > len(l) {
		at = len(l)
	}
	if at < 0 {
		at = 0
	}
	out := make([]pki.Ext, 0, len(l)+1)
	out = append(out, l[:at]...)
	out = append(out, e)
	return append(out, l[at:]...)
}

func clamp(v, hi int) int {
	if v > hi {
		return hi
	}
	if v < 0 {
		return 0
	}
	return v
}

// World is everything built from a Case.
type World struct {
	IssuerKey, PIKey, LeafKey, LogKey *keys.Key
	Alg                               string
	I, PI, PINoEKU                    []byte // certificates
	IssuerSPKINoNull                  bool
	SibKey                            *keys.Key
	SibI                              []byte // sibling issuer certificate
	IName, PISubject, IssuerOfP       pki.Name // IssuerOfP: the issuer name as written in the precertificate
	PIAKIValue                        []byte // extnValue contents of the pre-issuer's AKI (nil: none)

	Content []pki.Ext // non-CT extensions of C, in order
	ExtsE   []pki.Ext // extensions of the expected entry, in order
	Poison  pki.Ext   // the poison extension as used in this case (critical unless PoisonNonCrit)
	P, PTBS []byte    // precertificate
	PoisonP int
	E       []byte // expected entry TBS (byte-level reference)
	E0      []byte // P with just the poison cut (no pre-issuer rewrite)
	F, FTBS []byte // final certificate
	SCTq    int
	KeyHash [32]byte // SHA-256 of the final issuer's SPKI

	SCTs      [][]byte      // the serialized SCTs embedded, in order
	SCTModels []*rfc6962.SCT // decoded model per element (nil for opaque ones)
	Anchor    int
	List      []byte // TLS SignedCertificateTimestampList
	ExtValue  []byte // extnValue contents of the SCT list extension (OCTET STRING TLV around List)

	sigTail []byte // signatureAlgorithm + signatureValue of F, reused to wrap unsigned variants
}

// skiPool: subject key identifiers that are NOT derived from the key, so that within one process (and
// within one case, through the sibling issuer) different issuer keys carry the same identifier.
var skiPool = [][]byte{{0x01}, bytes.Repeat([]byte{0xaa}, 20), []byte("verif-shared-ski")}

// skiExt returns the SKI extension selected by sel for the key (nil: none).
func skiExt(sel int, k *keys.Key) []pki.Ext {
	switch {
	case sel <= 0:
		return nil
	case sel == 1:
		return []pki.Ext{pki.SKI(pki.KeyID(k))}
	}
	return []pki.Ext{pki.SKI(skiPool[(sel-2)%len(skiPool)])}
}

func pickAlg(k *keys.Key, i int) string {
	algs := pki.SigAlgsFor(k)
	return algs[i%len(algs)]
}

// patchUID sets the unused-bits octet of the [1] / [2] unique identifiers (pki always writes 0).
func patchUID(tbs []byte, tag byte, unused int) {
	if unused == 0 {
		return
	}
	n := derx.MustParse(tbs)
	for _, k := range n.Children {
		if k.Tag() == tag {
			tbs[k.Off+k.HdrLen] = byte(unused)
		}
	}
}

func uidBytes(u *UIDC) []byte {
	if u == nil {
		return nil
	}
	b, err := hex.DecodeString(u.Hex)
	if err != nil {
		panic(err)
	}
	if b == nil {
		b = []byte{}
	}
	return b
}

// tbsOf renders the content with the given issuer name and extension list.
func (w *World) tbsOf(c *Case, issuer pki.Name, exts []pki.Ext) []byte {
	serial, ok := new(big.Int).SetString(c.Serial, 16)
	if !ok || serial.Sign() <= 0 {
		panic("c03: bad serial " + c.Serial)
	}
	t := pki.Template{Serial: serial, Issuer: issuer, Subject: nameOf(c.Subject),
		NotBefore: time.Unix(c.NotBefore, 0).UTC(), NotAfter: time.Unix(c.NotAfter, 0).UTC(),
		Key: w.LeafKey, IssuerUID: uidBytes(c.IssuerUID), SubjectUID: uidBytes(c.SubjectUID), Exts: exts, SigAlg: w.Alg}
	tbs := t.TBS(w.IssuerKey)
	if c.VersionField != 0 {
		// mis-labelled but well-formed DER: the version field is absent (v1) or says v2 although extensions follow
		n := derx.MustParse(tbs)
		var parts [][]byte
		if c.VersionField == 2 {
			parts = append(parts, derx.Explicit(0, derx.Int64(1)))
		}
		for _, k := range n.Children[1:] {
			parts = append(parts, k.Raw(tbs))
		}
		tbs = derx.Seq(parts...)
	}
	if c.IssuerUID != nil {
		patchUID(tbs, 0x81, c.IssuerUID.Unused)
	}
	if c.SubjectUID != nil {
		patchUID(tbs, 0x82, c.SubjectUID.Unused)
	}
	return tbs
}

// wrap makes a certificate around a TBS with a borrowed (meaningless) signature.
func (w *World) wrap(tbs []byte) []byte { return derx.TLV(derx.TagSequence, tbs, w.sigTail) }

func caCert(subject, issuer pki.Name, key, signer *keys.Key, alg string, serial int64, exts []pki.Ext) []byte {
	t := pki.Template{Serial: big.NewInt(serial), Issuer: issuer, Subject: subject, NotBefore: pki.Epoch.AddDate(-3, 0, 0), NotAfter: pki.Epoch.AddDate(12, 0, 0),
		Key: key, Exts: exts, SigAlg: alg}
	tbs := t.TBS(signer)
	return pki.SignTBS(tbs, signer, alg)
}

// sctBytes renders one list element; for the anchor `sig` carries the signature to use.
func logID(i int) [32]byte { return sha256.Sum256([]byte(fmt.Sprintf("log-%d", i))) }

// Build constructs the world of a case. realSig selects whether the anchor SCT is really signed by the
// log key over the RFC 6962 signature input for E.
func Build(c *Case, realSig bool) *World {
	w := &World{}
	w.IssuerKey = keys.Pick(c.IssuerKeyKind, c.IssuerKeyIdx)
	w.Alg = pickAlg(w.IssuerKey, c.SigAlg)
	if _, isRSA := w.IssuerKey.Pub.(*rsa.PublicKey); isRSA && c.IssuerNoNull {
		// rsaEncryption AlgorithmIdentifier without the NULL parameters: not what RFC 3279 prescribes but
		// well-formed DER that the parser accepts (non-fatal error); issuer_key_hash is over these very bytes
		n := derx.MustParse(w.IssuerKey.SPKI)
		k := *w.IssuerKey
		k.Name += "-nonull"
		k.SPKI = derx.Seq(derx.Seq(n.Children[0].Children[0].Raw(w.IssuerKey.SPKI)), n.Children[1].Raw(w.IssuerKey.SPKI))
		w.IssuerKey = &k
		w.IssuerSPKINoNull = true
	}
	w.LeafKey = keys.Pick(c.KeyKind, c.KeyIdx)
	w.LogKey = keys.Pick(c.LogKeyKind, c.LogKeyIdx)
	w.IName = nameOf(c.IssuerName)
	w.KeyHash = sha256.Sum256(w.IssuerKey.SPKI)

	// EKUs of the issuing CA. Only the CT EKU (RFC 6962 s3.1) makes a CA a precertificate signing
	// certificate; anyExtendedKeyUsage does not.
	var issuerEKUs [][]int
	switch c.IssuerEKU {
	case 1:
		issuerEKUs = [][]int{pki.OIDEKUServerAuth}
	case 2:
		issuerEKUs = [][]int{pki.OIDEKUAny}
	case 3:
		issuerEKUs = [][]int{pki.OIDEKUServerAuth, pki.OIDEKUAny, pki.OIDEKUOCSP}
	case 4:
		issuerEKUs = [][]int{pki.OIDEKUServerAuth, pki.OIDEKUClientAuth}
	}
	caExts := func(k *keys.Key, ekus [][]int) []pki.Ext {
		out := append([]pki.Ext{pki.BasicConstraints(true, -1, true), pki.KeyUsage(pki.KUKeyCertSign, pki.KUCRLSign)}, skiExt(c.IssuerSKI, k)...)
		if len(ekus) > 0 {
			out = append(out, pki.EKU(ekus...))
		}
		return out
	}
	finalEKUs := issuerEKUs
	if c.PreIssuer && c.IssuerCTEKU {
		// An EKU-constrained CA that must list the CT EKU in order to issue the pre-issuer below it. It is
		// still the issuer of the final certificate. (Without a pre-issuer below it such a CA would itself
		// be the "precertificate signing certificate" of RFC 6962 s3.1 - that shape is not generated.)
		finalEKUs = append(append([][]int{}, issuerEKUs...), pki.OIDEKUCT)
		if len(issuerEKUs) == 0 {
			finalEKUs = [][]int{pki.OIDEKUServerAuth, pki.OIDEKUClientAuth, pki.OIDEKUCT}
		}
	}
	iExts := caExts(w.IssuerKey, finalEKUs)
	w.I = caCert(w.IName, w.IName, w.IssuerKey, w.IssuerKey, w.Alg, 1000, iExts)
	// the sibling: another CA with the same name and the same SKI selection but a different key of the same kind
	ipool := len(keys.Kind(c.IssuerKeyKind))
	w.SibKey = keys.Pick(c.IssuerKeyKind, c.IssuerKeyIdx+1+c.SiblingOff%(ipool-1))
	w.SibI = caCert(w.IName, w.IName, w.SibKey, w.SibKey, w.Alg, 1001, caExts(w.SibKey, issuerEKUs))

	signerOfP := w.IssuerKey
	issuerOfP := w.IName
	if c.PreIssuer {
		// a different key of the same kind (so that the same signature algorithm applies)
		pool := len(keys.Kind(c.IssuerKeyKind))
		w.PIKey = keys.Pick(c.IssuerKeyKind, c.IssuerKeyIdx+1+c.PIKeyIdx%(pool-1))
		w.PISubject = nameOf(c.PIName)
		base := []pki.Ext{pki.BasicConstraints(true, 0, true), pki.KeyUsage(pki.KUDigitalSignature, pki.KUKeyCertSign)}
		var eku pki.Ext
		switch c.PIEKUShape {
		case 0:
			eku = pki.EKU(pki.OIDEKUCT)
		case 1:
			eku = pki.EKU(pki.OIDEKUServerAuth, pki.OIDEKUCT)
		case 2:
			eku = pki.EKU(pki.OIDEKUCT, pki.OIDEKUClientAuth)
		default:
			eku = pki.EKU(pki.OIDEKUServerAuth, pki.OIDEKUCT, []int{1, 3, 6, 1, 4, 1, 99999, 7, 2})
			eku.Critical = true
		}
		tail := skiExt(c.PISKI, w.PIKey)
		if c.PIAKI != 0 {
			w.PIAKIValue = akiValue(c.PIAKI, "pi-aki/"+c.Serial, 5)
			a := pki.Ext{OID: pki.OIDExtAKI, Value: w.PIAKIValue, Critical: c.PIAKICrit}
			if c.PIEKUShape%2 == 0 {
				tail = append(tail, a)
			} else {
				tail = append([]pki.Ext{a}, tail...)
			}
		}
		with := append(append(append([]pki.Ext{}, base...), eku), tail...)
		w.PI = caCert(w.PISubject, w.IName, w.PIKey, w.IssuerKey, w.Alg, 2000, with)
		// the same certificate without the CT EKU (other EKUs kept, or no EKU extension at all)
		var without []pki.Ext
		without = append(without, base...)
		switch c.PIEKUShape {
		case 0: // no EKU extension at all
		case 2:
			without = append(without, pki.EKU(pki.OIDEKUAny)) // anyExtendedKeyUsage is not the CT EKU
		case 3:
			without = append(without, pki.EKU(pki.OIDEKUServerAuth, pki.OIDEKUAny))
		default:
			without = append(without, pki.EKU(pki.OIDEKUServerAuth, pki.OIDEKUClientAuth))
		}
		without = append(without, tail...)
		w.PINoEKU = caCert(w.PISubject, w.IName, w.PIKey, w.IssuerKey, w.Alg, 2000, without)
		signerOfP = w.PIKey
		issuerOfP = w.PISubject
		if c.PIRespell {
			issuerOfP = nameOf(respell(c.PIName))
		}
	}

	for i, e := range c.Exts {
		w.Content = append(w.Content, extOf(e, i))
	}
	w.IssuerOfP = issuerOfP
	w.PoisonP = clamp(c.PoisonPos, len(w.Content))
	w.Poison = pki.Poison()
	w.Poison.Critical = !c.PoisonNonCrit
	w.PTBS = w.tbsOf(c, issuerOfP, insertExt(w.Content, w.PoisonP, w.Poison))
	w.P = pki.SignTBS(w.PTBS, signerOfP, w.Alg)

	// ground-truth extension list of the entry
	w.ExtsE = append([]pki.Ext{}, w.Content...)
	if c.PreIssuer {
		at := -1
		for i, e := range w.ExtsE {
			if pki.OIDEq(e.OID, pki.OIDExtAKI) {
				at = i
				break
			}
		}
		switch {
		case at >= 0 && w.PIAKIValue != nil:
			w.ExtsE[at].Value = w.PIAKIValue
		case at >= 0:
			w.ExtsE = append(w.ExtsE[:at], w.ExtsE[at+1:]...)
		case w.PIAKIValue != nil:
			w.ExtsE = append(w.ExtsE, pki.Ext{OID: pki.OIDExtAKI, Value: w.PIAKIValue})
		}
	}

	// E: the byte-level reference transformation of P
	var pi *preref.PreIssuer
	if c.PreIssuer {
		pi = &preref.PreIssuer{IssuerDER: w.IName.DER(), AKIValue: w.PIAKIValue}
	}
	var err error
	if w.E, err = preref.Transform(w.PTBS, preref.OIDPoison, pi); err != nil {
		panic("c03: reference transformation failed: " + err.Error())
	}
	if w.E0, err = preref.Transform(w.PTBS, preref.OIDPoison, nil); err != nil {
		panic("c03: reference transformation failed: " + err.Error())
	}

	w.buildList(c, realSig)

	w.SCTq = clamp(c.SCTPos, len(w.ExtsE))
	w.FTBS = w.tbsOf(c, w.IName, insertExt(w.ExtsE, w.SCTq, pki.SCTList(w.List)))
	w.F = pki.SignTBS(w.FTBS, w.IssuerKey, w.Alg)
	n := derx.MustParse(w.F)
	w.sigTail = append([]byte{}, w.F[n.Children[1].Off:]...)
	w.ExtValue = derx.Octets(w.List)
	return w
}

// SelfCheck compares the two independent derivations of E (splice of P vs construction from the
// template) and of F (construction vs splice). A disagreement is a harness bug, not a finding.
func (w *World) SelfCheck(c *Case) error {
	if len(w.ExtsE) > 0 {
		if et := w.tbsOf(c, w.IName, w.ExtsE); !bytes.Equal(et, w.E) {
			return fmt.Errorf("constructed E differs from spliced E:\n  constructed %x\n  spliced     %x", et, w.E)
		}
	} else if !bytes.HasSuffix(w.E, []byte{0xa3, 0x02, 0x30, 0x00}) {
		return fmt.Errorf("E without extensions does not end in an empty extension list: %x", w.E)
	}
	back, err := preref.Transform(w.FTBS, preref.OIDSCTList, nil)
	if err != nil || !bytes.Equal(back, w.E) {
		return fmt.Errorf("reference removal of the SCT list from F does not give E (%v)", err)
	}
	if !c.PreIssuer && !bytes.Equal(w.E, w.E0) {
		return fmt.Errorf("E != E0 without pre-issuer")
	}
	return nil
}

func (w *World) signSCT(input []byte) rfc6962.DigitallySigned {
	h := sha256.Sum256(input)
	switch k := w.LogKey.Signer.(type) {
	case *ecdsa.PrivateKey:
		sig, err := ecdsa.SignASN1(rand.Reader, k, h[:])
		if err != nil {
			panic(err)
		}
		return rfc6962.DigitallySigned{Hash: 4, Sig: 3, Signature: sig}
	case *rsa.PrivateKey:
		sig, err := rsa.SignPKCS1v15(rand.Reader, k, crypto.SHA256, h[:])
		if err != nil {
			panic(err)
		}
		return rfc6962.DigitallySigned{Hash: 4, Sig: 1, Signature: sig}
	}
	panic("c03: unsupported log key")
}

// SignFor produces an SCT (model) by the harness's log over the given entry.
func (w *World) SignFor(tbs []byte, keyHash [32]byte, ts uint64, ext []byte) *rfc6962.SCT {
	in, err := rfc6962.SCTSignatureInput(0, ts, rfc6962.Entry{Type: rfc6962.PrecertEntry, IssuerKeyHash: keyHash, TBS: tbs}, ext)
	if err != nil {
		panic(err)
	}
	return &rfc6962.SCT{Version: 0, LogID: sha256.Sum256(w.LogKey.SPKI), Timestamp: ts, Extensions: ext, Signature: w.signSCT(in)}
}

func mustSCT(s *rfc6962.SCT) []byte {
	b, err := rfc6962.EncodeSCT(*s)
	if err != nil {
		panic(err)
	}
	return b
}

func (w *World) buildList(c *Case, realSig bool) {
	w.SCTs = nil
	w.SCTModels = nil
	filler := -1
	for i, s := range c.SCTs {
		switch s.Kind {
		case "anchor":
			w.Anchor = i
			ext := det(fmt.Sprintf("anchor-ext/%d", s.ExtLen), s.ExtLen)
			var m *rfc6962.SCT
			if realSig {
				m = w.SignFor(w.E, w.KeyHash, c.Timestamp, ext)
			} else {
				m = &rfc6962.SCT{LogID: sha256.Sum256(w.LogKey.SPKI), Timestamp: c.Timestamp, Extensions: ext,
					Signature: rfc6962.DigitallySigned{Hash: 4, Sig: 3, Signature: det("anchor-sig", s.SigLen)}}
			}
			w.SCTModels = append(w.SCTModels, m)
			w.SCTs = append(w.SCTs, mustSCT(m))
		case "opaque":
			b := det(fmt.Sprintf("blob/%d/%d", s.LogIdx, i), s.BlobLen)
			// never let a blob look like a complete v1 SCT by accident: first octet is not a known version
			b[0] |= 0x80
			w.SCTModels = append(w.SCTModels, nil)
			w.SCTs = append(w.SCTs, b)
		default:
			m := &rfc6962.SCT{Version: s.Version, LogID: logID(s.LogIdx), Timestamp: s.TS, Extensions: det(fmt.Sprintf("ext/%d", i), s.ExtLen),
				Signature: rfc6962.DigitallySigned{Hash: s.Hash, Sig: s.Sig, Signature: det(fmt.Sprintf("sig/%d", i), s.SigLen)}}
			if filler < 0 {
				filler = i
			}
			w.SCTModels = append(w.SCTModels, m)
			w.SCTs = append(w.SCTs, mustSCT(m))
		}
	}
	if c.ListTarget > 0 {
		if filler < 0 { // no wf element to stretch: add one
			m := &rfc6962.SCT{LogID: logID(99), Timestamp: 7}
			w.SCTModels = append(w.SCTModels, m)
			w.SCTs = append(w.SCTs, mustSCT(m))
			filler = len(w.SCTs) - 1
		}
		body := 0
		for _, s := range w.SCTs {
			body += 2 + len(s)
		}
		m := w.SCTModels[filler]
		want := len(m.Extensions) + c.ListTarget - body
		if want >= 0 && want <= 65535 && len(w.SCTs[filler])-len(m.Extensions)+want <= 65535 {
			m.Extensions = det("filler", want)
			w.SCTs[filler] = mustSCT(m)
		}
	}
	l, err := rfc6962.EncodeSCTList(w.SCTs)
	if err != nil {
		panic("c03: SCT list not encodable: " + err.Error())
	}
	w.List = l
}

// listWith returns the TLS list with element i replaced (nil when the result would exceed 2^16-1 bytes).
func (w *World) listWith(i int, sct []byte) []byte {
	l := append([][]byte{}, w.SCTs...)
	l[i] = sct
	b, err := rfc6962.EncodeSCTList(l)
	if err != nil {
		return nil
	}
	return b
}

// ---------------------------------------------------------------------------------------------
// classes shared by both sub-properties

func timeClass(s int64) string {
	if s >= t2050 {
		return "gen"
	}
	return "utc"
}

func posClass(p, n int) string {
	switch {
	case n == 0:
		return "only"
	case p == 0:
		return "first"
	case p == n:
		return "last"
	}
	return "middle"
}

func lenClass(n int) string {
	switch {
	case n < 128:
		return "<128"
	case n < 256:
		return "<256"
	case n < 65536:
		return "<64K"
	}
	return ">=64K"
}

func (w *World) classify(c *Case, v *harness.Verdict) {
	if c.PreIssuer && c.IssuerCTEKU {
		v.Class("final-issuer-has-ct-eku")
	}
	if w.IssuerSPKINoNull {
		v.Class("issuer-spki-rsa-without-null")
	}
	v.Class("version-field=" + []string{"v3", "absent", "v2"}[c.VersionField%3])
	v.Class("issuer-eku=" + []string{"none", "serverAuth", "any", "any+others", "serverAuth+clientAuth"}[c.IssuerEKU%5])
	if c.PreIssuer && !bytes.Equal(w.IssuerOfP.DER(), w.PISubject.DER()) {
		v.Class("precert-respells-preissuer-name")
	}
	for _, m := range w.SCTModels {
		if m != nil && m.Version != 0 {
			v.Class("list-has-non-v1-sct")
			break
		}
	}
	if c.PreIssuer {
		v.Class("route=preissuer")
		hasAKI := false
		for _, e := range w.Content {
			if pki.OIDEq(e.OID, pki.OIDExtAKI) {
				hasAKI = true
			}
		}
		v.Class(fmt.Sprintf("aki:precert=%v,preissuer=%v", hasAKI, w.PIAKIValue != nil))
	} else {
		v.Class("route=direct")
	}
	v.Class("poison="+posClass(w.PoisonP, len(w.Content)), "sctlist="+posClass(w.SCTq, len(w.ExtsE)))
	if c.PoisonNonCrit {
		v.Class("poison-noncritical")
	}
	v.Class("issuer-ski=" + []string{"absent", "key-derived", "pooled"}[min(c.IssuerSKI, 2)])
	v.Class(fmt.Sprintf("exts=%d", len(w.Content)))
	v.Class("validity="+timeClass(c.NotBefore)+"/"+timeClass(c.NotAfter), "key="+c.KeyKind, "alg="+w.Alg)
	if c.IssuerUID != nil || c.SubjectUID != nil {
		v.Class("uniqueid")
		for _, u := range []*UIDC{c.IssuerUID, c.SubjectUID} {
			if u != nil && u.Hex == "" {
				v.Class("uniqueid-empty")
			}
			if u != nil && u.Unused != 0 {
				v.Class("uniqueid-unusedbits")
			}
		}
	}
	switch n := len(c.Serial) / 2; {
	case n == 1:
		v.Class("serial=1")
	case n == 20:
		v.Class("serial=20")
	}
	if b, _ := hex.DecodeString(c.Serial); len(b) > 0 && b[0]&0x80 != 0 {
		v.Class("serial-padded")
	}
	tags := map[byte]bool{}
	multi, multiRDN := false, false
	for _, n := range []NameC{c.Subject, c.IssuerName, c.PIName} {
		if len(n) > 1 {
			multiRDN = true
		}
		for _, r := range n {
			if len(r) > 1 {
				multi = true
			}
			for _, a := range r {
				tags[a.Tag] = true
			}
		}
	}
	if len(tags) > 1 {
		v.Class("name-mixed-string-types")
	}
	if multi {
		v.Class("name-multi-attr-rdn")
	}
	if multiRDN {
		v.Class("name-multi-rdn")
	}
	if len(c.Subject) == 0 {
		v.Class("subject-empty")
	}
	maxDigits := 0
	for _, e := range c.Exts {
		if e.Kind == "quote" {
			v.Class("quotes-pem-certificate")
		}
		for _, a := range e.Arcs {
			d := 1
			for x := a >> 7; x > 0; x >>= 7 {
				d++
			}
			maxDigits = max(maxDigits, d)
		}
	}
	if maxDigits > 0 {
		v.Class(fmt.Sprintf("private-oid-arc-digits=%d", maxDigits))
	}
	near, odd, crit := false, false, false
	for _, e := range c.Exts {
		if e.Kind == "unk" && e.Arc < 9 {
			near = true
		} else if e.Kind == "unk" && e.Arc < len(nearCT) {
			odd = true
		}
		crit = crit || e.Crit
	}
	if near {
		v.Class("near-ct-oid")
	}
	if odd {
		v.Class("odd-oid")
	}
	if crit {
		v.Class("critical-content-ext")
	}
	v.Class(fmt.Sprintf("scts=%d", len(w.SCTs)), "list"+lenClass(len(w.List)-2))
	if b := len(w.List) - 2; b >= 65336 {
		v.Class("list>=65336")
	} else if b == 65335 {
		v.Class("list=65335")
	}
	if len(w.List)-2 == 65535 {
		v.Class("list=65535")
	}
	v.Class("tbsE"+lenClass(len(w.E)-4), "tbsF"+lenClass(len(w.FTBS)-4))
	ct := w.PoisonP != 0 && w.PoisonP != len(w.Content) || w.SCTq != 0 && w.SCTq != len(w.ExtsE)
	v.NonTrivial = ct || c.PreIssuer || len(w.Content) >= 3
}
