package c03

import (
	"bytes"
	"crypto/rand"
	"crypto/sha256"
	"encoding/hex"
	"encoding/pem"
	"fmt"
	"math/big"
	"testing"

	ct "github.com/google/certificate-transparency-go"
	"github.com/google/certificate-transparency-go/ctutil"
	"github.com/google/certificate-transparency-go/submission"
	cttls "github.com/google/certificate-transparency-go/tls"
	"github.com/google/certificate-transparency-go/x509"
	"github.com/google/certificate-transparency-go/x509/pkix"
	"github.com/google/certificate-transparency-go/x509util"
	"pgregory.net/rapid"

	"verif/internal/derx"
	"verif/internal/harness"
	"verif/internal/keys"
	"verif/internal/pki"
	"verif/internal/preref"
	"verif/internal/rfc6962"
)

func sha256Of(b []byte) [32]byte { return sha256.Sum256(b) }

// modelToCT fills the repository's SCT struct field by field from the harness model (no decoding).
func modelToCT(m *rfc6962.SCT) *ct.SignedCertificateTimestamp {
	return &ct.SignedCertificateTimestamp{
		SCTVersion: ct.Version(m.Version),
		LogID:      ct.LogID{KeyID: m.LogID},
		Timestamp:  m.Timestamp,
		Extensions: ct.CTExtensions(m.Extensions),
		Signature: ct.DigitallySigned{
			Algorithm: cttls.SignatureAndHashAlgorithm{Hash: cttls.HashAlgorithm(m.Signature.Hash), Signature: cttls.SignatureAlgorithm(m.Signature.Sig)},
			Signature: m.Signature.Signature,
		},
	}
}

func sameSCT(got *ct.SignedCertificateTimestamp, m *rfc6962.SCT) string {
	switch {
	case got == nil:
		return "nil"
	case uint8(got.SCTVersion) != m.Version:
		return "version"
	case got.LogID.KeyID != m.LogID:
		return "logid"
	case got.Timestamp != m.Timestamp:
		return "timestamp"
	case !bytes.Equal(got.Extensions, m.Extensions):
		return "extensions"
	case uint8(got.Signature.Algorithm.Hash) != m.Signature.Hash || uint8(got.Signature.Algorithm.Signature) != m.Signature.Sig:
		return "algorithm"
	case !bytes.Equal(got.Signature.Signature, m.Signature.Signature):
		return "signature"
	}
	return ""
}

// finalWith builds a final certificate whose SCT list has the anchor element replaced.
func (w *World) finalWith(c *Case, sct []byte) []byte {
	l := w.listWith(w.Anchor, sct)
	if l == nil {
		return nil
	}
	tbs := w.tbsOf(c, w.IName, insertExt(w.ExtsE, w.SCTq, pki.SCTList(l)))
	return w.wrap(tbs)
}

func checkSCT(t *testing.T, c Case) harness.Verdict {
	var v harness.Verdict
	ct.AllowVerificationWithNonCompliantKeys = false
	w := Build(&c, true)
	if err := w.SelfCheck(&c); err != nil {
		v.Failf("harness-selfcheck", "%v", err)
		return v
	}
	w.classify(&c, &v)
	v.Class("logkey=" + c.LogKeyKind)
	p := parseAll(w, &c, &v)
	if p == nil {
		return v
	}
	pub := w.LogKey.Pub
	anchorModel := w.SCTModels[w.Anchor]
	anchor := modelToCT(anchorModel)

	// ---- oracle (5): the list read back equals the list embedded, element for element
	if !bytes.Equal(p.F.RawSCT, w.List) {
		v.Failf("rawsct", "Certificate.RawSCT differs from the embedded list\n got  %s\n want %s", short(p.F.RawSCT), short(w.List))
	}
	if got := p.F.SCTList.SCTList; len(got) != len(w.SCTs) {
		v.Failf("sctlist-count", "Certificate.SCTList has %d elements, %d were embedded", len(got), len(w.SCTs))
	} else {
		for i := range got {
			if !bytes.Equal(got[i].Val, w.SCTs[i]) {
				v.Failf("sctlist-element", "Certificate.SCTList[%d] = %s, embedded %s", i, short(got[i].Val), short(w.SCTs[i]))
			}
		}
	}
	if ev := preref.ExtValue(w.F, preref.OIDSCTList); !bytes.Equal(ev, w.ExtValue) {
		v.Failf("harness-selfcheck", "extnValue of the SCT list extension is not OCTET STRING(list)")
	}
	allWF := true
	for _, m := range w.SCTModels {
		if m == nil {
			allWF = false
		}
	}
	if allWF {
		v.Class("list=wellformed")
		inputs := map[string][]byte{"der": w.F}
		if c.PEM {
			inputs["pem"] = pem.EncodeToMemory(&pem.Block{Type: "CERTIFICATE", Bytes: w.F})
			v.Class("pem")
		}
		for form, in := range inputs {
			scts, err := x509util.ParseSCTsFromCertificate(in)
			if err != nil {
				v.Failf("parsescts-error", "x509util.ParseSCTsFromCertificate(%s) on a well-formed list: %v", form, err)
				continue
			}
			if len(scts) != len(w.SCTs) {
				v.Failf("parsescts-count", "ParseSCTsFromCertificate(%s) returned %d SCTs, %d embedded", form, len(scts), len(w.SCTs))
				continue
			}
			for i, s := range scts {
				if d := sameSCT(s, w.SCTModels[i]); d != "" {
					v.Failf("parsescts-field-"+d, "ParseSCTsFromCertificate(%s)[%d]: field %s differs: got %+v want %+v", form, i, d, s, w.SCTModels[i])
				}
			}
			if form != "der" {
				continue
			}
			// and back again
			l, err := x509util.MarshalSCTsIntoSCTList(scts)
			if err != nil || l == nil {
				v.Failf("marshalscts-error", "MarshalSCTsIntoSCTList: %v", err)
				continue
			}
			if len(l.SCTList) != len(w.SCTs) {
				v.Failf("marshalscts-count", "MarshalSCTsIntoSCTList gave %d elements, want %d", len(l.SCTList), len(w.SCTs))
			} else {
				for i := range l.SCTList {
					if !bytes.Equal(l.SCTList[i].Val, w.SCTs[i]) {
						v.Failf("marshalscts-element", "MarshalSCTsIntoSCTList[%d] = %s, embedded %s", i, short(l.SCTList[i].Val), short(w.SCTs[i]))
					}
				}
			}
			if enc, err := cttls.Marshal(*l); err != nil {
				v.Failf("marshalscts-tls-error", "tls.Marshal(list): %v", err)
			} else if !bytes.Equal(enc, w.List) {
				v.Failf("marshalscts-tls", "tls.Marshal(MarshalSCTsIntoSCTList(parsed)) differs from the embedded list")
			}
			var as []*submission.AssignedSCT
			for i, s := range scts {
				as = append(as, &submission.AssignedSCT{LogURL: fmt.Sprintf("https://log%d.example/", i), SCT: s})
			}
			if enc, err := submission.ASN1MarshalSCTs(as); err != nil {
				v.Failf("asn1marshalscts-error", "submission.ASN1MarshalSCTs: %v", err)
			} else if !bytes.Equal(enc, w.ExtValue) {
				v.Failf("asn1marshalscts", "ASN1MarshalSCTs differs from the extnValue embedded\n got  %s\n want %s", short(enc), short(w.ExtValue))
			}
			// from the model (not from what was parsed) as well
			var ms []*ct.SignedCertificateTimestamp
			for _, m := range w.SCTModels {
				ms = append(ms, modelToCT(m))
			}
			if l2, err := x509util.MarshalSCTsIntoSCTList(ms); err != nil {
				v.Failf("marshalscts-error", "MarshalSCTsIntoSCTList(model): %v", err)
			} else if enc, err := cttls.Marshal(*l2); err != nil || !bytes.Equal(enc, w.List) {
				v.Failf("marshalscts-tls", "tls.Marshal(MarshalSCTsIntoSCTList(model)) differs from the embedded list (%v)", err)
			}
		}
	} else {
		v.Class("list=with-opaque")
	}

	// the embedding route of (5): x509.CreateCertificate from a template that carries the list as SCTList.
	// Templates that came out of ParseCertificate also carry a RawSCT; what has to end up in the certificate
	// is the SCTList the caller set, whatever an older RawSCT says (absent / stale list with the same
	// framing but other contents / stale list with other framing).
	{
		tmpl := &x509.Certificate{SerialNumber: big.NewInt(int64(c.KeyIdx) + 2), Subject: pkixName("c03 embed"), NotBefore: pki.Epoch, NotAfter: pki.Epoch.AddDate(1, 0, 0)}
		for _, sct := range w.SCTs {
			tmpl.SCTList.SCTList = append(tmpl.SCTList.SCTList, x509.SerializedSCT{Val: sct})
		}
		mode := c.SCT2Pos % 4
		switch mode {
		case 1: // same framing, other contents
			stale := make([][]byte, len(w.SCTs))
			for i, sct := range w.SCTs {
				stale[i] = bytes.Clone(sct)
				for j := range stale[i] {
					stale[i][j] ^= byte(0x35 + j)
				}
			}
			tmpl.RawSCT, _ = rfc6962.EncodeSCTList(stale)
		case 2: // other framing
			tmpl.RawSCT, _ = rfc6962.EncodeSCTList([][]byte{{1, 2, 3}})
		case 3: // the current encoding itself
			tmpl.RawSCT = bytes.Clone(w.List)
		}
		v.Class(fmt.Sprintf("create-template-rawsct=%s", []string{"absent", "stale-same-framing", "stale-other-framing", "current"}[mode]))
		ek := keys.Pick("p256", c.KeyIdx)
		der, err := x509.CreateCertificate(rand.Reader, tmpl, tmpl, ek.Pub, ek.Signer)
		if err != nil {
			v.Failf("create-error", "x509.CreateCertificate with an SCTList of %d elements: %v", len(w.SCTs), err)
		} else if ev := preref.ExtValue(der, preref.OIDSCTList); !bytes.Equal(ev, w.ExtValue) {
			v.Failf("create-embeds-other-list", "x509.CreateCertificate embedded another SCT list than the template's SCTList (RawSCT mode %d)\n got  %s\n want %s", mode, short(ev), short(w.ExtValue))
		} else if back, err := x509.ParseCertificate(der); err != nil || len(back.SCTList.SCTList) != len(w.SCTs) {
			v.Failf("create-readback", "certificate made by CreateCertificate does not read back the list: %v", err)
		} else {
			for i := range w.SCTs {
				if !bytes.Equal(back.SCTList.SCTList[i].Val, w.SCTs[i]) {
					v.Failf("create-readback", "certificate made by CreateCertificate: SCTList[%d] differs from the template's", i)
				}
			}
		}
	}

	// negative variant of (5): a well-formed list followed by 1-3 stray bytes inside the OCTET STRING is not
	// a SignedCertificateTimestampList; whatever is read back, it must not be handed out as if it were clean.
	if trail, terr := hex.DecodeString(c.Trailing); terr == nil && len(trail) > 0 {
		bad := append(append([]byte{}, w.List...), trail...)
		der := w.wrap(w.tbsOf(&c, w.IName, insertExt(w.ExtsE, w.SCTq, pki.SCTList(bad))))
		if cert, err := x509.ParseCertificate(der); err == nil {
			v.Failf("sctlist-trailing-accepted-silently", "ParseCertificate reports no error for an SCT list extension with %d trailing byte(s) %x after the TLS list (SCTList has %d elements)", len(trail), trail, len(cert.SCTList.SCTList))
		}
		if scts, err := x509util.ParseSCTsFromCertificate(der); err == nil {
			v.Failf("parsescts-trailing-accepted-silently", "x509util.ParseSCTsFromCertificate returns %d SCTs and no error for an SCT list extension with trailing bytes %x", len(scts), trail)
		}
	}

	// ---- oracle (3): the embedded SCT verifies exactly when the log signed that precertificate
	if err := ctutil.VerifySCT(pub, p.chainF, anchor, true); err != nil {
		v.Failf("verify-embedded-rejected", "VerifySCT(embedded) rejects the SCT the log signed over E: %v", err)
	}
	want := rfc6962.LeafHash(expectedLeaf(w, c.Timestamp))
	hP, hPerr := ctutil.LeafHash(p.chainP, anchor, false)
	precertRefused := c.PoisonNonCrit && hPerr != nil // refusing a non-critical poison outright is fine; silent disagreement is not
	if precertRefused {
		v.Class("noncritical-poison-refused:leafhash")
	} else if hPerr != nil || hP != want {
		v.Failf("leafhash-precert", "LeafHash(precert) = %x (%v), want %x", hP, hPerr, want)
	}
	if err := ctutil.VerifySCT(pub, p.chainP, anchor, false); err != nil && !precertRefused {
		v.Failf("verify-precert-rejected", "VerifySCT(precert chain) rejects the SCT the log signed over E: %v", err)
	}
	if allWF {
		// through the SCT as read back from the certificate
		if scts, err := x509util.ParseSCTsFromCertificate(w.F); err == nil && len(scts) == len(w.SCTs) {
			if err := ctutil.VerifySCT(pub, p.chainF, scts[w.Anchor], true); err != nil {
				v.Failf("verify-embedded-rejected", "VerifySCT(embedded) rejects the SCT read back from F: %v", err)
			}
		}
	}
	if h, err := ctutil.LeafHash(p.chainF, anchor, true); err != nil || h != want {
		v.Failf("leafhash-embedded", "LeafHash(embedded) = %x (%v), want %x", h, err, want)
	}

	// another timestamp, same signature
	other := *anchorModel
	other.Timestamp += c.TSDelta
	fOther, err := x509.ParseCertificate(w.finalWith(&c, mustSCT(&other)))
	if err != nil || fOther == nil {
		v.Failf("generated-cert-unclean", "final certificate with altered SCT does not parse: %v", err)
		return v
	}
	if err := ctutil.VerifySCT(pub, append([]*x509.Certificate{fOther}, p.chainF[1:]...), modelToCT(&other), true); err == nil {
		v.Failf("verify-embedded-other-timestamp", "VerifySCT(embedded) accepts the signature under timestamp %d (signed: %d)", other.Timestamp, anchorModel.Timestamp)
	}
	if err := ctutil.VerifySCT(pub, p.chainP, modelToCT(&other), false); err == nil {
		v.Failf("verify-precert-other-timestamp", "VerifySCT(precert) accepts the signature under timestamp %d (signed: %d)", other.Timestamp, anchorModel.Timestamp)
	}

	// another entry: an SCT the log issued for something else must not verify for this certificate
	otherTBS, otherHash, label := w.otherEntry(&c)
	v.Class("other=" + label)
	foreign := w.SignFor(otherTBS, otherHash, c.Timestamp, anchorModel.Extensions)
	der := w.finalWith(&c, mustSCT(foreign))
	if der == nil { // the foreign signature is a byte longer and the list was already at its maximum
		v.Class("foreign-embedded-skipped")
		if err := ctutil.VerifySCT(pub, p.chainP, modelToCT(foreign), false); err == nil {
			v.Failf("verify-precert-other-entry-"+label, "VerifySCT(precert) accepts an SCT signed over another entry (%s)", label)
		}
		return v
	}
	fForeign, err := x509.ParseCertificate(der)
	if err != nil {
		v.Failf("generated-cert-unclean", "final certificate with foreign SCT does not parse: %v", err)
		return v
	}
	if err := ctutil.VerifySCT(pub, append([]*x509.Certificate{fForeign}, p.chainF[1:]...), modelToCT(foreign), true); err == nil {
		v.Failf("verify-embedded-other-entry-"+label, "VerifySCT(embedded) accepts an SCT signed over another entry (%s)", label)
	}
	if err := ctutil.VerifySCT(pub, p.chainP, modelToCT(foreign), false); err == nil {
		v.Failf("verify-precert-other-entry-"+label, "VerifySCT(precert) accepts an SCT signed over another entry (%s)", label)
	}
	return v
}

// otherEntry picks an entry that differs from (E, key hash) in exactly one respect.
func (w *World) otherEntry(c *Case) ([]byte, [32]byte, string) {
	switch k := c.OtherE; {
	case k == 1 && c.PreIssuer:
		return w.E, sha256Of(w.PIKey.SPKI), "preissuer-keyhash"
	case k == 2 && c.PreIssuer && !bytes.Equal(w.E, w.E0):
		return w.E0, w.KeyHash, "no-preissuer-rewrite"
	case k == 1 && w.LeafKey != w.IssuerKey: // (the pool may hand the same key to subject and issuer)
		return w.E, sha256Of(w.LeafKey.SPKI), "leaf-keyhash"
	case k == 3:
		return w.PTBS, w.KeyHash, "poisoned-tbs"
	}
	// serial + 1
	s, _ := new(big.Int).SetString(c.Serial, 16)
	c2 := *c
	c2.Serial = new(big.Int).Add(s, big.NewInt(1)).Text(16)
	if len(c2.Serial)%2 == 1 {
		c2.Serial = "0" + c2.Serial
	}
	tbs := w.tbsOf(&c2, w.IName, w.ExtsE)
	if len(w.ExtsE) == 0 {
		n := derx.MustParse(tbs)
		kids := [][]byte{}
		for _, k := range n.Children {
			kids = append(kids, k.Raw(tbs))
		}
		tbs = derx.Seq(append(kids, []byte{0xa3, 0x02, 0x30, 0x00})...)
	}
	return tbs, w.KeyHash, "serial"
}

var SCT = harness.Define(harness.Opts{
	Name:     "sct",
	Rule:     "same certificate contents as `entry`; the anchor SCT of the embedded list (1-6 SCTs, boundary list sizes, opaque siblings) is really signed by a harness log key (P-256 / RSA-2048) over the RFC 6962 input for E; non-trivial = CT extension neither first nor last, or pre-issuer, or >= 3 other extensions",
	Quick:    1200,
	Thorough: 8000,
}, func(t *rapid.T) Case { return genCase(t, true) }, checkSCT)

func pkixName(cn string) pkix.Name { return pkix.Name{CommonName: cn} }
