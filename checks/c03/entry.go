package c03

import (
	"bytes"
	"fmt"
	"strings"
	"testing"

	ct "github.com/google/certificate-transparency-go"
	"github.com/google/certificate-transparency-go/ctutil"
	"github.com/google/certificate-transparency-go/tls"
	"github.com/google/certificate-transparency-go/x509"
	"pgregory.net/rapid"

	"verif/internal/derx"
	"verif/internal/harness"
	"verif/internal/pki"
	"verif/internal/preref"
	"verif/internal/rfc6962"
)

// fieldName names the top-level TBSCertificate member a node is.
func fieldNames(tbs *derx.Node) []string {
	names := []string{}
	fixed := []string{"serial", "sigalg", "issuer", "validity", "subject", "spki"}
	i := 0
	for _, k := range tbs.Children {
		switch {
		case k.Tag() == 0xa0 && len(names) == 0:
			names = append(names, "version")
		case i < len(fixed):
			names = append(names, fixed[i])
			i++
		case k.Tag() == 0x81:
			names = append(names, "issueruid")
		case k.Tag() == 0x82:
			names = append(names, "subjectuid")
		case k.Tag() == 0xa3:
			names = append(names, "extensions")
		default:
			names = append(names, "unknown")
		}
	}
	return names
}

// diffTBS says where two TBSCertificates differ first (a short stable token used in violation sigs).
func diffTBS(got, want []byte) string {
	g, grest, gerr := derx.Parse(got)
	w := derx.MustParse(want)
	if gerr != nil || len(grest) != 0 || g.Children == nil {
		return "malformed"
	}
	gn, wn := fieldNames(g), fieldNames(w)
	for i := range w.Children {
		if i >= len(g.Children) {
			return "missing-" + wn[i]
		}
		if gn[i] != wn[i] {
			return "fields"
		}
		if !bytes.Equal(g.Children[i].Raw(got), w.Children[i].Raw(want)) {
			if wn[i] == "extensions" {
				return "extensions-" + diffExts(g.Children[i], w.Children[i], got, want)
			}
			return wn[i]
		}
	}
	if len(g.Children) > len(w.Children) {
		return "extra-" + gn[len(w.Children)]
	}
	return "header"
}

func diffExts(g, w *derx.Node, got, want []byte) string {
	if len(g.Children) != 1 || len(w.Children) != 1 {
		return "wrapper"
	}
	ge, we := g.Children[0].Children, w.Children[0].Children
	if len(ge) != len(we) {
		return "count"
	}
	// same multiset in another order?
	seen := map[string]int{}
	for _, e := range we {
		seen[string(e.Raw(want))]++
	}
	same := true
	for _, e := range ge {
		seen[string(e.Raw(got))]--
		if seen[string(e.Raw(got))] < 0 {
			same = false
		}
	}
	if same {
		return "order"
	}
	for i := range we {
		if !bytes.Equal(ge[i].Raw(got), we[i].Raw(want)) {
			if len(ge[i].Children) > 0 && len(we[i].Children) > 0 && bytes.Equal(ge[i].Children[0].Raw(got), we[i].Children[0].Raw(want)) {
				if bytes.Equal(we[i].Children[0].Content, derx.OIDContent(pki.OIDExtAKI)) {
					return "aki-value"
				}
				return "value"
			}
			return "member"
		}
	}
	return "length"
}

func firstDiff(a, b []byte) int {
	n := min(len(a), len(b))
	for i := 0; i < n; i++ {
		if a[i] != b[i] {
			return i
		}
	}
	return n
}

func short(b []byte) string {
	if len(b) > 700 {
		return fmt.Sprintf("%x...(%d bytes)", b[:700], len(b))
	}
	return fmt.Sprintf("%x", b)
}

// parsed chain for a case
type parsedWorld struct {
	I, PI, PINoEKU, P, F *x509.Certificate
	chainP, chainF       []*x509.Certificate
	rawP                 []ct.ASN1Cert
}

// parseAll parses the generated certificates with the code under test. The generator's precondition is
// that all of them are canonical and well-formed, so any error (fatal or not) is a harness problem and
// is reported under its own sig rather than silently tolerated.
func parseAll(w *World, c *Case, v *harness.Verdict) *parsedWorld {
	p := &parsedWorld{}
	parse := func(label string, der []byte) *x509.Certificate {
		if der == nil {
			return nil
		}
		cert, err := x509.ParseCertificate(der)
		if err != nil && label == "I" && w.IssuerSPKINoNull && !x509.IsFatal(err) && cert != nil {
			// the one tolerated non-fatal complaint: "RSA key missing NULL parameters" on the issuer
			return cert
		}
		if err != nil {
			v.Failf("generated-cert-unclean", "%s does not parse cleanly: %v\n%x", label, err, der)
		}
		return cert
	}
	p.I, p.PI, p.PINoEKU, p.P, p.F = parse("I", w.I), parse("PI", w.PI), parse("PI-noEKU", w.PINoEKU), parse("P", w.P), parse("F", w.F)
	if len(v.Violations) > 0 {
		return nil
	}
	p.chainP = []*x509.Certificate{p.P}
	p.rawP = []ct.ASN1Cert{{Data: w.P}}
	if c.PreIssuer {
		p.chainP = append(p.chainP, p.PI)
		p.rawP = append(p.rawP, ct.ASN1Cert{Data: w.PI})
	}
	p.chainP = append(p.chainP, p.I)
	p.rawP = append(p.rawP, ct.ASN1Cert{Data: w.I})
	p.chainF = []*x509.Certificate{p.F, p.I}
	if c.ExtraInChain {
		// a trailing certificate that must play no role (here: the final certificate itself)
		p.chainP = append(p.chainP, p.F)
		p.rawP = append(p.rawP, ct.ASN1Cert{Data: w.F})
		p.chainF = append(p.chainF, p.P)
	}
	return p
}

func expectedLeaf(w *World, ts uint64) []byte {
	b, err := rfc6962.EncodeLeaf(rfc6962.Leaf{Timestamp: ts, Entry: rfc6962.Entry{Type: rfc6962.PrecertEntry, IssuerKeyHash: w.KeyHash, TBS: w.E}})
	if err != nil {
		panic(err)
	}
	return b
}

// judgeLeaf compares a leaf produced by the code under test with the RFC 6962 encoding of (E, key hash, ts).
func judgeLeaf(v *harness.Verdict, w *World, c *Case, route string, leaf *ct.MerkleTreeLeaf, err error, want []byte) {
	if err != nil || leaf == nil {
		if c.PoisonNonCrit && err != nil && !strings.HasSuffix(route, "embedded") {
			// a non-critical poison is not what RFC 6962 s3.1 prescribes: refusing it is fine, only a silent
			// disagreement between the routes is not
			v.Class("noncritical-poison-refused:" + route)
			return
		}
		v.Failf("leaf-"+route+"-error", "%s refused a well-formed chain: %v", route, err)
		return
	}
	if te := leaf.TimestampedEntry; te == nil || te.PrecertEntry == nil {
		v.Failf("leaf-"+route+"-shape", "%s returned a leaf without a precert entry: %+v", route, leaf)
		return
	} else {
		if te.PrecertEntry.IssuerKeyHash != w.KeyHash {
			which := "unrelated"
			if c.PreIssuer && te.PrecertEntry.IssuerKeyHash == sha256Of(w.PIKey.SPKI) {
				which = "the pre-issuer's key"
			} else if te.PrecertEntry.IssuerKeyHash == sha256Of(w.LeafKey.SPKI) {
				which = "the leaf's key"
			}
			v.Failf("leaf-"+route+"-keyhash", "%s: issuer_key_hash %x is not SHA-256 of the final issuer's SPKI %x (it is %s)", route, te.PrecertEntry.IssuerKeyHash, w.KeyHash, which)
		}
		if !bytes.Equal(te.PrecertEntry.TBSCertificate, w.E) {
			v.Failf("leaf-"+route+"-tbs-"+diffTBS(te.PrecertEntry.TBSCertificate, w.E), "%s: tbs_certificate differs from E at offset %d\n got  %s\n want %s", route, firstDiff(te.PrecertEntry.TBSCertificate, w.E), short(te.PrecertEntry.TBSCertificate), short(w.E))
		}
	}
	enc, merr := tls.Marshal(*leaf)
	if merr != nil {
		v.Failf("leaf-"+route+"-marshal", "%s: leaf does not TLS-encode: %v", route, merr)
		return
	}
	if !bytes.Equal(enc, want) {
		v.Failf("leaf-"+route+"-encoding", "%s: MerkleTreeLeaf encoding differs from RFC 6962 reference at offset %d\n got  %s\n want %s", route, firstDiff(enc, want), short(enc), short(want))
	}
}

func judgeTBS(v *harness.Verdict, what string, got []byte, err error, want []byte, refusalOK bool) {
	if err != nil && refusalOK {
		v.Class("noncritical-poison-refused:" + what)
		return
	}
	if err != nil {
		v.Failf(what+"-error", "%s refused a canonical TBSCertificate: %v", what, err)
		return
	}
	if !bytes.Equal(got, want) {
		v.Failf(what+"-diff-"+diffTBS(got, want), "%s output differs from the byte-level reference at offset %d\n got  %s\n want %s", what, firstDiff(got, want), short(got), short(want))
	}
}

func mustFail(v *harness.Verdict, sig, what string, out any, err error) {
	if err == nil {
		v.Failf(sig, "%s succeeded (%v) but must fail", what, out)
	}
}

func checkEntry(t *testing.T, c Case) harness.Verdict {
	var v harness.Verdict
	ct.AllowVerificationWithNonCompliantKeys = false
	w := Build(&c, false)
	if err := w.SelfCheck(&c); err != nil {
		v.Failf("harness-selfcheck", "%v", err)
		return v
	}
	w.classify(&c, &v)
	p := parseAll(w, &c, &v)
	if p == nil {
		return v
	}

	// ---- oracle (1): byte-exact transformation
	inP := append([]byte{}, w.PTBS...)
	inF := append([]byte{}, w.FTBS...)
	var pre *x509.Certificate
	if c.PreIssuer {
		pre = p.PI
	}
	got, err := x509.BuildPrecertTBS(inP, pre)
	judgeTBS(&v, "buildprecert", got, err, w.E, c.PoisonNonCrit)
	got, err = x509.RemoveCTPoison(inP)
	judgeTBS(&v, "removepoison", got, err, w.E0, c.PoisonNonCrit)
	got, err = x509.RemoveSCTList(inF)
	judgeTBS(&v, "removesctlist", got, err, w.E, false)
	if !bytes.Equal(inP, w.PTBS) || !bytes.Equal(inF, w.FTBS) {
		v.Failf("input-mutated", "the transformation modified its input buffer")
	}
	// the parsed certificate hands out the same TBS bytes
	if !bytes.Equal(p.P.RawTBSCertificate, w.PTBS) || !bytes.Equal(p.F.RawTBSCertificate, w.FTBS) {
		v.Failf("raw-tbs", "RawTBSCertificate is not the TBS that was signed")
	}

	// A sibling issuer - same name, same subjectKeyIdentifier selection, another key - issues the same
	// content directly. "For every issuer": its entry carries ITS key hash on both routes, whatever was
	// computed before in this process (drawn order: before or after the main issuer).
	sibling := func() {
		sibI, err := x509.ParseCertificate(w.SibI)
		if err != nil {
			v.Failf("generated-cert-unclean", "sibling issuer does not parse cleanly: %v", err)
			return
		}
		ptbs := w.tbsOf(&c, w.IName, insertExt(w.Content, w.PoisonP, w.Poison))
		ftbs := w.tbsOf(&c, w.IName, insertExt(w.Content, clamp(c.SCTPos, len(w.Content)), pki.SCTList(w.List)))
		e2, rerr := preref.Transform(ptbs, preref.OIDPoison, nil)
		if rerr != nil {
			panic(rerr)
		}
		sp, err1 := x509.ParseCertificate(w.wrap(ptbs))
		sf, err2 := x509.ParseCertificate(w.wrap(ftbs))
		if err1 != nil || err2 != nil {
			v.Failf("generated-cert-unclean", "sibling certificates do not parse cleanly: %v / %v", err1, err2)
			return
		}
		sw := &World{KeyHash: sha256Of(w.SibKey.SPKI), E: e2, PIKey: w.PIKey, LeafKey: w.LeafKey}
		sc := c
		sc.PreIssuer = false
		wantS, eerr := rfc6962.EncodeLeaf(rfc6962.Leaf{Timestamp: c.Timestamp, Entry: rfc6962.Entry{Type: rfc6962.PrecertEntry, IssuerKeyHash: sw.KeyHash, TBS: e2}})
		if eerr != nil {
			panic(eerr)
		}
		leaf, err := ct.MerkleTreeLeafFromChain([]*x509.Certificate{sp, sibI}, ct.PrecertLogEntryType, c.Timestamp)
		judgeLeaf(&v, sw, &sc, "sibling-fromchain", leaf, err, wantS)
		leaf, err = ct.MerkleTreeLeafFromRawChain([]ct.ASN1Cert{{Data: sp.Raw}, {Data: w.SibI}}, ct.PrecertLogEntryType, c.Timestamp)
		judgeLeaf(&v, sw, &sc, "sibling-fromrawchain", leaf, err, wantS)
		leaf, err = ct.MerkleTreeLeafForEmbeddedSCT([]*x509.Certificate{sf, sibI}, c.Timestamp)
		judgeLeaf(&v, sw, &sc, "sibling-embedded", leaf, err, wantS)
	}
	if c.SiblingFirst {
		v.Class("sibling-issuer=first")
		sibling()
	} else {
		v.Class("sibling-issuer=after")
	}

	// ---- oracle (2): all routes give the RFC 6962 leaf for (E, SHA-256(issuer SPKI), ts)
	want := expectedLeaf(w, c.Timestamp)
	leaf, err := ct.MerkleTreeLeafFromChain(p.chainP, ct.PrecertLogEntryType, c.Timestamp)
	judgeLeaf(&v, w, &c, "fromchain", leaf, err, want)
	leaf, err = ct.MerkleTreeLeafFromRawChain(p.rawP, ct.PrecertLogEntryType, c.Timestamp)
	judgeLeaf(&v, w, &c, "fromrawchain", leaf, err, want)
	leaf, err = ct.MerkleTreeLeafForEmbeddedSCT(p.chainF, c.Timestamp)
	judgeLeaf(&v, w, &c, "embedded", leaf, err, want)

	wantHash := rfc6962.LeafHash(want)
	anchor := modelToCT(w.SCTModels[w.Anchor])
	if h, err := ctutil.LeafHash(p.chainP, anchor, false); err != nil && c.PoisonNonCrit {
		v.Class("noncritical-poison-refused:leafhash")
	} else if err != nil {
		v.Failf("leafhash-precert-error", "ctutil.LeafHash(precert chain): %v", err)
	} else if h != wantHash {
		v.Failf("leafhash-precert", "ctutil.LeafHash(precert chain) = %x, want %x", h, wantHash)
	}
	if h, err := ctutil.LeafHash(p.chainF, anchor, true); err != nil {
		v.Failf("leafhash-embedded-error", "ctutil.LeafHash(final chain, embedded): %v", err)
	} else if h != wantHash {
		v.Failf("leafhash-embedded", "ctutil.LeafHash(final chain, embedded) = %x, want %x", h, wantHash)
	}

	if !c.SiblingFirst {
		sibling()
	}

	// ---- oracle (4): not exactly one targeted extension => error; pre-issuer without CT EKU => error
	p0 := w.tbsOf(&c, issuerNameOfP(w, &c), w.Content) // no poison (no extension block at all when Content is empty)
	out, err := x509.BuildPrecertTBS(p0, pre)
	mustFail(&v, "zero-poison-accepted", "BuildPrecertTBS without poison", short(out), err)
	out, err = x509.RemoveCTPoison(p0)
	mustFail(&v, "zero-poison-accepted", "RemoveCTPoison without poison", short(out), err)
	withP := insertExt(w.Content, w.PoisonP, w.Poison)
	p2 := w.tbsOf(&c, issuerNameOfP(w, &c), insertExt(withP, clamp(c.Poison2Pos, len(withP)), w.Poison))
	out, err = x509.BuildPrecertTBS(p2, pre)
	mustFail(&v, "two-poisons-accepted", "BuildPrecertTBS with two poison extensions", short(out), err)
	out, err = x509.RemoveCTPoison(p2)
	mustFail(&v, "two-poisons-accepted", "RemoveCTPoison with two poison extensions", short(out), err)
	out, err = x509.RemoveSCTList(w.E)
	mustFail(&v, "zero-sctlists-accepted", "RemoveSCTList without SCT list", short(out), err)
	out, err = x509.RemoveSCTList(w.PTBS)
	mustFail(&v, "zero-sctlists-accepted", "RemoveSCTList on the precertificate", short(out), err)
	out, err = x509.RemoveCTPoison(w.FTBS)
	mustFail(&v, "zero-poison-accepted", "RemoveCTPoison on the final certificate", short(out), err)
	withS := insertExt(w.ExtsE, w.SCTq, pki.SCTList(w.List))
	second := pki.SCTList(w.List) // an identical twin
	if one, err := rfc6962.EncodeSCTList(w.SCTs[w.Anchor : w.Anchor+1]); err == nil && c.SCT2Pos%2 == 1 {
		second = pki.SCTList(one) // a different list
	}
	f2 := w.tbsOf(&c, w.IName, insertExt(withS, clamp(c.SCT2Pos, len(withS)), second))
	out, err = x509.RemoveSCTList(f2)
	mustFail(&v, "two-sctlists-accepted", "RemoveSCTList with two SCT list extensions", short(out), err)

	// the same through the leaf builders (certificates wrapped with a borrowed signature)
	for _, neg := range []struct {
		sig, what string
		tbs       []byte
	}{{"zero-poison-accepted", "no poison", p0}, {"two-poisons-accepted", "two poisons", p2}} {
		cert, perr := x509.ParseCertificate(w.wrap(neg.tbs))
		if perr != nil {
			v.Failf("generated-cert-unclean", "negative variant (%s) does not parse: %v", neg.what, perr)
			continue
		}
		chain := append([]*x509.Certificate{cert}, p.chainP[1:]...)
		l, err := ct.MerkleTreeLeafFromChain(chain, ct.PrecertLogEntryType, c.Timestamp)
		mustFail(&v, neg.sig, "MerkleTreeLeafFromChain with "+neg.what, l, err)
	}
	for _, neg := range []struct {
		sig, what string
		tbs       []byte
	}{{"zero-sctlists-accepted", "no SCT list", w.E}, {"two-sctlists-accepted", "two SCT lists", f2}} {
		cert, perr := x509.ParseCertificate(w.wrap(neg.tbs))
		if cert == nil {
			v.Failf("generated-cert-unclean", "negative variant (%s) does not parse: %v", neg.what, perr)
			continue
		}
		l, err := ct.MerkleTreeLeafForEmbeddedSCT([]*x509.Certificate{cert, p.I}, c.Timestamp)
		mustFail(&v, neg.sig, "MerkleTreeLeafForEmbeddedSCT with "+neg.what, l, err)
	}

	// pre-issuer without the CT EKU
	if c.PreIssuer {
		out, err = x509.BuildPrecertTBS(w.PTBS, p.PINoEKU)
		mustFail(&v, "preissuer-without-ct-eku-accepted", "BuildPrecertTBS with a pre-issuer lacking the CT EKU", short(out), err)
		// a pre-issuer chain that stops at the pre-issuer cannot name the final issuer's key
		l, err := ct.MerkleTreeLeafFromChain(p.chainP[:2], ct.PrecertLogEntryType, c.Timestamp)
		mustFail(&v, "preissuer-chain-without-issuer-accepted", "MerkleTreeLeafFromChain([precert, pre-issuer])", l, err)
	} else {
		out, err = x509.BuildPrecertTBS(w.PTBS, p.I)
		mustFail(&v, "preissuer-without-ct-eku-accepted", "BuildPrecertTBS with an ordinary CA as pre-issuer", short(out), err)
		l, err := ct.MerkleTreeLeafFromChain(p.chainP[:1], ct.PrecertLogEntryType, c.Timestamp)
		mustFail(&v, "precert-chain-without-issuer-accepted", "MerkleTreeLeafFromChain([precert])", l, err)
	}
	return v
}

func issuerNameOfP(w *World, c *Case) pki.Name { return w.IssuerOfP }

var Entry = harness.Define(harness.Opts{
	Name:     "entry",
	Rule:     "canonical TBSCertificates (0-8 non-CT extensions, any order / criticality, mixed name encodings, serial 1-20 bytes, UTCTime / GeneralizedTime, EC / RSA / Ed25519, unique ids), poison at p, SCT list at q, with / without pre-issuer and AKIs; non-trivial = CT extension neither first nor last, or pre-issuer, or >= 3 other extensions",
	Quick:    2500,
	Thorough: 20000,
}, func(t *rapid.T) Case { return genCase(t, false) }, checkEntry)
