package c04

import (
	"bytes"
	"fmt"
	"testing"

	ct "github.com/google/certificate-transparency-go"
	cttls "github.com/google/certificate-transparency-go/tls"
	"github.com/google/certificate-transparency-go/x509"
	"pgregory.net/rapid"

	"verif/internal/harness"
	"verif/internal/rfc6962"
)

// Decoding into a destination that already holds the result of an earlier decode (the usual shape of
// a loop over get-entries results) must give what the bytes denote, exactly like a decode into a zero
// value: no field of the previous value may survive.

type ReuseStep struct {
	Leaf    *LeafSpec `json:",omitempty"`
	SCT     *SCTSpec  `json:",omitempty"`
	DS      *DSSpec   `json:",omitempty"`
	PreCert *Blob     `json:",omitempty"`
	Chain   []Blob    `json:",omitempty"`
	Items   []Blob    `json:",omitempty"`
	Cut     int       `json:",omitempty"` // > 0: the input lacks its last Cut bytes (a decode that should fail in between)
	Tail    []byte    `json:",omitempty"` // bytes after the structure (must come back as rest)
}

type ReuseCase struct {
	Struct string // leaf | sct | ds | chain | prechain | sctlist
	Steps  []ReuseStep
}

func genReuse(t *rapid.T) ReuseCase {
	c := ReuseCase{Struct: pickFrom(t, "struct", []string{"leaf", "leaf", "leaf", "sct", "ds", "chain", "prechain", "sctlist"})}
	n := 2 + pick(t, "nsteps", 3)
	for i := 0; i < n; i++ {
		var s ReuseStep
		switch c.Struct {
		case "leaf":
			l := genValidLeaf(t)
			s.Leaf = &l
		case "sct":
			x := SCTSpec{Version: genEnum8(t, "ver", 8), LogID: rapid.Uint32().Draw(t, "id"), Timestamp: genU64(t, "ts"), Ext: genValidBlob(t, "ext", 0, false)}
			x.DS = DSSpec{Hash: rapid.Uint8().Draw(t, "hash"), Sig: rapid.Uint8().Draw(t, "alg"), Signature: genValidBlob(t, "sig", 0, false)}
			s.SCT = &x
		case "ds":
			s.DS = &DSSpec{Hash: rapid.Uint8().Draw(t, "hash"), Sig: rapid.Uint8().Draw(t, "alg"), Signature: genValidBlob(t, "sig", 0, false)}
		case "chain":
			s.Chain = genValidChain(t)
		case "prechain":
			p := genValidBlob(t, "precert", 1, true)
			s.PreCert = &p
			s.Chain = genValidChain(t)
		case "sctlist":
			for j, k := 0, rapid.IntRange(1, 4).Draw(t, "nitems"); j < k; j++ {
				s.Items = append(s.Items, genSmallBlob(t, fmt.Sprintf("item%d", j), 1, 60))
			}
		}
		if i < n-1 && pick(t, "cut", 6) == 5 {
			s.Cut = rapid.IntRange(1, 3).Draw(t, "ncut")
		} else if pick(t, "tail", 4) == 3 {
			s.Tail = rapid.SliceOfN(rapid.Byte(), 1, 3).Draw(t, "tailbytes")
		}
		c.Steps = append(c.Steps, s)
	}
	return c
}

// scribbleAfter appends to a decoded byte string, discarding the result: harmless unless the slice has
// spare capacity that belongs to somebody else.
func scribbleAfter(b []byte) {
	_ = append(b, 0xA5, 0xA5, 0xA5, 0xA5, 0xA5, 0xA5, 0xA5, 0xA5, 0xA5, 0xA5, 0xA5, 0xA5)
}

func (s ReuseStep) bytes(kind string) ([]byte, error) {
	var b []byte
	var err error
	switch kind {
	case "leaf":
		b, err = rfc6962.EncodeLeaf(s.Leaf.ref())
	case "sct":
		b, err = rfc6962.EncodeSCT(s.SCT.ref())
	case "ds":
		b, err = rfc6962.EncodeDS(s.DS.ref())
	case "chain":
		b, err = rfc6962.EncodeChain(blobsBytes(s.Chain))
	case "prechain":
		b, err = rfc6962.EncodePrecertChainEntry(s.PreCert.Bytes(), blobsBytes(s.Chain))
	case "sctlist":
		b, err = rfc6962.EncodeSCTList(blobsBytes(s.Items))
	default:
		err = fmt.Errorf("unknown struct %q", kind)
	}
	if err != nil {
		return nil, err
	}
	if s.Cut > 0 {
		if s.Cut > len(b) {
			return b[:0], nil
		}
		return b[:len(b)-s.Cut], nil
	}
	return append(b, s.Tail...), nil
}

func checkReuse(t *testing.T, c ReuseCase) (v harness.Verdict) {
	v.Class("struct:" + c.Struct)
	v.NonTrivial = true
	// the re-used destinations
	var (
		leaf  ct.MerkleTreeLeaf
		sct   ct.SignedCertificateTimestamp
		ds    cttls.DigitallySigned
		chain ct.CertificateChain
		pre   ct.PrecertChainEntry
		list  x509.SignedCertificateTimestampList
	)
	prevType := -1
	for i, s := range c.Steps {
		in, err := s.bytes(c.Struct)
		if err != nil {
			v.Discard = true
			return v
		}
		// the decoder reads from a buffer of its own that is scribbled over afterwards; the reference reads `in`
		buf := clone(in)
		poke := func() {}
		var rest []byte
		var derr, werr error
		var wrest []byte
		same := func() string { return "" }
		var val any
		switch c.Struct {
		case "leaf":
			if prevType >= 0 && prevType != int(s.Leaf.Entry.Type) && s.Cut == 0 {
				v.Class("leaf:entry-type-changes")
			}
			rest, derr = cttls.Unmarshal(buf, &leaf)
			var want rfc6962.Leaf
			want, wrest, werr = rfc6962.DecodeLeaf(in)
			val = leaf
			poke = func() {
				if te := leaf.TimestampedEntry; te != nil {
					if te.X509Entry != nil {
						scribbleAfter(te.X509Entry.Data)
					}
					if te.PrecertEntry != nil {
						scribbleAfter(te.PrecertEntry.TBSCertificate)
					}
					scribbleAfter(te.Extensions)
				}
			}
			same = func() string {
				got, why := refFromRepoLeaf(leaf)
				if why != "" {
					return why
				}
				if !eqLeaf(got, want) {
					return fmt.Sprintf("got %s want %s", short(got), short(want))
				}
				return ""
			}
			if derr == nil {
				prevType = int(s.Leaf.Entry.Type)
			}
		case "sct":
			rest, derr = cttls.Unmarshal(buf, &sct)
			var want rfc6962.SCT
			want, wrest, werr = rfc6962.DecodeSCT(in)
			val = sct
			poke = func() { scribbleAfter(sct.Extensions); scribbleAfter(sct.Signature.Signature) }
			same = func() string {
				if !eqSCT(refFromRepoSCT(sct), want) {
					return "different SCT"
				}
				return ""
			}
		case "ds":
			rest, derr = cttls.Unmarshal(buf, &ds)
			var want rfc6962.DigitallySigned
			want, wrest, werr = rfc6962.DecodeDS(in)
			val = ds
			poke = func() { scribbleAfter(ds.Signature) }
			same = func() string {
				if !eqDS(refFromRepoDS(ds), want) {
					return "different DigitallySigned"
				}
				return ""
			}
		case "chain":
			rest, derr = cttls.Unmarshal(buf, &chain)
			var want [][]byte
			want, wrest, werr = rfc6962.DecodeChain(in)
			val = chain
			poke = func() {
				for _, e := range chain.Entries {
					scribbleAfter(e.Data)
				}
			}
			same = func() string {
				if !eqList(certsData(chain.Entries), want) {
					return fmt.Sprintf("%d entries, want %d", len(chain.Entries), len(want))
				}
				return ""
			}
		case "prechain":
			rest, derr = cttls.Unmarshal(buf, &pre)
			var wp []byte
			var wc [][]byte
			wp, wc, wrest, werr = rfc6962.DecodePrecertChainEntry(in)
			val = pre
			poke = func() {
				scribbleAfter(pre.PreCertificate.Data)
				for _, e := range pre.CertificateChain {
					scribbleAfter(e.Data)
				}
			}
			same = func() string {
				if !eqBytes(pre.PreCertificate.Data, wp) || !eqList(certsData(pre.CertificateChain), wc) {
					return "different PrecertChainEntry"
				}
				return ""
			}
		case "sctlist":
			rest, derr = cttls.Unmarshal(buf, &list)
			var want [][]byte
			body := len(in)
			if len(in) >= 2 {
				body = 2 + (int(in[0])<<8 | int(in[1]))
			}
			if body > len(in) {
				werr = fmt.Errorf("truncated")
			} else {
				want, werr = rfc6962.DecodeSCTList(in[:body])
				wrest = in[body:]
			}
			val = list
			poke = func() {
				for _, e := range list.SCTList {
					scribbleAfter(e.Val)
				}
			}
			same = func() string {
				got := make([][]byte, len(list.SCTList))
				for j, it := range list.SCTList {
					got[j] = it.Val
				}
				if !eqList(got, want) {
					return fmt.Sprintf("%d items, want %d", len(got), len(want))
				}
				return ""
			}
		default:
			v.Discard = true
			return v
		}
		if s.Cut > 0 {
			v.Class("step:truncated-input")
		}
		if (derr == nil) != (werr == nil) {
			// accept/refuse disagreements on a fresh destination are the decode sub-property's business; on a re-used
			// one they are a finding of this one
			v.Failf("reuse-verdict:"+c.Struct, "step %d of %d into a re-used %s: tls.Unmarshal %s, reference %s (input %d bytes %x...)", i+1, len(c.Steps), c.Struct, errStr(derr), errStr(werr), len(in), head(in, 32))
			return v
		}
		if derr != nil {
			continue
		}
		if why := same(); why != "" || len(rest) != len(wrest) {
			v.Failf("reuse-value:"+c.Struct, "step %d of %d: decoding %x... (%d bytes) into a %s that held the previous result does not give what the bytes denote: %s (rest %d, want %d)", i+1, len(c.Steps), head(in, 32), len(in), c.Struct, why, len(rest), len(wrest))
			return v
		}
		// what a caller may do next: append to the byte strings it was given, and re-use its read buffer
		poke()
		for j := range buf {
			buf[j] ^= 0x5A
		}
		if why := same(); why != "" {
			v.Failf("reuse-aliases-input:"+c.Struct, "step %d of %d: after appending to the decoded byte strings and overwriting the input buffer, the decoded %s no longer equals what the bytes denoted: %s", i+1, len(c.Steps), c.Struct, why)
			return v
		}
		consumed := in[:len(in)-len(rest)]
		back, merr := cttls.Marshal(val)
		if merr != nil || !bytes.Equal(back, consumed) {
			v.Failf("reuse-reencode:"+c.Struct, "step %d of %d: the %s decoded into a re-used destination does not re-encode to its input: %v %s", i+1, len(c.Steps), c.Struct, merr, firstDiff(back, consumed))
			return v
		}
	}
	return v
}

// Reuse is the decode-into-a-re-used-destination part of C04.
var Reuse = harness.Define(harness.Opts{
	Name:  "reuse",
	Rule:  "2-4 reference encodings of one structure (MerkleTreeLeaf with independently drawn entry types, SCT, DigitallySigned, certificate chain, PrecertChainEntry, SCT list; sizes as in decode; one step in six truncated so that a failing decode sits in between; a quarter with trailing bytes) decoded one after the other with tls.Unmarshal into the SAME variable; the decoder reads from a private copy of the input; after every step twelve bytes are appended (result discarded) to every decoded byte string and the input buffer is overwritten, then the variable must equal what the reference decoder reads from the pristine bytes (variant pointers included), the rest must match in length, and tls.Marshal of the variable must give the consumed input back. Every case is non-trivial",
	Quick: 2000, Thorough: 20000, MaxSample: 700,
}, genReuse, checkReuse)
