package c04

import (
	"fmt"
	"sync"

	"github.com/google/certificate-transparency-go/x509"
	"github.com/google/certificate-transparency-go/x509util"

	"verif/internal/derx"
	"verif/internal/harness"
	"verif/internal/keys"
	"verif/internal/pki"
	"verif/internal/rfc6962"
)

// The certificate route of the SCT list decoder: x509.ParseCertificate decodes the
// SignedCertificateTimestampList held in the OCTET STRING of extension 1.3.6.1.4.1.11129.2.4.2 and
// promises a complete parse of it ("trailing data after TLS-encoded SCT list").

var certFix struct {
	once   sync.Once
	root   *pki.Cert
	sigAlg []byte
	sig    []byte // a genuine signature BIT STRING TLV (over another TBS): parsing does not verify it
	err    error
}

func certFixture() error {
	certFix.once.Do(func() {
		certFix.root = pki.Issue(nil, pki.CATemplate("C04 Root", keys.Pick("p256", 0), 1, nil), "root")
		probe := pki.Issue(certFix.root, pki.LeafTemplate("c04-probe", keys.Pick("p256", 1), 2, pki.KeyID(certFix.root.Key)), "probe")
		n, _, err := derx.Parse(probe.DER)
		if err != nil || len(n.Children) != 3 {
			certFix.err = fmt.Errorf("cannot take the probe certificate apart: %v", err)
			return
		}
		certFix.sigAlg = n.Children[1].Encode()
		certFix.sig = n.Children[2].Encode()
		// control: the template without an SCT list, and with a minimal good one, parses without any error
		for _, list := range [][]byte{nil, {0, 3, 0, 1, 'x'}} {
			if _, err := x509.ParseCertificate(certWithList(list, 0, list != nil)); err != nil {
				certFix.err = fmt.Errorf("control certificate does not parse cleanly: %v", err)
			}
		}
	})
	return certFix.err
}

// certWithList builds an otherwise valid end-entity certificate whose SCT list extension (at position
// pos among the extensions) carries list verbatim inside the OCTET STRING.
func certWithList(list []byte, pos int, withExt bool) []byte {
	t := pki.LeafTemplate("c04-leaf", keys.Pick("p256", 1), 77, pki.KeyID(certFix.root.Key))
	t.Issuer = certFix.root.Tmpl.Subject
	if withExt {
		p := pos % (len(t.Exts) + 1)
		exts := append([]pki.Ext{}, t.Exts[:p]...)
		exts = append(exts, pki.SCTList(list))
		t.Exts = append(exts, t.Exts[p:]...)
	}
	return derx.Seq(t.TBS(certFix.root.Key), certFix.sigAlg, certFix.sig)
}

func judgeCertList(v *harness.Verdict, list []byte, pos int) {
	if err := certFixture(); err != nil {
		v.Failf("harness", "%v", err)
		return
	}
	want, werr := rfc6962.DecodeSCTList(list)
	der := certWithList(list, pos, true)
	cert, err := x509.ParseCertificate(der)
	if cert == nil {
		v.Failf("certlist-fatal", "ParseCertificate failed fatally on an otherwise valid certificate with a %d-byte SCT list extension %x...: %v", len(list), head(list, 32), err)
		return
	}
	switch {
	case werr != nil && err == nil:
		v.Class("certlist:ref-refuses")
		v.Failf("certlist-accepts-invalid", "ParseCertificate reports no error for an SCT list extension holding %d bytes %x... that RFC 6962 s3.3 does not allow (%v); SCTList has %d elements", len(list), head(list, 48), werr, len(cert.SCTList.SCTList))
	case werr == nil && err != nil:
		v.Class("certlist:ref-accepts")
		v.Failf("certlist-refuses-valid", "ParseCertificate reports %v for a certificate whose only special feature is a valid %d-byte SCT list %x...", err, len(list), head(list, 48))
	case werr == nil:
		v.Class("certlist:ref-accepts")
		got := make([][]byte, len(cert.SCTList.SCTList))
		for i, s := range cert.SCTList.SCTList {
			got[i] = s.Val
		}
		if !eqList(got, want) || !eqBytes(cert.RawSCT, list) {
			v.Failf("certlist-value", "certificate SCT list decoded to %d items (want %d), RawSCT %d bytes (want %d)", len(got), len(want), len(cert.RawSCT), len(list))
		}
	default:
		v.Class("certlist:ref-refuses")
	}

	// x509util.ParseSCTsFromCertificate: the list and every SCT in it must be complete and well-formed
	var wantSCTs []rfc6962.SCT
	perr := werr
	for i, it := range want {
		s, rest, e := rfc6962.DecodeSCT(it)
		if e == nil && len(rest) != 0 {
			e = fmt.Errorf("%d trailing bytes", len(rest))
		}
		if e != nil && perr == nil {
			perr = fmt.Errorf("SCT %d: %v", i, e)
		}
		wantSCTs = append(wantSCTs, s)
	}
	scts, serr := x509util.ParseSCTsFromCertificate(der)
	switch {
	case perr != nil && serr == nil:
		v.Failf("certscts-accepts-invalid", "ParseSCTsFromCertificate returned %d SCTs and no error for an SCT list extension %x... (%d bytes): %v", len(scts), head(list, 48), len(list), perr)
	case perr == nil && serr != nil:
		v.Failf("certscts-refuses-valid", "ParseSCTsFromCertificate refused a valid embedded SCT list (%d SCTs): %v", len(wantSCTs), serr)
	case perr == nil:
		v.Class("certlist:scts-parsed")
		if len(scts) != len(wantSCTs) {
			v.Failf("certscts-value", "%d SCTs parsed from the certificate, want %d", len(scts), len(wantSCTs))
			return
		}
		for i, s := range scts {
			if !eqSCT(refFromRepoSCT(*s), wantSCTs[i]) {
				v.Failf("certscts-value", "embedded SCT %d parsed to a different value", i)
			}
		}
	}
}
