package c04

import (
	"bytes"
	"fmt"
	"sync"
	"testing"

	ct "github.com/google/certificate-transparency-go"
	cttls "github.com/google/certificate-transparency-go/tls"
	"pgregory.net/rapid"

	"verif/internal/harness"
	"verif/internal/rfc6962"
)

// The codecs are called from many request handlers at once. G goroutines encode and decode DIFFERENT
// values of the same RFC 6962 types simultaneously; every single result must be what the reference says
// for that goroutine's value. (The check is not built with the race detector - the 16 MB cases of
// encode16m would take minutes under it - so interference is detected through wrong bytes / values.)

type ConcWorker struct {
	Leaf  LeafSpec
	SCT   SCTSpec
	Chain []Blob
}

type ConcCase struct {
	Rounds  int
	Workers []ConcWorker
}

func genConc(t *rapid.T) ConcCase {
	c := ConcCase{Rounds: 100 + 100*pick(t, "rounds", 4)}
	g := 4 + pick(t, "goroutines", 13)
	for i := 0; i < g; i++ {
		w := ConcWorker{}
		w.Leaf = LeafSpec{Timestamp: genU64(t, "ts"), Ext: genSmallBlob(t, "ext", 0, 300)}
		w.Leaf.Entry = EntrySpec{Type: uint16(pick(t, "etype", 2)), IKH: rapid.Uint32().Draw(t, "ikh"), Cert: genSmallBlob(t, "cert", 1, 700), TBS: genSmallBlob(t, "tbs", 1, 700)}
		w.SCT = SCTSpec{LogID: rapid.Uint32().Draw(t, "id"), Timestamp: genU64(t, "sts"), Ext: genSmallBlob(t, "sext", 0, 300),
			DS: DSSpec{Hash: rapid.Uint8().Draw(t, "hash"), Sig: rapid.Uint8().Draw(t, "alg"), Signature: genSmallBlob(t, "sig", 0, 300)}}
		for j, n := 0, rapid.IntRange(0, 4).Draw(t, "nchain"); j < n; j++ {
			w.Chain = append(w.Chain, genSmallBlob(t, "chain", 1, 400))
		}
		c.Workers = append(c.Workers, w)
	}
	return c
}

func checkConc(t *testing.T, c ConcCase) (v harness.Verdict) {
	v.NonTrivial = true
	v.Class(fmt.Sprintf("goroutines=%d", len(c.Workers)))
	type job struct {
		leaf               ct.MerkleTreeLeaf
		sct                ct.SignedCertificateTimestamp
		chain              ct.CertificateChain
		pre                ct.PrecertChainEntry
		refLeaf            rfc6962.Leaf
		refSCT             rfc6962.SCT
		chainBytes         [][]byte
		wLeaf, wSCT, wIn   []byte
		wChain, wPre, wSTH []byte
		sth                ct.SignedTreeHead
	}
	jobs := make([]*job, len(c.Workers))
	for i, w := range c.Workers {
		j := &job{leaf: w.Leaf.repo(false), sct: w.SCT.repo(), refLeaf: w.Leaf.ref(), refSCT: w.SCT.ref(), chainBytes: blobsBytes(w.Chain)}
		j.chain = ct.CertificateChain{Entries: asn1Certs(j.chainBytes)}
		j.pre = ct.PrecertChainEntry{PreCertificate: ct.ASN1Cert{Data: w.Leaf.Entry.Cert.Bytes()}, CertificateChain: asn1Certs(j.chainBytes)}
		root := hash32(w.SCT.LogID)
		j.sth = ct.SignedTreeHead{TreeSize: w.Leaf.Timestamp, Timestamp: w.SCT.Timestamp, SHA256RootHash: ct.SHA256Hash(root)}
		var errs [6]error
		j.wLeaf, errs[0] = rfc6962.EncodeLeaf(j.refLeaf)
		j.wSCT, errs[1] = rfc6962.EncodeSCT(j.refSCT)
		j.wIn, errs[2] = rfc6962.SCTSignatureInput(0, w.SCT.Timestamp, j.refLeaf.Entry, j.refSCT.Extensions)
		j.wChain, errs[3] = rfc6962.EncodeChain(j.chainBytes)
		j.wPre, errs[4] = rfc6962.EncodePrecertChainEntry(w.Leaf.Entry.Cert.Bytes(), j.chainBytes)
		j.wSTH, errs[5] = rfc6962.STHSignatureInput(0, w.SCT.Timestamp, w.Leaf.Timestamp, root)
		for _, e := range errs {
			if e != nil {
				v.Discard = true
				return v
			}
		}
		jobs[i] = j
	}
	var mu sync.Mutex
	fail := func(sig, format string, a ...any) {
		mu.Lock()
		if len(v.Violations) < 4 {
			v.Failf(sig, format, a...)
		}
		mu.Unlock()
	}
	start := make(chan struct{})
	var wg sync.WaitGroup
	for g, j := range jobs {
		wg.Add(1)
		go func(g int, j *job) {
			defer wg.Done()
			defer func() {
				if r := recover(); r != nil {
					fail("concurrent-panic", "goroutine %d: panic: %v", g, r)
				}
			}()
			<-start
			enc := func(what string, val any, want []byte) bool {
				got, err := cttls.Marshal(val)
				if err != nil || !bytes.Equal(got, want) {
					fail("concurrent-enc:"+what, "goroutine %d of %d: tls.Marshal(%s) while the other goroutines encode other values: %v %s", g, len(jobs), what, err, firstDiff(got, want))
					return false
				}
				return true
			}
			for r := 0; r < c.Rounds; r++ {
				ok := enc("MerkleTreeLeaf", j.leaf, j.wLeaf) && enc("SignedCertificateTimestamp", j.sct, j.wSCT) &&
					enc("CertificateChain", j.chain, j.wChain) && enc("PrecertChainEntry", j.pre, j.wPre)
				if !ok {
					return
				}
				in, err := ct.SerializeSCTSignatureInput(j.sct, ct.LogEntry{Leaf: j.leaf})
				if err != nil || !bytes.Equal(in, j.wIn) {
					fail("concurrent-enc:SCTSignatureInput", "goroutine %d of %d: %v %s", g, len(jobs), err, firstDiff(in, j.wIn))
					return
				}
				sin, err := ct.SerializeSTHSignatureInput(j.sth)
				if err != nil || !bytes.Equal(sin, j.wSTH) {
					fail("concurrent-enc:STHSignatureInput", "goroutine %d of %d: %v %s", g, len(jobs), err, firstDiff(sin, j.wSTH))
					return
				}
				if h, err := ct.LeafHashForLeaf(&j.leaf); err != nil || h != rfc6962.LeafHash(j.wLeaf) {
					fail("concurrent-leafhash", "goroutine %d of %d: LeafHashForLeaf = %x (%v)", g, len(jobs), h, err)
					return
				}
				var l ct.MerkleTreeLeaf
				if rest, err := cttls.Unmarshal(j.wLeaf, &l); err != nil || len(rest) != 0 {
					fail("concurrent-dec:MerkleTreeLeaf", "goroutine %d of %d: %v rest %d", g, len(jobs), err, len(rest))
					return
				} else if b, why := refFromRepoLeaf(l); why != "" || !eqLeaf(b, j.refLeaf) {
					fail("concurrent-dec:MerkleTreeLeaf", "goroutine %d of %d: decoded a different leaf %s", g, len(jobs), why)
					return
				}
				var s ct.SignedCertificateTimestamp
				if rest, err := cttls.Unmarshal(j.wSCT, &s); err != nil || len(rest) != 0 || !eqSCT(refFromRepoSCT(s), j.refSCT) {
					fail("concurrent-dec:SignedCertificateTimestamp", "goroutine %d of %d: %v rest %d", g, len(jobs), err, len(rest))
					return
				}
				var ch ct.CertificateChain
				if rest, err := cttls.Unmarshal(j.wChain, &ch); err != nil || len(rest) != 0 || !eqList(certsData(ch.Entries), j.chainBytes) {
					fail("concurrent-dec:CertificateChain", "goroutine %d of %d: %v rest %d", g, len(jobs), err, len(rest))
					return
				}
			}
		}(g, j)
	}
	close(start)
	wg.Wait()
	return v
}

// Concurrent is the simultaneous-use part of C04.
var Concurrent = harness.Define(harness.Opts{
	Name:  "concurrent",
	Rule:  "4-16 goroutines, each with its own MerkleTreeLeaf (either entry type), SCT, certificate chain, PrecertChainEntry and STH (field sizes 0..700 so that all length prefixes differ between goroutines), run 100-400 rounds of tls.Marshal, SerializeSCTSignatureInput, SerializeSTHSignatureInput, LeafHashForLeaf and tls.Unmarshal at the same time; every result of every round is compared with the reference encoding of that goroutine's value. No race detector (see level_note): interference must show as wrong bytes. Every case is non-trivial",
	Quick: 120, Thorough: 600, MaxSample: 600,
}, genConc, checkConc)
