package c04

import (
	"bytes"
	"encoding/base64"
	"encoding/json"
	"fmt"
	"reflect"
	"testing"

	ct "github.com/google/certificate-transparency-go"
	cttls "github.com/google/certificate-transparency-go/tls"
	"pgregory.net/rapid"

	"verif/internal/harness"
	"verif/internal/rfc6962"
)

// JSONCase is one API message of RFC 6962 s4, described by plain data. The message is built as a
// map[string]any with hand-made base64 fields, serialised by encoding/json, decoded into the library's
// type, converted to the internal structure where the library offers that, and serialised back.
type JSONCase struct {
	Kind    string
	List    []Blob   `json:",omitempty"` // chain / consistency / audit_path / certificates
	U1, U2  uint64   // timestamp, tree_size
	I1      int64    // leaf_index
	Ver     uint8    // sct_version / sth_version
	HashLen int      // length of id / sha256_root_hash (32 is the valid one)
	Seed    uint32   // fill of id / root hash / log id
	Ext     Blob     // extensions
	BadExt  bool     // extensions is not base64
	DS      DSSpec   // signature / tree_head_signature
	SigTail int      // -1: drop the last byte of the DigitallySigned; k>0: append k bytes
	Entries []JEntry `json:",omitempty"`
	Spell   uint32   // seed of the alternative JSON spelling (escapes, white space, member order)
}

type JEntry struct {
	Leaf    LeafSpec
	PreCert Blob
	Chain   []Blob
}

var jsonKinds = []string{"add-chain-req", "add-chain-rsp", "add-chain-rsp", "get-sth-rsp", "get-sth-rsp", "sth", "sth", "consistency", "proof-by-hash", "get-entries", "get-entries", "get-roots", "entry-and-proof"}

func genJSONBlob(t *rapid.T, label string, min int, max16 bool) Blob {
	b := genValidBlob(t, label, min, !max16)
	if pick(t, label+"-shrink", 3) != 0 && b.N > 300 { // keep most messages small
		b.N = b.N % 300
		if b.N < min {
			b.N = min
		}
	}
	return b
}

func genJSON(t *rapid.T) JSONCase {
	c := JSONCase{Kind: pickFrom(t, "kind", jsonKinds), HashLen: 32, Seed: rapid.Uint32().Draw(t, "seed")}
	c.Spell = rapid.Uint32().Draw(t, "spell")
	c.U1, c.U2 = genU64(t, "u1"), genU64(t, "u2")
	c.I1 = pickFrom(t, "i1", []int64{0, 1, 1 << 31, 1<<53 + 1, 1<<63 - 1, -1, -(1 << 63)})
	if pick(t, "i1-any", 2) == 1 {
		c.I1 = rapid.Int64().Draw(t, "i1r")
	}
	c.Ver = genEnum8(t, "ver", 7)
	n := rapid.IntRange(0, 6).Draw(t, "nlist")
	for i := 0; i < n; i++ {
		c.List = append(c.List, genJSONBlob(t, fmt.Sprintf("list%d", i), 0, false))
	}
	c.Ext = genJSONBlob(t, "ext", 0, true)
	c.DS = DSSpec{Hash: rapid.Uint8().Draw(t, "hash"), Sig: rapid.Uint8().Draw(t, "alg"), Signature: genJSONBlob(t, "sig", 0, true)}
	switch c.Kind {
	case "add-chain-rsp", "get-sth-rsp", "sth":
		switch pick(t, "defect", 10) {
		case 9:
			c.HashLen = pickFrom(t, "hashlen", []int{0, 1, 31, 33, 64})
		case 8:
			c.SigTail = pickFrom(t, "sigtail", []int{-1, 1, 2})
		case 7:
			c.BadExt = c.Kind == "add-chain-rsp"
		}
	case "get-entries":
		ne := rapid.IntRange(0, 4).Draw(t, "nentries")
		for i := 0; i < ne; i++ {
			c.Entries = append(c.Entries, JEntry{Leaf: genValidLeaf(t), PreCert: genJSONBlob(t, "pre", 1, false), Chain: genValidChain(t)})
		}
	case "entry-and-proof":
		c.Entries = []JEntry{{Leaf: genValidLeaf(t), PreCert: genJSONBlob(t, "pre", 1, false), Chain: genValidChain(t)}}
	}
	return c
}

func b64(b []byte) string { return base64.StdEncoding.EncodeToString(b) }

func b64List(bs [][]byte) []any {
	out := make([]any, len(bs))
	for i, b := range bs {
		out[i] = b64(b)
	}
	return out
}

func num(u uint64) json.Number       { return json.Number(fmt.Sprintf("%d", u)) }
func inum(i int64) json.Number       { return json.Number(fmt.Sprintf("%d", i)) }
func fill(n int, seed uint32) []byte { return Blob{N: n, Seed: seed}.Bytes() }

// canon re-renders a JSON text through a generic decode that keeps numbers verbatim, so that two texts
// are equal iff they denote the same JSON value (object member order aside).
func canon(raw []byte) (string, error) {
	d := json.NewDecoder(bytes.NewReader(raw))
	d.UseNumber()
	var x any
	if err := d.Decode(&x); err != nil {
		return "", err
	}
	out, err := json.Marshal(x)
	return string(out), err
}

// roundTrip: message -> library type (into) -> JSON again; the two texts must denote the same value.
func roundTrip(v *harness.Verdict, kind string, msg map[string]any, into any, spell uint32) (ok bool) {
	raw, err := json.Marshal(msg)
	if err != nil {
		v.Failf("harness", "cannot serialise the message map: %v", err)
		return false
	}
	if err := json.Unmarshal(raw, into); err != nil {
		v.Failf("json-refuses-valid:"+kind, "json.Unmarshal into %T refused a well-formed %s message (%d bytes): %v", into, kind, len(raw), err)
		return false
	}
	back, err := json.Marshal(into)
	if err != nil {
		v.Failf("json-marshal:"+kind, "json.Marshal(%T) failed: %v", into, err)
		return false
	}
	a, _ := canon(raw)
	b, err := canon(back)
	if err != nil || a != b {
		v.Failf("json-lossy:"+kind, "%s message changed on the way through %T: sent %s, got back %s (%v)", kind, into, clip(a), clip(b), err)
		return false
	}
	respellCheck(v, kind, msg, into, reflect.TypeOf(into).Elem(), spell)
	return true
}

func clip(s string) string {
	if len(s) > 400 {
		return s[:400] + "..."
	}
	return s
}

func checkJSON(t *testing.T, c JSONCase) (v harness.Verdict) {
	v.Class("kind:" + c.Kind)
	list := blobsBytes(c.List)
	for _, b := range list {
		if isBoundary(len(b)) && len(b) > 1 {
			v.NonTrivial = true
		}
	}
	hash := fill(c.HashLen, c.Seed)
	ds := c.DS.ref()
	dsBytes, err := rfc6962.EncodeDS(ds)
	if err != nil {
		v.Discard = true
		return v
	}
	switch {
	case c.SigTail < 0:
		dsBytes = dsBytes[:len(dsBytes)-1]
	case c.SigTail > 0:
		dsBytes = append(dsBytes, fill(c.SigTail, 3)...)
	}
	_, dsRest, dsErr := rfc6962.DecodeDS(dsBytes)
	dsValid := dsErr == nil && len(dsRest) == 0
	ext := c.Ext.Bytes()
	if c.U1 >= 1<<53 || c.U2 >= 1<<53 || c.HashLen != 32 || c.SigTail != 0 || c.BadExt || isBoundary(len(ext)) && len(ext) > 1 || isBoundary(c.DS.Signature.N) && c.DS.Signature.N > 1 {
		v.NonTrivial = true
	}
	if c.HashLen != 32 {
		v.Class("defect:hash-length")
	}
	if c.SigTail != 0 {
		v.Class("defect:signature-not-exact")
	}
	if c.BadExt {
		v.Class("defect:extensions-not-base64")
	}

	switch c.Kind {
	case "add-chain-req":
		var m ct.AddChainRequest
		if roundTrip(&v, c.Kind, map[string]any{"chain": b64List(list)}, &m, c.Spell) && !eqList(m.Chain, list) {
			v.Failf("json-value:add-chain-req", "chain decoded to %d certificates with different bytes (want %d)", len(m.Chain), len(list))
		}
		v.NonTrivial = v.NonTrivial || len(list) > 1

	case "add-chain-rsp":
		extStr := b64(ext)
		if c.BadExt {
			extStr = "!" + extStr + "*"
		}
		var m ct.AddChainResponse
		if !roundTrip(&v, c.Kind, map[string]any{"sct_version": num(uint64(c.Ver)), "id": b64(hash), "timestamp": num(c.U1), "extensions": extStr, "signature": b64(dsBytes)}, &m, c.Spell) {
			return v
		}
		if uint64(m.SCTVersion) != uint64(c.Ver) || !eqBytes(m.ID, hash) || m.Timestamp != c.U1 || m.Extensions != extStr || !eqBytes(m.Signature, dsBytes) {
			v.Failf("json-value:add-chain-rsp", "AddChainResponse fields differ from the message: %+v", m)
		}
		sct, err := m.ToSignedCertificateTimestamp()
		valid := c.HashLen == 32 && dsValid && !c.BadExt
		switch {
		case valid && err != nil:
			v.Failf("tosct-refuses-valid", "ToSignedCertificateTimestamp refused a valid response: %v", err)
		case !valid && err == nil:
			v.Failf("tosct-accepts-invalid", "ToSignedCertificateTimestamp accepted id[%d], signature valid=%v, extensions base64=%v", c.HashLen, dsValid, !c.BadExt)
		case valid:
			v.Class("converted")
			var id [32]byte
			copy(id[:], hash)
			want := rfc6962.SCT{Version: c.Ver, LogID: id, Timestamp: c.U1, Extensions: ext, Signature: ds}
			if !eqSCT(refFromRepoSCT(*sct), want) {
				v.Failf("tosct-value", "ToSignedCertificateTimestamp changed the SCT: got %+v", refFromRepoSCT(*sct))
			}
			wb, werr := rfc6962.EncodeSCT(want)
			gb, gerr := cttls.Marshal(*sct)
			cmpEnc(&v, "SCT-from-AddChainResponse", gb, gerr, wb, werr)
		}

	case "get-sth-rsp":
		var m ct.GetSTHResponse
		if !roundTrip(&v, c.Kind, map[string]any{"tree_size": num(c.U2), "timestamp": num(c.U1), "sha256_root_hash": b64(hash), "tree_head_signature": b64(dsBytes)}, &m, c.Spell) {
			return v
		}
		if m.TreeSize != c.U2 || m.Timestamp != c.U1 || !eqBytes(m.SHA256RootHash, hash) || !eqBytes(m.TreeHeadSignature, dsBytes) {
			v.Failf("json-value:get-sth-rsp", "GetSTHResponse fields differ from the message")
		}
		sth, err := m.ToSignedTreeHead()
		valid := c.HashLen == 32 && dsValid
		switch {
		case valid && err != nil:
			v.Failf("tosth-refuses-valid", "ToSignedTreeHead refused a valid response: %v", err)
		case !valid && err == nil:
			v.Failf("tosth-accepts-invalid", "ToSignedTreeHead accepted sha256_root_hash[%d], signature valid=%v", c.HashLen, dsValid)
		case valid:
			v.Class("converted")
			var root [32]byte
			copy(root[:], hash)
			if sth.Version != ct.V1 || sth.TreeSize != c.U2 || sth.Timestamp != c.U1 || [32]byte(sth.SHA256RootHash) != root || !eqDS(refFromRepoDS(cttls.DigitallySigned(sth.TreeHeadSignature)), ds) {
				v.Failf("tosth-value", "ToSignedTreeHead changed the STH: %+v", *sth)
			}
			want, werr := rfc6962.STHSignatureInput(0, c.U1, c.U2, root)
			got, gerr := ct.SerializeSTHSignatureInput(*sth)
			cmpEnc(&v, "STHSignatureInput-from-GetSTHResponse", got, gerr, want, werr)
		}

	case "sth":
		logID := fill(32, c.Seed+1)
		msg := map[string]any{"sth_version": num(uint64(c.Ver)), "tree_size": num(c.U2), "timestamp": num(c.U1), "sha256_root_hash": b64(hash), "tree_head_signature": b64(dsBytes), "log_id": b64(logID)}
		valid := c.HashLen == 32 && dsValid
		var m ct.SignedTreeHead
		if !valid {
			raw, _ := json.Marshal(msg)
			if err := json.Unmarshal(raw, &m); err == nil {
				v.Failf("sth-json-accepts-invalid", "json.Unmarshal into SignedTreeHead accepted sha256_root_hash[%d], signature valid=%v", c.HashLen, dsValid)
			}
			respellCheck(&v, c.Kind, msg, nil, reflect.TypeOf(m), c.Spell)
			return v
		}
		if !roundTrip(&v, c.Kind, msg, &m, c.Spell) {
			return v
		}
		var root [32]byte
		copy(root[:], hash)
		if uint64(m.Version) != uint64(c.Ver) || m.TreeSize != c.U2 || m.Timestamp != c.U1 || [32]byte(m.SHA256RootHash) != root || !eqBytes(m.LogID[:], logID) || !eqDS(refFromRepoDS(cttls.DigitallySigned(m.TreeHeadSignature)), ds) {
			v.Failf("json-value:sth", "SignedTreeHead fields differ from the message: %+v", m)
		}

	case "consistency":
		var m ct.GetSTHConsistencyResponse
		if roundTrip(&v, c.Kind, map[string]any{"consistency": b64List(list)}, &m, c.Spell) && !eqList(m.Consistency, list) {
			v.Failf("json-value:consistency", "consistency path decoded differently")
		}
		v.NonTrivial = v.NonTrivial || len(list) > 1

	case "proof-by-hash":
		var m ct.GetProofByHashResponse
		if roundTrip(&v, c.Kind, map[string]any{"leaf_index": inum(c.I1), "audit_path": b64List(list)}, &m, c.Spell) && (m.LeafIndex != c.I1 || !eqList(m.AuditPath, list)) {
			v.Failf("json-value:proof-by-hash", "leaf_index %d (want %d) or audit path differ", m.LeafIndex, c.I1)
		}
		v.NonTrivial = v.NonTrivial || c.I1 >= 1<<53 || c.I1 < 0

	case "get-roots":
		certs := make([]any, len(list))
		for i, b := range list {
			certs[i] = b64(b)
		}
		var m ct.GetRootsResponse
		if roundTrip(&v, c.Kind, map[string]any{"certificates": certs}, &m, c.Spell) {
			if len(m.Certificates) != len(list) {
				v.Failf("json-value:get-roots", "%d certificates, want %d", len(m.Certificates), len(list))
			} else {
				for i, s := range m.Certificates {
					if s != b64(list[i]) {
						v.Failf("json-value:get-roots", "certificate %d changed", i)
					}
				}
			}
		}
		v.NonTrivial = v.NonTrivial || len(list) > 1

	case "get-entries", "entry-and-proof":
		type built struct {
			leaf, extra, cert []byte
			chain             [][]byte
			ref               rfc6962.Leaf
		}
		var bs []built
		for _, e := range c.Entries {
			var b built
			b.ref = e.Leaf.ref()
			b.chain = blobsBytes(e.Chain)
			var err1, err2 error
			b.leaf, err1 = rfc6962.EncodeLeaf(b.ref)
			if e.Leaf.Entry.Type == 1 {
				b.cert = e.PreCert.Bytes()
				b.extra, err2 = rfc6962.EncodePrecertChainEntry(b.cert, b.chain)
			} else {
				b.cert = b.ref.Entry.Cert
				b.extra, err2 = rfc6962.EncodeChain(b.chain)
			}
			if err1 != nil || err2 != nil {
				v.Discard = true
				return v
			}
			if isBoundary(len(b.cert)) && len(b.cert) > 1 {
				v.NonTrivial = true
			}
			bs = append(bs, b)
		}
		var got []ct.LeafEntry
		if c.Kind == "get-entries" {
			es := make([]any, len(bs))
			for i, b := range bs {
				es[i] = map[string]any{"leaf_input": b64(b.leaf), "extra_data": b64(b.extra)}
			}
			var m ct.GetEntriesResponse
			if !roundTrip(&v, c.Kind, map[string]any{"entries": es}, &m, c.Spell) {
				return v
			}
			got = m.Entries
			v.NonTrivial = v.NonTrivial || len(bs) > 1
		} else {
			var m ct.GetEntryAndProofResponse
			if !roundTrip(&v, c.Kind, map[string]any{"leaf_input": b64(bs[0].leaf), "extra_data": b64(bs[0].extra), "audit_path": b64List(list)}, &m, c.Spell) {
				return v
			}
			if !eqList(m.AuditPath, list) {
				v.Failf("json-value:entry-and-proof", "audit path decoded differently")
			}
			got = []ct.LeafEntry{{LeafInput: m.LeafInput, ExtraData: m.ExtraData}}
			v.NonTrivial = true
		}
		if len(got) != len(bs) {
			v.Failf("json-value:"+c.Kind, "%d entries, want %d", len(got), len(bs))
			return v
		}
		for i, b := range bs {
			if !eqBytes(got[i].LeafInput, b.leaf) || !eqBytes(got[i].ExtraData, b.extra) {
				v.Failf("json-value:"+c.Kind, "entry %d: leaf_input / extra_data bytes changed", i)
				continue
			}
			rle, err := ct.RawLogEntryFromLeaf(c.I1, &got[i])
			if err != nil {
				v.Failf("rawentry-refuses-valid", "entry %d of a %s message refused: %v", i, c.Kind, err)
				continue
			}
			l, why := refFromRepoLeaf(rle.Leaf)
			if why != "" || !eqLeaf(l, b.ref) || rle.Index != c.I1 || !eqBytes(rle.Cert.Data, b.cert) || !eqList(certsData(rle.Chain), b.chain) {
				v.Failf("rawentry-value", "entry %d of a %s message parsed to a different entry %s", i, c.Kind, why)
			}
		}
	default:
		v.Discard = true
	}
	return v
}

// JSONMsg is the API-message half of C04.
var JSONMsg = harness.Define(harness.Opts{
	Name:  "json",
	Rule:  "one RFC 6962 s4 message per case (add-chain request / response, get-sth response, SignedTreeHead, consistency, proof-by-hash, get-entries, get-roots, get-entry-and-proof) built as map[string]any with hand-made base64 fields -> encoding/json -> library type -> ToSignedCertificateTimestamp / ToSignedTreeHead / RawLogEntryFromLeaf (compared with internal/rfc6962) -> encoding/json again (same JSON value); then the same message in another legal spelling written by the check's own JSON writer (member order shuffled, white space between tokens, characters of every string value and member name as \\uXXXX in either hex case at rate 1/2, 1/3, 1/7 or 1/40, '/' as \\/ half of the time) must decode to the identical library value (or be refused like the plain text). 64-bit numbers at 2^32/2^53/2^63/2^64 edges, blobs at the RFC length boundaries, 30% of the convertible messages carry a wrong hash length, a DigitallySigned with a missing / extra byte, or non-base64 extensions and must be refused by the conversion. Non-trivial: a 64-bit operand >= 2^53, a boundary-sized blob, a defect, or more than one list element",
	Quick: 3000, Thorough: 20000, MaxSample: 700,
}, genJSON, checkJSON)
