package c04

import (
	"bytes"
	"crypto/sha256"
	"encoding/base64"
	"fmt"
	"testing"

	ct "github.com/google/certificate-transparency-go"
	cttls "github.com/google/certificate-transparency-go/tls"
	"github.com/google/certificate-transparency-go/trillian/util"
	"github.com/google/certificate-transparency-go/x509"
	"github.com/google/certificate-transparency-go/x509util"
	"github.com/google/trillian"
	"pgregory.net/rapid"

	"verif/internal/harness"
	"verif/internal/rfc6962"
)

// EncCase is one value of one family of wire structures.
type EncCase struct {
	Kind string // "leaf" | "sct" | "sth" | "sctlist"

	// leaf: MerkleTreeLeaf, leaf hash, SCT signature input, extra data, RawLogEntryFromLeaf
	Leaf     *LeafSpec `json:",omitempty"`
	WrongArm bool      `json:",omitempty"` // unknown entry type: fill the x509 arm all the same
	SigVer   uint8     `json:",omitempty"` // SCT fields that enter the signature input
	SigTS    uint64    `json:",omitempty"`
	SigExt   *Blob     `json:",omitempty"`
	PreCert  *Blob     `json:",omitempty"` // PrecertChainEntry.pre_certificate
	Chain    []Blob    `json:",omitempty"`
	Index    int64     `json:",omitempty"`
	// many tiny chain elements after Chain (element COUNT boundaries of vectors of structures)
	ChainMany *Many `json:",omitempty"`
	// process-wide klog verbosity while the repository's leaf builders run (0..5)
	KlogV int `json:",omitempty"`

	// sct: SignedCertificateTimestamp + its DigitallySigned
	SCT *SCTSpec `json:",omitempty"`

	// sth: TreeHeadSignature input
	STH *STHSpec `json:",omitempty"`

	// sctlist: SignedCertificateTimestampList, from raw items or from SCT values
	Items     []Blob    `json:",omitempty"`
	ItemsMany *Many     `json:",omitempty"` // many tiny raw items after Items
	SCTs      []SCTSpec `json:",omitempty"`
	Typed     bool      `json:",omitempty"`
}

// Many stands for N elements of ElemLen (1..3) bytes each, cut from one seeded fill.
type Many struct {
	N, ElemLen int
	Seed       uint32
}

func (m *Many) elems() [][]byte {
	if m == nil {
		return nil
	}
	all := Blob{N: m.N * m.ElemLen, Seed: m.Seed}.Bytes()
	out := make([][]byte, m.N)
	for i := range out {
		out[i] = all[i*m.ElemLen : (i+1)*m.ElemLen : (i+1)*m.ElemLen]
	}
	return out
}

// element counts for vectors of structures: around one-byte counters, around 4096, and the most a
// 2-byte SCT list can hold (21845 one-byte items = 65535 bytes)
var manyCounts = []int{255, 256, 4095, 4096, 4097, 5000, 21845}

func genMany(t *rapid.T, label string, forList bool) *Many {
	m := &Many{N: pickFrom(t, label+"-n", manyCounts), ElemLen: 1 + pick(t, label+"-len", 3), Seed: rapid.Uint32().Draw(t, label+"-seed")}
	if forList && m.N*(2+m.ElemLen) > max16 {
		m.ElemLen = 1
	}
	return m
}

var listTotals = []int{1, 2, 3, 4, 255, 256, 65335, 65336, 65337, 65400, 65534, 65535, 65536, 65537}

const sctFixed = 1 + 32 + 8 + 2 + 2 + 2 // SCT bytes besides extensions and signature

func genChain(t *rapid.T, huge int) []Blob {
	var n int
	switch k := pick(t, "chain-k", 10); {
	case k < 2:
		n = 0
	case k < 8:
		n = rapid.IntRange(1, 4).Draw(t, "chain-n")
	default:
		n = rapid.IntRange(5, 40).Draw(t, "chain-long")
	}
	out := make([]Blob, 0, n+2)
	special := -1
	if n > 0 && pick(t, "chain-sp", 3) == 1 {
		special = rapid.IntRange(0, n-1).Draw(t, "chain-spi")
	}
	for i := 0; i < n; i++ {
		if i == special {
			out = append(out, genBlob(t, fmt.Sprintf("chain%d", i), false))
		} else {
			out = append(out, genSmallBlob(t, fmt.Sprintf("chain%d", i), 1, 60))
		}
	}
	switch huge {
	case 3: // one 16 MB element (its own length at the 3-byte boundary; the chain total then overflows or not)
		out = append(out, Blob{N: pickFrom(t, "chain-hugeel", []int{max24 - 4, max24 - 3, max24 - 1, max24, max24 + 1}), Seed: 7})
	case 4: // chain total at the 3-byte boundary: sum(3+len) in {2^24-2, 2^24-1, 2^24}
		used := 0
		for _, b := range out {
			used += 3 + b.N
		}
		total := pickFrom(t, "chain-total", hugeBounds)
		if rest := total - used - 3; rest >= 1 {
			out = append(out, Blob{N: rest, Seed: 9})
		}
	}
	return out
}

func genEnc(t *rapid.T) EncCase {
	var c EncCase
	k := pick(t, "kind", 100)
	hugeEvery := 400 // the 16 MB boundaries have their own sub-property (encode16m); here they only mix with the rest
	switch {
	case k < 45:
		c.Kind = "leaf"
		huge := 0
		if pick(t, "huge", hugeEvery) == hugeEvery-1 {
			huge = 1 + pick(t, "huge-slot", 4) // 1 cert/tbs, 2 pre_certificate, 3 chain element, 4 chain total
		}
		l := genLeaf(t, "leaf", huge == 1)
		c.Leaf = &l
		c.WrongArm = pick(t, "wrongarm", 2) == 1
		c.SigVer = genEnum8(t, "sigver", 8)
		c.SigTS = genU64(t, "sigts")
		x := genBlob(t, "sigext", false)
		c.SigExt = &x
		p := genBlob(t, "precert", huge == 2)
		if p.N == 0 && pick(t, "precert-nonempty", 4) != 3 {
			p.N = 1
		}
		c.PreCert = &p
		c.Chain = genChain(t, huge)
		if huge == 0 && pick(t, "chain-many", 16) == 15 {
			c.ChainMany = genMany(t, "chain-many", false)
		}
		c.KlogV = pick(t, "klogv", 6)
		c.Index = rapid.Int64().Draw(t, "index")
	case k < 65:
		c.Kind = "sct"
		s := genSCT(t, "sct")
		c.SCT = &s
	case k < 76:
		c.Kind = "sth"
		c.STH = &STHSpec{Version: genEnum8(t, "sthver", 7), Timestamp: genU64(t, "sthts"), TreeSize: genU64(t, "sthsize"), Root: rapid.Uint32().Draw(t, "root"), RootKind: pick(t, "rootkind", 4)}
		if pick(t, "sth-edge", 2) == 1 { // the corners: empty / one-entry tree x special root values x timestamp 0 / max
			c.STH.TreeSize = uint64(pick(t, "sth-size01", 2))
			c.STH.Timestamp = pickFrom(t, "sth-ts", []uint64{0, 1<<64 - 1, 1, c.STH.Timestamp})
			c.STH.RootKind = pickFrom(t, "sth-root", []int{1, 2, 0, 3})
		}
	default:
		c.Kind = "sctlist"
		c.Typed = pick(t, "typed", 2) == 1
		var total int
		if pick(t, "total-k", 10) < 8 {
			total = pickFrom(t, "total", listTotals)
		} else {
			total = rapid.IntRange(1, 66000).Draw(t, "total-any")
		}
		n := rapid.IntRange(0, 5).Draw(t, "n")
		if n == 0 && pick(t, "n-nonempty", 4) != 3 {
			n = 1
		}
		used := 0
		if pick(t, "items-many", 12) == 11 {
			c.Typed = false
			c.ItemsMany = genMany(t, "items-many", true)
			if pick(t, "items-many-only", 2) == 0 {
				n = 0
			} else {
				total = 0 // a few ordinary items in front
			}
		}
		if !c.Typed {
			for i := 0; i < n; i++ {
				b := genSmallBlob(t, fmt.Sprintf("item%d", i), 1, 50)
				if i == n-1 {
					if rest := total - used - 2; rest >= 0 {
						b.N = rest
					}
				}
				used += 2 + b.N
				c.Items = append(c.Items, b)
			}
		} else {
			for i := 0; i < n; i++ {
				s := SCTSpec{Version: genEnum8(t, "lver", 9), LogID: rapid.Uint32().Draw(t, "lid"), Timestamp: genU64(t, "lts"),
					Ext: genSmallBlob(t, "lext", 0, 20), DS: DSSpec{Hash: 4, Sig: 3, Signature: genSmallBlob(t, "lsig", 0, 80)}}
				if i == n-1 {
					if rest := total - used - 2 - sctFixed - s.DS.Signature.N; rest >= 0 {
						s.Ext.N = rest // may exceed 65535: then the SCT itself cannot be encoded
					}
				}
				used += 2 + sctFixed + s.Ext.N + s.DS.Signature.N
				c.SCTs = append(c.SCTs, s)
			}
		}
	}
	return c
}

// refEncodeLeaf is the reference encoding of a leaf. The RFC defines no leaf version but v1; for
// another version octet the statement does not say whether an encoder must refuse, so the octet is
// treated as opaque: lenient=true means "either refuse, or produce exactly these bytes".
func refEncodeLeaf(l rfc6962.Leaf) (b []byte, err error, lenient bool) {
	if l.Version == 0 {
		b, err = rfc6962.EncodeLeaf(l)
		return b, err, false
	}
	v := l.Version
	l.Version = 0
	b, err = rfc6962.EncodeLeaf(l)
	if err != nil {
		return nil, err, false
	}
	b[0] = v
	return b, nil, true
}

func checkEnc(t *testing.T, c EncCase) (v harness.Verdict) {
	v.Class("kind:" + c.Kind)
	note := func(n int) {
		if isBoundary(n) {
			v.NonTrivial = true
		}
	}
	switch c.Kind {
	case "leaf":
		encLeaf(&v, c, note)
	case "sct":
		encSCT(&v, c, note)
	case "sth":
		encSTH(&v, c)
	case "sctlist":
		encList(&v, c, note)
	default:
		v.Discard = true
	}
	return v
}

func encLeaf(v *harness.Verdict, c EncCase, note func(int)) {
	spec := *c.Leaf
	ref := spec.ref()
	repoLeaf := spec.repo(c.WrongArm)
	switch spec.Entry.Type {
	case 0:
		v.Class("leaf:x509", "leaf:cert="+sizeClass(spec.Entry.Cert.N))
		note(spec.Entry.Cert.N)
	case 1:
		v.Class("leaf:precert", "leaf:tbs="+sizeClass(spec.Entry.TBS.N))
		note(spec.Entry.TBS.N)
	case 0x8000:
		v.Class("leaf:entry-type-0x8000")
	default:
		v.Class("leaf:unknown-entry-type")
	}
	v.Class("leaf:ext=" + sizeClass(spec.Ext.N))
	note(spec.Ext.N)
	if spec.LeafType != 0 {
		v.Class("leaf:unknown-leaf-type")
	}
	if spec.Version != 0 {
		v.Class("leaf:version!=0")
	}

	// 1. MerkleTreeLeaf
	want, wantErr, lenient := refEncodeLeaf(ref)
	got, gotErr := cttls.Marshal(repoLeaf)
	leafOK := false
	if lenient && gotErr != nil {
		v.Class("leaf:version!=0-refused")
	} else {
		leafOK = cmpEnc(v, "MerkleTreeLeaf", got, gotErr, want, wantErr) && wantErr == nil
	}
	if wantErr != nil {
		v.Class("leaf:unencodable")
	}

	// 2. leaf hash
	h, hErr := ct.LeafHashForLeaf(&repoLeaf)
	switch {
	case wantErr != nil && hErr == nil:
		v.Failf("leafhash-of-invalid", "LeafHashForLeaf hashed a leaf the RFC cannot encode (%v): %x", wantErr, h)
	case wantErr == nil && hErr != nil && !lenient:
		v.Failf("leafhash-refused", "LeafHashForLeaf refused a valid leaf: %v", hErr)
	case wantErr == nil && hErr == nil:
		if wh := rfc6962.LeafHash(want); h != wh {
			v.Failf("leafhash-value", "LeafHashForLeaf = %x, SHA-256(0x00 || leaf) = %x", h, wh)
		}
	}

	// 3. decoding the reference bytes gives the value back (strictly valid leaves only)
	if leafOK && !lenient {
		var back ct.MerkleTreeLeaf
		rest, err := cttls.Unmarshal(want, &back)
		if err != nil {
			v.Failf("dec-refuses-valid:MerkleTreeLeaf", "tls.Unmarshal refused the RFC encoding of a valid leaf: %v", err)
		} else if len(rest) != 0 {
			v.Failf("dec-rest:MerkleTreeLeaf", "tls.Unmarshal left %d bytes of a complete leaf", len(rest))
		} else if b, why := refFromRepoLeaf(back); why != "" || !eqLeaf(b, ref) {
			v.Failf("dec-value:MerkleTreeLeaf", "leaf decoded to a different value (%s)", why)
		}
	}

	// 4. SCT signature input
	sigExt := c.SigExt.Bytes()
	v.Class("sctinput:ext=" + sizeClass(len(sigExt)))
	note(len(sigExt))
	if c.SigVer != 0 {
		v.Class("sctinput:version!=0")
	}
	wantIn, wantInErr := rfc6962.SCTSignatureInput(c.SigVer, c.SigTS, ref.Entry, sigExt)
	sct := ct.SignedCertificateTimestamp{SCTVersion: ct.Version(c.SigVer), Timestamp: c.SigTS, Extensions: ct.CTExtensions(sigExt), LogID: ct.LogID{KeyID: hash32(1)}}
	gotIn, gotInErr := ct.SerializeSCTSignatureInput(sct, ct.LogEntry{Index: c.Index, Leaf: spec.repo(false)})
	if c.SigVer != 0 && gotInErr == nil {
		v.Failf("sctinput-unknown-version", "SerializeSCTSignatureInput produced %d bytes for SCT version %d", len(gotIn), c.SigVer)
	} else {
		cmpEnc(v, "SCTSignatureInput", gotIn, gotInErr, wantIn, wantInErr)
	}

	// 5. extra data
	chain := append(blobsBytes(c.Chain), c.ChainMany.elems()...)
	total := 0
	for _, b := range chain {
		total += 3 + len(b)
		if len(b) > 60 {
			note(len(b))
		}
	}
	note(total)
	v.Class(fmt.Sprintf("chain:n=%s", countClass(len(chain))), "chain:total="+sizeClass(total))
	repoChain := asn1Certs(chain)
	wantChain, wantChainErr := rfc6962.EncodeChain(chain)
	gotChain, gotChainErr := cttls.Marshal(ct.CertificateChain{Entries: repoChain})
	cmpEnc(v, "CertificateChain", gotChain, gotChainErr, wantChain, wantChainErr)
	gotX, gotXErr := util.ExtraDataForChain(ct.ASN1Cert{Data: []byte("ignored")}, repoChain, false)
	cmpEnc(v, "ExtraDataForChain(x509)", gotX, gotXErr, wantChain, wantChainErr)

	pre := c.PreCert.Bytes()
	v.Class("precert:" + sizeClass(len(pre)))
	note(len(pre))
	wantPre, wantPreErr := rfc6962.EncodePrecertChainEntry(pre, chain)
	gotPre, gotPreErr := cttls.Marshal(ct.PrecertChainEntry{PreCertificate: ct.ASN1Cert{Data: pre}, CertificateChain: repoChain})
	cmpEnc(v, "PrecertChainEntry", gotPre, gotPreErr, wantPre, wantPreErr)
	gotPX, gotPXErr := util.ExtraDataForChain(ct.ASN1Cert{Data: pre}, repoChain, true)
	cmpEnc(v, "ExtraDataForChain(precert)", gotPX, gotPXErr, wantPre, wantPreErr)
	if wantChainErr != nil || wantPreErr != nil {
		v.Class("extra:unencodable")
	}

	// 6. decoding the extra data gives the value back
	if wantChainErr == nil {
		var back ct.CertificateChain
		rest, err := cttls.Unmarshal(wantChain, &back)
		if err != nil {
			v.Failf("dec-refuses-valid:CertificateChain", "tls.Unmarshal refused a valid chain of %d certificates (%d bytes): %v", len(chain), len(wantChain), err)
		} else if len(rest) != 0 || !eqList(certsData(back.Entries), chain) {
			v.Failf("dec-value:CertificateChain", "chain decoded to %d entries, rest %d; want %d entries", len(back.Entries), len(rest), len(chain))
		}
	}
	if wantPreErr == nil {
		var back ct.PrecertChainEntry
		rest, err := cttls.Unmarshal(wantPre, &back)
		if err != nil {
			v.Failf("dec-refuses-valid:PrecertChainEntry", "tls.Unmarshal refused a valid PrecertChainEntry (%d bytes): %v", len(wantPre), err)
		} else if len(rest) != 0 || !eqBytes(back.PreCertificate.Data, pre) || !eqList(certsData(back.CertificateChain), chain) {
			v.Failf("dec-value:PrecertChainEntry", "PrecertChainEntry decoded to a different value (rest %d)", len(rest))
		}
	}

	// 7. RawLogEntryFromLeaf on the reference bytes of a strictly valid entry
	if wantErr == nil && !lenient {
		var extra []byte
		var extraErr error
		wantCert := ref.Entry.Cert
		if ref.Entry.Type == 1 {
			extra, extraErr, wantCert = wantPre, wantPreErr, pre
		} else {
			extra, extraErr = wantChain, wantChainErr
		}
		if extraErr == nil {
			v.Class("rawentry:valid")
			rle, err := ct.RawLogEntryFromLeaf(c.Index, &ct.LeafEntry{LeafInput: want, ExtraData: extra})
			if err != nil {
				v.Failf("rawentry-refuses-valid", "RawLogEntryFromLeaf refused a valid entry (leaf %d bytes, extra %d bytes): %v", len(want), len(extra), err)
			} else {
				b, why := refFromRepoLeaf(rle.Leaf)
				if why != "" || !eqLeaf(b, ref) || rle.Index != c.Index || !eqBytes(rle.Cert.Data, wantCert) || !eqList(certsData(rle.Chain), chain) {
					v.Failf("rawentry-value", "RawLogEntryFromLeaf returned a different entry (index %d want %d, cert %d bytes want %d, chain %d want %d) %s",
						rle.Index, c.Index, len(rle.Cert.Data), len(wantCert), len(rle.Chain), len(chain), why)
				}
			}
		}
	}

	// 8. the repository's leaf builders (what the front end hands to the backend), at the case's klog verbosity
	if len(want) > 1<<20 || len(wantChain) > 1<<20 || len(wantPre) > 1<<20 {
		return // the 16 MB cases stay with the codecs above
	}
	harness.SetKlogVerbosity(c.KlogV)
	defer harness.SetKlogVerbosity(0)
	v.Class(fmt.Sprintf("builders:klog-v=%d", c.KlogV))
	isPre := spec.Entry.Type == 1
	cert, wantExtra, wantExtraErr := ref.Entry.Cert, wantChain, wantChainErr
	if isPre {
		cert, wantExtra, wantExtraErr = pre, wantPre, wantPreErr
	}
	wantID := sha256.Sum256(cert)
	judgeBuilt := func(api string, ll *trillian.LogLeaf, err error, extra []byte, extraErr error) {
		refErr := wantErr
		if refErr == nil {
			refErr = extraErr
		}
		switch {
		case lenient && err != nil:
		case refErr != nil && err == nil:
			v.Failf("builder-accepts-invalid:"+api, "%s built a log leaf from values the RFC cannot encode (%v)", api, refErr)
		case refErr == nil && err != nil:
			v.Failf("builder-refuses-valid:"+api, "%s refused a valid entry: %v", api, err)
		case refErr == nil:
			if !bytes.Equal(ll.LeafValue, want) {
				v.Failf("builder-leaf-bytes:"+api, "%s (klog -v=%d): LeafValue differs from the RFC MerkleTreeLeaf: %s", api, c.KlogV, firstDiff(ll.LeafValue, want))
			}
			if !bytes.Equal(ll.ExtraData, extra) {
				v.Failf("builder-extra-bytes:"+api, "%s (klog -v=%d): ExtraData differs from the expected extra_data: %s", api, c.KlogV, firstDiff(ll.ExtraData, extra))
			}
			if ll.LeafIndex != c.Index || !bytes.Equal(ll.LeafIdentityHash, wantID[:]) {
				v.Failf("builder-fields:"+api, "%s: LeafIndex %d (want %d) or LeafIdentityHash %x (want SHA-256 of the submitted certificate %x)", api, ll.LeafIndex, c.Index, ll.LeafIdentityHash, wantID)
			}
		}
	}
	ll, err := util.BuildLogLeaf("c04", repoLeaf, c.Index, ct.ASN1Cert{Data: cert}, repoChain, isPre)
	judgeBuilt("BuildLogLeaf", ll, err, wantExtra, wantExtraErr)
	// with the chain replaced by its hash: extra_data is the repository's own structure (pre_certificate<1..2^24-1>
	// for precerts, then opaque hash<0..256>), the leaf is still the RFC's
	chainHash := hash32(uint32(c.Index))
	hv, _ := rfc6962.Vec(chainHash[:], 0, 256)
	var hashExtra []byte
	var hashExtraErr error
	if isPre {
		var pv []byte
		pv, hashExtraErr = rfc6962.Vec(pre, 1, max24)
		hashExtra = append(pv, hv...)
	} else {
		hashExtra = hv
	}
	ll2, err2 := util.BuildLogLeafWithChainHash("c04", repoLeaf, c.Index, ct.ASN1Cert{Data: cert}, chainHash[:], isPre)
	judgeBuilt("BuildLogLeafWithChainHash", ll2, err2, hashExtra, hashExtraErr)
}

func countClass(n int) string {
	switch {
	case n <= 2, n == 255, n == 256, n == 4095, n == 4096, n == 4097:
		return fmt.Sprint(n)
	case n < 255:
		return "3..254"
	case n < 4095:
		return "257..4094"
	case n < 21845:
		return "4098..21844"
	case n == 21845:
		return "21845"
	default:
		return ">21845"
	}
}

func encSCT(v *harness.Verdict, c EncCase, note func(int)) {
	spec := *c.SCT
	ref := spec.ref()
	v.Class("sct:ext="+sizeClass(spec.Ext.N), "sct:sig="+sizeClass(spec.DS.Signature.N))
	note(spec.Ext.N)
	note(spec.DS.Signature.N)
	if spec.Version != 0 {
		v.Class("sct:version!=0")
	}
	if spec.DS.Hash > 6 || spec.DS.Sig > 3 {
		v.Class("sct:unassigned-algorithm-code")
	}

	// DigitallySigned, as tls.DigitallySigned and as ct.DigitallySigned
	wantDS, wantDSErr := rfc6962.EncodeDS(ref.Signature)
	gotDS, gotDSErr := cttls.Marshal(spec.DS.repo())
	cmpEnc(v, "tls.DigitallySigned", gotDS, gotDSErr, wantDS, wantDSErr)
	gotDS2, gotDS2Err := cttls.Marshal(ct.DigitallySigned(spec.DS.repo()))
	cmpEnc(v, "ct.DigitallySigned", gotDS2, gotDS2Err, wantDS, wantDSErr)
	b64, b64Err := ct.DigitallySigned(spec.DS.repo()).Base64String()
	cmpEnc(v, "DigitallySigned.Base64String", []byte(b64), b64Err, []byte(base64.StdEncoding.EncodeToString(wantDS)), wantDSErr)
	if wantDSErr == nil {
		var back ct.DigitallySigned
		if err := back.FromBase64String(base64.StdEncoding.EncodeToString(wantDS)); err != nil {
			v.Failf("dec-refuses-valid:FromBase64String", "FromBase64String refused a valid DigitallySigned (%d bytes): %v", len(wantDS), err)
		} else if !eqDS(refFromRepoDS(cttls.DigitallySigned(back)), ref.Signature) {
			v.Failf("dec-value:FromBase64String", "FromBase64String decoded a different DigitallySigned")
		}
	} else {
		v.Class("sct:ds-unencodable")
	}

	// SignedCertificateTimestamp
	want, wantErr := rfc6962.EncodeSCT(ref)
	repoSCT := spec.repo()
	got, gotErr := cttls.Marshal(repoSCT)
	cmpEnc(v, "SignedCertificateTimestamp", got, gotErr, want, wantErr)
	if wantErr != nil {
		v.Class("sct:unencodable")
		return
	}
	var back ct.SignedCertificateTimestamp
	rest, err := cttls.Unmarshal(want, &back)
	if err != nil {
		v.Failf("dec-refuses-valid:SignedCertificateTimestamp", "tls.Unmarshal refused a valid SCT (%d bytes): %v", len(want), err)
	} else if len(rest) != 0 || !eqSCT(refFromRepoSCT(back), ref) {
		v.Failf("dec-value:SignedCertificateTimestamp", "SCT decoded to a different value (rest %d)", len(rest))
	}
	if len(want) <= max16 {
		ex, err := x509util.ExtractSCT(&x509.SerializedSCT{Val: want})
		if err != nil {
			v.Failf("dec-refuses-valid:ExtractSCT", "ExtractSCT refused a valid SCT (%d bytes): %v", len(want), err)
		} else if !eqSCT(refFromRepoSCT(*ex), ref) {
			v.Failf("dec-value:ExtractSCT", "ExtractSCT decoded a different SCT")
		}
	}
}

func encSTH(v *harness.Verdict, c EncCase) {
	s := *c.STH
	root := s.root()
	v.NonTrivial = s.Version != 0 || s.Timestamp >= 1<<32 || s.TreeSize >= 1<<32 || s.TreeSize <= 1 || s.RootKind != 0
	v.Class(fmt.Sprintf("sth:root=%s", []string{"random", "all-zero", "empty-tree-hash", "all-ff"}[s.RootKind&3]))
	if s.TreeSize <= 1 {
		v.Class(fmt.Sprintf("sth:tree_size=%d", s.TreeSize))
		if s.RootKind == 1 || s.RootKind == 2 {
			v.Class(fmt.Sprintf("sth:tree_size=%d,root=%s", s.TreeSize, []string{"", "all-zero", "empty-tree-hash"}[s.RootKind]))
		}
	}
	if s.Version != 0 {
		v.Class("sth:version!=0")
	}
	want, wantErr := rfc6962.STHSignatureInput(s.Version, s.Timestamp, s.TreeSize, root)
	sth := ct.SignedTreeHead{Version: ct.Version(s.Version), TreeSize: s.TreeSize, Timestamp: s.Timestamp, SHA256RootHash: ct.SHA256Hash(root), LogID: ct.SHA256Hash(hash32(2))}
	got, gotErr := ct.SerializeSTHSignatureInput(sth)
	if s.Version != 0 && gotErr == nil {
		v.Failf("sthinput-unknown-version", "SerializeSTHSignatureInput produced %d bytes for STH version %d", len(got), s.Version)
		return
	}
	cmpEnc(v, "STHSignatureInput", got, gotErr, want, wantErr)
	if s.Version == 0 {
		got2, got2Err := cttls.Marshal(ct.TreeHeadSignature{Version: ct.V1, SignatureType: ct.TreeHashSignatureType, Timestamp: s.Timestamp, TreeSize: s.TreeSize, SHA256RootHash: ct.SHA256Hash(root)})
		cmpEnc(v, "TreeHeadSignature", got2, got2Err, want, wantErr)
	}
}

// d3Range: SCT list bodies of these sizes are legal (RFC 6962 s3.3 <1..2^16-1>) but beyond the
// repository's maxlen:65335 (known defect D3).
func d3Range(body int) bool { return body > 65335 && body <= max16 }

func encList(v *harness.Verdict, c EncCase, note func(int)) {
	var items [][]byte
	var itemErr error
	if c.Typed {
		v.Class("list:typed")
		for _, s := range c.SCTs {
			b, err := rfc6962.EncodeSCT(s.ref())
			if err != nil && itemErr == nil {
				itemErr = err
			}
			items = append(items, b)
		}
	} else {
		v.Class("list:raw")
		items = append(blobsBytes(c.Items), c.ItemsMany.elems()...)
	}
	body := 0
	for _, it := range items {
		body += 2 + len(it)
	}
	v.Class("list:n="+countClass(len(items)), "list:body="+listClass(body))
	note(body)
	if body >= 65335 && body <= 65337 {
		v.NonTrivial = true
	}
	var want []byte
	wantErr := itemErr
	if wantErr == nil {
		want, wantErr = rfc6962.EncodeSCTList(items)
	}
	if wantErr != nil {
		v.Class("list:unencodable")
	}

	var list x509.SignedCertificateTimestampList
	if c.Typed {
		scts := make([]*ct.SignedCertificateTimestamp, len(c.SCTs))
		for i, s := range c.SCTs {
			r := s.repo()
			scts[i] = &r
		}
		lp, err := x509util.MarshalSCTsIntoSCTList(scts)
		if err != nil {
			if itemErr == nil {
				v.Failf("enc-refuses-valid:MarshalSCTsIntoSCTList", "MarshalSCTsIntoSCTList refused %d encodable SCTs: %v", len(scts), err)
			}
			return
		}
		if itemErr != nil {
			v.Failf("enc-accepts-invalid:MarshalSCTsIntoSCTList", "MarshalSCTsIntoSCTList accepted an SCT that cannot be encoded (%v)", itemErr)
			return
		}
		list = *lp
	} else {
		for _, it := range items {
			list.SCTList = append(list.SCTList, x509.SerializedSCT{Val: it})
		}
	}
	got, gotErr := cttls.Marshal(list)
	if wantErr == nil && gotErr != nil && d3Range(body) {
		v.Failf("sctlist-maxlen", "tls.Marshal(x509.SignedCertificateTimestampList) refused a list of %d items with a %d-byte body (legal: <1..65535>): %v", len(items), body, gotErr)
	} else {
		cmpEnc(v, "SignedCertificateTimestampList", got, gotErr, want, wantErr)
	}
	if wantErr != nil {
		return
	}
	var back x509.SignedCertificateTimestampList
	rest, err := cttls.Unmarshal(want, &back)
	if err != nil {
		if d3Range(body) {
			v.Failf("sctlist-maxlen", "tls.Unmarshal refused a valid SignedCertificateTimestampList with a %d-byte body (legal: <1..65535>): %v", body, err)
		} else {
			v.Failf("dec-refuses-valid:SignedCertificateTimestampList", "tls.Unmarshal refused a valid SCT list (%d items, body %d): %v", len(items), body, err)
		}
		return
	}
	gotItems := make([][]byte, len(back.SCTList))
	for i, s := range back.SCTList {
		gotItems[i] = s.Val
	}
	if len(rest) != 0 || !eqList(gotItems, items) {
		v.Failf("dec-value:SignedCertificateTimestampList", "SCT list decoded to %d items (rest %d), want %d", len(gotItems), len(rest), len(items))
	}
	if c.Typed {
		scts, err := x509util.ParseSCTsFromSCTList(&back)
		if err != nil {
			v.Failf("dec-refuses-valid:ParseSCTsFromSCTList", "ParseSCTsFromSCTList refused valid SCTs: %v", err)
		} else if len(scts) != len(c.SCTs) {
			v.Failf("dec-value:ParseSCTsFromSCTList", "%d SCTs parsed, want %d", len(scts), len(c.SCTs))
		} else {
			for i, s := range scts {
				if !eqSCT(refFromRepoSCT(*s), c.SCTs[i].ref()) {
					v.Failf("dec-value:ParseSCTsFromSCTList", "SCT %d parsed to a different value", i)
				}
			}
		}
	}
}

func listClass(n int) string {
	switch {
	case n == 0:
		return "0"
	case n <= 65334:
		return "1..65334"
	case n == 65335:
		return "65335"
	case n <= 65534:
		return "65336..65534"
	case n == 65535:
		return "65535"
	default:
		return ">65535"
	}
}

// Encode is the value-to-bytes half of C04.
var Encode = harness.Define(harness.Opts{
	Name:  "encode",
	Rule:  "one value per case of MerkleTreeLeaf (+ leaf hash, SCT signature input, CertificateChain / PrecertChainEntry / ExtraDataForChain, RawLogEntryFromLeaf, util.BuildLogLeaf / BuildLogLeafWithChainHash at klog verbosity 0..5), SignedCertificateTimestamp + DigitallySigned, STH signature input, or SignedCertificateTimestampList (raw items or MarshalSCTsIntoSCTList); lengths drawn from {0,1,127,128,255,256,65534,65535,65536} (45%), 0..40 (40%), 0..70000 (15%), one 16 MB slot (2^24-2, 2^24-1, 2^24) in 1 of 250 leaf cases; 1 leaf case in 16 and 1 list case in 12 carry 255, 256, 4095, 4096, 4097, 5000 or 21845 elements of 1-3 bytes (element-count boundaries of vectors of structures); SCT list bodies steered to {1..4,255,256,65335,65336,65337,65400,65534..65537}; versions / leaf types {0,1,2,127,128,255}, entry types {0,1,2,0x100,0x7fff,0x8000,0xffff}, algorithm octets 0..255, timestamps at 2^32, 2^53, 2^63, 2^64 edges. Compared with internal/rfc6962 (accept/refuse and bytes), reference bytes decoded back. Non-trivial: some length at a 1/2/3-byte boundary (or an STH with a 64-bit operand / unknown version)",
	Quick: 3000, Thorough: 30000, MaxSample: 700,
}, genEnc, checkEnc)

// genEncHuge: a leaf case that always has one slot at the 3-byte length boundary (16 MB).
func genEncHuge(t *rapid.T) EncCase {
	c := EncCase{Kind: "leaf"}
	// slots: 0 certificate, 1 TBS, 2 pre_certificate, 3 one chain element, 4 chain total; 2^24-1 (the largest
	// legal value) gets 60% of the draws
	slot := pick(t, "slot", 5)
	val := []int{max24, max24, max24, max24 - 1, max24 + 1}[pick(t, "val", 5)]
	l := LeafSpec{Timestamp: genU64(t, "ts"), Ext: genSmallBlob(t, "ext", 0, 20)}
	l.Entry = EntrySpec{Type: uint16(pick(t, "etype", 2)), IKH: 5, Cert: genSmallBlob(t, "cert", 1, 40), TBS: genSmallBlob(t, "tbs", 1, 40)}
	p := genSmallBlob(t, "precert", 1, 40)
	for i, n := 0, rapid.IntRange(0, 2).Draw(t, "chain-n"); i < n; i++ {
		c.Chain = append(c.Chain, genSmallBlob(t, fmt.Sprintf("chain%d", i), 1, 60))
	}
	switch slot {
	case 0:
		l.Entry.Type, l.Entry.Cert.N = 0, val
	case 1:
		l.Entry.Type, l.Entry.TBS.N = 1, val
	case 2:
		p.N = val
	case 3: // one element at the boundary (the chain around it then exceeds the chain maximum)
		c.Chain = append(c.Chain, Blob{N: val, Seed: 7})
	case 4: // chain total at the boundary
		used := 0
		for _, b := range c.Chain {
			used += 3 + b.N
		}
		c.Chain = append(c.Chain, Blob{N: val - used - 3, Seed: 9})
	}
	c.Leaf, c.PreCert = &l, &p
	x := genSmallBlob(t, "sigext", 0, 20)
	c.SigExt = &x
	c.SigTS = genU64(t, "sigts")
	return c
}

// EncodeHuge makes sure every 16 MB boundary is visited in every run.
var EncodeHuge = harness.Define(harness.Opts{
	Name:  "encode16m",
	Rule:  "as encode/leaf, with exactly one of {leaf certificate or TBS, pre_certificate, one chain element, the chain's total length} at 2^24-2, 2^24-1 or 2^24 bytes (the last must be refused) and everything else small. Every case is non-trivial",
	Quick: 40, Thorough: 40, MaxSample: 700,
}, genEncHuge, checkEnc)
