package c04

import (
	stdx509 "crypto/x509"
	"encoding/asn1"
	"encoding/json"
	"encoding/pem"
	"os"
	"path/filepath"
	"strings"
	"testing"

	cttestdata "github.com/google/certificate-transparency-go/testdata"

	"verif/internal/harness"
	"verif/internal/rfc6962"
)

// knownSigs: signatures listed as "known" for C04 in KNOWN_FINDINGS.json are not re-reported by the
// fuzz target (the rapid properties go through the harness, which does the same).
func knownSigs() map[string]bool {
	out := map[string]bool{}
	root := os.Getenv("VERIF_ROOT")
	if root == "" {
		root = "/verif"
	}
	b, err := os.ReadFile(filepath.Join(root, "KNOWN_FINDINGS.json"))
	if err != nil {
		return out
	}
	var all []struct{ Property, Status, Signature string }
	if json.Unmarshal(b, &all) == nil {
		for _, k := range all {
			if k.Property == "C04" && k.Status == "known" {
				out[k.Signature] = true
			}
		}
	}
	return out
}

func pemCerts(text []byte) (out [][]byte) {
	for {
		var blk *pem.Block
		blk, text = pem.Decode(text)
		if blk == nil {
			return out
		}
		if blk.Type == "CERTIFICATE" {
			out = append(out, blk.Bytes)
		}
	}
}

// seedCorpus builds valid encodings around the certificates of the repository's testdata (by the
// reference encoder), plus the real SCT list embedded in testdata.TestEmbeddedCertPEM.
func seedCorpus(f *testing.F) {
	repo := os.Getenv("VERIF_REPO")
	if repo == "" {
		repo = "/repo"
	}
	var ders [][]byte
	files, _ := filepath.Glob(filepath.Join(repo, "trillian", "testdata", "*.cert"))
	chains, _ := filepath.Glob(filepath.Join(repo, "trillian", "testdata", "*.chain"))
	for _, fn := range append(files, chains...) {
		if b, err := os.ReadFile(fn); err == nil {
			ders = append(ders, pemCerts(b)...)
		}
	}
	for _, s := range []string{cttestdata.CACertPEM, cttestdata.TestCertPEM, cttestdata.TestPreCertPEM, cttestdata.TestEmbeddedCertPEM} {
		ders = append(ders, pemCerts([]byte(s))...)
	}
	if len(ders) > 24 {
		ders = ders[:24]
	}
	add := func(b []byte, err error) {
		if err == nil {
			f.Add(b, uint16(len(b)))
			f.Add(b, uint16(len(b)/2))
		}
	}
	var ikh [32]byte
	copy(ikh[:], "iamapublickeyshatwofivesixdigest")
	for i, d := range ders {
		rest := ders[i+1:]
		if len(rest) > 3 {
			rest = rest[:3]
		}
		leaf, e1 := rfc6962.EncodeLeaf(rfc6962.Leaf{Timestamp: 1234 + uint64(i), Entry: rfc6962.Entry{Type: rfc6962.X509Entry, Cert: d}})
		add(leaf, e1)
		pleaf, e2 := rfc6962.EncodeLeaf(rfc6962.Leaf{Timestamp: 1 << 40, Entry: rfc6962.Entry{Type: rfc6962.PrecertEntry, IssuerKeyHash: ikh, TBS: d}, Extensions: []byte("ext")})
		add(pleaf, e2)
		chain, e3 := rfc6962.EncodeChain(rest)
		add(chain, e3)
		pre, e4 := rfc6962.EncodePrecertChainEntry(d, rest)
		add(pre, e4)
		if e1 == nil && e3 == nil {
			f.Add(append(append([]byte{}, leaf...), chain...), uint16(len(leaf)))
		}
		if e2 == nil && e4 == nil {
			f.Add(append(append([]byte{}, pleaf...), pre...), uint16(len(pleaf)))
		}
	}
	// the golden SCT / DigitallySigned of the repository's serialization_test.go, rebuilt by the reference encoder
	ds := rfc6962.DigitallySigned{Hash: 4, Sig: 3, Signature: []byte("signature")}
	add(rfc6962.EncodeDS(ds))
	sct, err := rfc6962.EncodeSCT(rfc6962.SCT{LogID: ikh, Timestamp: 1234, Signature: ds})
	add(sct, err)
	add(rfc6962.EncodeSCTList([][]byte{sct, sct}))
	// a real embedded SCT list
	for _, d := range pemCerts([]byte(cttestdata.TestEmbeddedCertPEM)) {
		if c, err := stdx509.ParseCertificate(d); err == nil {
			for _, e := range c.Extensions {
				if e.Id.String() == "1.3.6.1.4.1.11129.2.4.2" {
					var list []byte
					if _, err := asn1.Unmarshal(e.Value, &list); err == nil {
						f.Add(list, uint16(0))
						if items, err := rfc6962.DecodeSCTList(list); err == nil {
							for _, it := range items {
								f.Add(it, uint16(0))
							}
						}
					}
				}
			}
		}
	}
	f.Add([]byte{}, uint16(0))
	f.Add([]byte{0, 0, 0, 0, 0, 0, 0, 0, 0, 0, 0x80, 0x00, 0, 0, 1, 'x', 0, 0}, uint16(18)) // the non-RFC JSON entry type
}

// FuzzDecoders feeds one byte string to every decoder family; the oracle is the same reference
// comparison the rapid property uses. split cuts the input into leaf_input / extra_data for
// RawLogEntryFromLeaf.
func FuzzDecoders(f *testing.F) {
	harness.SilenceKlog()
	known := knownSigs()
	seedCorpus(f)
	f.Fuzz(func(t *testing.T, data []byte, split uint16) {
		var v harness.Verdict
		judgeLeaf(&v, data)
		judgeSCT(&v, data)
		judgeDS(&v, data)
		judgeChain(&v, data)
		judgePrechain(&v, data)
		judgeList(&v, data)
		if len(data) <= 70000 {
			judgeCertList(&v, data, int(split))
		}
		k := int(split) % (len(data) + 1)
		judgeRawEntry(&v, data[:k], data[k:], int64(split))
		var msgs []string
		for _, x := range v.Violations {
			if !known[x.Sig] {
				msgs = append(msgs, "["+x.Sig+"] "+x.Msg)
			}
		}
		if len(msgs) > 0 {
			t.Fatalf("C04 decoder disagreement:\n%s", strings.Join(msgs, "\n"))
		}
	})
}
