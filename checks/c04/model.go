// Package c04: RFC 6962 wire structures, signature inputs and leaf hashes are byte-exact.
//
// Everything random is drawn into plain-data "specs" (lengths + fill seeds, never the blobs themselves,
// so that a 16 MB certificate costs a few bytes in the Case). A spec is turned (a) into the reference
// value of internal/rfc6962 and (b) into the repository's exported ct / tls / x509 types by plain field
// assignment; the two are then compared through the respective encoders and decoders.
package c04

import (
	"bytes"
	"crypto/sha256"
	"fmt"

	ct "github.com/google/certificate-transparency-go"
	cttls "github.com/google/certificate-transparency-go/tls"
	"pgregory.net/rapid"

	"verif/internal/harness"
	"verif/internal/rfc6962"
)

// Blob is a byte string given by its length and a fill seed.
type Blob struct {
	N    int
	Seed uint32
}

// Bytes expands the blob deterministically (xorshift64*, eight bytes per step).
func (b Blob) Bytes() []byte {
	out := make([]byte, b.N)
	x := uint64(b.Seed)*0x9E3779B97F4A7C15 + 0x632BE59BD9B4E019
	if x == 0 {
		x = 1
	}
	for i := 0; i < b.N; i += 8 {
		x ^= x >> 12
		x ^= x << 25
		x ^= x >> 27
		y := x * 0x2545F4914F6CDD1D
		for j := 0; j < 8 && i+j < b.N; j++ {
			out[i+j] = byte(y >> (8 * j))
		}
	}
	return out
}

func hash32(seed uint32) (h [32]byte) {
	copy(h[:], Blob{N: 32, Seed: seed ^ 0xA5A5A5A5}.Bytes())
	return h
}

const (
	max16 = 1<<16 - 1
	max24 = 1<<24 - 1
)

// The RFC's boundaries: 1-byte, 2-byte and 3-byte length prefixes.
var rfcBounds = []int{0, 1, 127, 128, 255, 256, 65534, 65535, 65536}
var hugeBounds = []int{max24 - 1, max24, max24 + 1}

// isBoundary reports whether n sits at a 1/2/3-byte length boundary of RFC 5246 vectors.
func isBoundary(n int) bool {
	switch n {
	case 0, 1, 127, 128, 255, 256, 65534, 65535, 65536, max24 - 1, max24, max24 + 1:
		return true
	}
	return false
}

func sizeClass(n int) string {
	switch {
	case n == 0, n == 1, n == 127, n == 128, n == 255, n == 256, n == 65534, n == 65535, n == 65536:
		return fmt.Sprint(n)
	case n < 127:
		return "2..126"
	case n < 255:
		return "129..254"
	case n < 65534:
		return "257..65533"
	case n < max24-1:
		return "65537..2^24-3"
	case n == max24-1:
		return "2^24-2"
	case n == max24:
		return "2^24-1"
	case n == max24+1:
		return "2^24"
	default:
		return ">2^24"
	}
}

// pick draws a near-uniform index in [0,n). rapid's integer generators favour small values heavily
// (half of all Uint32 draws are below 256, IntRange(1,250)==1 holds in 10% of the draws), which is
// wrong for categorical choices and for "rare" switches. Hashing two drawn words together removes the
// bias (measured: 15 classes within +-10% of uniform) and still shrinks to index 0.
func pick(t *rapid.T, label string, n int) int {
	a := mix64(uint64(rapid.Uint32().Draw(t, label)))
	b := mix64(uint64(rapid.Uint32().Draw(t, label+"'")))
	return int((a ^ (b<<1 | b>>63)) % uint64(n))
}

func mix64(x uint64) uint64 {
	x *= 0x9E3779B97F4A7C15
	x ^= x >> 32
	x *= 0xD6E8FEB86659FD93
	x ^= x >> 32
	return x
}

func pickFrom[T any](t *rapid.T, label string, xs []T) T { return xs[pick(t, label, len(xs))] }

// genLen draws a length: 40% small, 45% RFC boundary, 15% anything up to 70000. `huge` (decided once
// per case, rarely) turns this slot into one of the 16 MB boundaries.
func genLen(t *rapid.T, label string, huge bool) int {
	if huge {
		return pickFrom(t, label+"-huge", hugeBounds)
	}
	switch k := pick(t, label+"-k", 20); {
	case k < 8:
		return rapid.IntRange(0, 40).Draw(t, label+"-small")
	case k < 17:
		return pickFrom(t, label+"-bound", rfcBounds)
	default:
		return rapid.IntRange(0, 70000).Draw(t, label+"-any")
	}
}

func genBlob(t *rapid.T, label string, huge bool) Blob {
	return Blob{N: genLen(t, label, huge), Seed: rapid.Uint32().Draw(t, label+"-seed")}
}

// genSmallBlob: 1..max bytes, for elements whose exact size does not matter.
func genSmallBlob(t *rapid.T, label string, min, max int) Blob {
	return Blob{N: rapid.IntRange(min, max).Draw(t, label+"-n"), Seed: rapid.Uint32().Draw(t, label+"-seed")}
}

var tsBounds = []uint64{0, 1, 1<<32 - 1, 1 << 32, 1<<53 + 1, 1<<63 - 1, 1 << 63, 1<<64 - 1}

func genU64(t *rapid.T, label string) uint64 {
	if pick(t, label+"-b", 2) == 1 {
		return pickFrom(t, label+"-bound", tsBounds)
	}
	return rapid.Uint64().Draw(t, label+"-any")
}

// genEnum8 draws an enum octet: mostly 0, else 1, 255 or anything.
func genEnum8(t *rapid.T, label string, zeroIn10 int) uint8 {
	if pick(t, label+"-z", 10) < zeroIn10 {
		return 0
	}
	return pickFrom(t, label, []uint8{1, 255, 2, 127, 128})
}

var entryTypes = []uint16{0, 1, 2, 0x7fff, 0x8000, 0xffff, 0x0100}

func genEntryType(t *rapid.T, label string, knownIn10 int) uint16 {
	if pick(t, label+"-known", 10) < knownIn10 {
		return uint16(pick(t, label+"-01", 2))
	}
	return pickFrom(t, label, entryTypes)
}

// ---------------------------------------------------------------------------------------------
// Specs

type EntrySpec struct {
	Type uint16
	Cert Blob   // x509_entry
	IKH  uint32 // precert_entry: seed of issuer_key_hash
	TBS  Blob   // precert_entry
}

type LeafSpec struct {
	Version   uint8
	LeafType  uint8
	Timestamp uint64
	Entry     EntrySpec
	Ext       Blob
}

type DSSpec struct {
	Hash, Sig uint8
	Signature Blob
}

type SCTSpec struct {
	Version   uint8
	LogID     uint32
	Timestamp uint64
	Ext       Blob
	DS        DSSpec
}

type STHSpec struct {
	Version   uint8
	Timestamp uint64
	TreeSize  uint64
	Root      uint32
	RootKind  int `json:",omitempty"` // 0: 32 bytes filled from Root; 1: all zero; 2: SHA-256("") (the empty tree's hash); 3: all 0xff
}

func (s STHSpec) root() [32]byte {
	switch s.RootKind {
	case 1:
		return [32]byte{}
	case 2:
		return sha256.Sum256(nil)
	case 3:
		var r [32]byte
		for i := range r {
			r[i] = 0xff
		}
		return r
	}
	return hash32(s.Root)
}

func genEntry(t *rapid.T, label string, knownIn10 int, huge bool) EntrySpec {
	e := EntrySpec{Type: genEntryType(t, label+"-type", knownIn10), IKH: rapid.Uint32().Draw(t, label+"-ikh")}
	e.Cert = genBlob(t, label+"-cert", huge && e.Type != 1)
	e.TBS = genBlob(t, label+"-tbs", huge && e.Type == 1)
	return e
}

func genLeaf(t *rapid.T, label string, huge bool) LeafSpec {
	return LeafSpec{
		Version:   genEnum8(t, label+"-ver", 8),
		LeafType:  genEnum8(t, label+"-lt", 9),
		Timestamp: genU64(t, label+"-ts"),
		Entry:     genEntry(t, label+"-entry", 8, huge),
		Ext:       genBlob(t, label+"-ext", false),
	}
}

func genDS(t *rapid.T, label string) DSSpec {
	d := DSSpec{Signature: genBlob(t, label+"-sig", false)}
	if pick(t, label+"-std", 2) == 0 {
		d.Hash = uint8(rapid.IntRange(0, 6).Draw(t, label+"-hash"))
		d.Sig = uint8(rapid.IntRange(0, 3).Draw(t, label+"-alg"))
	} else {
		d.Hash = rapid.Uint8().Draw(t, label+"-hash8")
		d.Sig = rapid.Uint8().Draw(t, label+"-alg8")
	}
	return d
}

func genSCT(t *rapid.T, label string) SCTSpec {
	return SCTSpec{
		Version:   genEnum8(t, label+"-ver", 7),
		LogID:     rapid.Uint32().Draw(t, label+"-id"),
		Timestamp: genU64(t, label+"-ts"),
		Ext:       genBlob(t, label+"-ext", false),
		DS:        genDS(t, label+"-ds"),
	}
}

// ---------------------------------------------------------------------------------------------
// Spec -> reference value

func (e EntrySpec) ref() rfc6962.Entry {
	r := rfc6962.Entry{Type: e.Type}
	switch e.Type {
	case 0:
		r.Cert = e.Cert.Bytes()
	case 1:
		r.IssuerKeyHash = hash32(e.IKH)
		r.TBS = e.TBS.Bytes()
	}
	return r
}

func (l LeafSpec) ref() rfc6962.Leaf {
	return rfc6962.Leaf{Version: l.Version, LeafType: l.LeafType, Timestamp: l.Timestamp, Entry: l.Entry.ref(), Extensions: l.Ext.Bytes()}
}

func (d DSSpec) ref() rfc6962.DigitallySigned {
	return rfc6962.DigitallySigned{Hash: d.Hash, Sig: d.Sig, Signature: d.Signature.Bytes()}
}

func (s SCTSpec) ref() rfc6962.SCT {
	return rfc6962.SCT{Version: s.Version, LogID: hash32(s.LogID), Timestamp: s.Timestamp, Extensions: s.Ext.Bytes(), Signature: s.DS.ref()}
}

// ---------------------------------------------------------------------------------------------
// Spec -> the repository's types (plain field assignment)

// repoTimestampedEntry fills the variant that the entry type selects. For entry types the RFC does not
// define no variant is filled (there is nothing that could be encoded); wrongArm fills the x509 arm all
// the same, to see that the encoder refuses rather than emits it.
func (l LeafSpec) repoTimestampedEntry(wrongArm bool) *ct.TimestampedEntry {
	te := &ct.TimestampedEntry{Timestamp: l.Timestamp, EntryType: ct.LogEntryType(l.Entry.Type), Extensions: ct.CTExtensions(l.Ext.Bytes())}
	switch l.Entry.Type {
	case 0:
		te.X509Entry = &ct.ASN1Cert{Data: l.Entry.Cert.Bytes()}
	case 1:
		te.PrecertEntry = &ct.PreCert{IssuerKeyHash: hash32(l.Entry.IKH), TBSCertificate: l.Entry.TBS.Bytes()}
	default:
		if wrongArm {
			te.X509Entry = &ct.ASN1Cert{Data: l.Entry.Cert.Bytes()}
		}
	}
	return te
}

func (l LeafSpec) repo(wrongArm bool) ct.MerkleTreeLeaf {
	return ct.MerkleTreeLeaf{Version: ct.Version(l.Version), LeafType: ct.MerkleLeafType(l.LeafType), TimestampedEntry: l.repoTimestampedEntry(wrongArm)}
}

func (d DSSpec) repo() cttls.DigitallySigned {
	return cttls.DigitallySigned{
		Algorithm: cttls.SignatureAndHashAlgorithm{Hash: cttls.HashAlgorithm(d.Hash), Signature: cttls.SignatureAlgorithm(d.Sig)},
		Signature: d.Signature.Bytes(),
	}
}

func (s SCTSpec) repo() ct.SignedCertificateTimestamp {
	return ct.SignedCertificateTimestamp{
		SCTVersion: ct.Version(s.Version),
		LogID:      ct.LogID{KeyID: hash32(s.LogID)},
		Timestamp:  s.Timestamp,
		Extensions: ct.CTExtensions(s.Ext.Bytes()),
		Signature:  ct.DigitallySigned(s.DS.repo()),
	}
}

func blobsBytes(bs []Blob) [][]byte {
	out := make([][]byte, len(bs))
	for i, b := range bs {
		out[i] = b.Bytes()
	}
	return out
}

func asn1Certs(bs [][]byte) []ct.ASN1Cert {
	out := make([]ct.ASN1Cert, len(bs))
	for i, b := range bs {
		out[i] = ct.ASN1Cert{Data: b}
	}
	return out
}

// ---------------------------------------------------------------------------------------------
// Repository value -> reference value (for comparing decoder results)

func refFromRepoDS(d cttls.DigitallySigned) rfc6962.DigitallySigned {
	return rfc6962.DigitallySigned{Hash: uint8(d.Algorithm.Hash), Sig: uint8(d.Algorithm.Signature), Signature: d.Signature}
}

func refFromRepoSCT(s ct.SignedCertificateTimestamp) rfc6962.SCT {
	return rfc6962.SCT{Version: uint8(s.SCTVersion), LogID: s.LogID.KeyID, Timestamp: s.Timestamp, Extensions: []byte(s.Extensions), Signature: refFromRepoDS(cttls.DigitallySigned(s.Signature))}
}

// refFromRepoLeaf maps a decoded MerkleTreeLeaf back; problems (variant pointers that do not match the
// type codes, enum values that do not fit the field) are reported as a string.
func refFromRepoLeaf(l ct.MerkleTreeLeaf) (rfc6962.Leaf, string) {
	var r rfc6962.Leaf
	if l.Version > 255 || l.LeafType > 255 {
		return r, fmt.Sprintf("enum out of range: version %d leaf type %d", l.Version, l.LeafType)
	}
	r.Version, r.LeafType = uint8(l.Version), uint8(l.LeafType)
	te := l.TimestampedEntry
	if te == nil {
		return r, "TimestampedEntry is nil"
	}
	if te.EntryType > 65535 {
		return r, fmt.Sprintf("entry type %d out of range", te.EntryType)
	}
	r.Timestamp, r.Entry.Type, r.Extensions = te.Timestamp, uint16(te.EntryType), []byte(te.Extensions)
	switch te.EntryType {
	case 0:
		if te.X509Entry == nil || te.PrecertEntry != nil || te.JSONEntry != nil {
			return r, "x509 entry: wrong variant pointers"
		}
		r.Entry.Cert = te.X509Entry.Data
	case 1:
		if te.PrecertEntry == nil || te.X509Entry != nil || te.JSONEntry != nil {
			return r, "precert entry: wrong variant pointers"
		}
		r.Entry.IssuerKeyHash, r.Entry.TBS = te.PrecertEntry.IssuerKeyHash, te.PrecertEntry.TBSCertificate
	default:
		return r, fmt.Sprintf("decoded entry type %d", te.EntryType)
	}
	return r, ""
}

func certsData(cs []ct.ASN1Cert) [][]byte {
	out := make([][]byte, len(cs))
	for i, c := range cs {
		out[i] = c.Data
	}
	return out
}

// ---------------------------------------------------------------------------------------------
// Equality helpers (nil and empty byte strings are the same value)

func eqBytes(a, b []byte) bool { return bytes.Equal(a, b) }

func eqList(a, b [][]byte) bool {
	if len(a) != len(b) {
		return false
	}
	for i := range a {
		if !bytes.Equal(a[i], b[i]) {
			return false
		}
	}
	return true
}

func eqEntry(a, b rfc6962.Entry) bool {
	return a.Type == b.Type && eqBytes(a.Cert, b.Cert) && a.IssuerKeyHash == b.IssuerKeyHash && eqBytes(a.TBS, b.TBS)
}

func eqLeaf(a, b rfc6962.Leaf) bool {
	return a.Version == b.Version && a.LeafType == b.LeafType && a.Timestamp == b.Timestamp && eqEntry(a.Entry, b.Entry) && eqBytes(a.Extensions, b.Extensions)
}

func eqDS(a, b rfc6962.DigitallySigned) bool {
	return a.Hash == b.Hash && a.Sig == b.Sig && eqBytes(a.Signature, b.Signature)
}

func eqSCT(a, b rfc6962.SCT) bool {
	return a.Version == b.Version && a.LogID == b.LogID && a.Timestamp == b.Timestamp && eqBytes(a.Extensions, b.Extensions) && eqDS(a.Signature, b.Signature)
}

// firstDiff renders where two byte strings part, without dumping megabytes.
func firstDiff(got, want []byte) string {
	n := len(got)
	if len(want) < n {
		n = len(want)
	}
	i := 0
	for i < n && got[i] == want[i] {
		i++
	}
	win := func(b []byte) []byte {
		lo, hi := i-4, i+12
		if lo < 0 {
			lo = 0
		}
		if hi > len(b) {
			hi = len(b)
		}
		if lo > hi {
			lo = hi
		}
		return b[lo:hi]
	}
	return fmt.Sprintf("len got %d want %d, first difference at offset %d: got ...%x want ...%x", len(got), len(want), i, win(got), win(want))
}

// cmpEnc judges one encoder against the reference: same accept/refuse decision, same bytes.
func cmpEnc(v *harness.Verdict, what string, got []byte, gotErr error, want []byte, wantErr error) bool {
	switch {
	case wantErr != nil && gotErr == nil:
		v.Failf("enc-accepts-invalid:"+what, "%s: the RFC has no encoding for this value (%v) but the encoder produced %d bytes (%x...)", what, wantErr, len(got), head(got, 24))
		return false
	case wantErr == nil && gotErr != nil:
		v.Failf("enc-refuses-valid:"+what, "%s: valid value refused: %v (reference encoding has %d bytes)", what, gotErr, len(want))
		return false
	case wantErr == nil && !bytes.Equal(got, want):
		v.Failf("enc-bytes:"+what, "%s: encoding differs from RFC 6962: %s", what, firstDiff(got, want))
		return false
	}
	return true
}

func head(b []byte, n int) []byte {
	if len(b) > n {
		return b[:n]
	}
	return b
}
