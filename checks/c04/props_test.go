package c04

import (
	"testing"

	"verif/internal/harness"
)

func TestProps(t *testing.T) {
	harness.Main(t, "C04", Encode, EncodeHuge, Decode, Reuse, FromChain, Concurrent, JSONMsg)
}
