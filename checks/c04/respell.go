package c04

import (
	"encoding/json"
	"fmt"
	"reflect"
	"sort"
	"strings"

	"verif/internal/harness"
)

// A JSON writer of our own: the same JSON value in another legal spelling (RFC 8259): members in another
// order, insignificant white space between tokens, and characters of strings (member names included)
// written as \uXXXX or, for '/', as \/ . encoding/json never produces these, other producers do.

type speller struct {
	x    uint64
	sb   strings.Builder
	rate uint64 // escape one character in `rate`
	nEsc int
}

func (s *speller) next() uint64 {
	s.x ^= s.x >> 12
	s.x ^= s.x << 25
	s.x ^= s.x >> 27
	return s.x * 0x2545F4914F6CDD1D
}

var spaces = []string{"", "", " ", "\n", "\t", "\r\n", "  ", " \n\t"}

func (s *speller) ws() { s.sb.WriteString(spaces[s.next()%uint64(len(spaces))]) }

func (s *speller) str(t string) {
	s.sb.WriteByte('"')
	for _, r := range t {
		k := s.next()
		switch {
		case r == '/' && k%2 == 0:
			s.sb.WriteString(`\/`)
			s.nEsc++
		case r < 0x20 || r == '"' || r == '\\' || (r < 0x10000 && k%s.rate == 1):
			if k%3 == 0 {
				fmt.Fprintf(&s.sb, `\u%04X`, r)
			} else {
				fmt.Fprintf(&s.sb, `\u%04x`, r)
			}
			s.nEsc++
		default:
			s.sb.WriteRune(r)
		}
	}
	s.sb.WriteByte('"')
}

func (s *speller) val(x any) error {
	switch t := x.(type) {
	case map[string]any:
		keys := make([]string, 0, len(t))
		for k := range t {
			keys = append(keys, k)
		}
		sort.Strings(keys)
		for i := len(keys) - 1; i > 0; i-- { // deterministic shuffle
			j := int(s.next() % uint64(i+1))
			keys[i], keys[j] = keys[j], keys[i]
		}
		s.sb.WriteByte('{')
		for i, k := range keys {
			if i > 0 {
				s.sb.WriteByte(',')
			}
			s.ws()
			s.str(k)
			s.ws()
			s.sb.WriteByte(':')
			s.ws()
			if err := s.val(t[k]); err != nil {
				return err
			}
			s.ws()
		}
		if len(keys) == 0 {
			s.ws()
		}
		s.sb.WriteByte('}')
	case []any:
		s.sb.WriteByte('[')
		for i, e := range t {
			if i > 0 {
				s.sb.WriteByte(',')
			}
			s.ws()
			if err := s.val(e); err != nil {
				return err
			}
			s.ws()
		}
		if len(t) == 0 {
			s.ws()
		}
		s.sb.WriteByte(']')
	case string:
		s.str(t)
	case json.Number:
		s.sb.WriteString(string(t))
	default:
		return fmt.Errorf("respell: unsupported %T", x)
	}
	return nil
}

// respell renders msg in a spelling determined by seed.
func respell(msg map[string]any, seed uint32) ([]byte, int, error) {
	s := &speller{x: uint64(seed)*0x9E3779B97F4A7C15 + 0x1234567}
	s.rate = []uint64{2, 3, 7, 40}[s.next()%4]
	s.ws()
	if err := s.val(msg); err != nil {
		return nil, 0, err
	}
	s.ws()
	return []byte(s.sb.String()), s.nEsc, nil
}

// respellCheck: the re-spelt text of the message must decode to the very same library value as the
// plain text did (first is that value), or be refused like the plain text was (first == nil).
func respellCheck(v *harness.Verdict, kind string, msg map[string]any, first any, typ reflect.Type, seed uint32) {
	plain, _ := json.Marshal(msg)
	text, nEsc, err := respell(msg, seed)
	if err != nil {
		v.Failf("harness", "%v", err)
		return
	}
	a, _ := canon(plain)
	b, cerr := canon(text)
	if cerr != nil || a != b {
		v.Failf("harness", "respell produced a different JSON value (%v): %s", cerr, clip(string(text)))
		return
	}
	if nEsc > 0 {
		v.Class("respelt:escapes")
	} else {
		v.Class("respelt:layout-only")
	}
	second := reflect.New(typ)
	uerr := json.Unmarshal(text, second.Interface())
	switch {
	case first == nil && uerr == nil:
		v.Failf("json-respelt-accepts-invalid:"+kind, "an invalid %s message is accepted once it is spelt differently: %s", kind, clip(string(text)))
	case first != nil && uerr != nil:
		v.Failf("json-respelt-refused:"+kind, "a %s message that decodes in encoding/json's own spelling is refused in another legal spelling of the same JSON value (escapes, white space, member order): %v; text %s", kind, uerr, clip(string(text)))
	case first != nil && !reflect.DeepEqual(reflect.ValueOf(first).Elem().Interface(), second.Elem().Interface()):
		v.Failf("json-respelt-value:"+kind, "a %s message decodes to a different value in another legal spelling of the same JSON value: %s", kind, clip(string(text)))
	}
}
