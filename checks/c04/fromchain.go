package c04

import (
	"bytes"
	"crypto/sha256"
	"fmt"
	"sync"
	"testing"

	ct "github.com/google/certificate-transparency-go"
	cttls "github.com/google/certificate-transparency-go/tls"
	"github.com/google/certificate-transparency-go/x509"
	"pgregory.net/rapid"

	"verif/internal/harness"
	"verif/internal/keys"
	"verif/internal/pki"
	"verif/internal/preref"
	"verif/internal/rfc6962"
	"verif/internal/world"
)

// The repository's leaf constructors (MerkleTreeLeafFromChain / MerkleTreeLeafFromRawChain) on generated
// submission chains, with and without a precertificate signing certificate: the MerkleTreeLeaf they
// build, its leaf hash and the SCT signature input must be the bytes RFC 6962 s3.2 / s3.4 prescribe for the
// entry an independent client derives from the chain (world.Built.Entry: byte-level TBS transformation of
// internal/preref, issuer_key_hash = SHA-256 of the FINAL issuer's SubjectPublicKeyInfo).

type ChainCase struct {
	Spec      world.ChainSpec
	Timestamp uint64
	Ext       Blob // SCT extensions entering the signature input
	// Twin: two issuing CAs with DIFFERENT keys and the SAME subject key identifier, each issuing one
	// precertificate; the leaves are built one after the other in this process.
	Twin *TwinSpec `json:",omitempty"`
}

type TwinSpec struct {
	SKI          []byte // shared subjectKeyIdentifier (small space, so that it also recurs across cases)
	KindA, KindB string
	IdxA, IdxB   int
	Rounds       int // how many times A, B are alternated
}

var twinKinds = []string{"p256", "p384", "ed25519", "p521"}
var twinSKIs = [][]byte{{1}, {2}, {0xC0, 0x4}, []byte("0123456789abcdefghij")}

func genFromChain(t *rapid.T) ChainCase {
	s := world.GenSpec(t, "spec")
	if pick(t, "force-preissuer", 3) == 0 { // the interesting shape: precert signed by a pre-issuer
		s.Precert, s.PreIssuer = true, true
	}
	c := ChainCase{Spec: s, Timestamp: genU64(t, "ts"), Ext: genValidBlob(t, "ext", 0, false)}
	if pick(t, "twin", 3) == 0 {
		tw := &TwinSpec{SKI: pickFrom(t, "twin-ski", twinSKIs), KindA: pickFrom(t, "twin-ka", twinKinds), KindB: pickFrom(t, "twin-kb", twinKinds),
			IdxA: pick(t, "twin-ia", 3), IdxB: pick(t, "twin-ib", 3), Rounds: 1 + pick(t, "twin-rounds", 2)}
		if tw.KindA == tw.KindB && tw.IdxA == tw.IdxB {
			tw.IdxB = tw.IdxA + 1
		}
		c.Twin = tw
	}
	return c
}

// twinIssuer builds (once per process and parameter set) an issuing CA under world root 0 whose SKI is the
// given one, and a precertificate issued by it.
var twinCache sync.Map

type twinPair struct{ ca, pre *pki.Cert }

func twinIssuer(kind string, idx int, ski []byte) twinPair {
	key := fmt.Sprintf("%s/%d/%x", kind, idx, ski)
	if v, ok := twinCache.Load(key); ok {
		return v.(twinPair)
	}
	root := world.Roots()[0]
	k := keys.Pick(kind, idx)
	t := pki.CATemplate("C04 Twin CA "+key, k, 4242, pki.KeyID(root.Key))
	for i := range t.Exts {
		if pki.OIDEq(t.Exts[i].OID, pki.OIDExtSKI) {
			t.Exts[i] = pki.SKI(ski)
		}
	}
	ca := pki.Issue(root, t, "twin-ca/"+key)
	lt := pki.LeafTemplate("c04-twin-"+kind, keys.Pick("p256", 7), 4343, ski)
	lt.Exts = append(lt.Exts, pki.Poison())
	pre := pki.Issue(ca, lt, "twin-pre/"+key)
	p := twinPair{ca, pre}
	twinCache.Store(key, p)
	return p
}

func checkTwin(v *harness.Verdict, c ChainCase) {
	tw := c.Twin
	v.Class("twin-issuers-same-ski")
	v.NonTrivial = true
	root := world.Roots()[0]
	pairs := []twinPair{twinIssuer(tw.KindA, tw.IdxA, tw.SKI), twinIssuer(tw.KindB, tw.IdxB, tw.SKI)}
	for r := 0; r < tw.Rounds; r++ {
		for i, p := range pairs {
			tbs, err := preref.Transform(p.pre.TBS, preref.OIDPoison, nil)
			if err != nil {
				v.Failf("harness", "preref: %v", err)
				return
			}
			entry := rfc6962.Entry{Type: rfc6962.PrecertEntry, TBS: tbs, IssuerKeyHash: sha256.Sum256(p.ca.Key.SPKI)}
			want, err := rfc6962.EncodeLeaf(rfc6962.Leaf{Timestamp: c.Timestamp, Entry: entry})
			if err != nil {
				v.Failf("harness", "reference: %v", err)
				return
			}
			ders := [][]byte{p.pre.DER, p.ca.DER, root.DER}
			var parsed []*x509.Certificate
			raw := make([]ct.ASN1Cert, len(ders))
			for k, der := range ders {
				raw[k] = ct.ASN1Cert{Data: der}
				cert, perr := x509.ParseCertificate(der)
				if cert == nil {
					v.Failf("harness", "twin certificate %d does not parse: %v", k, perr)
					return
				}
				parsed = append(parsed, cert)
			}
			for _, api := range []string{"MerkleTreeLeafFromChain", "MerkleTreeLeafFromRawChain"} {
				var leaf *ct.MerkleTreeLeaf
				var lerr error
				if api == "MerkleTreeLeafFromChain" {
					leaf, lerr = ct.MerkleTreeLeafFromChain(parsed, ct.PrecertLogEntryType, c.Timestamp)
				} else {
					leaf, lerr = ct.MerkleTreeLeafFromRawChain(raw, ct.PrecertLogEntryType, c.Timestamp)
				}
				if lerr != nil || leaf == nil {
					v.Failf("fromchain-refused:"+api, "%s refused a precertificate chain under twin issuer %d: %v", api, i, lerr)
					return
				}
				got, merr := cttls.Marshal(*leaf)
				if merr != nil || !bytes.Equal(got, want) {
					sig := "enc-bytes:" + api
					if te := leaf.TimestampedEntry; te != nil && te.PrecertEntry != nil && te.PrecertEntry.IssuerKeyHash != entry.IssuerKeyHash {
						sig = "fromchain-issuer-key-hash-stale:" + api
					}
					v.Failf(sig, "%s, issuer %d of 2 issuers with different keys (%s#%d, %s#%d) and the same subjectKeyIdentifier %x, round %d: leaf differs from the RFC encoding (%v) %s", api, i+1, tw.KindA, tw.IdxA, tw.KindB, tw.IdxB, tw.SKI, r+1, merr, firstDiff(got, want))
					return
				}
			}
		}
	}
}

func checkFromChain(t *testing.T, c ChainCase) (v harness.Verdict) {
	b := world.Build(c.Spec)
	entry := b.Entry()
	etype := ct.X509LogEntryType
	switch {
	case !c.Spec.Precert:
		v.Class("x509")
	case b.PreIssuer != nil:
		etype = ct.PrecertLogEntryType
		v.Class("precert:via-pre-issuer")
		v.NonTrivial = true
	default:
		etype = ct.PrecertLogEntryType
		v.Class("precert:direct")
		v.NonTrivial = true
	}
	if len(c.Spec.Inters) == 0 {
		v.Class("issuer-is-root")
	}
	want, err := rfc6962.EncodeLeaf(rfc6962.Leaf{Timestamp: c.Timestamp, Entry: entry})
	if err != nil {
		v.Discard = true
		return v
	}
	ext := c.Ext.Bytes()
	wantIn, err := rfc6962.SCTSignatureInput(0, c.Timestamp, entry, ext)
	if err != nil {
		v.Discard = true
		return v
	}
	wantHash := rfc6962.LeafHash(want)

	var parsed []*x509.Certificate
	raw := make([]ct.ASN1Cert, len(b.Full))
	for i, der := range b.Full {
		raw[i] = ct.ASN1Cert{Data: der}
		cert, perr := x509.ParseCertificate(der)
		if cert == nil {
			v.Failf("harness", "generated certificate %d does not parse: %v", i, perr)
			return v
		}
		parsed = append(parsed, cert)
	}
	judge := func(api string, leaf *ct.MerkleTreeLeaf, err error) {
		if err != nil || leaf == nil {
			v.Failf("fromchain-refused:"+api, "%s refused a valid %d-certificate chain (pre-issuer %v): %v", api, len(b.Full), b.PreIssuer != nil, err)
			return
		}
		got, merr := cttls.Marshal(*leaf)
		if !cmpEnc(&v, api, got, merr, want, nil) {
			if te := leaf.TimestampedEntry; te != nil && te.PrecertEntry != nil && te.PrecertEntry.IssuerKeyHash != entry.IssuerKeyHash {
				v.Failf("fromchain-issuer-key-hash:"+api, "%s: issuer_key_hash %x is not SHA-256 of the final issuer's SubjectPublicKeyInfo (%x); pre-issuer in chain: %v", api, te.PrecertEntry.IssuerKeyHash, entry.IssuerKeyHash, b.PreIssuer != nil)
			}
			return
		}
		if h, herr := ct.LeafHashForLeaf(leaf); herr != nil || h != wantHash {
			v.Failf("leafhash-value", "%s: LeafHashForLeaf = %x (%v), want %x", api, h, herr, wantHash)
		}
		sct := ct.SignedCertificateTimestamp{SCTVersion: ct.V1, Timestamp: c.Timestamp, Extensions: ct.CTExtensions(ext)}
		in, ierr := ct.SerializeSCTSignatureInput(sct, ct.LogEntry{Leaf: *leaf})
		cmpEnc(&v, "SCTSignatureInput("+api+")", in, ierr, wantIn, nil)
	}
	l1, e1 := ct.MerkleTreeLeafFromChain(parsed, etype, c.Timestamp)
	judge("MerkleTreeLeafFromChain", l1, e1)
	l2, e2 := ct.MerkleTreeLeafFromRawChain(raw, etype, c.Timestamp)
	judge("MerkleTreeLeafFromRawChain", l2, e2)
	if c.Twin != nil {
		checkTwin(&v, c)
	}
	return v
}

// FromChain is the leaf-constructor part of C04.
var FromChain = harness.Define(harness.Opts{
	Name:  "fromchain",
	Rule:  "a generated submission chain (internal/world: 4 roots, 0-3 intermediates of mixed key types, cross-signed CAs, precertificates with the poison at any position, signed directly or by a precertificate signing certificate with / without AKI - the latter forced in a third of the cases) handed to MerkleTreeLeafFromChain and MerkleTreeLeafFromRawChain; the leaf, LeafHashForLeaf and SerializeSCTSignatureInput must be the RFC bytes for the entry derived independently (internal/preref TBS transformation, issuer_key_hash of the final issuer). A third of the cases also build precert leaves alternately under two issuing CAs with different keys (p256/p384/p521/ed25519 pool) and the SAME subjectKeyIdentifier drawn from four values, so identifiers also recur across the cases of a process. Non-trivial: precertificate entries",
	Quick: 500, Thorough: 4000, MaxSample: 900,
}, genFromChain, checkFromChain)
