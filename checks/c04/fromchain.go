package c04

import (
	"testing"

	ct "github.com/google/certificate-transparency-go"
	cttls "github.com/google/certificate-transparency-go/tls"
	"github.com/google/certificate-transparency-go/x509"
	"pgregory.net/rapid"

	"verif/internal/harness"
	"verif/internal/rfc6962"
	"verif/internal/world"
)

// The repository's leaf constructors (MerkleTreeLeafFromChain / MerkleTreeLeafFromRawChain) on generated
// submission chains, with and without a precertificate signing certificate: the MerkleTreeLeaf they
// build, its leaf hash and the SCT signature input must be the bytes RFC 6962 s3.2 / s3.4 prescribe for the
// entry an independent client derives from the chain (world.Built.Entry: byte-level TBS transformation of
// internal/preref, issuer_key_hash = SHA-256 of the FINAL issuer's SubjectPublicKeyInfo).

type ChainCase struct {
	Spec      world.ChainSpec
	Timestamp uint64
	Ext       Blob // SCT extensions entering the signature input
}

func genFromChain(t *rapid.T) ChainCase {
	s := world.GenSpec(t, "spec")
	if pick(t, "force-preissuer", 3) == 0 { // the interesting shape: precert signed by a pre-issuer
		s.Precert, s.PreIssuer = true, true
	}
	return ChainCase{Spec: s, Timestamp: genU64(t, "ts"), Ext: genValidBlob(t, "ext", 0, false)}
}

func checkFromChain(t *testing.T, c ChainCase) (v harness.Verdict) {
	b := world.Build(c.Spec)
	entry := b.Entry()
	etype := ct.X509LogEntryType
	switch {
	case !c.Spec.Precert:
		v.Class("x509")
	case b.PreIssuer != nil:
		etype = ct.PrecertLogEntryType
		v.Class("precert:via-pre-issuer")
		v.NonTrivial = true
	default:
		etype = ct.PrecertLogEntryType
		v.Class("precert:direct")
		v.NonTrivial = true
	}
	if len(c.Spec.Inters) == 0 {
		v.Class("issuer-is-root")
	}
	want, err := rfc6962.EncodeLeaf(rfc6962.Leaf{Timestamp: c.Timestamp, Entry: entry})
	if err != nil {
		v.Discard = true
		return v
	}
	ext := c.Ext.Bytes()
	wantIn, err := rfc6962.SCTSignatureInput(0, c.Timestamp, entry, ext)
	if err != nil {
		v.Discard = true
		return v
	}
	wantHash := rfc6962.LeafHash(want)

	var parsed []*x509.Certificate
	raw := make([]ct.ASN1Cert, len(b.Full))
	for i, der := range b.Full {
		raw[i] = ct.ASN1Cert{Data: der}
		cert, perr := x509.ParseCertificate(der)
		if cert == nil {
			v.Failf("harness", "generated certificate %d does not parse: %v", i, perr)
			return v
		}
		parsed = append(parsed, cert)
	}
	judge := func(api string, leaf *ct.MerkleTreeLeaf, err error) {
		if err != nil || leaf == nil {
			v.Failf("fromchain-refused:"+api, "%s refused a valid %d-certificate chain (pre-issuer %v): %v", api, len(b.Full), b.PreIssuer != nil, err)
			return
		}
		got, merr := cttls.Marshal(*leaf)
		if !cmpEnc(&v, api, got, merr, want, nil) {
			if te := leaf.TimestampedEntry; te != nil && te.PrecertEntry != nil && te.PrecertEntry.IssuerKeyHash != entry.IssuerKeyHash {
				v.Failf("fromchain-issuer-key-hash:"+api, "%s: issuer_key_hash %x is not SHA-256 of the final issuer's SubjectPublicKeyInfo (%x); pre-issuer in chain: %v", api, te.PrecertEntry.IssuerKeyHash, entry.IssuerKeyHash, b.PreIssuer != nil)
			}
			return
		}
		if h, herr := ct.LeafHashForLeaf(leaf); herr != nil || h != wantHash {
			v.Failf("leafhash-value", "%s: LeafHashForLeaf = %x (%v), want %x", api, h, herr, wantHash)
		}
		sct := ct.SignedCertificateTimestamp{SCTVersion: ct.V1, Timestamp: c.Timestamp, Extensions: ct.CTExtensions(ext)}
		in, ierr := ct.SerializeSCTSignatureInput(sct, ct.LogEntry{Leaf: *leaf})
		cmpEnc(&v, "SCTSignatureInput("+api+")", in, ierr, wantIn, nil)
	}
	l1, e1 := ct.MerkleTreeLeafFromChain(parsed, etype, c.Timestamp)
	judge("MerkleTreeLeafFromChain", l1, e1)
	l2, e2 := ct.MerkleTreeLeafFromRawChain(raw, etype, c.Timestamp)
	judge("MerkleTreeLeafFromRawChain", l2, e2)
	return v
}

// FromChain is the leaf-constructor part of C04.
var FromChain = harness.Define(harness.Opts{
	Name:  "fromchain",
	Rule:  "a generated submission chain (internal/world: 4 roots, 0-3 intermediates of mixed key types, cross-signed CAs, precertificates with the poison at any position, signed directly or by a precertificate signing certificate with / without AKI - the latter forced in a third of the cases) handed to MerkleTreeLeafFromChain and MerkleTreeLeafFromRawChain; the leaf, LeafHashForLeaf and SerializeSCTSignatureInput must be the RFC bytes for the entry derived independently (internal/preref TBS transformation, issuer_key_hash of the final issuer). Non-trivial: precertificate entries",
	Quick: 500, Thorough: 4000, MaxSample: 900,
}, genFromChain, checkFromChain)
