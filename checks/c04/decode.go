package c04

import (
	"encoding/base64"
	"fmt"
	"strings"
	"testing"

	ct "github.com/google/certificate-transparency-go"
	cttls "github.com/google/certificate-transparency-go/tls"
	"github.com/google/certificate-transparency-go/x509"
	"github.com/google/certificate-transparency-go/x509util"
	"pgregory.net/rapid"

	"verif/internal/harness"
	"verif/internal/rfc6962"
)

// ---------------------------------------------------------------------------------------------
// Judges: one byte string into one family of decoders, compared with the reference decoder.
// They are shared by the rapid property and by the native fuzz target.

func clone(b []byte) []byte { return append([]byte{}, b...) }

// refDecodeLeaf is the reference decoder with the version octet treated as opaque when it is not v1
// (lenient=true): the statement names entry and leaf type codes and says nothing about leaf versions.
func refDecodeLeaf(data []byte) (l rfc6962.Leaf, rest []byte, err error, lenient bool) {
	if len(data) > 0 && data[0] != 0 {
		p := clone(data)
		p[0] = 0
		l, rest, err = rfc6962.DecodeLeaf(p)
		l.Version = data[0]
		return l, rest, err, true
	}
	l, rest, err = rfc6962.DecodeLeaf(data)
	return l, rest, err, false
}

// isJSONEntry: leaf_type 0 and entry_type 0x8000 at the RFC's fixed offsets - the repository's private
// JSONDataEntry extension.
func isJSONEntry(data []byte) bool {
	return len(data) >= 12 && data[1] == 0 && data[10] == 0x80 && data[11] == 0x00
}

func errStr(err error) string {
	if err == nil {
		return "accepted"
	}
	return "refused (" + err.Error() + ")"
}

func judgeLeaf(v *harness.Verdict, data []byte) {
	var got ct.MerkleTreeLeaf
	rest, err := cttls.Unmarshal(data, &got)
	if isJSONEntry(data) {
		v.Class("leaf:json-entry-excluded")
		return
	}
	want, wrest, werr, lenient := refDecodeLeaf(data)
	if lenient {
		v.Class("leaf:version!=0")
		if err != nil {
			return // refusing an unknown version is fine too
		}
	}
	switch {
	case err == nil && werr != nil:
		v.Class("leaf:ref-refuses")
		v.Failf("dec-accepts-invalid:MerkleTreeLeaf", "tls.Unmarshal(MerkleTreeLeaf) accepted %d bytes %x... that RFC 6962 s3.4 does not allow: %v", len(data), head(data, 48), werr)
	case err != nil && werr == nil:
		v.Class("leaf:ref-accepts")
		v.Failf("dec-refuses-valid:MerkleTreeLeaf", "tls.Unmarshal(MerkleTreeLeaf) refused a valid leaf (%d bytes %x...): %v", len(data), head(data, 48), err)
	case err == nil:
		v.Class("leaf:ref-accepts")
		b, why := refFromRepoLeaf(got)
		if why != "" || !eqLeaf(b, want) || len(rest) != len(wrest) {
			v.Failf("dec-value:MerkleTreeLeaf", "leaf %x... decoded differently: %s rest %d want %d; got %+v want %+v", head(data, 48), why, len(rest), len(wrest), short(b), short(want))
		}
	default:
		v.Class("leaf:ref-refuses")
	}
}

func short(l rfc6962.Leaf) string {
	return fmt.Sprintf("{v%d lt%d ts%d type%d cert[%d] tbs[%d] ext[%d]}", l.Version, l.LeafType, l.Timestamp, l.Entry.Type, len(l.Entry.Cert), len(l.Entry.TBS), len(l.Extensions))
}

// judgeRawEntry: RawLogEntryFromLeaf promises a complete parse of both parts.
func judgeRawEntry(v *harness.Verdict, leaf, extra []byte, index int64) {
	rle, err := ct.RawLogEntryFromLeaf(index, &ct.LeafEntry{LeafInput: leaf, ExtraData: extra})
	if isJSONEntry(leaf) {
		v.Class("rawentry:json-entry")
		if err == nil {
			v.Failf("rawentry-accepts-json-entry", "RawLogEntryFromLeaf accepted a leaf with the non-RFC entry type 0x8000")
		}
		return
	}
	want, wrest, werr, lenient := refDecodeLeaf(leaf)
	if werr == nil && len(wrest) != 0 {
		werr = fmt.Errorf("%d trailing bytes after MerkleTreeLeaf", len(wrest))
	}
	var wantCert []byte
	var wantChain [][]byte
	if werr == nil {
		var xrest []byte
		switch want.Entry.Type {
		case rfc6962.X509Entry:
			wantCert = want.Entry.Cert
			wantChain, xrest, werr = rfc6962.DecodeChain(extra)
		case rfc6962.PrecertEntry:
			wantCert, wantChain, xrest, werr = rfc6962.DecodePrecertChainEntry(extra)
		}
		if werr == nil && len(xrest) != 0 {
			werr = fmt.Errorf("%d trailing bytes after extra_data", len(xrest))
		}
	}
	if lenient {
		v.Class("rawentry:version!=0")
		if err != nil {
			return
		}
	}
	switch {
	case err == nil && werr != nil:
		v.Class("rawentry:ref-refuses")
		v.Failf("rawentry-accepts-invalid", "RawLogEntryFromLeaf accepted leaf_input %x... (%d bytes) / extra_data %x... (%d bytes): %v", head(leaf, 32), len(leaf), head(extra, 32), len(extra), werr)
	case err != nil && werr == nil:
		v.Class("rawentry:ref-accepts")
		v.Failf("rawentry-refuses-valid", "RawLogEntryFromLeaf refused a valid entry (leaf %d bytes, extra %d bytes): %v", len(leaf), len(extra), err)
	case err == nil:
		v.Class("rawentry:ref-accepts")
		b, why := refFromRepoLeaf(rle.Leaf)
		if why != "" || !eqLeaf(b, want) || rle.Index != index || !eqBytes(rle.Cert.Data, wantCert) || !eqList(certsData(rle.Chain), wantChain) {
			v.Failf("rawentry-value", "RawLogEntryFromLeaf returned a different entry: %s leaf %s want %s, cert %d bytes want %d, chain %d want %d", why, short(b), short(want), len(rle.Cert.Data), len(wantCert), len(rle.Chain), len(wantChain))
		}
	default:
		v.Class("rawentry:ref-refuses")
	}
}

// prefixVerdict compares a prefix decoder (value, rest) with the reference.
func prefixVerdict(v *harness.Verdict, what string, data []byte, err error, rest []byte, werr error, wrest []byte, same func() bool) {
	switch {
	case err == nil && werr != nil:
		v.Class(what + ":ref-refuses")
		v.Failf("dec-accepts-invalid:"+what, "tls.Unmarshal(%s) accepted %d bytes %x...: %v", what, len(data), head(data, 48), werr)
	case err != nil && werr == nil:
		v.Class(what + ":ref-accepts")
		v.Failf("dec-refuses-valid:"+what, "tls.Unmarshal(%s) refused valid input (%d bytes %x...): %v", what, len(data), head(data, 48), err)
	case err == nil:
		v.Class(what + ":ref-accepts")
		if len(rest) != len(wrest) || !same() {
			v.Failf("dec-value:"+what, "%s %x... (%d bytes) decoded to a different value (rest %d, want %d)", what, head(data, 48), len(data), len(rest), len(wrest))
		}
	default:
		v.Class(what + ":ref-refuses")
	}
}

// completeVerdict compares a decoder that promises a complete parse with "reference accepts and leaves nothing".
func completeVerdict(v *harness.Verdict, api string, data []byte, err error, werr error, wrest []byte, same func() bool) {
	if werr == nil && len(wrest) != 0 {
		werr = fmt.Errorf("%d trailing bytes", len(wrest))
	}
	switch {
	case err == nil && werr != nil:
		v.Failf("complete-accepts-invalid:"+api, "%s accepted %d bytes %x...: %v", api, len(data), head(data, 48), werr)
	case err != nil && werr == nil:
		v.Failf("complete-refuses-valid:"+api, "%s refused valid input (%d bytes %x...): %v", api, len(data), head(data, 48), err)
	case err == nil && !same():
		v.Failf("complete-value:"+api, "%s decoded %x... (%d bytes) to a different value", api, head(data, 48), len(data))
	}
}

func judgeSCT(v *harness.Verdict, data []byte) {
	want, wrest, werr := rfc6962.DecodeSCT(data)
	var got ct.SignedCertificateTimestamp
	rest, err := cttls.Unmarshal(data, &got)
	prefixVerdict(v, "SignedCertificateTimestamp", data, err, rest, werr, wrest, func() bool { return eqSCT(refFromRepoSCT(got), want) })
	ex, exErr := x509util.ExtractSCT(&x509.SerializedSCT{Val: data})
	completeVerdict(v, "ExtractSCT", data, exErr, werr, wrest, func() bool { return eqSCT(refFromRepoSCT(*ex), want) })
}

var validID = make([]byte, 32)

func judgeDS(v *harness.Verdict, data []byte) {
	want, wrest, werr := rfc6962.DecodeDS(data)
	var got cttls.DigitallySigned
	rest, err := cttls.Unmarshal(data, &got)
	prefixVerdict(v, "DigitallySigned", data, err, rest, werr, wrest, func() bool { return eqDS(refFromRepoDS(got), want) })

	b64 := base64.StdEncoding.EncodeToString(data)
	var d1 ct.DigitallySigned
	e1 := d1.FromBase64String(b64)
	completeVerdict(v, "DigitallySigned.FromBase64String", data, e1, werr, wrest, func() bool { return eqDS(refFromRepoDS(cttls.DigitallySigned(d1)), want) })
	var d2 ct.DigitallySigned
	e2 := d2.UnmarshalJSON([]byte(`"` + b64 + `"`))
	completeVerdict(v, "DigitallySigned.UnmarshalJSON", data, e2, werr, wrest, func() bool { return eqDS(refFromRepoDS(cttls.DigitallySigned(d2)), want) })

	// the same JSON string with its first character and every '/' escaped
	esc := strings.ReplaceAll(b64, "/", `\/`)
	if len(b64) > 0 {
		esc = fmt.Sprintf(`\u%04x`, b64[0]) + strings.ReplaceAll(b64[1:], "/", `\/`)
	}
	var d3 ct.DigitallySigned
	e5 := d3.UnmarshalJSON([]byte(`"` + esc + `"`))
	completeVerdict(v, "DigitallySigned.UnmarshalJSON(escaped)", data, e5, werr, wrest, func() bool { return eqDS(refFromRepoDS(cttls.DigitallySigned(d3)), want) })

	acr := ct.AddChainResponse{SCTVersion: ct.V1, ID: validID, Timestamp: 7, Extensions: "", Signature: data}
	sct, e3 := acr.ToSignedCertificateTimestamp()
	completeVerdict(v, "ToSignedCertificateTimestamp", data, e3, werr, wrest, func() bool { return eqDS(refFromRepoDS(cttls.DigitallySigned(sct.Signature)), want) })
	gsr := ct.GetSTHResponse{TreeSize: 1, Timestamp: 2, SHA256RootHash: validID, TreeHeadSignature: data}
	sth, e4 := gsr.ToSignedTreeHead()
	completeVerdict(v, "ToSignedTreeHead", data, e4, werr, wrest, func() bool {
		return eqDS(refFromRepoDS(cttls.DigitallySigned(sth.TreeHeadSignature)), want)
	})
}

func judgeChain(v *harness.Verdict, data []byte) {
	want, wrest, werr := rfc6962.DecodeChain(data)
	var got ct.CertificateChain
	rest, err := cttls.Unmarshal(data, &got)
	prefixVerdict(v, "CertificateChain", data, err, rest, werr, wrest, func() bool { return eqList(certsData(got.Entries), want) })
}

func judgePrechain(v *harness.Verdict, data []byte) {
	wpre, wchain, wrest, werr := rfc6962.DecodePrecertChainEntry(data)
	var got ct.PrecertChainEntry
	rest, err := cttls.Unmarshal(data, &got)
	prefixVerdict(v, "PrecertChainEntry", data, err, rest, werr, wrest, func() bool {
		return eqBytes(got.PreCertificate.Data, wpre) && eqList(certsData(got.CertificateChain), wchain)
	})
}

// judgeList: the reference decoder of the SCT list is a complete-parse decoder, so the prefix the TLS
// length field delimits is handed to it and the remainder is the expected rest.
func judgeList(v *harness.Verdict, data []byte) {
	var want [][]byte
	var wrest []byte
	werr := fmt.Errorf("truncated")
	body := -1
	if len(data) >= 2 {
		body = int(data[0])<<8 | int(data[1])
		if 2+body <= len(data) {
			want, werr = rfc6962.DecodeSCTList(data[:2+body])
			wrest = data[2+body:]
		}
	}
	var got x509.SignedCertificateTimestampList
	rest, err := cttls.Unmarshal(data, &got)
	if err != nil && werr == nil && d3Range(body) {
		v.Class("SignedCertificateTimestampList:ref-accepts")
		v.Failf("sctlist-maxlen", "tls.Unmarshal refused a valid SignedCertificateTimestampList with a %d-byte body (legal: <1..65535>): %v", body, err)
		return
	}
	prefixVerdict(v, "SignedCertificateTimestampList", data, err, rest, werr, wrest, func() bool {
		items := make([][]byte, len(got.SCTList))
		for i, s := range got.SCTList {
			items[i] = s.Val
		}
		return eqList(items, want)
	})
}

var decTargets = []string{"leaf", "rawentry", "sct", "ds", "chain", "prechain", "sctlist"}

// ---------------------------------------------------------------------------------------------
// The rapid property: valid encodings (built by the reference encoder) under byte-level and
// field-level mutations.

type field struct{ Off, W int }

// Mut is one mutation. Field >= 0 addresses the Field-th length field (Op "len") or type-code field
// (Op "code") of the base layout, modulo their number; otherwise Pos addresses a byte.
type Mut struct {
	Part  int    // rawentry: 0 = leaf_input, 1 = extra_data
	Op    string // len | code | append | truncate | set | insert | delete
	Field int
	Pos   int
	Val   int64
	Data  []byte `json:",omitempty"`
}

type DecCase struct {
	Target  string
	Leaf    *LeafSpec `json:",omitempty"`
	SCT     *SCTSpec  `json:",omitempty"`
	DS      *DSSpec   `json:",omitempty"`
	PreCert *Blob     `json:",omitempty"`
	Chain   []Blob    `json:",omitempty"`
	Items   []Blob    `json:",omitempty"`
	// certlist: the list items are these SCTs (reference-encoded) instead of Items; position of the extension
	ItemSCTs []SCTSpec `json:",omitempty"`
	ExtPos   int       `json:",omitempty"`
	// rawentry: pair the leaf with the extra data of the other entry type
	CrossExtra bool   `json:",omitempty"`
	UseRaw     bool   `json:",omitempty"` // random bytes instead of a structured base
	Raw        []byte `json:",omitempty"`
	RawExtra   []byte `json:",omitempty"`
	Index      int64  `json:",omitempty"`
	Muts       []Mut  `json:",omitempty"`
}

var validLens16 = []int{0, 1, 127, 128, 255, 256, 65534, 65535}
var validLens24 = []int{1, 127, 128, 255, 256, 65534, 65535, 65536}

// genValidLen: lengths the field admits, so that the base is a valid encoding.
func genValidLen(t *rapid.T, label string, min int, wide bool) int {
	switch k := pick(t, label+"-k", 10); {
	case k < 6:
		return rapid.IntRange(min, 40).Draw(t, label+"-small")
	case k < 9:
		b := validLens16
		if wide {
			b = validLens24
		}
		n := pickFrom(t, label+"-bound", b)
		if n < min {
			n = min
		}
		return n
	default:
		hi := 65535
		if wide {
			hi = 70000
		}
		return rapid.IntRange(min, hi).Draw(t, label+"-any")
	}
}

func genValidBlob(t *rapid.T, label string, min int, wide bool) Blob {
	return Blob{N: genValidLen(t, label, min, wide), Seed: rapid.Uint32().Draw(t, label+"-seed")}
}

func genValidLeaf(t *rapid.T) LeafSpec {
	l := LeafSpec{Timestamp: genU64(t, "ts"), Ext: genValidBlob(t, "ext", 0, false)}
	l.Entry.Type = uint16(pick(t, "etype", 2))
	l.Entry.IKH = rapid.Uint32().Draw(t, "ikh")
	if l.Entry.Type == 0 {
		l.Entry.Cert = genValidBlob(t, "cert", 1, true)
	} else {
		l.Entry.TBS = genValidBlob(t, "tbs", 1, true)
	}
	return l
}

func genValidChain(t *rapid.T) []Blob {
	n := 0
	if pick(t, "chain-empty", 5) != 4 {
		n = rapid.IntRange(1, 5).Draw(t, "chain-n")
	}
	out := make([]Blob, n)
	for i := range out {
		if pick(t, "chain-sp", 6) == 5 {
			out[i] = genValidBlob(t, fmt.Sprintf("chain%d", i), 1, true)
		} else {
			out[i] = genSmallBlob(t, fmt.Sprintf("chain%d", i), 1, 30)
		}
	}
	return out
}

func genMuts(t *rapid.T, parts int) []Mut {
	n := 1
	switch k := pick(t, "nmut", 10); {
	case k == 0:
		n = 0
	case k >= 8:
		n = rapid.IntRange(2, 3).Draw(t, "nmut-n")
	}
	ops := []string{"len", "len", "len", "code", "code", "append", "truncate", "set", "insert", "delete"}
	out := make([]Mut, n)
	for i := range out {
		m := Mut{Part: pick(t, "part", parts), Op: pickFrom(t, "op", ops), Field: rapid.IntRange(0, 12).Draw(t, "field"), Pos: rapid.IntRange(0, 70000).Draw(t, "pos")}
		switch m.Op {
		case "len":
			m.Val = pickFrom(t, "delta", []int64{1, -1, 2, -2, 3, 256, -256, 65536, 1 << 62, -(1 << 62)}) // the last two: set to max / to 0
		case "code":
			m.Val = int64(pickFrom(t, "code", []int{0, 1, 2, 3, 0x7f, 0x80, 0xff, 0x100, 0x7fff, 0x8000, 0xffff}))
		case "set":
			m.Val = int64(rapid.Byte().Draw(t, "byte"))
		case "delete":
			m.Val = int64(rapid.IntRange(1, 3).Draw(t, "ndel"))
		case "append", "insert":
			m.Data = rapid.SliceOfN(rapid.Byte(), 1, 4).Draw(t, "data")
		}
		out[i] = m
	}
	return out
}

func genDec(t *rapid.T) DecCase {
	c := DecCase{Target: pickFrom(t, "target", []string{"leaf", "leaf", "rawentry", "rawentry", "rawentry", "sct", "sct", "ds", "chain", "prechain", "sctlist", "sctlist", "certlist", "certlist"})}
	if pick(t, "rawbase", 12) == 11 {
		c.Raw = rapid.SliceOfN(rapid.Byte(), 0, 60).Draw(t, "raw")
		if c.Target == "rawentry" {
			c.RawExtra = rapid.SliceOfN(rapid.Byte(), 0, 30).Draw(t, "rawextra")
		}
		c.UseRaw = true
		c.Muts = genMuts(t, 1)
		return c
	}
	parts := 1
	switch c.Target {
	case "leaf":
		l := genValidLeaf(t)
		c.Leaf = &l
	case "rawentry":
		l := genValidLeaf(t)
		c.Leaf = &l
		p := genValidBlob(t, "precert", 1, true)
		c.PreCert = &p
		c.Chain = genValidChain(t)
		c.CrossExtra = pick(t, "cross", 12) == 11
		c.Index = rapid.Int64().Draw(t, "index")
		parts = 2
	case "sct":
		s := SCTSpec{Version: genEnum8(t, "ver", 8), LogID: rapid.Uint32().Draw(t, "id"), Timestamp: genU64(t, "ts"), Ext: genValidBlob(t, "ext", 0, false)}
		s.DS = DSSpec{Hash: rapid.Uint8().Draw(t, "hash"), Sig: rapid.Uint8().Draw(t, "alg"), Signature: genValidBlob(t, "sig", 0, false)}
		c.SCT = &s
	case "ds":
		c.DS = &DSSpec{Hash: rapid.Uint8().Draw(t, "hash"), Sig: rapid.Uint8().Draw(t, "alg"), Signature: genValidBlob(t, "sig", 0, false)}
	case "chain":
		c.Chain = genValidChain(t)
	case "prechain":
		p := genValidBlob(t, "precert", 1, true)
		c.PreCert = &p
		c.Chain = genValidChain(t)
	case "sctlist", "certlist":
		if c.Target == "certlist" {
			c.ExtPos = rapid.IntRange(0, 5).Draw(t, "extpos")
			if pick(t, "typed", 3) != 0 {
				for i, n := 0, rapid.IntRange(1, 3).Draw(t, "nsct"); i < n; i++ {
					c.ItemSCTs = append(c.ItemSCTs, SCTSpec{Version: genEnum8(t, "ver", 9), LogID: rapid.Uint32().Draw(t, "id"), Timestamp: genU64(t, "ts"),
						Ext: genSmallBlob(t, "ext", 0, 12), DS: DSSpec{Hash: 4, Sig: 3, Signature: genSmallBlob(t, "sig", 0, 72)}})
				}
				break
			}
		}
		n := rapid.IntRange(1, 4).Draw(t, "n")
		budget := 65535
		if k := pick(t, "list-total", 4); k >= 2 { // steer the body to the top of the legal range
			total := pickFrom(t, "total", []int{65335, 65336, 65400, 65534, 65535})
			used := 0
			for i := 0; i < n-1; i++ {
				b := genSmallBlob(t, fmt.Sprintf("item%d", i), 1, 40)
				used += 2 + b.N
				c.Items = append(c.Items, b)
			}
			c.Items = append(c.Items, Blob{N: total - used - 2, Seed: rapid.Uint32().Draw(t, "last-seed")})
		} else {
			for i := 0; i < n; i++ {
				b := genSmallBlob(t, fmt.Sprintf("item%d", i), 1, 60)
				if pick(t, "item-big", 8) == 7 {
					b.N = genValidLen(t, "item-len", 1, false)
				}
				if budget-2-b.N < 0 {
					b.N = 1
				}
				budget -= 2 + b.N
				c.Items = append(c.Items, b)
			}
		}
	}
	c.Muts = genMuts(t, parts)
	return c
}

func u24(n int) []byte { return []byte{byte(n >> 16), byte(n >> 8), byte(n)} }

// chainLayout lists the length fields of `ASN.1Cert chain<0..2^24-1>` that starts at base.
func chainLayout(base int, chain [][]byte) (lens []field) {
	lens = append(lens, field{base, 3})
	off := base + 3
	for _, c := range chain {
		lens = append(lens, field{off, 3})
		off += 3 + len(c)
	}
	return lens
}

// build returns the base byte strings of the case and where their length and type-code fields are
// (derived from the RFC's layout and the drawn sizes, not from any decoder).
func (c DecCase) build() (parts [][]byte, lens, codes [][]field, err error) {
	if c.UseRaw {
		parts = [][]byte{clone(c.Raw)}
		lens, codes = [][]field{nil}, [][]field{nil}
		if c.Target == "rawentry" {
			parts = append(parts, clone(c.RawExtra))
			lens, codes = append(lens, nil), append(codes, nil)
		}
		return
	}
	leafLayout := func(l LeafSpec, b []byte) ([]field, []field) {
		cs := []field{{0, 1}, {1, 1}, {10, 2}}
		var ls []field
		if l.Entry.Type == 0 {
			ls = append(ls, field{12, 3})
		} else {
			ls = append(ls, field{44, 3})
		}
		ls = append(ls, field{len(b) - 2 - l.Ext.N, 2})
		return ls, cs
	}
	switch c.Target {
	case "leaf", "rawentry":
		b, e := rfc6962.EncodeLeaf(c.Leaf.ref())
		if e != nil {
			return nil, nil, nil, e
		}
		ls, cs := leafLayout(*c.Leaf, b)
		parts, lens, codes = [][]byte{b}, [][]field{ls}, [][]field{cs}
		if c.Target == "rawentry" {
			chain := blobsBytes(c.Chain)
			asPrecert := (c.Leaf.Entry.Type == 1) != c.CrossExtra
			var x []byte
			var xl []field
			if asPrecert {
				pre := c.PreCert.Bytes()
				x, e = rfc6962.EncodePrecertChainEntry(pre, chain)
				xl = append([]field{{0, 3}}, chainLayout(3+len(pre), chain)...)
			} else {
				x, e = rfc6962.EncodeChain(chain)
				xl = chainLayout(0, chain)
			}
			if e != nil {
				return nil, nil, nil, e
			}
			parts, lens, codes = append(parts, x), append(lens, xl), append(codes, nil)
		}
	case "sct":
		b, e := rfc6962.EncodeSCT(c.SCT.ref())
		if e != nil {
			return nil, nil, nil, e
		}
		x := c.SCT.Ext.N
		parts, lens, codes = [][]byte{b}, [][]field{{{41, 2}, {45 + x, 2}}}, [][]field{{{0, 1}, {43 + x, 1}, {44 + x, 1}}}
	case "ds":
		b, e := rfc6962.EncodeDS(c.DS.ref())
		if e != nil {
			return nil, nil, nil, e
		}
		parts, lens, codes = [][]byte{b}, [][]field{{{2, 2}}}, [][]field{{{0, 1}, {1, 1}}}
	case "chain":
		chain := blobsBytes(c.Chain)
		b, e := rfc6962.EncodeChain(chain)
		if e != nil {
			return nil, nil, nil, e
		}
		parts, lens, codes = [][]byte{b}, [][]field{chainLayout(0, chain)}, [][]field{nil}
	case "prechain":
		chain := blobsBytes(c.Chain)
		pre := c.PreCert.Bytes()
		b, e := rfc6962.EncodePrecertChainEntry(pre, chain)
		if e != nil {
			return nil, nil, nil, e
		}
		parts, lens, codes = [][]byte{b}, [][]field{append([]field{{0, 3}}, chainLayout(3+len(pre), chain)...)}, [][]field{nil}
	case "sctlist", "certlist":
		items := blobsBytes(c.Items)
		for _, sp := range c.ItemSCTs {
			it, e := rfc6962.EncodeSCT(sp.ref())
			if e != nil {
				return nil, nil, nil, e
			}
			items = append(items, it)
		}
		b, e := rfc6962.EncodeSCTList(items)
		if e != nil {
			return nil, nil, nil, e
		}
		ls := []field{{0, 2}}
		off := 2
		for _, it := range items {
			ls = append(ls, field{off, 2})
			off += 2 + len(it)
		}
		parts, lens, codes = [][]byte{b}, [][]field{ls}, [][]field{nil}
	default:
		return nil, nil, nil, fmt.Errorf("unknown target %q", c.Target)
	}
	return
}

func getField(b []byte, f field) (uint64, bool) {
	if f.Off < 0 || f.Off+f.W > len(b) {
		return 0, false
	}
	var x uint64
	for i := 0; i < f.W; i++ {
		x = x<<8 | uint64(b[f.Off+i])
	}
	return x, true
}

func putField(b []byte, f field, x uint64) {
	for i := f.W - 1; i >= 0; i-- {
		b[f.Off+i] = byte(x)
		x >>= 8
	}
}

// apply performs the mutations in order. Field offsets refer to the unmutated layout, so after an
// insert / delete / truncate they may point elsewhere - that merely yields a different mutation.
func apply(b []byte, lens, codes []field, m Mut) ([]byte, string) {
	switch m.Op {
	case "len":
		if len(lens) == 0 {
			return b, ""
		}
		f := lens[m.Field%len(lens)]
		x, ok := getField(b, f)
		if !ok {
			return b, ""
		}
		mask := uint64(1)<<(8*f.W) - 1
		switch m.Val {
		case 1 << 62:
			x = mask
		case -(1 << 62):
			x = 0
		default:
			x = uint64(int64(x)+m.Val) & mask
		}
		putField(b, f, x)
		return b, "mut:length-field"
	case "code":
		if len(codes) == 0 {
			return b, ""
		}
		f := codes[m.Field%len(codes)]
		if _, ok := getField(b, f); !ok {
			return b, ""
		}
		putField(b, f, uint64(m.Val)&(uint64(1)<<(8*f.W)-1))
		return b, "mut:type-code"
	case "append":
		return append(b, m.Data...), "mut:append"
	case "truncate":
		if len(b) == 0 {
			return b, ""
		}
		cut := m.Pos % len(b)
		if m.Pos%3 == 0 { // often just the last few bytes
			cut = len(b) - 1 - (m.Pos/3)%4
			if cut < 0 {
				cut = 0
			}
		}
		return b[:cut], "mut:truncate"
	case "set":
		if len(b) == 0 {
			return b, ""
		}
		i := m.Pos % len(b)
		if len(b) > 64 && m.Pos%2 == 0 {
			i = m.Pos % 64 // headers are at the front
		}
		b[i] = byte(m.Val)
		return b, "mut:set-byte"
	case "insert":
		i := m.Pos % (len(b) + 1)
		out := append(clone(b[:i]), m.Data...)
		return append(out, b[i:]...), "mut:insert"
	case "delete":
		if len(b) == 0 {
			return b, ""
		}
		i := m.Pos % len(b)
		j := i + int(m.Val)
		if j > len(b) {
			j = len(b)
		}
		return append(clone(b[:i]), b[j:]...), "mut:delete"
	}
	return b, ""
}

func checkDec(t *testing.T, c DecCase) (v harness.Verdict) {
	parts, lens, codes, err := c.build()
	if err != nil {
		v.Discard = true
		return v
	}
	v.Class("target:" + c.Target)
	if c.UseRaw {
		v.Class("base:random-bytes")
		v.NonTrivial = true
	}
	for _, p := range parts {
		if isBoundary(len(p)) {
			v.NonTrivial = true
		}
	}
	for _, b := range []*Blob{c.PreCert} {
		if b != nil && isBoundary(b.N) {
			v.NonTrivial = true
		}
	}
	for _, m := range c.Muts {
		p := m.Part % len(parts)
		var cl string
		parts[p], cl = apply(parts[p], lens[p], codes[p], m)
		if cl != "" {
			v.Class(cl)
			v.NonTrivial = true
		}
	}
	if len(c.Muts) == 0 {
		v.Class("mut:none")
	}
	switch c.Target {
	case "leaf":
		judgeLeaf(&v, parts[0])
	case "rawentry":
		if c.CrossExtra {
			v.Class("rawentry:extra-of-other-type")
		}
		judgeRawEntry(&v, parts[0], parts[1], c.Index)
	case "sct":
		judgeSCT(&v, parts[0])
	case "ds":
		judgeDS(&v, parts[0])
	case "chain":
		judgeChain(&v, parts[0])
	case "prechain":
		judgePrechain(&v, parts[0])
	case "sctlist":
		judgeList(&v, parts[0])
	case "certlist":
		if len(c.ItemSCTs) > 0 {
			v.Class("certlist:items-are-scts")
		}
		judgeCertList(&v, parts[0], c.ExtPos)
	}
	return v
}

// Decode is the bytes-to-value half of C04.
var Decode = harness.Define(harness.Opts{
	Name:  "decode",
	Rule:  "a valid encoding built by the reference encoder (leaf, leaf + extra_data, SCT, DigitallySigned, certificate chain, PrecertChainEntry, SCT list, SCT list embedded in the SCT-list extension of an otherwise valid generated certificate; element sizes from 0..40, the RFC boundaries up to 65536 and anything up to 70000; SCT list bodies steered to 65335..65535) or 0..60 random bytes, under 0-3 mutations: length field +-1/+-2/+3/+-256/+65536/max/0, type-code fields (version, leaf type, entry type, algorithm octets) set to {0,1,2,3,0x7f,0x80,0xff,0x100,0x7fff,0x8000,0xffff}, append, truncate, set byte, insert, delete. tls.Unmarshal / RawLogEntryFromLeaf / ExtractSCT / FromBase64String / UnmarshalJSON / ToSignedCertificateTimestamp / ToSignedTreeHead / x509.ParseCertificate (no error at all and cert.SCTList populated) / x509util.ParseSCTsFromCertificate accept <=> internal/rfc6962 accepts (with nothing left over where the API promises a complete parse), with equal values and equal rest. Non-trivial: mutated, random base, or a part whose length is at a 1/2/3-byte boundary",
	Quick: 6000, Thorough: 40000, MaxSample: 700,
}, genDec, checkDec)
