package c01

import (
	"bytes"
	"crypto/sha256"
	"encoding/base64"
	"encoding/json"
	"fmt"
	"sync"
	"testing"
	"time"

	"pgregory.net/rapid"

	"verif/internal/ctfex"
	"verif/internal/harness"
	"verif/internal/keys"
	"verif/internal/reflog"
	"verif/internal/rfc6962"
	"verif/internal/world"
)

// ConcCase: several entries logged once, then many goroutines resubmit them at the same time. Every
// answer must be the SCT of the entry that was submitted in THAT request, at its first timestamp.
type ConcCase struct {
	Specs      []world.ChainSpec
	Workers    int
	PerWorker  int
	QuotaUsers bool
}

func genConc(t *rapid.T) ConcCase {
	c := ConcCase{Workers: rapid.IntRange(2, 8).Draw(t, "workers"), PerWorker: rapid.IntRange(20, 120).Draw(t, "per"), QuotaUsers: rapid.Bool().Draw(t, "quota")}
	n := rapid.IntRange(2, 6).Draw(t, "n")
	for i := 0; i < n; i++ {
		c.Specs = append(c.Specs, world.GenSpec(t, fmt.Sprintf("c%d", i)))
	}
	return c
}

func checkConc(t *testing.T, c ConcCase) (v harness.Verdict) {
	logKey := keys.Pick("p256", 2)
	be := reflog.New(6962, 1)
	clock := ctfex.NewClock(time.UnixMilli(1650000000000))
	inst, err := ctfex.New(ctfex.Opts{LogKey: logKey, Roots: world.Roots(), Backend: be, Clock: clock, Inst: quotaOpts(c.QuotaUsers)})
	if err != nil {
		t.Fatalf("instance: %v", err)
	}
	type logged struct {
		b     *world.Built
		path  string
		body  []byte
		ts    uint64
		input func(ts uint64, ext []byte) []byte
	}
	var items []logged
	for i, s := range c.Specs {
		b := world.Build(s)
		path := "/ct/v1/add-chain"
		if s.Precert {
			path = "/ct/v1/add-pre-chain"
		}
		clock.Add(time.Duration(i+1) * 7 * time.Millisecond)
		body := body(b.Submit)
		rsp := inst.Post(path, body)
		var r addChainRsp
		if rsp.Status != 200 || json.Unmarshal(rsp.Body, &r) != nil || r.Timestamp == nil {
			v.Failf("valid-chain-refused", "item %d: %d %s", i, rsp.Status, rsp.Body)
			return v
		}
		entry := b.Entry()
		items = append(items, logged{b: b, path: path, body: body, ts: *r.Timestamp, input: func(ts uint64, ext []byte) []byte {
			in, _ := rfc6962.SCTSignatureInput(0, ts, entry, ext)
			return in
		}})
	}
	clock.Add(time.Hour) // resubmissions happen at a later clock: a fresh timestamp would be visible
	wantID := sha256.Sum256(logKey.SPKI)
	var mu sync.Mutex
	var wg sync.WaitGroup
	for w := 0; w < c.Workers; w++ {
		wg.Add(1)
		go func(w int) {
			defer wg.Done()
			for k := 0; k < c.PerWorker; k++ {
				it := items[(w*7+k*3+k/5)%len(items)]
				rsp := inst.Post(it.path, it.body)
				var r addChainRsp
				fail := func(sig, f string, a ...any) { mu.Lock(); v.Failf(sig, f, a...); mu.Unlock() }
				if rsp.Status != 200 || json.Unmarshal(rsp.Body, &r) != nil || r.Timestamp == nil || r.Signature == nil || r.ID == nil || r.Extensions == nil {
					fail("concurrent-resubmission-refused", "resubmission answered %d %q", rsp.Status, rsp.Body)
					return
				}
				if *r.Timestamp != it.ts {
					fail("duplicate-timestamp", "concurrent resubmission of entry (first timestamp %d) got timestamp %d", it.ts, *r.Timestamp)
				}
				id, _ := base64.StdEncoding.DecodeString(*r.ID)
				ext, _ := base64.StdEncoding.DecodeString(*r.Extensions)
				sigb, _ := base64.StdEncoding.DecodeString(*r.Signature)
				if !bytes.Equal(id, wantID[:]) {
					fail("log-id", "wrong log id under concurrency")
				}
				ds, rest, err := rfc6962.DecodeDS(sigb)
				if err != nil || len(rest) != 0 {
					fail("bad-signature-encoding", "signature field: %v", err)
					return
				}
				if err := verifySig(logKey.Pub, ds, it.input(*r.Timestamp, ext)); err != nil {
					fail("sct-signature", "under %d concurrent submitters the SCT returned for an entry does not verify over THAT entry at timestamp %d (another entry's SCT?): %v", c.Workers, *r.Timestamp, err)
				}
			}
		}(w)
	}
	wg.Wait()
	v.NonTrivial = true
	v.Class(fmt.Sprintf("workers:%d", c.Workers))
	return v
}

// Concurrent is the concurrent-resubmission sub-property of C01.
var Concurrent = harness.Define(harness.Opts{
	Name:  "concurrent-resubmit",
	Rule:  "2-6 generated chains logged once, then 2-8 goroutines resubmit them 20-120 times each at the same time at a later clock; every answer must carry the log id, the first submission's timestamp and a signature that verifies over the entry submitted in that very request. Every case is non-trivial",
	Quick: 40, Thorough: 300,
}, genConc, checkConc)
