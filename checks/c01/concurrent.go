package c01

import (
	"bytes"
	"crypto/sha256"
	"encoding/base64"
	"encoding/json"
	"fmt"
	"sync"
	"testing"
	"time"

	"google.golang.org/protobuf/proto"
	"pgregory.net/rapid"

	"verif/internal/ctfex"
	"verif/internal/harness"
	"verif/internal/keys"
	"verif/internal/reflog"
	"verif/internal/rfc6962"
	"verif/internal/world"
)

// ConcCase: several entries logged once, then many goroutines resubmit them at the same time. Every
// answer must be the SCT of the entry that was submitted in THAT request, at its first timestamp.
type ConcCase struct {
	Specs      []world.ChainSpec
	Workers    int
	PerWorker  int
	QuotaUsers bool
	// Twin: a second log (own key, own backend, own clock) is served by the same process; the same chains are
	// logged in both and resubmitted to both at the same time, while each backend takes a moment per write.
	Twin bool
}

func genConc(t *rapid.T) ConcCase {
	c := ConcCase{Workers: rapid.IntRange(2, 8).Draw(t, "workers"), PerWorker: rapid.IntRange(20, 120).Draw(t, "per"), QuotaUsers: rapid.Bool().Draw(t, "quota")}
	n := rapid.IntRange(2, 6).Draw(t, "n")
	for i := 0; i < n; i++ {
		c.Specs = append(c.Specs, world.GenSpecX(t, fmt.Sprintf("c%d", i)))
	}
	c.Twin = rapid.Bool().Draw(t, "twin")
	return c
}

func checkConc(t *testing.T, c ConcCase) (v harness.Verdict) {
	type logged struct {
		path  string
		body  []byte
		ts    uint64
		input func(ts uint64, ext []byte) []byte
	}
	type logInst struct {
		key   *keys.Key
		inst  *ctfex.Instance
		items []logged
		id    [32]byte
	}
	nLogs := 1
	if c.Twin {
		nLogs = 2
		v.Class("two-logs-in-one-process")
	}
	var logs []*logInst
	for l := 0; l < nLogs; l++ {
		lg := &logInst{key: keys.Pick("p256", 2+5*l)}
		be := reflog.New(int64(6962+l), 1)
		if c.Twin {
			// each write takes the backend a moment, so that requests for the same certificate overlap in the two logs
			be.Intercept = func(call reflog.Call) (proto.Message, error, bool) {
				if call.RPC == "QueueLeaf" {
					time.Sleep(300 * time.Microsecond)
				}
				return nil, nil, false
			}
		}
		clock := ctfex.NewClock(time.UnixMilli(1650000000000 + int64(l)*86400000))
		inst, err := ctfex.New(ctfex.Opts{LogKey: lg.key, Roots: world.Roots(), Backend: be, Clock: clock, Inst: quotaOpts(c.QuotaUsers), Prefix: fmt.Sprintf("log%d", l)})
		if err != nil {
			t.Fatalf("instance: %v", err)
		}
		lg.inst = inst
		lg.id = sha256.Sum256(lg.key.SPKI)
		seen := map[string]uint64{}
		for i, s := range c.Specs {
			b := world.Build(s)
			path := "/ct/v1/add-chain"
			if b.Spec.Precert {
				path = "/ct/v1/add-pre-chain"
			}
			clock.Add(time.Duration(i+1) * 7 * time.Millisecond)
			body := body(b.Submit)
			rsp := inst.Post(path, body)
			var r addChainRsp
			if rsp.Status != 200 || json.Unmarshal(rsp.Body, &r) != nil || r.Timestamp == nil {
				v.Failf("valid-chain-refused", "log %d item %d: %d %s", l, i, rsp.Status, rsp.Body)
				return v
			}
			ts := *r.Timestamp
			if first, ok := seen[string(b.Leaf.DER)]; ok {
				ts = first // the same certificate again (a root on its own): the first timestamp stands
			} else {
				seen[string(b.Leaf.DER)] = ts
			}
			entry := b.Entry()
			lg.items = append(lg.items, logged{path: path, body: body, ts: ts, input: func(ts uint64, ext []byte) []byte {
				in, _ := rfc6962.SCTSignatureInput(0, ts, entry, ext)
				return in
			}})
		}
		clock.Add(time.Hour) // resubmissions happen at a later clock: a fresh timestamp would be visible
		logs = append(logs, lg)
	}
	var mu sync.Mutex
	var wg sync.WaitGroup
	for w := 0; w < c.Workers; w++ {
		wg.Add(1)
		go func(w int) {
			defer wg.Done()
			for k := 0; k < c.PerWorker; k++ {
				// the workers walk the items in step, alternating between the logs, so that the same certificate is
				// in flight in both logs at once
				lg := logs[(w+k/2)%len(logs)]
				n := (k*3 + k/5) % len(lg.items)
				if !c.Twin {
					n = (w*7 + k*3 + k/5) % len(lg.items)
				}
				it := lg.items[n]
				rsp := lg.inst.Post(it.path, it.body)
				var r addChainRsp
				fail := func(sig, f string, a ...any) { mu.Lock(); v.Failf(sig, f, a...); mu.Unlock() }
				if rsp.Status != 200 || json.Unmarshal(rsp.Body, &r) != nil || r.Timestamp == nil || r.Signature == nil || r.ID == nil || r.Extensions == nil {
					fail("concurrent-resubmission-refused", "resubmission answered %d %q", rsp.Status, rsp.Body)
					return
				}
				if *r.Timestamp != it.ts {
					fail("duplicate-timestamp", "concurrent resubmission of entry (first timestamp in this log %d) got timestamp %d", it.ts, *r.Timestamp)
				}
				id, _ := base64.StdEncoding.DecodeString(*r.ID)
				ext, _ := base64.StdEncoding.DecodeString(*r.Extensions)
				sigb, _ := base64.StdEncoding.DecodeString(*r.Signature)
				if !bytes.Equal(id, lg.id[:]) {
					fail("log-id", "wrong log id under concurrency")
				}
				ds, rest, err := rfc6962.DecodeDS(sigb)
				if err != nil || len(rest) != 0 {
					fail("bad-signature-encoding", "signature field: %v", err)
					return
				}
				if err := verifySig(lg.key.Pub, ds, it.input(*r.Timestamp, ext)); err != nil {
					fail("sct-signature", "under %d concurrent submitters the SCT returned for an entry does not verify over THAT entry at timestamp %d (another entry's SCT?): %v", c.Workers, *r.Timestamp, err)
				}
			}
		}(w)
	}
	wg.Wait()
	v.NonTrivial = true
	v.Class(fmt.Sprintf("workers:%d", c.Workers))
	return v
}

// Concurrent is the concurrent-resubmission sub-property of C01.
var Concurrent = harness.Define(harness.Opts{
	Name:  "concurrent-resubmit",
	Rule:  "2-6 generated chains logged once - in half of the cases in two logs (own keys, backends that take 0.3 ms per write, clocks a day apart) served by one process - then 2-8 goroutines resubmit them 20-120 times each at the same time at a later clock, the same certificate to both logs at once; every answer must carry the log id, the first submission's timestamp and a signature that verifies over the entry submitted in that very request. Every case is non-trivial",
	Quick: 40, Thorough: 300,
}, genConc, checkConc)
