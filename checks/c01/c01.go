// Package c01: an issued SCT binds exactly the submitted entry, the stored leaf and the log key.
package c01

import (
	"bytes"
	"crypto"
	"crypto/ecdsa"
	"crypto/ed25519"
	"crypto/rsa"
	"crypto/sha256"
	"encoding/base64"
	"encoding/json"
	"errors"
	"fmt"
	"io"
	"net/http"
	"strings"
	"testing"
	"testing/iotest"
	"time"

	"github.com/google/certificate-transparency-go/trillian/ctfe"
	"github.com/google/certificate-transparency-go/x509"
	"github.com/google/trillian"
	"google.golang.org/grpc/codes"
	"google.golang.org/grpc/status"
	"google.golang.org/protobuf/proto"
	"pgregory.net/rapid"

	"verif/internal/ctfex"
	"verif/internal/derx"
	"verif/internal/harness"
	"verif/internal/keys"
	"verif/internal/memstore"
	"verif/internal/pki"
	"verif/internal/reflog"
	"verif/internal/rfc6962"
	"verif/internal/world"
)

type Step struct {
	Kind      string // fresh | resubmit | advance | sequence | foreign (a fresh chain whose entry another front end logged before, with SCT extensions)
	Spec      *world.ChainSpec
	Ref       int   // resubmit: index (mod count) into earlier fresh submissions
	FlipRoot  bool  // resubmit with the root included / omitted the other way round
	AltPath   bool  // resubmit the same certificate through another valid chain, where there is one (cross-signed CA: the path to the other root; twin of a root in the chain: the chain without it)
	AdvanceNs int64 // advance
	SeqN      int   // sequence: how many pending leaves (-1 all)
	Ext       []byte // foreign: the CtExtensions of the stored entry
	// FailFirst > 0 (fresh): a first attempt meets a backend that fails QueueLeaf (1 Unavailable, 2 DeadlineExceeded,
	// 3 Internal, 4 a plain error); the clock then moves on by a millisecond or more and the chain is submitted again
	FailFirst int
}

type Case struct {
	LogKeyKind string
	LogKeyIdx  int
	ClockNs    int64
	Steps      []Step
	QuotaUsers bool // configure RemoteQuotaUser and CertificateQuotaUser (per-issuer quota charging)
	Indirect   bool // external issuance-chain storage: the backend leaf carries the hash of the chain, the chain goes to storage
	// BrokenWrites lists (as indices into the sequence of submissions) requests whose client hangs up: the
	// response write fails. Whatever happens to them, later answers must be untouched by it.
	BrokenWrites []int
	// DupAsError: the backend reports a duplicate as a gRPC AlreadyExists error instead of returning the stored
	// leaf; the front end then has no stored timestamp to repeat and must not answer 200 with a new one.
	DupAsError bool
	// BodyStyle re-spells the JSON request body without changing what it says (1: indented with white space
	// around it, 2: unknown members before and after "chain", 3: "/" and "+" of the base64 text written as JSON
	// escapes, 4: the member name written with an escape). Dribble: the body arrives with unknown length,
	// one octet per read.
	BodyStyle int
	Dribble   bool
	// Verbosity is the process-wide klog -v level (0 default; debug logging must not change what is logged in the log)
	Verbosity int
}

// ed25519 is not an RFC 6962 log key type: a log so configured may refuse to issue, but if it answers 200
// the SCT must verify like any other.
var logKinds = []string{"p256", "p256", "p384", "rsa2048", "rsa3072", "ed25519"}

func gen(t *rapid.T) Case {
	c := Case{LogKeyKind: rapid.SampledFrom(logKinds).Draw(t, "logkey"), LogKeyIdx: rapid.IntRange(0, 3).Draw(t, "logkeyidx")}
	// any instant from 1970 to ~2200 with sub-millisecond parts
	c.ClockNs = rapid.Int64Range(0, 7258118400).Draw(t, "sec")*1e9 + rapid.Int64Range(0, 999999999).Draw(t, "ns")
	c.QuotaUsers = rapid.Bool().Draw(t, "quota")
	c.Indirect = rapid.IntRange(0, 3).Draw(t, "indirect") == 0
	for i, nb := 0, rapid.IntRange(0, 2).Draw(t, "nbroken"); i < nb; i++ {
		c.BrokenWrites = append(c.BrokenWrites, rapid.IntRange(0, 6).Draw(t, "broken"))
	}
	if rapid.IntRange(0, 2).Draw(t, "verbose") == 0 {
		c.Verbosity = rapid.IntRange(1, 5).Draw(t, "v")
	}
	if rapid.IntRange(0, 2).Draw(t, "respell") == 0 {
		c.BodyStyle = rapid.IntRange(1, 4).Draw(t, "bodystyle")
	}
	c.Dribble = rapid.IntRange(0, 3).Draw(t, "dribble") == 0
	c.DupAsError = rapid.IntRange(0, 7).Draw(t, "duperr") == 0
	n := rapid.IntRange(1, 8).Draw(t, "steps")
	fresh := 0
	for i := 0; i < n; i++ {
		k := rapid.IntRange(0, 9).Draw(t, "kind")
		switch {
		case k <= 4 || fresh == 0:
			s := world.GenSpecX(t, fmt.Sprintf("s%d", i))
			st := Step{Kind: "fresh", Spec: &s}
			if rapid.IntRange(0, 7).Draw(t, "failfirst") == 0 {
				st.FailFirst, st.AdvanceNs = rapid.IntRange(1, 4).Draw(t, "ffkind"), rapid.Int64Range(1e6, 5e9).Draw(t, "ffadv")
			}
			c.Steps = append(c.Steps, st)
			fresh++
		case k <= 6:
			if rapid.IntRange(0, 9).Draw(t, "advfirst") < 7 {
				c.Steps = append(c.Steps, Step{Kind: "advance", AdvanceNs: signed(t, rapid.Int64Range(1e6, 90e9).Draw(t, "adv2"))})
			}
			c.Steps = append(c.Steps, Step{Kind: "resubmit", Ref: rapid.IntRange(0, 7).Draw(t, "ref"), FlipRoot: rapid.Bool().Draw(t, "flip"), AltPath: rapid.Bool().Draw(t, "altpath")})
		case k <= 8:
			c.Steps = append(c.Steps, Step{Kind: "advance", AdvanceNs: signed(t, rapid.Int64Range(1, 90e9).Draw(t, "adv"))})
		default:
			if rapid.Bool().Draw(t, "foreign") {
				s := world.GenSpecX(t, fmt.Sprintf("f%d", i))
				c.Steps = append(c.Steps, Step{Kind: "foreign", Spec: &s, AdvanceNs: rapid.Int64Range(1, 90e9).Draw(t, "ago"), Ext: rapid.SliceOfN(rapid.Byte(), 0, 40).Draw(t, "ext")})
				continue
			}
			c.Steps = append(c.Steps, Step{Kind: "sequence", SeqN: rapid.IntRange(-1, 3).Draw(t, "seqn")})
		}
	}
	return c
}

// signed makes one clock step in four go backwards: front ends of one log do not share a clock, and a
// clock may be stepped back; "all clock values" includes instants before an earlier submission's.
func signed(t *rapid.T, d int64) int64 {
	if rapid.IntRange(0, 3).Draw(t, "backwards") == 0 {
		return -d
	}
	return d
}

type addChainRsp struct {
	SCTVersion *int    `json:"sct_version"`
	ID         *string `json:"id"`
	Timestamp  *uint64 `json:"timestamp"`
	Extensions *string `json:"extensions"`
	Signature  *string `json:"signature"`
}

// styledBody spells the same request in another legal way (see Case.BodyStyle).
func styledBody(chain [][]byte, style int) []byte {
	var b64 []string
	for _, c := range chain {
		b64 = append(b64, base64.StdEncoding.EncodeToString(c))
	}
	quote := func(s string) string { return `"` + s + `"` }
	switch style {
	case 1:
		out := " \n\t{\n  \"chain\" :\t[\n"
		for i, s := range b64 {
			out += "    " + quote(s)
			if i < len(b64)-1 {
				out += " ,"
			}
			out += "\r\n"
		}
		return []byte(out + "  ]\n}\n \n")
	case 2:
		return []byte(`{"aaa":{"chain":["AAAA"],"x":[1,2,{"chain":null}]},"chain":[` + strings.Join(mapStr(b64, quote), ",") + `],"zzz":null,"chains":["AAAA"]}`)
	case 3:
		esc := func(s string) string {
			return quote(strings.ReplaceAll(strings.ReplaceAll(s, "/", `\/`), "+", `\u002b`))
		}
		return []byte(`{"chain":[` + strings.Join(mapStr(b64, esc), ",") + `]}`)
	case 4:
		return []byte(`{"\u0063h\u0061in":[` + strings.Join(mapStr(b64, quote), ",") + `]}`)
	}
	return body(chain)
}

func mapStr(in []string, f func(string) string) []string {
	out := make([]string, len(in))
	for i, s := range in {
		out[i] = f(s)
	}
	return out
}

// dribble makes a request body arrive with unknown length, one octet per read.
func dribble(r *http.Request) {
	if r.Body != nil && r.Body != http.NoBody {
		r.Body = io.NopCloser(iotest.OneByteReader(r.Body))
		r.ContentLength = -1
		r.Header.Del("Content-Length")
		r.TransferEncoding = []string{"chunked"}
	}
}

func body(chain [][]byte) []byte {
	var req struct {
		Chain []string `json:"chain"`
	}
	for _, c := range chain {
		req.Chain = append(req.Chain, base64.StdEncoding.EncodeToString(c))
	}
	b, _ := json.Marshal(req)
	return b
}

// verifySig checks a TLS DigitallySigned (sha256 + ecdsa|rsa) over msg with stdlib crypto only.
func verifySig(pub crypto.PublicKey, ds rfc6962.DigitallySigned, msg []byte) error {
	if _, isEd := pub.(ed25519.PublicKey); !isEd && ds.Hash != 4 {
		return fmt.Errorf("hash algorithm %d, want sha256(4)", ds.Hash)
	}
	h := sha256.Sum256(msg)
	switch k := pub.(type) {
	case *ecdsa.PublicKey:
		if ds.Sig != 3 {
			return fmt.Errorf("signature algorithm %d, want ecdsa(3)", ds.Sig)
		}
		if !ecdsa.VerifyASN1(k, h[:], ds.Signature) {
			return fmt.Errorf("ECDSA signature does not verify")
		}
	case *rsa.PublicKey:
		if ds.Sig != 1 {
			return fmt.Errorf("signature algorithm %d, want rsa(1)", ds.Sig)
		}
		if err := rsa.VerifyPKCS1v15(k, crypto.SHA256, h[:], ds.Signature); err != nil {
			return err
		}
	case ed25519.PublicKey:
		// not an RFC 6962 algorithm: whatever code points are used, the signature must verify over the input
		if !ed25519.Verify(k, msg, ds.Signature) {
			return fmt.Errorf("Ed25519 signature does not verify over the signature input")
		}
	default:
		return fmt.Errorf("unexpected key type %T", pub)
	}
	return nil
}

// storedChainDER is what the external storage must hold for a submission: the DER SEQUENCE OF
// SEQUENCE { OCTET STRING } of the certificates after the leaf (asn1.Marshal of []ct.ASN1Cert).
func storedChainDER(b *world.Built) []byte {
	var parts [][]byte
	for _, c := range b.Full[1:] {
		parts = append(parts, derx.Seq(derx.Octets(c)))
	}
	return derx.Seq(parts...)
}

// hashFormExtraData is the TLS encoding of CertificateChainHash / PrecertChainEntryHash (types.go): an
// opaque<0..256> hash (2-byte length), preceded for precertificates by the ASN.1Cert<1..2^24-1>.
func hashFormExtraData(b *world.Built) ([]byte, string) {
	sum := sha256.Sum256(storedChainDER(b))
	var out []byte
	if b.Spec.Precert {
		l := len(b.Full[0])
		out = append(out, byte(l>>16), byte(l>>8), byte(l))
		out = append(out, b.Full[0]...)
	}
	out = append(out, 0, 32)
	out = append(out, sum[:]...)
	return out, string(sum[:])
}

func check(t *testing.T, c Case) (v harness.Verdict) {
	if c.Verbosity > 0 {
		harness.SetKlogVerbosity(c.Verbosity)
		defer harness.SetKlogVerbosity(0)
		v.Class(fmt.Sprintf("klog-v=%d", c.Verbosity))
	}
	logKey := keys.Pick(c.LogKeyKind, c.LogKeyIdx)
	be := reflog.New(6962, 1)
	be.DupAsRPCError = c.DupAsError
	clock := ctfex.NewClock(time.Unix(0, c.ClockNs))
	o := ctfex.Opts{LogKey: logKey, Roots: world.Roots(), Backend: be, Clock: clock, Inst: quotaOpts(c.QuotaUsers)}
	var store *memstore.Store
	if c.Indirect {
		store = memstore.New()
		o.ChainStorage = store
		v.Class("external-chain-storage")
	}
	inst, err := ctfex.New(o)
	if err != nil {
		t.Fatalf("instance: %v", err)
	}
	if c.Dribble {
		inst.ReqTweak = dribble
		v.Class("body-of-unknown-length-dribbled")
	}
	if c.BodyStyle != 0 {
		v.Class(fmt.Sprintf("json-body-style:%d", c.BodyStyle))
	}
	broken := map[int]bool{}
	for _, b := range c.BrokenWrites {
		broken[b] = true
	}
	nSubmit := 0
	if c.QuotaUsers {
		v.Class("quota-users-configured")
	}
	wantID := sha256.Sum256(logKey.SPKI)
	type first struct {
		built *world.Built
		ts    uint64
	}
	var firsts []first
	queuedUnanswered := map[string]bool{}
	if c.LogKeyKind[0] == 'r' {
		v.Class("rsa-log-key")
	}
	submit := func(i int, b *world.Built, chain [][]byte, dupOf *first) {
		path := "/ct/v1/add-chain"
		if b.Spec.Precert {
			path = "/ct/v1/add-pre-chain"
		}
		nQueue := len(be.CallsOf("QueueLeaf"))
		nEv := len(inst.Spy.Events)
		nowMs := uint64(clock.Now().UnixMilli())
		nSubmit++
		if broken[nSubmit-1] {
			// this client hangs up before the response is written; nothing is judged about this request
			inst.FailWrites = true
			inst.Post(path, styledBody(chain, c.BodyStyle))
			inst.FailWrites = false
			v.Class("client-hung-up")
			if dupOf == nil {
				// the entry may or may not have been queued; remember it as a first submission only if it was
				if q := be.CallsOf("QueueLeaf"); len(q) == nQueue+1 {
					firsts = append(firsts, first{b, nowMs})
				}
			}
			return
		}
		rsp := inst.Post(path, styledBody(chain, c.BodyStyle))
		if rsp.Status != 200 {
			if c.DupAsError && (dupOf != nil || queuedUnanswered[string(b.Leaf.DER)]) {
				// the backend gave no stored leaf: refusing is the only way not to invent a timestamp
				v.Class("duplicate-reported-as-rpc-error-refused")
				return
			}
			if c.LogKeyKind == "ed25519" && rsp.Status >= 500 {
				if len(be.CallsOf("QueueLeaf")) > nQueue {
					queuedUnanswered[string(b.Leaf.DER)] = true // queued although no SCT could be signed
				}
				v.Class("ed25519-log-key-refused")
				return
			}
			v.Failf("valid-chain-refused", "step %d: %s answered %d: %s", i, path, rsp.Status, rsp.Body)
			return
		}
		v.NonTrivial = true
		var r addChainRsp
		if err := json.Unmarshal(rsp.Body, &r); err != nil || r.SCTVersion == nil || r.ID == nil || r.Timestamp == nil || r.Extensions == nil || r.Signature == nil {
			v.Failf("bad-response", "step %d: add-chain body %q: %v", i, rsp.Body, err)
			return
		}
		id, e1 := base64.StdEncoding.DecodeString(*r.ID)
		ext, e2 := base64.StdEncoding.DecodeString(*r.Extensions)
		sigb, e3 := base64.StdEncoding.DecodeString(*r.Signature)
		if e1 != nil || e2 != nil || e3 != nil {
			v.Failf("bad-response", "step %d: base64 fields: %v %v %v", i, e1, e2, e3)
			return
		}
		if *r.SCTVersion != 0 {
			v.Failf("sct-version", "step %d: sct_version %d", i, *r.SCTVersion)
		}
		// (1) log ID
		if !bytes.Equal(id, wantID[:]) {
			v.Failf("log-id", "step %d: id %x, want SHA-256(SPKI) %x", i, id, wantID)
		}
		// (2) signature over the independently derived entry at the SCT's timestamp
		ds, rest, err := rfc6962.DecodeDS(sigb)
		if err != nil || len(rest) != 0 {
			v.Failf("bad-signature-encoding", "step %d: signature field does not decode as DigitallySigned: %v rest=%d", i, err, len(rest))
			return
		}
		entry := b.Entry()
		input, err := rfc6962.SCTSignatureInput(0, *r.Timestamp, entry, ext)
		if err != nil {
			t.Fatalf("reference input: %v", err)
		}
		if err := verifySig(logKey.Pub, ds, input); err != nil {
			v.Failf("sct-signature", "step %d (%s): SCT signature does not verify over the RFC 6962 entry at timestamp %d: %v", i, describe(b), *r.Timestamp, err)
		}
		// (3) the leaf handed to the backend
		q := be.CallsOf("QueueLeaf")
		if len(q) != nQueue+1 {
			v.Failf("queue-count", "step %d: %d QueueLeaf calls for one submission", i, len(q)-nQueue)
			return
		}
		leaf := q[nQueue].Req.(*trillian.QueueLeafRequest).Leaf
		wantLeaf, err := rfc6962.EncodeLeaf(rfc6962.Leaf{Timestamp: nowMs, Entry: entry})
		if err != nil {
			t.Fatalf("reference leaf: %v", err)
		}
		if !bytes.Equal(leaf.GetLeafValue(), wantLeaf) {
			v.Failf("leaf-value", "step %d (%s): LeafValue sent to the backend differs from the TLS encoding of the entry at clock time %d", i, describe(b), nowMs)
		}
		idh := sha256.Sum256(b.Leaf.DER)
		if !bytes.Equal(leaf.GetLeafIdentityHash(), idh[:]) {
			v.Failf("identity-hash", "step %d: LeafIdentityHash %x, want SHA-256(leaf certificate) %x", i, leaf.GetLeafIdentityHash(), idh)
		}
		if !c.Indirect {
			if !bytes.Equal(leaf.GetExtraData(), b.ExtraData()) {
				v.Failf("extra-data", "step %d (%s): ExtraData differs from the RFC 6962 chain encoding of the validated chain (root included)", i, describe(b))
			}
		} else {
			// hash-addressed form: (the submitted precertificate and) the SHA-256 of the stored chain; the chain
			// itself - every certificate after the leaf, root included - must be in storage under that hash
			want, key := hashFormExtraData(b)
			if !bytes.Equal(leaf.GetExtraData(), want) {
				v.Failf("extra-data-hash-form", "step %d (%s): ExtraData is not the hash-addressed form of the validated chain", i, describe(b))
			}
			if stored, ok := store.M[key]; !ok {
				v.Failf("chain-not-stored", "step %d (%s): a 200 was answered but the issuance chain is not in storage under its hash", i, describe(b))
			} else if !bytes.Equal(stored, storedChainDER(b)) {
				v.Failf("chain-stored-wrong", "step %d (%s): the chain stored under the hash is not the validated chain (root included)", i, describe(b))
			}
		}
		// (4) timestamp
		if dupOf == nil {
			if *r.Timestamp != nowMs {
				v.Failf("fresh-timestamp", "step %d: fresh submission got timestamp %d, clock says %d ms", i, *r.Timestamp, nowMs)
			}
		} else {
			v.Class("duplicate")
			if *r.Timestamp != dupOf.ts {
				v.Failf("duplicate-timestamp", "step %d: resubmission got timestamp %d, first submission had %d (clock now %d)", i, *r.Timestamp, dupOf.ts, nowMs)
			}
			if dupOf.ts != nowMs {
				v.Class("duplicate-after-clock-change")
			}
			if dupOf.ts > nowMs {
				v.Class("duplicate-at-earlier-clock")
			}
		}
		// (5) request log
		if len(inst.Spy.Events) != nEv+1 {
			v.Failf("request-log", "step %d: %d request-log records for one request", i, len(inst.Spy.Events)-nEv)
			return
		}
		ev := inst.Spy.Events[nEv]
		var idArr [32]byte
		copy(idArr[:], id)
		wantSCT, _ := rfc6962.EncodeSCT(rfc6962.SCT{Version: uint8(*r.SCTVersion), LogID: idArr, Timestamp: *r.Timestamp, Extensions: ext, Signature: ds})
		if len(ev.IssuedSCTs) != 1 || !bytes.Equal(ev.IssuedSCTs[0], wantSCT) {
			v.Failf("issue-sct-log", "step %d: RequestLog.IssueSCT called %d times / with bytes differing from the SCT returned", i, len(ev.IssuedSCTs))
		}
		if len(ev.Statuses) != 1 || ev.Statuses[0] != 200 {
			v.Failf("status-log", "step %d: RequestLog.Status calls %v", i, ev.Statuses)
		}
		if dupOf == nil {
			firsts = append(firsts, first{b, *r.Timestamp})
		}
		if b.Spec.Precert {
			v.Class("precert")
			if b.PreIssuer != nil {
				v.Class("precert-via-preissuer")
			}
		} else {
			v.Class("x509")
		}
		if len(chain) < len(b.Full) {
			v.Class("root-omitted")
		}
		if len(b.Full) >= 4 {
			v.Class("chain>=4")
		}
		switch {
		case b.Spec.RootOnly:
			v.Class("root-submitted-alone")
		case b.Spec.RootTwin == 1:
			v.Class("reissued-root-copy-in-chain")
		case b.Spec.RootTwin == 2:
			v.Class("cross-certificate-of-trusted-root-in-chain")
		}
		if n := len(b.Spec.Inters); n > 0 && strings.Contains(b.Spec.Inters[n-1], "-nonull") {
			v.Class("issuer-rsa-key-without-null-parameters")
		}
		if n := len(b.Spec.Inters); n > 0 && strings.HasSuffix(b.Spec.Inters[n-1], "-cteku") {
			v.Class("issuing-ca-lists-ct-eku")
		}
		if b.Spec.PreIssAKIFull {
			v.Class("pre-issuer-aki-with-issuer-and-serial")
		}
	}
	for i, s := range c.Steps {
		switch s.Kind {
		case "fresh":
			b := world.Build(*s.Spec)
			// a fresh spec yields the very certificate of an earlier step when it names the same root on its own
			// (or coincides in every choice under a deterministic signature scheme): that is a duplicate
			var dup *first
			for k := range firsts {
				if bytes.Equal(firsts[k].built.Leaf.DER, b.Leaf.DER) {
					f := firsts[k]
					dup = &f
					break
				}
			}
			if s.FailFirst > 0 && dup == nil && !broken[nSubmit] {
				ferr := []error{status.Error(codes.Unavailable, "injected"), status.Error(codes.DeadlineExceeded, "injected"), status.Error(codes.Internal, "injected"), errors.New("injected")}[(s.FailFirst-1)%4]
				be.Intercept = func(cl reflog.Call) (proto.Message, error, bool) {
					if cl.RPC == "QueueLeaf" {
						return nil, ferr, true
					}
					return nil, nil, false
				}
				path := "/ct/v1/add-chain"
				if b.Spec.Precert {
					path = "/ct/v1/add-pre-chain"
				}
				if rsp := inst.Post(path, styledBody(b.Submit, c.BodyStyle)); rsp.Status == 200 {
					v.Failf("sct-without-backend", "step %d: the backend refused QueueLeaf (%v), yet the answer is 200 %s", i, ferr, rsp.Body)
				}
				be.Intercept = nil
				clock.Add(time.Duration(s.AdvanceNs))
				v.Class("first-attempt-met-backend-fault")
			}
			submit(i, b, b.Submit, dup)
		case "resubmit":
			if len(firsts) == 0 {
				continue
			}
			f := firsts[s.Ref%len(firsts)]
			if sp := f.built.Spec; s.AltPath && !sp.RootOnly && (sp.Cross || sp.RootTwin != 0) {
				// the same certificate, another valid chain: this request's validated chain is what goes to the backend
				// with it; the duplicate answer still repeats the first timestamp
				alt := sp
				if sp.Cross {
					alt.CrossAlt = !sp.CrossAlt
				} else {
					alt.RootTwin = 0
				}
				ab := *world.Build(alt)
				ab.Leaf = f.built.Leaf
				ab.Path = append([]*pki.Cert{f.built.Leaf}, ab.Path[1:]...)
				ab.Full = append([][]byte{f.built.Leaf.DER}, ab.Full[1:]...)
				ab.Submit = ab.Full[:len(ab.Full)-1]
				if s.FlipRoot {
					ab.Submit = ab.Full
				}
				v.Class("resubmitted-through-another-valid-chain")
				f2 := f
				submit(i, &ab, ab.Submit, &f2)
				continue
			}
			chain := f.built.Submit
			if s.FlipRoot && !f.built.Spec.RootOnly {
				if len(chain) == len(f.built.Full) {
					chain = f.built.Full[:len(f.built.Full)-1]
				} else {
					chain = f.built.Full
				}
			}
			submit(i, f.built, chain, &f)
		case "foreign":
			// another front end of this log queued the entry some time ago; its stored leaf carries SCT extensions
			b := world.Build(*s.Spec)
			known := false
			for k := range firsts {
				known = known || bytes.Equal(firsts[k].built.Leaf.DER, b.Leaf.DER)
			}
			ms := clock.Now().UnixMilli() - s.AdvanceNs/1e6
			if known || ms < 0 || c.Indirect {
				continue
			}
			lv, err := rfc6962.EncodeLeaf(rfc6962.Leaf{Timestamp: uint64(ms), Entry: b.Entry(), Extensions: s.Ext})
			if err != nil {
				t.Fatalf("reference leaf: %v", err)
			}
			idh := sha256.Sum256(b.Leaf.DER)
			be.Preset(&trillian.LogLeaf{LeafValue: lv, ExtraData: b.ExtraData(), LeafIdentityHash: idh[:]})
			f := first{b, uint64(ms)}
			firsts = append(firsts, f)
			v.Class("entry-logged-by-another-front-end")
			if len(s.Ext) > 0 {
				v.Class("stored-entry-with-sct-extensions")
			}
			submit(i, b, b.Submit, &f)
		case "advance":
			if clock.Now().Add(time.Duration(s.AdvanceNs)).UnixNano() >= 0 {
				clock.Add(time.Duration(s.AdvanceNs))
				if s.AdvanceNs < 0 {
					v.Class("clock-stepped-back")
				}
			}
		case "sequence":
			be.Sequence(s.SeqN, uint64(clock.Now().UnixNano()))
		}
	}
	return v
}

// quotaOpts switches on the two optional quota-charging callbacks of the front end.
func quotaOpts(on bool) func(*ctfe.InstanceOptions) {
	if !on {
		return nil
	}
	return func(io *ctfe.InstanceOptions) {
		io.RemoteQuotaUser = func(r *http.Request) string { return "remote-user" }
		io.CertificateQuotaUser = func(c *x509.Certificate) string { return "@intermediate " + c.Subject.CommonName }
	}
}

func describe(b *world.Built) string {
	return fmt.Sprintf("precert=%v preissuer=%v piAKI=%v leafAKI=%v inters=%v leaf=%s poison@%d roottwin=%d rootonly=%v", b.Spec.Precert, b.Spec.PreIssuer, b.Spec.PreIssAKI, b.Spec.LeafAKI, b.Spec.Inters, b.Spec.LeafKind, b.Spec.PoisonPos, b.Spec.RootTwin, b.Spec.RootOnly)
}

var SCT = harness.Define(harness.Opts{
	Name:  "sct-binding",
	Rule:  "script of 1-8 steps (fresh add-chain/add-pre-chain of a generated PKI chain: 4 root kinds, 0-3 intermediates of mixed key types, pre-issuer or direct, AKI on either side, extension order, poison position, root included/omitted; resubmission incl. the other root variant; clock advance; sequencing) x log key in {P-256,P-384,RSA-2048,RSA-3072} x clock 1970..2200 with sub-ms parts; every 200 is judged against rfc6962 encoders, a byte-level TBS splice and stdlib signature verification. Non-trivial: a 200 answer was judged",
	Quick: 1500, Thorough: 6000,
}, gen, check)
