package c01

import (
	"testing"

	"verif/internal/harness"
)

func TestProps(t *testing.T) { harness.Main(t, "C01", SCT, Concurrent) }
