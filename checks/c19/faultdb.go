package c19

import (
	"context"
	"database/sql"
	"database/sql/driver"
	"errors"
	"sync"
	"sync/atomic"
)

// faultdb.go: a database/sql driver that delegates to the registered "sqlite3" driver and can be told to
// fail the next BEGIN / query / exec / COMMIT on a given database file (storage faults as data in the script).

const (
	faultNone = iota
	faultCommit
	faultExec
	faultQuery
	faultBegin
	faultRows // the row iterator of a query fails: driver.Rows.Next returns an error once (transient read fault)
	nFaults
)

var faultNames = []string{"none", "commit", "exec", "query", "begin", "rows-next"}

// faultPlan is shared by every connection to one database file.
type faultPlan struct {
	armed atomic.Int32 // fault kind to inject at the next matching call (one shot)
	pos   atomic.Int32 // faultRows: which Next call of the result set fails (0 = before the first row)
	fired atomic.Bool
	// pause point: the first call of kind pauseAt (faultExec: before the statement runs; faultCommit: before
	// COMMIT) announces itself on paused and blocks until resume is closed - the harness runs another
	// witness instance on the same file in between.
	pauseAt atomic.Int32
	paused  chan struct{}
	resume  chan struct{}
}

func (p *faultPlan) armPause(kind int) {
	p.paused = make(chan struct{}, 1)
	p.resume = make(chan struct{})
	p.pauseAt.Store(int32(kind))
}

func (p *faultPlan) pauseHere(kind int) {
	if p != nil && p.pauseAt.CompareAndSwap(int32(kind), faultNone) {
		p.paused <- struct{}{}
		<-p.resume
	}
}

func (p *faultPlan) arm(kind, pos int) {
	p.fired.Store(false)
	p.pos.Store(int32(pos))
	p.armed.Store(int32(kind))
}
func (p *faultPlan) disarm() bool { p.armed.Store(faultNone); return p.fired.Load() }
func (p *faultPlan) hit(kind int) bool {
	if p != nil && p.armed.CompareAndSwap(int32(kind), faultNone) {
		p.fired.Store(true)
		return true
	}
	return false
}

var faultPlans sync.Map // DSN -> *faultPlan

const faultDriverName = "sqlite3_c19fault"

// the real driver, obtained through database/sql (it is registered by the witness implementation)
var innerDriver = sync.OnceValue(func() driver.Driver {
	db, err := sql.Open("sqlite3", ":memory:")
	if err != nil {
		panic(err)
	}
	defer db.Close()
	return db.Driver()
})

type faultDriver struct{}

func init() { sql.Register(faultDriverName, faultDriver{}) }

func (faultDriver) Open(name string) (driver.Conn, error) {
	c, err := innerDriver().Open(name)
	if err != nil {
		return nil, err
	}
	var p *faultPlan
	if v, ok := faultPlans.Load(name); ok {
		p = v.(*faultPlan)
	}
	return &faultConn{Conn: c, plan: p}, nil
}

type faultConn struct {
	driver.Conn
	plan *faultPlan
}

var errInjected = errors.New("disk I/O error (injected by the C19 harness)")

func (c *faultConn) BeginTx(ctx context.Context, opts driver.TxOptions) (driver.Tx, error) {
	if c.plan.hit(faultBegin) {
		return nil, errInjected
	}
	tx, err := c.Conn.(driver.ConnBeginTx).BeginTx(ctx, opts)
	if err != nil {
		return nil, err
	}
	return faultTx{tx, c.plan}, nil
}

func (c *faultConn) ExecContext(ctx context.Context, q string, args []driver.NamedValue) (driver.Result, error) {
	c.plan.pauseHere(faultExec)
	if c.plan.hit(faultExec) {
		return nil, errInjected
	}
	return c.Conn.(driver.ExecerContext).ExecContext(ctx, q, args)
}

func (c *faultConn) QueryContext(ctx context.Context, q string, args []driver.NamedValue) (driver.Rows, error) {
	if c.plan.hit(faultQuery) {
		return nil, errInjected
	}
	rows, err := c.Conn.(driver.QueryerContext).QueryContext(ctx, q, args)
	if err == nil && c.plan != nil && c.plan.armed.Load() == faultRows {
		return &faultRowsIter{Rows: rows, plan: c.plan}, nil
	}
	return rows, err
}

// faultRowsIter fails the plan's pos-th Next call once; everything before and after is the real iterator.
type faultRowsIter struct {
	driver.Rows
	plan  *faultPlan
	calls int32
}

func (r *faultRowsIter) Next(dest []driver.Value) error {
	n := r.calls
	r.calls++
	if n == r.plan.pos.Load() && r.plan.hit(faultRows) {
		return errInjected
	}
	return r.Rows.Next(dest)
}

func (c *faultConn) PrepareContext(ctx context.Context, q string) (driver.Stmt, error) {
	return c.Conn.(driver.ConnPrepareContext).PrepareContext(ctx, q)
}

func (c *faultConn) Ping(ctx context.Context) error {
	if p, ok := c.Conn.(driver.Pinger); ok {
		return p.Ping(ctx)
	}
	return nil
}

type faultTx struct {
	driver.Tx
	plan *faultPlan
}

// Commit under fault: what sqlite does on SQLITE_FULL / SQLITE_IOERR at commit time - nothing becomes
// durable and the caller gets an error.
func (t faultTx) Commit() error {
	t.plan.pauseHere(faultCommit)
	if t.plan.hit(faultCommit) {
		_ = t.Tx.Rollback()
		return errInjected
	}
	return t.Tx.Commit()
}
