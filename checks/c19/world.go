// Package c19: the witness only ever cosigns a forward-moving, consistent history per log.
//
// world.go holds everything that is independent of the code under test: the tree family (ground truth),
// the candidate STH builder (RFC 6962 s3.5 signature input from verif/internal/rfc6962, stdlib signing,
// hand-written JSON), an independent parser / TLS encoder / verifier of cosigned STHs, and the two
// transports (direct method calls, in-process HTTP through the real server + gorilla mux).
package c19

import (
	"bytes"
	"context"
	"crypto"
	"crypto/ecdsa"
	"crypto/rand"
	"crypto/rsa"
	"crypto/sha256"
	"database/sql"
	"encoding/base64"
	"encoding/binary"
	"encoding/json"
	"encoding/pem"
	"fmt"
	"net/http"
	"net/http/httptest"
	"net/url"
	"os"
	"path/filepath"
	"strconv"
	"strings"
	"sync"

	ct "github.com/google/certificate-transparency-go"
	"github.com/google/certificate-transparency-go/verifhooks/witnessx"
	"github.com/gorilla/mux"
	"google.golang.org/grpc/codes"
	"google.golang.org/grpc/status"

	"verif/internal/keys"
	"verif/internal/mtree"
	"verif/internal/rfc6962"
)

// ---------------------------------------------------------------------------------------------------
// tree family (ground truth)

// Fork describes a tree that shares its first Prefix leaves with the honest tree and has Len leaves.
type Fork struct {
	Prefix int
	Len    int
}

// Family is tree 0 (honest, HonestLen leaves) plus the forks.
type Family struct {
	HonestLen int
	Forks     []Fork
}

type family struct {
	trees []*mtree.Tree
	roots [][]mtree.Hash // roots[t][s] = MTH(D_t[0:s])
}

func leafOf(tree, idx int) mtree.Hash {
	return sha256.Sum256([]byte(fmt.Sprintf("c19/tree%d/leaf%d", tree, idx)))
}

func buildFamily(f Family) *family {
	fam := &family{}
	honest := &mtree.Tree{}
	for i := 0; i < f.HonestLen; i++ {
		honest.AppendHash(leafOf(0, i))
	}
	fam.trees = append(fam.trees, honest)
	for k, fk := range f.Forks {
		t := &mtree.Tree{}
		for i := 0; i < fk.Len; i++ {
			if i < fk.Prefix && i < f.HonestLen {
				t.AppendHash(leafOf(0, i))
			} else {
				t.AppendHash(leafOf(k+1, i))
			}
		}
		fam.trees = append(fam.trees, t)
	}
	for _, t := range fam.trees {
		rs := make([]mtree.Hash, t.Size()+1)
		for s := 0; s <= t.Size(); s++ {
			rs[s] = t.Root(s)
		}
		fam.roots = append(fam.roots, rs)
	}
	return fam
}

// onFamily reports whether (size, root) is a head of some tree of the family.
func (f *family) onFamily(size uint64, root []byte) bool {
	for _, rs := range f.roots {
		if size < uint64(len(rs)) && bytes.Equal(rs[size][:], root) {
			return true
		}
	}
	return false
}

// extends is the ground truth of "genuine extension": both heads lie on one tree of the family and
// s1 <= s2. It is decided from the leaves, never from a proof.
func (f *family) extends(s1 uint64, r1 []byte, s2 uint64, r2 []byte) bool {
	if s1 > s2 {
		return false
	}
	for _, rs := range f.roots {
		if s2 < uint64(len(rs)) && bytes.Equal(rs[s2][:], r2) && bytes.Equal(rs[s1][:], r1) {
			return true
		}
	}
	return false
}

// ---------------------------------------------------------------------------------------------------
// keys and log identities

type logID struct {
	key *keys.Key
	id  string // base64(SHA-256(SPKI)) - computed here, compared with impl.LogIDFromPubKey in setup
	raw [32]byte
}

func newLogID(k *keys.Key) logID {
	h := sha256.Sum256(k.SPKI)
	return logID{key: k, id: base64.StdEncoding.EncodeToString(h[:]), raw: h}
}

// sigAlg returns the RFC 5246 SignatureAlgorithm octet for a pool key.
func sigAlg(k *keys.Key) uint8 {
	if strings.HasPrefix(k.Kind, "rsa") {
		return 1
	}
	return 3
}

// signSHA256 signs data with SHA-256 and the key's natural scheme (PKCS#1 v1.5 / ECDSA ASN.1).
func signSHA256(k *keys.Key, data []byte) []byte {
	h := sha256.Sum256(data)
	sig, err := k.Signer.Sign(rand.Reader, h[:], crypto.SHA256)
	if err != nil {
		panic(err)
	}
	return sig
}

func verifySHA256(pub crypto.PublicKey, alg uint8, data, sig []byte) bool {
	h := sha256.Sum256(data)
	switch p := pub.(type) {
	case *ecdsa.PublicKey:
		return alg == 3 && ecdsa.VerifyASN1(p, h[:], sig)
	case *rsa.PublicKey:
		return alg == 1 && rsa.VerifyPKCS1v15(p, crypto.SHA256, h[:], sig) == nil
	}
	return false
}

// ---------------------------------------------------------------------------------------------------
// candidate STHs

const (
	idAbsent = iota
	idRight
	idZero
	idWrong
	idOther
	nIDModes
)

const (
	signRight   = iota
	signForeign // a key no log is configured with
	signOther   // the key of another configured log (foreign when there is only one)
	signFlip    // right key, one signature bit flipped
	signSwap    // right key, but over a different tree head
	nSignModes
)

// cand is one candidate STH as sent on the wire, with its ground truth.
type cand struct {
	tree      int
	size      uint64
	timestamp uint64
	root      mtree.Hash
	sigHash   uint8
	sigAlg    uint8
	sig       []byte
	idMode    int
	signMode  int
	raw       []byte // the JSON sent to the witness
	sigValid  bool   // by construction
	idOK      bool   // by construction: log id field absent / all-zero / the right one
}

func b64(b []byte) string { return base64.StdEncoding.EncodeToString(b) }

// makeCand builds the STH (tree, size, timestamp) for log `target` (index into logs).
func makeCand(fam *family, logs []logID, foreign *keys.Key, target, tree int, size, timestamp uint64, signMode, idMode int, salt int) *cand {
	c := &cand{tree: tree, size: size, timestamp: timestamp, root: fam.roots[tree][size], sigHash: 4, idMode: idMode, signMode: signMode}
	right := logs[target]
	signer := right.key
	signSize, signRoot := size, c.root
	switch signMode {
	case signForeign:
		signer = foreign
	case signOther:
		if len(logs) > 1 {
			signer = logs[(target+1+salt%(len(logs)-1))%len(logs)].key
		} else {
			signer = foreign
		}
	case signSwap:
		signSize = size + 1
	}
	in, err := rfc6962.STHSignatureInput(0, timestamp, signSize, signRoot)
	if err != nil {
		panic(err)
	}
	c.sigAlg = sigAlg(signer)
	c.sig = signSHA256(signer, in)
	if signMode == signFlip {
		i := salt % (len(c.sig) * 8)
		c.sig[i/8] ^= 1 << (i % 8)
	}
	// validity by construction, cross-checked with the standard library (a flipped bit in the DER
	// framing of an ECDSA signature could in principle still verify; it cannot verify over other data).
	realIn, _ := rfc6962.STHSignatureInput(0, timestamp, size, c.root)
	c.sigValid = verifySHA256(right.key.Pub, c.sigAlg, realIn, c.sig)
	if (signMode == signRight) != c.sigValid && signMode != signFlip {
		panic(fmt.Sprintf("c19 harness: signature validity by construction (%d) disagrees with stdlib (%v)", signMode, c.sigValid))
	}
	ds, err := rfc6962.EncodeDS(rfc6962.DigitallySigned{Hash: c.sigHash, Sig: c.sigAlg, Signature: c.sig})
	if err != nil {
		panic(err)
	}
	var sb strings.Builder
	sb.WriteString(`{"tree_size":` + strconv.FormatUint(size, 10))
	sb.WriteString(`,"timestamp":` + strconv.FormatUint(timestamp, 10))
	sb.WriteString(`,"sha256_root_hash":"` + b64(c.root[:]) + `"`)
	sb.WriteString(`,"tree_head_signature":"` + b64(ds) + `"`)
	c.idOK = true
	switch idMode {
	case idRight:
		sb.WriteString(`,"log_id":"` + right.id + `"`)
	case idZero:
		sb.WriteString(`,"log_id":"` + b64(make([]byte, 32)) + `"`)
	case idWrong:
		h := sha256.Sum256([]byte(fmt.Sprintf("c19/wrong-id/%d", salt)))
		sb.WriteString(`,"log_id":"` + b64(h[:]) + `"`)
		c.idOK = false
	case idOther:
		if len(logs) > 1 {
			sb.WriteString(`,"log_id":"` + logs[(target+1+salt%(len(logs)-1))%len(logs)].id + `"`)
		} else {
			sb.WriteString(`,"log_id":"` + newLogID(foreign).id + `"`)
		}
		c.idOK = false
	}
	sb.WriteString(`}`)
	c.raw = []byte(sb.String())
	return c
}

// ---------------------------------------------------------------------------------------------------
// independent view of a (co)signed STH

type wireSTH struct {
	Version *uint64  `json:"sth_version"`
	Size    *uint64  `json:"tree_size"`
	TS      *uint64  `json:"timestamp"`
	Root    *string  `json:"sha256_root_hash"`
	Sig     *string  `json:"tree_head_signature"`
	LogID   *string  `json:"log_id"`
	WSigs   []string `json:"witness_signatures"`
}

type parsedSTH struct {
	version   uint64
	size      uint64
	timestamp uint64
	root      []byte
	ds        []byte // TLS DigitallySigned of the log
	logID     []byte // nil when absent
	wsigs     [][]byte
	cosigned  bool
}

func parseWire(b []byte) (*parsedSTH, error) {
	var w wireSTH
	if err := json.Unmarshal(b, &w); err != nil {
		return nil, err
	}
	if w.Size == nil || w.TS == nil || w.Root == nil || w.Sig == nil {
		return nil, fmt.Errorf("missing STH field in %q", b)
	}
	p := &parsedSTH{size: *w.Size, timestamp: *w.TS}
	if w.Version != nil {
		p.version = *w.Version
	}
	var err error
	if p.root, err = base64.StdEncoding.DecodeString(*w.Root); err != nil || len(p.root) != 32 {
		return nil, fmt.Errorf("bad root %q", *w.Root)
	}
	if p.ds, err = base64.StdEncoding.DecodeString(*w.Sig); err != nil {
		return nil, fmt.Errorf("bad signature %q", *w.Sig)
	}
	if w.LogID != nil {
		if p.logID, err = base64.StdEncoding.DecodeString(*w.LogID); err != nil || len(p.logID) != 32 {
			return nil, fmt.Errorf("bad log id %q", *w.LogID)
		}
	}
	if w.WSigs != nil {
		p.cosigned = true
		for _, s := range w.WSigs {
			d, err := base64.StdEncoding.DecodeString(s)
			if err != nil {
				return nil, fmt.Errorf("bad witness signature %q", s)
			}
			p.wsigs = append(p.wsigs, d)
		}
	}
	return p, nil
}

// cosignInput is the TLS encoding of the SignedTreeHead structure the witness signs, written by hand:
// [Version(1)] tree_size(8) timestamp(8) root(32) DigitallySigned log_id(32). The cosigned-STH format
// is the repository's own (no RFC): ct.SignedTreeHead.Version carries no `tls` tag, so tls.Marshal emits
// no octet for it (and refuses every version but 0). Both readings are accepted here.
func (p *parsedSTH) cosignInput(withVersion bool) []byte {
	var b bytes.Buffer
	if withVersion {
		b.WriteByte(byte(p.version))
	}
	var u [8]byte
	binary.BigEndian.PutUint64(u[:], p.size)
	b.Write(u[:])
	binary.BigEndian.PutUint64(u[:], p.timestamp)
	b.Write(u[:])
	b.Write(p.root)
	b.Write(p.ds)
	id := p.logID
	if id == nil {
		id = make([]byte, 32)
	}
	b.Write(id)
	return b.Bytes()
}

// verifyCosig checks, with the standard library only, that at least one witness signature is a valid
// signature of pub over the accompanying STH.
func (p *parsedSTH) verifyCosig(pub crypto.PublicKey) bool {
	for _, withVersion := range []bool{false, true} {
		in := p.cosignInput(withVersion)
		for _, ws := range p.wsigs {
			d, rest, err := rfc6962.DecodeDS(ws)
			if err != nil || len(rest) != 0 || d.Hash != 4 {
				continue
			}
			if verifySHA256(pub, d.Sig, in, d.Signature) {
				return true
			}
		}
	}
	return false
}

// matches reports whether the parsed STH is exactly candidate c as held for log l.
func (p *parsedSTH) matches(c *cand, l logID) string {
	ds, _ := rfc6962.EncodeDS(rfc6962.DigitallySigned{Hash: c.sigHash, Sig: c.sigAlg, Signature: c.sig})
	switch {
	case p.version != 0:
		return fmt.Sprintf("version %d", p.version)
	case p.size != c.size:
		return fmt.Sprintf("tree_size %d, want %d", p.size, c.size)
	case p.timestamp != c.timestamp:
		return fmt.Sprintf("timestamp %d, want %d", p.timestamp, c.timestamp)
	case !bytes.Equal(p.root, c.root[:]):
		return fmt.Sprintf("root %x, want %x", p.root, c.root)
	case !bytes.Equal(p.ds, ds):
		return "tree_head_signature differs"
	}
	if p.cosigned {
		if !bytes.Equal(p.logID, l.raw[:]) {
			return fmt.Sprintf("log_id %x, want %x", p.logID, l.raw)
		}
	}
	return ""
}

// tamper changes exactly one field of a cosigned STH (repository types; used with WitnessVerifier).
const nTamper = 9

func tamper(s *witnessx.CosignedSTH, which, salt int) string {
	switch which % nTamper {
	case 0:
		s.Version = ct.Version(1 + salt%255)
		return "version"
	case 1:
		s.TreeSize++
		return "tree_size+1"
	case 2:
		s.TreeSize ^= 1 << (uint(salt) % 64)
		return "tree_size-bit"
	case 3:
		s.Timestamp ^= 1 << (uint(salt) % 64)
		return "timestamp-bit"
	case 4:
		s.SHA256RootHash[salt%32] ^= 1 << (uint(salt) % 8)
		return "root-bit"
	case 5:
		sig := append([]byte(nil), s.TreeHeadSignature.Signature...)
		if len(sig) == 0 {
			sig = []byte{0}
		} else {
			sig[salt%len(sig)] ^= 1 << (uint(salt) % 8)
		}
		s.TreeHeadSignature.Signature = sig
		return "log-signature-bit"
	case 6:
		s.TreeHeadSignature.Algorithm.Hash ^= 1 // sha256(4) <-> sha384(5)
		return "log-signature-hashalg"
	case 7:
		s.TreeHeadSignature.Algorithm.Signature ^= 2 // rsa(1) <-> ecdsa(3)
		return "log-signature-sigalg"
	default:
		s.LogID[salt%32] ^= 1 << (uint(salt) % 8)
		return "log_id-bit"
	}
}

// ---------------------------------------------------------------------------------------------------
// the witness under test and its transports

type sut struct {
	w        *witnessx.Witness
	db       *sql.DB
	dir      string
	router   *mux.Router
	useHTTP  bool
	logs     []logID
	maxConns int
	plan     *faultPlan // non-nil: the database is opened through the fault-injecting driver
	dsn      string     // data source name; default: the plain path of witness.db in dir
	shared   bool       // a second instance on another sut's file: close leaves the directory alone
	wkey     *keys.Key
	wv       *witnessx.WitnessVerifier
}

// scratchRoot prefers a memory-backed directory: the database is still a real file with real sqlite
// file locking, but a commit does not wait for the disk (C19_TMP overrides; "" = os.TempDir()).
var scratchRoot = sync.OnceValue(findScratchRoot)

func findScratchRoot() string {
	if d := os.Getenv("C19_TMP"); d != "" {
		return d
	}
	if st, err := os.Stat("/dev/shm"); err == nil && st.IsDir() {
		if f, err := os.CreateTemp("/dev/shm", "c19-probe-"); err == nil {
			f.Close()
			os.Remove(f.Name())
			return "/dev/shm"
		}
	}
	return ""
}

func pemPKCS8(k *keys.Key) string {
	return string(pem.EncodeToMemory(&pem.Block{Type: "PRIVATE KEY", Bytes: k.PKCS8}))
}

// newSUT opens a fresh file-backed sqlite database and builds the witness the way impl.Main does:
// verifier map keyed by LogIDFromPubKey, optional SetMaxOpenConns(1), server + encoded-path router.
func newSUT(logs []logID, wkey *keys.Key, maxConns int, useHTTP, faults bool) (*sut, error) {
	dir, err := os.MkdirTemp(scratchRoot(), "c19-")
	if err != nil {
		return nil, err
	}
	s := &sut{dir: dir, useHTTP: useHTTP, wkey: wkey}
	if faults {
		s.plan = &faultPlan{}
	}
	ok := false
	defer func() {
		if !ok {
			s.close()
		}
	}()
	s.logs, s.maxConns = logs, maxConns
	if err := s.open(); err != nil {
		return nil, err
	}
	s.wv, err = witnessx.NewWitnessVerifier(wkey.Pub)
	if err != nil {
		return nil, err
	}
	ok = true
	return s, nil
}

// open (re)opens the database file and builds witness, server and router on it.
func (s *sut) open() error {
	var err error
	dsn := s.dsn
	if dsn == "" {
		dsn = filepath.Join(s.dir, "witness.db")
	}
	drv := "sqlite3"
	if s.plan != nil {
		drv = faultDriverName
		faultPlans.Store(dsn, s.plan)
	}
	s.db, err = sql.Open(drv, dsn)
	if err != nil {
		return err
	}
	if s.maxConns > 0 {
		s.db.SetMaxOpenConns(s.maxConns)
	}
	m := map[string]ct.SignatureVerifier{}
	for _, l := range s.logs {
		id, err := witnessx.LogIDFromPubKey(b64(l.key.SPKI))
		if err != nil {
			return err
		}
		if id != l.id {
			return fmt.Errorf("LogIDFromPubKey = %q, harness computed %q", id, l.id)
		}
		sv, err := ct.NewSignatureVerifier(l.key.Pub)
		if err != nil {
			return err
		}
		m[id] = *sv
	}
	s.w, err = witnessx.New(witnessx.Opts{DB: s.db, PrivKey: pemPKCS8(s.wkey), KnownLogs: m})
	if err != nil {
		return err
	}
	s.router = mux.NewRouter().UseEncodedPath()
	witnessx.NewServer(s.w).RegisterHandlers(s.router)
	return nil
}

// restart closes the database and brings a new witness up on the same file (process restart).
func (s *sut) restart() error {
	if err := s.db.Close(); err != nil {
		return err
	}
	s.db = nil
	return s.open()
}

func (s *sut) close() {
	if s.db != nil {
		s.db.Close()
	}
	if s.shared {
		return
	}
	faultPlans.Delete(filepath.Join(s.dir, "witness.db"))
	faultPlans.Delete(s.dsn)
	os.RemoveAll(s.dir)
}

// newTwins builds two witness instances (same configuration, same key) on ONE database file, each with its
// own database/sql handle limited to one connection as deployed: a is opened through the fault-injecting
// driver (so that it can be paused between its read and its write), b through the plain sqlite3 driver.
// busyMs is sqlite's busy timeout for both handles.
func newTwins(logs []logID, wkey *keys.Key, busyMs int) (a, b *sut, err error) {
	dir, err := os.MkdirTemp(scratchRoot(), "c19-")
	if err != nil {
		return nil, nil, err
	}
	dsn := fmt.Sprintf("file:%s?_busy_timeout=%d", filepath.Join(dir, "witness.db"), busyMs)
	a = &sut{dir: dir, dsn: dsn, wkey: wkey, logs: logs, maxConns: 1, plan: &faultPlan{}}
	b = &sut{dir: dir, dsn: dsn, wkey: wkey, logs: logs, maxConns: 1, shared: true}
	for _, s := range []*sut{a, b} {
		if err = s.open(); err == nil {
			s.wv, err = witnessx.NewWitnessVerifier(wkey.Pub)
		}
		if err != nil {
			b.close()
			a.close()
			return nil, nil, err
		}
	}
	return a, b, nil
}

// reply is what one call returned: ok = success (nil error / HTTP 200), body = returned bytes.
type reply struct {
	ok       bool
	body     []byte
	note     string // error text or HTTP status
	conflict bool   // refusal that carries an STH: non-nil bytes next to the error / HTTP 409
	outdated bool   // refusal signalled as "caller out of date": gRPC FailedPrecondition / HTTP 409
}

func (s *sut) update(id string, sth []byte, proof [][]byte) reply {
	return s.updateCtx(context.Background(), id, sth, proof)
}

// updateCtx issues the update under the caller's context (direct: passed to Update; HTTP: the request context).
func (s *sut) updateCtx(ctx context.Context, id string, sth []byte, proof [][]byte) reply {
	if !s.useHTTP {
		b, err := s.w.Update(ctx, id, sth, proof)
		if err != nil {
			return reply{ok: false, body: b, note: err.Error(), conflict: b != nil, outdated: status.Code(err) == codes.FailedPrecondition}
		}
		return reply{ok: true, body: b}
	}
	body, err := json.Marshal(struct {
		STH   []byte
		Proof [][]byte
	}{sth, proof})
	if err != nil {
		panic(err)
	}
	return s.do(ctx, "PUT", fmt.Sprintf(witnessx.HTTPUpdate, url.PathEscape(id)), body)
}

func (s *sut) getSTH(id string) reply {
	if !s.useHTTP {
		b, err := s.w.GetSTH(id)
		if err != nil {
			return reply{ok: false, body: b, note: err.Error()}
		}
		return reply{ok: true, body: b}
	}
	return s.do(context.Background(), "GET", fmt.Sprintf(witnessx.HTTPGetSTH, url.PathEscape(id)), nil)
}

func (s *sut) getLogs() ([]string, reply) {
	if !s.useHTTP {
		l, err := s.w.GetLogs()
		if err != nil {
			return nil, reply{note: err.Error()}
		}
		return l, reply{ok: true}
	}
	r := s.do(context.Background(), "GET", witnessx.HTTPGetLogs, nil)
	if !r.ok {
		return nil, r
	}
	var l []string
	if err := json.Unmarshal(r.body, &l); err != nil {
		return nil, reply{body: r.body, note: "get-logs body is not a JSON string list: " + err.Error()}
	}
	return l, r
}

func (s *sut) do(ctx context.Context, method, path string, body []byte) reply {
	req := httptest.NewRequest(method, "http://witness.test"+path, bytes.NewReader(body)).WithContext(ctx)
	rec := httptest.NewRecorder()
	s.router.ServeHTTP(rec, req)
	return reply{ok: rec.Code == http.StatusOK, body: rec.Body.Bytes(), note: "HTTP " + strconv.Itoa(rec.Code), conflict: rec.Code == http.StatusConflict, outdated: rec.Code == http.StatusConflict}
}

// checkCosigned judges one cosigned STH returned by the witness against the candidate the oracle
// expects to be held: same tree head, filled-in log id, cosignature valid under the witness key (stdlib
// and WitnessVerifier), and the cosignature dies with a single-field change. Returns (sig, message).
func (s *sut) checkCosigned(body []byte, want *cand, l logID, tamperWhich, salt int) (string, string) {
	p, err := parseWire(body)
	if err != nil {
		return "cosigned-unparsable", err.Error()
	}
	if !p.cosigned || len(p.wsigs) == 0 {
		return "cosigned-missing-signature", fmt.Sprintf("no witness signature in %q", body)
	}
	if d := p.matches(want, l); d != "" {
		return "cosigned-wrong-sth", d
	}
	if !p.verifyCosig(s.wkey.Pub) {
		return "cosignature-invalid", fmt.Sprintf("no witness signature verifies (stdlib) over the accompanying STH %q", body)
	}
	var cs witnessx.CosignedSTH
	if err := json.Unmarshal(body, &cs); err != nil {
		return "cosigned-unparsable", "api.CosignedSTH: " + err.Error()
	}
	if err := s.wv.VerifySignature(cs); err != nil {
		return "cosignature-invalid-verifier", "WitnessVerifier.VerifySignature: " + err.Error()
	}
	what := tamper(&cs, tamperWhich, salt)
	if err := s.wv.VerifySignature(cs); err == nil {
		return "cosignature-survives-tamper", "WitnessVerifier accepts the cosignature after changing " + what
	}
	return "", ""
}
